(* DrainFilterWalkOk.v — the loop of DrainFilter::next (behind Vec::drain_filter and Vec::retain) as
   /repo's source has it (LeafActual.src_procs, "vec_drain_filter_next": the `while` statement
   translated by tools/rs2v.py on every run; the iterator's fields idx, del, old_len are read as local
   variables and `(self.pred)` as the caller's closure `pred`).  Each round: take the index, advance
   idx, count the element as removed (del + 1) BEFORE the predicate runs on it, ask the predicate
   about the place v[i]; on "remove" read the element out and return; otherwise take it off the
   removed count again and, if anything was removed before it, copy it del places down.
   For every state and every script of answers / panics one call of next() is the function nrun, and
   nrun is VecModel.df_next: the same questions in the same order, the same copies, the same idx and
   del afterwards — in particular a panicking predicate leaves idx and del both advanced, so the
   element is leaked and never duplicated (F7, repaired by 5d8b743). *)
From BV Require Import Word WordFacts VecModel RustSem LeafActual DedupWalkOk.
From Coq Require Import String List Lia Arith ZifyBool ZifyN ZifyNat.
Import ListNotations.
Open Scope string_scope.
Open Scope N_scope.

Definition nloop : list stmt :=
  match lookup "vec_drain_filter_next" src_procs with Some p => proc_body p | None => [] end.

Definition ncond : expr := EBin BNe (EVar "idx") (EVar "old_len").
Definition vi : expr := EMeth1 (EVar "v") "index" (EVar "i").
Definition vdst : expr := EMeth1 (EVar "v") "index" (EBin BSub (EVar "i") (EVar "del")).
Definition nshift : list stmt :=
  [SLet "del" (EVar "del"); SLet "src" vi; SLet "dst" vdst;
   SDo "copy_nonoverlapping" [EVar "src"; EVar "dst"; ELit 1]].
Definition nbody : list stmt :=
  [SLet "i" (EVar "idx");
   SSet "idx" (EBin BAdd (EVar "idx") (ELit 1));
   SSet "del" (EBin BAdd (EVar "del") (ELit 1));
   SLet "v" (ECall2 "from_raw_parts_mut" (EMeth0 (EMeth0 (EVar "self") "vec") "as_mut_ptr") (EVar "old_len"));
   SIfAsk false "pred" [vi] [SDo "read" [vi]; SReturn] [];
   SSet "del" (EBin BSub (EVar "del") (ELit 1));
   SIf (EBin BGt (EVar "del") (ELit 0)) nshift []].

(* the procedure parsed from the source is this loop *)
Lemma nloop_is : nloop = [SWhile ncond nbody].
Proof. reflexivity. Qed.

Definition sl (base ol : N) : val := VRec [("as_mut_ptr", VN base); ("len", VN ol)].
Definition nenv (base ol idx del : N) (ti tv ts td : val) : env :=
  [("self", VRec [("vec", VRec [("as_mut_ptr", VN base)])]); ("old_len", VN ol); ("idx", VN idx); ("del", VN del);
   ("i", ti); ("v", tv); ("src", ts); ("dst", td)].

Definition e_pred (a : N) : effect := ("pred", [VN a]).
Definition e_read (a : N) : effect := ("read", [VN a]).
Definition e_copy (s d : N) : effect := ("copy_nonoverlapping", [VN s; VN d; VN 1]).

Ltac nsimpl :=
  cbv beta iota zeta delta
    [eval eval_args upd nenv sl lookup bind finish meth0 meth1 arith fn_params fn_body
     FUEL_SEM String.eqb Ascii.eqb Bool.eqb xorb List.app List.combine List.length Nat.eqb negb fst snd vi vdst].

Lemma ev_ncond base ol idx del ti tv ts td :
  eval src_fns FUEL_SEM (nenv base ol idx del ti tv ts td) ncond = Ret (VB (negb (idx =? ol))).
Proof. reflexivity. Qed.
Lemma ev_idx base ol idx del ti tv ts td :
  eval src_fns FUEL_SEM (nenv base ol idx del ti tv ts td) (EVar "idx") = Ret (VN idx).
Proof. reflexivity. Qed.
Lemma ev_idx1 base ol idx del ti tv ts td : idx + 1 < W ->
  eval src_fns FUEL_SEM (nenv base ol idx del ti tv ts td) (EBin BAdd (EVar "idx") (ELit 1)) = Ret (VN (idx + 1)).
Proof. intros H. apply N.ltb_lt in H. nsimpl. rewrite H. reflexivity. Qed.
Lemma ev_del1 base ol idx del ti tv ts td : del + 1 < W ->
  eval src_fns FUEL_SEM (nenv base ol idx del ti tv ts td) (EBin BAdd (EVar "del") (ELit 1)) = Ret (VN (del + 1)).
Proof. intros H. apply N.ltb_lt in H. nsimpl. rewrite H. reflexivity. Qed.
Lemma ev_slice base ol idx del ti tv ts td :
  eval src_fns FUEL_SEM (nenv base ol idx del ti tv ts td)
    (ECall2 "from_raw_parts_mut" (EMeth0 (EMeth0 (EVar "self") "vec") "as_mut_ptr") (EVar "old_len")) = Ret (sl base ol).
Proof. reflexivity. Qed.
Lemma ev_vi base ol idx del i ts td : i < ol -> base + i < W ->
  eval src_fns FUEL_SEM (nenv base ol idx del (VN i) (sl base ol) ts td) vi = Ret (VN (base + i)).
Proof. intros H1 H2. apply N.ltb_lt in H1. apply N.ltb_lt in H2. nsimpl. rewrite H1, H2. reflexivity. Qed.
Lemma ev_vi_args base ol idx del i ts td : i < ol -> base + i < W ->
  eval_args src_fns (nenv base ol idx del (VN i) (sl base ol) ts td) [vi] = Some [VN (base + i)].
Proof. intros H1 H2. cbn [eval_args]. rewrite ev_vi by assumption. reflexivity. Qed.
Lemma ev_delm1 base ol idx del ti tv ts td : 1 <= del ->
  eval src_fns FUEL_SEM (nenv base ol idx del ti tv ts td) (EBin BSub (EVar "del") (ELit 1)) = Ret (VN (del - 1)).
Proof. intros H. apply N.leb_le in H. nsimpl. rewrite H. reflexivity. Qed.
Lemma ev_gt base ol idx del ti tv ts td :
  eval src_fns FUEL_SEM (nenv base ol idx del ti tv ts td) (EBin BGt (EVar "del") (ELit 0)) = Ret (VB (0 <? del)).
Proof. reflexivity. Qed.
Lemma ev_del base ol idx del ti tv ts td :
  eval src_fns FUEL_SEM (nenv base ol idx del ti tv ts td) (EVar "del") = Ret (VN del).
Proof. reflexivity. Qed.
Lemma ev_vdst base ol idx del i ts td : del <= i -> i < ol -> base + ol < W ->
  eval src_fns FUEL_SEM (nenv base ol idx del (VN i) (sl base ol) ts td) vdst = Ret (VN (base + (i - del))).
Proof.
  intros H1 H2 H3. apply N.leb_le in H1.
  assert (A : (i - del <? ol) = true) by (apply N.ltb_lt; lia).
  assert (B : (base + (i - del) <? W) = true) by (apply N.ltb_lt; lia).
  nsimpl. rewrite H1. nsimpl. rewrite A, B. reflexivity.
Qed.
Lemma ev_copy_args base ol idx del ti tv a b :
  eval_args src_fns (nenv base ol idx del ti tv (VN a) (VN b)) [EVar "src"; EVar "dst"; ELit 1] = Some [VN a; VN b; VN 1].
Proof. reflexivity. Qed.

(* the environment keeps its shape *)
Lemma upd_i base ol idx del ti tv ts td v : upd "i" v (nenv base ol idx del ti tv ts td) = nenv base ol idx del v tv ts td.
Proof. reflexivity. Qed.
Lemma upd_v base ol idx del ti tv ts td v : upd "v" v (nenv base ol idx del ti tv ts td) = nenv base ol idx del ti v ts td.
Proof. reflexivity. Qed.
Lemma upd_src base ol idx del ti tv ts td v : upd "src" v (nenv base ol idx del ti tv ts td) = nenv base ol idx del ti tv v td.
Proof. reflexivity. Qed.
Lemma upd_dst base ol idx del ti tv ts td v : upd "dst" v (nenv base ol idx del ti tv ts td) = nenv base ol idx del ti tv ts v.
Proof. reflexivity. Qed.
Lemma upd_idx base ol idx del ti tv ts td v : upd "idx" (VN v) (nenv base ol idx del ti tv ts td) = nenv base ol v del ti tv ts td.
Proof. reflexivity. Qed.
Lemma upd_del base ol idx del ti tv ts td v : upd "del" (VN v) (nenv base ol idx del ti tv ts td) = nenv base ol idx v ti tv ts td.
Proof. reflexivity. Qed.

Definition nfuel (f : nat) : nat := S (S (S (S (S (S (S (S (S (S (S (S f))))))))))).

Ltac step :=
  first [ rewrite exec_let | rewrite exec_set | rewrite exec_do | rewrite exec_if | rewrite exec_ifask | rewrite exec_nil ].

(* the common prefix of a round: up to the question *)
Ltac prefix :=
  unfold nfuel, nbody;
  step; rewrite ev_idx, upd_i;
  step; rewrite ev_idx1 by lia; rewrite upd_idx;
  step; rewrite ev_del1 by lia; rewrite upd_del;
  step; rewrite ev_slice, upd_v;
  step; rewrite ev_vi_args by lia.

(* the predicate says "remove": the element is read out and next() returns, idx and del advanced *)
Lemma round_yes base ol idx del ti tv ts td tr sc f :
  idx < ol -> base + ol < W -> del <= idx ->
  exec src_fns (nfuel f) (nenv base ol idx del ti tv ts td) tr (Some true :: sc) nbody
  = XRet (nenv base ol (idx + 1) (del + 1) (VN idx) (sl base ol) ts td)
         (List.app tr [e_pred (base + idx); e_read (base + idx)]) sc.
Proof.
  intros H1 H2 H3. prefix. cbn [xorb].
  step. rewrite ev_vi_args by lia.
  unfold e_pred, e_read. rewrite <- app_assoc. reflexivity.
Qed.

(* the predicate panics: idx and del are both already advanced *)
Lemma round_boom base ol idx del ti tv ts td tr sc f :
  idx < ol -> base + ol < W -> del <= idx ->
  exec src_fns (nfuel f) (nenv base ol idx del ti tv ts td) tr (None :: sc) nbody
  = XPanic (nenv base ol (idx + 1) (del + 1) (VN idx) (sl base ol) ts td) (List.app tr [e_pred (base + idx)]).
Proof. intros H1 H2 H3. prefix. reflexivity. Qed.

(* the predicate says "keep", nothing removed so far: nothing moves *)
Lemma round_no_still base ol idx ti tv ts td tr sc f :
  idx < ol -> base + ol < W ->
  exec src_fns (nfuel f) (nenv base ol idx 0 ti tv ts td) tr (Some false :: sc) nbody
  = XOk (nenv base ol (idx + 1) 0 (VN idx) (sl base ol) ts td) (List.app tr [e_pred (base + idx)]) sc.
Proof.
  intros H1 H2. prefix. cbn [xorb]. step.
  step. rewrite ev_delm1 by lia. rewrite upd_del. replace (0 + 1 - 1) with 0 by lia.
  step. rewrite ev_gt. replace (0 <? 0) with false by reflexivity.
  step. step. reflexivity.
Qed.

(* the predicate says "keep", del > 0 removed before it: the element moves del places down *)
Lemma round_no_shift base ol idx del ti tv ts td tr sc f :
  idx < ol -> base + ol < W -> del <= idx -> 0 < del ->
  exec src_fns (nfuel f) (nenv base ol idx del ti tv ts td) tr (Some false :: sc) nbody
  = XOk (nenv base ol (idx + 1) del (VN idx) (sl base ol) (VN (base + idx)) (VN (base + (idx - del))))
        (List.app tr [e_pred (base + idx); e_copy (base + idx) (base + (idx - del))]) sc.
Proof.
  intros H1 H2 H3 H4. prefix. cbn [xorb]. step.
  step. rewrite ev_delm1 by lia. rewrite upd_del. replace (del + 1 - 1) with del by lia.
  step. rewrite ev_gt. replace (0 <? del) with true by (symmetry; apply N.ltb_lt; exact H4).
  unfold nshift.
  step. rewrite ev_del, upd_del.
  step. rewrite ev_vi by lia. rewrite upd_src.
  step. rewrite ev_vdst by lia. rewrite upd_dst.
  step. rewrite ev_copy_args. step. step.
  unfold e_pred, e_copy. rewrite <- app_assoc. reflexivity.
Qed.

(* one call of next(): elements still to look at, idx, del, script ->
   effects, idx after, del after, how it ended, script left *)
Inductive nend := NItem (a : N) | NDone | NBoom.

Fixpoint nrun (base : N) (j : nat) (idx del : N) (sc : list (option bool))
  : list effect * N * N * nend * list (option bool) :=
  match j with
  | O => ([], idx, del, NDone, sc)
  | S j' =>
      match sc with
      | [] => ([], idx, del, NDone, sc)
      | None :: r => ([e_pred (base + idx)], idx + 1, del + 1, NBoom, r)
      | Some true :: r => ([e_pred (base + idx); e_read (base + idx)], idx + 1, del + 1, NItem (base + idx), r)
      | Some false :: r =>
          let '(t, i2, d2, e, rest) := nrun base j' (idx + 1) del r in
          (e_pred (base + idx) :: (if 0 <? del then [e_copy (base + idx) (base + (idx - del))] else []) ++ t, i2, d2, e, rest)
      end
  end.

Definition lfuel (n extra : nat) : nat := S (nfuel (n + extra)).

Theorem next_is_nrun : forall n sc base ol idx del ti tv ts td tr extra,
  N.to_nat (ol - idx) = n -> idx <= ol -> del <= idx -> base + ol < W -> (n <= List.length sc)%nat ->
  let '(t, i2, d2, e, rest) := nrun base n idx del sc in
  exists ti' tv' ts' td',
    exec src_fns (lfuel n extra) (nenv base ol idx del ti tv ts td) tr sc nloop =
    match e with
    | NItem _ => XRet (nenv base ol i2 d2 ti' tv' ts' td') (List.app tr t) rest
    | NBoom => XPanic (nenv base ol i2 d2 ti' tv' ts' td') (List.app tr t)
    | NDone => XOk (nenv base ol i2 d2 ti' tv' ts' td') (List.app tr t) rest
    end.
Proof.
  rewrite nloop_is.
  induction n as [|n IH]; intros sc base ol idx del ti tv ts td tr extra Hn Hle Hd Hw Hlen.
  - cbn [nrun]. exists ti, tv, ts, td. unfold lfuel. rewrite exec_while, ev_ncond.
    replace (idx =? ol) with true by (symmetry; apply N.eqb_eq; lia). cbn [negb].
    unfold nfuel. rewrite exec_nil, app_nil_r. reflexivity.
  - assert (Hlt : idx < ol) by lia.
    destruct sc as [|a rest]; [cbn in Hlen; lia|]. cbn [List.length] in Hlen.
    change (lfuel (S n) extra) with (S (lfuel n extra)).
    assert (Hn' : N.to_nat (ol - (idx + 1)) = n) by lia.
    cbn [nrun]. rewrite exec_while, ev_ncond.
    replace (idx =? ol) with false by (symmetry; apply N.eqb_neq; lia). cbn [negb].
    change (lfuel n extra) with (nfuel (S (n + extra))) at 1.
    destruct a as [[|]|].
    + rewrite round_yes by assumption. exists (VN idx), (sl base ol), ts, td. reflexivity.
    + destruct (N.eq_dec del 0) as [Hz | Hnz].
      * subst del. rewrite round_no_still by assumption.
        specialize (IH rest base ol (idx + 1) 0 (VN idx) (sl base ol) ts td (List.app tr [e_pred (base + idx)]) extra
                       Hn' ltac:(lia) ltac:(lia) Hw ltac:(lia)).
        replace (0 <? 0) with false by reflexivity.
        destruct (nrun base n (idx + 1) 0 rest) as [[[[t i2] d2] e] rest'].
        destruct IH as (a1 & a2 & a3 & a4 & E). exists a1, a2, a3, a4. rewrite E.
        rewrite <- app_assoc. cbn [List.app]. reflexivity.
      * rewrite round_no_shift by (assumption || lia).
        specialize (IH rest base ol (idx + 1) del (VN idx) (sl base ol) (VN (base + idx)) (VN (base + (idx - del)))
                       (List.app tr [e_pred (base + idx); e_copy (base + idx) (base + (idx - del))]) extra
                       Hn' ltac:(lia) ltac:(lia) Hw ltac:(lia)).
        replace (0 <? del) with true by (symmetry; apply N.ltb_lt; lia).
        destruct (nrun base n (idx + 1) del rest) as [[[[t i2] d2] e] rest'].
        destruct IH as (a1 & a2 & a3 & a4 & E). exists a1, a2, a3, a4. rewrite E.
        rewrite <- !app_assoc. cbn [List.app]. reflexivity.
    + rewrite round_boom by assumption. exists (VN idx), (sl base ol), ts, td. reflexivity.
Qed.

(* ---------- and that function is VecModel.df_next ---------- *)
Definition script_of (a : cans) : option bool :=
  match a with Yes => Some true | No => Some false | Boom => None end.

(* the copies of a trace, applied to the model's buffer in order *)
Fixpoint apply_copies (base : N) (t : list effect) (buf : list slot) : list slot :=
  match t with
  | [] => buf
  | ("copy_nonoverlapping", [VN s; VN d; VN k]) :: r =>
      apply_copies base r (copy_within buf (N.to_nat (s - base)) (N.to_nat (d - base)) (N.to_nat k))
  | _ :: r => apply_copies base r buf
  end.

Definition res_of (buf : list slot) (base : N) (e : nend) : dfres :=
  match e with NItem a => DfItem (get_slot buf (N.to_nat (a - base))) | NDone => DfDone | NBoom => DfBoom end.

Theorem nrun_is_df_next : forall n ans base buf ol idx del fuel,
  (ol - idx = n)%nat -> (idx <= ol)%nat -> (del <= idx)%nat -> (n <= List.length ans)%nat -> (n < fuel)%nat ->
  (forall k, (k < n)%nat -> nth k ans Yes <> Yes -> nth k ans Yes <> Boom -> True) ->
  let '(t, i2, d2, e, rest) := nrun base n (N.of_nat idx) (N.of_nat del) (map script_of ans) in
  let '(buf', i', d', ans', r) := df_next buf ol idx del ans fuel in
  buf' = apply_copies base t buf /\ N.of_nat i' = i2 /\ N.of_nat d' = d2 /\
  r = res_of buf' base e /\ map script_of ans' = rest.
Proof.
  induction n as [|n IH]; intros ans base buf ol idx del fuel Hn Hle Hd Hlen Hf _.
  - destruct fuel as [|fuel]; [lia|]. cbn [nrun df_next].
    replace (Nat.eqb idx ol) with true by (symmetry; apply Nat.eqb_eq; lia).
    cbn [apply_copies res_of]. repeat split; reflexivity.
  - destruct fuel as [|fuel]; [lia|]. destruct ans as [|a rest]; [cbn in Hlen; lia|]. cbn [List.length] in Hlen.
    cbn [nrun df_next map].
    replace (Nat.eqb idx ol) with false by (symmetry; apply Nat.eqb_neq; lia).
    destruct a; cbn [script_of].
    + cbn [apply_copies res_of e_pred e_read]. repeat split; try lia.
      f_equal. f_equal. lia.
    + specialize (IH rest base
                     (if Nat.eqb del 0 then buf else copy_within buf idx (idx - del)%nat 1%nat)
                     ol (idx + 1)%nat del fuel ltac:(lia) ltac:(lia) ltac:(lia) ltac:(lia) ltac:(lia) (fun _ _ _ _ => I)).
      replace (N.of_nat (idx + 1)) with (N.of_nat idx + 1) in IH by lia.
      destruct (nrun base n (N.of_nat idx + 1) (N.of_nat del) (map script_of rest)) as [[[[t i2] d2] e] rest'].
      destruct (df_next (if Nat.eqb del 0 then buf else copy_within buf idx (idx - del)%nat 1%nat) ol (idx + 1)%nat del rest fuel)
        as [[[[buf' i'] d'] ans'] r].
      destruct IH as (A & B & C & D & E). repeat split; try assumption.
      rewrite A. destruct (Nat.eqb del 0) eqn:Ez.
      * apply Nat.eqb_eq in Ez. subst del. replace (0 <? N.of_nat 0) with false by reflexivity.
        cbn [List.app apply_copies e_pred]. reflexivity.
      * apply Nat.eqb_neq in Ez. replace (0 <? N.of_nat del) with true by (symmetry; apply N.ltb_lt; lia).
        cbn [List.app apply_copies e_pred e_copy].
        replace (N.to_nat (base + N.of_nat idx - base)) with idx by lia.
        replace (N.to_nat (base + (N.of_nat idx - N.of_nat del) - base)) with (idx - del)%nat by lia.
        reflexivity.
    + cbn [apply_copies res_of e_pred]. repeat split; lia.
Qed.

Example drain_filter_walk_ex :
  exec src_fns (lfuel 4 0) (nenv 1000 4 0 0 VUnit VUnit VUnit VUnit) [] [Some false; Some true; Some false; Some true] nloop
  = XRet (nenv 1000 4 2 1 (VN 1) (sl 1000 4) VUnit VUnit) [e_pred 1000; e_pred 1001; e_read 1001] [Some false; Some true].
Proof. vm_compute. reflexivity. Qed.

Example drain_filter_walk_ex2 :
  exec src_fns (lfuel 2 0) (nenv 1000 4 2 1 (VN 1) (sl 1000 4) VUnit VUnit) [] [Some false; None] nloop
  = XPanic (nenv 1000 4 4 2 (VN 3) (sl 1000 4) (VN 1002) (VN 1001)) [e_pred 1002; e_copy 1002 1001; e_pred 1003].
Proof. vm_compute. reflexivity. Qed.
