(* ArenaSpec.v — the arena properties as boolean predicates over *observations*
   (what a client or the global allocator can see).  The same predicates are
   (a) the statements of the theorems in Props/, instantiated with the model's
   observations, and (b) extracted and evaluated on the implementation's own
   observations by the correspondence driver.  No proofs in this file. *)
From BV Require Import Word ArenaModel.

Definition gblock := (N * N * N)%type.     (* (addr, size, align) held from the global allocator *)
Definition blk := (N * N)%type.            (* (addr, size) of a live client block *)

Definition g_addr (g : gblock) : N := fst (fst g).
Definition g_sz (g : gblock) : N := snd (fst g).
Definition g_al (g : gblock) : N := snd g.

Definition sumN (l : list N) : N := fold_right N.add 0 l.

(* ---- C08: byte accounting ---- *)
Definition sp_accounting (k : cfg) (held : list gblock) (ab abim : N) : bool :=
  (abim =? sumN (map g_sz held)) &&
  (ab + N.of_nat (length held) * k_footer k =? abim).

(* ---- C03: frees ---- *)
Definition gblock_eqb (a b : gblock) : bool :=
  (g_addr a =? g_addr b) && (g_sz a =? g_sz b) && (g_al a =? g_al b).
Fixpoint remove_g (g : gblock) (held : list gblock) : option (list gblock) :=
  match held with
  | [] => None
  | h :: t => if gblock_eqb g h then Some t
              else match remove_g g t with Some t' => Some (h :: t') | None => None end
  end.
(* every free hands back a block that is held, with its layout; returns what is left *)
Fixpoint apply_frees (frees : list gblock) (held : list gblock) : option (list gblock) :=
  match frees with
  | [] => Some held
  | f :: fs => match remove_g f held with Some h' => apply_frees fs h' | None => None end
  end.

(* ---- C01: a block handed out lies in the data part of a held chunk, away from
        every live block ---- *)
Definition in_chunk (k : cfg) (g : gblock) (p size : N) : bool :=
  (g_addr g <=? p) && (p + size <=? g_addr g + (g_sz g - k_footer k)) && (k_footer k <=? g_sz g).
Definition disjointb (p size : N) (b : blk) : bool :=
  (size =? 0) || (snd b =? 0) || (p + size <=? fst b) || (fst b + snd b <=? p).
Definition sp_block_ok (k : cfg) (held : list gblock) (live : list blk) (p size : N) : bool :=
  negb (p =? 0) &&
  ((size =? 0) || existsb (fun g => in_chunk k g p size) held) &&
  forallb (disjointb p size) live.

(* ---- C04: alignment ---- *)
Definition sp_aligned (k : cfg) (p align : N) : bool :=
  (p mod align =? 0) && (p mod k_malign k =? 0).

(* ---- C07: a chunk obtained under a limit ---- *)
Definition sp_limit_ok (k : cfg) (lim : option N) (ab_before size : N) : bool :=
  match lim with None => true | Some L => ab_before + (size - k_footer k) <=? L end.

(* ---- C18: a chunk obtained at the first attempt, with no limit set, at least doubles
   the usable size of the chunk before it (and covers the request) ---- *)
Definition sp_growth_ok (k : cfg) (lim : option N) (prev_size new_size req_size : N) : bool :=
  match lim with
  | Some _ => true
  | None => (2 * (prev_size - k_footer k) <=? new_size - k_footer k) && (req_size <=? new_size - k_footer k)
  end.

(* ---- C18, whole history: while every chunk was obtained at the first attempt with no limit in
   force, the blocks held (sizes, newest first) form a doubling chain: each usable size at least
   twice the one before, none below the default, so their number is logarithmic in the newest and
   their sum is at most twice the newest ---- *)
Fixpoint sp_doubling (k : cfg) (sizes : list N) : bool :=
  match sizes with
  | s2 :: r => (match r with s1 :: _ => 2 * (s1 - k_footer k) <=? s2 - k_footer k | [] => true end) && sp_doubling k r
  | [] => true
  end.
Definition sp_chain_ok (k : cfg) (sizes : list N) : bool :=
  sp_doubling k sizes && forallb (fun s => k_default k <=? s - k_footer k) sizes &&
  match sizes with
  | [] => true
  | s :: r => (k_default k * 2 ^ N.of_nat (length r) <=? s - k_footer k) &&
              (sumN (map (fun x => x - k_footer k) sizes) <=? 2 * (s - k_footer k))
  end.

(* ---- C10, byte-exact clause: in a history of uniform allocations the slices hold
   exactly the bytes that were allocated since the last reset ---- *)
Definition sp_iter_exact (slices : list (N * N)) (allocated : N) : bool :=
  fold_left (fun a s => a + snd s) slices 0 =? allocated.

(* ---- C10: shape of chunk iteration ---- *)
Definition slice_ok (k : cfg) (g : gblock) (s : N * N) : bool :=
  (g_addr g <=? fst s) && (fst s + snd s =? g_addr g + (g_sz g - k_footer k)).
Fixpoint slices_ok (k : cfg) (held : list gblock) (sl : list (N * N)) : bool :=
  match held, sl with
  | [], [] => true
  | g :: hs, s :: ss => slice_ok k g s && slices_ok k hs ss
  | _, _ => false
  end.
Definition in_slice (b : blk) (s : N * N) : bool :=
  (fst s <=? fst b) && (fst b + snd b <=? fst s + snd s).
Definition count_in (b : blk) (sl : list (N * N)) : nat :=
  length (filter (in_slice b) sl).
Definition sp_iter_ok (k : cfg) (held : list gblock) (live : list blk) (sl : list (N * N)) : bool :=
  slices_ok k held sl &&
  forallb (fun b => (snd b =? 0) || Nat.eqb (count_in b sl) 1) live.

(* ---- C06: state right after reset ---- *)
Definition sp_reset_ok (k : cfg) (held_before held_after : list gblock) (sl : list (N * N)) (cap : N)
  : bool :=
  match held_before with
  | [] => match held_after, sl with [], [] => true | _, _ => false end
  | g :: _ =>
      match held_after, sl with
      | [g'], [s] => gblock_eqb g g' && (snd s =? 0) && (cap =? g_sz g - k_footer k)
      | _, _ => false
      end
  end.

(* ---- C20: finger stores go to footers of chunks the arena holds ---- *)
Definition footer_of (k : cfg) (g : gblock) : N := g_addr g + (g_sz g - k_footer k).
Definition sp_stores_owned (k : cfg) (held : list gblock) (stores : list N) : bool :=
  forallb (fun s => existsb (fun g => footer_of k g =? s) held) stores.

(* ---- C18: chunk_capacity never overstates; capacity honoured (see Props/C18) ---- *)
