(* Borrow.v — C05: a small client language over one arena, what goes wrong at run
   time when the arena is misused, and the borrow discipline that the public
   signatures impose.  The discipline is parameterised by facts read from the
   source on every run (SigFactsActual.v). *)
From BV Require Import Word.
From Coq Require Import Lia Arith PeanoNat.

Inductive stmt :=
| SAlloc (r : nat)         (* r := something that borrows from the arena: a.alloc(..), Vec::new_in(&a), String, Box, .. *)
| SUse (r : nat)           (* the borrow is used *)
| SReset                   (* a.reset() *)
| SIterBegin (i : nat)     (* i := a.iter_allocated_chunks() *)
| SIterUse (i : nat)
| SDropArena               (* drop(a) *)
| SMoveArena               (* let b = a; *)
| SSpawnShare              (* two threads use &a at the same time *)
| SSpawnMove               (* the arena is moved to another thread and dropped there *)
| SSpawnRef (r : nat).     (* the collection r is moved to another thread, which grows it while this thread allocates *)

Record facts := mkFacts {
  f_alloc_shared : bool;   (* allocation methods take &self and their result borrows from it *)
  f_reset_excl : bool;     (* reset takes &mut self *)
  f_iter_excl : bool;      (* iter_allocated_chunks takes &mut self *)
  f_send : bool;           (* Bump: Send *)
  f_sync : bool;           (* Bump: Sync *)
  f_coll_send : bool       (* Vec / String: Send (they hold a &Bump) *)
}.

Definition facts_ok (f : facts) : bool :=
  f_alloc_shared f && f_reset_excl f && f_iter_excl f && negb (f_sync f) && negb (f_coll_send f).

(* the auto-trait questions a client can ask, and what the facts answer *)
Inductive tquery := QBumpSend | QBumpSync | QRefBumpSend | QCollSend.
Definition trait_holds (f : facts) (q : tquery) : bool :=
  match q with
  | QBumpSend => f_send f
  | QBumpSync => f_sync f
  | QRefBumpSend => f_sync f          (* &T: Send iff T: Sync *)
  | QCollSend => f_coll_send f        (* the buffer pointer is a NonNull: never Send by itself *)
  end.

(* ---------- what really happens ---------- *)
Record dyn := mkDyn {
  d_refs : list nat;       (* references that still point to live memory *)
  d_iters : list nat;      (* chunk iterators that still see a stable chunk list *)
  d_arena : bool           (* the arena still exists in this scope *)
}.
Definition dyn0 : dyn := mkDyn [] [] true.

Definition memb (x : nat) (l : list nat) : bool := existsb (Nat.eqb x) l.

(* one step; None = undefined behaviour (dangling use, iterator over a changing
   arena, data race) or a use of something that does not exist *)
Definition dstep (d : dyn) (s : stmt) : option dyn :=
  match s with
  | SAlloc r => if d_arena d then Some (mkDyn (r :: d_refs d) [] true) else None
  | SUse r => if memb r (d_refs d) then Some d else None
  | SReset => if d_arena d then Some (mkDyn [] [] true) else None
  | SIterBegin i => if d_arena d then Some (mkDyn (d_refs d) (i :: d_iters d) true) else None
  | SIterUse i => if memb i (d_iters d) then Some d else None
  | SDropArena => if d_arena d then Some (mkDyn [] [] false) else None
  | SMoveArena => if d_arena d then Some (mkDyn [] [] false) else None
  | SSpawnShare => None                                   (* two threads bump the same finger: a data race *)
  | SSpawnMove => if d_arena d then Some (mkDyn [] [] false) else None
  | SSpawnRef _ => None                                   (* the same race, through the collection's &Bump *)
  end.

Fixpoint drun (d : dyn) (p : list stmt) : bool :=         (* true = no misuse happened *)
  match p with
  | [] => true
  | s :: rest => match dstep d s with Some d' => drun d' rest | None => false end
  end.

(* ---------- the static discipline ---------- *)
Fixpoint uses_ref (r : nat) (p : list stmt) : bool :=
  match p with
  | [] => false
  | SUse r' :: rest => Nat.eqb r r' || uses_ref r rest
  | SAlloc r' :: rest => if Nat.eqb r r' then false else uses_ref r rest    (* shadowed by a new binding *)
  | _ :: rest => uses_ref r rest
  end.
Fixpoint uses_iter (i : nat) (p : list stmt) : bool :=
  match p with
  | [] => false
  | SIterUse i' :: rest => Nat.eqb i i' || uses_iter i rest
  | SIterBegin i' :: rest => if Nat.eqb i i' then false else uses_iter i rest
  | _ :: rest => uses_iter i rest
  end.

Record st := mkSt { s_refs : list nat; s_iters : list nat; s_arena : bool }.
Definition st0 : st := mkSt [] [] true.

Definition no_live_refs (f : facts) (c : st) (rest : list stmt) : bool :=
  negb (f_alloc_shared f) || forallb (fun r => negb (uses_ref r rest)) (s_refs c).
Definition no_live_iters (f : facts) (c : st) (rest : list stmt) : bool :=
  negb (f_iter_excl f) || forallb (fun i => negb (uses_iter i rest)) (s_iters c).

(* does the compiler accept the program? *)
Fixpoint accepts (f : facts) (c : st) (p : list stmt) : bool :=
  match p with
  | [] => true
  | s :: rest =>
      match s with
      | SAlloc r =>
          s_arena c && no_live_iters f c rest &&
          accepts f (mkSt (r :: s_refs c) (s_iters c) true) rest
      | SUse r => memb r (s_refs c) && accepts f c rest
      | SReset =>
          s_arena c && (negb (f_reset_excl f) || (no_live_refs f c rest && no_live_iters f c rest)) &&
          accepts f c rest
      | SIterBegin i =>
          (* an earlier iterator of the same name is shadowed: it can never be used again *)
          s_arena c && no_live_refs f c rest &&
          no_live_iters f (mkSt (s_refs c) (filter (fun x => negb (Nat.eqb x i)) (s_iters c)) true) rest &&
          accepts f (mkSt (s_refs c) (i :: s_iters c) true) rest
      | SIterUse i => memb i (s_iters c) && accepts f c rest
      | SDropArena | SMoveArena =>
          s_arena c && no_live_refs f c rest && no_live_iters f c rest &&
          accepts f (mkSt (s_refs c) (s_iters c) false) rest
      | SSpawnShare => s_arena c && f_sync f && no_live_iters f c rest && accepts f c rest
      | SSpawnMove =>
          s_arena c && f_send f && no_live_refs f c rest && no_live_iters f c rest &&
          accepts f (mkSt (s_refs c) (s_iters c) false) rest
      | SSpawnRef r =>
          s_arena c && memb r (s_refs c) && f_coll_send f && negb (uses_ref r rest) &&
          no_live_iters f c rest &&
          accepts f (mkSt (filter (fun x => negb (Nat.eqb x r)) (s_refs c)) (s_iters c) true) rest
      end
  end.

(* ---------- soundness ---------- *)
(* every borrow that is still going to be used points to live memory *)
Definition agree (c : st) (d : dyn) (rest : list stmt) : Prop :=
  s_arena c = d_arena d /\
  (forall r, memb r (s_refs c) = true -> uses_ref r rest = true -> memb r (d_refs d) = true) /\
  (forall i, memb i (s_iters c) = true -> uses_iter i rest = true -> memb i (d_iters d) = true).

Lemma forallb_memb (P : nat -> bool) l x : forallb P l = true -> memb x l = true -> P x = true.
Proof.
  intros H M. unfold memb in M. apply existsb_exists in M. destruct M as (y & Hy & E).
  apply Nat.eqb_eq in E. subst y. rewrite forallb_forall in H. apply H. exact Hy.
Qed.

Lemma memb_filter_neq x y l : Nat.eqb x y = false -> memb x l = true ->
  memb x (filter (fun z => negb (Nat.eqb z y)) l) = true.
Proof.
  intros E M. unfold memb in *. apply existsb_exists in M. destruct M as (z & Hz & Ez).
  apply Nat.eqb_eq in Ez. subst z. apply existsb_exists. exists x. split; [|apply Nat.eqb_refl].
  apply filter_In. split; [exact Hz|]. rewrite E. reflexivity.
Qed.

Lemma memb_cons x y l : memb x (y :: l) = Nat.eqb x y || memb x l.
Proof. reflexivity. Qed.

Theorem accepts_sound f : facts_ok f = true ->
  forall p c d, agree c d p -> accepts f c p = true -> drun d p = true.
Proof.
  intros F. unfold facts_ok in F. rewrite !andb_true_iff in F. destruct F as [[[[Fa Fr] Fi] Fs] Fc].
  apply negb_true_iff in Fs. apply negb_true_iff in Fc.
  induction p as [|s rest IH]; intros c d (Ha & Hr & Hi) Acc; [reflexivity|].
  cbn [drun]. destruct s; cbn [accepts dstep] in *.
  - (* SAlloc *)
    rewrite !andb_true_iff in Acc. destruct Acc as [[A1 A2] A3]. rewrite <- Ha, A1.
    refine (IH _ _ _ A3). unfold agree; cbn [s_arena d_arena s_refs d_refs s_iters d_iters].
    split; [reflexivity|]. split.
    + intros r0 M U. rewrite memb_cons in *. destruct (Nat.eqb r0 r) eqn:E; [reflexivity|]. cbn [orb] in *.
      apply Hr; [exact M|]. cbn [uses_ref]. rewrite E. exact U.
    + intros i M U. exfalso. unfold no_live_iters in A2. rewrite Fi in A2. cbn [negb orb] in A2.
      pose proof (forallb_memb _ _ _ A2 M) as Q. cbv beta in Q. rewrite U in Q. discriminate.
  - (* SUse *)
    rewrite andb_true_iff in Acc. destruct Acc as [A1 A2].
    assert (V : memb r (d_refs d) = true).
    { apply Hr; [exact A1|]. cbn [uses_ref]. rewrite Nat.eqb_refl. reflexivity. }
    rewrite V. apply (IH c d); [|exact A2]. split; [exact Ha|]. split.
    + intros r0 M U. apply Hr; [exact M|]. cbn [uses_ref]. rewrite U. apply orb_true_r.
    + intros i M U. apply Hi; [exact M | exact U].
  - (* SReset *)
    rewrite !andb_true_iff in Acc. destruct Acc as [[A1 A2] A3]. rewrite <- Ha, A1.
    rewrite Fr in A2. cbn [negb orb] in A2. rewrite andb_true_iff in A2. destruct A2 as [L1 L2].
    refine (IH c _ _ A3). unfold agree; cbn [d_arena d_refs d_iters].
    split; [rewrite A1; reflexivity|]. split.
    + intros r0 M U. exfalso. unfold no_live_refs in L1. rewrite Fa in L1. cbn [negb orb] in L1.
      pose proof (forallb_memb _ _ _ L1 M) as Q. cbv beta in Q. rewrite U in Q. discriminate.
    + intros i M U. exfalso. unfold no_live_iters in L2. rewrite Fi in L2. cbn [negb orb] in L2.
      pose proof (forallb_memb _ _ _ L2 M) as Q. cbv beta in Q. rewrite U in Q. discriminate.
  - (* SIterBegin *)
    rewrite !andb_true_iff in Acc. destruct Acc as [[[A1 L1] L2] A3]. rewrite <- Ha, A1.
    refine (IH _ _ _ A3). unfold agree; cbn [s_arena d_arena s_refs d_refs s_iters d_iters].
    split; [reflexivity|]. split.
    + intros r0 M U. exfalso. unfold no_live_refs in L1. rewrite Fa in L1. cbn [negb orb] in L1.
      pose proof (forallb_memb _ _ _ L1 M) as Q. cbv beta in Q. rewrite U in Q. discriminate.
    + intros i0 M U. rewrite memb_cons in *. destruct (Nat.eqb i0 i) eqn:E; [reflexivity|]. cbn [orb] in *.
      exfalso. unfold no_live_iters in L2. rewrite Fi in L2. cbn [negb orb s_iters] in L2.
      pose proof (forallb_memb _ _ _ L2 (memb_filter_neq _ _ _ E M)) as Q. cbv beta in Q. rewrite U in Q. discriminate.
  - (* SIterUse *)
    rewrite andb_true_iff in Acc. destruct Acc as [A1 A2].
    assert (V : memb i (d_iters d) = true).
    { apply Hi; [exact A1|]. cbn [uses_iter]. rewrite Nat.eqb_refl. reflexivity. }
    rewrite V. apply (IH c d); [|exact A2]. split; [exact Ha|]. split.
    + intros r0 M U. apply Hr; [exact M | exact U].
    + intros i0 M U. apply Hi; [exact M|]. cbn [uses_iter]. rewrite U. apply orb_true_r.
  - (* SDropArena *)
    rewrite !andb_true_iff in Acc. destruct Acc as [[[A1 L1] L2] A3]. rewrite <- Ha, A1.
    refine (IH _ _ _ A3). unfold agree; cbn [s_arena d_arena s_refs d_refs s_iters d_iters].
    split; [reflexivity|]. split.
    + intros r0 M U. exfalso. unfold no_live_refs in L1. rewrite Fa in L1. cbn [negb orb] in L1.
      pose proof (forallb_memb _ _ _ L1 M) as Q. cbv beta in Q. rewrite U in Q. discriminate.
    + intros i M U. exfalso. unfold no_live_iters in L2. rewrite Fi in L2. cbn [negb orb] in L2.
      pose proof (forallb_memb _ _ _ L2 M) as Q. cbv beta in Q. rewrite U in Q. discriminate.
  - (* SMoveArena *)
    rewrite !andb_true_iff in Acc. destruct Acc as [[[A1 L1] L2] A3]. rewrite <- Ha, A1.
    refine (IH _ _ _ A3). unfold agree; cbn [s_arena d_arena s_refs d_refs s_iters d_iters].
    split; [reflexivity|]. split.
    + intros r0 M U. exfalso. unfold no_live_refs in L1. rewrite Fa in L1. cbn [negb orb] in L1.
      pose proof (forallb_memb _ _ _ L1 M) as Q. cbv beta in Q. rewrite U in Q. discriminate.
    + intros i M U. exfalso. unfold no_live_iters in L2. rewrite Fi in L2. cbn [negb orb] in L2.
      pose proof (forallb_memb _ _ _ L2 M) as Q. cbv beta in Q. rewrite U in Q. discriminate.
  - (* SSpawnShare: never accepted, Bump is not Sync *)
    rewrite Fs in Acc. destruct (s_arena c); cbn in Acc; discriminate.
  - (* SSpawnMove *)
    rewrite !andb_true_iff in Acc. destruct Acc as [[[[A1 _] L1] L2] A3]. rewrite <- Ha, A1.
    refine (IH _ _ _ A3). unfold agree; cbn [s_arena d_arena s_refs d_refs s_iters d_iters].
    split; [reflexivity|]. split.
    + intros r0 M U. exfalso. unfold no_live_refs in L1. rewrite Fa in L1. cbn [negb orb] in L1.
      pose proof (forallb_memb _ _ _ L1 M) as Q. cbv beta in Q. rewrite U in Q. discriminate.
    + intros i M U. exfalso. unfold no_live_iters in L2. rewrite Fi in L2. cbn [negb orb] in L2.
      pose proof (forallb_memb _ _ _ L2 M) as Q. cbv beta in Q. rewrite U in Q. discriminate.
  - (* SSpawnRef: never accepted, neither Vec/String nor &Bump is Send *)
    rewrite Fc in Acc. rewrite !andb_false_r in Acc. cbn in Acc. discriminate.
Qed.

Lemma agree0 p : agree st0 dyn0 p.
Proof. unfold agree, st0, dyn0; cbn. split; [reflexivity|]. split; intros; discriminate. Qed.

Theorem accepted_programs_are_safe f p :
  facts_ok f = true -> accepts f st0 p = true -> drun dyn0 p = true.
Proof. intros F A. apply (accepts_sound f F p st0 dyn0 (agree0 p) A). Qed.
