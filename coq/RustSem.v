(* RustSem.v — a deep embedding of the expression fragment of Rust in which the
   arithmetic leaf functions of bumpalo are written (usize arithmetic, Option,
   checked/saturating methods, match on Option, if/else, let, `?`, struct
   literals), with an evaluator.  tools/rs2v.py parses the functions out of
   /repo/src on every run and emits them as terms of `expr` (LeafActual.v);
   LeafActualOk.v proves that their meaning is the hand-written model's.
   Definitions only. *)
From BV Require Import Word.
From Coq Require Import String.
Open Scope string_scope.
Open Scope N_scope.

Inductive binop :=
| BAdd | BSub | BMul | BDiv | BRem | BShl | BShr | BAnd | BOr | BXor   (* on usize *)
| BLt | BLe | BGt | BGe | BEq | BNe                                   (* comparisons *)
| BLAnd | BLOr.                                                       (* && || (lazy) *)

Inductive expr :=
| ELit (n : N)
| EBool (b : bool)
| EVar (x : string)                      (* local, parameter, constant, or `self.…` *)
| EBin (op : binop) (a b : expr)
| ENot (a : expr)                        (* `!` : bitwise on usize, logical on bool *)
| EMeth0 (recv : expr) (m : string)
| EMeth1 (recv : expr) (m : string) (arg : expr)
| ELam (x : string) (body : expr)        (* closure, only as a method argument *)
| EPath (f : string)                     (* a function passed by name, e.g. allocation_size_overflow *)
| ECall1 (f : string) (a : expr)
| ECall2 (f : string) (a b : expr)
| ESome (a : expr)                       (* Some(e) / Ok(e) *)
| ENone                                  (* None / Err(_) *)
| ETry (a : expr)                        (* e? *)
| EIf (c a b : expr)
| EMatchOpt (s : expr) (x : string) (some_br none_br : expr)
| ELet (x : string) (e body : expr)
| EStruct (fs : list (string * expr))
| EMatchOrd (a b : expr) (lt eq gt : expr)   (* match a.cmp(&b) { Less => .., Equal => .., Greater => .. } *)
| EReturn (a : expr)                     (* return e *)
| EPanic                                 (* panic!() / unreachable *)
| EUnit.

Inductive val :=
| VN (n : N) | VB (b : bool) | VNone | VSome (v : val) | VRec (fs : list (string * val))
| VClo (x : string) (body : expr) | VFn (f : string) | VUnit
| VPtr (addr : N) (pointee : val).       (* NonNull<Record>: an address and what is there *)

Inductive outcome :=
| Ret (v : val)
| Early (v : val)       (* `?` left the function with this value *)
| Panic                 (* an explicit panic (unwrap_or_else(allocation_size_overflow), panic!()) *)
| Ovf                   (* unchecked arithmetic overflowed: debug builds panic, release builds wrap *)
| Stuck.                (* outside the fragment / ill-typed / out of fuel *)

Record fndef := mkFn { fn_params : list string; fn_body : expr }.
Definition env := list (string * val).
Definition fntab := list (string * fndef).

Fixpoint lookup {A} (x : string) (l : list (string * A)) : option A :=
  match l with
  | [] => None
  | (y, v) :: r => if String.eqb x y then Some v else lookup x r
  end.

Definition lnot64 (n : N) : N := N.lnot n 64.

Definition arith (op : binop) (a b : N) : outcome :=
  match op with
  | BAdd => if a + b <? W then Ret (VN (a + b)) else Ovf
  | BSub => if b <=? a then Ret (VN (a - b)) else Ovf
  | BMul => if a * b <? W then Ret (VN (a * b)) else Ovf
  | BDiv => if b =? 0 then Panic else Ret (VN (a / b))
  | BRem => if b =? 0 then Panic else Ret (VN (a mod b))
  | BShl => if (b <? 64) && (N.shiftl a b <? W) then Ret (VN (N.shiftl a b)) else Ovf
  | BShr => if b <? 64 then Ret (VN (N.shiftr a b)) else Ovf
  | BAnd => Ret (VN (N.land a b))
  | BOr => Ret (VN (N.lor a b))
  | BXor => Ret (VN (N.lxor a b))
  | BLt => Ret (VB (a <? b))
  | BLe => Ret (VB (a <=? b))
  | BGt => Ret (VB (b <? a))
  | BGe => Ret (VB (b <=? a))
  | BEq => Ret (VB (a =? b))
  | BNe => Ret (VB (negb (a =? b)))
  | BLAnd | BLOr => Stuck
  end.

(* methods whose argument is a plain value *)
Definition meth1 (m : string) (r a : val) : outcome :=
  match m, r, a with
  | "checked_add", VN x, VN y => Ret (if x + y <? W then VSome (VN (x + y)) else VNone)
  | "checked_sub", VN x, VN y => Ret (if y <=? x then VSome (VN (x - y)) else VNone)
  | "checked_mul", VN x, VN y => Ret (if x * y <? W then VSome (VN (x * y)) else VNone)
  | "saturating_sub", VN x, VN y => Ret (VN (x - y))
  | "saturating_add", VN x, VN y => Ret (VN (if x + y <? W then x + y else USIZE_MAX))
  | "wrapping_sub", VN x, VN y => Ret (VN (wsub x y))
  | "wrapping_add", VN x, VN y => Ret (VN (wadd x y))
  | "add", VN x, VN y => if x + y <? W then Ret (VN (x + y)) else Ovf     (* <*mut u8>::add: addresses are numbers *)
  | "offset", VN x, VN y => if x + y <? W then Ret (VN (x + y)) else Ovf  (* <*mut T>::offset with a non-negative count, in elements *)
  | "offset_back", VN x, VN y => if y <=? x then Ret (VN (x - y)) else Ovf  (* <*mut T>::offset(-y), in elements *)
  | "offset_from", VPtr x _, VN y => if y <=? x then Ret (VN (x - y)) else Stuck   (* distance in bytes from y up to the pointee's address; a negative distance is outside the fragment *)
  | "max", VN x, VN y => Ret (VN (N.max x y))
  | "min", VN x, VN y => Ret (VN (N.min x y))
  | "unwrap_or", VSome v, _ => Ret v
  | "unwrap_or", VNone, d => Ret d
  | "ok_or", VSome v, _ => Ret (VSome v)        (* Result with one error value = Option *)
  | "ok_or", VNone, _ => Ret VNone
  | "set_ptr", _, _ => Ret VUnit                 (* the store of the new finger: the value stored is the one returned *)
  | "index", VRec fs, VN i =>                    (* s[i] on a slice (pointer, length): the place, as its address, in elements; out of range panics *)
      match lookup "as_mut_ptr" fs, lookup "len" fs with
      | Some (VN p), Some (VN n) => if i <? n then (if p + i <? W then Ret (VN (p + i)) else Ovf) else Panic
      | _, _ => Stuck
      end
  | _, _, _ => Stuck
  end.

Definition meth0 (m : string) (r : val) : outcome :=
  match m, r with
  | "is_power_of_two", VN x => Ret (VB (pow2b x))
  | "next_power_of_two", VN x => if npow2 x <? W then Ret (VN (npow2 x)) else Ovf
  | "as_ref", VPtr a v => Ret (VPtr a v)                (* NonNull::as_ref: a reference keeps the address; fields are read through it *)
  | "as_ptr", VPtr a _ => Ret (VN a)                    (* NonNull::as_ptr: the address *)
  | "as_ptr", VRec fs =>                                (* a collection's buffer pointer: the same as as_mut_ptr *)
      match lookup "as_mut_ptr" fs with Some v => Ret v | None => Ret (VRec fs) end
  | "get", v => Ret v                                   (* Cell::get *)
  | "as_ref", v => Ret v                                (* NonNull::as_ref: the pointee is the record itself *)
  | "as_ptr", v => Ret v                                (* NonNull::as_ptr: addresses are numbers *)
  | "cast", v => Ret v
  | "ok", v => Ret v                                    (* Result::ok: Result with one error value = Option *)
  | "unwrap", VSome v => Ret v
  | "unwrap", VNone => Panic
  | "expect", VSome v => Ret v                          (* the message is not a value *)
  | "expect", VNone => Panic
  | "is_some", VSome _ => Ret (VB true)
  | "is_some", VNone => Ret (VB false)
  | "is_none", VSome _ => Ret (VB false)
  | "is_none", VNone => Ret (VB true)
  | f, VRec fs => match lookup f fs with Some v => Ret v | None => Stuck end   (* layout.size() / .align() / field *)
  | f, VPtr _ (VRec fs) => match lookup f fs with Some v => Ret v | None => Stuck end   (* field through &self *)
  | _, _ => Stuck
  end.

(* every case is spelled out so that reducing `bind o k` never copies the term o *)
Definition bind (o : outcome) (k : val -> outcome) : outcome :=
  match o with Ret v => k v | Early v => Early v | Panic => Panic | Ovf => Ovf | Stuck => Stuck end.
Definition finish (o : outcome) : outcome :=      (* a function body ends: `?` / `return` deliver their value *)
  match o with Ret v => Ret v | Early v => Ret v | Panic => Panic | Ovf => Ovf | Stuck => Stuck end.

Fixpoint eval (ft : fntab) (fuel : nat) (en : env) (e : expr) {struct fuel} : outcome :=
  match fuel with
  | O => Stuck
  | S fuel =>
    let ev := eval ft fuel in
    let call := fun (f : string) (args : list val) =>
      match lookup f ft with
      | Some d =>
          if Nat.eqb (List.length (fn_params d)) (List.length args) then
            finish (ev (List.app (List.combine (fn_params d) args) en) (fn_body d))
          else Stuck
      | None =>
          match f, args with
          | "max", [VN x; VN y] => Ret (VN (N.max x y))
          | "min", [VN x; VN y] => Ret (VN (N.min x y))
          | "new_unchecked", [v] => Ret v            (* NonNull::new_unchecked *)
          | "eq", [VPtr x _; VN y] => Ret (VB (x =? y))   (* ptr::eq(reference, raw pointer): by address *)
          | "from_size_align", [VN s; VN a] =>        (* Layout::from_size_align: Ok(layout) iff the layout is valid *)
              Ret (if layout_ok s a then VSome (VRec [("size", VN s); ("align", VN a)]) else VNone)
          | "from_raw_parts_mut", [VN p; VN n] =>          (* slice::from_raw_parts_mut: a slice is its pointer and its length *)
              Ret (VRec [("as_mut_ptr", VN p); ("len", VN n)])
          | "from_size_align_unchecked", [VN s; VN a] =>   (* no validity test: the caller vouches for it *)
              Ret (VRec [("size", VN s); ("align", VN a)])
          | _, _ => Stuck
          end
      end in
    match e with
    | ELit n => Ret (VN n)
    | EBool b => Ret (VB b)
    | EVar x => match lookup x en with Some v => Ret v | None => Stuck end
    | EBin BLAnd a b =>
        bind (ev en a) (fun va => match va with
          | VB false => Ret (VB false) | VB true => ev en b | _ => Stuck end)
    | EBin BLOr a b =>
        bind (ev en a) (fun va => match va with
          | VB true => Ret (VB true) | VB false => ev en b | _ => Stuck end)
    | EBin op a b =>
        bind (ev en a) (fun va => bind (ev en b) (fun vb =>
          match va, vb with
          | VN x, VN y => arith op x y
          | VB x, VB y => match op with
                          | BEq => Ret (VB (Bool.eqb x y)) | BNe => Ret (VB (negb (Bool.eqb x y)))
                          | BAnd => Ret (VB (x && y)) | BOr => Ret (VB (x || y)) | _ => Stuck end
          | VPtr x _, VPtr y _ => match op with            (* pointers compare by address *)
                          | BEq => Ret (VB (x =? y)) | BNe => Ret (VB (negb (x =? y))) | _ => Stuck end
          | _, _ => Stuck
          end))
    | ENot a =>
        bind (ev en a) (fun va => match va with
          | VN x => Ret (VN (lnot64 x)) | VB b => Ret (VB (negb b)) | _ => Stuck end)
    | EMeth0 r m => bind (ev en r) (fun vr => meth0 m vr)
    | EMeth1 r m a =>
        bind (ev en r) (fun vr =>
          match m, a with
          | "map", ELam x body =>
              match vr with
              | VSome v => bind (ev ((x, v) :: en) body) (fun w => Ret (VSome w))
              | VNone => Ret VNone
              | _ => Stuck
              end
          | "and_then", ELam x body =>
              match vr with
              | VSome v => ev ((x, v) :: en) body
              | VNone => Ret VNone
              | _ => Stuck
              end
          | "unwrap_or_else", EPath _ =>          (* only diverging functions are passed by name *)
              match vr with VSome v => Ret v | VNone => Panic | _ => Stuck end
          | "unwrap_or_else", ELam _ body =>
              match vr with VSome v => Ret v | VNone => ev en body | _ => Stuck end
          | "map_err", _ => Ret vr
          | _, _ => bind (ev en a) (fun va => meth1 m vr va)
          end)
    | ELam x body => Ret (VClo x body)
    | EPath f => Ret (VFn f)
    | ECall1 f a => bind (ev en a) (fun va => call f [va])
    | ECall2 f a b => bind (ev en a) (fun va => bind (ev en b) (fun vb => call f [va; vb]))
    | ESome a => bind (ev en a) (fun va => Ret (VSome va))
    | ENone => Ret VNone
    | ETry a =>
        bind (ev en a) (fun va => match va with
          | VSome v => Ret v | VNone => Early VNone | _ => Stuck end)
    | EIf c a b =>
        bind (ev en c) (fun vc => match vc with
          | VB true => ev en a | VB false => ev en b | _ => Stuck end)
    | EMatchOpt s x sb nb =>
        bind (ev en s) (fun vs => match vs with
          | VSome v => ev ((x, v) :: en) sb | VNone => ev en nb | _ => Stuck end)
    | ELet x e1 body => bind (ev en e1) (fun v => ev ((x, v) :: en) body)
    | EStruct fs =>
        (fix go (l : list (string * expr)) (acc : list (string * val)) : outcome :=
           match l with
           | [] => Ret (VRec (List.rev acc))
           | (f, e1) :: r => bind (ev en e1) (fun v => go r ((f, v) :: acc))
           end) fs []
    | EMatchOrd a b lt eq gt =>
        bind (ev en a) (fun va => bind (ev en b) (fun vb =>
          match va, vb with
          | VN x, VN y => match x ?= y with Lt => ev en lt | Eq => ev en eq | Gt => ev en gt end
          | _, _ => Stuck
          end))
    | EReturn a => bind (ev en a) (fun v => Early v)
    | EPanic => Panic
    | EUnit => Ret VUnit
    end
  end.

Definition FUEL_SEM : nat := 200.

(* run a function of the table on argument values, in an environment of constants / self fields *)
Definition call_fn (ft : fntab) (consts : env) (f : string) (args : list val) : outcome :=
  match lookup f ft with
  | Some d =>
      finish (eval ft FUEL_SEM (List.app (List.combine (fn_params d) args) consts) (fn_body d))
  | None => Stuck
  end.

(* evaluate the `const` items in order; each sees the earlier ones and `given` (opaque ones such as FOOTER_SIZE) *)
Fixpoint eval_consts (ft : fntab) (given : env) (cs : list (string * expr)) : option env :=
  match cs with
  | [] => Some given
  | (x, e) :: r =>
      match eval ft FUEL_SEM given e with
      | Ret v => eval_consts ft ((x, v) :: given) r
      | _ => None
      end
  end.

(* ---------- statements: the loops of the crate that only walk a structure and call something for
   its effect (dealloc_chunk_list).  `let` and assignment both set the variable's binding (replacing
   it if there is one: the functions translated never rely on an outer binding coming back after a
   block ends); a call made for its effect is recorded, in order, with its argument values ---------- *)
Inductive stmt :=
| SLet (x : string) (e : expr)
| SSet (x : string) (e : expr)
| SDo (f : string) (args : list expr)
| SWhile (c : expr) (body : list stmt)
| SIf (c : expr) (th el : list stmt)
| SIfAsk (negate : bool) (f : string) (args : list expr) (th el : list stmt)
| SRepeat (n : expr) (body : list stmt)          (* for _ in a..b { body }: n = b - a, evaluated once *)
| SDoMay (f : string) (args : list expr)         (* a call that runs caller-supplied code (a destructor): recorded,
                                                    and the script says whether it returns (Some _) or panics (None) *)
| SReturn.                                       (* `return ..;`: leaves the procedure, out of every enclosing loop *)
   (* `if f(args) {..} else {..}` / `if !f(args) ..` where f is a caller-supplied closure: its answer
      comes from a script (None: the closure panics); the call is recorded like an effect *)

Definition effect : Type := string * list val.

Fixpoint upd (x : string) (v : val) (en : env) : env :=
  match en with
  | [] => [(x, v)]
  | (y, w) :: r => if String.eqb x y then (y, v) :: r else (y, w) :: upd x v r
  end.

Fixpoint eval_args (ft : fntab) (en : env) (es : list expr) : option (list val) :=
  match es with
  | [] => Some []
  | e :: r => match eval ft FUEL_SEM en e, eval_args ft en r with
              | Ret v, Some vs => Some (v :: vs)
              | _, _ => None
              end
  end.

(* how a run ends: normally, by a panic of a caller-supplied closure, or outside the fragment / out of fuel *)
Inductive xres :=
| XOk (en : env) (tr : list effect) (script : list (option bool))
| XPanic (en : env) (tr : list effect)
| XRet (en : env) (tr : list effect) (script : list (option bool))     (* left by `return` *)
| XStuck.

Fixpoint exec (ft : fntab) (fuel : nat) (en : env) (tr : list effect) (script : list (option bool))
         (ss : list stmt) {struct fuel} : xres :=
  match fuel with
  | O => XStuck
  | S fuel =>
    match ss with
    | [] => XOk en tr script
    | SLet x e :: r | SSet x e :: r =>
        match eval ft FUEL_SEM en e with
        | Ret v => exec ft fuel (upd x v en) tr script r
        | _ => XStuck
        end
    | SDo f args :: r =>
        match eval_args ft en args with
        | Some vs => exec ft fuel en (List.app tr [(f, vs)]) script r
        | None => XStuck
        end
    | SWhile c body :: r =>
        match eval ft FUEL_SEM en c with
        | Ret (VB true) =>
            match exec ft fuel en tr script body with
            | XOk en' tr' script' => exec ft fuel en' tr' script' (SWhile c body :: r)
            | other => other
            end
        | Ret (VB false) => exec ft fuel en tr script r
        | _ => XStuck
        end
    | SIf c th el :: r =>
        match eval ft FUEL_SEM en c with
        | Ret (VB b) =>
            match exec ft fuel en tr script (if b then th else el) with
            | XOk en' tr' script' => exec ft fuel en' tr' script' r
            | other => other
            end
        | _ => XStuck
        end
    | SRepeat n body :: r =>
        match eval ft FUEL_SEM en n with
        | Ret (VN k) =>
            (fix rep (j : nat) (en : env) (tr : list effect) (script : list (option bool)) {struct j} : xres :=
               match j with
               | O => exec ft fuel en tr script r
               | S j' => match exec ft fuel en tr script body with
                         | XOk en' tr' script' => rep j' en' tr' script'
                         | other => other
                         end
               end) (N.to_nat k) en tr script
        | _ => XStuck
        end
    | SReturn :: _ => XRet en tr script
    | SDoMay f args :: r =>
        match eval_args ft en args with
        | Some vs =>
            match script with
            | Some _ :: script' => exec ft fuel en (List.app tr [(f, vs)]) script' r
            | None :: _ => XPanic en (List.app tr [(f, vs)])
            | [] => XStuck
            end
        | None => XStuck
        end
    | SIfAsk negate f args th el :: r =>
        match eval_args ft en args with
        | Some vs =>
            let tr1 := List.app tr [(f, vs)] in
            match script with
            | Some b :: script' =>
                match exec ft fuel en tr1 script' (if xorb negate b then th else el) with
                | XOk en' tr' script'' => exec ft fuel en' tr' script'' r
                | other => other
                end
            | None :: _ => XPanic en tr1
            | [] => XStuck
            end
        | None => XStuck
        end
    end
  end.

Record procdef := mkProc { proc_params : list string; proc_body : list stmt }.

(* the repetition of SRepeat as a function of its own (the executor runs it at the fuel below its own) *)
Fixpoint repf (ft : fntab) (f : nat) (body r : list stmt) (j : nat) (en : env) (tr : list effect)
         (script : list (option bool)) : xres :=
  match j with
  | O => exec ft f en tr script r
  | S j' => match exec ft f en tr script body with
            | XOk en' tr' script' => repf ft f body r j' en' tr' script'
            | other => other
            end
  end.
