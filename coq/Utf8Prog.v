(* The lossy decoder's loop body as a small interpreted program, so that the decision structure
   parsed from the source text (LossyProgActual.v) can be compared with the model's scan_step. *)
From BV Require Import Word Utf8.
From Coq Require Import Lia Bool Arith PeanoNat.

Inductive lstep :=
| LArms (arms : list (N * N * N * N))     (* match (byte, next) { (lo..=hi, lo1..=hi1) => (), .. _ => error } *)
| LCont (mask tag : N)                     (* if next & mask != tag { error } *)
| LAdv                                     (* i += 1 *)
| LFail                                    (* error *)
| LUnknown.                                (* text the parser did not recognise *)

Record lprog := mkLprog { lp_ascii : N; lp_cases : list (N * list lstep); lp_default : list lstep }.

Definition arm_match (arms : list (N * N * N * N)) (b b1 : N) : bool :=
  existsb (fun a => match a with (lo, hi, lo1, hi1) => in_range lo hi b && in_range lo1 hi1 b1 end) arms.

Fixpoint run_steps (b : byte) (src : list byte) (i : nat) (steps : list lstep) : sres :=
  match steps with
  | [] => SNext i
  | LArms arms :: r => if arm_match arms b (safe_get src i) then run_steps b src i r else SErr i
  | LCont m t :: r => if N.land (safe_get src i) m =? t then run_steps b src i r else SErr i
  | LAdv :: r => run_steps b src (i + 1) r
  | LFail :: _ => SErr i
  | LUnknown :: _ => SErr 0
  end.

Definition lookup (cases : list (N * list lstep)) (dflt : list lstep) (w : N) : list lstep :=
  match find (fun c => fst c =? w) cases with Some c => snd c | None => dflt end.

(* one iteration of the loop from position i: read the byte, advance, decide *)
Definition run_prog (p : lprog) (wt : width_table) (src : list byte) (i : nat) : sres :=
  let b := safe_get src i in
  if b <? lp_ascii p then SNext (i + 1)
  else run_steps b src (i + 1) (lookup (lp_cases p) (lp_default p) (wt b)).

(* ---- a decidable equivalence of programs over byte inputs ---- *)
Definition bytes256 : list N := map N.of_nat (seq 0 256).

Definition step_equivb (x y : lstep) : bool :=
  match x, y with
  | LArms a, LArms a' =>
      forallb (fun b => forallb (fun b1 => Bool.eqb (arm_match a b b1) (arm_match a' b b1)) bytes256) bytes256
  | LCont m t, LCont m' t' => forallb (fun v => Bool.eqb (N.land v m =? t) (N.land v m' =? t')) bytes256
  | LAdv, LAdv => true
  | LFail, LFail => true
  | _, _ => false
  end.

Fixpoint steps_equivb (s t : list lstep) : bool :=
  match s, t with
  | [], [] => true
  | LFail :: _, LFail :: _ => true               (* nothing after an unconditional error matters *)
  | x :: s', y :: t' => step_equivb x y && steps_equivb s' t'
  | _, _ => false
  end.

Definition prog_equivb (p q : lprog) : bool :=
  (lp_ascii p =? lp_ascii q) &&
  forallb (fun w => steps_equivb (lookup (lp_cases p) (lp_default p) w) (lookup (lp_cases q) (lp_default q) w))
          (map fst (lp_cases p) ++ map fst (lp_cases q)) &&
  steps_equivb (lp_default p) (lp_default q).

Definition bytes (src : list byte) : Prop := Forall (fun v => v < 256) src.

Lemma in_bytes256 v : v < 256 -> In v bytes256.
Proof.
  intros H. unfold bytes256. apply in_map_iff. exists (N.to_nat v). split; [apply N2Nat.id|].
  apply in_seq. lia.
Qed.

Lemma safe_get_byte src i : bytes src -> safe_get src i < 256.
Proof.
  intros B. unfold safe_get. destruct (Nat.ltb i (length src)) eqn:E.
  - apply Nat.ltb_lt in E. unfold bytes in B. rewrite Forall_forall in B. apply B, nth_In, E.
  - apply Nat.ltb_ge in E. rewrite nth_overflow by exact E. lia.
Qed.

Lemma steps_equiv_run : forall s t b src i, bytes src -> b < 256 ->
  steps_equivb s t = true -> run_steps b src i s = run_steps b src i t.
Proof.
  induction s as [|x s IH]; intros t b src i B Hb E.
  - destruct t as [|y t]; [reflexivity | discriminate].
  - destruct t as [|y t]; [destruct x; discriminate|].
    pose proof (safe_get_byte src i B) as Hg.
    destruct x, y; cbn [steps_equivb] in E; try discriminate;
      try (apply andb_true_iff in E; destruct E as [E1 E2]); cbn [step_equivb] in *; try discriminate.
    + cbn [run_steps].
      rewrite forallb_forall in E1. specialize (E1 b (in_bytes256 b Hb)).
      rewrite forallb_forall in E1. specialize (E1 _ (in_bytes256 _ Hg)).
      apply eqb_prop in E1. rewrite E1. rewrite (IH t b src i B Hb E2). reflexivity.
    + cbn [run_steps].
      rewrite forallb_forall in E1. specialize (E1 _ (in_bytes256 _ Hg)).
      apply eqb_prop in E1. rewrite E1. rewrite (IH t b src i B Hb E2). reflexivity.
    + cbn [run_steps]. apply IH; assumption.
    + reflexivity.
Qed.

Lemma lookup_absent cases dflt w : ~ In w (map fst cases) -> lookup cases dflt w = dflt.
Proof.
  intros H. unfold lookup. destruct (find (fun c => fst c =? w) cases) as [c|] eqn:F; [|reflexivity].
  exfalso. apply find_some in F. destruct F as [I E]. apply N.eqb_eq in E. apply H. rewrite <- E. apply in_map, I.
Qed.

Theorem prog_equiv_run p q wt src i : bytes src -> prog_equivb p q = true ->
  run_prog p wt src i = run_prog q wt src i.
Proof.
  intros B E. unfold prog_equivb in E. apply andb_true_iff in E. destruct E as [E Ed].
  apply andb_true_iff in E. destruct E as [Ea Ec]. apply N.eqb_eq in Ea.
  unfold run_prog. rewrite Ea. destruct (safe_get src i <? lp_ascii q); [reflexivity|].
  apply steps_equiv_run; [exact B | apply safe_get_byte, B |].
  set (w := wt (safe_get src i)).
  destruct (in_dec N.eq_dec w (map fst (lp_cases p) ++ map fst (lp_cases q))) as [I|NI].
  - rewrite forallb_forall in Ec. apply Ec, I.
  - rewrite !lookup_absent; [exact Ed | |]; intros I; apply NI, in_or_app; [right | left]; exact I.
Qed.
