(* LossyTableOk.v — the obligation on the lossy decoder's lead-byte width table:
   the table the built crate reports (LossyTableActual.v, regenerated on every
   run) is the one Unicode Table 3-7 prescribes. *)
From BV Require Import Word Utf8 Utf8Facts LossyTableActual.
From Coq Require Import Lia.

Lemma actual_table_256 :
  forallb (fun i => actual_width (N.of_nat i) =? std_width (N.of_nat i)) (seq 0 256) = true.
Proof. vm_compute. reflexivity. Qed.

Lemma actual_table_len : length actual_width_list = 256%nat.
Proof. reflexivity. Qed.

Lemma actual_table_ok : table_ok actual_width.
Proof.
  intros b. destruct (N.lt_ge_cases b 256) as [Hlt|Hge].
  - pose proof actual_table_256 as F. rewrite forallb_forall in F.
    specialize (F (N.to_nat b)). rewrite N2Nat.id in F. apply N.eqb_eq. apply F. apply in_seq. lia.
  - unfold actual_width. rewrite nth_overflow by (rewrite actual_table_len; lia).
    unfold std_width, in_range.
    assert (E1 : b <? 128 = false) by (apply N.ltb_ge; lia). rewrite E1.
    assert (E2 : b <=? 223 = false) by (apply N.leb_gt; lia).
    assert (E3 : b <=? 239 = false) by (apply N.leb_gt; lia).
    assert (E4 : b <=? 244 = false) by (apply N.leb_gt; lia).
    rewrite E2, E3, E4, !andb_false_r. reflexivity.
Qed.
