(* StringSourceOk.v — the pieces of /repo's collections::String parsed into LeafActual.v
   (regenerated on every run): range resolution of drain, the byte moves of remove / insert_bytes,
   the new lengths of pop, truncate's range test, and the statements pinned as text. *)
From BV Require Import LeafActualOk VecSourceOk.
From BV Require Import Word WordFacts RustSem ArenaModel ArenaPolicy ConstsActual LeafActual.
From Coq Require Import String Lia.
Open Scope string_scope.
Open Scope N_scope.

(* a source function that no longer means what the model says must make a lemma fail, not hang *)
Set Default Timeout 100.

(* a source function that no longer means what the model says can make `cbn` explode:
   bound every command, the lemma then simply fails *)

Arguments N.add : simpl never.
Arguments N.sub : simpl never.
Arguments N.mul : simpl never.
Arguments N.div : simpl never.
Arguments N.modulo : simpl never.
Arguments N.ltb : simpl never.
Arguments N.leb : simpl never.
Arguments N.eqb : simpl never.
Arguments N.max : simpl never.
Arguments N.min : simpl never.
Arguments N.land : simpl never.
Arguments N.lnot : simpl never.
Arguments N.ldiff : simpl never.
Arguments N.pow : simpl never.
Arguments N.log2 : simpl never.
Arguments N.shiftl : simpl never.
Arguments npow2 : simpl never.
Arguments rdown : simpl never.
Arguments N.compare : simpl never.
Arguments wsub : simpl never.


(* ---------- collections::String: the byte moves of remove / insert_bytes, the new lengths of pop and
   truncate's range test.  `ch` (the decoded character) and `bytes` (the inserted text) are inputs:
   records carrying len_utf8 / len ---------- *)
Definition sself (len base : N) : env :=
  [("self", VRec [("len", VN len); ("vec", VRec [("as_mut_ptr", VN base)])])].
Definition vch (w : N) : val := VRec [("len_utf8", VN w)].
Definition vbytes (amt src : N) : val := VRec [("len", VN amt); ("as_ptr", VN src)].

Ltac ssimpl :=
  cbv beta iota zeta delta
    [call_fn eval lookup bind finish meth0 meth1 arith fn_params fn_body src_fns sself vch vbytes
     String.eqb Ascii.eqb Bool.eqb List.app List.combine List.length
     Datatypes.app Datatypes.length List.rev Nat.eqb FUEL_SEM fst snd].

(* String::drain resolves its range like Vec::drain (finding F10 applied to both) *)
Lemma src_string_drain_bounds_ok len cap base s e :
  let en := vself len cap base in
  call_fn src_fns en "string_drain_start" [vrange s e] = opt_or_panic (VecModel.range_start s) /\
  call_fn src_fns en "string_drain_end" [vrange s e] = opt_or_panic (VecModel.range_end e len).
Proof.
  intros en. unfold en, VecModel.range_start, VecModel.range_end, checked_add.
  repeat match goal with |- _ /\ _ => split end; unfold call_fn;
    [destruct s as [n|n|] | destruct e as [n|n|]]; vsimpl; try reflexivity;
    destruct (n + 1 <? W); vsimpl; reflexivity.
Qed.

(* the statements of string.rs pinned as text *)
Lemma src_frames_string_ok : forallb snd src_frames_string = true.
Proof. vm_compute. reflexivity. Qed.

Lemma src_string_remove_ok len base i w : i + w <= len -> base + len < W ->
  let en := ("ch", vch w) :: sself len base in
  let args := [VN i] in
  call_fn src_fns en "string_remove_next" args = Ret (VN (i + w)) /\
  call_fn src_fns en "string_remove_copy_src" args = Ret (VN (base + (i + w))) /\
  call_fn src_fns en "string_remove_copy_dst" args = Ret (VN (base + i)) /\
  call_fn src_fns en "string_remove_copy_len" args = Ret (VN (len - (i + w))) /\
  call_fn src_fns en "string_remove_new_len" args = Ret (VN (len - w)).
Proof.
  intros Hi Hb en args. unfold en, args.
  assert (T1 : (i + w <? W) = true) by (apply N.ltb_lt; lia).
  assert (T2 : (base + (i + w) <? W) = true) by (apply N.ltb_lt; lia).
  assert (T3 : (base + i <? W) = true) by (apply N.ltb_lt; lia).
  assert (T4 : (i + w <=? len) = true) by (apply N.leb_le; exact Hi).
  assert (T5 : (i <=? i + w) = true) by (apply N.leb_le; lia).
  assert (T6 : (i + w - i <=? len) = true) by (apply N.leb_le; lia).
  repeat match goal with |- _ /\ _ => split end; unfold call_fn; ssimpl;
    rewrite ?T1; ssimpl; rewrite ?T2, ?T3, ?T4, ?T5; ssimpl; rewrite ?T6; ssimpl;
    try reflexivity.
  f_equal. f_equal. lia.
Qed.

Lemma src_string_insert_bytes_ok len base i amt src : i <= len -> base + len + amt < W ->
  let en := sself len base in
  let args := [VN i; vbytes amt src] in
  call_fn src_fns en "string_insert_reserve" args = Ret (VN amt) /\
  call_fn src_fns en "string_insert_shift_src" args = Ret (VN (base + i)) /\
  call_fn src_fns en "string_insert_shift_dst" args = Ret (VN (base + (i + amt))) /\
  call_fn src_fns en "string_insert_shift_len" args = Ret (VN (len - i)) /\
  call_fn src_fns en "string_insert_write_src" args = Ret (vbytes amt src) /\
  call_fn src_fns en "string_insert_write_dst" args = Ret (VN (base + i)) /\
  call_fn src_fns en "string_insert_write_len" args = Ret (VN amt) /\
  call_fn src_fns en "string_insert_new_len" args = Ret (VN (len + amt)).
Proof.
  intros Hi Hb en args. unfold en, args.
  assert (T1 : (i + amt <? W) = true) by (apply N.ltb_lt; lia).
  assert (T2 : (base + (i + amt) <? W) = true) by (apply N.ltb_lt; lia).
  assert (T3 : (base + i <? W) = true) by (apply N.ltb_lt; lia).
  assert (T4 : (i <=? len) = true) by (apply N.leb_le; exact Hi).
  assert (T5 : (len + amt <? W) = true) by (apply N.ltb_lt; lia).
  repeat match goal with |- _ /\ _ => split end; unfold call_fn; ssimpl;
    rewrite ?T1; ssimpl; rewrite ?T2, ?T3, ?T4, ?T5; ssimpl; reflexivity.
Qed.

Lemma src_string_pop_truncate_ok len base w n : w <= len ->
  call_fn src_fns (("ch", vch w) :: sself len base) "string_pop_new_len" [] = Ret (VN (len - w)) /\
  call_fn src_fns (sself len base) "string_truncate_in_range" [VN n] = Ret (VB (n <=? len)).
Proof.
  intros Hw. assert (T1 : (w <=? len) = true) by (apply N.leb_le; exact Hw).
  split; unfold call_fn; ssimpl; rewrite ?T1; ssimpl; reflexivity.
Qed.


(* String::retain: the guard's destructor sets the length to idx - del_bytes; a kept character is
   moved only if something was deleted before it, from idx down to idx - del_bytes, ch_len bytes *)
Definition vguard (base idx del : N) : val :=
  VRec [("s", VRec [("vec", VRec [("as_mut_ptr", VN base)])]); ("idx", VN idx); ("del_bytes", VN del)].
Lemma src_string_retain_ok base idx del w f : del <= idx -> base + idx < W ->
  call_fn src_fns [("self", vguard base idx del)] "string_retain_guard_len" [f] = Ret (VN (idx - del)) /\
  let en := [("guard", vguard base idx del); ("ch", vch w)] in
  call_fn src_fns en "string_retain_must_move" [f] = Ret (VB (0 <? del)) /\
  call_fn src_fns en "string_retain_copy_src" [f] = Ret (VN (base + idx)) /\
  call_fn src_fns en "string_retain_copy_dst" [f] = Ret (VN (base + (idx - del))) /\
  call_fn src_fns en "string_retain_copy_len" [f] = Ret (VN w).
Proof.
  intros Hd Hb.
  assert (T1 : (del <=? idx) = true) by (apply N.leb_le; exact Hd).
  assert (T2 : (base + idx <? W) = true) by (apply N.ltb_lt; exact Hb).
  assert (T3 : (base + (idx - del) <? W) = true) by (apply N.ltb_lt; lia).
  repeat match goal with |- _ /\ _ => split | |- let _ := _ in _ => intros en; unfold en end;
    unfold call_fn;
    cbv beta iota zeta delta
      [call_fn eval lookup bind finish meth0 meth1 arith fn_params fn_body src_fns vguard vch
       String.eqb Ascii.eqb Bool.eqb List.app List.combine List.length
       Datatypes.app Datatypes.length List.rev Nat.eqb FUEL_SEM fst snd];
    rewrite ?T1;
    cbv beta iota zeta delta [bind meth1 lookup String.eqb Ascii.eqb Bool.eqb];
    rewrite ?T2, ?T3; reflexivity.
Qed.
