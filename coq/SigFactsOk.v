(* The obligations the signatures of the crate must meet for the borrow theorems
   to apply to it.  SigFactsActual.v is regenerated from /repo/src on every run. *)
From BV Require Import Borrow SigFactsActual.

Lemma actual_facts_ok : facts_ok actual_facts = true.
Proof. vm_compute. reflexivity. Qed.

(* needed for the "ordinary patterns are accepted" half only *)
Lemma actual_send : f_send actual_facts = true.
Proof. vm_compute. reflexivity. Qed.
