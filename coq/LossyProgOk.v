(* The decision structure parsed from lossy.rs (LossyProgActual.v, regenerated on every run) means
   the same as the model's scan_step.  The comparison of the parsed program with the model program
   is a computation over all byte values; its soundness is Utf8Prog.prog_equiv_run. *)
From BV Require Import Word Utf8 Utf8Prog LossyProgActual.
From Coq Require Import Lia Bool Arith PeanoNat.

Definition model_prog : lprog :=
  mkLprog 128
    [(2, [LCont 192 128; LAdv]);
     (3, [LArms [(224, 224, 160, 191); (225, 236, 128, 191); (237, 237, 128, 159); (238, 239, 128, 191)];
          LAdv; LCont 192 128; LAdv]);
     (4, [LArms [(240, 240, 144, 191); (241, 243, 128, 191); (244, 244, 128, 143)];
          LAdv; LCont 192 128; LAdv; LCont 192 128; LAdv])]
    [LFail].

Lemma sweep1 (f g : N -> bool) :
  forallb (fun v => Bool.eqb (f v) (g v)) bytes256 = true -> forall v, v < 256 -> f v = g v.
Proof. intros H v Hv. rewrite forallb_forall in H. apply eqb_prop, H, in_bytes256, Hv. Qed.

Lemma sweep2 (f g : N -> N -> bool) :
  forallb (fun b => forallb (fun b1 => Bool.eqb (f b b1) (g b b1)) bytes256) bytes256 = true ->
  forall b b1, b < 256 -> b1 < 256 -> f b b1 = g b b1.
Proof.
  intros H b b1 Hb Hb1. rewrite forallb_forall in H. specialize (H b (in_bytes256 b Hb)).
  rewrite forallb_forall in H. apply eqb_prop, H, in_bytes256, Hb1.
Qed.

Lemma is_cont_land v : v < 256 -> (N.land v 192 =? 128) = is_cont v.
Proof. apply (sweep1 (fun v => N.land v 192 =? 128) is_cont). vm_compute. reflexivity. Qed.

Lemma arms3_model b b1 : b < 256 -> b1 < 256 ->
  arm_match [(224, 224, 160, 191); (225, 236, 128, 191); (237, 237, 128, 159); (238, 239, 128, 191)] b b1 =
  ((b =? 224) && in_range 160 191 b1 || in_range 225 236 b && in_range 128 191 b1
   || (b =? 237) && in_range 128 159 b1 || in_range 238 239 b && in_range 128 191 b1).
Proof.
  apply (sweep2 (arm_match [(224, 224, 160, 191); (225, 236, 128, 191); (237, 237, 128, 159); (238, 239, 128, 191)])
                (fun b b1 => (b =? 224) && in_range 160 191 b1 || in_range 225 236 b && in_range 128 191 b1
                             || (b =? 237) && in_range 128 159 b1 || in_range 238 239 b && in_range 128 191 b1)).
  vm_compute. reflexivity.
Qed.

Lemma arms4_model b b1 : b < 256 -> b1 < 256 ->
  arm_match [(240, 240, 144, 191); (241, 243, 128, 191); (244, 244, 128, 143)] b b1 =
  ((b =? 240) && in_range 144 191 b1 || in_range 241 243 b && in_range 128 191 b1
   || (b =? 244) && in_range 128 143 b1).
Proof.
  apply (sweep2 (arm_match [(240, 240, 144, 191); (241, 243, 128, 191); (244, 244, 128, 143)])
                (fun b b1 => (b =? 240) && in_range 144 191 b1 || in_range 241 243 b && in_range 128 191 b1
                             || (b =? 244) && in_range 128 143 b1)).
  vm_compute. reflexivity.
Qed.

(* the model's loop body is the model program *)
Lemma scan_step_is_prog wt src i : bytes src -> scan_step wt src i = run_prog model_prog wt src i.
Proof.
  intros B. unfold scan_step, run_prog, model_prog, lookup.
  cbn [lp_ascii lp_cases lp_default find fst snd].
  pose proof (safe_get_byte src i B) as H0. pose proof (safe_get_byte src (i + 1) B) as H1.
  pose proof (safe_get_byte src (i + 1 + 1) B) as H2. pose proof (safe_get_byte src (i + 1 + 1 + 1) B) as H3.
  replace (i + 2)%nat with (i + 1 + 1)%nat by lia. replace (i + 3)%nat with (i + 1 + 1 + 1)%nat by lia.
  replace (i + 4)%nat with (i + 1 + 1 + 1 + 1)%nat by lia.
  destruct (safe_get src i <? 128); [reflexivity|].
  rewrite (N.eqb_sym 2), (N.eqb_sym 3), (N.eqb_sym 4).
  destruct (wt (safe_get src i) =? 2).
  { cbn [run_steps snd]. rewrite (is_cont_land _ H1). reflexivity. }
  destruct (wt (safe_get src i) =? 3).
  { cbn [run_steps snd]. rewrite (arms3_model _ _ H0 H1), (is_cont_land _ H2). reflexivity. }
  destruct (wt (safe_get src i) =? 4).
  { cbn [run_steps snd]. rewrite (arms4_model _ _ H0 H1), (is_cont_land _ H2), (is_cont_land _ H3). reflexivity. }
  reflexivity.
Qed.

(* the obligation about the current source text *)
Lemma lossy_prog_actual_ok : prog_equivb lossy_prog_actual model_prog = true.
Proof. vm_compute. reflexivity. Qed.

Theorem lossy_source_ok wt src i : bytes src ->
  run_prog lossy_prog_actual wt src i = scan_step wt src i.
Proof.
  intros B. rewrite (scan_step_is_prog wt src i B). apply prog_equiv_run; [exact B | exact lossy_prog_actual_ok].
Qed.
