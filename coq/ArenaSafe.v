(* ArenaSafe.v — the safety invariant is preserved by every operation, and every
   block handed out is in bounds, aligned and disjoint from the live ones
   (C01, C04, and the containment part of C10). *)
From BV Require Import Word WordFacts ArenaModel ArenaFast ArenaSpec ArenaInv.
From Coq Require Import Lia.

(* ---------- ghost state: the client's live blocks ---------- *)
Definition slot (t : tw) : blk := (tw_res t, tw_size t).
(* what a pending reservation keeps off limits: the slot and the padding above it, up to where
   the finger stood before (or up to the top of the chunk obtained for the slot) *)
Definition region (t : tw) : blk := (tw_res t, N.max (tw_size t) (tw_top t - tw_res t)).
Definition slots (b : bump) : list blk := map region (tws b).
Definition gstate := (bump * list blk)%type.
Definition blocks (g : gstate) : list blk := snd g ++ slots (fst g).

Definition Inv (k : cfg) (g : gstate) : Prop :=
  ChunksInv k (chunks (fst g)) /\ BlocksInv k (chunks (fst g)) (blocks g).

Definition live_step (b : bump) (o : op) (r : res) (live : list blk) : list blk :=
  match o, r with
  | OAlloc l, ROk p => (p, l_size l) :: live
  | ODealloc p l, _ => remove_blk (p, l_size l) live
  | OGrow _ p old new, ROk q => (q, l_size new) :: remove_blk (p, l_size old) live
  | OShrink p old new, ROk q => (q, l_size new) :: remove_blk (p, l_size old) live
  | ORealloc p l n, ROk q =>
      (q, if l_size l =? 0 then 0 else n) :: remove_blk (p, l_size l) live
  | OReset, _ => []
  | ODrop, _ => []
  | OTwEnd true, ROk _ =>
      match tws b with t :: _ => slot t :: live | [] => live end
  | _, _ => live
  end.

Definition gstep (k : cfg) (A : acquirer) (g : gstate) (o : op) : gstate * out :=
  let r := step k A (fst g) o in
  ((fst r, live_step (fst g) o (o_res (snd r)) (snd g)), snd r).

(* ---------- what the global allocator / sizing policy must deliver ---------- *)
Definition fresh_chunk_ok (k : cfg) (b : bump) (g : greq) (data : N) : Prop :=
  req_safe k g = true /\
  0 < data /\ data mod g_align g = 0 /\ data + g_size g <= W /\
  Forall (fun c => rng_disj data (data + g_size g) (c_data c) (c_end k c)) (chunks b) /\
  rng_disj data (data + g_size g) (k_eaddr k) (k_eaddr k + k_footer k).

Definition A_ok (k : cfg) (A : acquirer) (b : bump) : Prop :=
  forall w g data, fst (A b w) = AcqSome g data -> fresh_chunk_ok k b g data.

(* ---------- core lemma 1: the finger moves down, a block appears ---------- *)
Lemma move_down k c r rest q s :
  cfg_ok k ->
  ChunksInv k (c :: r) -> BlocksInv k (c :: r) rest ->
  c_data c <= q -> q <= c_ptr c -> q mod k_malign k = 0 -> q + s <= c_foot c ->
  (forall b, In b rest -> snd b <> 0 -> blk_in c b -> q + s <= fst b) ->
  ChunksInv k (with_ptr c q :: r) /\ BlocksInv k (with_ptr c q :: r) ((q, s) :: rest).
Proof.
  intros K HC [HP HD] A1 A2 A3 A4 Habove.
  assert (HC' : ChunksInv k (with_ptr c q :: r)).
  { apply ChunksInv_with_ptr; try assumption.
    destruct HC as (Hok & _). inversion Hok as [|? ? Hc _]; subst.
    destruct Hc as (_ & _ & _ & _ & C5 & _). lia. }
  split; [exact HC'|]. split.
  - constructor.
    + unfold placed. cbn [fst snd]. split; [|split; [exact A3|]].
      { destruct HC as (Hok & _). inversion Hok as [|? ? Hc _]; subst.
        destruct Hc as (C1 & _). lia. }
      destruct (N.eq_dec s 0) as [->|Hs]; [left; reflexivity|].
      right. exists (with_ptr c q). split; [left; reflexivity|].
      unfold blk_in, with_ptr, c_foot in *; cbn [fst snd c_ptr c_data c_nswf] in *. lia.
    + eapply Forall_impl; [|exact HP]. intros b. apply placed_ptr_down. exact A2.
  - cbn [pairwise]. split; [|exact HD].
    apply Forall_forall. intros b Hb.
    rewrite Forall_forall in HP. specialize (HP b Hb).
    unfold bdisj; cbn [fst snd].
    destruct (N.eq_dec s 0) as [->|Hs]; [left; reflexivity|].
    destruct HP as (_ & _ & [Z|(c0 & [<-|Hin] & Hbin)]); [right; left; exact Z| |].
    + destruct (N.eq_dec (snd b) 0) as [Z|NZ]; [right; left; exact Z|].
      specialize (Habove b Hb NZ Hbin). lia.
    + destruct HC as (Hok & _ & Hpw). cbn [pairwise] in Hpw. destruct Hpw as [Hd _].
      rewrite Forall_forall in Hd. specialize (Hd c0 Hin).
      inversion Hok as [|? ? Hc Hr]; subst. rewrite Forall_forall in Hr. specialize (Hr c0 Hin).
      pose proof (blk_in_range k c0 b Hr Hbin) as [B1 B2].
      destruct Hc as (_ & _ & _ & C4 & C5 & _).
      pose proof (ko_f k K). unfold chunk_disj, rng_disj, c_end in *. lia.
Qed.

(* ---------- core lemma 2: the finger moves up ---------- *)
Lemma move_up k c r rest f :
  cfg_ok k ->
  ChunksInv k (c :: r) -> BlocksInv k (c :: r) rest ->
  c_ptr c <= f -> f <= c_foot c -> f mod k_malign k = 0 ->
  (forall b, In b rest -> snd b <> 0 -> blk_in c b -> f <= fst b) ->
  ChunksInv k (with_ptr c f :: r) /\ BlocksInv k (with_ptr c f :: r) rest.
Proof.
  intros K HC [HP HD] A1 A2 A3 Habove.
  assert (HC' : ChunksInv k (with_ptr c f :: r)).
  { apply ChunksInv_with_ptr; try assumption.
    destruct HC as (Hok & _). inversion Hok as [|? ? Hc _]; subst.
    destruct Hc as (_ & _ & _ & C4 & _). lia. }
  split; [exact HC'|]. split; [|exact HD].
  apply Forall_forall. intros b Hb.
  rewrite Forall_forall in HP. specialize (HP b Hb).
  destruct HP as (P0 & Al & [Z|(c0 & [<-|Hin] & Hbin)]); (split; [exact P0|split; [exact Al|]]);
    [left; exact Z| |].
  - destruct (N.eq_dec (snd b) 0) as [Z|NZ]; [left; exact Z|].
    right. exists (with_ptr c f). split; [left; reflexivity|].
    specialize (Habove b Hb NZ Hbin).
    unfold blk_in, with_ptr, c_foot in *; cbn [c_ptr c_data c_nswf] in *. lia.
  - right. exists c0. split; [right; exact Hin | exact Hbin].
Qed.

(* ---------- a new chunk ---------- *)
Lemma new_chunk_inv k b g data :
  cfg_ok k -> ChunksInv k (chunks b) -> fresh_chunk_ok k b g data ->
  ChunksInv k (new_chunk k b g data :: chunks b) /\
  c_ptr (new_chunk k b g data) = c_foot (new_chunk k b g data) /\
  c_foot (new_chunk k b g data) = data + (g_size g - k_footer k).
Proof.
  intros K (Hok & Hst & Hpw) (Hsafe & D0 & Da & Dw & Dd & Ds).
  unfold req_safe in Hsafe. rewrite !andb_true_iff in Hsafe.
  destruct Hsafe as [[[L1 L2] L3] L4].
  apply layout_ok_spec in L1. destruct L1 as (Pa & _ & _).
  apply N.leb_le in L2, L3. apply N.eqb_eq in L4.
  pose proof (cfg_c_nz k K) as Nc. pose proof (cfg_m_nz k K) as Nm.
  set (nswf := g_size g - k_footer k) in *.
  assert (Dc : data mod k_calign k = 0).
  { eapply mod0_trans; [exact Nc | apply (pow2_nz _ Pa) | | exact Da].
    apply pow2_divide; [apply (ko_c k K) | exact Pa | exact L3]. }
  assert (Fm : (data + nswf) mod k_malign k = 0).
  { eapply mod0_trans; [exact Nm | exact Nc | apply (cfg_m_div_c k K) |].
    apply mod0_add; assumption. }
  assert (Ep : rdown (data + nswf) (k_malign k) = data + nswf) by (apply rdown_id; assumption).
  unfold new_chunk. fold nswf. rewrite Ep.
  split; [|split; reflexivity].
  split; [|split].
  - constructor; [|exact Hok].
    unfold chunk_ok, c_end, c_foot; cbn [c_data c_nswf c_ptr c_align].
    repeat split; try assumption; try lia.
  - constructor; [|exact Hst].
    unfold chunk_off_static, c_end, c_foot; cbn [c_data c_nswf]. unfold rng_disj in *. lia.
  - cbn [pairwise]. split; [|exact Hpw].
    eapply Forall_impl; [|exact Dd]. intros c Hc.
    unfold chunk_disj, c_end at 1, c_foot at 1; cbn [c_data c_nswf]. unfold rng_disj in *. lia.
Qed.

(* ---------- the fast path ---------- *)
Lemma set_ptr_fields b p : tws (set_ptr b p) = tws b /\ limit (set_ptr b p) = limit b.
Proof. unfold set_ptr. destruct (chunks b); split; reflexivity. Qed.

Lemma chunks_set_ptr' b p :
  chunks (set_ptr b p) = match chunks b with [] => [] | c :: r => with_ptr c p :: r end.
Proof. unfold set_ptr. destruct (chunks b) eqn:E; [exact E | reflexivity]. Qed.

Lemma fast_facts k b l p b' :
  cfg_ok k -> ChunksInv k (chunks b) -> pow2 (l_align l) ->
  fast k b l = Some (p, b') ->
  p mod l_align l = 0 /\ p mod k_malign k = 0 /\ 0 < p /\
  tws b' = tws b /\ limit b' = limit b /\
  match chunks b with
  | [] => chunks b' = [] /\ p = k_eaddr k /\ l_size l = 0
  | c :: r => chunks b' = with_ptr c p :: r /\ c_data c <= p /\ p + l_size l <= c_ptr c
  end.
Proof.
  intros K (Hok & _) Pa. unfold fast.
  destruct (fast_ptr k (cur_start k b) (cur_ptr k b) l) as [q|] eqn:F; [|discriminate].
  intros H; inversion H; subst q b'; clear H.
  destruct (set_ptr_fields b p) as [T L].
  rewrite chunks_set_ptr'. unfold cur_start, cur_ptr in F.
  destruct (chunks b) as [|c r].
  - destruct (fast_ptr_empty k _ l p (ko_m k K) Pa (ko_e k K) F) as [-> Z].
    pose proof (ko_e0 k K).
    destruct (fast_ptr_spec k _ _ l _ (ko_m k K) Pa (N.le_refl _) (ko_e k K) F) as (_ & _ & A & B).
    repeat split; try assumption; try reflexivity.
  - inversion Hok as [|? ? Hc _]; subst.
    destruct Hc as (C1 & _ & _ & C4 & _ & C6 & _).
    destruct (fast_ptr_spec k _ _ l _ (ko_m k K) Pa C4 C6 F) as (S1 & S2 & S3 & S4).
    repeat split; try assumption; try reflexivity; lia.
Qed.

Lemma lay_ok_pow2 l : lay_ok l = true -> pow2 (l_align l).
Proof. unfold lay_ok. intros H. apply layout_ok_spec in H. tauto. Qed.

(* a block allocated by the fast path joins the others *)
Lemma alloc_fast_inv k b rest l p b' :
  cfg_ok k -> ChunksInv k (chunks b) -> BlocksInv k (chunks b) rest -> pow2 (l_align l) ->
  fast k b l = Some (p, b') ->
  ChunksInv k (chunks b') /\ BlocksInv k (chunks b') ((p, l_size l) :: rest).
Proof.
  intros K HC HB Pa F.
  destruct (fast_facts k b l p b' K HC Pa F) as (_ & Am & P0 & _ & _ & Hm).
  destruct (chunks b) as [|c r] eqn:E.
  - destruct Hm as (-> & _ & Z). split; [exact HC|].
    destruct HB as [HP HD]. split.
    + constructor; [split; [exact P0|split; [exact Am|left; exact Z]] | exact HP].
    + cbn [pairwise]. split; [|exact HD].
      apply Forall_forall. intros x _. left. exact Z.
  - destruct Hm as (-> & M1 & M2).
    assert (HC0 := HC). destruct HC0 as (Hok & _). inversion Hok as [|? ? Hc _]; subst.
    destruct Hc as (_ & _ & _ & _ & C5 & _).
    apply move_down; try assumption; try lia.
    intros x _ _ [X1 _]. lia.
Qed.

(* the same, keeping the whole stretch the finger moved over off limits *)
Lemma alloc_fast_region k b rest l p b' :
  cfg_ok k -> ChunksInv k (chunks b) -> BlocksInv k (chunks b) rest -> pow2 (l_align l) ->
  fast k b l = Some (p, b') ->
  ChunksInv k (chunks b') /\
  BlocksInv k (chunks b') ((p, N.max (l_size l) (cur_ptr k b - p)) :: rest) /\
  p + l_size l <= cur_ptr k b.
Proof.
  intros K HC HB Pa F.
  destruct (fast_facts k b l p b' K HC Pa F) as (_ & Am & P0 & _ & _ & Hm).
  unfold cur_ptr. destruct (chunks b) as [|c r] eqn:E.
  - destruct Hm as (-> & -> & Z). rewrite Z.
    replace (N.max 0 (k_eaddr k - k_eaddr k)) with 0 by lia.
    split; [exact HC|]. split; [|lia].
    destruct HB as [HP HD]. split.
    + constructor; [split; [exact P0|split; [exact Am|left; reflexivity]] | exact HP].
    + cbn [pairwise]. split; [|exact HD].
      apply Forall_forall. intros x _. left. reflexivity.
  - destruct Hm as (-> & M1 & M2).
    assert (HC0 := HC). destruct HC0 as (Hok & _). inversion Hok as [|? ? Hc _]; subst.
    destruct Hc as (_ & _ & _ & _ & C5 & _).
    replace (N.max (l_size l) (c_ptr c - p)) with (c_ptr c - p) by lia.
    assert (MD : ChunksInv k (with_ptr c p :: r) /\ BlocksInv k (with_ptr c p :: r) ((p, c_ptr c - p) :: rest)).
    { apply move_down; try assumption; try lia. intros x _ _ [X1 _]. lia. }
    destruct MD as [MD1 MD2]. split; [exact MD1|]. split; [exact MD2 | exact M2].
Qed.

Ltac conj := repeat match goal with |- _ /\ _ => split end.
Ltac okres := intros ? Hq; inversion Hq; subst; conj; assumption.
Ltac nores := intros ? Hq; discriminate Hq.

(* ---------- try_alloc_layout ---------- *)
Lemma BlocksInv_push k cs c rest : BlocksInv k cs rest -> BlocksInv k (c :: cs) rest.
Proof.
  intros [HP HD]. split; [|exact HD]. eapply Forall_impl; [|exact HP]. intros x. apply placed_push.
Qed.

Definition res_blocks (r : res) (s : N) (rest : list blk) : list blk :=
  match r with ROk p => (p, s) :: rest | _ => rest end.

Lemma try_alloc_inv k A b rest l :
  cfg_ok k -> ChunksInv k (chunks b) -> BlocksInv k (chunks b) rest ->
  A_ok k A b -> pow2 (l_align l) ->
  let r := try_alloc k A b l in
  ChunksInv k (chunks (fst r)) /\
  BlocksInv k (chunks (fst r)) (res_blocks (o_res (snd r)) (l_size l) rest) /\
  tws (fst r) = tws b /\ limit (fst r) = limit b /\
  (forall p, o_res (snd r) = ROk p -> p mod l_align l = 0 /\ p mod k_malign k = 0 /\ 0 < p).
Proof.
  intros K HC HB HA Pa. unfold try_alloc.
  destruct (fast k b l) as [[p b1]|] eqn:F; cbn [fst snd o_res res_blocks].
  - destruct (alloc_fast_inv k b rest l p b1 K HC HB Pa F) as [C1 B1].
    destruct (fast_facts k b l p b1 K HC Pa F) as (X1 & X2 & X3 & X4 & X5 & _).
    conj; try assumption. okres.
  - unfold slow. destruct (A b (ForLayout l)) as [a reqs] eqn:EA.
    destruct a as [|w|g data]; cbn [fst snd o_res res_blocks].
    + conj; try assumption; try reflexivity. nores.
    + conj; try assumption; try reflexivity. nores.
    + assert (Hf : fresh_chunk_ok k b g data) by (apply (HA (ForLayout l)); rewrite EA; reflexivity).
      destruct (new_chunk_inv k b g data K HC Hf) as (C1 & _ & _).
      set (b1 := push_chunk b (new_chunk k b g data)).
      assert (HB1 : BlocksInv k (chunks b1) rest) by (apply BlocksInv_push; exact HB).
      destruct (fast k b1 l) as [[p b2]|] eqn:F2; cbn [fst snd o_res res_blocks].
      * destruct (alloc_fast_inv k b1 rest l p b2 K C1 HB1 Pa F2) as [C2 B2].
        destruct (fast_facts k b1 l p b2 K C1 Pa F2) as (X1 & X2 & X3 & X4 & X5 & _).
        conj; try assumption. okres.
      * conj; try assumption; try reflexivity. nores.
Qed.

(* the same for the whole region a reservation keeps: up to the old finger, or, when a chunk
   had to be obtained, up to the top of that chunk *)
Definition top_after (k : cfg) (b b' : bump) : N :=
  if cur_foot k b' =? cur_foot k b then cur_ptr k b else cur_foot k b'.

Lemma cur_foot_fast k b l p b' : fast k b l = Some (p, b') -> cur_foot k b' = cur_foot k b.
Proof.
  unfold fast. destruct (fast_ptr _ _ _ _); [|discriminate]. intros H; inversion H; subst.
  unfold cur_foot, set_ptr. destruct (chunks b) as [|c r] eqn:E; [rewrite E; reflexivity|]. reflexivity.
Qed.

Lemma try_alloc_region_inv k A b rest l :
  cfg_ok k -> ChunksInv k (chunks b) -> BlocksInv k (chunks b) rest -> A_ok k A b -> pow2 (l_align l) ->
  let r := try_alloc k A b l in
  forall p, o_res (snd r) = ROk p ->
    BlocksInv k (chunks (fst r)) ((p, N.max (l_size l) (top_after k b (fst r) - p)) :: rest) /\
    p + l_size l <= top_after k b (fst r).
Proof.
  intros K HC HB HA Pa. unfold try_alloc.
  destruct (fast k b l) as [[q b1]|] eqn:F; cbn [fst snd o_res].
  - intros p Hp. inversion Hp; subst q.
    unfold top_after. rewrite (cur_foot_fast k b l p b1 F), N.eqb_refl.
    destruct (alloc_fast_region k b rest l p b1 K HC HB Pa F) as (_ & B1 & L1). split; assumption.
  - unfold slow. destruct (A b (ForLayout l)) as [a reqs] eqn:EA.
    destruct a as [|w|g data]; cbn [fst snd o_res]; try (intros p Hp; discriminate Hp).
    assert (Hf : fresh_chunk_ok k b g data) by (apply (HA (ForLayout l)); rewrite EA; reflexivity).
    destruct (new_chunk_inv k b g data K HC Hf) as (C1 & Ptop & Efoot).
    set (nc := new_chunk k b g data) in *.
    set (b1 := push_chunk b nc).
    assert (HB1 : BlocksInv k (chunks b1) rest) by (apply BlocksInv_push; exact HB).
    destruct (fast k b1 l) as [[q b2]|] eqn:F2; cbn [fst snd o_res]; [|intros p Hp; discriminate Hp].
    intros p Hp. inversion Hp; subst q.
    destruct (alloc_fast_region k b1 rest l p b2 K C1 HB1 Pa F2) as (_ & B2 & L2).
    assert (Ecur : cur_ptr k b1 = c_foot nc) by (unfold cur_ptr, b1; cbn [push_chunk chunks]; exact Ptop).
    assert (Efb2 : cur_foot k b2 = c_foot nc).
    { rewrite (cur_foot_fast k b1 l p b2 F2). reflexivity. }
    assert (Ne : c_foot nc <> cur_foot k b).
    { destruct Hf as (Hsafe & D0 & Da & Dw & Dd & Ds).
      unfold req_safe in Hsafe. rewrite !andb_true_iff in Hsafe. destruct Hsafe as [[[_ L2'] _] _].
      apply N.leb_le in L2'. pose proof (ko_f k K) as Fp. rewrite Efoot.
      unfold cur_foot. destruct (chunks b) as [|c0 r0] eqn:EC.
      - unfold rng_disj in Ds. lia.
      - inversion Dd as [|? ? D1 _]; subst. destruct HC as (Hok & _).
        inversion Hok as [|? ? Hc0 _]; subst. destruct Hc0 as (_ & _ & _ & X4 & X5 & _).
        unfold rng_disj, c_end in D1. lia. }
    unfold top_after. rewrite Efb2. apply N.eqb_neq in Ne. rewrite Ne.
    rewrite Ecur in B2, L2. split; assumption.
Qed.

(* ---------- list bookkeeping ---------- *)
Lemma remove_blk_app X l1 l2 : In X l1 -> remove_blk X (l1 ++ l2) = remove_blk X l1 ++ l2.
Proof.
  induction l1 as [|y r IH]; cbn [In remove_blk app]; [tauto|].
  intros H. destruct ((fst y =? fst X) && (snd y =? snd X)) eqn:E; [reflexivity|].
  destruct H as [->|H]; [rewrite !N.eqb_refl in E; discriminate|].
  cbn [app]. f_equal. apply IH. exact H.
Qed.

Lemma BlocksInv_remove k cs X rest : BlocksInv k cs rest -> BlocksInv k cs (remove_blk X rest).
Proof.
  intros [HP HD]. split; [apply Forall_remove_blk; exact HP | apply pairwise_remove_blk; exact HD].
Qed.

Lemma BlocksInv_cons_remove k cs y X rest :
  BlocksInv k cs (y :: rest) -> BlocksInv k cs (y :: remove_blk X rest).
Proof.
  intros [HP HD]. inversion HP as [|? ? Hy Hr]; subst. cbn [pairwise] in HD. destruct HD as [Dy Dr].
  split; [constructor; [exact Hy | apply Forall_remove_blk; exact Hr]|].
  cbn [pairwise]. split; [apply Forall_remove_blk; exact Dy | apply pairwise_remove_blk; exact Dr].
Qed.

Lemma BlocksInv_move_in k cs l1 x l2 :
  BlocksInv k cs (x :: l1 ++ l2) <-> BlocksInv k cs (l1 ++ x :: l2).
Proof.
  unfold BlocksInv. rewrite (pairwise_app_cons bdisj bdisj_sym l1 x l2).
  cbn [pairwise]. rewrite !Forall_app, !Forall_cons_iff, Forall_app. tauto.
Qed.

(* replacing a block by one inside it *)
Lemma replace_inside k cs X X' rest :
  BlocksInv k cs rest -> In X rest ->
  fst X <= fst X' -> fst X' + snd X' <= fst X + snd X ->
  fst X' mod k_malign k = 0 ->
  BlocksInv k cs (X' :: remove_blk X rest).
Proof.
  intros [HP HD] Hin I1 I2 Al. split.
  - constructor; [|apply Forall_remove_blk; exact HP].
    rewrite Forall_forall in HP. specialize (HP X Hin).
    destruct HP as (P0 & _ & HX). split; [lia|]. split; [exact Al|].
    destruct (N.eq_dec (snd X') 0) as [Z|NZ]; [left; exact Z|]. right.
    destruct HX as [Z|(c & Hc & Hb)]; [lia|].
    exists c. split; [exact Hc|]. unfold blk_in in *. lia.
  - cbn [pairwise]. split; [|apply pairwise_remove_blk; exact HD].
    pose proof (pairwise_removed bdisj bdisj_sym X rest HD Hin) as HX.
    eapply Forall_impl; [|exact HX]. intros b. apply bdisj_inside; assumption.
Qed.

(* ---------- dealloc ---------- *)
Lemma others_above k c r rest X :
  cfg_ok k -> ChunksInv k (c :: r) -> BlocksInv k (c :: r) rest -> In X rest ->
  fst X = c_ptr c -> snd X <> 0 ->
  blk_in c X /\
  forall b, In b (remove_blk X rest) -> snd b <> 0 -> blk_in c b ->
            fst X + snd X <= fst b /\ fst b mod k_malign k = 0.
Proof.
  intros K HC [HP HD] Hin E NZ.
  assert (PX : placed k (c :: r) X) by (rewrite Forall_forall in HP; apply HP; exact Hin).
  pose proof (blk_at_finger_in_cur k c r X K HC NZ PX E) as BX.
  split; [exact BX|]. intros b Hb NZb Bb.
  pose proof (pairwise_removed bdisj bdisj_sym X rest HD Hin) as HX.
  rewrite Forall_forall in HX. specialize (HX b Hb).
  assert (Pb : placed k (c :: r) b).
  { rewrite Forall_forall in HP. apply HP. eapply remove_blk_incl. exact Hb. }
  split.
  - unfold bdisj, blk_in in *. lia.
  - destruct Pb as (_ & Al & _). exact Al.
Qed.

Lemma dealloc_inv k b rest X :
  cfg_ok k -> ChunksInv k (chunks b) -> BlocksInv k (chunks b) rest -> In X rest ->
  cur_ptr k b = fst X ->
  let b' := set_ptr b (rup (fst X + snd X) (k_malign k)) in
  ChunksInv k (chunks b') /\ BlocksInv k (chunks b') (remove_blk X rest).
Proof.
  intros K HC HB Hin E b'. unfold b'. rewrite chunks_set_ptr'.
  unfold cur_ptr in E. destruct (chunks b) as [|c r] eqn:EC.
  - split; [exact HC | apply BlocksInv_remove; exact HB].
  - pose proof (cfg_m_nz k K) as Nm.
    assert (HCc := HC). destruct HCc as (Hok & _). inversion Hok as [|? ? Hc _]; subst.
    pose proof (chunk_foot_aligned k c K Hc) as Fa.
    destruct Hc as (_ & _ & _ & C4 & C5 & C6 & _).
    destruct (N.eq_dec (snd X) 0) as [Z|NZ].
    + rewrite Z, N.add_0_r, <- E. rewrite (rup_id _ _ Nm C6).
      apply move_up; try assumption; try lia.
      * apply BlocksInv_remove; exact HB.
      * intros x _ _ [X1 _]. exact X1.
    + destruct (others_above k c r rest X K HC HB Hin (eq_sym E) NZ) as [BX Hab].
      apply move_up; try assumption.
      * apply BlocksInv_remove; exact HB.
      * pose proof (rup_ge (fst X + snd X) _ Nm). lia.
      * apply rup_least; [exact Nm | apply mod0_divide; assumption | unfold blk_in in BX; lia].
      * apply rup_mod. exact Nm.
      * intros x Hx NZx Bx. destruct (Hab x Hx NZx Bx) as [A1 A2].
        apply rup_least; [exact Nm | apply mod0_divide; assumption | exact A1].
Qed.

(* shrinking the first block of the list in place *)
Lemma BlocksInv_head_inside k cs X X' rest :
  BlocksInv k cs (X :: rest) -> fst X' = fst X -> snd X' <= snd X -> BlocksInv k cs (X' :: rest).
Proof.
  intros [HP HD] E1 E2. inversion HP as [|? ? Hy Hr]; subst. cbn [pairwise] in HD. destruct HD as [Dy Dr].
  split.
  - constructor; [|exact Hr].
    destruct Hy as (P0 & Al & HX). rewrite <- E1 in P0, Al.
    split; [exact P0|]. split; [exact Al|].
    destruct (N.eq_dec (snd X') 0) as [Z|NZ]; [left; exact Z|]. right.
    destruct HX as [Z|(c & Hc & Hb)]; [lia|].
    exists c. split; [exact Hc|]. unfold blk_in in *. lia.
  - cbn [pairwise]. split; [|exact Dr].
    eapply Forall_impl; [|exact Dy]. intros x. apply bdisj_inside; lia.
Qed.

(* ---------- shrink ---------- *)
Definition res_replace (r : res) (s : N) (X : blk) (rest : list blk) : list blk :=
  match r with ROk q => (q, s) :: remove_blk X rest | _ => rest end.

Lemma after_alloc_copy_res r s n : o_res (snd (after_alloc_copy r s n)) = o_res (snd r).
Proof. unfold after_alloc_copy. destruct (o_res (snd r)) eqn:E; cbn; try rewrite E; reflexivity. Qed.
Lemma after_alloc_copy_fst' r s n : fst (after_alloc_copy r s n) = fst r.
Proof. unfold after_alloc_copy; destruct (o_res (snd r)); reflexivity. Qed.

(* allocate afresh and let the old block go: the fallback of shrink and grow *)
Lemma realloc_fresh_inv k A b rest X l src n :
  cfg_ok k -> ChunksInv k (chunks b) -> BlocksInv k (chunks b) rest -> A_ok k A b ->
  pow2 (l_align l) ->
  let r := after_alloc_copy (try_alloc k A b l) src n in
  ChunksInv k (chunks (fst r)) /\
  BlocksInv k (chunks (fst r)) (res_replace (o_res (snd r)) (l_size l) X rest) /\
  tws (fst r) = tws b /\ limit (fst r) = limit b /\
  (forall q, o_res (snd r) = ROk q -> q mod l_align l = 0 /\ q mod k_malign k = 0 /\ 0 < q).
Proof.
  intros K HC HB HA Pa r. unfold r. rewrite after_alloc_copy_res, after_alloc_copy_fst'.
  destruct (try_alloc_inv k A b rest l K HC HB HA Pa) as (C & B & T & L & F).
  conj; try assumption.
  destruct (o_res (snd (try_alloc k A b l))); cbn [res_blocks res_replace] in *; try exact B.
  apply BlocksInv_cons_remove. exact B.
Qed.

Lemma delta_facts k sz an :
  cfg_ok k -> pow2 an ->
  let d := rdown sz (N.max an (k_malign k)) in
  d <= sz /\ d mod k_malign k = 0 /\ d mod an = 0.
Proof.
  intros K Pa d.
  assert (PM : pow2 (N.max an (k_malign k))) by (apply pow2_max; [exact Pa | apply (ko_m k K)]).
  pose proof (pow2_nz _ PM) as NM. pose proof (cfg_m_nz k K) as Nm. pose proof (pow2_nz _ Pa) as Na.
  pose proof (rdown_mod sz _ NM) as DM.
  split; [apply rdown_le; exact NM|]. split.
  - eapply mod0_trans; [exact Nm | exact NM | | exact DM].
    apply pow2_divide; [apply (ko_m k K) | exact PM | lia].
  - eapply mod0_trans; [exact Na | exact NM | | exact DM].
    apply pow2_divide; [exact Pa | exact PM | lia].
Qed.

Lemma with_ptr_twice c f g : with_ptr (with_ptr c f) g = with_ptr c g.
Proof. reflexivity. Qed.

(* the block at the finger is cut down to [p + d, p + d + s) *)
Lemma shrink_in_place_inv k b rest p old d s :
  cfg_ok k -> ChunksInv k (chunks b) -> BlocksInv k (chunks b) rest ->
  In (p, old) rest -> cur_ptr k b = p ->
  d + s <= old -> d mod k_malign k = 0 ->
  ChunksInv k (chunks (set_ptr b (p + d))) /\
  BlocksInv k (chunks (set_ptr b (p + d))) ((p + d, s) :: remove_blk (p, old) rest).
Proof.
  intros K HC HB Hin E Hds Dm. rewrite chunks_set_ptr'.
  pose proof (cfg_m_nz k K) as Nm.
  assert (PX : placed k (chunks b) (p, old)).
  { destruct HB as [HP _]. rewrite Forall_forall in HP. apply HP. exact Hin. }
  destruct PX as (P0 & Pal & PX). cbn [fst snd] in *.
  unfold cur_ptr in E. destruct (chunks b) as [|c r] eqn:EC.
  - split; [exact HC|].
    destruct PX as [Z|(c & [] & _)]. subst old.
    assert (d = 0) by lia. assert (s = 0) by lia. subst d s.
    apply replace_inside; cbn [fst snd]; try assumption; try lia.
    rewrite N.add_0_r. exact Pal.
  - subst p.
    assert (HCc := HC). destruct HCc as (Hok & _). inversion Hok as [|? ? Hc _]; subst.
    destruct Hc as (_ & _ & _ & C4 & C5 & C6 & _).
    (* every other block of this chunk starts at or after the end of X *)
    assert (Hab : c_ptr c + old <= c_foot c /\
                  forall x, In x (remove_blk (c_ptr c, old) rest) -> snd x <> 0 -> blk_in c x ->
                            c_ptr c + old <= fst x).
    { destruct (N.eq_dec old 0) as [Z|NZ].
      - subst old. split; [lia|]. intros x _ _ [X1 _]. lia.
      - destruct (others_above k c r rest (c_ptr c, old) K HC HB Hin eq_refl NZ) as [BX Hab].
        split; [unfold blk_in in BX; cbn [fst snd] in BX; lia|].
        intros x Hx NZx Bx. destruct (Hab x Hx NZx Bx) as [A1 _]. exact A1. }
    destruct Hab as [Hend Hab].
    assert (Fm : (c_ptr c + d) mod k_malign k = 0) by (apply mod0_add; assumption).
    destruct (move_up k c r (remove_blk (c_ptr c, old) rest) (c_ptr c + d) K HC
                (BlocksInv_remove k _ _ _ HB)) as [C1 B1]; try lia; try assumption.
    { intros x Hx NZx Bx. specialize (Hab x Hx NZx Bx). lia. }
    rewrite <- (with_ptr_twice c (c_ptr c + d) (c_ptr c + d)).
    apply move_down; try assumption; cbn [with_ptr c_data c_ptr c_foot c_nswf]; try lia.
    + unfold c_foot in *. cbn [with_ptr c_data c_nswf]. lia.
    + intros x Hx NZx Bx.
      assert (Bx' : blk_in c x).
      { unfold blk_in, c_foot in *. cbn [with_ptr c_ptr c_data c_nswf] in Bx. lia. }
      specialize (Hab x Hx NZx Bx'). lia.
Qed.

Lemma shrink_inv k A b rest p old new :
  cfg_ok k -> ChunksInv k (chunks b) -> BlocksInv k (chunks b) rest -> A_ok k A b ->
  In (p, l_size old) rest -> l_size new <= l_size old ->
  pow2 (l_align new) -> pow2 (l_align old) -> p mod l_align old = 0 ->
  let r := shrink k A b p old new in
  ChunksInv k (chunks (fst r)) /\
  BlocksInv k (chunks (fst r)) (res_replace (o_res (snd r)) (l_size new) (p, l_size old) rest) /\
  tws (fst r) = tws b /\ limit (fst r) = limit b /\
  (forall q, o_res (snd r) = ROk q -> q mod l_align new = 0 /\ q mod k_malign k = 0 /\ 0 < q).
Proof.
  intros K HC HB HA Hin Hle Pn Po Hpa. unfold shrink.
  pose proof (cfg_m_nz k K) as Nm. pose proof (pow2_nz _ Pn) as Nn. pose proof (pow2_nz _ Po) as No.
  assert (PX : placed k (chunks b) (p, l_size old)).
  { destruct HB as [HP _]. rewrite Forall_forall in HP. apply HP. exact Hin. }
  destruct PX as (P0 & Pal & _). cbn [fst snd] in *.
  destruct (l_align old <? l_align new) eqn:EA.
  - destruct (p mod l_align new =? 0) eqn:EP; cbn [fst snd o_res res_replace].
    + apply N.eqb_eq in EP. conj; try assumption; try reflexivity.
      * apply replace_inside; cbn [fst snd]; try assumption; lia.
      * okres.
    + apply realloc_fresh_inv; assumption.
  - apply N.ltb_ge in EA.
    assert (Dn : (l_align new | l_align old)) by (apply pow2_divide; assumption).
    assert (Ppn : p mod l_align new = 0) by (eapply mod0_trans; [exact Nn | exact No | exact Dn | exact Hpa]).
    destruct (delta_facts k (l_size old - l_size new) (l_align new) K Pn) as (D1 & D2 & D3).
    set (delta := rdown (l_size old - l_size new) (N.max (l_align new) (k_malign k))) in *.
    destruct ((cur_ptr k b =? p) && ((l_size old + 1) / 2 <=? delta)) eqn:EI; cbn [fst snd o_res res_replace].
    + apply andb_prop in EI. destruct EI as [E1 _]. apply N.eqb_eq in E1.
      destruct (shrink_in_place_inv k b rest p (l_size old) delta (l_size new) K HC HB Hin E1) as [C1 B1];
        try lia; try assumption.
      destruct (set_ptr_fields b (p + delta)) as [T L].
      conj; try assumption.
      intros q Hq; inversion Hq; subst q. conj.
      * apply mod0_add; assumption.
      * apply mod0_add; assumption.
      * lia.
    + conj; try assumption; try reflexivity.
      * apply replace_inside; cbn [fst snd]; try assumption; lia.
      * okres.
Qed.

(* ---------- grow ---------- *)
Lemma at_finger_facts k c r rest old :
  cfg_ok k -> ChunksInv k (c :: r) -> BlocksInv k (c :: r) rest -> In (c_ptr c, old) rest ->
  c_ptr c + old <= c_foot c /\
  forall x, In x (remove_blk (c_ptr c, old) rest) -> snd x <> 0 -> blk_in c x ->
            c_ptr c + old <= fst x.
Proof.
  intros K HC HB Hin.
  assert (HCc := HC). destruct HCc as (Hok & _). inversion Hok as [|? ? Hc _]; subst.
  destruct Hc as (_ & _ & _ & C4 & C5 & C6 & _).
  destruct (N.eq_dec old 0) as [Z|NZ].
  - subst old. split; [lia|]. intros x _ _ [X1 _]. lia.
  - destruct (others_above k c r rest (c_ptr c, old) K HC HB Hin eq_refl NZ) as [BX Hab].
    split; [unfold blk_in in BX; cbn [fst snd] in BX; lia|].
    intros x Hx NZx Bx. destruct (Hab x Hx NZx Bx) as [A1 _]. exact A1.
Qed.

Lemma zst_block_inv k cs rest q :
  BlocksInv k cs rest -> 0 < q -> q mod k_malign k = 0 -> BlocksInv k cs ((q, 0) :: rest).
Proof.
  intros [HP HD] Q0 Qm. split.
  - constructor; [|exact HP]. split; [exact Q0|]. split; [exact Qm|]. left. reflexivity.
  - cbn [pairwise]. split; [|exact HD]. apply Forall_forall. intros x _. left. reflexivity.
Qed.

Lemma grow_inv k A b rest p old new :
  cfg_ok k -> ChunksInv k (chunks b) -> BlocksInv k (chunks b) rest -> A_ok k A b ->
  In (p, l_size old) rest -> l_size old <= l_size new ->
  pow2 (l_align new) -> pow2 (l_align old) ->
  let r := grow k A b p old new in
  ChunksInv k (chunks (fst r)) /\
  BlocksInv k (chunks (fst r)) (res_replace (o_res (snd r)) (l_size new) (p, l_size old) rest) /\
  tws (fst r) = tws b /\ limit (fst r) = limit b /\
  (forall q, o_res (snd r) = ROk q -> q mod l_align new = 0 /\ q mod k_malign k = 0 /\ 0 < q).
Proof.
  intros K HC HB HA Hin Hle Pn Po. unfold grow.
  pose proof (cfg_m_nz k K) as Nm. pose proof (pow2_nz _ Pn) as Nn. pose proof (pow2_nz _ Po) as No.
  destruct (round_up_to (l_size new) (k_malign k)) as [ns|] eqn:ER; cbn [fst snd o_res res_replace].
  2:{ conj; try assumption; try reflexivity. nores. }
  apply round_up_to_some in ER. destruct ER as [-> _].
  pose proof (rup_ge (l_size new) _ Nm) as Hns.
  set (ns := rup (l_size new) (k_malign k)) in *.
  assert (FB := realloc_fresh_inv k A b rest (p, l_size old) new p (l_size old) K HC HB HA Pn).
  cbv zeta in FB.
  destruct ((l_align new <=? l_align old) && (cur_ptr k b =? p)) eqn:EC; [|exact FB].
  apply andb_prop in EC. destruct EC as [E1 E2]. apply N.leb_le in E1. apply N.eqb_eq in E2.
  destruct (layout_ok (ns - l_size old) (l_align old)) eqn:EL; cbn [fst snd o_res res_replace].
  2:{ conj; try assumption; try reflexivity. nores. }
  destruct (fast k b (mkLayout (ns - l_size old) (l_align old))) as [[q b1]|] eqn:EF; [|exact FB].
  cbn [fst snd o_res res_replace].
  destruct (fast_facts k b (mkLayout (ns - l_size old) (l_align old)) q b1 K HC Po EF) as (X1 & X2 & X3 & X4 & X5 & Hm).
  cbn [l_size l_align] in *.
  assert (Dn : (l_align new | l_align old)) by (apply pow2_divide; assumption).
  assert (Qn : q mod l_align new = 0) by (eapply mod0_trans; [exact Nn | exact No | exact Dn | exact X1]).
  unfold cur_ptr in E2.
  destruct (chunks b) as [|c r] eqn:ECh.
  - destruct Hm as (-> & -> & Z).
    assert (PX : placed k [] (p, l_size old)).
    { destruct HB as [HP _]. rewrite Forall_forall in HP. apply HP. exact Hin. }
    destruct PX as (_ & _ & [Zo|(c & [] & _)]). cbn [snd] in Zo.
    assert (Zn : l_size new = 0) by lia. rewrite Zn.
    conj; try assumption.
    + apply zst_block_inv; [apply BlocksInv_remove; exact HB | exact X3 | exact X2].
    + okres.
  - destruct Hm as (-> & M1 & M2). subst p.
    destruct (at_finger_facts k c r rest (l_size old) K HC HB Hin) as [Hend Hab].
    destruct (move_down k c r (remove_blk (c_ptr c, l_size old) rest) q (l_size new) K HC
                (BlocksInv_remove k _ _ _ HB)) as [C1 B1]; try lia; try assumption.
    { intros x Hx NZx Bx. specialize (Hab x Hx NZx Bx). lia. }
    conj; try assumption. okres.
Qed.

(* ---------- the client's obligations (the unsafe contract of the API) ---------- *)
Definition wf_op (k : cfg) (g : gstate) (o : op) : Prop :=
  let b := fst g in let live := snd g in
  match o with
  | OWithCapacity _ => chunks b = [] /\ tws b = []
  | OAlloc l => lay_ok l = true
  | ODealloc p l => In (p, l_size l) live
  | OGrow _ p old new =>
      In (p, l_size old) live /\ lay_ok old = true /\ lay_ok new = true /\ l_size old <= l_size new
  | OShrink p old new =>
      In (p, l_size old) live /\ lay_ok old = true /\ lay_ok new = true /\
      l_size new <= l_size old /\ p mod l_align old = 0
  | ORealloc p l n => In (p, l_size l) live /\ lay_ok l = true /\ p mod l_align l = 0
  | OReset => tws b = []            (* reset needs &mut self: no initialiser is running *)
  | OSetLimit _ => True
  | OTwBegin l => lay_ok l = true
  | OTwEnd ok => tws b <> []
  | ODrop => tws b = []
  end.

(* operations covered by the safety theorem below: everything except the rewind
   of a failed initialiser, which is treated in ArenaRewind.v *)
Definition no_rewind (o : op) : Prop := match o with OTwEnd false => False | _ => True end.

Lemma in_live_blocks (g : gstate) X : In X (snd g) -> In X (blocks g).
Proof. intros H. unfold blocks. apply in_or_app. left. exact H. Qed.

Lemma slots_set_tws b ts : slots (set_tws b ts) = map region ts.
Proof. reflexivity. Qed.

Lemma grow_zeroed_res k A b p old new :
  o_res (snd (grow_zeroed k A b p old new)) = o_res (snd (grow k A b p old new)) /\
  fst (grow_zeroed k A b p old new) = fst (grow k A b p old new).
Proof. unfold grow_zeroed. destruct (o_res (snd (grow k A b p old new))) eqn:E; cbn; rewrite ?E; auto. Qed.

Lemma realloc_inv k A b rest p l n :
  cfg_ok k -> ChunksInv k (chunks b) -> BlocksInv k (chunks b) rest -> A_ok k A b ->
  In (p, l_size l) rest -> lay_ok l = true -> p mod l_align l = 0 ->
  let r := realloc k A b p l n in
  ChunksInv k (chunks (fst r)) /\
  BlocksInv k (chunks (fst r))
    (res_replace (o_res (snd r)) (if l_size l =? 0 then 0 else n) (p, l_size l) rest) /\
  tws (fst r) = tws b /\ limit (fst r) = limit b /\
  (forall q, o_res (snd r) = ROk q -> q mod l_align l = 0 /\ q mod k_malign k = 0 /\ 0 < q).
Proof.
  intros K HC HB HA Hin Hl Hpa. pose proof (lay_ok_pow2 l Hl) as Pa. unfold realloc.
  destruct (l_size l =? 0) eqn:EZ.
  - apply N.eqb_eq in EZ.
    destruct (try_alloc_inv k A b rest l K HC HB HA Pa) as (C & B & T & L & F).
    conj; try assumption.
    destruct (o_res (snd (try_alloc k A b l))); cbn [res_blocks res_replace] in *; try exact B.
    rewrite EZ in B. apply BlocksInv_cons_remove. exact B.
  - apply N.eqb_neq in EZ.
    destruct (layout_ok n (l_align l)) eqn:EL; cbn [fst snd o_res res_replace].
    2:{ conj; try assumption; try reflexivity. nores. }
    destruct (n <=? l_size l) eqn:EN.
    + apply N.leb_le in EN.
      apply (shrink_inv k A b rest p l (mkLayout n (l_align l))); assumption.
    + apply N.leb_gt in EN.
      apply (grow_inv k A b rest p l (mkLayout n (l_align l))); try assumption.
      cbn [l_size]. lia.
Qed.

(* ---------- every operation preserves the invariant ---------- *)
Theorem gstep_inv k A g o :
  cfg_ok k -> Inv k g -> wf_op k g o -> no_rewind o -> A_ok k A (fst g) ->
  Inv k (fst (gstep k A g o)).
Proof.
  intros K [HC HB] Hwf Hnr HA. destruct g as [b live]. unfold Inv, gstep, blocks in *.
  cbn [fst snd] in *.
  destruct o; cbn [step live_step wf_op fst snd] in *.
  - (* with_capacity *)
    destruct Hwf as [E1 E2]. unfold with_capacity. rewrite E1. rewrite E1 in HC, HB.
    destruct (cap =? 0); cbn [fst snd]; [rewrite E1; split; assumption|].
    destruct (layout_ok cap (k_malign k)); cbn [fst snd]; [|rewrite E1; split; assumption].
    destruct (A b (ForCapacity cap)) as [a reqs] eqn:EA.
    destruct a as [|w|g data]; cbn [fst snd]; try (rewrite E1; split; assumption).
    assert (Hf : fresh_chunk_ok k b g data) by (apply (HA (ForCapacity cap)); rewrite EA; reflexivity).
    destruct (new_chunk_inv k b g data K) as (C1 & _ & _); [rewrite E1; exact HC | exact Hf |].
    cbn [push_chunk chunks]. rewrite E1 in *. split; [exact C1|].
    apply BlocksInv_push. exact HB.
  - (* alloc *)
    pose proof (lay_ok_pow2 l Hwf) as Pa.
    destruct (try_alloc_inv k A b (live ++ slots b) l K HC HB HA Pa) as (C & B & T & _ & _).
    split; [exact C|]. unfold slots in *. rewrite T.
    destruct (o_res (snd (try_alloc k A b l))); cbn [res_blocks] in B; exact B.
  - (* dealloc *)
    unfold dealloc. destruct (cur_ptr k b =? p) eqn:E; cbn [fst snd].
    + apply N.eqb_eq in E.
      destruct (dealloc_inv k b (live ++ slots b) (p, l_size l) K HC HB
                  (in_live_blocks (b, live) _ Hwf) E) as [C B].
      cbn [fst snd] in *. split; [exact C|].
      unfold slots in *. destruct (set_ptr_fields b (rup (p + l_size l) (k_malign k))) as [-> _].
      rewrite <- (remove_blk_app _ _ _ Hwf). exact B.
    + split; [exact HC|]. rewrite <- (remove_blk_app _ _ _ Hwf). apply BlocksInv_remove. exact HB.
  - (* grow / grow_zeroed *)
    destruct Hwf as (Hin & Lo & Ln & Hle).
    assert (G := grow_inv k A b (live ++ slots b) p old new K HC HB HA
                   (in_live_blocks (b, live) _ Hin) Hle (lay_ok_pow2 _ Ln) (lay_ok_pow2 _ Lo)).
    cbv zeta in G. destruct G as (C & B & T & _ & _).
    assert (Goal : ChunksInv k (chunks (fst (grow k A b p old new))) /\
            BlocksInv k (chunks (fst (grow k A b p old new)))
              (match o_res (snd (grow k A b p old new)) with
               | ROk q => (q, l_size new) :: remove_blk (p, l_size old) live
               | _ => live end ++ slots (fst (grow k A b p old new)))).
    { split; [exact C|]. unfold slots in *. rewrite T.
      destruct (o_res (snd (grow k A b p old new))); cbn [res_replace] in B; try exact B.
      cbn [app]. rewrite <- (remove_blk_app _ _ _ Hin). exact B. }
    destruct zeroed; [|exact Goal].
    destruct (grow_zeroed_res k A b p old new) as [R1 R2]. rewrite R1, R2. exact Goal.
  - (* shrink *)
    destruct Hwf as (Hin & Lo & Ln & Hle & Hpa).
    assert (G := shrink_inv k A b (live ++ slots b) p old new K HC HB HA
                   (in_live_blocks (b, live) _ Hin) Hle (lay_ok_pow2 _ Ln) (lay_ok_pow2 _ Lo) Hpa).
    cbv zeta in G. destruct G as (C & B & T & _ & _).
    split; [exact C|]. unfold slots in *. rewrite T.
    destruct (o_res (snd (shrink k A b p old new))); cbn [res_replace] in B; try exact B.
    cbn [app]. rewrite <- (remove_blk_app _ _ _ Hin). exact B.
  - (* realloc *)
    destruct Hwf as (Hin & Ll & Hpa).
    assert (G := realloc_inv k A b (live ++ slots b) p l n K HC HB HA
                   (in_live_blocks (b, live) _ Hin) Ll Hpa).
    cbv zeta in G. destruct G as (C & B & T & _ & _).
    split; [exact C|]. unfold slots in *. rewrite T.
    destruct (o_res (snd (realloc k A b p l n))); cbn [res_replace] in B; try exact B.
    cbn [app]. rewrite <- (remove_blk_app _ _ _ Hin). exact B.
  - (* reset *)
    unfold reset. destruct (chunks b) as [|c r] eqn:EC; cbn [fst snd chunks slots tws map app].
    + rewrite EC. split; [exact HC|]. unfold slots. rewrite Hwf. split; [constructor | exact I].
    + split; [|split; [constructor | exact I]].
      destruct HC as (Hok & Hst & Hpw).
      inversion Hok as [|? ? Hc _]; subst. inversion Hst as [|? ? Hs _]; subst.
      pose proof (chunk_foot_aligned k c K Hc) as Fa.
      split; [|split].
      * constructor; [|constructor].
        destruct Hc as (C1 & C2 & C3 & C4 & C5 & C6 & C7).
        unfold chunk_ok, c_end, c_foot in *; cbn [c_data c_nswf c_ptr c_align]. conj; try assumption; lia.
      * constructor; [|constructor].
        unfold chunk_off_static, c_end, c_foot in *; cbn [c_data c_nswf]. exact Hs.
      * cbn [pairwise]. split; [constructor | exact I].
  - (* set_allocation_limit *)
    split; assumption.
  - (* tw_begin *)
    pose proof (lay_ok_pow2 l Hwf) as Pa. unfold tw_begin.
    destruct (try_alloc_inv k A b (live ++ slots b) l K HC HB HA Pa) as (C & B & T & _ & _).
    pose proof (try_alloc_region_inv k A b (live ++ slots b) l K HC HB HA Pa) as RG. cbv zeta in RG.
    destruct (o_res (snd (try_alloc k A b l))) eqn:ER; cbn [fst snd res_blocks] in *;
      try (split; [exact C|]; unfold slots in *; rewrite T; exact B).
    unfold push_tw, slots. cbn [chunks tws map]. split; [exact C|].
    rewrite T. unfold slots in RG.
    apply BlocksInv_move_in. unfold region. cbn [tw_res tw_size tw_top].
    destruct (RG p eq_refl) as [RB _]. exact RB.
  - (* tw_end, initialiser succeeded: the slot, which lies inside its region, becomes the client's *)
    destruct ok; [|contradiction]. unfold tw_end.
    destruct (tws b) as [|t ts] eqn:ET; [contradiction|]. cbn [fst snd o_res set_tws chunks].
    split; [exact HC|]. unfold slots in *. cbn [tws]. rewrite ET in HB. cbn [map] in HB.
    cbn [app]. apply BlocksInv_move_in in HB.
    destruct HB as [HP HD]. inversion HP as [|? ? Hy Hr]; subst. cbn [pairwise] in HD. destruct HD as [Dy Dr].
    split.
    + constructor; [|exact Hr].
      destruct Hy as (P0 & Al & HX). unfold slot, region in *. cbn [fst snd] in *.
      split; [exact P0|]. split; [exact Al|].
      destruct (N.eq_dec (tw_size t) 0) as [Z|NZ]; [left; exact Z|]. right.
      destruct HX as [Z|(c & Hc & Hb)]; [lia|].
      exists c. split; [exact Hc|]. unfold blk_in in *. cbn [fst snd] in *. lia.
    + cbn [pairwise]. split; [|exact Dr].
      eapply Forall_impl; [|exact Dy]. intros x. apply bdisj_inside; unfold slot, region; cbn [fst snd]; lia.
  - (* drop *)
    cbn [drop_arena fst chunks slots tws map app].
    split; [split; [constructor|split; [constructor|exact I]] | split; [constructor | exact I]].
Qed.

(* try_alloc never touches the list of pending initialisers *)
Lemma try_alloc_tws k A b l : tws (fst (try_alloc k A b l)) = tws b.
Proof.
  unfold try_alloc. destruct (fast k b l) as [[p b1]|] eqn:F; cbn [fst].
  - unfold fast in F. destruct (fast_ptr _ _ _ _); [|discriminate]. inversion F; subst.
    apply set_ptr_fields.
  - unfold slow. destruct (A b (ForLayout l)) as [a reqs]. destruct a as [|w|g data]; cbn [fst]; try reflexivity.
    destruct (fast k (push_chunk b (new_chunk k b g data)) l) as [[p b2]|] eqn:F2; cbn [fst]; [|reflexivity].
    unfold fast in F2. destruct (fast_ptr _ _ _ _); [|discriminate]. inversion F2; subst.
    destruct (set_ptr_fields (push_chunk b (new_chunk k b g data)) p) as [T _]. rewrite T. reflexivity.
Qed.
