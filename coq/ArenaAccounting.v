(* ArenaAccounting.v — C08: the footer's allocated_bytes chain equals what is held. *)
From BV Require Import Word ArenaModel ArenaSpec ArenaTrans.
From Coq Require Import Lia.

Definition head_ab (cs : list chunk) : N := match cs with [] => 0 | c :: _ => c_ab c end.

Fixpoint ab_chain (cs : list chunk) : Prop :=
  match cs with
  | [] => True
  | c :: r => c_ab c = c_nswf c + head_ab r /\ ab_chain r
  end.

Definition AbInv (b : bump) : Prop := ab_chain (chunks b).

Lemma AbInv_fresh : AbInv fresh.
Proof. exact I. Qed.

Lemma chunks_set_ptr b p :
  chunks (set_ptr b p) = match chunks b with [] => [] | c :: r => with_ptr c p :: r end.
Proof. unfold set_ptr. destruct (chunks b) eqn:E; [exact E | reflexivity]. Qed.

Lemma elem_ab k a b : elem k a b -> AbInv a -> AbInv b.
Proof.
  unfold AbInv. intros H; destruct H as [b p|b g data|b|b|b o|b ts]; intros Ha.
  - rewrite chunks_set_ptr. destruct (chunks b) as [|c r]; [exact Ha|].
    cbn [ab_chain with_ptr c_ab c_nswf] in *. exact Ha.
  - cbn [push_chunk chunks ab_chain new_chunk c_ab c_nswf]. split; [|exact Ha].
    unfold ab_of, head_ab. lia.
  - unfold reset. destruct (chunks b) as [|c r] eqn:E; cbn [fst chunks]; [rewrite E; exact I|].
    cbn [ab_chain c_ab c_nswf head_ab]. split; [lia | exact I].
  - cbn [drop_arena fst chunks ab_chain]. exact I.
  - exact Ha.
  - exact Ha.
Qed.

Lemma ab_sum k cs :
  ab_chain cs ->
  sumN (map g_sz (map (chunk_block k) cs)) = head_ab cs + N.of_nat (length cs) * k_footer k.
Proof.
  induction cs as [|c r IH]; cbn [ab_chain map sumN fold_right length head_ab]; intros H.
  - reflexivity.
  - destruct H as [Hc Hr]. specialize (IH Hr). unfold sumN in IH. rewrite IH.
    unfold chunk_block, g_sz; cbn [fst snd]. rewrite Hc.
    rewrite Nat2N.inj_succ. lia.
Qed.

Lemma accounting_of_inv k b :
  AbInv b ->
  sp_accounting k (held k b) (q_allocated_bytes b) (q_allocated_bytes_incl k b) = true.
Proof.
  intros H. unfold sp_accounting, held, q_allocated_bytes, q_allocated_bytes_incl.
  rewrite (ab_sum k _ H). rewrite map_length.
  replace (head_ab (chunks b)) with (ab_of b) by reflexivity.
  rewrite !N.eqb_refl. reflexivity.
Qed.

(* every reachable state *)
Theorem accounting_reachable k h :
  let b := run k fresh h in
  sp_accounting k (held k b) (q_allocated_bytes b) (q_allocated_bytes_incl k b) = true.
Proof.
  intro b. apply accounting_of_inv. unfold b.
  apply (run_inv k AbInv (elem_ab k)). exact AbInv_fresh.
Qed.

(* both getters are functions of what is held: they cannot change unless a
   chunk is acquired or released *)
Theorem accounting_changes_only_with_held k b1 b2 :
  AbInv b1 -> AbInv b2 -> held k b1 = held k b2 ->
  q_allocated_bytes b1 = q_allocated_bytes b2 /\
  q_allocated_bytes_incl k b1 = q_allocated_bytes_incl k b2.
Proof.
  intros H1 H2 E.
  pose proof (ab_sum k _ H1) as S1. pose proof (ab_sum k _ H2) as S2.
  unfold held in E. rewrite E in S1. rewrite S1 in S2.
  assert (L : length (chunks b1) = length (chunks b2)).
  { rewrite <- (map_length (chunk_block k) (chunks b1)), E, map_length. reflexivity. }
  unfold q_allocated_bytes, q_allocated_bytes_incl.
  replace (head_ab (chunks b1)) with (ab_of b1) in S2 by reflexivity.
  replace (head_ab (chunks b2)) with (ab_of b2) in S2 by reflexivity.
  rewrite L in *. split; lia.
Qed.

(* zero for an arena that holds nothing *)
Theorem accounting_zero k b :
  held k b = [] -> q_allocated_bytes b = 0 /\ q_allocated_bytes_incl k b = 0.
Proof.
  unfold held, q_allocated_bytes, q_allocated_bytes_incl, ab_of.
  destruct (chunks b); [intros _; cbn; split; lia | discriminate].
Qed.
