(* VecFacts2.v — more of Vec refines std's list semantics (C13): extend (all three
   flavours), split_off, drain, resize. *)
From BV Require Import Word WordFacts VecModel VecFacts.
From Coq Require Import Lia Arith PeanoNat.

(* ---------- writing a run of elements after the initialised prefix ---------- *)
Lemma write_all_spec xs : forall c rest,
  (length xs <= length rest)%nat ->
  write_all (map Some c ++ rest) (length c) xs = map Some (c ++ xs) ++ skipn (length xs) rest.
Proof.
  induction xs as [|x xs IH]; intros c rest H; cbn [write_all length skipn] in *.
  - rewrite app_nil_r. reflexivity.
  - destruct rest as [|r rest]; [cbn in H; lia|]. cbn [length] in H.
    rewrite set_slot_next. replace (length c + 1)%nat with (length (c ++ [x])) by (rewrite app_length; cbn; lia).
    rewrite IH by lia. rewrite <- app_assoc. reflexivity.
Qed.

Lemma repr_rest_length e v c rest : repr e v c -> v_buf v = map Some c ++ rest ->
  length rest = (nn (v_cap v) - length c)%nat.
Proof.
  intros _ Hb. unfold v_cap, nn. rewrite Nat2N.id, Hb, app_length, map_length. lia.
Qed.

(* extend_from_slice (Copy elements) / append / extend with an exact hint *)
Theorem extend_copy_spec e v c xs v' :
  repr e v c -> extend_copy e v xs = Ret v' -> repr e v' (c ++ xs).
Proof.
  intros R. unfold extend_copy.
  destruct (reserve e v (N.of_nat (length xs)) false) as [v1|k] eqn:E; [|discriminate].
  intros H; inversion H; subst v'; clear H.
  destruct (reserve_spec e v c _ _ v1 R E) as (R1 & Hcap & _).
  destruct R1 as ((rest & Hb) & Hl & Hc & He).
  assert (Hlen : nn (v_len v1) = length c) by (unfold nn; lia).
  assert (Hv : v_len v = v_len v1).
  { destruct R as (_ & Hl0 & _). lia. }
  assert (Hrest : (length xs <= length rest)%nat).
  { unfold v_cap in Hcap. rewrite Hb, app_length, map_length in Hcap. lia. }
  unfold repr, v_cap. cbn [v_buf v_len]. rewrite Hb, Hlen, write_all_spec by exact Hrest.
  split; [eexists; reflexivity|]. split; [rewrite app_length; lia|]. split; [|exact He].
  assert (EL : length (map Some (c ++ xs) ++ skipn (length xs) rest) = length (map Some c ++ rest)).
  { rewrite !app_length, !map_length, app_length, skipn_length. lia. }
  rewrite EL. unfold v_cap in Hc. rewrite Hb in Hc. exact Hc.
Qed.

(* Extend::extend: reserve the lower bound of the size hint, then push one by one *)
Lemma push_fold_spec e xs : forall v c v',
  repr e v c ->
  fold_left (fun acc x => match acc with Panic k => Panic k | Ret w => push e w x end) xs (Ret v) = Ret v' ->
  repr e v' (c ++ xs).
Proof.
  induction xs as [|x xs IH]; intros v c v' R H; cbn [fold_left] in H.
  - inversion H; subst. rewrite app_nil_r. exact R.
  - destruct (push e v x) as [w|k] eqn:E.
    + replace (c ++ x :: xs) with ((c ++ [x]) ++ xs) by (rewrite <- app_assoc; reflexivity).
      apply (IH w); [apply (push_spec e v c x w R E) | exact H].
    + exfalso. clear -H. induction xs as [|y ys IHy]; cbn [fold_left] in H; [discriminate | auto].
Qed.

Theorem extend_iter_spec e v c hint xs v' :
  repr e v c -> extend_iter e v hint xs = Ret v' -> repr e v' (c ++ xs).
Proof.
  intros R. unfold extend_iter.
  destruct (reserve e v hint false) as [v1|k] eqn:E; [|discriminate].
  destruct (reserve_spec e v c _ _ v1 R E) as (R1 & _). apply push_fold_spec. exact R1.
Qed.

(* a hint that lies only changes the capacity, never the contents *)
Corollary extend_iter_hint_irrelevant e v c h1 h2 xs v1 v2 :
  repr e v c -> extend_iter e v h1 xs = Ret v1 -> extend_iter e v h2 xs = Ret v2 ->
  contents v1 = contents v2.
Proof.
  intros R E1 E2. rewrite (repr_contents e v1 _ (extend_iter_spec e v c h1 xs v1 R E1)).
  rewrite (repr_contents e v2 _ (extend_iter_spec e v c h2 xs v2 R E2)). reflexivity.
Qed.

(* ---------- split_off ---------- *)
Theorem split_off_spec e v c at_ v1 v2 :
  ecfg_ok e -> repr e v c -> split_off e v at_ = Ret (v1, v2) ->
  repr e v1 (firstn (nn at_) c) /\ repr e v2 (skipn (nn at_) c) /\ at_ <= v_len v.
Proof.
  intros Ee R. unfold split_off.
  destruct (v_len v <? at_) eqn:E; [discriminate|]. apply N.ltb_ge in E.
  pose proof (vwith_capacity_spec e (v_len v - at_) Ee) as WS.
  destruct (vwith_capacity e (v_len v - at_)) as [o|k]; [|discriminate].
  intros H; inversion H; subst v1 v2; clear H.
  destruct WS as (Ro & Hcap & Hsz).
  destruct R as ((rest & Hb) & Hl & Hc & He).
  assert (La : (nn at_ <= length c)%nat) by (unfold nn; lia).
  split; [|split; [|exact E]].
  - unfold repr, v_cap. cbn [v_buf v_len]. split.
    + exists (map Some (skipn (nn at_) c) ++ rest). rewrite Hb, app_assoc, <- map_app, firstn_skipn. reflexivity.
    + split; [rewrite firstn_length; unfold nn in *; lia|]. split; [exact Hc | exact He].
  - destruct Ro as ((orest & Hob) & Hol & Hoc & _). cbn [map app] in Hob.
    set (tail := firstn (nn (v_len v - at_)) (skipn (nn at_) (v_buf v))).
    assert (Htail : tail = map Some (skipn (nn at_) c)).
    { unfold tail. rewrite Hb. rewrite skipn_app, map_length.
      replace (nn at_ - length c)%nat with 0%nat by lia. cbn [skipn].
      rewrite <- map_skipn. rewrite firstn_app, map_length, skipn_length.
      replace (nn (v_len v - at_) - (length c - nn at_))%nat with 0%nat by (unfold nn in *; lia).
      cbn [firstn]. rewrite app_nil_r. apply firstn_all2. rewrite map_length, skipn_length. unfold nn in *. lia. }
    assert (Hlt : length tail = nn (v_len v - at_)).
    { rewrite Htail, map_length, skipn_length. unfold nn in *. lia. }
    unfold repr. cbn [v_buf v_len]. split.
    + destruct (N.eq_dec (v_len v - at_) 0) as [Z|NZ].
      * assert (tail = []) by (destruct tail; [reflexivity | cbn in Hlt; rewrite Z in Hlt; discriminate]).
        rewrite H in *. exists (v_buf o). unfold overwrite. cbn.
        assert (skipn (nn at_) c = []) by (destruct (skipn (nn at_) c); [reflexivity | discriminate]).
        rewrite H0. cbn. rewrite Nat.sub_0_r. destruct (v_buf o); reflexivity.
      * assert (Hfit : (length tail <= length (v_buf o))%nat).
        { destruct Hcap as [Hcap|Z]; [unfold v_cap, nn in *; lia | exfalso; nia]. }
        exists (skipn (length tail) (v_buf o)). rewrite overwrite_fits by (cbn; lia).
        cbn [firstn app Nat.add]. rewrite Htail. reflexivity.
    + split; [rewrite skipn_length; unfold nn in *; lia|]. split; [|exact He].
      unfold v_cap. cbn [v_buf].
      destruct (N.eq_dec (v_len v - at_) 0) as [Z|NZ].
      * unfold overwrite. cbn. assert (tail = []) by (destruct tail; [reflexivity | cbn in Hlt; rewrite Z in Hlt; discriminate]).
        rewrite H. cbn. rewrite Nat.sub_0_r. unfold v_cap in Hoc. destruct (v_buf o); cbn in *; lia.
      * assert (Hfit : (length tail <= length (v_buf o))%nat).
        { destruct Hcap as [Hcap|Z]; [unfold v_cap, nn in *; lia | exfalso; nia]. }
        rewrite overwrite_length by (cbn; lia). exact Hoc.
Qed.

(* ---------- drain ---------- *)
Lemma drain_range_spec v s e0 a b :
  drain_range v s e0 = Ret (a, b) -> a <= b /\ b <= v_len v.
Proof.
  unfold drain_range. destruct (range_start s); [|discriminate]. destruct (range_end e0 (v_len v)); [|discriminate].
  destruct ((n <=? n0) && (n0 <=? v_len v)) eqn:E; [|discriminate].
  intros H; inversion H; subst. apply andb_prop in E. destruct E as [E1 E2].
  apply N.leb_le in E1, E2. split; assumption.
Qed.

Lemma last_part {A} (l : list A) k :
  l = firstn (length l - k) l ++ rev (firstn k (rev l)).
Proof.
  rewrite firstn_rev, rev_involutive. symmetry. apply firstn_skipn.
Qed.

Lemma slice_of_buf (c : list N) (rest : list slot) a n :
  (a + n <= length c)%nat ->
  firstn n (skipn a (map Some c ++ rest)) = map Some (firstn n (skipn a c)).
Proof.
  intros H. rewrite skipn_app, map_length. replace (a - length c)%nat with 0%nat by lia. cbn [skipn].
  rewrite firstn_app, <- map_skipn, map_length, skipn_length.
  replace (n - (length c - a))%nat with 0%nat by lia. cbn [firstn]. rewrite app_nil_r.
  rewrite <- map_firstn. reflexivity.
Qed.

Theorem drain_spec e v c s e0 front back d :
  repr e v c -> drain v s e0 front back = Ret d ->
  exists a b, drain_range v s e0 = Ret (a, b) /\
    repr e (d_vec d) (firstn (nn a) c ++ skipn (nn b) c) /\
    d_taken_front d ++ d_dropped d ++ rev (d_taken_back d) = firstn (nn b - nn a) (skipn (nn a) c).
Proof.
  intros R. unfold drain. destruct (drain_range v s e0) as [[a b]|k] eqn:ER; [|discriminate].
  intros H; inversion H; subst d; clear H. exists a, b. split; [reflexivity|].
  destruct (drain_range_spec v s e0 a b ER) as [Lab Lb].
  destruct R as ((rest & Hb) & Hl & Hc & He).
  assert (La : (nn a <= nn b)%nat) by (unfold nn; lia).
  assert (Lbc : (nn b <= length c)%nat) by (unfold nn; lia).
  assert (Hlen : nn (v_len v) = length c) by (unfold nn; lia).
  cbn [d_vec d_taken_front d_taken_back d_dropped].
  assert (Items : map (fun s0 : slot => match s0 with Some x => x | None => 0 end)
                    (firstn (nn b - nn a) (skipn (nn a) (v_buf v))) = firstn (nn b - nn a) (skipn (nn a) c)).
  { rewrite Hb, slice_of_buf by lia. apply unslot_some. }
  rewrite Items. set (items := firstn (nn b - nn a) (skipn (nn a) c)).
  split.
  - unfold repr, v_cap. cbn [v_buf v_len]. rewrite Hlen.
    destruct (Nat.eqb (length c - nn b) 0) eqn:ET.
    + apply Nat.eqb_eq in ET. rewrite (skipn_all2 c) by lia. rewrite app_nil_r.
      split; [exists (map Some (skipn (nn a) c) ++ rest); rewrite Hb, app_assoc, <- map_app, firstn_skipn; reflexivity|].
      split; [rewrite firstn_length; unfold nn in *; lia|]. split; [exact Hc | exact He].
    + apply Nat.eqb_neq in ET. unfold copy_within. rewrite Hb.
      rewrite (slice_of_buf c rest (nn b) (length c - nn b)) by lia.
      rewrite (firstn_all2 (skipn (nn b) c)) by (rewrite skipn_length; lia).
      assert (Hfit : (nn a + length (map Some (skipn (nn b) c)) <= length (map Some c ++ rest))%nat).
      { rewrite map_length, skipn_length, app_length, map_length. lia. }
      split.
      * rewrite overwrite_fits by exact Hfit.
        rewrite firstn_app, map_length. replace (nn a - length c)%nat with 0%nat by lia. cbn [firstn]. rewrite app_nil_r.
        rewrite <- map_firstn. eexists. rewrite map_app, <- app_assoc. reflexivity.
      * split; [rewrite app_length, firstn_length, skipn_length; unfold nn in *; lia|]. split; [|exact He].
        rewrite overwrite_length by exact Hfit. unfold v_cap in Hc. rewrite Hb in Hc. exact Hc.
  - rewrite rev_involutive.
    transitivity (firstn front items ++ skipn front items); [|apply firstn_skipn].
    f_equal. symmetry. apply last_part.
Qed.

(* ---------- resize ---------- *)
Theorem resize_grow_spec e v c new_len x next_id boom v' :
  repr e v c -> v_len v < new_len -> fst (resize e v new_len x next_id boom) = Ret v' ->
  exists clones, length clones = (nn (new_len - v_len v) - 1)%nat /\
    repr e v' (c ++ clones ++ [x]) /\ v_len v' = new_len /\
    f_clones (snd (resize e v new_len x next_id boom)) = new_len - v_len v - 1 /\
    f_drops (snd (resize e v new_len x next_id boom)) = [].
Proof.
  intros R Hlt. unfold resize. apply N.ltb_lt in Hlt. rewrite Hlt. apply N.ltb_lt in Hlt.
  destruct (reserve e v (new_len - v_len v) false) as [v1|k] eqn:E; cbn [fst snd]; [|discriminate].
  intros H; inversion H; subst v'; clear H.
  destruct (reserve_spec e v c _ _ v1 R E) as (R1 & Hcap & _).
  set (clones := map (fun i => next_id + N.of_nat i) (seq 0 (nn (new_len - v_len v) - 1))).
  exists clones. split; [unfold clones; rewrite map_length, seq_length; reflexivity|].
  destruct R1 as ((rest & Hb) & Hl & Hc & He).
  assert (Hv : v_len v = v_len v1) by (destruct R as (_ & Hl0 & _); lia).
  assert (Hlen : nn (v_len v1) = length c) by (unfold nn; lia).
  assert (Lx : length (clones ++ [x]) = nn (new_len - v_len v)).
  { rewrite app_length. unfold clones. rewrite map_length, seq_length. cbn [length]. unfold nn in *. lia. }
  assert (Hrest : (length (clones ++ [x]) <= length rest)%nat).
  { unfold v_cap in Hcap. rewrite Hb, app_length, map_length in Hcap. rewrite Lx. unfold nn. lia. }
  split; [|split; [reflexivity | split; reflexivity]].
  unfold repr, v_cap. cbn [v_buf v_len]. rewrite Hb, Hlen, write_all_spec by exact Hrest.
  split; [eexists; reflexivity|]. split; [rewrite app_length, Lx; unfold nn in *; lia|]. split; [|exact He].
  assert (EL : length (map Some (c ++ clones ++ [x]) ++ skipn (length (clones ++ [x])) rest) = length (map Some c ++ rest)).
  { rewrite !app_length, !map_length, skipn_length, !app_length in *. cbn [length] in *. lia. }
  rewrite EL. unfold v_cap in Hc. rewrite Hb in Hc. exact Hc.
Qed.

(* shrinking resize is truncate, and the value passed in is dropped last *)
Theorem resize_shrink_spec e v new_len x next_id boom :
  new_len <= v_len v ->
  fst (resize e v new_len x next_id boom) = fst (truncate v new_len boom) /\
  f_drops (snd (resize e v new_len x next_id boom)) = f_drops (snd (truncate v new_len boom)) ++ [x].
Proof.
  intros H. unfold resize. replace (v_len v <? new_len) with false by (symmetry; apply N.ltb_ge; exact H).
  cbn [fst snd f_drops]. split; reflexivity.
Qed.

(* ---------- amortised growth (C18) and refusals (C19) ---------- *)
(* when an amortised reservation has to grow the buffer, the capacity at least doubles *)
Theorem reserve_doubles e v c extra v' :
  repr e v c -> try_reserve e v extra false = inl v' ->
  v_cap v < v_len v + extra -> 2 * v_cap v <= v_cap v'.
Proof.
  intros R H Hgrow. pose proof (repr_cap_ge_len e v c R) as Hle. pose proof (repr_cap_lt_W e v c R) as HW.
  unfold try_reserve in H.
  assert (Hs : wsub (v_cap v) (v_len v) = v_cap v - v_len v).
  { unfold wsub. replace (v_cap v + W - v_len v) with ((v_cap v - v_len v) + 1 * W) by lia.
    rewrite N.mod_add by (unfold W; lia). apply N.mod_small. lia. }
  rewrite Hs in H.
  destruct (extra <=? v_cap v - v_len v) eqn:E; [apply N.leb_le in E; lia|].
  unfold reserve_internal in H. unfold checked_add in H.
  destruct (v_len v + extra <? W); [|discriminate].
  destruct (layout_array (e_size e) (e_align e) (N.max (v_cap v * 2) (v_len v + extra))) as [l|]; [|discriminate].
  destruct (l_size l <? ARENA_GRANTS); [|discriminate].
  inversion H; subst v'; clear H.
  destruct R as ((rest & Hb) & Hl & Hc & He).
  assert (Hn : (length c + length rest <= nn (N.max (v_cap v * 2) (v_len v + extra)))%nat).
  { unfold v_cap in *. rewrite Hb, app_length, map_length in *. unfold nn. lia. }
  unfold v_cap at 2. cbn [v_buf]. rewrite Hb, (resize_buf_grow c rest _ Hn).
  rewrite app_length, map_length, app_length, repeat_length. unfold nn in *. lia.
Qed.

(* n pushes starting from an empty vector of capacity 0: the capacity only ever changes by
   (at least) doubling, so after k changes it is at least 2^(k-1) *)
Lemma push_cap e v c x v' : repr e v c -> push e v x = Ret v' ->
  v_cap v' = v_cap v \/ (2 * v_cap v <= v_cap v' /\ 1 <= v_cap v').
Proof.
  intros R. unfold push. destruct (v_len v =? v_cap v) eqn:E.
  - apply N.eqb_eq in E. destruct (reserve e v 1 false) as [v1|k] eqn:ER; [|discriminate].
    intros H; inversion H; subst v'; clear H. right.
    destruct (reserve_spec e v c 1 false v1 R ER) as (R1 & Hc1 & _).
    assert (D : 2 * v_cap v <= v_cap v1).
    { unfold reserve in ER. destruct (try_reserve e v 1 false) as [w|er] eqn:ET; [|destruct er; discriminate].
      inversion ER; subst w. apply (reserve_doubles e v c 1 v1 R ET). lia. }
    destruct R1 as ((rest & Hb) & Hl1 & _).
    assert (Hrest : (1 <= length rest)%nat).
    { unfold v_cap in Hc1. rewrite Hb, app_length, map_length in Hc1. destruct R as (_ & Hl & _). lia. }
    assert (EC : v_cap (mkVec (set_slot (v_buf v1) (nn (v_len v1)) x) (v_len v1 + 1)) = v_cap v1).
    { unfold v_cap. cbn [v_buf]. unfold set_slot. rewrite overwrite_length; [reflexivity|].
      rewrite Hb, app_length, map_length. cbn [length]. unfold nn. lia. }
    rewrite EC. split; [exact D | lia].
  - intros H; inversion H; subst v'; clear H. left.
    apply N.eqb_neq in E. pose proof (repr_cap_ge_len e v c R).
    destruct R as ((rest & Hb) & Hl & _).
    unfold v_cap. cbn [v_buf]. unfold set_slot. rewrite overwrite_length; [reflexivity|].
    unfold v_cap in *. rewrite Hb, app_length, map_length in *. cbn [length]. unfold nn. lia.
Qed.

(* extend_from_slices_copy: a total length that does not fit in usize is refused *)
Theorem extend_slices_refuses e v slices lens :
  sum_lens lens = None -> extend_slices_copy e v slices lens = Panic PCapacity.
Proof. intros H. unfold extend_slices_copy. rewrite H. reflexivity. Qed.

Lemma sum_fold_none (lens : list N) :
  fold_left (fun acc n => match acc with Some a => checked_add a n | None => None end) lens None = None.
Proof. induction lens as [|n r IH]; [reflexivity | exact IH]. Qed.

Lemma sum_lens_overflow lens : W <= fold_right N.add 0 lens -> sum_lens lens = None.
Proof.
  unfold sum_lens. assert (G : forall a, a < W -> W <= a + fold_right N.add 0 lens ->
            fold_left (fun acc n => match acc with Some a => checked_add a n | None => None end) lens (Some a) = None).
  { induction lens as [|n r IH]; intros a Ha H; cbn [fold_left fold_right] in *; [lia|].
    unfold checked_add at 2. destruct (a + n <? W) eqn:E.
    - apply N.ltb_lt in E. apply IH; [exact E | lia].
    - apply sum_fold_none. }
  intros H. apply G; [unfold W; lia | lia].
Qed.

(* so: slices whose lengths add up to 2^64 or more are refused, whatever they contain *)
Corollary extend_slices_overflow_refused e v slices lens :
  W <= fold_right N.add 0 lens -> extend_slices_copy e v slices lens = Panic PCapacity.
Proof. intros H. apply extend_slices_refuses. apply sum_lens_overflow. exact H. Qed.

(* pushing a sequence of elements, counting how often the capacity changed (= reallocations) *)
Fixpoint push_count (e : ecfg) (v : vec) (xs : list N) (k : nat) : outcome (vec * nat) :=
  match xs with
  | [] => Ret (v, k)
  | x :: r =>
      match push e v x with
      | Panic p => Panic p
      | Ret v' => push_count e v' r (if v_cap v' =? v_cap v then k else S k)
      end
  end.

(* C18: every reallocation of a growing vector at least doubles it, so k reallocations
   mean a capacity of at least 2^(k-1): their number is logarithmic in the final capacity *)
Theorem pushes_realloc_log e : forall xs v c k v' k',
  repr e v c -> (k = 0%nat \/ 2 ^ N.of_nat (k - 1) <= v_cap v) ->
  push_count e v xs k = Ret (v', k') ->
  repr e v' (c ++ xs) /\ (k' = 0%nat \/ 2 ^ N.of_nat (k' - 1) <= v_cap v').
Proof.
  induction xs as [|x xs IH]; intros v c k v' k' R Hk H; cbn [push_count] in H.
  - inversion H; subst. rewrite app_nil_r. split; assumption.
  - destruct (push e v x) as [w|p] eqn:EP; [|discriminate].
    pose proof (push_spec e v c x w R EP) as Rw.
    pose proof (push_cap e v c x w R EP) as PC.
    replace (c ++ x :: xs) with ((c ++ [x]) ++ xs) by (rewrite <- app_assoc; reflexivity).
    apply (IH w (c ++ [x]) (if v_cap w =? v_cap v then k else S k) v' k' Rw); [|exact H].
    destruct (v_cap w =? v_cap v) eqn:E.
    + apply N.eqb_eq in E. rewrite E. exact Hk.
    + right. apply N.eqb_neq in E. destruct PC as [PC|[PC1 PC2]]; [contradiction|].
      replace (S k - 1)%nat with k by lia.
      destruct Hk as [->|Hk]; [cbn; lia|].
      destruct k as [|k0]; [cbn; lia|].
      replace (N.of_nat (S k0)) with (N.succ (N.of_nat (S k0 - 1))) by lia.
      rewrite N.pow_succ_r'. lia.
Qed.
