(* BoxModel.v — boxed::Box<'a, T>: a Box owns the value(s) behind a pointer into
   the arena, never the memory.  Values are identities; a Box is a pointer, the
   identities it owns (one for a sized value, several in order for a slice or
   array) and a type tag (for dyn Any).  The world records which boxes exist,
   what has been dropped, what was handed to the caller, and what the Box
   operations asked of the arena. *)
From BV Require Import Word.
From Coq Require Import Lia Permutation.

Record bx := mkBx { b_ptr : N; b_ids : list N; b_tag : N }.

Inductive arena_req := AReq_alloc (size align : N).     (* the only request a Box operation ever makes *)

Record bworld := mkBw {
  w_dropped : list N;          (* destructors run, in order *)
  w_given : list N;            (* values moved out to the caller *)
  w_leaked : list N;           (* values intentionally never dropped (leak, into_raw without from_raw) *)
  w_arena : list arena_req     (* requests to the arena *)
}.
Definition bw0 : bworld := mkBw [] [] [] [].

(* Box::new_in(x, a) / pin_in: one allocation, the value moves in *)
Definition box_new (w : bworld) (ptr x tag size align : N) : bworld * bx :=
  (mkBw (w_dropped w) (w_given w) (w_leaked w) (w_arena w ++ [AReq_alloc size align]),
   mkBx ptr [x] tag).

(* drop(b): drop_in_place of the value(s), front to back; the arena is not told *)
Definition box_drop (w : bworld) (b : bx) : bworld :=
  mkBw (w_dropped w ++ b_ids b) (w_given w) (w_leaked w) (w_arena w).

(* Box::into_inner(b): the value moves out, nothing is dropped *)
Definition box_into_inner (w : bworld) (b : bx) : bworld :=
  mkBw (w_dropped w) (w_given w ++ b_ids b) (w_leaked w) (w_arena w).

(* Box::leak(b) / into_raw never followed by from_raw *)
Definition box_leak (w : bworld) (b : bx) : bworld :=
  mkBw (w_dropped w) (w_given w) (w_leaked w ++ b_ids b) (w_arena w).

(* into_raw then from_raw; Pin::from; From<Box<[T; N]>> for Box<[T]>: the same box *)
Definition box_roundtrip (b : bx) : bx := b.

(* TryFrom<Box<[T]>> for Box<[T; N]> *)
Definition box_try_array (b : bx) (n : N) : bx + bx :=
  if N.of_nat (length (b_ids b)) =? n then inl b else inr b.

(* Box<dyn Any>::downcast::<T>() *)
Definition box_downcast (b : bx) (target : N) : bx + bx :=
  if b_tag b =? target then inl b else inr b.

(* Vec::into_boxed_slice / From<Vec<T>> for Box<[T]> / Box::from_iter_in: the
   vector's elements, in order, in the vector's buffer *)
Definition box_of_vec (ptr : N) (elems : list N) (tag : N) : bx := mkBx ptr elems tag.

(* ---------- facts ---------- *)
(* every value a box owned ends in exactly one of: dropped, given, leaked *)
Definition accounted (w : bworld) : list N := w_dropped w ++ w_given w ++ w_leaked w.

Theorem box_drop_once w b :
  Permutation (accounted (box_drop w b)) (accounted w ++ b_ids b) /\
  w_arena (box_drop w b) = w_arena w.
Proof.
  unfold accounted, box_drop; cbn. split; [|reflexivity].
  rewrite <- !app_assoc. apply Permutation_app_head.
  rewrite (app_assoc (w_given w)). apply Permutation_app_comm.
Qed.

Theorem box_into_inner_moves w b :
  w_dropped (box_into_inner w b) = w_dropped w /\
  w_given (box_into_inner w b) = w_given w ++ b_ids b /\
  w_arena (box_into_inner w b) = w_arena w.
Proof. repeat split; reflexivity. Qed.

Theorem box_leak_never_drops w b :
  w_dropped (box_leak w b) = w_dropped w /\ w_arena (box_leak w b) = w_arena w.
Proof. split; reflexivity. Qed.

Theorem box_new_one_alloc w ptr x tag size align :
  w_arena (fst (box_new w ptr x tag size align)) = w_arena w ++ [AReq_alloc size align] /\
  b_ids (snd (box_new w ptr x tag size align)) = [x] /\
  w_dropped (fst (box_new w ptr x tag size align)) = w_dropped w.
Proof. repeat split; reflexivity. Qed.

Theorem box_try_array_preserves b n :
  match box_try_array b n with
  | inl b' => b' = b /\ N.of_nat (length (b_ids b)) = n
  | inr b' => b' = b /\ N.of_nat (length (b_ids b)) <> n
  end.
Proof.
  unfold box_try_array. destruct (N.of_nat (length (b_ids b)) =? n) eqn:E.
  - apply N.eqb_eq in E. split; [reflexivity | exact E].
  - apply N.eqb_neq in E. split; [reflexivity | exact E].
Qed.

Theorem box_downcast_iff_tag b target :
  match box_downcast b target with
  | inl b' => b' = b /\ b_tag b = target
  | inr b' => b' = b /\ b_tag b <> target
  end.
Proof.
  unfold box_downcast. destruct (b_tag b =? target) eqn:E.
  - apply N.eqb_eq in E. split; [reflexivity | exact E].
  - apply N.eqb_neq in E. split; [reflexivity | exact E].
Qed.

(* a whole life: created, passed through any number of ownership-preserving
   conversions, finally dropped: dropped exactly once, one arena request, no release *)
Theorem box_life ptr x tag size align (convs : list (bx -> bx)) :
  (forall f, In f convs -> forall b, f b = b) ->
  let (w1, b1) := box_new bw0 ptr x tag size align in
  let b2 := fold_left (fun b f => f b) convs b1 in
  let w2 := box_drop w1 b2 in
  w_dropped w2 = [x] /\ w_given w2 = [] /\ w_arena w2 = [AReq_alloc size align].
Proof.
  intros H. cbn [box_new bw0].
  assert (E : fold_left (fun b f => f b) convs (mkBx ptr [x] tag) = mkBx ptr [x] tag).
  { induction convs as [|f r IH]; [reflexivity|]. cbn [fold_left]. rewrite (H f (or_introl eq_refl)).
    apply IH. intros g Hg. apply H. right. exact Hg. }
  rewrite E. cbn. repeat split; reflexivity.
Qed.
