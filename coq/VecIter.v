(* VecIter.v — into_iter and clone of the arena Vec. *)
From BV Require Import Word WordFacts VecModel VecFacts VecFacts2.
From Coq Require Import Lia Arith PeanoNat.

(* into_iter hands every element to exactly one party: what the caller took from the front, what
   the IntoIter dropped, and what the caller took from the back (in reverse) make up the contents *)
Theorem into_iter_spec e v c front back :
  repr e v c ->
  let r := into_iter v front back in
  c_taken_front r ++ c_left r ++ rev (c_taken_back r) = c /\
  c_taken_front r = firstn front c /\
  c_taken_back r = firstn back (rev (skipn front c)).
Proof.
  intros R r. unfold r, into_iter. rewrite (repr_contents e v c R). cbn [c_taken_front c_left c_taken_back].
  split; [|split; reflexivity].
  set (rest := skipn front c).
  transitivity (firstn front c ++ rest); [|apply firstn_skipn]. f_equal.
  rewrite firstn_rev, rev_involutive. apply firstn_skipn.
Qed.

Lemma fresh_ids_length next n : length (fresh_ids next n) = n.
Proof. unfold fresh_ids. rewrite map_length, seq_length. reflexivity. Qed.

(* clone: a vector of fresh identities, one per element, in order, with capacity for them all *)
Theorem clone_spec e v c next v' :
  ecfg_ok e -> repr e v c -> clone_vec e v next = Ret v' ->
  repr e v' (fresh_ids next (length c)) /\ v_len v' = v_len v.
Proof.
  intros K R H. unfold clone_vec in H.
  pose proof (vwith_capacity_spec e (v_len v) K) as W0.
  destruct (vwith_capacity e (v_len v)) as [o|k]; [|discriminate].
  destruct W0 as (R0 & _ & _).
  assert (Hl : nn (v_len v) = length c) by (destruct R as (_ & Hl & _); unfold nn; lia).
  rewrite Hl in H.
  pose proof (extend_iter_spec e o [] (v_len v) (fresh_ids next (length c)) v' R0 H) as R'.
  cbn [app] in R'. split; [exact R'|].
  destruct R' as (_ & L' & _). destruct R as (_ & L & _). rewrite L', L, fresh_ids_length. reflexivity.
Qed.

(* into_bump_slice(_mut) / into_boxed_slice hand out exactly the contents, in order, and drop nothing:
   with BoxModel.box_of_vec the boxed slice then owns those elements (C17) *)
Theorem into_slice_spec e v c : repr e v c -> into_slice v = (c, no_eff).
Proof. intros R. unfold into_slice. rewrite (repr_contents _ _ _ R). reflexivity. Qed.
