(* ArenaModel.v — executable model of bumpalo::Bump (src/lib.rs).
   No proofs in this file.  See DESIGN.md Appendix A for the line map.

   The global allocator and the chunk-sizing policy sit behind an [acquirer]:
   a function that, asked for a chunk, answers with the chunk obtained (if
   any) and the requests made to the global allocator.  Two acquirers are
   used: [follow] (this file) replays the requests the implementation made
   during the operation and accepts whatever chunk it obtained, provided the
   request passes [req_safe]; [policy] (ArenaPolicy.v) is the transliterated
   sizing policy of alloc_layout_slow, driven only by the allocator's answers. *)
From BV Require Import Word.

(* ---------- configuration: the crate's constants + the const generic ---------- *)
Record cfg := mkCfg {
  k_footer   : N;   (* FOOTER_SIZE = size_of::<ChunkFooter>() *)
  k_calign   : N;   (* CHUNK_ALIGN *)
  k_overhead : N;   (* OVERHEAD *)
  k_default  : N;   (* DEFAULT_CHUNK_SIZE_WITHOUT_FOOTER *)
  k_page     : N;   (* TYPICAL_PAGE_SIZE *)
  k_malign   : N;   (* MIN_ALIGN of this arena *)
  k_eaddr    : N    (* address of the static EMPTY_CHUNK *)
}.

(* ---------- state ---------- *)
Record chunk := mkChunk {
  c_data  : N;   (* base address returned by the global allocator *)
  c_nswf  : N;   (* new_size_without_footer: the footer sits at data + nswf *)
  c_align : N;   (* alignment the block was requested with *)
  c_ptr   : N;   (* the bump finger *)
  c_ab    : N    (* the footer's allocated_bytes field *)
}.
Definition c_foot (c : chunk) : N := c_data c + c_nswf c.

(* a pending alloc_try_with / try_alloc_try_with: what the method saved *)
Record tw := mkTw {
  tw_foot : N;   (* rewind_footer: address of the current footer on entry *)
  tw_ptr  : N;   (* rewind_ptr: the finger on entry *)
  tw_res  : N;   (* inner_result_ptr: where the Result<T,E> was reserved *)
  tw_size : N;   (* ghost: size of that slot (never read by the control flow) *)
  tw_top  : N    (* ghost: end of the region the reservation moved the finger over: the old finger,
                    or the footer of the chunk obtained for the slot (never read by the control flow) *)
}.

Record bump := mkBump {
  chunks : list chunk;       (* newest first; [] = points at EMPTY_CHUNK *)
  limit  : option N;
  tws    : list tw           (* innermost pending *_try_with first *)
}.

Definition fresh : bump := mkBump [] None [].

(* one request to the global allocator and its answer *)
Record greq := mkGreq { g_size : N; g_align : N; g_ans : option N }.

(* ---------- results ---------- *)
Inductive res :=
| ROk (p : N)
| RUnit
| RErr
| RBad (why : N).   (* the model refuses to follow: see the codes below *)

Definition BAD_REQ_SHAPE       : N := 2.  (* a request after a successful one *)
Definition BAD_REQ_UNSAFE      : N := 3.  (* request fails req_safe *)
Definition BAD_NO_TW           : N := 4.  (* twend without twbegin *)
Definition BAD_NOT_FRESH       : N := 5.  (* constructor on a used arena *)

Inductive copy_kind := CopyNonOverlapping | CopyMove | ZeroFill.
Record copy := mkCopy { cp_kind : copy_kind; cp_src : N; cp_dst : N; cp_len : N }.

Record out := mkOut {
  o_res    : res;
  o_frees  : list (N * N * N);   (* (addr, size, align) handed back, in order *)
  o_stores : list N;             (* footer addresses whose finger was stored *)
  o_copies : list copy;
  o_flags  : list N;             (* see FLAG_* *)
  o_reqs   : list (N * N)        (* (size, align) asked of the global allocator *)
}.
Definition FLAG_LIMIT_EXCEEDED   : N := 1. (* a chunk was obtained that exceeds the limit *)
Definition FLAG_SLOW_FAST_FAILED : N := 2. (* fast path failed on a brand-new chunk *)
Definition FLAG_ZERO_CAP_CHUNK   : N := 3. (* a chunk with no usable capacity was created *)

Definition out_of (r : res) : out := mkOut r [] [] [] [] [].

(* ---------- accessors on the current chunk ---------- *)
Definition cur_start (k : cfg) (b : bump) : N :=
  match chunks b with [] => k_eaddr k | c :: _ => c_data c end.
Definition cur_ptr (k : cfg) (b : bump) : N :=
  match chunks b with [] => k_eaddr k | c :: _ => c_ptr c end.
Definition cur_foot (k : cfg) (b : bump) : N :=
  match chunks b with [] => k_eaddr k | c :: _ => c_foot c end.
Definition ab_of (b : bump) : N :=
  match chunks b with [] => 0 | c :: _ => c_ab c end.

Definition with_ptr (c : chunk) (p : N) : chunk :=
  mkChunk (c_data c) (c_nswf c) (c_align c) p (c_ab c).
(* footer.ptr.set(p) on the current footer.  On a chunk-less arena the
   current footer is the static EMPTY_CHUNK; the only value ever stored there
   is its own address (ArenaFast.fast_chunkless), so the state is unchanged. *)
Definition set_ptr (b : bump) (p : N) : bump :=
  match chunks b with
  | [] => b
  | c :: r => mkBump (with_ptr c p :: r) (limit b) (tws b)
  end.

(* ChunkFooter::set_ptr: the finger is stored into the current footer unless that
   footer is the shared static EMPTY_CHUNK, which is never written *)
Definition stores_of (k : cfg) (b : bump) : list N :=
  match chunks b with [] => [] | c :: _ => [c_foot c] end.

(* ---------- try_alloc_layout_fast ---------- *)
Definition fast_ptr (k : cfg) (start ptr : N) (l : layout) : option N :=
  let m := k_malign k in
  match l_align l ?= m with
  | Lt =>
      match round_up_to (l_size l) m with
      | None => None
      | Some asz => if ptr - start <? asz then None else Some (ptr - asz)
      end
  | Eq =>
      let asz := rup (l_size l) (l_align l) in
      if ptr - start <? asz then None else Some (ptr - asz)
  | Gt =>
      let asz := rup (l_size l) (l_align l) in
      let ap := rdown ptr (l_align l) in
      if (ap <? start) || (ap - start <? asz) then None else Some (ap - asz)
  end.

Definition fast (k : cfg) (b : bump) (l : layout) : option (N * bump) :=
  match fast_ptr k (cur_start k b) (cur_ptr k b) l with
  | None => None
  | Some p => Some (p, set_ptr b p)
  end.

(* ---------- obtaining a chunk ---------- *)
(* what any request for a chunk must satisfy for the arena to be memory safe *)
Definition req_safe (k : cfg) (g : greq) : bool :=
  layout_ok (g_size g) (g_align g) &&
  (k_footer k <=? g_size g) &&
  (k_calign k <=? g_align g) &&
  ((g_size g - k_footer k) mod k_calign k =? 0).

(* the part of C07: the chunk fits under the limit *)
Definition req_under_limit (k : cfg) (b : bump) (g : greq) : bool :=
  match limit b with
  | None => true
  | Some L => ab_of b + (g_size g - k_footer k) <=? L
  end.

Definition new_chunk (k : cfg) (b : bump) (g : greq) (data : N) : chunk :=
  let nswf := g_size g - k_footer k in
  mkChunk data nswf (g_align g) (rdown (data + nswf) (k_malign k)) (ab_of b + nswf).

Inductive acq := AcqNone | AcqBad (why : N) | AcqSome (g : greq) (data : N).

(* why a chunk is wanted *)
Inductive want := ForLayout (l : layout) | ForCapacity (cap : N).

(* chunk obtained (if any) and the (size, align) requests made on the way *)
Definition acquirer := bump -> want -> acq * list (N * N).

(* the implementation stops at the first successful request *)
Fixpoint acquire (k : cfg) (gl : list greq) : acq :=
  match gl with
  | [] => AcqNone
  | g :: rest =>
      if req_safe k g then
        match g_ans g with
        | None => acquire k rest
        | Some data => match rest with [] => AcqSome g data | _ => AcqBad BAD_REQ_SHAPE end
        end
      else AcqBad BAD_REQ_UNSAFE
  end.

(* the acquirer that replays what the implementation did during this operation *)
Definition follow (k : cfg) (gl : list greq) : acquirer :=
  fun _ _ => (acquire k gl, map (fun g => (g_size g, g_align g)) gl).

Definition push_chunk (b : bump) (c : chunk) : bump :=
  mkBump (c :: chunks b) (limit b) (tws b).

Definition limit_flags (k : cfg) (b : bump) (g : greq) : list N :=
  (if req_under_limit k b g then [] else [FLAG_LIMIT_EXCEEDED]) ++
  (if g_size g =? k_footer k then [FLAG_ZERO_CAP_CHUNK] else []).

(* alloc_layout_slow *)
Definition slow (k : cfg) (A : acquirer) (b : bump) (l : layout) : bump * out :=
  let (a, reqs) := A b (ForLayout l) in
  match a with
  | AcqNone => (b, mkOut RErr [] [] [] [] reqs)
  | AcqBad w => (b, mkOut (RBad w) [] [] [] [] reqs)
  | AcqSome g data =>
      let b1 := push_chunk b (new_chunk k b g data) in
      match fast k b1 l with
      | Some (p, b2) => (b2, mkOut (ROk p) [] [cur_foot k b1] [] (limit_flags k b g) reqs)
      | None => (b1, mkOut RErr [] [] [] (FLAG_SLOW_FAST_FAILED :: limit_flags k b g) reqs)
      end
  end.

(* try_alloc_layout *)
Definition try_alloc (k : cfg) (A : acquirer) (b : bump) (l : layout) : bump * out :=
  match fast k b l with
  | Some (p, b1) => (b1, mkOut (ROk p) [] (stores_of k b) [] [] [])
  | None => slow k A b l
  end.

(* ---------- dealloc ---------- *)
Definition dealloc (k : cfg) (b : bump) (p : N) (l : layout) : bump * out :=
  if cur_ptr k b =? p then
    (set_ptr b (rup (p + l_size l) (k_malign k)),
     mkOut RUnit [] (stores_of k b) [] [] [])
  else (b, out_of RUnit).

(* ---------- shrink ---------- *)
Definition with_copies (o : out) (cs : list copy) : out :=
  mkOut (o_res o) (o_frees o) (o_stores o) cs (o_flags o) (o_reqs o).

Definition after_alloc_copy (r : bump * out) (src n : N) : bump * out :=
  match o_res (snd r) with
  | ROk q => (fst r, with_copies (snd r) [mkCopy CopyNonOverlapping src q n])
  | _ => r
  end.

Definition shrink (k : cfg) (A : acquirer) (b : bump) (p : N) (old new : layout)
  : bump * out :=
  if l_align old <? l_align new then
    if p mod l_align new =? 0 then (b, out_of (ROk p))
    else after_alloc_copy (try_alloc k A b new) p (l_size new)
  else
    let delta := rdown (l_size old - l_size new) (N.max (l_align new) (k_malign k)) in
    if (cur_ptr k b =? p) && ((l_size old + 1) / 2 <=? delta) then
      (set_ptr b (p + delta),
       mkOut (ROk (p + delta)) [] (stores_of k b)
             [mkCopy CopyNonOverlapping p (p + delta) (l_size new)] [] [])
    else (b, out_of (ROk p)).

(* ---------- grow ---------- *)
Definition grow (k : cfg) (A : acquirer) (b : bump) (p : N) (old new : layout)
  : bump * out :=
  match round_up_to (l_size new) (k_malign k) with
  | None => (b, out_of RErr)
  | Some ns =>
      let fallback := after_alloc_copy (try_alloc k A b new) p (l_size old) in
      if (l_align new <=? l_align old) && (cur_ptr k b =? p) then
        let delta := ns - l_size old in
        if layout_ok delta (l_align old) then
          match fast k b (mkLayout delta (l_align old)) with
          | Some (q, b1) =>
              (b1, mkOut (ROk q) [] (stores_of k b) [mkCopy CopyMove p q (l_size old)] [] [])
          | None => fallback
          end
        else (b, out_of RErr)
      else fallback
  end.

Definition grow_zeroed (k : cfg) (A : acquirer) (b : bump) (p : N) (old new : layout)
  : bump * out :=
  let r := grow k A b p old new in
  match o_res (snd r) with
  | ROk q => (fst r, with_copies (snd r)
                (o_copies (snd r) ++
                 [mkCopy ZeroFill 0 (q + l_size old) (l_size new - l_size old)]))
  | _ => r
  end.

(* the crate-private Alloc::realloc used by RawVec *)
Definition realloc (k : cfg) (A : acquirer) (b : bump) (p : N) (l : layout) (n : N)
  : bump * out :=
  if l_size l =? 0 then try_alloc k A b l
  else if layout_ok n (l_align l) then
    if n <=? l_size l then shrink k A b p l (mkLayout n (l_align l))
    else grow k A b p l (mkLayout n (l_align l))
  else (b, out_of RErr).

(* ---------- reset / drop ---------- *)
Definition chunk_block (k : cfg) (c : chunk) : N * N * N :=
  (c_data c, c_nswf c + k_footer k, c_align c).

Definition reset (k : cfg) (b : bump) : bump * out :=
  match chunks b with
  | [] => (b, out_of RUnit)
  | c :: rest =>
      let c' := mkChunk (c_data c) (c_nswf c) (c_align c) (c_foot c) (c_nswf c) in
      (mkBump [c'] (limit b) [],
       mkOut RUnit (map (chunk_block k) rest) [c_foot c] [] [] [])
  end.

Definition drop_arena (k : cfg) (b : bump) : bump * out :=
  (mkBump [] (limit b) [], mkOut RUnit (map (chunk_block k) (chunks b)) [] [] [] []).

(* ---------- constructors ---------- *)
(* the two assert!s of with_min_align / try_with_min_align_and_capacity *)
Definition ctor_ok (k : cfg) : bool := pow2b (k_malign k) && (k_malign k <=? k_calign k).

(* try_with_min_align_and_capacity(cap) on a fresh arena *)
Definition with_capacity (k : cfg) (A : acquirer) (b : bump) (cap : N) : bump * out :=
  match chunks b with
  | _ :: _ => (b, out_of (RBad BAD_NOT_FRESH))
  | [] =>
    if cap =? 0 then (b, out_of RUnit)
    else if layout_ok cap (k_malign k) then
      let (a, reqs) := A b (ForCapacity cap) in
      match a with
      | AcqNone => (b, mkOut RErr [] [] [] [] reqs)
      | AcqBad w => (b, mkOut (RBad w) [] [] [] [] reqs)
      | AcqSome g data =>
          (push_chunk b (new_chunk k b g data), mkOut RUnit [] [] [] (limit_flags k b g) reqs)
      end
    else (b, out_of RErr)
  end.

(* ---------- alloc_try_with / try_alloc_try_with, split in two events ---------- *)
Definition push_tw (b : bump) (t : tw) : bump := mkBump (chunks b) (limit b) (t :: tws b).
Definition set_tws (b : bump) (ts : list tw) : bump := mkBump (chunks b) (limit b) ts.

(* entry: save (footer, finger), reserve the Result<T,E> slot *)
Definition tw_begin (k : cfg) (A : acquirer) (b : bump) (l : layout) : bump * out :=
  let foot := cur_foot k b in
  let rp := cur_ptr k b in
  let r := try_alloc k A b l in
  match o_res (snd r) with
  | ROk p =>
      let top := if cur_foot k (fst r) =? foot then rp else cur_foot k (fst r) in
      (push_tw (fst r) (mkTw foot rp p (l_size l) top), snd r)
  | _ => r
  end.

(* exit: the initialiser returned Ok (ok = true) or Err *)
Definition tw_end (k : cfg) (b : bump) (ok : bool) : bump * out :=
  match tws b with
  | [] => (b, out_of (RBad BAD_NO_TW))
  | t :: rest =>
      let b0 := set_tws b rest in
      if ok then (b0, out_of (ROk (tw_res t)))
      else if cur_ptr k b0 =? tw_res t then
        if cur_foot k b0 =? tw_foot t
        then (set_ptr b0 (tw_ptr t), mkOut RErr [] (stores_of k b0) [] [] [])
        else (set_ptr b0 (rdown (cur_foot k b0) (k_malign k)),
              mkOut RErr [] (stores_of k b0) [] [] [])
      else (b0, out_of RErr)
  end.

(* ---------- operations ---------- *)
Inductive op :=
| OWithCapacity (cap : N)
| OAlloc (l : layout)                          (* every alloc flavour, fallible or not *)
| ODealloc (p : N) (l : layout)
| OGrow (zeroed : bool) (p : N) (old new : layout)
| OShrink (p : N) (old new : layout)
| ORealloc (p : N) (l : layout) (n : N)
| OReset
| OSetLimit (o : option N)
| OTwBegin (l : layout)
| OTwEnd (ok : bool)
| ODrop.

Definition step (k : cfg) (A : acquirer) (b : bump) (o : op) : bump * out :=
  match o with
  | OWithCapacity cap => with_capacity k A b cap
  | OAlloc l => try_alloc k A b l
  | ODealloc p l => dealloc k b p l
  | OGrow false p old new => grow k A b p old new
  | OGrow true p old new => grow_zeroed k A b p old new
  | OShrink p old new => shrink k A b p old new
  | ORealloc p l n => realloc k A b p l n
  | OReset => reset k b
  | OSetLimit o => (mkBump (chunks b) o (tws b), out_of RUnit)
  | OTwBegin l => tw_begin k A b l
  | OTwEnd ok => tw_end k b ok
  | ODrop => drop_arena k b
  end.

(* ---------- queries ---------- *)
Definition q_allocated_bytes (b : bump) : N := ab_of b.
Definition q_allocated_bytes_incl (k : cfg) (b : bump) : N :=
  ab_of b + N.of_nat (length (chunks b)) * k_footer k.
Definition q_chunk_capacity (k : cfg) (b : bump) : N := cur_ptr k b - cur_start k b.
Definition q_iter_chunks (b : bump) : list (N * N) :=
  map (fun c => (c_ptr c, c_foot c - c_ptr c)) (chunks b).

(* what the arena holds from the global allocator *)
Definition held (k : cfg) (b : bump) : list (N * N * N) := map (chunk_block k) (chunks b).

(* ---------- running a history: each operation comes with its acquirer ---------- *)
Definition run (k : cfg) (b : bump) (h : list (op * acquirer)) : bump :=
  fold_left (fun b oa => fst (step k (snd oa) b (fst oa))) h b.
