(* AutoTraitsOk.v — the crate's `unsafe impl … Send/Sync for …` lines are exactly the eight the borrow
   model and the probes account for, with exactly these bounds (LeafActual.src_auto_trait_impls,
   regenerated from /repo on every run): EmptyChunkFooter: Sync; Bump<M>: Send; vec::IntoIter<T>:
   Send if T: Send, Sync if T: Sync; vec::Drain<T>: the same; string::Drain: both.  A changed
   bound or an added impl fails here. *)
From BV Require Import RustSem LeafActual.
From Coq Require Import String List.
Import ListNotations.

Lemma src_auto_trait_impls_ok : forallb snd src_auto_trait_impls = true /\ List.length src_auto_trait_impls = 9%nat.
Proof. split; vm_compute; reflexivity. Qed.
