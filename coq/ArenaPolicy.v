(* ArenaPolicy.v — the chunk-sizing policy of src/lib.rs, transliterated:
   new_chunk_memory_details, allocation_limit_remaining, chunk_fits_under_limit
   and the candidate loop of alloc_layout_slow.  Given only the *answers* of
   the global allocator it predicts the exact sequence of requests.
   No proofs in this file. *)
From BV Require Import Word ArenaModel.

Record details := mkDetails { d_nswf : N; d_align : N; d_size : N }.
Inductive dres := DNone | DPanic | DSome (d : details).

(* Bump::new_chunk_memory_details *)
Definition mem_details (k : cfg) (given : option N) (l : layout) : dres :=
  let align := N.max (N.max (k_calign k) (k_malign k)) (l_align l) in
  match round_up_to (l_size l) align with
  | None => DPanic                                     (* allocation_size_overflow() *)
  | Some req =>
      let n := N.max (match given with Some g => g | None => k_default k end) req in
      let n' :=
        if n <? k_page k
        then Some (npow2 (n + k_overhead k) - k_overhead k)
        else match round_up_to (n + k_overhead k) (k_page k) with
             | Some x => Some (x - k_overhead k)
             | None => None
             end in
      match n' with
      | None => DNone
      | Some n' =>
          match checked_add n' (k_footer k) with
          | None => DPanic                             (* allocation_size_overflow() *)
          | Some size => DSome (mkDetails n' align size)
          end
      end
  end.

(* Bump::allocation_limit_remaining *)
Definition limit_left (b : bump) : option N :=
  match limit b with
  | None => None
  | Some L => Some (L - ab_of b)       (* saturating: 0 when already above the limit *)
  end.

(* Bump::chunk_fits_under_limit *)
Definition fits (left : option N) (d : details) : bool :=
  match left with None => true | Some r => d_nswf d <=? r end.

Inductive pres :=
| PChunk (d : details) (data : N)   (* obtained a chunk *)
| PNone                             (* gave up: AllocErr *)
| PPanic                            (* allocation_size_overflow *)
| PDiverge                          (* fuel exhausted *)
| PStarved.                         (* the answer list ran out: not a behaviour *)

Definition bypass (b : bump) (l : layout) (k : cfg) (base : N) : bool :=
  match limit b with
  | Some L => (l_size l <? L) && (l_size l <=? base) && (L <? k_default k)
              && (ab_of b =? 0)
  | None => false
  end.

(* the iter::from_fn(..).filter_map(..).next() of alloc_layout_slow.  After the
   candidate of size 0 the iterator ends (tried_zero). *)
Fixpoint cand_loop (k : cfg) (fuel : nat) (b : bump) (l : layout) (left : option N)
         (min_new base : N) (answers : list (option N)) : list (N * N) * pres :=
  match fuel with
  | O => ([], PDiverge)
  | S fuel' =>
      if (min_new <=? base) || bypass b l k base then
        match mem_details k (Some base) l with
        | DNone => ([], PNone)
        | DPanic => ([], PPanic)
        | DSome d =>
            let next := fun answers' =>
              if base =? 0 then ([], PNone)
              else cand_loop k fuel' b l left min_new (base / 2) answers' in
            if fits left d && layout_ok (d_size d) (d_align d) then
              match answers with
              | [] => ([(d_size d, d_align d)], PStarved)
              | Some data :: _ => ([(d_size d, d_align d)], PChunk d data)
              | None :: rest =>
                  let r := next rest in
                  ((d_size d, d_align d) :: fst r, snd r)
              end
            else next answers
        end
      else ([], PNone)
  end.

Definition FUEL : nat := 80.

Definition cur_layout_size (k : cfg) (b : bump) : N :=
  match chunks b with [] => k_footer k | c :: _ => c_nswf c + k_footer k end.

(* alloc_layout_slow up to and including the acquisition of the chunk *)
Definition slow_policy (k : cfg) (b : bump) (l : layout) (answers : list (option N))
  : list (N * N) * pres :=
  let left := limit_left b in
  let min_new := N.max (l_size l) (k_default k) in
  match checked_mul (cur_layout_size k b - k_footer k) 2 with
  | None => ([], PNone)
  | Some dbl => cand_loop k FUEL b l left min_new (N.max dbl min_new) answers
  end.

Definition BAD_PANIC   : N := 10.  (* allocation_size_overflow panic *)
Definition BAD_DIVERGE : N := 11.  (* the candidate loop does not terminate *)
Definition BAD_STARVED : N := 12.  (* more requests than recorded answers *)

Definition acq_of (r : list (N * N) * pres) : acq * list (N * N) :=
  (match snd r with
   | PChunk d data => AcqSome (mkGreq (d_size d) (d_align d) (Some data)) data
   | PNone => AcqNone
   | PPanic => AcqBad BAD_PANIC
   | PDiverge => AcqBad BAD_DIVERGE
   | PStarved => AcqBad BAD_STARVED
   end, fst r).

(* try_with_min_align_and_capacity, after its own layout check *)
Definition capacity_policy (k : cfg) (cap : N) (answers : list (option N))
  : list (N * N) * pres :=
  match mem_details k None (mkLayout cap (k_malign k)) with
  | DNone => ([], PNone)
  | DPanic => ([], PPanic)
  | DSome d =>
      if layout_ok (d_size d) (d_align d) then
        match answers with
        | [] => ([(d_size d, d_align d)], PStarved)
        | Some data :: _ => ([(d_size d, d_align d)], PChunk d data)
        | None :: _ => ([(d_size d, d_align d)], PNone)
        end
      else ([], PNone)
  end.

(* the acquirer that is the crate's own policy, fed with the allocator's answers *)
Definition policy (k : cfg) (answers : list (option N)) : acquirer :=
  fun b w =>
    match w with
    | ForLayout l => acq_of (slow_policy k b l answers)
    | ForCapacity cap => acq_of (capacity_policy k cap answers)
    end.
