(* VecPanic.v — C16 for the growing operations: Vec::resize / extend_with when `Clone::clone`
   panics at the (j+1)-th call.  extend_with reserves first, then writes one clone at a time and
   bumps the length after each write (SetLenOnDrop), so a panic leaves the old contents followed by
   exactly the j clones made so far; the value passed in is dropped once, by the unwinding. *)
From BV Require Import Word WordFacts VecModel VecFacts VecFacts2.
From Coq Require Import List Lia Permutation.
Import ListNotations.

(* the vector and the effects when the (j+1)-th clone panics, j < n - 1 clones being needed *)
Definition resize_clone_panic (e : ecfg) (v : vec) (new_len x next_id : N) (j : nat) : outcome vec * vec * eff :=
  let n := new_len - v_len v in
  match reserve e v n false with
  | Panic k => (Panic k, v, mkEff [x] 0)
  | Ret v1 =>
      let clones := map (fun i => next_id + N.of_nat i) (seq 0 j) in
      (Panic PCallback,
       mkVec (write_all (v_buf v1) (nn (v_len v1)) clones) (v_len v1 + N.of_nat j),
       mkEff [x] (N.of_nat j))
  end.

Theorem resize_clone_panic_spec e v c new_len x next_id j v1 :
  repr e v c -> v_len v < new_len -> reserve e v (new_len - v_len v) false = Ret v1 ->
  (j < nn (new_len - v_len v) - 1)%nat ->
  let '(_, v', f) := resize_clone_panic e v new_len x next_id j in
  let clones := map (fun i => next_id + N.of_nat i) (seq 0 j) in
  repr e v' (c ++ clones) /\
  f_drops f = [x] /\ f_clones f = N.of_nat j /\
  Permutation (contents v' ++ f_drops f) (c ++ clones ++ [x]).
Proof.
  intros R Hlt E Hj. unfold resize_clone_panic. rewrite E.
  set (clones := map (fun i => next_id + N.of_nat i) (seq 0 j)).
  destruct (reserve_spec e v c _ _ v1 R E) as (R1 & Hcap & _).
  destruct R1 as ((rest & Hb) & Hl & Hc & He).
  assert (Hlen : nn (v_len v1) = length c) by (unfold nn; lia).
  assert (Lc : length clones = j) by (unfold clones; rewrite map_length, seq_length; reflexivity).
  assert (Hv : v_len v = v_len v1) by (destruct R as (_ & Hl0 & _); lia).
  assert (Hrest : (length clones <= length rest)%nat).
  { unfold v_cap in Hcap. rewrite Hb, app_length, map_length in Hcap. rewrite Lc. unfold nn in *. lia. }
  assert (RR : repr e (mkVec (write_all (v_buf v1) (nn (v_len v1)) clones) (v_len v1 + N.of_nat j)) (c ++ clones)).
  { unfold repr, v_cap. cbn [v_buf v_len]. rewrite Hb, Hlen, write_all_spec by exact Hrest.
    split; [eexists; reflexivity|]. split; [rewrite app_length, Lc; lia|]. split; [|exact He].
    rewrite app_length, map_length, skipn_length, app_length.
    unfold v_cap in Hc. rewrite Hb, app_length, map_length in Hc.
    replace (N.of_nat (length c + length clones + (length rest - length clones)))
      with (N.of_nat (length c + length rest)) by lia. exact Hc. }
  split; [exact RR|]. cbn [f_drops f_clones]. split; [reflexivity|]. split; [reflexivity|].
  rewrite (repr_contents _ _ _ RR). rewrite <- app_assoc. apply Permutation_refl.
Qed.

(* nothing is in two places: if the identities were distinct before, they still are *)
Corollary resize_clone_panic_nodup e v c new_len x next_id j v1 :
  repr e v c -> v_len v < new_len -> reserve e v (new_len - v_len v) false = Ret v1 ->
  (j < nn (new_len - v_len v) - 1)%nat ->
  NoDup (c ++ map (fun i => next_id + N.of_nat i) (seq 0 j) ++ [x]) ->
  let '(_, v', f) := resize_clone_panic e v new_len x next_id j in
  NoDup (contents v' ++ f_drops f) /\ ~ In x (contents v').
Proof.
  intros R Hlt E Hj ND.
  pose proof (resize_clone_panic_spec e v c new_len x next_id j v1 R Hlt E Hj) as H.
  destruct (resize_clone_panic e v new_len x next_id j) as [[o v'] f].
  destruct H as (RR & Hd & _ & P). split.
  - apply (Permutation_NoDup (Permutation_sym P)). exact ND.
  - rewrite (repr_contents _ _ _ RR). intros Hin.
    rewrite app_assoc in ND. apply NoDup_remove_2 in ND. apply ND. rewrite app_nil_r. exact Hin.
Qed.

(* ---------- extend when the iterator (or the Clone behind extend_from_slice's iterator) panics after
   j items: the loop had pushed exactly those j items, one at a time, length bumped after each write ---------- *)
Theorem extend_panic_spec e v c hint xs j v' :
  repr e v c -> extend_iter e v hint (firstn j xs) = Ret v' ->
  repr e v' (c ++ firstn j xs) /\
  (* and going on from there is the whole operation: the panic state is a state of the normal run *)
  extend_iter e v hint xs =
    fold_left (fun acc x => match acc with Panic k => Panic k | Ret w => push e w x end) (skipn j xs) (Ret v').
Proof.
  intros R E. split; [exact (extend_iter_spec e v c hint _ v' R E)|].
  unfold extend_iter in *. destruct (reserve e v hint false) as [v1|k]; [|discriminate].
  rewrite <- (firstn_skipn j xs) at 1. rewrite fold_left_app, E. reflexivity.
Qed.
