(* ArenaStruct.v — structural facts about one operation: what it frees, what it
   obtains, where it stores (C03, C06, C10 shape, C20 footprint). *)
From BV Require Import Word WordFacts ArenaModel ArenaFast ArenaSpec ArenaInv ArenaSafe.
From Coq Require Import Lia.

(* ---------- what an operation does to the list of chunks ---------- *)
(* the chunk list after an operation: same chunks (fingers aside), or one more,
   or the reset/drop shapes *)
Definition same_blocks (k : cfg) (b b' : bump) : Prop := held k b' = held k b.
Definition one_more (k : cfg) (b b' : bump) : Prop :=
  exists g data, k_footer k <= g_size g /\
    held k b' = (data, g_size g, g_align g) :: held k b.

Lemma held_set_ptr k b p : held k (set_ptr b p) = held k b.
Proof.
  unfold held. rewrite chunks_set_ptr'. destruct (chunks b); reflexivity.
Qed.

Lemma held_push k b g data :
  k_footer k <= g_size g ->
  held k (push_chunk b (new_chunk k b g data)) = (data, g_size g, g_align g) :: held k b.
Proof.
  intros H. unfold held, push_chunk, new_chunk, chunk_block; cbn [chunks map c_data c_nswf c_align].
  f_equal. f_equal. f_equal. lia.
Qed.

Definition acq_sound (k : cfg) (A : acquirer) (b : bump) : Prop :=
  forall w g data, fst (A b w) = AcqSome g data -> k_footer k <= g_size g.

Lemma A_ok_sound k A b : A_ok k A b -> acq_sound k A b.
Proof.
  intros H w g data E. destruct (H w g data E) as (S & _).
  unfold req_safe in S. rewrite !andb_true_iff in S. destruct S as [[[_ S] _] _].
  apply N.leb_le. exact S.
Qed.

Lemma fast_held k b l p b' : fast k b l = Some (p, b') -> held k b' = held k b.
Proof.
  unfold fast. destruct (fast_ptr _ _ _ _); [|discriminate]. intros H; inversion H; subst.
  apply held_set_ptr.
Qed.

Lemma try_alloc_held k A b l :
  acq_sound k A b ->
  let r := try_alloc k A b l in
  o_frees (snd r) = [] /\ (same_blocks k b (fst r) \/ one_more k b (fst r)).
Proof.
  intros HS. unfold try_alloc.
  destruct (fast k b l) as [[p b1]|] eqn:F; cbn [fst snd o_frees].
  - split; [reflexivity|]. left. eapply fast_held; eauto.
  - unfold slow. destruct (A b (ForLayout l)) as [a reqs] eqn:EA.
    destruct a as [|w|g data]; cbn [fst snd o_frees]; try (split; [reflexivity | left; reflexivity]).
    assert (Hf : k_footer k <= g_size g) by (apply (HS (ForLayout l) g data); rewrite EA; reflexivity).
    destruct (fast k (push_chunk b (new_chunk k b g data)) l) as [[p b2]|] eqn:F2; cbn [fst snd o_frees]; (split; [reflexivity|]); right;
      exists g, data; (split; [exact Hf|]).
    + rewrite (fast_held _ _ _ _ _ F2). apply held_push. exact Hf.
    + apply held_push. exact Hf.
Qed.

Lemma after_alloc_copy_frees r s n : o_frees (snd (after_alloc_copy r s n)) = o_frees (snd r).
Proof. unfold after_alloc_copy. destruct (o_res (snd r)); reflexivity. Qed.

(* C03: frees happen only in reset and drop, and are exactly the blocks given up *)
Theorem step_frees k A b o :
  acq_sound k A b ->
  let r := step k A b o in
  match o with
  | OReset => o_frees (snd r) = tl (held k b) /\ held k (fst r) = firstn 1 (held k b)
  | ODrop => o_frees (snd r) = held k b /\ held k (fst r) = []
  | _ => o_frees (snd r) = [] /\ (same_blocks k b (fst r) \/ one_more k b (fst r))
  end.
Proof.
  intros HS. destruct o; cbn [step].
  - (* with_capacity *)
    unfold with_capacity. destruct (chunks b) eqn:EC; cbn [fst snd o_frees]; try (split; [reflexivity | left; reflexivity]).
    destruct (cap =? 0); cbn [fst snd o_frees]; try (split; [reflexivity | left; reflexivity]).
    destruct (layout_ok _ _); cbn [fst snd o_frees]; try (split; [reflexivity | left; reflexivity]).
    destruct (A b (ForCapacity cap)) as [a reqs] eqn:EA.
    destruct a as [|w|g data]; cbn [fst snd o_frees]; try (split; [reflexivity | left; reflexivity]).
    assert (Hf : k_footer k <= g_size g) by (apply (HS (ForCapacity cap) g data); rewrite EA; reflexivity).
    split; [reflexivity|]. right. exists g, data. split; [exact Hf | apply held_push; exact Hf].
  - apply try_alloc_held. exact HS.
  - unfold dealloc. destruct (_ =? _); cbn [fst snd o_frees]; split; try reflexivity; left;
      [apply held_set_ptr | reflexivity].
  - (* grow *)
    assert (G : o_frees (snd (grow k A b p old new)) = [] /\
                (same_blocks k b (fst (grow k A b p old new)) \/ one_more k b (fst (grow k A b p old new)))).
    { unfold grow. destruct (round_up_to _ _); cbn [fst snd o_frees]; [|split; [reflexivity | left; reflexivity]].
      assert (FB : o_frees (snd (after_alloc_copy (try_alloc k A b new) p (l_size old))) = [] /\
                   (same_blocks k b (fst (after_alloc_copy (try_alloc k A b new) p (l_size old))) \/
                    one_more k b (fst (after_alloc_copy (try_alloc k A b new) p (l_size old))))).
      { rewrite after_alloc_copy_frees, after_alloc_copy_fst'. apply try_alloc_held. exact HS. }
      destruct (_ && _); [|exact FB].
      destruct (layout_ok _ _); cbn [fst snd o_frees]; [|split; [reflexivity | left; reflexivity]].
      destruct (fast k b _) as [[q b1]|] eqn:F; [|exact FB].
      cbn [fst snd o_frees]. split; [reflexivity|]. left. eapply fast_held; eauto. }
    destruct zeroed; [|exact G].
    destruct (grow_zeroed_res k A b p old new) as [_ R2]. rewrite R2.
    split; [|apply G]. unfold grow_zeroed. destruct (o_res (snd (grow k A b p old new))); apply G.
  - (* shrink *)
    unfold shrink. destruct (_ <? _).
    + destruct (_ =? 0); cbn [fst snd o_frees]; [split; [reflexivity | left; reflexivity]|].
      rewrite after_alloc_copy_frees, after_alloc_copy_fst'. apply try_alloc_held. exact HS.
    + destruct (_ && _); cbn [fst snd o_frees]; split; try reflexivity; left;
        [apply held_set_ptr | reflexivity].
  - (* realloc *)
    unfold realloc. destruct (l_size l =? 0); [apply try_alloc_held; exact HS|].
    destruct (layout_ok _ _); cbn [fst snd o_frees]; [|split; [reflexivity | left; reflexivity]].
    destruct (n <=? l_size l).
    + unfold shrink. destruct (_ <? _).
      * destruct (_ =? 0); cbn [fst snd o_frees]; [split; [reflexivity | left; reflexivity]|].
        rewrite after_alloc_copy_frees, after_alloc_copy_fst'. apply try_alloc_held. exact HS.
      * destruct (_ && _); cbn [fst snd o_frees]; split; try reflexivity; left;
          [apply held_set_ptr | reflexivity].
    + unfold grow. destruct (round_up_to _ _); cbn [fst snd o_frees]; [|split; [reflexivity | left; reflexivity]].
      assert (FB : o_frees (snd (after_alloc_copy (try_alloc k A b (mkLayout n (l_align l))) p (l_size l))) = [] /\
                   (same_blocks k b (fst (after_alloc_copy (try_alloc k A b (mkLayout n (l_align l))) p (l_size l))) \/
                    one_more k b (fst (after_alloc_copy (try_alloc k A b (mkLayout n (l_align l))) p (l_size l))))).
      { rewrite after_alloc_copy_frees, after_alloc_copy_fst'. apply try_alloc_held. exact HS. }
      destruct (_ && _); [|exact FB].
      destruct (layout_ok _ _); cbn [fst snd o_frees]; [|split; [reflexivity | left; reflexivity]].
      destruct (fast k b _) as [[q b1]|] eqn:F; [|exact FB].
      cbn [fst snd o_frees]. split; [reflexivity|]. left. eapply fast_held; eauto.
  - (* reset *)
    unfold reset. destruct (chunks b) as [|c r] eqn:E; unfold held;
      cbn [fst snd o_frees chunks map tl firstn]; rewrite ?E; cbn [map tl firstn]; split; reflexivity.
  - cbn [fst snd o_frees]. split; [reflexivity | left; reflexivity].
  - (* tw_begin *)
    unfold tw_begin. pose proof (try_alloc_held k A b l HS) as H. cbv zeta in H.
    destruct (o_res (snd (try_alloc k A b l))); cbn [fst snd]; exact H.
  - (* tw_end *)
    unfold tw_end. destruct (tws b) as [|t ts]; cbn [fst snd o_frees]; [split; [reflexivity | left; reflexivity]|].
    destruct ok; cbn [fst snd o_frees]; [split; [reflexivity | left; reflexivity]|].
    destruct (_ =? tw_res t); [|cbn [fst snd o_frees]; split; [reflexivity | left; reflexivity]].
    destruct (_ =? tw_foot t); cbn [fst snd o_frees]; (split; [reflexivity|]); left;
      unfold same_blocks; rewrite held_set_ptr; reflexivity.
  - (* drop *)
    cbn [drop_arena fst snd o_frees]. split; reflexivity.
Qed.

(* ---------- C20: every finger store goes to the footer of one of the arena's own chunks ---------- *)
Definition own_footer (b : bump) (s : N) : Prop := exists c, In c (chunks b) /\ c_foot c = s.

Lemma stores_of_own k b : Forall (own_footer b) (stores_of k b).
Proof.
  unfold stores_of. destruct (chunks b) as [|c r] eqn:E; constructor; [|constructor].
  exists c. split; [rewrite E; left; reflexivity | reflexivity].
Qed.

Lemma own_footer_set_ptr b p s : own_footer b s -> own_footer (set_ptr b p) s.
Proof.
  intros (c & Hc & E). unfold own_footer. rewrite chunks_set_ptr'.
  destruct (chunks b) as [|c0 r]; [destruct Hc|].
  destruct Hc as [<-|Hc].
  - exists (with_ptr c0 p). split; [left; reflexivity | exact E].
  - exists c. split; [right; exact Hc | exact E].
Qed.

Lemma own_footer_path b b' s :
  (forall c, In c (chunks b) -> exists c', In c' (chunks b') /\ c_foot c' = c_foot c) ->
  own_footer b s -> own_footer b' s.
Proof. intros H (c & Hc & E). destruct (H c Hc) as (c' & Hc' & E'). exists c'. split; [exact Hc' | congruence]. Qed.

Lemma fast_keeps_feet (k : cfg) b l p b' :
  fast k b l = Some (p, b') ->
  forall c, In c (chunks b) -> exists c', In c' (chunks b') /\ c_foot c' = c_foot c.
Proof.
  unfold fast. destruct (fast_ptr _ _ _ _); [|discriminate]. intros H; inversion H; subst.
  intros c Hc. rewrite chunks_set_ptr'. destruct (chunks b) as [|c0 r]; [destruct Hc|].
  destruct Hc as [<-|Hc]; [exists (with_ptr c0 p); split; [left; reflexivity | reflexivity]|].
  exists c. split; [right; exact Hc | reflexivity].
Qed.

Lemma try_alloc_stores k A b l :
  let r := try_alloc k A b l in Forall (own_footer (fst r)) (o_stores (snd r)).
Proof.
  unfold try_alloc. destruct (fast k b l) as [[p b1]|] eqn:F; cbn [fst snd o_stores].
  - eapply Forall_impl; [|apply stores_of_own]. intros s. apply own_footer_path. eapply fast_keeps_feet; eauto.
  - unfold slow. destruct (A b (ForLayout l)) as [a reqs]. destruct a as [|w|g data]; cbn [fst snd o_stores]; try constructor.
    destruct (fast k (push_chunk b (new_chunk k b g data)) l) as [[p b2]|] eqn:F2; cbn [fst snd o_stores]; constructor; [|constructor].
    destruct (fast_keeps_feet _ _ _ _ _ F2 (new_chunk k b g data)) as (c' & Hc' & E'); [left; reflexivity|].
    exists c'. split; [exact Hc' | exact E'].
Qed.

Lemma after_alloc_copy_stores r s n : o_stores (snd (after_alloc_copy r s n)) = o_stores (snd r).
Proof. unfold after_alloc_copy. destruct (o_res (snd r)); reflexivity. Qed.

Lemma set_ptr_stores k b p : Forall (own_footer (set_ptr b p)) (stores_of k b).
Proof. eapply Forall_impl; [|apply stores_of_own]. intros s. apply own_footer_set_ptr. Qed.

Lemma shrink_stores k A b p old new :
  let r := shrink k A b p old new in Forall (own_footer (fst r)) (o_stores (snd r)).
Proof.
  unfold shrink. destruct (_ <? _).
  - destruct (_ =? 0); cbn [fst snd o_stores]; [constructor|].
    rewrite after_alloc_copy_stores, after_alloc_copy_fst'. apply try_alloc_stores.
  - destruct (_ && _); cbn [fst snd o_stores]; [apply set_ptr_stores | constructor].
Qed.

Lemma grow_stores k A b p old new :
  let r := grow k A b p old new in Forall (own_footer (fst r)) (o_stores (snd r)).
Proof.
  unfold grow. destruct (round_up_to _ _); cbn [fst snd o_stores]; [|constructor].
  assert (FB : Forall (own_footer (fst (after_alloc_copy (try_alloc k A b new) p (l_size old))))
                      (o_stores (snd (after_alloc_copy (try_alloc k A b new) p (l_size old))))).
  { rewrite after_alloc_copy_stores, after_alloc_copy_fst'. apply try_alloc_stores. }
  destruct (_ && _); [|exact FB].
  destruct (layout_ok _ _); cbn [fst snd o_stores]; [|constructor].
  destruct (fast k b _) as [[q b1]|] eqn:F; [|exact FB]. cbn [fst snd o_stores].
  eapply Forall_impl; [|apply stores_of_own]. intros s. apply own_footer_path. eapply fast_keeps_feet; eauto.
Qed.

Theorem step_stores_owned k A b o :
  let r := step k A b o in Forall (own_footer (fst r)) (o_stores (snd r)).
Proof.
  destruct o; cbn [step].
  - unfold with_capacity. destruct (chunks b); cbn [fst snd o_stores]; try constructor.
    destruct (cap =? 0); cbn [fst snd o_stores]; try constructor.
    destruct (layout_ok _ _); cbn [fst snd o_stores]; try constructor.
    destruct (A b (ForCapacity cap)) as [a reqs]; destruct a; cbn [fst snd o_stores]; constructor.
  - apply try_alloc_stores.
  - unfold dealloc. destruct (_ =? _); cbn [fst snd o_stores]; [apply set_ptr_stores | constructor].
  - destruct zeroed; [|apply grow_stores].
    destruct (grow_zeroed_res k A b p old new) as [_ R2]. rewrite R2.
    pose proof (grow_stores k A b p old new) as G. cbv zeta in G.
    unfold grow_zeroed. destruct (o_res (snd (grow k A b p old new))); exact G.
  - apply shrink_stores.
  - unfold realloc. destruct (l_size l =? 0); [apply try_alloc_stores|].
    destruct (layout_ok _ _); cbn [fst snd o_stores]; [|constructor].
    destruct (n <=? l_size l); [apply shrink_stores | apply grow_stores].
  - unfold reset. destruct (chunks b) as [|c r]; cbn [fst snd o_stores]; constructor; [|constructor].
    eexists. split; [left; reflexivity | reflexivity].
  - cbn [fst snd o_stores]. constructor.
  - unfold tw_begin. pose proof (try_alloc_stores k A b l) as H. cbv zeta in H.
    destruct (o_res (snd (try_alloc k A b l))); cbn [fst snd]; [|exact H ..].
    eapply Forall_impl; [|exact H]. intros s (c & Hc & E). exists c. split; [exact Hc | exact E].
  - unfold tw_end. destruct (tws b) as [|t ts]; cbn [fst snd o_stores]; [constructor|].
    destruct ok; cbn [fst snd o_stores]; [constructor|].
    destruct (_ =? tw_res t); [|cbn [fst snd o_stores]; constructor].
    destruct (_ =? tw_foot t); cbn [fst snd o_stores]; apply set_ptr_stores.
  - cbn [drop_arena fst snd o_stores]. constructor.
Qed.

(* ---------- C06 / C10: reset, and the shape of chunk iteration ---------- *)
Theorem reset_state k b c r :
  chunks b = c :: r ->
  let b' := fst (reset k b) in
  chunks b' = [mkChunk (c_data c) (c_nswf c) (c_align c) (c_foot c) (c_nswf c)] /\
  q_iter_chunks b' = [(c_foot c, 0)] /\
  held k b' = [chunk_block k c] /\
  q_chunk_capacity k b' = c_nswf c /\
  limit b' = limit b /\ tws b' = [].
Proof.
  intros E. unfold reset. rewrite E. cbn [fst chunks limit tws q_iter_chunks map held chunk_block
    q_chunk_capacity cur_ptr cur_start c_ptr c_foot c_data c_nswf c_align].
  conj; try reflexivity.
  - rewrite N.sub_diag. reflexivity.
  - unfold q_chunk_capacity, cur_ptr, cur_start, c_foot. cbn [chunks c_ptr c_data c_nswf].
    rewrite N.add_comm, N.add_sub. reflexivity.
Qed.

Theorem reset_chunkless k b : chunks b = [] -> reset k b = (b, out_of RUnit).
Proof. intros E. unfold reset. rewrite E. reflexivity. Qed.

(* iteration yields one slice per chunk, newest first, each ending at its footer *)
Theorem iter_shape k b :
  Forall (chunk_ok k) (chunks b) ->
  slices_ok k (held k b) (q_iter_chunks b) = true.
Proof.
  unfold held, q_iter_chunks. induction (chunks b) as [|c r IH]; intros H; cbn [map slices_ok]; [reflexivity|].
  inversion H as [|? ? Hc Hr]; subst. rewrite (IH Hr), andb_true_r.
  destruct Hc as (_ & _ & _ & C4 & C5 & _).
  unfold slice_ok, chunk_block, g_addr, g_sz, c_foot in *; cbn [fst snd].
  apply andb_true_intro. split; [apply N.leb_le; exact C4 | apply N.eqb_eq; lia].
Qed.
