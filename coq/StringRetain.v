(* StringRetain.v — String::retain at buffer level, with a predicate that may panic at any call.
   The loop of string.rs keeps a guard (idx, del_bytes) whose destructor sets the length to
   idx - del_bytes: on a panic the string is cut down to the compacted prefix.  For every valid text
   and every script of answers the string afterwards holds exactly the characters kept so far — valid
   UTF-8 — and without a panic it is the model's s_retain. *)
From BV Require Import Word Utf8 Utf8Facts Utf8Enc Memmove.
From Coq Require Import List Lia Arith.
Import ListNotations.
Local Open Scope nat_scope.

Inductive ans := Keep | Del | Boom.

(* the state of the loop: buffer, idx, del_bytes; the flag says the predicate panicked *)
Fixpoint retain_loop (fuel : nat) (buf : list byte) (len idx del : nat) (script : list ans)
  : list byte * nat * nat * bool :=
  match fuel with
  | O => (buf, idx, del, false)
  | S f =>
      if idx <? len then
        (* guard.s.get_unchecked(idx..len).chars().next().unwrap() *)
        match char_len (firstn (len - idx) (skipn idx buf)) with
        | None => (buf, idx, del, true)             (* not reached on valid text *)
        | Some w =>
            match script with
            | Boom :: _ => (buf, idx, del, true)
            | Del :: r => retain_loop f buf len (idx + w) (del + w) r
            | Keep :: r =>
                let buf' := if 0 <? del then mcopy buf idx (idx - del) w else buf in
                retain_loop f buf' len (idx + w) del r
            | [] => let buf' := if 0 <? del then mcopy buf idx (idx - del) w else buf in
                    retain_loop f buf' len (idx + w) del []       (* an exhausted script keeps *)
            end
        end
      else (buf, idx, del, false)
  end.

(* the guard's destructor runs on both ways out: set_len(idx - del_bytes) *)
Definition retain_run (s : list byte) (script : list ans) : list byte * bool :=
  let '(buf, idx, del, panicked) := retain_loop (S (length s)) s (length s) 0 0 script in
  (mlen buf (idx - del), panicked).

(* what should be left: the characters answered Keep, up to the first Boom *)
Fixpoint retain_spec (cs : list (list byte)) (script : list ans) : list (list byte) :=
  match cs with
  | [] => []
  | c :: r =>
      match script with
      | Boom :: _ => []
      | Del :: sr => retain_spec r sr
      | Keep :: sr => c :: retain_spec r sr
      | [] => c :: retain_spec r []
      end
  end.
Fixpoint panics (cs : list (list byte)) (script : list ans) : bool :=
  match cs with
  | [] => false
  | _ :: r => match script with Boom :: _ => true | _ :: sr => panics r sr | [] => false end
  end.

Lemma panics_nil cs : panics cs [] = false.
Proof. destruct cs; reflexivity. Qed.

Lemma concat_length_le (cs : list (list byte)) : Forall wf_char cs -> (length cs <= length (concat cs))%nat.
Proof.
  induction 1 as [|c r Hc _ IH]; cbn [concat length]; [lia|].
  rewrite app_length. unfold wf_char in Hc. destruct (char_len_spec _ _ Hc) as (H1 & _). lia.
Qed.

(* the loop invariant: compacted kept prefix K, del stale bytes, the unprocessed characters *)
Lemma retain_loop_inv : forall rest K junk script fuel,
  Forall wf_char rest -> (length rest < fuel)%nat ->
  let buf := K ++ junk ++ concat rest in
  let '(buf', idx', del', p) :=
    retain_loop fuel buf (length buf) (length K + length junk) (length junk) script in
  mlen buf' (idx' - del') = K ++ concat (retain_spec rest script) /\ p = panics rest script.
Proof.
  induction rest as [|c rest IH]; intros K junk script fuel Hwf Hf.
  - cbn [concat]. rewrite app_nil_r. destruct fuel as [|f]; [lia|].
    cbn [retain_loop]. rewrite app_length.
    destruct (Nat.ltb_spec (length K + length junk) (length K + length junk)) as [C|_]; [lia|].
    cbn [retain_spec panics concat]. rewrite app_nil_r. split; [|reflexivity].
    unfold mlen. replace (length K + length junk - length junk)%nat with (length K) by lia.
    apply firstn_app_exact. reflexivity.
  - inversion Hwf as [|c' r' Hc Hrest]; subst c' r'.
    destruct fuel as [|f]; [lia|]. cbn [length] in Hf.
    set (buf := K ++ junk ++ concat (c :: rest)).
    assert (Lb : length buf = (length K + length junk + length c + length (concat rest))%nat).
    { unfold buf. cbn [concat]. rewrite !app_length. lia. }
    assert (Hw : (1 <= length c)%nat) by (unfold wf_char in Hc; destruct (char_len_spec _ _ Hc) as (H1 & _); lia).
    cbn [retain_loop].
    destruct (Nat.ltb_spec (length K + length junk) (length buf)) as [_|C]; [|lia].
    assert (Hsk : skipn (length K + length junk) buf = c ++ concat rest).
    { unfold buf. cbn [concat]. rewrite app_assoc. apply skipn_app_exact. rewrite app_length. reflexivity. }
    rewrite Hsk, firstn_all2 by (rewrite app_length; lia).
    rewrite (wf_char_head c (concat rest) Hc).
    assert (Hkeep : forall sr,
      (let buf' := if 0 <? length junk then mcopy buf (length K + length junk) (length K + length junk - length junk) (length c) else buf in
       let '(buf'', idx', del', p) := retain_loop f buf' (length buf) (length K + length junk + length c) (length junk) sr in
       mlen buf'' (idx' - del') = K ++ concat (c :: retain_spec rest sr) /\ p = panics rest sr)).
    { intros sr.
      set (junk' := skipn (length c) (junk ++ c)).
      assert (Lj : length junk' = length junk) by (unfold junk'; rewrite skipn_length, app_length; lia).
      assert (E : (if 0 <? length junk then mcopy buf (length K + length junk) (length K + length junk - length junk) (length c) else buf)
                  = (K ++ c) ++ junk' ++ concat rest).
      { destruct (Nat.ltb_spec 0 (length junk)) as [Hj|Hj].
        - unfold mcopy. rewrite Hsk. replace (length K + length junk - length junk)%nat with (length K) by lia.
          rewrite (firstn_app_exact c (concat rest)) by reflexivity.
          unfold buf. rewrite (firstn_app_exact K) by reflexivity.
          rewrite <- app_assoc. f_equal. f_equal.
          rewrite skipn_app, skipn_all2 by lia. cbn [app].
          replace (length K + length c - length K)%nat with (length c) by lia.
          cbn [concat]. rewrite (app_assoc junk c (concat rest)).
          rewrite skipn_app_l by (rewrite app_length; lia). reflexivity.
        - assert (junk = []) by (destruct junk; [reflexivity | cbn in Hj; lia]). subst junk.
          unfold junk', buf. cbn [app concat length]. rewrite skipn_all. cbn [app]. rewrite <- app_assoc. reflexivity. }
      cbv zeta. rewrite E.
      specialize (IH (K ++ c) junk' sr f Hrest ltac:(lia)). cbv zeta in IH.
      replace (length buf) with (length ((K ++ c) ++ junk' ++ concat rest))
        by (rewrite Lb, !app_length, Lj; lia).
      replace (length K + length junk + length c)%nat with (length (K ++ c) + length junk')%nat
        by (rewrite app_length, Lj; lia).
      rewrite <- Lj.
      destruct (retain_loop f _ _ _ _ sr) as [[[b1 i1] d1] p1].
      destruct IH as [IH1 IH2]. split; [|exact IH2].
      rewrite IH1. cbn [concat]. rewrite <- app_assoc. reflexivity. }
    destruct script as [|[| |] sr].
    + specialize (Hkeep []). cbv zeta in Hkeep.
      destruct (retain_loop f _ _ _ _ []) as [[[b1 i1] d1] p1]. cbn [retain_spec panics]. rewrite panics_nil in Hkeep. exact Hkeep.
    + specialize (Hkeep sr). cbv zeta in Hkeep.
      destruct (retain_loop f _ _ _ _ sr) as [[[b1 i1] d1] p1]. cbn [retain_spec panics]. exact Hkeep.
    + (* Del *)
      specialize (IH K (junk ++ c) sr f Hrest ltac:(lia)). cbv zeta in IH.
      replace (K ++ (junk ++ c) ++ concat rest) with buf in IH
        by (unfold buf; cbn [concat]; rewrite <- app_assoc; reflexivity).
      rewrite app_length in IH.
      replace (length K + (length junk + length c))%nat with (length K + length junk + length c)%nat in IH by lia.
      destruct (retain_loop f buf (length buf) _ _ sr) as [[[b1 i1] d1] p1].
      cbn [retain_spec panics]. exact IH.
    + (* Boom *)
      cbn [retain_spec panics concat]. rewrite app_nil_r. split; [|reflexivity].
      unfold mlen. replace (length K + length junk - length junk)%nat with (length K) by lia.
      unfold buf. apply firstn_app_exact. reflexivity.
Qed.

Lemma retain_spec_wf cs script : Forall wf_char cs -> Forall wf_char (retain_spec cs script).
Proof.
  intros H. revert script. induction H as [|c r Hc _ IH]; intros script; cbn [retain_spec]; [constructor|].
  destruct script as [|[| |] sr]; try constructor; auto.
Qed.

Lemma Valid_concat cs : Forall wf_char cs -> Valid (concat cs).
Proof. induction 1; cbn [concat]; [constructor | apply V_char; assumption]. Qed.

(* the theorem: for every valid text and every script, panicking or not *)
Theorem retain_run_spec s script : Valid s ->
  fst (retain_run s script) = concat (retain_spec (chars s) script) /\
  snd (retain_run s script) = panics (chars s) script /\
  Valid (fst (retain_run s script)).
Proof.
  intros V. destruct (chars_spec s V) as [Hc Hwf].
  pose proof (retain_loop_inv (chars s) [] [] script (S (length s)) Hwf) as H.
  cbv zeta in H. cbn [app length Nat.add] in H. rewrite Hc in H.
  assert (Hl : (length (chars s) < S (length s))%nat).
  { pose proof (concat_length_le _ Hwf) as L. rewrite Hc in L. lia. }
  specialize (H Hl). unfold retain_run.
  destruct (retain_loop (S (length s)) s (length s) 0 0 script) as [[[b1 i1] d1] p1].
  destruct H as [H1 H2]. cbn [fst snd]. rewrite H1. cbn [app].
  split; [reflexivity|]. split; [exact H2|].
  apply Valid_concat. apply retain_spec_wf. exact Hwf.
Qed.

(* without a panic the loop computes the model's retain *)
Definition answers (keep : list bool) : list ans := map (fun k : bool => if k then Keep else Del) keep.
Lemma retain_spec_keep_by cs keep : (length cs <= length keep)%nat ->
  retain_spec cs (answers keep) = keep_by cs keep /\ panics cs (answers keep) = false.
Proof.
  revert keep. induction cs as [|c r IH]; intros keep H; cbn [retain_spec panics keep_by].
  - destruct keep; split; reflexivity.
  - destruct keep as [|k ks]; [cbn in H; lia|]. cbn [length] in H. cbn [answers map].
    destruct (IH ks ltac:(lia)) as [I1 I2]. fold (answers ks).
    destruct k; cbn [retain_spec panics]; rewrite I1; split; try reflexivity; exact I2.
Qed.

Theorem retain_run_is_s_retain s keep : Valid s -> (length (chars s) <= length keep)%nat ->
  retain_run s (answers keep) = (s_retain s keep, false).
Proof.
  intros V H. destruct (retain_run_spec s (answers keep) V) as (H1 & H2 & _).
  destruct (retain_spec_keep_by (chars s) keep H) as [E1 E2].
  rewrite E1 in H1. rewrite E2 in H2. unfold s_retain.
  destruct (retain_run s (answers keep)) as [t p]. cbn [fst snd] in *. subst. reflexivity.
Qed.

(* the hypotheses are met by a real text: "aé€x", delete, keep (moves 2 bytes down), then panic *)
Example retain_ex :
  retain_run [97; 195; 169; 226; 130; 172; 120]%N [Del; Keep; Boom] = ([195; 169]%N, true) /\
  retain_run [97; 195; 169; 226; 130; 172; 120]%N [Del; Keep; Del; Keep] = ([195; 169; 120]%N, false).
Proof. split; reflexivity. Qed.
