(* Utf8Facts.v — facts about well-formed UTF-8, char boundaries, the String
   operations that check them, and the lossy chunk iterator (C14). *)
From BV Require Import Word Utf8.
From Coq Require Import Lia Arith PeanoNat.

Ltac conj := repeat match goal with |- _ /\ _ => split end.

(* ---------- one character ---------- *)
Definition wf_char (ch : list byte) : Prop := char_len ch = Some (length ch).

Inductive Valid : list byte -> Prop :=
| V_nil : Valid []
| V_char ch rest : wf_char ch -> Valid rest -> Valid (ch ++ rest).

(* what char_len tells about the head of the list *)
Lemma char_len_spec bs n :
  char_len bs = Some n ->
  (1 <= n <= 4)%nat /\ (n <= length bs)%nat /\
  char_len (firstn n bs) = Some n /\
  (forall j, (1 <= j < n)%nat -> is_cont (nth j bs 0) = true) /\
  is_cont (nth 0 bs 0) = false.
Proof.
  unfold char_len. destruct bs as [|b0 r]; [discriminate|].
  assert (Hnc : forall b, b <? 128 = true -> is_cont b = false).
  { intros b H. apply N.ltb_lt in H. unfold is_cont, in_range. apply andb_false_iff. left. apply N.leb_gt. exact H. }
  assert (Hnc2 : forall lo hi b, 192 <= lo -> in_range lo hi b = true -> is_cont b = false).
  { intros lo hi b Hlo H. unfold in_range in H. apply andb_prop in H. destruct H as [H _]. apply N.leb_le in H.
    unfold is_cont, in_range. apply andb_false_iff. right. apply N.leb_gt. lia. }
  destruct (b0 <? 128) eqn:E0.
  - intros H; inversion H; subst. cbn [firstn length nth]. rewrite E0.
    split; [lia|]. split; [lia|]. split; [reflexivity|]. split; [intros j Hj; lia | apply Hnc; exact E0].
  - destruct (in_range 194 223 b0) eqn:E2.
    + destruct r as [|b1 r]; [discriminate|]. destruct (is_cont b1) eqn:C1; [|discriminate].
      intros H; inversion H; subst. cbn [firstn length nth]. rewrite E0, E2, C1.
      split; [lia|]. split; [lia|]. split; [reflexivity|]. split.
      * intros j Hj. assert (j = 1%nat) by lia. subst j. exact C1.
      * apply (Hnc2 194 223); [lia | exact E2].
    + destruct (in_range 224 239 b0) eqn:E3.
      * destruct r as [|b1 [|b2 r]]; try discriminate.
        match goal with |- (if ?c then _ else _) = _ -> _ => destruct c eqn:C end; [|discriminate].
        intros H; inversion H; subst. cbn [firstn length nth]. rewrite E0, E2, E3, C.
        apply andb_prop in C. destruct C as [C12 C2].
        assert (C1 : is_cont b1 = true).
        { unfold is_cont. unfold in_range in *.
          repeat (apply orb_prop in C12; destruct C12 as [C12|C12]);
            apply andb_prop in C12; destruct C12 as [_ C12]; apply andb_prop in C12; destruct C12 as [L1 L2];
            apply N.leb_le in L1, L2; apply andb_true_intro; split; apply N.leb_le; lia. }
        split; [lia|]. split; [lia|]. split; [reflexivity|]. split.
        -- intros j Hj. assert (j = 1%nat \/ j = 2%nat) by lia. destruct H0; subst j; assumption.
        -- apply (Hnc2 224 239); [lia | exact E3].
      * destruct (in_range 240 244 b0) eqn:E4; [|discriminate].
        destruct r as [|b1 [|b2 [|b3 r]]]; try discriminate.
        match goal with |- (if ?c then _ else _) = _ -> _ => destruct c eqn:C end; [|discriminate].
        intros H; inversion H; subst. cbn [firstn length nth]. rewrite E0, E2, E3, E4, C.
        apply andb_prop in C. destruct C as [C C3]. apply andb_prop in C. destruct C as [C12 C2].
        assert (C1 : is_cont b1 = true).
        { unfold is_cont. unfold in_range in *.
          repeat (apply orb_prop in C12; destruct C12 as [C12|C12]);
            apply andb_prop in C12; destruct C12 as [_ C12]; apply andb_prop in C12; destruct C12 as [L1 L2];
            apply N.leb_le in L1, L2; apply andb_true_intro; split; apply N.leb_le; lia. }
        split; [lia|]. split; [lia|]. split; [reflexivity|]. split.
        -- intros j Hj. assert (j = 1%nat \/ j = 2%nat \/ j = 3%nat) by lia.
           destruct H0 as [->|[->| ->]]; assumption.
        -- apply (Hnc2 240 244); [lia | exact E4].
Qed.

(* char_len only looks at the first n bytes *)
Lemma char_len_prefix bs n rest :
  char_len bs = Some n -> (n <= length bs)%nat -> char_len (firstn n bs ++ rest) = Some n.
Proof.
  intros H Hn. destruct (char_len_spec bs n H) as (Hr & _ & Hp & _).
  revert Hp. generalize (firstn n bs). intros ch Hp.
  (* char_len ch = Some n with length info: appending does not change the outcome *)
  unfold char_len in *. destruct ch as [|b0 r]; [discriminate|]. cbn [app].
  destruct (b0 <? 128); [exact Hp|].
  destruct (in_range 194 223 b0).
  - destruct r as [|b1 r]; [discriminate|]. exact Hp.
  - destruct (in_range 224 239 b0).
    + destruct r as [|b1 [|b2 r]]; try discriminate. exact Hp.
    + destruct (in_range 240 244 b0); [|discriminate].
      destruct r as [|b1 [|b2 [|b3 r]]]; try discriminate. exact Hp.
Qed.

Lemma wf_char_of bs n : char_len bs = Some n -> wf_char (firstn n bs).
Proof.
  intros H. destruct (char_len_spec bs n H) as (_ & Hl & Hp & _).
  unfold wf_char. rewrite firstn_length, Nat.min_l by exact Hl. exact Hp.
Qed.

Lemma wf_char_head ch rest : wf_char ch -> char_len (ch ++ rest) = Some (length ch).
Proof.
  intros H. unfold wf_char in H.
  pose proof (char_len_prefix ch (length ch) rest H (Nat.le_refl _)) as P.
  rewrite firstn_all in P. exact P.
Qed.

Lemma wf_char_nonempty ch : wf_char ch -> (1 <= length ch)%nat.
Proof. intros H. destruct (char_len_spec ch _ H) as (Hr & _). lia. Qed.

(* ---------- concatenation and splitting at a boundary ---------- *)
Lemma Valid_app a b : Valid a -> Valid b -> Valid (a ++ b).
Proof.
  induction 1 as [|ch rest Hc Hr IH]; intros Hb; [exact Hb|].
  rewrite <- app_assoc. constructor; [exact Hc | apply IH; exact Hb].
Qed.

Lemma Valid_single ch : wf_char ch -> Valid ch.
Proof. intros H. rewrite <- (app_nil_r ch). constructor; [exact H | constructor]. Qed.

Definition boundary (bs : list byte) (i : nat) : Prop :=
  i = 0%nat \/ i = length bs \/ ((i < length bs)%nat /\ is_cont (nth i bs 0) = false).

Lemma Valid_split s : Valid s -> forall i, (i <= length s)%nat -> boundary s i ->
  Valid (firstn i s) /\ Valid (skipn i s).
Proof.
  induction 1 as [|ch rest Hc Hr IH]; intros i Hi Hb.
  - destruct i; [|cbn in Hi; lia]. split; constructor.
  - destruct (Nat.eq_dec i 0) as [->|Hi0].
    { cbn [firstn skipn]. split; [constructor | constructor; assumption]. }
    pose proof (wf_char_nonempty ch Hc) as Hn1.
    destruct (Nat.le_gt_cases (length ch) i) as [Hge|Hlt].
    + (* the split point is at or after the end of the first character *)
      rewrite firstn_app, skipn_app. rewrite firstn_all2, skipn_all2 by lia. cbn [app].
      rewrite app_length in Hi.
      destruct (IH (i - length ch)%nat) as [V1 V2]; [lia | |].
      * destruct Hb as [->|[Hb|[Hb1 Hb2]]]; [lia | |].
        -- right. left. rewrite app_length in Hb. lia.
        -- rewrite app_length in Hb1. destruct (Nat.eq_dec (i - length ch) (length rest)) as [E|NE].
           ++ right. left. exact E.
           ++ right. right. split; [lia|]. rewrite app_nth2 in Hb2 by lia. exact Hb2.
      * split; [constructor; assumption | exact V2].
    + (* the split point falls inside the first character: not a boundary *)
      exfalso. destruct Hb as [->|[Hb|[Hb1 Hb2]]]; [lia | rewrite app_length in Hb; lia |].
      destruct (char_len_spec ch _ Hc) as (_ & _ & _ & Hcont & _).
      rewrite app_nth1 in Hb2 by lia. rewrite (Hcont i) in Hb2 by lia. discriminate.
Qed.

(* the boolean boundary test of the code agrees with [boundary] *)
Lemma is_char_boundary_spec s i :
  is_char_boundary s i = true -> i <= N.of_nat (length s) -> boundary s (N.to_nat i).
Proof.
  unfold is_char_boundary, boundary. intros H Hi.
  apply orb_prop in H. destruct H as [H|H].
  - apply orb_prop in H. destruct H as [H|H]; apply N.eqb_eq in H; subst; [left; reflexivity | right; left; lia].
  - apply andb_prop in H. destruct H as [H1 H2]. apply N.ltb_lt in H1.
    right. right. split; [lia|]. apply negb_true_iff in H2. exact H2.
Qed.

(* ---------- the String operations keep the text well-formed ---------- *)
Theorem s_truncate_valid s n s' : Valid s -> s_truncate s n = SRet s' -> Valid s'.
Proof.
  intros V. unfold s_truncate. destruct (n <=? N.of_nat (length s)) eqn:E.
  - apply N.leb_le in E. destruct (is_char_boundary s n) eqn:B; [|discriminate].
    intros H; inversion H; subst. apply (Valid_split s V (N.to_nat n)); [lia|].
    apply is_char_boundary_spec; assumption.
  - intros H; inversion H; subst. exact V.
Qed.

Theorem s_insert_str_valid s i t s' : Valid s -> Valid t -> s_insert_str s i t = SRet s' -> Valid s'.
Proof.
  intros V Vt. unfold s_insert_str. destruct (is_char_boundary s i && (i <=? N.of_nat (length s))) eqn:E; [|discriminate].
  apply andb_prop in E. destruct E as [B L]. apply N.leb_le in L.
  intros H; inversion H; subst.
  destruct (Valid_split s V (N.to_nat i)) as [V1 V2]; [lia | apply is_char_boundary_spec; assumption|].
  apply Valid_app; [exact V1 | apply Valid_app; assumption].
Qed.

Theorem s_split_off_valid s i a b : Valid s -> s_split_off s i = SRet (a, b) -> Valid a /\ Valid b.
Proof.
  intros V. unfold s_split_off. destruct (is_char_boundary s i && (i <=? N.of_nat (length s))) eqn:E; [|discriminate].
  apply andb_prop in E. destruct E as [B L]. apply N.leb_le in L.
  intros H; inversion H; subst.
  apply (Valid_split s V (N.to_nat i)); [lia | apply is_char_boundary_spec; assumption].
Qed.

Lemma Valid_tail_char s : Valid s -> s <> [] ->
  exists n, char_len s = Some n /\ Valid (skipn n s) /\ wf_char (firstn n s).
Proof.
  intros V Hne. destruct V as [|ch rest Hc Hr]; [contradiction|].
  exists (length ch). rewrite (wf_char_head ch rest Hc).
  rewrite skipn_app, skipn_all, Nat.sub_diag. cbn [skipn app].
  rewrite firstn_app, firstn_all, Nat.sub_diag. cbn [firstn]. rewrite app_nil_r.
  conj; [reflexivity | exact Hr | exact Hc].
Qed.

Theorem s_remove_valid s i s' ch : Valid s -> s_remove s i = SRet (s', ch) -> Valid s' /\ wf_char ch.
Proof.
  intros V. unfold s_remove. destruct (is_char_boundary s i && (i <? N.of_nat (length s))) eqn:E; [|discriminate].
  apply andb_prop in E. destruct E as [B L]. apply N.ltb_lt in L.
  destruct (Valid_split s V (N.to_nat i)) as [V1 V2]; [lia | apply is_char_boundary_spec; [assumption | lia]|].
  assert (Hne : skipn (N.to_nat i) s <> []).
  { intros E. assert (length (skipn (N.to_nat i) s) = 0%nat) by (rewrite E; reflexivity).
    rewrite skipn_length in H. lia. }
  destruct (Valid_tail_char _ V2 Hne) as (n & Hn & V3 & Wc). rewrite Hn.
  intros H; inversion H; subst. split; [|exact Wc].
  apply Valid_app; [exact V1|].
  replace (skipn (N.to_nat i + n) s) with (skipn n (skipn (N.to_nat i) s)); [exact V3|].
  clear. revert s. generalize (N.to_nat i). intros a. induction a as [|a IH]; intros s; [reflexivity|].
  destruct s as [|x s]; [rewrite !skipn_nil; reflexivity|]. cbn [skipn plus]. apply IH.
Qed.

Theorem s_replace_range_valid s a b t s' :
  Valid s -> Valid t -> s_replace_range s a b t = SRet s' -> Valid s'.
Proof.
  intros V Vt. unfold s_replace_range.
  destruct ((a <=? b) && (b <=? N.of_nat (length s)) && is_char_boundary s a && is_char_boundary s b) eqn:E; [|discriminate].
  rewrite !andb_true_iff in E. destruct E as [[[L1 L2] B1] B2]. apply N.leb_le in L1, L2.
  intros H; inversion H; subst.
  destruct (Valid_split s V (N.to_nat a)) as [V1 _]; [lia | apply is_char_boundary_spec; [assumption | lia]|].
  destruct (Valid_split s V (N.to_nat b)) as [_ V2]; [lia | apply is_char_boundary_spec; assumption|].
  apply Valid_app; [exact V1 | apply Valid_app; assumption].
Qed.

(* the replacement character is well-formed *)
Lemma replacement_valid : Valid REPLACEMENT.
Proof. apply Valid_single. vm_compute. reflexivity. Qed.

(* ---------- the lossy chunk iterator ---------- *)
Definition table_ok (wt : width_table) : Prop := forall b, wt b = std_width b.

Lemma nth_skipn_add {A} (l : list A) i k d : nth k (skipn i l) d = nth (i + k) l d.
Proof.
  revert l. induction i as [|i IH]; intros l; [reflexivity|].
  destruct l as [|a l]; [destruct k; reflexivity|]. cbn [skipn plus nth]. apply IH.
Qed.

(* is_cont 0 = false: a missing byte (safe_get past the end) never continues a sequence *)
Lemma is_cont_0 : is_cont 0 = false.
Proof. reflexivity. Qed.

(* one step of the scan is exactly char_len on the rest of the input *)
Lemma scan_step_char wt src i :
  table_ok wt -> (i < length src)%nat ->
  match scan_step wt src i with
  | SNext i' => (i < i')%nat /\ char_len (skipn i src) = Some (i' - i)%nat
  | SErr i' => (i < i')%nat /\ (i' <= length src)%nat /\ char_len (skipn i src) = None
  end.
Proof.
  intros T Hi. unfold scan_step, safe_get.
  assert (Hl : length (skipn i src) = (length src - i)%nat) by apply skipn_length.
  rewrite <- !(nth_skipn_add src i). replace (nth i src 0) with (nth 0 (skipn i src) 0) by (rewrite nth_skipn_add; f_equal; lia).
  rewrite T. unfold std_width.
  destruct (skipn i src) as [|b0 r] eqn:El; [cbn in Hl; lia|].
  cbn [nth char_len].
  destruct (b0 <? 128) eqn:E0.
  - split; [lia|]. f_equal. lia.
  - destruct (in_range 194 223 b0) eqn:E2.
    + cbn [N.eqb]. change (2 =? 2) with true. cbv iota.
      destruct r as [|b1 r]; cbn [nth].
      * rewrite is_cont_0. (split; [lia | split; [cbn [length] in Hl; lia | reflexivity]]).
      * destruct (is_cont b1); [split; [lia | f_equal; lia] | (split; [lia | split; [cbn [length] in Hl; lia | reflexivity]])].
    + destruct (in_range 224 239 b0) eqn:E3.
      * change (3 =? 2) with false. change (3 =? 3) with true. cbv iota.
        destruct r as [|b1 r]; cbn [nth].
        -- assert (Z : ((b0 =? 224) && in_range 160 191 0 || in_range 225 236 b0 && in_range 128 191 0
                        || (b0 =? 237) && in_range 128 159 0 || in_range 238 239 b0 && in_range 128 191 0) = false).
           { unfold in_range. cbn [N.leb]. rewrite !andb_false_r. reflexivity. }
           rewrite Z. (split; [lia | split; [cbn [length] in Hl; lia | reflexivity]]).
        -- destruct ((b0 =? 224) && in_range 160 191 b1 || in_range 225 236 b0 && in_range 128 191 b1
                     || (b0 =? 237) && in_range 128 159 b1 || in_range 238 239 b0 && in_range 128 191 b1) eqn:C12.
           ++ destruct r as [|b2 r]; cbn [nth].
              ** rewrite is_cont_0. (split; [lia | split; [cbn [length] in Hl; lia | reflexivity]]).
              ** cbn [andb]. destruct (is_cont b2); [split; [lia | f_equal; lia] | (split; [lia | split; [cbn [length] in Hl; lia | reflexivity]])].
           ++ split; [lia|]. split; [cbn [length] in Hl; lia|]. destruct r; reflexivity.
      * destruct (in_range 240 244 b0) eqn:E4.
        -- change (4 =? 2) with false. change (4 =? 3) with false. change (4 =? 4) with true. cbv iota.
           destruct r as [|b1 r]; cbn [nth].
           ++ assert (Z : ((b0 =? 240) && in_range 144 191 0 || in_range 241 243 b0 && in_range 128 191 0
                           || (b0 =? 244) && in_range 128 143 0) = false).
              { unfold in_range. cbn [N.leb]. rewrite !andb_false_r. reflexivity. }
              rewrite Z. (split; [lia | split; [cbn [length] in Hl; lia | reflexivity]]).
           ++ destruct ((b0 =? 240) && in_range 144 191 b1 || in_range 241 243 b0 && in_range 128 191 b1
                        || (b0 =? 244) && in_range 128 143 b1) eqn:C12.
              ** destruct r as [|b2 r]; cbn [nth].
                 --- rewrite is_cont_0. (split; [lia | split; [cbn [length] in Hl; lia | reflexivity]]).
                 --- destruct (is_cont b2) eqn:C2.
                     +++ destruct r as [|b3 r]; cbn [nth].
                         *** rewrite is_cont_0. (split; [lia | split; [cbn [length] in Hl; lia | reflexivity]]).
                         *** cbn [andb]. destruct (is_cont b3); [split; [lia | f_equal; lia] | (split; [lia | split; [cbn [length] in Hl; lia | reflexivity]])].
                     +++ split; [lia|]. split; [cbn [length] in Hl; lia|]. destruct r; cbn [andb]; reflexivity.
              ** split; [lia|]. split; [cbn [length] in Hl; lia|]. destruct r as [|? [|? ?]]; reflexivity.
        -- change (0 =? 2) with false. change (0 =? 3) with false. change (0 =? 4) with false. cbv iota.
           split; [lia | split; [lia | reflexivity]].
Qed.

Lemma firstn_add {A} (l : list A) i n : firstn (i + n) l = firstn i l ++ firstn n (skipn i l).
Proof.
  revert l. induction i as [|i IH]; intros l; [reflexivity|].
  destruct l as [|a l]; [rewrite !firstn_nil; destruct n; reflexivity|].
  cbn [plus firstn skipn app]. f_equal. apply IH.
Qed.

Lemma skipn_add {A} (l : list A) i n : skipn (i + n) l = skipn n (skipn i l).
Proof.
  revert l. induction i as [|i IH]; intros l; [reflexivity|].
  destruct l as [|a l]; [rewrite !skipn_nil; reflexivity|]. cbn [plus skipn]. apply IH.
Qed.

(* the scan: either everything is well-formed, or it stops at the first ill-formed
   position i_ with a well-formed prefix before it *)
Lemma scan_spec wt : table_ok wt -> forall fuel src i,
  Valid (firstn i src) -> (i <= length src)%nat ->
  match scan wt fuel src i with
  | Some (i_, i') => (i <= i_)%nat /\ (i_ < i')%nat /\ (i' <= length src)%nat /\
                     Valid (firstn i_ src) /\ char_len (skipn i_ src) = None
  | None => (length src - i < fuel)%nat -> Valid src
  end.
Proof.
  intros T. induction fuel as [|fuel IH]; intros src i V Hi; cbn [scan]; [lia|].
  destruct (Nat.ltb i (length src)) eqn:E.
  - apply Nat.ltb_lt in E. pose proof (scan_step_char wt src i T E) as HS.
    destruct (scan_step wt src i) as [i'|i'].
    + destruct HS as (Hlt & Hc).
      destruct (char_len_spec _ _ Hc) as (_ & Hn & _). rewrite skipn_length in Hn.
      assert (V' : Valid (firstn i' src)).
      { replace i' with (i + (i' - i))%nat by lia. rewrite firstn_add.
        apply Valid_app; [exact V | apply Valid_single; apply wf_char_of; exact Hc]. }
      specialize (IH src i' V'). 
      destruct (scan wt fuel src i') as [[i_ i'']|].
      * destruct IH as (H1 & H2 & H3 & H4 & H5); [lia|]. conj; try assumption; lia.
      * intros Hf. apply IH; lia.
    + destruct HS as (Hlt & Hle & Hc). conj; try assumption; lia.
  - apply Nat.ltb_ge in E. intros _. assert (i = length src) by lia. subst i.
    rewrite firstn_all in V. exact V.
Qed.

Lemma scan_valid wt : table_ok wt -> forall fuel src i,
  Valid (skipn i src) -> scan wt fuel src i = None.
Proof.
  intros T. induction fuel as [|fuel IH]; intros src i V; cbn [scan]; [reflexivity|].
  destruct (Nat.ltb i (length src)) eqn:E; [|reflexivity].
  apply Nat.ltb_lt in E.
  assert (Hne : skipn i src <> []).
  { intros H. assert (length (skipn i src) = 0%nat) by (rewrite H; reflexivity). rewrite skipn_length in H0. lia. }
  destruct (Valid_tail_char _ V Hne) as (n & Hn & V' & _).
  pose proof (scan_step_char wt src i T E) as HS.
  destruct (scan_step wt src i) as [i'|i'].
  - destruct HS as (Hlt & Hc). rewrite Hn in Hc. inversion Hc as [Hn'].
    apply IH. replace i' with (i + n)%nat by lia. rewrite skipn_add. exact V'.
  - destruct HS as (_ & _ & Hc). rewrite Hn in Hc. discriminate.
Qed.

(* one chunk: nothing is lost, the valid part is well-formed, progress is made *)
Theorem next_chunk_spec wt src c rest :
  table_ok wt -> next_chunk wt src = Some (c, rest) ->
  ch_valid c ++ ch_broken c ++ rest = src /\ Valid (ch_valid c) /\
  (length rest < length src)%nat /\ (ch_broken c = [] -> rest = []).
Proof.
  intros T. unfold next_chunk. destruct src as [|b0 src0] eqn:Es; [discriminate|]. rewrite <- Es.
  pose proof (scan_spec wt T (S (length src)) src 0 V_nil (Nat.le_0_l _)) as HS.
  destruct (scan wt (S (length src)) src 0) as [[i_ i']|].
  - destruct HS as (_ & H2 & H3 & H4 & _).
    intros H; inversion H; subst c rest; clear H. cbn [ch_valid ch_broken].
    conj.
    + rewrite app_assoc. rewrite <- firstn_add. replace (i_ + (i' - i_))%nat with i' by lia. apply firstn_skipn.
    + exact H4.
    + rewrite skipn_length. lia.
    + intros Hb. exfalso.
      assert (length (firstn (i' - i_) (skipn i_ src)) = 0%nat) by (rewrite Hb; reflexivity).
      rewrite firstn_length, skipn_length in H. lia.
  - intros H; inversion H; subst c rest; clear H. cbn [ch_valid ch_broken].
    conj; [rewrite app_nil_r; reflexivity | apply HS; lia | rewrite Es; cbn [length]; lia | reflexivity].
Qed.

(* identity on well-formed input: a single chunk, nothing broken *)
Theorem next_chunk_valid wt src :
  table_ok wt -> Valid src -> src <> [] -> next_chunk wt src = Some (mkChunkL src [], []).
Proof.
  intros T V Hne. unfold next_chunk. destruct src as [|b0 src0] eqn:Es; [contradiction|]. rewrite <- Es.
  assert (V0 : Valid (skipn 0 src)) by (rewrite Es; exact V).
  rewrite (scan_valid wt T _ src 0 V0). reflexivity.
Qed.

(* from_utf8_lossy_in always produces well-formed UTF-8, and is the identity on
   well-formed input *)
Lemma chunks_valid wt : table_ok wt -> forall fuel src,
  Valid (concat (map (fun c => ch_valid c ++ (match ch_broken c with [] => [] | _ => REPLACEMENT end))
                     (chunks wt fuel src))).
Proof.
  intros T. induction fuel as [|fuel IH]; intros src; cbn [chunks map concat]; [constructor|].
  destruct (next_chunk wt src) as [[c rest]|] eqn:E; cbn [map concat]; [|constructor].
  destruct (next_chunk_spec wt src c rest T E) as (_ & V & _).
  apply Valid_app; [|apply IH].
  apply Valid_app; [exact V|]. destruct (ch_broken c); [constructor | apply replacement_valid].
Qed.

Theorem from_utf8_lossy_valid wt v : table_ok wt -> Valid (from_utf8_lossy wt v).
Proof. intros T. apply chunks_valid. exact T. Qed.

Theorem from_utf8_lossy_id wt v : table_ok wt -> Valid v -> from_utf8_lossy wt v = v.
Proof.
  intros T V. unfold from_utf8_lossy. destruct (list_eq_dec N.eq_dec v []) as [->|Hne]; [reflexivity|].
  cbn [chunks]. rewrite (next_chunk_valid wt v T V Hne).
  cbn [map concat ch_valid ch_broken].
  assert (E : chunks wt (length v) [] = []) by (destruct (length v); reflexivity).
  rewrite E. cbn [map concat]. rewrite !app_nil_r. reflexivity.
Qed.

(* ---------- the boolean validity test decides Valid (from_utf8 accepts exactly these) ---------- *)
Lemma valid_fuel_sound : forall fuel bs, valid_fuel fuel bs = true -> Valid bs.
Proof.
  induction fuel as [|fuel IH]; intros bs H.
  - destruct bs; [constructor | discriminate].
  - destruct bs as [|b r] eqn:E; [constructor|]. rewrite <- E in *. cbn [valid_fuel] in H.
    rewrite E in H at 1. destruct (char_len bs) as [n|] eqn:C; [|discriminate].
    rewrite <- (firstn_skipn n bs). constructor; [apply wf_char_of; exact C | apply IH; exact H].
Qed.

Lemma valid_fuel_complete : forall fuel bs, Valid bs -> (length bs <= fuel)%nat -> valid_fuel fuel bs = true.
Proof.
  induction fuel as [|fuel IH]; intros bs V Hl.
  - destruct bs; [reflexivity | cbn in Hl; lia].
  - destruct V as [|ch rest Hc Hr]; [reflexivity|].
    pose proof (wf_char_nonempty ch Hc) as Hn.
    assert (Hlen := Hl). rewrite app_length in Hlen.
    destruct (ch ++ rest) as [|b r] eqn:E; [reflexivity|]. rewrite <- E. cbn [valid_fuel].
    rewrite E at 1. rewrite (wf_char_head ch rest Hc).
    rewrite skipn_app, skipn_all, Nat.sub_diag. cbn [skipn app].
    apply IH; [exact Hr|]. lia.
Qed.

Theorem valid_utf8_iff bs : valid_utf8 bs = true <-> Valid bs.
Proof.
  unfold valid_utf8. split; [apply valid_fuel_sound | intros V; apply valid_fuel_complete; [exact V | lia]].
Qed.
