(* Utf8Lossy.v — C14: from_utf8_lossy_in computes the repair the Unicode standard (and std)
   prescribes: well-formed characters are copied, every maximal subpart of an ill-formed
   sequence becomes one U+FFFD. *)
From BV Require Import Word Utf8 Utf8Facts.
From Coq Require Import Lia Arith PeanoNat.

(* length of the maximal subpart of the ill-formed sequence at the head of bs (Unicode 3.9,
   "substitution of maximal subparts"): the longest prefix that still begins a well-formed
   character, or one byte *)
Definition msl (bs : list byte) : nat :=
  match bs with
  | [] => 0%nat
  | b0 :: r =>
      if in_range 224 239 b0 then
        match r with
        | b1 :: _ =>
            if (b0 =? 224) && in_range 160 191 b1 || in_range 225 236 b0 && in_range 128 191 b1
               || (b0 =? 237) && in_range 128 159 b1 || in_range 238 239 b0 && in_range 128 191 b1
            then 2%nat else 1%nat
        | [] => 1%nat
        end
      else if in_range 240 244 b0 then
        match r with
        | b1 :: r2 =>
            if (b0 =? 240) && in_range 144 191 b1 || in_range 241 243 b0 && in_range 128 191 b1
               || (b0 =? 244) && in_range 128 143 b1
            then match r2 with b2 :: _ => if is_cont b2 then 3%nat else 2%nat | [] => 2%nat end
            else 1%nat
        | [] => 1%nat
        end
      else 1%nat
  end.

(* the repair, defined without reference to the implementation *)
Fixpoint lossy_spec (fuel : nat) (bs : list byte) : list byte :=
  match fuel with
  | O => []
  | S f =>
      match bs with
      | [] => []
      | _ =>
          match char_len bs with
          | Some n => firstn n bs ++ lossy_spec f (skipn n bs)
          | None => REPLACEMENT ++ lossy_spec f (skipn (msl bs) bs)
          end
      end
  end.
Definition utf8_lossy_spec (bs : list byte) : list byte := lossy_spec (length bs) bs.

Lemma in_range_spec lo hi b : in_range lo hi b = true <-> lo <= b /\ b <= hi.
Proof. unfold in_range. rewrite andb_true_iff, !N.leb_le. tauto. Qed.

(* ---------- the scanner stops exactly at the end of the maximal subpart ---------- *)
Lemma scan_step_err_len wt src i :
  table_ok wt -> (i < length src)%nat ->
  match scan_step wt src i with
  | SNext _ => True
  | SErr i' => (i' - i)%nat = msl (skipn i src)
  end.
Proof.
  intros T Hi. unfold scan_step, safe_get.
  assert (Hl : length (skipn i src) = (length src - i)%nat) by apply skipn_length.
  rewrite <- !(nth_skipn_add src i). replace (nth i src 0) with (nth 0 (skipn i src) 0) by (rewrite nth_skipn_add; f_equal; lia).
  rewrite T. unfold std_width, msl.
  destruct (skipn i src) as [|b0 r] eqn:El; [cbn in Hl; lia|].
  cbn [nth].
  destruct (b0 <? 128) eqn:E0; [exact I|].
  destruct (in_range 194 223 b0) eqn:E2.
  - apply in_range_spec in E2.
    assert (N3 : in_range 224 239 b0 = false) by (destruct (in_range 224 239 b0) eqn:X; [apply in_range_spec in X; lia | reflexivity]).
    assert (N4 : in_range 240 244 b0 = false) by (destruct (in_range 240 244 b0) eqn:X; [apply in_range_spec in X; lia | reflexivity]).
    rewrite N3, N4. change (2 =? 2) with true. cbv iota.
    destruct r as [|b1 r]; cbn [nth].
    + rewrite is_cont_0. lia.
    + destruct (is_cont b1); [exact I | lia].
  - destruct (in_range 224 239 b0) eqn:E3.
    + change (3 =? 2) with false. change (3 =? 3) with true. cbv iota.
      destruct r as [|b1 r]; cbn [nth].
      * assert (Z : ((b0 =? 224) && in_range 160 191 0 || in_range 225 236 b0 && in_range 128 191 0
                      || (b0 =? 237) && in_range 128 159 0 || in_range 238 239 b0 && in_range 128 191 0) = false).
        { unfold in_range. cbn [N.leb]. rewrite !andb_false_r. reflexivity. }
        rewrite Z. lia.
      * destruct ((b0 =? 224) && in_range 160 191 b1 || in_range 225 236 b0 && in_range 128 191 b1
                   || (b0 =? 237) && in_range 128 159 b1 || in_range 238 239 b0 && in_range 128 191 b1) eqn:C12.
        -- destruct r as [|b2 r]; cbn [nth].
           ++ rewrite is_cont_0. lia.
           ++ destruct (is_cont b2); [exact I | lia].
        -- lia.
    + destruct (in_range 240 244 b0) eqn:E4.
      * change (4 =? 2) with false. change (4 =? 3) with false. change (4 =? 4) with true. cbv iota.
        destruct r as [|b1 r]; cbn [nth].
        -- assert (Z : ((b0 =? 240) && in_range 144 191 0 || in_range 241 243 b0 && in_range 128 191 0
                        || (b0 =? 244) && in_range 128 143 0) = false).
           { unfold in_range. cbn [N.leb]. rewrite !andb_false_r. reflexivity. }
           rewrite Z. lia.
        -- destruct ((b0 =? 240) && in_range 144 191 b1 || in_range 241 243 b0 && in_range 128 191 b1
                     || (b0 =? 244) && in_range 128 143 b1) eqn:C12.
           ++ destruct r as [|b2 r]; cbn [nth].
              ** rewrite is_cont_0. lia.
              ** destruct (is_cont b2) eqn:C2.
                 --- destruct r as [|b3 r]; cbn [nth].
                     +++ rewrite is_cont_0. lia.
                     +++ destruct (is_cont b3); [exact I | lia].
                 --- lia.
           ++ lia.
      * change (0 =? 2) with false. change (0 =? 3) with false. change (0 =? 4) with false. cbv iota. lia.
Qed.

Lemma scan_err_len wt : table_ok wt -> forall fuel src i i_ i',
  scan wt fuel src i = Some (i_, i') -> (i' - i_)%nat = msl (skipn i_ src).
Proof.
  intros T. induction fuel as [|fuel IH]; intros src i i_ i' H; cbn [scan] in H; [discriminate|].
  destruct (Nat.ltb i (length src)) eqn:E; [|discriminate]. apply Nat.ltb_lt in E.
  pose proof (scan_step_err_len wt src i T E) as HL.
  destruct (scan_step wt src i) as [j|j].
  - apply (IH src j). exact H.
  - inversion H; subst. exact HL.
Qed.

(* ---------- the specification function ---------- *)
Lemma msl_pos bs : bs <> [] -> (1 <= msl bs)%nat.
Proof.
  destruct bs as [|b0 r]; [contradiction|]. intros _. unfold msl.
  destruct (in_range 224 239 b0).
  - destruct r as [|b1 r]; [lia|]. destruct (_ || _); lia.
  - destruct (in_range 240 244 b0); [|lia].
    destruct r as [|b1 r]; [lia|]. destruct (_ || _); [|lia]. destruct r as [|b2 r]; [lia|]. destruct (is_cont b2); lia.
Qed.

Lemma lossy_spec_fuel : forall f1 f2 bs, (length bs <= f1)%nat -> (length bs <= f2)%nat ->
  lossy_spec f1 bs = lossy_spec f2 bs.
Proof.
  induction f1 as [|f1 IH]; intros f2 bs H1 H2.
  - destruct bs; [|cbn in H1; lia]. destruct f2; reflexivity.
  - destruct f2 as [|f2]; [destruct bs; [reflexivity | cbn in H2; lia]|].
    cbn [lossy_spec]. destruct bs as [|b0 r] eqn:Eb; [reflexivity|]. rewrite <- Eb in *.
    destruct (char_len bs) as [n|] eqn:C.
    + destruct (char_len_spec bs n C) as ((N1 & _) & N2 & _). f_equal.
      apply IH; rewrite skipn_length; lia.
    + assert (P : (1 <= msl bs)%nat) by (apply msl_pos; rewrite Eb; discriminate).
      f_equal. apply IH; rewrite skipn_length; lia.
Qed.

Lemma lossy_spec_S f bs : bs <> [] ->
  lossy_spec (S f) bs = match char_len bs with
                        | Some n => firstn n bs ++ lossy_spec f (skipn n bs)
                        | None => REPLACEMENT ++ lossy_spec f (skipn (msl bs) bs)
                        end.
Proof. destruct bs; [contradiction | reflexivity]. Qed.

Lemma firstn_app_len {A} (l1 l2 : list A) : firstn (length l1) (l1 ++ l2) = l1.
Proof. rewrite firstn_app, Nat.sub_diag, firstn_all. cbn. apply app_nil_r. Qed.
Lemma skipn_app_len {A} (l1 l2 : list A) : skipn (length l1) (l1 ++ l2) = l2.
Proof. rewrite skipn_app, Nat.sub_diag, skipn_all. reflexivity. Qed.

Lemma spec_nil : utf8_lossy_spec [] = [].
Proof. reflexivity. Qed.

Lemma spec_char ch r : wf_char ch -> utf8_lossy_spec (ch ++ r) = ch ++ utf8_lossy_spec r.
Proof.
  intros W. pose proof (wf_char_nonempty ch W) as Hn. unfold utf8_lossy_spec.
  assert (Ne : ch ++ r <> []) by (destruct ch; [cbn in Hn; lia | discriminate]).
  assert (Lp : (1 <= length (ch ++ r))%nat) by (rewrite app_length; lia).
  replace (length (ch ++ r)) with (S (length (ch ++ r) - 1)) by lia.
  rewrite (lossy_spec_S _ _ Ne), (wf_char_head ch r W), firstn_app_len, skipn_app_len. f_equal.
  apply lossy_spec_fuel; rewrite ?app_length; lia.
Qed.

Lemma spec_valid p r : Valid p -> utf8_lossy_spec (p ++ r) = p ++ utf8_lossy_spec r.
Proof.
  induction 1 as [|ch rest W V IH]; [reflexivity|].
  rewrite <- !app_assoc. rewrite (spec_char ch (rest ++ r) W), IH. reflexivity.
Qed.

Lemma spec_err bs : bs <> [] -> char_len bs = None ->
  utf8_lossy_spec bs = REPLACEMENT ++ utf8_lossy_spec (skipn (msl bs) bs).
Proof.
  intros Hn C. unfold utf8_lossy_spec.
  assert (Lp : (1 <= length bs)%nat) by (destruct bs; [contradiction | cbn; lia]).
  replace (length bs) with (S (length bs - 1)) by lia.
  rewrite (lossy_spec_S _ _ Hn), C. f_equal.
  pose proof (msl_pos bs Hn). apply lossy_spec_fuel; rewrite ?skipn_length; lia.
Qed.

(* ---------- the implementation computes the specification ---------- *)
Definition render (c : chunk) : list byte :=
  ch_valid c ++ (match ch_broken c with [] => [] | _ => REPLACEMENT end).

Lemma chunks_spec wt : table_ok wt -> forall fuel src, (length src < fuel)%nat ->
  concat (map render (chunks wt fuel src)) = utf8_lossy_spec src.
Proof.
  intros T. induction fuel as [|fuel IH]; intros src Hf; [lia|].
  cbn [chunks]. unfold next_chunk. destruct src as [|b0 src0] eqn:Es; [reflexivity|]. rewrite <- Es in *.
  pose proof (scan_spec wt T (S (length src)) src 0 V_nil (Nat.le_0_l _)) as HS.
  pose proof (scan_err_len wt T (S (length src)) src 0) as HL.
  destruct (scan wt (S (length src)) src 0) as [[i_ i']|].
  - destruct HS as (_ & H2 & H3 & H4 & H5). specialize (HL i_ i' eq_refl).
    cbn [map concat]. unfold render at 1. cbn [ch_valid ch_broken].
    assert (Hbr : firstn (i' - i_) (skipn i_ src) <> []).
    { intros Hb. assert (L : length (firstn (i' - i_) (skipn i_ src)) = 0%nat) by (rewrite Hb; reflexivity).
      rewrite firstn_length, skipn_length in L. lia. }
    destruct (firstn (i' - i_) (skipn i_ src)) as [|y ys] eqn:EB; [contradiction|].
    rewrite IH by (rewrite skipn_length; lia).
    rewrite <- (firstn_skipn i_ src) at 3. rewrite (spec_valid _ _ H4).
    rewrite <- app_assoc. f_equal.
    assert (Hne : skipn i_ src <> []).
    { intros Z. assert (L : length (skipn i_ src) = 0%nat) by (rewrite Z; reflexivity). rewrite skipn_length in L. lia. }
    rewrite (spec_err _ Hne H5). f_equal. rewrite <- HL. rewrite <- skipn_add.
    replace (i_ + (i' - i_))%nat with i' by lia. reflexivity.
  - cbn [map concat]. unfold render at 1. cbn [ch_valid ch_broken].
    assert (V : Valid src) by (apply HS; lia).
    assert (E0 : chunks wt fuel [] = []) by (destruct fuel; reflexivity).
    rewrite E0. cbn [map concat]. rewrite !app_nil_r.
    rewrite <- (app_nil_r src) at 2. rewrite (spec_valid src [] V), spec_nil, app_nil_r. reflexivity.
Qed.

Theorem from_utf8_lossy_is_spec wt v : table_ok wt -> from_utf8_lossy wt v = utf8_lossy_spec v.
Proof. intros T. unfold from_utf8_lossy. apply (chunks_spec wt T). lia. Qed.
