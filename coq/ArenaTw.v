(* ArenaTw.v — the rewind of a failed initialiser is safe in every history.
   ArenaSafe.gstep_inv covers every operation except OTwEnd false; here the
   bookkeeping invariant of pending reservations (TwsOk) is shown to hold along
   every history and the rewind is shown to preserve Inv.  Together: Inv2 is
   preserved by every operation, with no side condition on the history. *)
From BV Require Import Word WordFacts ArenaModel ArenaFast ArenaSpec ArenaInv ArenaSafe ArenaStruct ArenaRewind ArenaTrans.
From Coq Require Import Lia.

(* what is recorded about a pending reservation, relative to the chunks held:
   either the region [tw_res, tw_top) was carved below the finger of the chunk that was
   current (tw_top is the saved finger), or a chunk was obtained for it and tw_top is the
   footer of that chunk, which is not the footer saved on entry *)
Definition TwOk (k : cfg) (cs : list chunk) (t : tw) : Prop :=
  tw_res t <= tw_top t /\ tw_top t mod k_malign k = 0 /\
  ((tw_top t = tw_ptr t /\
    ((exists c, In c cs /\ c_foot c = tw_foot t /\ c_data c <= tw_res t /\ tw_top t <= c_foot c)
     \/ (tw_foot t = k_eaddr k /\ tw_res t = k_eaddr k /\ tw_top t = k_eaddr k)))
   \/ (exists c, In c cs /\ c_foot c = tw_top t /\ c_foot c <> tw_foot t /\ c_data c <= tw_res t)).

Definition TwsOk (k : cfg) (b : bump) : Prop := Forall (TwOk k (chunks b)) (tws b).

Definition frames_kept (cs cs' : list chunk) : Prop :=
  forall c, In c cs -> exists c', In c' cs' /\ c_data c' = c_data c /\ c_foot c' = c_foot c.

Lemma TwOk_frames k cs cs' t : frames_kept cs cs' -> TwOk k cs t -> TwOk k cs' t.
Proof.
  intros F (H1 & H2 & H3). split; [exact H1|]. split; [exact H2|].
  destruct H3 as [(E & [(c & Hc & A1 & A2 & A3)|S])|(c & Hc & A1 & A2 & A3)].
  - left. split; [exact E|]. left. destruct (F c Hc) as (c' & Hc' & D & Fo).
    exists c'. rewrite D, Fo. auto.
  - left. split; [exact E|]. right. exact S.
  - right. destruct (F c Hc) as (c' & Hc' & D & Fo). exists c'. rewrite D, Fo. auto.
Qed.

Lemma frames_of_held k b b' : incl (held k b) (held k b') -> frames_kept (chunks b) (chunks b').
Proof.
  intros I c Hc. assert (Hg : In (chunk_block k c) (held k b)) by (apply in_map; exact Hc).
  apply I in Hg. unfold held in Hg. apply in_map_iff in Hg. destruct Hg as (c' & E & Hc').
  exists c'. split; [exact Hc'|]. unfold chunk_block in E. injection E as E1 E2 E3.
  split; [exact E1|]. unfold c_foot. lia.
Qed.

(* nothing but reset and drop ever gives a chunk back *)
Lemma step_frames k A b o : A_ok k A b ->
  match o with OReset | ODrop => True | _ => frames_kept (chunks b) (chunks (fst (step k A b o))) end.
Proof.
  intros HA. pose proof (step_frees k A b o (A_ok_sound k A b HA)) as H. cbv zeta in H.
  destruct o; try exact I; destruct H as (_ & [S|(g & data & _ & O)]);
    apply (frames_of_held k); unfold same_blocks in *;
    try (rewrite S; apply incl_refl); try (rewrite O; apply incl_tl, incl_refl).
Qed.

(* ---------- TwsOk along a history ---------- *)
Lemma chunk_block_foot k c : footer_of k (chunk_block k c) = c_foot c.
Proof. unfold footer_of, chunk_block, g_addr, g_sz, c_foot. cbn [fst snd]. f_equal. lia. Qed.

Lemma tws_step k A b o :
  match o with
  | OTwBegin _ | OTwEnd _ | ODrop | OReset => True
  | _ => tws (fst (step k A b o)) = tws b
  end.
Proof.
  destruct o; cbn [step]; try exact I.
  - unfold with_capacity. destruct (chunks b); cbn [fst]; try reflexivity.
    destruct (cap =? 0); cbn [fst]; try reflexivity.
    destruct (layout_ok _ _); cbn [fst]; try reflexivity.
    destruct (A b (ForCapacity cap)) as [a reqs]. destruct a; reflexivity.
  - apply try_alloc_tws.
  - unfold dealloc. destruct (_ =? _); cbn [fst]; [apply set_ptr_fields | reflexivity].
  - assert (G : tws (fst (grow k A b p old new)) = tws b).
    { unfold grow. destruct (round_up_to _ _); cbn [fst]; [|reflexivity].
      destruct (_ && _).
      - destruct (layout_ok _ _); cbn [fst]; [|reflexivity].
        destruct (fast k b _) as [[q b1]|] eqn:E; cbn [fst].
        + unfold fast in E. destruct (fast_ptr _ _ _ _); [|discriminate]. inversion E; subst. apply set_ptr_fields.
        + rewrite after_alloc_copy_fst. apply try_alloc_tws.
      - rewrite after_alloc_copy_fst. apply try_alloc_tws. }
    destruct zeroed; [rewrite grow_zeroed_fst|]; exact G.
  - unfold shrink. destruct (l_align old <? l_align new).
    + destruct (p mod l_align new =? 0); cbn [fst]; [reflexivity|].
      rewrite after_alloc_copy_fst. apply try_alloc_tws.
    + destruct (_ && _); cbn [fst]; [apply set_ptr_fields | reflexivity].
  - unfold realloc. destruct (l_size l =? 0); [apply try_alloc_tws|].
    destruct (layout_ok _ _); cbn [fst]; [|reflexivity].
    destruct (n <=? l_size l).
    + unfold shrink. destruct (l_align l <? l_align (mkLayout n (l_align l))).
      * destruct (p mod _ =? 0); cbn [fst]; [reflexivity|].
        rewrite after_alloc_copy_fst. apply try_alloc_tws.
      * destruct (_ && _); cbn [fst]; [apply set_ptr_fields | reflexivity].
    + unfold grow. destruct (round_up_to _ _); cbn [fst]; [|reflexivity].
      destruct (_ && _).
      * destruct (layout_ok _ _); cbn [fst]; [|reflexivity].
        destruct (fast k b _) as [[q b1]|] eqn:E; cbn [fst].
        -- unfold fast in E. destruct (fast_ptr _ _ _ _); [|discriminate]. inversion E; subst. apply set_ptr_fields.
        -- rewrite after_alloc_copy_fst. apply try_alloc_tws.
      * rewrite after_alloc_copy_fst. apply try_alloc_tws.
  - reflexivity.
Qed.

(* the record pushed by tw_begin describes the chunks as they are afterwards *)
Lemma tw_begin_twok k A b l p :
  cfg_ok k -> ChunksInv k (chunks b) -> A_ok k A b -> pow2 (l_align l) ->
  o_res (snd (tw_begin k A b l)) = ROk p ->
  exists t, tws (fst (tw_begin k A b l)) = t :: tws b /\
            TwOk k (chunks (fst (tw_begin k A b l))) t.
Proof.
  intros K HC HA Pa. unfold tw_begin, try_alloc.
  destruct (fast k b l) as [[q b1]|] eqn:F; cbn [fst snd o_res].
  - intros Hp. inversion Hp; subst q. cbn [push_tw tws chunks fst].
    destruct (fast_facts k b l p b1 K HC Pa F) as (_ & Am & P0 & T & _ & Hm).
    eexists. split; [rewrite T; reflexivity|].
    rewrite (cur_foot_fast k b l p b1 F), N.eqb_refl.
    unfold TwOk. cbn [tw_res tw_top tw_ptr tw_foot].
    unfold cur_ptr, cur_foot. destruct (chunks b) as [|c r] eqn:EC.
    + destruct Hm as (Ec & -> & Z). split; [lia|]. split; [apply (ko_e k K)|].
      left. split; [reflexivity|]. right. auto.
    + destruct Hm as (Ec & M1 & M2).
      destruct HC as (Hok & _). inversion Hok as [|? ? Hc _]; subst.
      destruct Hc as (_ & _ & _ & C4 & C5 & C6 & _).
      split; [lia|]. split; [exact C6|].
      left. split; [reflexivity|]. left. exists (with_ptr c p). rewrite Ec.
      split; [left; reflexivity|]. unfold with_ptr, c_foot; cbn [c_data c_nswf]. unfold c_foot in C5. repeat split; lia.
  - unfold slow. destruct (A b (ForLayout l)) as [a reqs] eqn:EA.
    destruct a as [|w|g data]; cbn [fst snd o_res]; try (intros Hp; discriminate Hp).
    assert (Hf : fresh_chunk_ok k b g data) by (apply (HA (ForLayout l)); rewrite EA; reflexivity).
    destruct (new_chunk_inv k b g data K HC Hf) as (C1 & Ptop & Efoot).
    set (nc := new_chunk k b g data) in *. set (b1 := push_chunk b nc).
    destruct (fast k b1 l) as [[q b2]|] eqn:F2; cbn [fst snd o_res]; [|intros Hp; discriminate Hp].
    intros Hp. inversion Hp; subst q. cbn [push_tw tws chunks fst].
    destruct (fast_facts k b1 l p b2 K C1 Pa F2) as (_ & Am & P0 & T & _ & Hm).
    unfold b1 in Hm. cbn [push_chunk chunks] in Hm. destruct Hm as (Ec & M1 & M2).
    eexists. split; [rewrite T; reflexivity|].
    assert (Efb2 : cur_foot k b2 = c_foot nc) by (rewrite (cur_foot_fast k b1 l p b2 F2); reflexivity).
    assert (Ne : c_foot nc <> cur_foot k b).
    { destruct Hf as (Hsafe & D0 & Da & Dw & Dd & Ds).
      unfold req_safe in Hsafe. rewrite !andb_true_iff in Hsafe. destruct Hsafe as [[[_ L2'] _] _].
      apply N.leb_le in L2'. pose proof (ko_f k K) as Fp. rewrite Efoot.
      unfold cur_foot. destruct (chunks b) as [|c0 r0] eqn:EC.
      - unfold rng_disj in Ds. lia.
      - inversion Dd as [|? ? D1 _]; subst. destruct HC as (Hok & _).
        inversion Hok as [|? ? Hc0 _]; subst. destruct Hc0 as (_ & _ & _ & X4 & X5 & _).
        unfold rng_disj, c_end in D1. lia. }
    rewrite Efb2. apply N.eqb_neq in Ne. rewrite Ne. apply N.eqb_neq in Ne.
    unfold TwOk. cbn [tw_res tw_top tw_ptr tw_foot].
    destruct C1 as (Hok1 & _). inversion Hok1 as [|? ? Hnc _]; subst.
    split; [lia|]. split; [apply (chunk_foot_aligned k nc K Hnc)|].
    right. exists (with_ptr nc p). rewrite Ec. split; [left; reflexivity|].
    unfold with_ptr, c_foot in *; cbn [c_data c_nswf] in *. repeat split; try lia.
Qed.

Theorem gstep_twsok k A g o :
  cfg_ok k -> Inv k g -> wf_op k g o -> A_ok k A (fst g) -> TwsOk k (fst g) ->
  TwsOk k (fst (fst (gstep k A g o))).
Proof.
  intros K [HC HB] Hwf HA HT. destruct g as [b live]. unfold gstep, TwsOk in *. cbn [fst snd] in *.
  pose proof (step_frames k A b o HA) as HF. pose proof (tws_step k A b o) as HW.
  assert (Keep : forall b', frames_kept (chunks b) (chunks b') -> tws b' = tws b ->
                            Forall (TwOk k (chunks b')) (tws b')).
  { intros b' F E. rewrite E. eapply Forall_impl; [|exact HT]. intros t. apply TwOk_frames. exact F. }
  destruct o; try (apply Keep; assumption).
  - (* reset: no initialiser is running *)
    cbn [wf_op fst snd] in Hwf. cbn [step]. unfold reset. destruct (chunks b); cbn [fst tws]; [rewrite Hwf|]; constructor.
  - (* tw_begin *)
    cbn [step] in *. cbn [wf_op fst snd] in Hwf. pose proof (lay_ok_pow2 l Hwf) as Pa.
    destruct (o_res (snd (tw_begin k A b l))) as [p| | |w] eqn:ER.
    + destruct (tw_begin_twok k A b l p K HC HA Pa ER) as (t & Et & Ht). rewrite Et.
      constructor; [exact Ht|]. eapply Forall_impl; [|exact HT]. intros t'. apply TwOk_frames. exact HF.
    + assert (E : tws (fst (tw_begin k A b l)) = tws b).
      { apply no_slot_no_pending. intros q Hq. rewrite ER in Hq. discriminate. }
      apply Keep; assumption.
    + assert (E : tws (fst (tw_begin k A b l)) = tws b).
      { apply no_slot_no_pending. intros q Hq. rewrite ER in Hq. discriminate. }
      apply Keep; assumption.
    + assert (E : tws (fst (tw_begin k A b l)) = tws b).
      { apply no_slot_no_pending. intros q Hq. rewrite ER in Hq. discriminate. }
      apply Keep; assumption.
  - (* tw_end: the record is popped *)
    cbn [step] in *. unfold tw_end in *.
    destruct (tws b) as [|t ts] eqn:ET; cbn [fst] in *; [rewrite ET; constructor|].
    inversion HT as [|? ? _ HTs]; subst.
    assert (Tail : forall b', frames_kept (chunks b) (chunks b') -> tws b' = ts -> Forall (TwOk k (chunks b')) (tws b')).
    { intros b' F E. rewrite E. eapply Forall_impl; [|exact HTs]. intros t'. apply TwOk_frames. exact F. }
    destruct ok; cbn [fst] in *; [apply Tail; [exact HF | reflexivity]|].
    destruct (cur_ptr k (set_tws b ts) =? tw_res t); cbn [fst] in *; [|apply Tail; [exact HF | reflexivity]].
    destruct (cur_foot k (set_tws b ts) =? tw_foot t); cbn [fst] in *;
      (apply Tail; [exact HF|]; destruct (set_ptr_fields (set_tws b ts) (tw_ptr t)) as [T1 _];
       destruct (set_ptr_fields (set_tws b ts) (rdown (cur_foot k (set_tws b ts)) (k_malign k))) as [T2 _];
       first [exact T1 | exact T2]).
  - (* drop *)
    cbn [step drop_arena fst tws]. constructor.
Qed.

(* ---------- the rewind itself ---------- *)
(* two different chunks of a well-formed list share no address, footers included *)
Lemma chunks_no_common_point k c r c' x :
  cfg_ok k -> ChunksInv k (c :: r) -> In c' r ->
  c_data c <= x -> x <= c_foot c -> c_data c' <= x -> x <= c_foot c' -> False.
Proof.
  intros K (Hok & _ & Hpw) Hin A1 A2 B1 B2. cbn [pairwise] in Hpw. destruct Hpw as [Hd _].
  rewrite Forall_forall in Hd. specialize (Hd c' Hin).
  pose proof (ko_f k K). unfold chunk_disj, rng_disj, c_end in Hd. lia.
Qed.

Lemma in_chunks_frame c c0 r : In c (c0 :: r) -> c_foot c <> c_foot c0 -> In c r.
Proof. intros [<-|H] N; [contradiction | exact H]. Qed.

(* raising the finger of the current chunk over the region of the reservation being undone *)
Lemma rewind_up k c r live t ts f :
  cfg_ok k -> ChunksInv k (c :: r) ->
  BlocksInv k (c :: r) (live ++ region t :: map region ts) ->
  c_ptr c = tw_res t -> f = tw_top t -> tw_res t <= tw_top t -> tw_top t <= c_foot c ->
  tw_top t mod k_malign k = 0 ->
  ChunksInv k (with_ptr c f :: r) /\ BlocksInv k (with_ptr c f :: r) (live ++ map region ts).
Proof.
  intros K HC HB Ep -> L1 L2 Al.
  apply BlocksInv_move_in in HB. destruct HB as [HP HD].
  inversion HP as [|? ? _ HPr]; subst. cbn [pairwise] in HD. destruct HD as [Dt Dr].
  apply move_up; try assumption; try lia; [split; assumption|].
  intros x Hx NZ [X1 X2]. rewrite Forall_forall in Dt. specialize (Dt x Hx).
  unfold bdisj, region in Dt. cbn [fst snd] in Dt. lia.
Qed.

Theorem rewind_inv k A b live :
  cfg_ok k -> Inv k (b, live) -> TwsOk k b ->
  Inv k (fst (gstep k A (b, live) (OTwEnd false))).
Proof.
  intros K [HC HB] HT. unfold Inv, gstep, blocks, slots in *. cbn [fst snd step live_step] in *.
  unfold tw_end. destruct (tws b) as [|t ts] eqn:ET; cbn [fst snd o_res]; [rewrite ET; split; assumption|].
  unfold TwsOk in HT. rewrite ET in HT. inversion HT as [|? ? Ht _]; subst. cbn [map] in HB.
  assert (NoRewind : ChunksInv k (chunks (set_tws b ts)) /\
                     BlocksInv k (chunks (set_tws b ts)) (live ++ map region (tws (set_tws b ts)))).
  { cbn [set_tws chunks tws]. split; [exact HC|].
    apply BlocksInv_move_in in HB. destruct HB as [HP HD]. inversion HP; subst. cbn [pairwise] in HD.
    split; tauto. }
  destruct (cur_ptr k (set_tws b ts) =? tw_res t) eqn:E1; cbn [fst snd o_res]; [|exact NoRewind].
  apply N.eqb_eq in E1. unfold cur_ptr, cur_foot in *. cbn [set_tws chunks] in *.
  destruct (chunks b) as [|c r] eqn:EC.
  { (* nothing is held: the finger is the static's, set_ptr changes nothing *)
    assert (Same : forall f, set_ptr (set_tws b ts) f = set_tws b ts).
    { intros f. unfold set_ptr, set_tws. cbn [chunks]. rewrite EC. reflexivity. }
    destruct (_ =? tw_foot t); cbn [fst]; rewrite Same; cbn [set_tws chunks tws]; rewrite EC; exact NoRewind. }
  assert (HC0 := HC). destruct HC0 as (Hok & Hst & _).
  inversion Hok as [|? ? Hc _]; subst. inversion Hst as [|? ? Hs _]; subst.
  pose proof (chunk_foot_aligned k c K Hc) as Fa.
  assert (Hc' := Hc). destruct Hc' as (C1 & _ & _ & C4 & C5 & C6 & _).
  pose proof (ko_f k K) as Fp.
  destruct Ht as (L1 & Al & Kind).
  assert (Shape : forall f, chunks (set_ptr (set_tws b ts) f) = with_ptr c f :: r /\ tws (set_ptr (set_tws b ts) f) = ts).
  { intros f. unfold set_ptr, set_tws. cbn [chunks]. rewrite EC. cbn [chunks tws]. split; reflexivity. }
  destruct (c_foot c =? tw_foot t) eqn:E2; cbn [fst].
  - (* same footer as on entry: back to the saved finger *)
    apply N.eqb_eq in E2. destruct (Shape (tw_ptr t)) as [-> ->].
    destruct Kind as [(Et & [(c' & Hc'in & F1 & F2 & F3)|(S1 & S2 & S3)])|(c' & Hc'in & F1 & F2 & F3)].
    + (* the region was carved from this chunk *)
      apply (rewind_up k c r live t ts (tw_ptr t) K HC HB E1); try assumption; [symmetry; exact Et | lia].
    + (* the saved footer is the static's: impossible, a chunk is current *)
      exfalso. unfold chunk_off_static, rng_disj, c_end in Hs. lia.
    + (* the region lies in a chunk obtained for it, whose footer differs: impossible *)
      exfalso. assert (Hin : In c' r) by (apply (in_chunks_frame c' c r Hc'in); lia).
      apply (chunks_no_common_point k c r c' (tw_res t) K HC Hin); lia.
  - (* another footer: the chunk was obtained for the slot; back to its top *)
    apply N.eqb_neq in E2.
    assert (Er : rdown (c_foot c) (k_malign k) = c_foot c) by (apply rdown_id; [apply (cfg_m_nz k K) | exact Fa]).
    rewrite Er. destruct (Shape (c_foot c)) as [-> ->].
    destruct Kind as [(Et & [(c' & Hc'in & F1 & F2 & F3)|(S1 & S2 & S3)])|(c' & Hc'in & F1 & F2 & F3)].
    + exfalso. assert (Hin : In c' r) by (apply (in_chunks_frame c' c r Hc'in); lia).
      apply (chunks_no_common_point k c r c' (tw_res t) K HC Hin); lia.
    + exfalso. unfold chunk_off_static, rng_disj, c_end in Hs. lia.
    + destruct Hc'in as [<-|Hin].
      * apply (rewind_up k c r live t ts (c_foot c) K HC HB E1); try assumption; try lia.
      * exfalso. apply (chunks_no_common_point k c r c' (tw_res t) K HC Hin); lia.
Qed.

(* ---------- every operation, every history ---------- *)
Definition Inv2 (k : cfg) (g : gstate) : Prop := Inv k g /\ TwsOk k (fst g).

Theorem gstep_inv2 k A g o :
  cfg_ok k -> Inv2 k g -> wf_op k g o -> A_ok k A (fst g) -> Inv2 k (fst (gstep k A g o)).
Proof.
  intros K [HI HT] Hwf HA. split; [|apply gstep_twsok; assumption].
  destruct o; try (apply gstep_inv; try assumption; exact I).
  destruct ok; [apply gstep_inv; try assumption; exact I|].
  destruct g as [b live]. apply rewind_inv; assumption.
Qed.

Lemma Inv2_fresh k : Inv2 k (fresh, []).
Proof.
  split; [|constructor].
  split; cbn; [split; [constructor | split; [constructor | exact I]] | split; [constructor | exact I]].
Qed.

(* a history: each operation with the acquirer that served it; the only side conditions are
   the caller's obligations (wf_op) and the allocator contract (A_ok) *)
Fixpoint hist_wf (k : cfg) (g : gstate) (h : list (op * acquirer)) : Prop :=
  match h with
  | [] => True
  | (o, A) :: r => wf_op k g o /\ A_ok k A (fst g) /\ hist_wf k (fst (gstep k A g o)) r
  end.

Fixpoint grun2 (k : cfg) (g : gstate) (h : list (op * acquirer)) : gstate :=
  match h with
  | [] => g
  | (o, A) :: r => grun2 k (fst (gstep k A g o)) r
  end.

Theorem grun2_inv k g h : cfg_ok k -> Inv2 k g -> hist_wf k g h -> Inv2 k (grun2 k g h).
Proof.
  intros K. revert g. induction h as [|[o A] r IH]; intros g HI HH; cbn [grun2]; [exact HI|].
  destruct HH as (Hwf & HA & HH). apply IH; [|exact HH]. apply gstep_inv2; assumption.
Qed.
