(* FillWalkOk.v — the loops of Bump::alloc_slice_fill_with and Bump::try_alloc_slice_fill_with as
   /repo's source has them (LeafActual.src_procs, "slice_fill_with_loop" / "try_slice_fill_with_loop":
   the `for i in 0..len` statements translated by tools/rs2v.py on every run).  Every other slice
   initialiser of the arena (fill_copy, fill_clone, fill_default, fill_iter and their try_ twins) is a
   one-line wrapper around one of the two (pinned as text in LeafActual.src_frames).
   For every length and every script of returning / panicking closures the translated loop calls the
   closure with 0, 1, 2, ... in that order, once per index, writes each result to dst + i before the
   next call, and a panic of the closure at index k stops it there: k elements written, nothing else
   touched. *)
From BV Require Import Word WordFacts VecModel RustSem LeafActual DedupWalkOk TruncWalkOk.
From Coq Require Import String List Lia Arith ZifyBool ZifyN ZifyNat.
Import ListNotations.
Open Scope string_scope.
Open Scope N_scope.

Definition floop : list stmt :=
  match lookup "slice_fill_with_loop" src_procs with Some p => proc_body p | None => [] end.
Definition tfloop : list stmt :=
  match lookup "try_slice_fill_with_loop" src_procs with Some p => proc_body p | None => [] end.

Definition fcount : expr := EMeth1 (EVar "len") "saturating_sub" (ELit 0).
Definition fbody : list stmt :=
  [SDoMay "f" [EVar "i"];
   SDo "write" [EMeth1 (EMeth0 (EVar "dst") "as_ptr") "add" (EVar "i")];
   SSet "i" (EBin BAdd (EVar "i") (ELit 1))].

(* both procedures parsed from the source are this loop *)
Lemma floop_is : floop = [SLet "i" (ELit 0); SRepeat fcount fbody] /\ tfloop = floop.
Proof. split; reflexivity. Qed.

Definition fenv0 (len dst : N) : env := [("len", VN len); ("dst", VN dst)].
Definition fenv (len dst i : N) : env := [("len", VN len); ("dst", VN dst); ("i", VN i)].
Definition e_ask (i : N) : effect := ("f", [VN i]).
Definition e_write (a : N) : effect := ("write", [VN a]).

(* one round *)
Lemma fround_ok len dst i tr b sc f : dst + i < W -> i + 1 < W ->
  exec src_fns (S (S (S (S f)))) (fenv len dst i) tr (Some b :: sc) fbody
  = XOk (fenv len dst (i + 1)) (List.app (List.app tr [e_ask i]) [e_write (dst + i)]) sc.
Proof.
  intros H1 H2. apply N.ltb_lt in H1. apply N.ltb_lt in H2. unfold fbody, e_ask, e_write.
  rewrite exec_domay.
  replace (eval_args src_fns (fenv len dst i) [EVar "i"]) with (Some [VN i]) by reflexivity.
  rewrite exec_do.
  replace (eval_args src_fns (fenv len dst i) [EMeth1 (EMeth0 (EVar "dst") "as_ptr") "add" (EVar "i")])
    with (Some [VN (dst + i)])
    by (cbv beta iota zeta delta [eval_args eval FUEL_SEM fenv lookup bind meth0 meth1 String.eqb Ascii.eqb Bool.eqb];
        rewrite H1; reflexivity).
  rewrite exec_set.
  replace (eval src_fns FUEL_SEM (fenv len dst i) (EBin BAdd (EVar "i") (ELit 1))) with (Ret (VN (i + 1)))
    by (cbv beta iota zeta delta [eval FUEL_SEM fenv lookup bind arith String.eqb Ascii.eqb Bool.eqb];
        rewrite H2; reflexivity).
  replace (upd "i" (VN (i + 1)) (fenv len dst i)) with (fenv len dst (i + 1)) by reflexivity.
  rewrite exec_nil. reflexivity.
Qed.

Lemma fround_boom len dst i tr sc f :
  exec src_fns (S (S (S (S f)))) (fenv len dst i) tr (None :: sc) fbody
  = XPanic (fenv len dst i) (List.app tr [e_ask i]).
Proof.
  unfold fbody, e_ask. rewrite exec_domay.
  replace (eval_args src_fns (fenv len dst i) [EVar "i"]) with (Some [VN i]) by reflexivity.
  reflexivity.
Qed.

(* what the loop does, as a function: rounds still to go, index, script -> effects, index after, panicked *)
Fixpoint frun (dst : N) (j : nat) (i : N) (sc : list (option bool)) : list effect * N * bool :=
  match j with
  | O => ([], i, false)
  | S j' =>
      match sc with
      | [] => ([], i, false)
      | None :: _ => ([e_ask i], i, true)
      | Some _ :: r => let '(t, q, b) := frun dst j' (i + 1) r in (e_ask i :: e_write (dst + i) :: t, q, b)
      end
  end.

Theorem rounds_are_frun : forall j len dst i tr sc f,
  dst + i + N.of_nat j < W -> (j <= List.length sc)%nat ->
  let '(t, q, b) := frun dst j i sc in
  repf src_fns (S (S (S (S f)))) fbody [] j (fenv len dst i) tr sc =
  if b then XPanic (fenv len dst q) (List.app tr t) else XOk (fenv len dst q) (List.app tr t) (skipn j sc).
Proof.
  induction j as [|j IH]; intros len dst i tr sc f Hw Hs.
  - cbn [frun repf skipn]. rewrite exec_nil, app_nil_r. reflexivity.
  - destruct sc as [|[b|] sc]; [cbn in Hs; lia| |]; cbn [List.length] in Hs; cbn [frun repf].
    + rewrite fround_ok by lia.
      specialize (IH len dst (i + 1) (List.app (List.app tr [e_ask i]) [e_write (dst + i)]) sc f ltac:(lia) ltac:(lia)).
      destruct (frun dst j (i + 1) sc) as [[t q] bb]. rewrite IH.
      rewrite <- !app_assoc. cbn [List.app skipn]. reflexivity.
    + rewrite fround_boom. reflexivity.
Qed.

Theorem loop_is_frun len dst tr sc f : dst + len < W ->
  (N.to_nat len <= List.length sc)%nat ->
  let '(t, q, b) := frun dst (N.to_nat len) 0 sc in
  exec src_fns (S (S (S (S (S (S f)))))) (fenv0 len dst) tr sc floop =
  if b then XPanic (fenv len dst q) (List.app tr t)
  else XOk (fenv len dst q) (List.app tr t) (skipn (N.to_nat len) sc).
Proof.
  intros H1 H2. destruct floop_is as [E _]. rewrite E. rewrite exec_let.
  replace (eval src_fns FUEL_SEM (fenv0 len dst) (ELit 0)) with (Ret (VN 0)) by reflexivity.
  replace (upd "i" (VN 0) (fenv0 len dst)) with (fenv len dst 0) by reflexivity.
  rewrite exec_repeat.
  replace (eval src_fns FUEL_SEM (fenv len dst 0) fcount) with (Ret (VN len)).
  2:{ unfold fcount. cbv beta iota zeta delta [eval FUEL_SEM fenv lookup bind meth1 String.eqb Ascii.eqb Bool.eqb].
      rewrite N.sub_0_r. reflexivity. }
  apply rounds_are_frun; lia.
Qed.

(* ---------- closed forms ---------- *)
(* the calls and stores for indices i, i+1, .., i+j-1 *)
Fixpoint filled (dst : N) (j : nat) (i : N) : list effect :=
  match j with O => [] | S j' => e_ask i :: e_write (dst + i) :: filled dst j' (i + 1) end.

Definition returns (o : option bool) : bool := match o with Some _ => true | None => false end.

(* no closure call panics: every index asked once, in order, each result stored before the next call *)
Theorem frun_all_return : forall j dst i sc,
  (j <= List.length sc)%nat -> forallb returns (firstn j sc) = true ->
  frun dst j i sc = (filled dst j i, i + N.of_nat j, false).
Proof.
  induction j as [|j IH]; intros dst i sc Hs Hr.
  - cbn [frun filled]. f_equal. f_equal. lia.
  - destruct sc as [|[b|] sc]; [cbn in Hs; lia| |cbn in Hr; discriminate].
    cbn [firstn forallb returns andb List.length] in Hr, Hs. cbn [frun filled].
    rewrite (IH dst (i + 1) sc) by (lia || exact Hr). f_equal. f_equal. lia.
Qed.

(* the closure panics at its (k+1)-th call: indices 0..k-1 were asked and stored, index k was asked,
   nothing was stored for it, and nothing further happens *)
Theorem frun_panics_at : forall k j dst i sc,
  (k < j)%nat -> forallb returns (firstn k sc) = true -> nth k sc (Some true) = None ->
  frun dst j i sc = (List.app (filled dst k i) [e_ask (i + N.of_nat k)], i + N.of_nat k, true).
Proof.
  induction k as [|k IH]; intros j dst i sc Hk Hr Hn.
  - destruct j as [|j]; [lia|]. destruct sc as [|[b|] sc]; cbn in Hn; try discriminate.
    cbn [frun filled List.app]. rewrite N.add_0_r. reflexivity.
  - destruct j as [|j]; [lia|]. destruct sc as [|[b|] sc]; cbn in Hn; try discriminate.
    cbn [firstn forallb returns andb] in Hr. cbn [frun filled].
    rewrite (IH j dst (i + 1) sc) by (lia || assumption).
    cbn [List.app]. replace (i + 1 + N.of_nat k) with (i + N.of_nat (S k)) by lia. reflexivity.
Qed.

Lemma filled_asks dst j i :
  map (fun e : effect => snd e) (filter (fun e : effect => String.eqb (fst e) "f") (filled dst j i))
  = map (fun k => [VN (i + N.of_nat k)]) (seq 0 j).
Proof.
  revert i. induction j as [|j IH]; intros i; [reflexivity|].
  cbn [filled filter e_ask e_write fst snd String.eqb Ascii.eqb Bool.eqb map seq].
  rewrite IH. rewrite <- seq_shift, map_map. f_equal; [f_equal; f_equal; lia|].
  apply map_ext. intros k. f_equal. f_equal. lia.
Qed.

Lemma filled_writes dst j i :
  map (fun e : effect => snd e) (filter (fun e : effect => String.eqb (fst e) "write") (filled dst j i))
  = map (fun k => [VN (dst + (i + N.of_nat k))]) (seq 0 j).
Proof.
  revert i. induction j as [|j IH]; intros i; [reflexivity|].
  cbn [filled filter e_ask e_write fst snd String.eqb Ascii.eqb Bool.eqb map seq].
  rewrite IH. rewrite <- seq_shift, map_map. f_equal; [f_equal; f_equal; lia|].
  apply map_ext. intros k. f_equal. f_equal. lia.
Qed.

(* ---------- alloc_slice_try_fill_with: the closure answers Ok (Some true) or Err (Some false) ----------
   On Err the whole block is handed back (dealloc(base_ptr, layout)) and the function returns at once:
   the closure is not called again, nothing more is written. *)
Definition tryloop : list stmt :=
  match lookup "slice_try_fill_with_loop" src_procs with Some p => proc_body p | None => [] end.

Definition trybody : list stmt :=
  [SIfAsk false "f" [EVar "i"]
     [SDo "write" [EMeth1 (EMeth0 (EVar "dst") "as_ptr") "add" (EVar "i")]]
     [SDo "dealloc" [EVar "base_ptr"; EVar "layout"]; SReturn];
   SSet "i" (EBin BAdd (EVar "i") (ELit 1))].

Lemma tryloop_is : tryloop = [SLet "i" (ELit 0); SRepeat fcount trybody].
Proof. reflexivity. Qed.

Definition tyenv0 (len dst bp : N) (lay : val) : env :=
  [("len", VN len); ("dst", VN dst); ("base_ptr", VN bp); ("layout", lay)].
Definition tyenv (len dst bp : N) (lay : val) (i : N) : env :=
  [("len", VN len); ("dst", VN dst); ("base_ptr", VN bp); ("layout", lay); ("i", VN i)].
Definition e_dealloc (bp : N) (lay : val) : effect := ("dealloc", [VN bp; lay]).

Inductive fend := FDone | FPanic | FErr.

Lemma tyround_ok len dst bp lay i tr sc f : dst + i < W -> i + 1 < W ->
  exec src_fns (S (S (S (S f)))) (tyenv len dst bp lay i) tr (Some true :: sc) trybody
  = XOk (tyenv len dst bp lay (i + 1)) (List.app (List.app tr [e_ask i]) [e_write (dst + i)]) sc.
Proof.
  intros H1 H2. apply N.ltb_lt in H1. apply N.ltb_lt in H2. unfold trybody, e_ask, e_write.
  rewrite exec_ifask.
  replace (eval_args src_fns (tyenv len dst bp lay i) [EVar "i"]) with (Some [VN i]) by reflexivity.
  cbn [xorb]. rewrite exec_do.
  replace (eval_args src_fns (tyenv len dst bp lay i) [EMeth1 (EMeth0 (EVar "dst") "as_ptr") "add" (EVar "i")])
    with (Some [VN (dst + i)])
    by (cbv beta iota zeta delta [eval_args eval FUEL_SEM tyenv lookup bind meth0 meth1 String.eqb Ascii.eqb Bool.eqb];
        rewrite H1; reflexivity).
  rewrite exec_nil. rewrite exec_set.
  replace (eval src_fns FUEL_SEM (tyenv len dst bp lay i) (EBin BAdd (EVar "i") (ELit 1))) with (Ret (VN (i + 1)))
    by (cbv beta iota zeta delta [eval FUEL_SEM tyenv lookup bind arith String.eqb Ascii.eqb Bool.eqb];
        rewrite H2; reflexivity).
  replace (upd "i" (VN (i + 1)) (tyenv len dst bp lay i)) with (tyenv len dst bp lay (i + 1)) by reflexivity.
  rewrite exec_nil. reflexivity.
Qed.

Lemma tyround_err len dst bp lay i tr sc f :
  exec src_fns (S (S (S (S f)))) (tyenv len dst bp lay i) tr (Some false :: sc) trybody
  = XRet (tyenv len dst bp lay i) (List.app (List.app tr [e_ask i]) [e_dealloc bp lay]) sc.
Proof.
  unfold trybody, e_ask, e_dealloc. rewrite exec_ifask.
  replace (eval_args src_fns (tyenv len dst bp lay i) [EVar "i"]) with (Some [VN i]) by reflexivity.
  cbn [xorb]. rewrite exec_do.
  replace (eval_args src_fns (tyenv len dst bp lay i) [EVar "base_ptr"; EVar "layout"]) with (Some [VN bp; lay]) by reflexivity.
  reflexivity.
Qed.

Lemma tyround_boom len dst bp lay i tr sc f :
  exec src_fns (S (S (S (S f)))) (tyenv len dst bp lay i) tr (None :: sc) trybody
  = XPanic (tyenv len dst bp lay i) (List.app tr [e_ask i]).
Proof.
  unfold trybody, e_ask. rewrite exec_ifask.
  replace (eval_args src_fns (tyenv len dst bp lay i) [EVar "i"]) with (Some [VN i]) by reflexivity.
  reflexivity.
Qed.

(* rounds still to go, index, script -> effects, index after, how it ended, script left *)
Fixpoint tyrun (dst bp : N) (lay : val) (j : nat) (i : N) (sc : list (option bool))
  : list effect * N * fend * list (option bool) :=
  match j with
  | O => ([], i, FDone, sc)
  | S j' =>
      match sc with
      | [] => ([], i, FDone, sc)
      | None :: r => ([e_ask i], i, FPanic, r)
      | Some false :: r => ([e_ask i; e_dealloc bp lay], i, FErr, r)
      | Some true :: r =>
          let '(t, q, b, rest) := tyrun dst bp lay j' (i + 1) r in (e_ask i :: e_write (dst + i) :: t, q, b, rest)
      end
  end.

Theorem rounds_are_tyrun : forall j len dst bp lay i tr sc f,
  dst + i + N.of_nat j < W -> (j <= List.length sc)%nat ->
  let '(t, q, b, rest) := tyrun dst bp lay j i sc in
  repf src_fns (S (S (S (S f)))) trybody [] j (tyenv len dst bp lay i) tr sc =
  match b with
  | FDone => XOk (tyenv len dst bp lay q) (List.app tr t) rest
  | FPanic => XPanic (tyenv len dst bp lay q) (List.app tr t)
  | FErr => XRet (tyenv len dst bp lay q) (List.app tr t) rest
  end.
Proof.
  induction j as [|j IH]; intros len dst bp lay i tr sc f Hw Hs.
  - cbn [tyrun repf]. rewrite exec_nil, app_nil_r. reflexivity.
  - destruct sc as [|[[|]|] sc]; [cbn in Hs; lia| | |]; cbn [List.length] in Hs; cbn [tyrun repf].
    + rewrite tyround_ok by lia.
      specialize (IH len dst bp lay (i + 1) (List.app (List.app tr [e_ask i]) [e_write (dst + i)]) sc f ltac:(lia) ltac:(lia)).
      destruct (tyrun dst bp lay j (i + 1) sc) as [[[t q] bb] rest]. rewrite IH.
      rewrite <- !app_assoc. cbn [List.app]. reflexivity.
    + rewrite tyround_err. rewrite <- !app_assoc. reflexivity.
    + rewrite tyround_boom. reflexivity.
Qed.

Theorem loop_is_tyrun len dst bp lay tr sc f : dst + len < W ->
  (N.to_nat len <= List.length sc)%nat ->
  let '(t, q, b, rest) := tyrun dst bp lay (N.to_nat len) 0 sc in
  exec src_fns (S (S (S (S (S (S f)))))) (tyenv0 len dst bp lay) tr sc tryloop =
  match b with
  | FDone => XOk (tyenv len dst bp lay q) (List.app tr t) rest
  | FPanic => XPanic (tyenv len dst bp lay q) (List.app tr t)
  | FErr => XRet (tyenv len dst bp lay q) (List.app tr t) rest
  end.
Proof.
  intros H1 H2. rewrite tryloop_is. rewrite exec_let.
  replace (eval src_fns FUEL_SEM (tyenv0 len dst bp lay) (ELit 0)) with (Ret (VN 0)) by reflexivity.
  replace (upd "i" (VN 0) (tyenv0 len dst bp lay)) with (tyenv len dst bp lay 0) by reflexivity.
  rewrite exec_repeat.
  replace (eval src_fns FUEL_SEM (tyenv len dst bp lay 0) fcount) with (Ret (VN len)).
  2:{ unfold fcount. cbv beta iota zeta delta [eval FUEL_SEM fenv tyenv lookup bind meth1 String.eqb Ascii.eqb Bool.eqb].
      rewrite N.sub_0_r. reflexivity. }
  apply rounds_are_tyrun; lia.
Qed.

Definition says_ok (o : option bool) : bool := match o with Some true => true | _ => false end.

(* every answer is Ok: the same calls and stores as the infallible loop *)
Theorem tyrun_all_ok : forall j dst bp lay i sc,
  (j <= List.length sc)%nat -> forallb says_ok (firstn j sc) = true ->
  tyrun dst bp lay j i sc = (filled dst j i, i + N.of_nat j, FDone, skipn j sc).
Proof.
  induction j as [|j IH]; intros dst bp lay i sc Hs Hr.
  - cbn [tyrun filled skipn]. f_equal. f_equal. f_equal. lia.
  - destruct sc as [|[[|]|] sc]; [cbn in Hs; lia| |cbn in Hr; discriminate|cbn in Hr; discriminate].
    cbn [firstn forallb says_ok andb List.length] in Hr, Hs. cbn [tyrun filled skipn].
    rewrite (IH dst bp lay (i + 1) sc) by (lia || exact Hr). f_equal. f_equal. f_equal. lia.
Qed.

(* the first Err is the (k+1)-th answer: indices 0..k-1 were asked and stored, index k was asked,
   then the whole block goes back (one dealloc of base_ptr with the layout it was allocated with)
   and the procedure returns: no further call of the closure, no further store *)
Theorem tyrun_err_at : forall k j dst bp lay i sc,
  (k < j)%nat -> forallb says_ok (firstn k sc) = true -> nth k sc None = Some false ->
  tyrun dst bp lay j i sc
  = (List.app (filled dst k i) [e_ask (i + N.of_nat k); e_dealloc bp lay], i + N.of_nat k, FErr, skipn (S k) sc).
Proof.
  induction k as [|k IH]; intros j dst bp lay i sc Hk Hr Hn.
  - destruct j as [|j]; [lia|]. destruct sc as [|[[|]|] sc]; cbn in Hn; try discriminate.
    cbn [tyrun filled List.app skipn]. rewrite N.add_0_r. reflexivity.
  - destruct j as [|j]; [lia|]. destruct sc as [|[[|]|] sc]; cbn in Hn; try discriminate.
    cbn [firstn forallb says_ok andb] in Hr. cbn [tyrun filled].
    rewrite (IH j dst bp lay (i + 1) sc) by (lia || assumption).
    cbn [List.app skipn]. replace (i + 1 + N.of_nat k) with (i + N.of_nat (S k)) by lia. reflexivity.
Qed.

Example try_fill_walk_err_ex :
  exec src_fns 9 (tyenv0 4 1000 1000 (VN 77)) [] [Some true; Some true; Some false; Some true] tryloop
  = XRet (tyenv 4 1000 1000 (VN 77) 2)
      [e_ask 0; e_write 1000; e_ask 1; e_write 1001; e_ask 2; e_dealloc 1000 (VN 77)] [Some true].
Proof. vm_compute. reflexivity. Qed.

Example fill_walk_ex :
  exec src_fns 9 (fenv0 3 1000) [] [Some true; Some true; Some true; Some false] floop
  = XOk (fenv 3 1000 3) [e_ask 0; e_write 1000; e_ask 1; e_write 1001; e_ask 2; e_write 1002] [Some false].
Proof. vm_compute. reflexivity. Qed.

Example fill_walk_panic_ex :
  exec src_fns 9 (fenv0 3 1000) [] [Some true; None; Some true] tfloop
  = XPanic (fenv 3 1000 1) [e_ask 0; e_write 1000; e_ask 1].
Proof. vm_compute. reflexivity. Qed.
