(* Utf8.v — well-formed UTF-8 (Unicode Table 3-7) and the lossy chunk iterator of
   src/collections/str/lossy.rs, transliterated.  Bytes are N below 256.
   Definitions first (executable), facts in Utf8Facts.v. *)
From BV Require Import Word.

Definition byte := N.

Definition in_range (lo hi b : N) : bool := (lo <=? b) && (b <=? hi).
Definition is_cont (b : byte) : bool := in_range 128 191 b.       (* b & 0xC0 == 0x80 *)

(* length of the well-formed character at the head of bs, if there is one *)
Definition char_len (bs : list byte) : option nat :=
  match bs with
  | [] => None
  | b0 :: r =>
      if b0 <? 128 then Some 1%nat
      else if in_range 194 223 b0 then
        match r with b1 :: _ => if is_cont b1 then Some 2%nat else None | _ => None end
      else if in_range 224 239 b0 then
        match r with
        | b1 :: b2 :: _ =>
            if ((b0 =? 224) && in_range 160 191 b1
                || in_range 225 236 b0 && in_range 128 191 b1
                || (b0 =? 237) && in_range 128 159 b1
                || in_range 238 239 b0 && in_range 128 191 b1)
               && is_cont b2
            then Some 3%nat else None
        | _ => None
        end
      else if in_range 240 244 b0 then
        match r with
        | b1 :: b2 :: b3 :: _ =>
            if ((b0 =? 240) && in_range 144 191 b1
                || in_range 241 243 b0 && in_range 128 191 b1
                || (b0 =? 244) && in_range 128 143 b1)
               && is_cont b2 && is_cont b3
            then Some 4%nat else None
        | _ => None
        end
      else None
  end.

Fixpoint valid_fuel (fuel : nat) (bs : list byte) : bool :=
  match bs with
  | [] => true
  | _ =>
      match fuel with
      | O => false
      | S f => match char_len bs with
               | Some n => valid_fuel f (skipn n bs)
               | None => false
               end
      end
  end.
(* core::str::from_utf8(bs).is_ok() *)
Definition valid_utf8 (bs : list byte) : bool := valid_fuel (length bs) bs.

(* str::is_char_boundary *)
Definition is_char_boundary (bs : list byte) (i : N) : bool :=
  (i =? 0) || (i =? N.of_nat (length bs)) ||
  ((i <? N.of_nat (length bs)) && negb (is_cont (nth (N.to_nat i) bs 0))).

(* ---------- Utf8LossyChunksIter::next ---------- *)
Definition width_table := byte -> N.       (* UTF8_CHAR_WIDTH *)

(* the table the standard prescribes *)
Definition std_width (b : byte) : N :=
  if b <? 128 then 1
  else if in_range 194 223 b then 2
  else if in_range 224 239 b then 3
  else if in_range 240 244 b then 4
  else 0.

Definition safe_get (src : list byte) (i : nat) : byte := nth i src 0.

Inductive sres := SNext (i : nat) | SErr (i : nat).

(* one iteration of the `while i < len` loop, from position i (= i_) *)
Definition scan_step (wt : width_table) (src : list byte) (i : nat) : sres :=
  let b := safe_get src i in
  if b <? 128 then SNext (i + 1)
  else
    let w := wt b in
    if w =? 2 then
      if is_cont (safe_get src (i + 1)) then SNext (i + 2) else SErr (i + 1)
    else if w =? 3 then
      let b1 := safe_get src (i + 1) in
      if (b =? 224) && in_range 160 191 b1
         || in_range 225 236 b && in_range 128 191 b1
         || (b =? 237) && in_range 128 159 b1
         || in_range 238 239 b && in_range 128 191 b1
      then if is_cont (safe_get src (i + 2)) then SNext (i + 3) else SErr (i + 2)
      else SErr (i + 1)
    else if w =? 4 then
      let b1 := safe_get src (i + 1) in
      if (b =? 240) && in_range 144 191 b1
         || in_range 241 243 b && in_range 128 191 b1
         || (b =? 244) && in_range 128 143 b1
      then if is_cont (safe_get src (i + 2))
           then if is_cont (safe_get src (i + 3)) then SNext (i + 4) else SErr (i + 3)
           else SErr (i + 2)
      else SErr (i + 1)
    else SErr (i + 1).

(* the loop: returns (i_, i) of the error, or None when the whole source is valid *)
Fixpoint scan (wt : width_table) (fuel : nat) (src : list byte) (i : nat) : option (nat * nat) :=
  match fuel with
  | O => None
  | S f =>
      if Nat.ltb i (length src) then
        match scan_step wt src i with
        | SNext i' => scan wt f src i'
        | SErr i' => Some (i, i')
        end
      else None
  end.

Record chunk := mkChunkL { ch_valid : list byte; ch_broken : list byte }.

Definition next_chunk (wt : width_table) (src : list byte) : option (chunk * list byte) :=
  match src with
  | [] => None
  | _ =>
      match scan wt (S (length src)) src 0 with
      | Some (i_, i) =>
          Some (mkChunkL (firstn i_ src) (firstn (i - i_) (skipn i_ src)), skipn i src)
      | None => Some (mkChunkL src [], [])
      end
  end.

Fixpoint chunks (wt : width_table) (fuel : nat) (src : list byte) : list chunk :=
  match fuel with
  | O => []
  | S f => match next_chunk wt src with
           | None => []
           | Some (c, rest) => c :: chunks wt f rest
           end
  end.

Definition REPLACEMENT : list byte := [239; 191; 189].     (* U+FFFD *)

(* String::from_utf8_lossy_in *)
Definition from_utf8_lossy (wt : width_table) (v : list byte) : list byte :=
  concat (map (fun c => ch_valid c ++ (match ch_broken c with [] => [] | _ => REPLACEMENT end))
              (chunks wt (S (length v)) v)).

(* ---------- String operations that check boundaries (string.rs) ---------- *)
Inductive sout (A : Type) := SRet (a : A) | SPanic.
Arguments SRet {A} a.
Arguments SPanic {A}.

Definition s_truncate (s : list byte) (n : N) : sout (list byte) :=
  if n <=? N.of_nat (length s) then
    if is_char_boundary s n then SRet (firstn (N.to_nat n) s) else SPanic
  else SRet s.

Definition s_insert_str (s : list byte) (i : N) (t : list byte) : sout (list byte) :=
  if is_char_boundary s i && (i <=? N.of_nat (length s))
  then SRet (firstn (N.to_nat i) s ++ t ++ skipn (N.to_nat i) s) else SPanic.

Definition s_split_off (s : list byte) (i : N) : sout (list byte * list byte) :=
  if is_char_boundary s i && (i <=? N.of_nat (length s))
  then SRet (firstn (N.to_nat i) s, skipn (N.to_nat i) s) else SPanic.

(* remove(idx): the character starting at idx *)
Definition s_remove (s : list byte) (i : N) : sout (list byte * list byte) :=
  if is_char_boundary s i && (i <? N.of_nat (length s)) then
    match char_len (skipn (N.to_nat i) s) with
    | Some n => SRet (firstn (N.to_nat i) s ++ skipn (N.to_nat i + n) s, firstn n (skipn (N.to_nat i) s))
    | None => SPanic
    end
  else SPanic.

(* drain(a..b) / replace_range(a..b, t) once the bounds are resolved *)
Definition s_replace_range (s : list byte) (a b : N) (t : list byte) : sout (list byte) :=
  if (a <=? b) && (b <=? N.of_nat (length s)) && is_char_boundary s a && is_char_boundary s b
  then SRet (firstn (N.to_nat a) s ++ t ++ skipn (N.to_nat b) s) else SPanic.

(* ---------- encoding a scalar value (char::encode_utf8), and the char-level operations ---------- *)
Definition scalar (cp : N) : bool := (cp <? 55296) || ((57343 <? cp) && (cp <=? 1114111)).

Definition encode (cp : N) : list byte :=
  if cp <? 128 then [cp]
  else if cp <? 2048 then [192 + cp / 64; 128 + cp mod 64]
  else if cp <? 65536 then [224 + cp / 4096; 128 + (cp / 64) mod 64; 128 + cp mod 64]
  else [240 + cp / 262144; 128 + (cp / 4096) mod 64; 128 + (cp / 64) mod 64; 128 + cp mod 64].

(* the scalar value of the well-formed character at the head of bs *)
Definition decode (bs : list byte) : option N :=
  match char_len bs, bs with
  | Some 1%nat, b0 :: _ => Some b0
  | Some 2%nat, b0 :: b1 :: _ => Some ((b0 - 192) * 64 + (b1 - 128))
  | Some 3%nat, b0 :: b1 :: b2 :: _ => Some ((b0 - 224) * 4096 + (b1 - 128) * 64 + (b2 - 128))
  | Some 4%nat, b0 :: b1 :: b2 :: b3 :: _ => Some ((b0 - 240) * 262144 + (b1 - 128) * 4096 + (b2 - 128) * 64 + (b3 - 128))
  | _, _ => None
  end.

(* String::push / String::insert(idx, ch) *)
Definition s_push (s : list byte) (cp : N) : list byte := s ++ encode cp.
Definition s_insert (s : list byte) (i cp : N) : sout (list byte) := s_insert_str s i (encode cp).
(* extend(iter of chars): one push per item; push_str appends the bytes *)
Definition s_extend (s : list byte) (cps : list N) : list byte := fold_left s_push cps s.
Definition s_push_str (s t : list byte) : list byte := s ++ t.

(* ---------- the characters of a text; String::pop and String::retain ---------- *)
Fixpoint chars_of (fuel : nat) (bs : list byte) : list (list byte) :=
  match fuel with
  | O => []
  | S f =>
      match bs with
      | [] => []
      | _ => match char_len bs with
             | Some n => firstn n bs :: chars_of f (skipn n bs)
             | None => [bs]            (* not reached on valid text *)
             end
      end
  end.
Definition chars (bs : list byte) : list (list byte) := chars_of (length bs) bs.

(* pop: the last character leaves, and is returned as a scalar value *)
Definition s_pop (s : list byte) : list byte * option N :=
  match rev (chars s) with
  | [] => (s, None)
  | ch :: before => (concat (rev before), decode ch)
  end.

(* retain(f): [keep] scripts the answers of f, one per character, in order *)
Fixpoint keep_by {A} (l : list A) (keep : list bool) : list A :=
  match l, keep with
  | x :: r, k :: ks => if k then x :: keep_by r ks else keep_by r ks
  | _, _ => []
  end.
Definition s_retain (s : list byte) (keep : list bool) : list byte := concat (keep_by (chars s) keep).

(* drain(a..b) once the bounds are resolved: the caller takes [front] characters from the front of
   the range, then [back] from its back (yielded last to first); the rest is dropped with the Drain,
   and the range leaves the string *)
Record sdrained := mkSdrained {
  sd_rest : list byte;                (* the string afterwards *)
  sd_front : list (list byte);        (* characters yielded by next(), in order *)
  sd_back : list (list byte);         (* characters yielded by next_back(), in the order yielded *)
  sd_left : list (list byte)          (* never yielded *)
}.
Definition s_drain (s : list byte) (a b : N) (front back : nat) : sout sdrained :=
  match s_replace_range s a b [] with
  | SPanic => SPanic
  | SRet rest =>
      let cs := chars (firstn (N.to_nat b - N.to_nat a) (skipn (N.to_nat a) s)) in
      let r1 := skipn front cs in
      SRet (mkSdrained rest (firstn front cs) (firstn back (rev r1)) (firstn (length r1 - back) r1))
  end.

(* ---------- String::from_utf16_in: char::decode_utf16, then push each char ---------- *)
Definition surrogate_pair (hi lo : N) : N := 65536 + (hi - 55296) * 1024 + (lo - 56320).
Fixpoint decode_utf16 (us : list N) : option (list N) :=
  match us with
  | [] => Some []
  | u :: r =>
      if (u <? 55296) || (57343 <? u) then
        match decode_utf16 r with Some cps => Some (u :: cps) | None => None end
      else if u <=? 56319 then               (* a leading surrogate needs a trailing one *)
        match r with
        | lo :: r2 =>
            if in_range 56320 57343 lo then
              match decode_utf16 r2 with
              | Some cps => Some (surrogate_pair u lo :: cps)
              | None => None
              end
            else None
        | [] => None
        end
      else None                              (* an unpaired trailing surrogate *)
  end.

(* the UTF-16 encoding of a scalar value (what char::encode_utf16 writes): the specification side *)
Definition enc16 (cp : N) : list N :=
  if cp <? 65536 then [cp] else [55296 + (cp - 65536) / 1024; 56320 + (cp - 65536) mod 1024].

Definition from_utf16 (us : list N) : option (list byte) :=
  match decode_utf16 us with
  | Some cps => Some (concat (map encode cps))
  | None => None
  end.
