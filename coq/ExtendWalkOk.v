(* ExtendWalkOk.v — Vec::extend_with (behind Vec::resize) as /repo's source has it
   (LeafActual.src_procs, "vec_extend_with": the whole function body translated by tools/rs2v.py on
   every run).  It reserves first; then, n - 1 times: one clone (`value.next()`, caller code that may
   panic), the store through `ptr`, the pointer one element on, and only then the length kept by the
   SetLenOnDrop guard goes up by one; the last element is the value itself (`value.last()`).
   For every n, every vector and every script of returning / panicking clones the translated
   procedure does exactly that; in particular, when the (j+1)-th clone panics there have been
   exactly j stores, at the j addresses following the old contents, and exactly j increments of the
   length: the vector owns the old contents and the j clones written, nothing else — what
   VecPanic.resize_clone_panic says (write_all at the old length, length + j). *)
From BV Require Import Word WordFacts VecModel RustSem LeafActual DedupWalkOk TruncWalkOk.
From Coq Require Import String List Lia Arith ZifyBool ZifyN ZifyNat.
Import ListNotations.
Open Scope string_scope.
Open Scope N_scope.

Definition xproc : list stmt :=
  match lookup "vec_extend_with" src_procs with Some p => proc_body p | None => [] end.

Definition xcount : expr := EMeth1 (EVar "n") "saturating_sub" (ELit 1).
Definition xbody : list stmt :=
  [SDoMay "value.next" [];
   SDo "write" [EVar "ptr"];
   SSet "ptr" (EMeth1 (EVar "ptr") "offset" (ELit 1));
   SDo "increment_len" [ELit 1]].
Definition xtail : list stmt :=
  [SIf (EBin BGt (EVar "n") (ELit 0))
     [SDoMay "value.last" []; SDo "write" [EVar "ptr"]; SDo "increment_len" [ELit 1]] []].

(* the procedure parsed from the source *)
Lemma xproc_is : xproc =
  SDo "reserve" [EVar "n"] ::
  SLet "ptr" (EMeth1 (EMeth0 (EVar "self") "as_mut_ptr") "add" (EMeth0 (EVar "self") "len")) ::
  SLet "local_len" (EMeth0 (EVar "self") "len") ::
  SRepeat xcount xbody :: xtail.
Proof. reflexivity. Qed.

Definition xself (len base : N) : val := VRec [("len", VN len); ("as_mut_ptr", VN base)].
Definition xenv0 (len base n : N) : env := [("self", xself len base); ("n", VN n)].
Definition xenv (len base n p : N) : env :=
  [("self", xself len base); ("n", VN n); ("ptr", VN p); ("local_len", VN len)].

Definition e_reserve (n : N) : effect := ("reserve", [VN n]).
Definition e_next : effect := ("value.next", []).
Definition e_last : effect := ("value.last", []).
Definition e_wr (p : N) : effect := ("write", [VN p]).
Definition e_inc : effect := ("increment_len", [VN 1]).

(* one round of the loop *)
Lemma xround_ok len base n p tr b sc f : p + 1 < W ->
  exec src_fns (S (S (S (S (S f))))) (xenv len base n p) tr (Some b :: sc) xbody
  = XOk (xenv len base n (p + 1)) (List.app tr [e_next; e_wr p; e_inc]) sc.
Proof.
  intros H. apply N.ltb_lt in H. unfold xbody, e_next, e_wr, e_inc.
  rewrite exec_domay. cbn [eval_args].
  rewrite exec_do.
  replace (eval_args src_fns (xenv len base n p) [EVar "ptr"]) with (Some [VN p]) by reflexivity.
  rewrite exec_set.
  replace (eval src_fns FUEL_SEM (xenv len base n p) (EMeth1 (EVar "ptr") "offset" (ELit 1))) with (Ret (VN (p + 1)))
    by (cbv beta iota zeta delta [eval FUEL_SEM xenv lookup bind meth1 String.eqb Ascii.eqb Bool.eqb]; rewrite H; reflexivity).
  replace (upd "ptr" (VN (p + 1)) (xenv len base n p)) with (xenv len base n (p + 1)) by reflexivity.
  rewrite exec_do.
  replace (eval_args src_fns (xenv len base n (p + 1)) [ELit 1]) with (Some [VN 1]) by reflexivity.
  rewrite exec_nil. rewrite <- !app_assoc. reflexivity.
Qed.

Lemma xround_boom len base n p tr sc f :
  exec src_fns (S (S (S (S (S f))))) (xenv len base n p) tr (None :: sc) xbody
  = XPanic (xenv len base n p) (List.app tr [e_next]).
Proof. unfold xbody, e_next. rewrite exec_domay. reflexivity. Qed.

(* rounds still to go, pointer, script -> effects, pointer after, panicked, script left *)
Fixpoint xrun (j : nat) (p : N) (sc : list (option bool)) : list effect * N * bool * list (option bool) :=
  match j with
  | O => ([], p, false, sc)
  | S j' =>
      match sc with
      | [] => ([], p, false, sc)
      | None :: r => ([e_next], p, true, r)
      | Some _ :: r => let '(t, q, b, rest) := xrun j' (p + 1) r in (e_next :: e_wr p :: e_inc :: t, q, b, rest)
      end
  end.

Lemma rounds_are_xrun : forall j len base n p tr sc f r,
  p + N.of_nat j < W -> (j <= List.length sc)%nat ->
  let '(t, q, b, rest) := xrun j p sc in
  repf src_fns (S (S (S (S (S f))))) xbody r j (xenv len base n p) tr sc =
  if b then XPanic (xenv len base n q) (List.app tr t)
  else exec src_fns (S (S (S (S (S f))))) (xenv len base n q) (List.app tr t) rest r.
Proof.
  induction j as [|j IH]; intros len base n p tr sc f r Hw Hs.
  - cbn [xrun repf]. rewrite app_nil_r. reflexivity.
  - destruct sc as [|[b|] sc]; [cbn in Hs; lia| |]; cbn [List.length] in Hs; cbn [xrun repf].
    + rewrite xround_ok by lia.
      specialize (IH len base n (p + 1) (List.app tr [e_next; e_wr p; e_inc]) sc f r ltac:(lia) ltac:(lia)).
      destruct (xrun j (p + 1) sc) as [[[t q] bb] rest]. rewrite IH.
      rewrite <- !app_assoc. cbn [List.app]. reflexivity.
    + rewrite xround_boom. reflexivity.
Qed.

(* the last element: the value itself, no clone; `value.last()` is caller code all the same *)
Definition xlast (n p : N) (sc : list (option bool)) : list effect * bool * list (option bool) :=
  if 0 <? n then
    match sc with
    | Some _ :: r => ([e_last; e_wr p; e_inc], false, r)
    | None :: r => ([e_last], true, r)
    | [] => ([], false, [])
    end
  else ([], false, sc).

Lemma tail_is_xlast len base n p tr sc f : (0 < n -> sc <> []) ->
  let '(t, b, rest) := xlast n p sc in
  exec src_fns (S (S (S (S (S f))))) (xenv len base n p) tr sc xtail =
  if b then XPanic (xenv len base n p) (List.app tr t) else XOk (xenv len base n p) (List.app tr t) rest.
Proof.
  intros Hs. unfold xlast, xtail. rewrite exec_if.
  replace (eval src_fns FUEL_SEM (xenv len base n p) (EBin BGt (EVar "n") (ELit 0))) with (Ret (VB (0 <? n))) by reflexivity.
  destruct (0 <? n) eqn:E.
  - apply N.ltb_lt in E. destruct sc as [|[b|] sc]; [exfalso; apply (Hs E); reflexivity| |].
    + rewrite exec_domay. cbn [eval_args]. rewrite exec_do.
      replace (eval_args src_fns (xenv len base n p) [EVar "ptr"]) with (Some [VN p]) by reflexivity.
      rewrite exec_do.
      replace (eval_args src_fns (xenv len base n p) [ELit 1]) with (Some [VN 1]) by reflexivity.
      rewrite exec_nil, exec_nil. unfold e_last, e_wr, e_inc. rewrite <- !app_assoc. reflexivity.
    + rewrite exec_domay. reflexivity.
  - rewrite exec_nil, exec_nil, app_nil_r. reflexivity.
Qed.

(* the whole function *)
Definition xwhole (len base n : N) (sc : list (option bool)) : list effect * N * bool * list (option bool) :=
  let '(t, q, b, rest) := xrun (N.to_nat (n - 1)) (base + len) sc in
  if b then (e_reserve n :: t, q, true, rest)
  else let '(t2, b2, rest2) := xlast n q rest in (e_reserve n :: List.app t t2, q, b2, rest2).

Theorem proc_is_xwhole len base n tr sc f : base + len + n < W ->
  (N.to_nat n <= List.length sc)%nat ->
  let '(t, q, b, rest) := xwhole len base n sc in
  exec src_fns (S (S (S (S (S (S (S (S (S f))))))))) (xenv0 len base n) tr sc xproc =
  if b then XPanic (xenv len base n q) (List.app tr t) else XOk (xenv len base n q) (List.app tr t) rest.
Proof.
  intros Hw Hs. assert (Hw' := Hw). apply N.ltb_lt in Hw'.
  rewrite xproc_is. rewrite exec_do.
  replace (eval_args src_fns (xenv0 len base n) [EVar "n"]) with (Some [VN n]) by reflexivity.
  rewrite exec_let.
  replace (eval src_fns FUEL_SEM (xenv0 len base n) (EMeth1 (EMeth0 (EVar "self") "as_mut_ptr") "add" (EMeth0 (EVar "self") "len")))
    with (Ret (VN (base + len))).
  2:{ cbv beta iota zeta delta [eval FUEL_SEM xenv0 xself lookup bind meth0 meth1 String.eqb Ascii.eqb Bool.eqb].
      replace (base + len <? W) with true by (symmetry; apply N.ltb_lt; lia). reflexivity. }
  rewrite exec_let.
  replace (eval src_fns FUEL_SEM (upd "ptr" (VN (base + len)) (xenv0 len base n)) (EMeth0 (EVar "self") "len"))
    with (Ret (VN len)) by reflexivity.
  replace (upd "local_len" (VN len) (upd "ptr" (VN (base + len)) (xenv0 len base n))) with (xenv len base n (base + len)) by reflexivity.
  rewrite exec_repeat.
  replace (eval src_fns FUEL_SEM (xenv len base n (base + len)) xcount) with (Ret (VN (n - 1))) by reflexivity.
  cbv beta iota. unfold xwhole.
  pose proof (rounds_are_xrun (N.to_nat (n - 1)) len base n (base + len) (List.app tr [e_reserve n]) sc f xtail
                ltac:(lia) ltac:(lia)) as R.
  assert (Hrest : forall t q b rest, xrun (N.to_nat (n - 1)) (base + len) sc = (t, q, b, rest) -> b = false -> 0 < n -> rest <> []).
  { clear R. intros t q b rest E Eb Hn.
    assert (G : forall j p sc0 t0 q0 rest0, xrun j p sc0 = (t0, q0, false, rest0) -> (j < List.length sc0)%nat -> rest0 <> []).
    { induction j as [|j IH]; intros p sc0 t0 q0 rest0 E0 Hl; cbn [xrun] in E0.
      - injection E0 as _ _ <-. destruct sc0; [cbn in Hl; lia | discriminate].
      - destruct sc0 as [|[b0|] sc0]; [cbn in Hl; lia| |discriminate].
        destruct (xrun j (p + 1) sc0) as [[[t1 q1] b1] r1] eqn:E1. injection E0 as _ _ Hb Hr. subst.
        apply (IH (p + 1) sc0 t1 q1 rest0 E1). cbn in Hl. lia. }
    subst b. apply (G _ _ _ _ _ _ E). lia. }
  destruct (xrun (N.to_nat (n - 1)) (base + len) sc) as [[[t q] b] rest] eqn:E.
  unfold e_reserve in *. destruct b.
  - cbv beta iota. refine (eq_trans R _). rewrite <- app_assoc. reflexivity.
  - pose proof (tail_is_xlast len base n q (List.app (List.app tr [("reserve", [VN n])]) t) rest f
                  (fun Hn => Hrest t q false rest eq_refl eq_refl Hn)) as T.
    destruct (xlast n q rest) as [[t2 b2] rest2]. cbv beta iota. refine (eq_trans R _). refine (eq_trans T _).
    rewrite <- !app_assoc. cbn [List.app]. destruct b2; reflexivity.
Qed.

(* ---------- closed forms ---------- *)
Fixpoint cloned (j : nat) (p : N) : list effect :=
  match j with O => [] | S j' => e_next :: e_wr p :: e_inc :: cloned j' (p + 1) end.

Definition returns (o : option bool) : bool := match o with Some _ => true | None => false end.

(* the (j+1)-th clone panics: j clones were made, stored at p, p+1, .., p+j-1 and counted — no more *)
Theorem xrun_panics_at : forall k j p sc,
  (k < j)%nat -> forallb returns (firstn k sc) = true -> nth k sc (Some true) = None ->
  xrun j p sc = (List.app (cloned k p) [e_next], p + N.of_nat k, true, skipn (S k) sc).
Proof.
  induction k as [|k IH]; intros j p sc Hk Hr Hn.
  - destruct j as [|j]; [lia|]. destruct sc as [|[b|] sc]; cbn in Hn; try discriminate.
    cbn [xrun cloned List.app skipn]. rewrite N.add_0_r. reflexivity.
  - destruct j as [|j]; [lia|]. destruct sc as [|[b|] sc]; cbn in Hn; try discriminate.
    cbn [firstn forallb returns andb] in Hr. cbn [xrun cloned].
    rewrite (IH j (p + 1) sc) by (lia || assumption).
    cbn [List.app skipn]. replace (p + 1 + N.of_nat k) with (p + N.of_nat (S k)) by lia. reflexivity.
Qed.

Theorem xrun_all_return : forall j p sc,
  (j <= List.length sc)%nat -> forallb returns (firstn j sc) = true ->
  xrun j p sc = (cloned j p, p + N.of_nat j, false, skipn j sc).
Proof.
  induction j as [|j IH]; intros p sc Hs Hr.
  - cbn [xrun cloned skipn]. f_equal. f_equal. f_equal. lia.
  - destruct sc as [|[b|] sc]; [cbn in Hs; lia| |cbn in Hr; discriminate].
    cbn [firstn forallb returns andb List.length] in Hr, Hs. cbn [xrun cloned skipn].
    rewrite (IH (p + 1) sc) by (lia || exact Hr). f_equal. f_equal. f_equal. lia.
Qed.

(* stores and increments go together: in every run of the loop, as many increments as stores, and the
   stores are at consecutive addresses from p *)
Definition count (name : string) (t : list effect) : nat :=
  List.length (filter (fun e : effect => String.eqb (fst e) name) t).

Lemma cloned_counts j p :
  count "write" (cloned j p) = j /\ count "increment_len" (cloned j p) = j /\ count "value.next" (cloned j p) = j /\
  map (fun e : effect => snd e) (filter (fun e : effect => String.eqb (fst e) "write") (cloned j p))
    = map (fun i => [VN (p + N.of_nat i)]) (seq 0 j).
Proof.
  revert p. induction j as [|j IH]; intros p; [repeat split; reflexivity|].
  destruct (IH (p + 1)) as (A & B & C & D). unfold count in *.
  cbn [cloned filter e_next e_wr e_inc fst snd String.eqb Ascii.eqb Bool.eqb List.length map seq].
  rewrite A, B, C, D. repeat split; try reflexivity.
  rewrite <- seq_shift, map_map. f_equal; [f_equal; f_equal; lia|].
  apply map_ext. intros i. f_equal. f_equal. lia.
Qed.

(* ---------- the stores of the trace are VecModel.write_all ---------- *)
(* the i-th store of a trace writes the i-th of the values cloned *)
Fixpoint apply_writes (base : N) (t : list effect) (vals : list N) (buf : list slot) : list slot :=
  match t with
  | [] => buf
  | ("write", [VN a]) :: r =>
      match vals with
      | x :: xs => apply_writes base r xs (set_slot buf (N.to_nat (a - base)) x)
      | [] => buf
      end
  | _ :: r => apply_writes base r vals buf
  end.

(* k clones written from element position pos on: exactly the buffer VecPanic.resize_clone_panic
   builds (write_all at the old length), and the k increments give the length it reports *)
Theorem cloned_is_write_all : forall k base pos vals buf, List.length vals = k ->
  apply_writes base (cloned k (base + N.of_nat pos)) vals buf = write_all buf pos vals /\
  count "increment_len" (cloned k (base + N.of_nat pos)) = k.
Proof.
  induction k as [|k IH]; intros base pos vals buf Hl.
  - destruct vals; [|discriminate]. split; reflexivity.
  - destruct vals as [|x xs]; [discriminate|]. injection Hl as Hl.
    specialize (IH base (pos + 1)%nat xs (set_slot buf pos x) Hl). destruct IH as [IH1 IH2].
    replace (base + N.of_nat (pos + 1)) with (base + N.of_nat pos + 1) in IH1, IH2 by lia.
    split.
    + cbn [cloned apply_writes e_next e_wr e_inc write_all].
      replace (N.to_nat (base + N.of_nat pos - base)) with pos by lia. exact IH1.
    + unfold count in *. cbn [cloned filter e_next e_wr e_inc fst String.eqb Ascii.eqb Bool.eqb List.length].
      rewrite IH2. reflexivity.
Qed.

Example extend_walk_ex :
  exec src_fns 12 (xenv0 2 1000 3) [] [Some true; Some true; Some true] xproc
  = XOk (xenv 2 1000 3 1004)
      [e_reserve 3; e_next; e_wr 1002; e_inc; e_next; e_wr 1003; e_inc; e_last; e_wr 1004; e_inc] [].
Proof. vm_compute. reflexivity. Qed.

Example extend_walk_panic_ex :
  exec src_fns 12 (xenv0 2 1000 4) [] [Some true; None; Some true; Some true] xproc
  = XPanic (xenv 2 1000 4 1003) [e_reserve 4; e_next; e_wr 1002; e_inc; e_next].
Proof. vm_compute. reflexivity. Qed.

Example extend_walk_zero_ex :
  exec src_fns 12 (xenv0 2 1000 0) [] [] xproc = XOk (xenv 2 1000 0 1002) [e_reserve 0] [].
Proof. vm_compute. reflexivity. Qed.
