(* ArenaPolicyFacts.v — facts about the transliterated sizing policy of
   alloc_layout_slow (C07, C09, C18). *)
From BV Require Import Word WordFacts ArenaModel ArenaPolicy ArenaSpec ArenaInv.
From Coq Require Import Lia.

Ltac conj := repeat match goal with |- _ /\ _ => split end.

(* ---------- C07: every chunk the policy obtains fits under the limit ---------- *)
Lemma cand_loop_fits k fuel : forall b l left min_new base answers d data,
  snd (cand_loop k fuel b l left min_new base answers) = PChunk d data ->
  fits left d = true.
Proof.
  induction fuel as [|fuel IH]; intros b l left min_new base answers d data; cbn [cand_loop]; [discriminate|].
  destruct (_ || _); [|discriminate].
  destruct (mem_details k (Some base) l) as [| |d0]; try discriminate.
  destruct (fits left d0 && layout_ok (d_size d0) (d_align d0)) eqn:EF.
  - apply andb_prop in EF. destruct EF as [EF _].
    destruct answers as [|[data0|] rest]; cbn [snd]; try discriminate.
    + intros H; inversion H; subst. exact EF.
    + destruct (base =? 0); cbn [snd]; [discriminate|]. apply IH.
  - destruct (base =? 0); cbn [snd]; [discriminate|]. apply IH.
Qed.

(* every request made on the way was for a candidate that fits, too: refused
   candidates are skipped without asking the global allocator *)
Theorem policy_respects_limit k b l answers g data :
  fst (policy k answers b (ForLayout l)) = AcqSome g data ->
  match limit b with
  | None => True
  | Some L => g_size g - k_footer k <= L - ab_of b
  end.
Proof.
  unfold policy, acq_of, slow_policy. cbn [fst].
  destruct (checked_mul _ 2) as [dbl|]; cbn [snd]; [|discriminate].
  destruct (snd (cand_loop k FUEL b l (limit_left b) (N.max (l_size l) (k_default k))
                           (N.max dbl (N.max (l_size l) (k_default k))) answers)) as [d dat| | | |] eqn:E;
    try discriminate.
  intros H; inversion H; subst; clear H. cbn [g_size].
  pose proof (cand_loop_fits _ _ _ _ _ _ _ _ _ _ E) as F.
  unfold limit_left in F. destruct (limit b) as [L|]; [|exact I].
  unfold fits in F. apply N.leb_le in F.
  (* d_size = d_nswf + footer *)
  revert E. generalize FUEL. intros fuel.
  assert (Sz : forall fuel b l left mn base ans d dat,
            snd (cand_loop k fuel b l left mn base ans) = PChunk d dat -> d_size d = d_nswf d + k_footer k).
  { clear. induction fuel as [|fuel IH]; intros b l left mn base ans d dat; cbn [cand_loop]; [discriminate|].
    destruct (_ || _); [|discriminate].
    destruct (mem_details k (Some base) l) as [| |d0] eqn:EM; try discriminate.
    assert (S0 : d_size d0 = d_nswf d0 + k_footer k).
    { unfold mem_details in EM. destruct (round_up_to _ _); [|discriminate].
      destruct (if _ <? _ then _ else _) as [n'|]; [|discriminate].
      unfold checked_add in EM. destruct (_ <? W); [|discriminate]. inversion EM; subst. reflexivity. }
    destruct (fits left d0 && layout_ok (d_size d0) (d_align d0)).
    - destruct ans as [|[data0|] rest]; cbn [snd]; try discriminate.
      + intros H; inversion H; subst. exact S0.
      + destruct (base =? 0); cbn [snd]; [discriminate|]. apply IH.
    - destruct (base =? 0); cbn [snd]; [discriminate|]. apply IH. }
  intros E. rewrite (Sz _ _ _ _ _ _ _ _ _ E). lia.
Qed.

(* ---------- C09: the candidate loop terminates ---------- *)
Lemma cand_loop_terminates k fuel : forall b l left min_new base answers,
  base < 2 ^ N.of_nat fuel ->
  snd (cand_loop k (S fuel) b l left min_new base answers) <> PDiverge.
Proof.
  induction fuel as [|fuel IH]; intros b l left min_new base answers Hb.
  - assert (base = 0) by (cbn in Hb; lia). subst base. cbn [cand_loop].
    destruct (_ || _); [|discriminate].
    destruct (mem_details k (Some 0) l); try discriminate.
    rewrite N.eqb_refl.
    destruct (_ && _); [|discriminate].
    destruct answers as [|[d0|] rest]; cbn [snd]; discriminate.
  - remember (S fuel) as f. cbn [cand_loop]. subst f.
    destruct (_ || _); [|discriminate].
    destruct (mem_details k (Some base) l); try discriminate.
    assert (Hh : base / 2 < 2 ^ N.of_nat fuel).
    { rewrite Nat2N.inj_succ, N.pow_succ_r' in Hb. apply N.div_lt_upper_bound; lia. }
    destruct (_ && _).
    + destruct answers as [|[d0|] rest]; cbn [snd]; try discriminate.
      destruct (base =? 0); cbn [snd]; [discriminate|]. apply IH. exact Hh.
    + destruct (base =? 0); cbn [snd]; [discriminate|]. apply IH. exact Hh.
Qed.

Theorem slow_policy_terminates k b l answers :
  l_size l < W -> k_default k < W ->
  snd (slow_policy k b l answers) <> PDiverge.
Proof.
  intros Hl Hd.
  unfold slow_policy. destruct (checked_mul _ 2) as [dbl|] eqn:EM; cbn [snd]; [|discriminate].
  unfold FUEL. apply (cand_loop_terminates k 79).
  unfold checked_mul in EM. destruct (_ <? W) eqn:EW; [|discriminate]. inversion EM; subst dbl.
  apply N.ltb_lt in EW.
  assert (HW : W < 2 ^ N.of_nat 79) by (vm_compute; reflexivity).
  lia.
Qed.

(* ---------- sizes computed by new_chunk_memory_details ---------- *)
Lemma npow2_le_double n : 1 <= n -> npow2 n <= 2 * n.
Proof.
  intros H. unfold npow2. destruct (n <=? 1) eqn:E; [lia|].
  apply N.leb_gt in E. assert (P : 0 < n - 1) by lia.
  destruct (N.log2_spec (n - 1) P) as [Lo _].
  rewrite N.add_1_r, N.pow_succ_r'. lia.
Qed.

(* the chunk is at least as large as asked for (given size, and the request) *)
Lemma mem_details_ge k given l d :
  k_calign k <> 0 -> k_page k <> 0 -> l_align l <> 0 -> k_malign k <> 0 ->
  mem_details k given l = DSome d ->
  (match given with Some g => g | None => k_default k end) <= d_nswf d /\
  l_size l <= d_nswf d /\ d_size d = d_nswf d + k_footer k /\
  d_align d = N.max (N.max (k_calign k) (k_malign k)) (l_align l).
Proof.
  intros Nc Np Na Nm. unfold mem_details.
  set (al := N.max (N.max (k_calign k) (k_malign k)) (l_align l)).
  assert (Nal : al <> 0) by (unfold al; lia).
  destruct (round_up_to (l_size l) al) as [req|] eqn:ER; [|discriminate].
  apply round_up_to_some in ER. destruct ER as [-> _].
  pose proof (rup_ge (l_size l) al Nal) as Hreq.
  set (g0 := match given with Some g => g | None => k_default k end).
  set (n := N.max g0 (rup (l_size l) al)).
  assert (Hn : g0 <= n /\ l_size l <= n) by (unfold n; lia).
  destruct (n <? k_page k) eqn:EP.
  - unfold checked_add. destruct (_ <? W); [|discriminate].
    intros H; inversion H; subst; clear H. cbn [d_nswf d_size d_align].
    pose proof (npow2_ge (n + k_overhead k)). conj; try reflexivity; lia.
  - destruct (round_up_to (n + k_overhead k) (k_page k)) as [x|] eqn:ER2; [|discriminate].
    apply round_up_to_some in ER2. destruct ER2 as [-> _].
    pose proof (rup_ge (n + k_overhead k) (k_page k) Np).
    unfold checked_add. destruct (_ <? W); [|discriminate].
    intros HH; inversion HH; subst; clear HH. cbn [d_nswf d_size d_align].
    conj; try reflexivity; lia.
Qed.

(* ---------- C09: new_chunk_memory_details never panics on a valid layout ---------- *)
Definition policy_consts_okb (k : cfg) : bool :=
  (k_calign k <=? ISIZE_MAX) && (k_malign k <=? k_calign k) && (0 <? k_malign k) && (0 <? k_calign k) &&
  (0 <? k_page k) && (k_footer k <=? k_overhead k) &&
  (2 * (k_page k + k_overhead k) + k_footer k <? W).

Lemma mem_details_no_panic k given l :
  policy_consts_okb k = true -> lay_ok l = true ->
  mem_details k given l <> DPanic.
Proof.
  unfold policy_consts_okb. rewrite !andb_true_iff.
  intros [[[[[[H1 H2] H3] H4] H5] H6] H7] Hl.
  apply N.leb_le in H1, H2, H6. apply N.ltb_lt in H3, H4, H5, H7.
  unfold lay_ok in Hl. apply layout_ok_spec in Hl. destruct Hl as (Pa & Aw & Sz).
  pose proof (pow2_pos _ Pa) as Ap.
  unfold mem_details.
  set (al := N.max (N.max (k_calign k) (k_malign k)) (l_align l)).
  assert (ISIZE_MAX + ISIZE_MAX < W) by (vm_compute; reflexivity).
  destruct (round_up_to (l_size l) al) as [req|] eqn:ER.
  2:{ unfold round_up_to, checked_add in ER. destruct (l_size l + (al - 1) <? W) eqn:E; [discriminate|].
      apply N.ltb_ge in E. exfalso. unfold al in E. lia. }
  set (n := N.max _ req).
  destruct (n <? k_page k) eqn:EP.
  - apply N.ltb_lt in EP. unfold checked_add.
    assert (1 <= n + k_overhead k \/ n + k_overhead k = 0) by lia.
    assert (B : npow2 (n + k_overhead k) <= 2 * (k_page k + k_overhead k)).
    { destruct H0 as [G|Z]; [pose proof (npow2_le_double _ G); lia|].
      rewrite Z. change (npow2 0) with 1. lia. }
    destruct (_ <? W) eqn:E; [discriminate|]. apply N.ltb_ge in E. lia.
  - destruct (round_up_to (n + k_overhead k) (k_page k)) as [x|] eqn:ER2; [|discriminate].
    apply round_up_to_some in ER2. destruct ER2 as [-> Hx].
    assert (Np : k_page k <> 0) by lia.
    pose proof (rup_lt (n + k_overhead k) (k_page k) Np).
    unfold checked_add. destruct (_ <? W) eqn:E; [discriminate|]. apply N.ltb_ge in E. lia.
Qed.

Lemma cand_loop_no_panic k fuel : forall b l left min_new base answers,
  policy_consts_okb k = true -> lay_ok l = true ->
  snd (cand_loop k fuel b l left min_new base answers) <> PPanic.
Proof.
  induction fuel as [|fuel IH]; intros b l left min_new base answers HK Hl; cbn [cand_loop]; [discriminate|].
  destruct (_ || _); [|discriminate].
  pose proof (mem_details_no_panic k (Some base) l HK Hl) as NP.
  destruct (mem_details k (Some base) l); try discriminate; [contradiction|].
  destruct (_ && _).
  - destruct answers as [|[d0|] rest]; cbn [snd]; try discriminate.
    destruct (base =? 0); cbn [snd]; [discriminate | apply IH; assumption].
  - destruct (base =? 0); cbn [snd]; [discriminate | apply IH; assumption].
Qed.

(* try_alloc_layout under the crate's own policy: it returns, and it returns
   Ok or Err: never a panic, never divergence, whatever the allocator answers
   (as long as it answers every request made) *)
Theorem policy_total k b l answers :
  policy_consts_okb k = true -> lay_ok l = true -> k_default k < W ->
  match fst (policy k answers b (ForLayout l)) with
  | AcqBad w => w = BAD_STARVED
  | _ => True
  end.
Proof.
  intros HK Hl Hd. unfold policy, acq_of. cbn [fst].
  assert (Ls : l_size l < W).
  { unfold lay_ok in Hl. apply layout_ok_spec in Hl. destruct Hl as (_ & _ & S).
    assert (ISIZE_MAX < W) by (vm_compute; reflexivity). lia. }
  pose proof (slow_policy_terminates k b l answers Ls Hd) as T.
  assert (NP : snd (slow_policy k b l answers) <> PPanic).
  { unfold slow_policy. destruct (checked_mul _ 2); cbn [snd]; [|discriminate].
    apply cand_loop_no_panic; assumption. }
  destruct (snd (slow_policy k b l answers)); try exact I; try reflexivity; contradiction.
Qed.

(* ---------- C18: growth is geometric ---------- *)
(* when the first candidate is granted, the new chunk is at least twice the
   current one and at least the default size *)
Theorem first_candidate_doubles k b l data rest :
  k_calign k <> 0 -> k_page k <> 0 -> l_align l <> 0 -> k_malign k <> 0 ->
  limit b = None ->
  forall d dbl,
  checked_mul (cur_layout_size k b - k_footer k) 2 = Some dbl ->
  mem_details k (Some (N.max dbl (N.max (l_size l) (k_default k)))) l = DSome d ->
  layout_ok (d_size d) (d_align d) = true ->
  slow_policy k b l (Some data :: rest) = ([(d_size d, d_align d)], PChunk d data) /\
  2 * (cur_layout_size k b - k_footer k) <= d_nswf d /\ k_default k <= d_nswf d /\ l_size l <= d_nswf d.
Proof.
  intros Nc Np Na Nm Hlim d dbl EM ED EL.
  unfold slow_policy. rewrite EM. unfold FUEL. cbn [cand_loop].
  assert (T : (N.max (l_size l) (k_default k) <=? N.max dbl (N.max (l_size l) (k_default k))) = true)
    by (apply N.leb_le; lia).
  rewrite T. cbn [orb]. rewrite ED.
  unfold limit_left. rewrite Hlim. cbn [fits andb]. rewrite EL.
  split; [reflexivity|].
  destruct (mem_details_ge k _ l d Nc Np Na Nm ED) as (G1 & G2 & _).
  unfold checked_mul in EM. destruct (_ <? W); [|discriminate]. inversion EM; subst dbl. lia.
Qed.
