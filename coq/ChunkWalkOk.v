(* ChunkWalkOk.v — the loop of `dealloc_chunk_list` as /repo's source has it (LeafActual.src_procs,
   translated by tools/rs2v.py on every run into the statement language of RustSem) frees exactly the
   blocks of the chunks in the list, newest first, each with the layout its footer records, and stops
   at the sentinel — for chunk lists of every length.  That is what the model's drop_arena (the whole
   list) and reset (everything but the current chunk) report as freed. *)
From BV Require Import Word WordFacts RustSem ArenaModel ConstsActual LeafActual LeafActualOk.
From Coq Require Import String List Lia.
Import ListNotations.
Open Scope string_scope.
Open Scope N_scope.

(* the chunk list as the footers see it: each footer points to its predecessor, the oldest one to the
   static sentinel *)
Definition sentinel (eaddr : N) : val :=
  VPtr eaddr (VRec [("prev", VUnit); ("data", VN 0); ("layout", vlayout (mkLayout 0 1)); ("ptr", VN eaddr)]).

Fixpoint footer_val (k : cfg) (cs : list chunk) : val :=
  match cs with
  | [] => sentinel (k_eaddr k)
  | c :: older =>
      VPtr (c_foot c)
           (VRec [("prev", footer_val k older); ("data", VN (c_data c));
                  ("layout", vlayout (mkLayout (c_nswf c + k_footer k) (c_align c)));
                  ("ptr", VN (c_ptr c))])
  end.

Definition walk_env (k : cfg) (cs : list chunk) (f : val) : env :=
  [("footer", footer_val k cs); ("EMPTY_CHUNK", sentinel (k_eaddr k)); ("f", f)].

Definition freed (k : cfg) (c : chunk) : effect :=
  ("dealloc", [VN (c_data c); vlayout (mkLayout (c_nswf c + k_footer k) (c_align c))]).

Definition walk_body : list stmt :=
  match lookup "dealloc_chunk_list" src_procs with Some p => proc_body p | None => [] end.

Ltac wsimpl :=
  cbv beta iota zeta delta
    [exec eval eval_args upd walk_env footer_val sentinel freed lookup bind finish meth0 meth1 fn_params fn_body src_fns
     FUEL_SEM String.eqb Ascii.eqb Bool.eqb List.app List.combine List.length Nat.eqb negb fst snd].

(* one unfolding of a loop, for any fuel *)
Lemma exec_while ft f en tr sc c body r :
  exec ft (S f) en tr sc (SWhile c body :: r) =
  match eval ft FUEL_SEM en c with
  | Ret (VB true) =>
      match exec ft f en tr sc body with
      | XOk en' tr' sc' => exec ft f en' tr' sc' (SWhile c body :: r)
      | other => other
      end
  | Ret (VB false) => exec ft f en tr sc r
  | _ => XStuck
  end.
Proof. reflexivity. Qed.

Definition walk_cond : expr := ENot (ECall1 "is_empty" (EMeth0 (EVar "footer") "as_ref")).
Definition walk_loop_body : list stmt :=
  [SLet "f" (EVar "footer");
   SSet "footer" (EMeth0 (EMeth0 (EMeth0 (EVar "f") "as_ref") "prev") "get");
   SDo "dealloc" [EMeth0 (EMeth0 (EMeth0 (EVar "f") "as_ref") "data") "as_ptr"; EMeth0 (EMeth0 (EVar "f") "as_ref") "layout"]].

(* the procedure parsed from the source is this loop *)
Lemma walk_body_is : walk_body = [SWhile walk_cond walk_loop_body].
Proof. reflexivity. Qed.

Lemma cond_on_sentinel k f0 :
  eval src_fns FUEL_SEM (walk_env k [] f0) walk_cond = Ret (VB false).
Proof. unfold walk_cond. wsimpl. rewrite N.eqb_refl. reflexivity. Qed.

Lemma cond_on_chunk k c cs f0 : c_foot c <> k_eaddr k ->
  eval src_fns FUEL_SEM (walk_env k (c :: cs) f0) walk_cond = Ret (VB true).
Proof.
  intros H. apply N.eqb_neq in H. unfold walk_cond. wsimpl. rewrite H. reflexivity.
Qed.

Lemma body_on_chunk k c cs f0 tr sc f :
  exec src_fns (S (S (S (S f)))) (walk_env k (c :: cs) f0) tr sc walk_loop_body
  = XOk (walk_env k cs (footer_val k (c :: cs))) (List.app tr [freed k c]) sc.
Proof. unfold walk_loop_body. wsimpl. reflexivity. Qed.

Definition wfuel (n extra : nat) : nat := S (S (S (S (S (S (n + extra)))))).

Theorem walk_frees_the_list k cs : Forall (fun c => c_foot c <> k_eaddr k) cs ->
  forall extra tr sc f0,
  exists f1,
    exec src_fns (wfuel (List.length cs) extra) (walk_env k cs f0) tr sc walk_body
    = XOk (walk_env k [] f1) (List.app tr (map (freed k) cs)) sc.
Proof.
  rewrite walk_body_is.
  intros Hne. induction Hne as [|c cs Hc _ IH]; intros extra tr sc f0.
  - exists f0. unfold wfuel. rewrite exec_while, cond_on_sentinel.
    cbn [map]. rewrite app_nil_r. reflexivity.
  - destruct (IH extra (List.app tr [freed k c]) sc (footer_val k (c :: cs))) as [f1 E].
    exists f1.
    change (wfuel (List.length (c :: cs)) extra) with (S (wfuel (List.length cs) extra)).
    rewrite exec_while, (cond_on_chunk k c cs f0 Hc).
    unfold wfuel at 1. rewrite body_on_chunk. fold (wfuel (List.length cs) extra).
    rewrite E. cbn [map]. rewrite <- app_assoc. reflexivity.
Qed.

(* the blocks freed are the model's: drop gives back every chunk, reset all but the current one *)
Definition freed_block (e : effect) : option (N * N * N) :=
  match e with
  | (_, [VN d; VRec [(_, VN s); (_, VN a)]]) => Some (d, s, a)
  | _ => None
  end.

Lemma freed_is_chunk_block k c : freed_block (freed k c) = Some (chunk_block k c).
Proof. reflexivity. Qed.

Theorem walk_frees_what_drop_reports k (b : bump) :
  map freed_block (map (freed k) (chunks b)) = map Some (o_frees (snd (drop_arena k b))).
Proof.
  unfold drop_arena. cbn [snd o_frees]. rewrite !map_map. apply map_ext. intros c. apply freed_is_chunk_block.
Qed.

Theorem walk_frees_what_reset_reports k (b : bump) c rest : chunks b = c :: rest ->
  map freed_block (map (freed k) rest) = map Some (o_frees (snd (reset k b))).
Proof.
  intros H. unfold reset. rewrite H. cbn [snd o_frees]. rewrite !map_map. apply map_ext. intros c0. apply freed_is_chunk_block.
Qed.

(* the hypotheses are met: a two-chunk list, sentinel elsewhere *)
Example walk_ex :
  let k := actual 1 1000 in
  let cs := [mkChunk 9000 960 16 9100 0; mkChunk 5000 448 16 5448 0] in
  exec src_fns (wfuel 2 0) (walk_env k cs VUnit) [] [] walk_body
  = XOk (walk_env k [] (footer_val k [mkChunk 5000 448 16 5448 0]))
        [("dealloc", [VN 9000; vlayout (mkLayout 1008 16)]); ("dealloc", [VN 5000; vlayout (mkLayout 496 16)])] [].
Proof. vm_compute. reflexivity. Qed.

(* ---------- chunk iteration: ChunkRawIter::next, call after call, over a chunk list of any length.
   One call is made of the source's own pieces (LeafActual.v): the end test (`foot.is_empty()`), the
   slice the footer reports (as_raw_parts: finger, footer address - finger) and the step to the
   previous footer; the statements around them are pinned (chunk_raw_iter_walk) ---------- *)
Inductive rnext := RDone | RItem (p l : N) (next : val) | RStuck.

Definition raw_next (k : cfg) (fv : val) : rnext :=
  let en := [("self", VRec [("footer", fv)]); ("EMPTY_CHUNK", sentinel (k_eaddr k))] in
  match call_fn src_fns en "raw_iter_done" [] with
  | Ret (VB true) => RDone
  | Ret (VB false) =>
      match call_fn src_fns [("self", fv)] "chunk_parts_ptr" [],
            call_fn src_fns [("self", fv)] "chunk_parts_len" [],
            call_fn src_fns en "raw_iter_advance" [] with
      | Ret (VN p), Ret (VN l), Ret nx => RItem p l nx
      | _, _, _ => RStuck
      end
  | _ => RStuck
  end.

Fixpoint raw_collect (k : cfg) (fuel : nat) (fv : val) : option (list (N * N)) :=
  match fuel with
  | O => None
  | S f => match raw_next k fv with
           | RDone => Some []
           | RItem p l nx => match raw_collect k f nx with Some r => Some ((p, l) :: r) | None => None end
           | RStuck => None
           end
  end.

Ltac rsimpl2 :=
  cbv beta iota zeta delta
    [raw_next call_fn eval footer_val sentinel lookup bind finish meth0 meth1 fn_params fn_body src_fns
     FUEL_SEM String.eqb Ascii.eqb Bool.eqb List.app List.combine List.length Nat.eqb negb fst snd].

Lemma raw_next_sentinel k : raw_next k (footer_val k []) = RDone.
Proof. rsimpl2. rewrite N.eqb_refl. reflexivity. Qed.

Lemma raw_next_chunk k c cs : c_foot c <> k_eaddr k -> c_ptr c <= c_foot c ->
  raw_next k (footer_val k (c :: cs)) = RItem (c_ptr c) (c_foot c - c_ptr c) (footer_val k cs).
Proof.
  intros H1 H2. apply N.eqb_neq in H1. apply N.leb_le in H2.
  rsimpl2. rewrite H1. rsimpl2. rewrite H2. reflexivity.
Qed.

Lemma raw_collect_S k f fv :
  raw_collect k (S f) fv =
  match raw_next k fv with
  | RDone => Some []
  | RItem p l nx => match raw_collect k f nx with Some r => Some ((p, l) :: r) | None => None end
  | RStuck => None
  end.
Proof. reflexivity. Qed.

Theorem raw_iteration_lists_the_chunks k cs :
  Forall (fun c => c_foot c <> k_eaddr k /\ c_ptr c <= c_foot c) cs ->
  forall extra, raw_collect k (S (List.length cs) + extra) (footer_val k cs)
                = Some (map (fun c => (c_ptr c, c_foot c - c_ptr c)) cs).
Proof.
  induction 1 as [|c cs [H1 H2] _ IH]; intros extra.
  - change (S (List.length (@nil chunk)) + extra)%nat with (S extra). rewrite raw_collect_S, raw_next_sentinel. reflexivity.
  - change (S (List.length (c :: cs)) + extra)%nat with (S (S (List.length cs) + extra)).
    rewrite raw_collect_S, (raw_next_chunk k c cs H1 H2), (IH extra). reflexivity.
Qed.

(* which is the model's q_iter_chunks *)
Corollary raw_iteration_is_q_iter_chunks k (b : bump) :
  Forall (fun c => c_foot c <> k_eaddr k /\ c_ptr c <= c_foot c) (chunks b) ->
  raw_collect k (S (List.length (chunks b))) (footer_val k (chunks b)) = Some (q_iter_chunks b).
Proof.
  intros H. pose proof (raw_iteration_lists_the_chunks k (chunks b) H 0) as E.
  replace (S (List.length (chunks b)) + 0)%nat with (S (List.length (chunks b))) in E by lia. exact E.
Qed.
