(* StringSource.v — String::remove / insert / insert_str / truncate / pop assembled from what /repo's
   source passes to ptr::copy and set_len (LeafActualOk.v: src_string_*_ok; the statements around
   those expressions are pinned by src_frames) and from what those calls do to a buffer (Memmove.v):
   the result is the model's (Utf8.v), for every text, index and spare capacity. *)
From BV Require Import Word Utf8 Utf8Facts Memmove.
From Coq Require Import List Lia Arith ZifyBool ZifyN ZifyNat.
Import ListNotations.

(* offsets relative to the buffer start; the expressions of the source give base + these *)
Definition remove_assembled (s spare : list byte) (i w : N) : list byte :=
  let len := N.of_nat (length s) in
  mlen (mcopy (s ++ spare) (N.to_nat (i + w)) (N.to_nat i) (N.to_nat (len - (i + w)))) (N.to_nat (len - w)).

Definition insert_assembled (s spare : list byte) (i : N) (t : list byte) : list byte :=
  let len := N.of_nat (length s) in
  let amt := N.of_nat (length t) in
  mlen (mwrite (mcopy (s ++ spare) (N.to_nat i) (N.to_nat (i + amt)) (N.to_nat (len - i))) (N.to_nat i) t)
       (N.to_nat (len + amt)).

Theorem remove_is_assembled s spare i rest removed :
  s_remove s i = SRet (rest, removed) ->
  remove_assembled s spare i (N.of_nat (length removed)) = rest /\
  char_len (skipn (N.to_nat i) s) = Some (length removed) /\
  i + N.of_nat (length removed) <= N.of_nat (length s).
Proof.
  unfold s_remove. destruct (is_char_boundary s i && (i <? N.of_nat (length s))) eqn:G; [|discriminate].
  destruct (char_len (skipn (N.to_nat i) s)) as [n|] eqn:C; [|discriminate].
  intros H. injection H as <- <-.
  destruct (char_len_spec _ _ C) as (_ & Hn & _). rewrite skipn_length in Hn.
  apply andb_prop in G. destruct G as [_ G]. apply N.ltb_lt in G.
  assert (L : length (firstn n (skipn (N.to_nat i) s)) = n) by (rewrite firstn_length, skipn_length; lia).
  rewrite L. split; [| split; [reflexivity | lia]].
  unfold remove_assembled.
  replace (N.to_nat (i + N.of_nat n)) with (N.to_nat i + n)%nat by lia.
  replace (N.to_nat (N.of_nat (length s) - (i + N.of_nat n))) with (length s - (N.to_nat i + n))%nat by lia.
  replace (N.to_nat (N.of_nat (length s) - N.of_nat n)) with (length s - n)%nat by lia.
  apply remove_by_memmove. lia.
Qed.

Theorem insert_is_assembled s spare i t r :
  s_insert_str s i t = SRet r -> (length t <= length spare)%nat ->
  insert_assembled s spare i t = r.
Proof.
  unfold s_insert_str. destruct (is_char_boundary s i && (i <=? N.of_nat (length s))) eqn:G; [|discriminate].
  intros H Hs. injection H as <-.
  apply andb_prop in G. destruct G as [_ G]. apply N.leb_le in G.
  unfold insert_assembled.
  replace (N.to_nat (i + N.of_nat (length t))) with (N.to_nat i + length t)%nat by lia.
  replace (N.to_nat (N.of_nat (length s) - i)) with (length s - N.to_nat i)%nat by lia.
  replace (N.to_nat (N.of_nat (length s) + N.of_nat (length t))) with (length s + length t)%nat by lia.
  apply insert_by_memmove; lia.
Qed.

(* the insertion of one char is that of its encoding *)
Corollary insert_char_is_assembled s spare i cp r :
  s_insert s i cp = SRet r -> (length (encode cp) <= length spare)%nat ->
  insert_assembled s spare i (encode cp) = r.
Proof. apply insert_is_assembled. Qed.

(* truncate: the range test of the source, then Vec::truncate = set_len on bytes *)
Theorem truncate_is_assembled s spare n r :
  s_truncate s n = SRet r ->
  r = if n <=? N.of_nat (length s) then mlen (s ++ spare) (N.to_nat n) else s.
Proof.
  unfold s_truncate. destruct (n <=? N.of_nat (length s)) eqn:G.
  - destruct (is_char_boundary s n); [|discriminate]. intros H. injection H as <-.
    unfold mlen. apply N.leb_le in G. symmetry. apply firstn_app_l. lia.
  - intros H. injection H as <-. reflexivity.
Qed.

Example remove_assembled_ex :
  remove_assembled [97; 195; 169; 98] [0; 0] 1 2 = [97; 98] /\ s_remove [97; 195; 169; 98] 1 = SRet ([97; 98], [195; 169]).
Proof. split; reflexivity. Qed.
Example insert_assembled_ex :
  insert_assembled [97; 98] [0; 0; 0] 1 [195; 169] = [97; 195; 169; 98] /\ s_insert_str [97; 98] 1 [195; 169] = SRet [97; 195; 169; 98].
Proof. split; reflexivity. Qed.

(* pop: the last character of the text (`self.chars().rev().next()`) leaves by set_len(len - ch.len_utf8()) *)
From BV Require Import Utf8Enc.
Theorem pop_is_assembled s spare : Valid s ->
  match rev (chars s) with
  | [] => s = [] /\ s_pop s = ([], None)
  | ch :: _ => fst (s_pop s) = mlen (s ++ spare) (length s - length ch) /\ snd (s_pop s) = decode ch /\
               (length ch <= length s)%nat
  end.
Proof.
  intros V. destruct (chars_spec s V) as [Hc Hwf]. unfold s_pop.
  destruct (rev (chars s)) as [|ch before] eqn:E.
  - assert (chars s = []) by (rewrite <- (rev_involutive (chars s)), E; reflexivity).
    rewrite H in Hc. cbn in Hc. subst s. split; reflexivity.
  - assert (Hcs : chars s = rev before ++ [ch]) by (rewrite <- (rev_involutive (chars s)), E; reflexivity).
    assert (Hs : s = concat (rev before) ++ ch).
    { rewrite <- Hc, Hcs, concat_app. cbn [concat]. rewrite app_nil_r. reflexivity. }
    cbn [fst snd]. split; [|split; [reflexivity|]].
    + unfold mlen. assert (L : (length s - length ch)%nat = length (concat (rev before))) by (rewrite Hs, app_length; lia).
      rewrite L. rewrite Hs, <- app_assoc. symmetry. apply firstn_app_exact. reflexivity.
    + rewrite Hs, app_length. lia.
Qed.
