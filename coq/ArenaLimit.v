(* ArenaLimit.v — C07, whole histories: with the crate's own policy, and as long as the limit is
   never set below what is already held, allocated_bytes never exceeds the limit in force. *)
From BV Require Import Word WordFacts ArenaModel ArenaPolicy ArenaPolicyFacts ArenaSpec ArenaTrans ArenaAccounting ArenaGrowth.
From Coq Require Import Lia.

(* what the policy guarantees of every chunk it obtains for an allocation *)
Definition under (k : cfg) (b : bump) (g : greq) : Prop :=
  match limit b with None => True | Some L => g_size g - k_footer k <= L - ab_of b end.

Definition LimInv (b : bump) : Prop :=
  AbInv b /\ match limit b with Some L => ab_of b <= L | None => True end.

(* the limit is only ever set to a value that what is already held respects *)
Definition lim_change_ok (b : bump) (x : option N) : Prop :=
  match x with Some L' => ab_of b <= L' | None => True end.

Lemma gelem_elem k Q a b : gelem k Q a b -> elem k a b.
Proof. intros H; destruct H; constructor. Qed.

Lemma limit_set_ptr b p : limit (set_ptr b p) = limit b.
Proof. unfold set_ptr. destruct (chunks b); reflexivity. Qed.

Lemma ab_of_set_ptr b p : ab_of (set_ptr b p) = ab_of b.
Proof. unfold ab_of. rewrite chunks_set_ptr. destruct (chunks b); reflexivity. Qed.

Lemma gelem_lim k a b : gelem k (under k) a b -> LimInv a -> LimInv b.
Proof.
  intros H [Ha Hl]. split; [exact (elem_ab k a b (gelem_elem k _ a b H) Ha)|].
  destruct H as [b p|b g data HQ|b|b|b ts].
  - rewrite limit_set_ptr, ab_of_set_ptr. exact Hl.
  - cbn [push_chunk limit]. unfold under in HQ. destruct (limit b) as [L|] eqn:EL; [|exact I].
    unfold ab_of at 1. cbn [push_chunk chunks new_chunk c_ab]. lia.
  - unfold reset. destruct (chunks b) as [|c r] eqn:E; cbn [fst limit]; [exact Hl|].
    destruct (limit b) as [L|] eqn:EL; [|exact I]. unfold ab_of in *. rewrite E in Hl. cbn [chunks c_ab].
    unfold AbInv in Ha. rewrite E in Ha. cbn [ab_chain] in Ha. destruct Ha as [Hc _]. lia.
  - cbn [drop_arena fst limit]. destruct (limit b); [|exact I]. unfold ab_of. cbn [chunks]. lia.
  - exact Hl.
Qed.

Theorem limit_history k h b :
  hist_ok k (under k) lim_change_ok b h -> LimInv b -> LimInv (run k b h).
Proof.
  intros Hh Hb. apply (run_ginv k (under k) lim_change_ok LimInv (gelem_lim k)); [|exact Hh | exact Hb].
  intros b0 x Hx [Ha _]. split; [exact Ha|]. cbn [limit]. unfold lim_change_ok in Hx.
  destruct x as [L'|]; [|exact I]. unfold ab_of in *. exact Hx.
Qed.

(* the crate's policy, whatever the allocator answers: every operation consults the policy; the
   constructor with a capacity runs before any limit is set; a limit is never set below what is held *)
Fixpoint crate_limited (k : cfg) (b : bump) (h : list (op * acquirer)) : Prop :=
  match h with
  | [] => True
  | (o, A) :: r =>
      (exists answers, A = policy k answers) /\
      (match o with
       | OWithCapacity _ => limit b = None
       | OSetLimit x => lim_change_ok b x
       | _ => True
       end) /\
      crate_limited k (fst (step k A b o)) r
  end.

Lemma policy_under k answers b o :
  (match o with OWithCapacity _ => limit b = None | _ => True end) ->
  acq_at (policy k answers) b o (under k).
Proof.
  intros Ho w g data reqs Hrel H. unfold under.
  destruct w as [l|cap].
  - pose proof (policy_respects_limit k b l answers g data) as P.
    rewrite H in P. specialize (P eq_refl). exact P.
  - destruct Hrel as [_ ->]. rewrite Ho. exact I.
Qed.

Lemma crate_limited_hist_ok k : forall h b, crate_limited k b h -> hist_ok k (under k) lim_change_ok b h.
Proof.
  induction h as [|[o A] r IH]; intros b H; [exact I|].
  cbn [crate_limited hist_ok] in *. destruct H as ((answers & ->) & Ho & R).
  split; [apply policy_under; destruct o; try exact I; exact Ho|].
  split; [destruct o; try exact I; exact Ho | apply IH, R].
Qed.

(* at every reachable state the bytes held for allocation respect the limit in force *)
Theorem crate_never_exceeds_limit k h :
  crate_limited k fresh h ->
  match limit (run k fresh h) with
  | Some L => q_allocated_bytes (run k fresh h) <= L
  | None => True
  end.
Proof.
  intros H.
  assert (I0 : LimInv fresh) by (split; [exact AbInv_fresh | exact I]).
  destruct (limit_history k h fresh (crate_limited_hist_ok k h fresh H) I0) as [_ HL]. exact HL.
Qed.

(* non-vacuity: a limit of 3000 is set, two chunks fit under it, the request that would need a third
   fails, and allocated_bytes stays below the limit *)
Definition h_lim : list (op * acquirer) :=
  [(OSetLimit (Some 3000), policy k_ex []); (OAlloc (mkLayout 400 1), policy k_ex [Some 4096]);
   (OAlloc (mkLayout 400 1), policy k_ex [Some 8192]); (OAlloc (mkLayout 3000 1), policy k_ex [Some 16384])].

Example crate_limited_example :
  crate_limited k_ex fresh h_lim /\ limit (run k_ex fresh h_lim) = Some 3000 /\
  map c_nswf (chunks (run k_ex fresh h_lim)) = [960; 448] /\ q_allocated_bytes (run k_ex fresh h_lim) = 1408.
Proof.
  split; [|vm_compute; repeat split; reflexivity].
  unfold h_lim. cbn [crate_limited].
  repeat (split; [eexists; reflexivity | split; [try exact I; vm_compute; try discriminate; try reflexivity |]]).
  exact I.
Qed.
