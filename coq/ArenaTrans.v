(* ArenaTrans.v — every operation of the model changes the state only through a
   handful of elementary transitions.  Structural invariants (byte accounting,
   the ledger of what is held) are proved once over these. *)
From BV Require Import Word ArenaModel.
From Coq Require Import Lia.

Inductive elem (k : cfg) : bump -> bump -> Prop :=
| E_ptr b p : elem k b (set_ptr b p)
| E_push b g data : elem k b (push_chunk b (new_chunk k b g data))
| E_reset b : elem k b (fst (reset k b))
| E_drop b : elem k b (fst (drop_arena k b))
| E_limit b o : elem k b (mkBump (chunks b) o (tws b))
| E_tws b ts : elem k b (set_tws b ts).

Inductive path (k : cfg) : bump -> bump -> Prop :=
| P_nil b : path k b b
| P_cons a b c : elem k a b -> path k b c -> path k a c.

Lemma path_one k a b : elem k a b -> path k a b.
Proof. intro H; eapply P_cons; [exact H | apply P_nil]. Qed.

Lemma path_trans k a b c : path k a b -> path k b c -> path k a c.
Proof. induction 1; intros; [assumption | eapply P_cons; eauto]. Qed.

#[export] Hint Resolve P_nil path_one E_ptr E_push E_reset E_drop E_limit E_tws : arena.

Lemma fast_path k b l p b' : fast k b l = Some (p, b') -> path k b b'.
Proof.
  unfold fast; destruct (fast_ptr _ _ _ _); intros H; inversion H; subst; auto with arena.
Qed.

Lemma slow_path k A b l : path k b (fst (slow k A b l)).
Proof.
  unfold slow. destruct (A b (ForLayout l)) as [a reqs]. destruct a; cbn [fst]; auto with arena.
  destruct (fast k _ l) as [[p b2]|] eqn:E; cbn [fst].
  - eapply P_cons; [apply E_push | eapply fast_path; eauto].
  - auto with arena.
Qed.

Lemma try_alloc_path k A b l : path k b (fst (try_alloc k A b l)).
Proof.
  unfold try_alloc. destruct (fast k b l) as [[p b1]|] eqn:E; cbn [fst].
  - eapply fast_path; eauto.
  - apply slow_path.
Qed.

Lemma after_alloc_copy_fst r s n : fst (after_alloc_copy r s n) = fst r.
Proof. unfold after_alloc_copy; destruct (o_res (snd r)); reflexivity. Qed.

Lemma shrink_path k A b p old new : path k b (fst (shrink k A b p old new)).
Proof.
  unfold shrink.
  destruct (l_align old <? l_align new).
  - destruct (p mod l_align new =? 0); cbn [fst]; auto with arena.
    rewrite after_alloc_copy_fst. apply try_alloc_path.
  - destruct (_ && _); cbn [fst]; auto with arena.
Qed.

Lemma grow_path k A b p old new : path k b (fst (grow k A b p old new)).
Proof.
  unfold grow.
  destruct (round_up_to _ _); cbn [fst]; auto with arena.
  destruct (_ && _).
  - destruct (layout_ok _ _); cbn [fst]; auto with arena.
    destruct (fast k b _) as [[q b1]|] eqn:E; cbn [fst].
    + eapply fast_path; eauto.
    + rewrite after_alloc_copy_fst. apply try_alloc_path.
  - rewrite after_alloc_copy_fst. apply try_alloc_path.
Qed.

Lemma grow_zeroed_fst k A b p old new :
  fst (grow_zeroed k A b p old new) = fst (grow k A b p old new).
Proof. unfold grow_zeroed; destruct (o_res _); reflexivity. Qed.

Lemma realloc_path k A b p l n : path k b (fst (realloc k A b p l n)).
Proof.
  unfold realloc. destruct (l_size l =? 0); [apply try_alloc_path|].
  destruct (layout_ok _ _); cbn [fst]; auto with arena.
  destruct (n <=? l_size l); [apply shrink_path | apply grow_path].
Qed.

Lemma with_capacity_path k A b cap : path k b (fst (with_capacity k A b cap)).
Proof.
  unfold with_capacity. destruct (chunks b); cbn [fst]; auto with arena.
  destruct (cap =? 0); cbn [fst]; auto with arena.
  destruct (layout_ok _ _); cbn [fst]; auto with arena.
  destruct (A b (ForCapacity cap)) as [a reqs]; destruct a; cbn [fst]; auto with arena.
Qed.

Lemma tw_begin_path k A b l : path k b (fst (tw_begin k A b l)).
Proof.
  unfold tw_begin. pose proof (try_alloc_path k A b l) as H.
  destruct (try_alloc k A b l) as [b1 o]; cbn [fst snd] in *.
  destruct (o_res o); cbn [fst]; auto.
  eapply path_trans; [exact H|]. apply path_one. apply (E_tws k b1).
Qed.

Lemma tw_end_path k b ok : path k b (fst (tw_end k b ok)).
Proof.
  unfold tw_end. destruct (tws b) as [|t rest]; cbn [fst]; auto with arena.
  destruct ok; cbn [fst]; [auto with arena|].
  destruct (_ =? tw_res t); [|cbn [fst]; auto with arena].
  destruct (_ =? tw_foot t); cbn [fst];
    (eapply P_cons; [apply (E_tws k b rest) | auto with arena]).
Qed.

Theorem step_path k A b o : path k b (fst (step k A b o)).
Proof.
  destruct o; cbn [step].
  - apply with_capacity_path.
  - apply try_alloc_path.
  - unfold dealloc; destruct (_ =? _); cbn [fst]; auto with arena.
  - destruct zeroed; [rewrite grow_zeroed_fst|]; apply grow_path.
  - apply shrink_path.
  - apply realloc_path.
  - auto with arena.
  - cbn [fst]; auto with arena.
  - apply tw_begin_path.
  - apply tw_end_path.
  - auto with arena.
Qed.

(* an invariant preserved by every elementary transition holds along every history *)
Lemma path_inv k (P : bump -> Prop) :
  (forall a b, elem k a b -> P a -> P b) -> forall a b, path k a b -> P a -> P b.
Proof. intros HP a b H; induction H; eauto. Qed.

Theorem run_inv k (P : bump -> Prop) :
  (forall a b, elem k a b -> P a -> P b) ->
  forall h b, P b -> P (run k b h).
Proof.
  intros HP h. unfold run.
  induction h as [|[o A] h IH]; cbn [fold_left fst snd]; intros b Hb; [exact Hb|].
  apply IH. eapply path_inv; eauto. apply step_path.
Qed.
