(* TruncWalkOk.v — the loop of Vec::truncate as /repo's source has it (LeafActual.src_procs,
   "vec_truncate_loop": the `for` statement translated by tools/rs2v.py on every run).  Each round
   first takes one off the length kept by the SetLenOnDrop guard, then steps the pointer back by
   one element and only then runs that element's destructor — which may panic.  For every number
   of elements to drop and every script of returning / panicking destructors the translated loop
   does what VecModel.truncate_loop does: the same elements, from the back, in the same order, the
   length already lowered when a destructor runs, and a panic stops it there. *)
From BV Require Import Word WordFacts VecModel RustSem LeafActual DedupWalkOk.
From Coq Require Import String List Lia Arith ZifyBool ZifyN ZifyNat.
Import ListNotations.
Open Scope string_scope.
Open Scope N_scope.

Definition tloop : list stmt :=
  match lookup "vec_truncate_loop" src_procs with Some p => proc_body p | None => [] end.

Definition tcount : expr := EMeth1 (EVar "current_len") "saturating_sub" (EVar "len").   (* a range a..b has b - a items, none when b < a *)
Definition tbody : list stmt :=
  [SDo "decrement_len" [ELit 1];
   SSet "ptr" (EMeth1 (EVar "ptr") "offset_back" (ELit 1));
   SDoMay "drop_in_place" [EVar "ptr"]].

(* the procedure parsed from the source is this loop *)
Lemma tloop_is : tloop = [SRepeat tcount tbody].
Proof. reflexivity. Qed.

Definition tenv (len cur p : N) : env := [("len", VN len); ("current_len", VN cur); ("ptr", VN p)].
Definition e_dec : effect := ("decrement_len", [VN 1]).
Definition e_drop (p : N) : effect := ("drop_in_place", [VN p]).

Lemma exec_repeat ft f en tr sc n body r :
  exec ft (S f) en tr sc (SRepeat n body :: r) =
  match eval ft FUEL_SEM en n with
  | Ret (VN k) => repf ft f body r (N.to_nat k) en tr sc
  | _ => XStuck
  end.
Proof.
  cbn [exec]. destruct (eval ft FUEL_SEM en n) as [v| | | |]; try reflexivity.
  destruct v; try reflexivity.
  generalize en tr sc. induction (N.to_nat n0) as [|j IH]; intros en0 tr0 sc0; cbn [repf]; [reflexivity|].
  destruct (exec ft f en0 tr0 sc0 body); try reflexivity. apply IH.
Qed.

Lemma exec_domay ft f en tr sc g args r :
  exec ft (S f) en tr sc (SDoMay g args :: r) =
  match eval_args ft en args with
  | Some vs =>
      match sc with
      | Some _ :: sc' => exec ft f en (List.app tr [(g, vs)]) sc' r
      | None :: _ => XPanic en (List.app tr [(g, vs)])
      | [] => XStuck
      end
  | None => XStuck
  end.
Proof. reflexivity. Qed.

(* one round *)
Lemma round_ok len cur p tr b sc f : 1 <= p ->
  exec src_fns (S (S (S (S f)))) (tenv len cur p) tr (Some b :: sc) tbody
  = XOk (tenv len cur (p - 1)) (List.app (List.app tr [e_dec]) [e_drop (p - 1)]) sc.
Proof.
  intros H. apply N.leb_le in H. unfold tbody, e_dec, e_drop.
  rewrite exec_do. cbn [eval_args]. 
  replace (eval src_fns FUEL_SEM (tenv len cur p) (ELit 1)) with (Ret (VN 1)) by reflexivity.
  rewrite exec_set.
  replace (eval src_fns FUEL_SEM (tenv len cur p) (EMeth1 (EVar "ptr") "offset_back" (ELit 1))) with (Ret (VN (p - 1)))
    by (cbv beta iota zeta delta [eval FUEL_SEM tenv lookup bind meth1 String.eqb Ascii.eqb Bool.eqb]; rewrite H; reflexivity).
  replace (upd "ptr" (VN (p - 1)) (tenv len cur p)) with (tenv len cur (p - 1)) by reflexivity.
  rewrite exec_domay.
  replace (eval_args src_fns (tenv len cur (p - 1)) [EVar "ptr"]) with (Some [VN (p - 1)]) by reflexivity.
  rewrite exec_nil. reflexivity.
Qed.

Lemma round_boom len cur p tr sc f : 1 <= p ->
  exec src_fns (S (S (S (S f)))) (tenv len cur p) tr (None :: sc) tbody
  = XPanic (tenv len cur (p - 1)) (List.app (List.app tr [e_dec]) [e_drop (p - 1)]).
Proof.
  intros H. apply N.leb_le in H. unfold tbody, e_dec, e_drop.
  rewrite exec_do. cbn [eval_args].
  replace (eval src_fns FUEL_SEM (tenv len cur p) (ELit 1)) with (Ret (VN 1)) by reflexivity.
  rewrite exec_set.
  replace (eval src_fns FUEL_SEM (tenv len cur p) (EMeth1 (EVar "ptr") "offset_back" (ELit 1))) with (Ret (VN (p - 1)))
    by (cbv beta iota zeta delta [eval FUEL_SEM tenv lookup bind meth1 String.eqb Ascii.eqb Bool.eqb]; rewrite H; reflexivity).
  replace (upd "ptr" (VN (p - 1)) (tenv len cur p)) with (tenv len cur (p - 1)) by reflexivity.
  rewrite exec_domay.
  replace (eval_args src_fns (tenv len cur (p - 1)) [EVar "ptr"]) with (Some [VN (p - 1)]) by reflexivity.
  reflexivity.
Qed.

(* what the loop does, as a function: rounds still to go, pointer, script -> effects, pointer after, panicked *)
Fixpoint trun (j : nat) (p : N) (sc : list (option bool)) : list effect * N * bool :=
  match j with
  | O => ([], p, false)
  | S j' =>
      match sc with
      | [] => ([], p, false)
      | None :: _ => ([e_dec; e_drop (p - 1)], p - 1, true)
      | Some _ :: r => let '(t, q, b) := trun j' (p - 1) r in (e_dec :: e_drop (p - 1) :: t, q, b)
      end
  end.

Theorem rounds_are_trun : forall j len cur p tr sc f,
  (j <= N.to_nat p)%nat -> (j <= List.length sc)%nat ->
  let '(t, q, b) := trun j p sc in
  repf src_fns (S (S (S (S f)))) tbody [] j (tenv len cur p) tr sc =
  if b then XPanic (tenv len cur q) (List.app tr t) else XOk (tenv len cur q) (List.app tr t) (skipn j sc).
Proof.
  induction j as [|j IH]; intros len cur p tr sc f Hp Hs.
  - cbn [trun repf skipn]. rewrite exec_nil, app_nil_r. reflexivity.
  - destruct sc as [|[b|] sc]; [cbn in Hs; lia| |]; cbn [List.length] in Hs; cbn [trun repf].
    + rewrite round_ok by lia.
      specialize (IH len cur (p - 1) (List.app (List.app tr [e_dec]) [e_drop (p - 1)]) sc f ltac:(lia) ltac:(lia)).
      destruct (trun j (p - 1) sc) as [[t q] bb]. rewrite IH.
      rewrite <- !app_assoc. cbn [List.app skipn]. reflexivity.
    + rewrite round_boom by lia. rewrite <- !app_assoc. reflexivity.
Qed.

Theorem loop_is_trun len cur base tr sc f : len <= cur -> base + cur < W ->
  (N.to_nat (cur - len) <= List.length sc)%nat ->
  let '(t, q, b) := trun (N.to_nat (cur - len)) (base + cur) sc in
  exec src_fns (S (S (S (S (S f))))) (tenv len cur (base + cur)) tr sc tloop =
  if b then XPanic (tenv len cur q) (List.app tr t)
  else XOk (tenv len cur q) (List.app tr t) (skipn (N.to_nat (cur - len)) sc).
Proof.
  intros H1 H2 H3. rewrite tloop_is, exec_repeat.
  replace (eval src_fns FUEL_SEM (tenv len cur (base + cur)) tcount) with (Ret (VN (cur - len))).
  2:{ reflexivity. }
  apply rounds_are_trun; lia.
Qed.

(* and that function is VecModel.truncate_loop: elements from the back, the length lowered before each
   destructor runs, a panic stops it.  [ids] answers which element sits at an address; the script
   says which destructors panic (those in boom) *)
Fixpoint drops_of (base : N) (buf : list slot) (t : list effect) : list N :=
  match t with
  | [] => []
  | ("drop_in_place", [VN a]) :: r => get_slot buf (N.to_nat (a - base)) :: drops_of base buf r
  | _ :: r => drops_of base buf r
  end.
Definition decs_of (t : list effect) : nat :=
  List.length (filter (fun e : effect => String.eqb (fst e) "decrement_len") t).

Fixpoint script_for (buf : list slot) (boom : list N) (cur : nat) (j : nat) : list (option bool) :=
  match j with
  | O => []
  | S j' => (if existsb (N.eqb (get_slot buf (cur - 1))) boom then None else Some true)
            :: script_for buf boom (cur - 1) j'
  end.

Theorem trun_is_truncate_loop : forall j buf boom base target cur acc,
  (j <= cur)%nat ->
  let '(t, q, b) := trun j (base + N.of_nat cur) (script_for buf boom cur j) in
  truncate_loop buf boom target cur j acc = ((cur - decs_of t)%nat, List.app acc (drops_of base buf t), b) /\
  q = base + N.of_nat (cur - decs_of t).
Proof.
  induction j as [|j IH]; intros buf boom base target cur acc Hj.
  - cbn [trun script_for truncate_loop drops_of decs_of filter List.length]. rewrite app_nil_r, Nat.sub_0_r. split; reflexivity.
  - cbn [script_for trun truncate_loop].
    assert (Ea : N.to_nat (base + N.of_nat cur - 1 - base) = (cur - 1)%nat) by lia.
    destruct (existsb (N.eqb (get_slot buf (cur - 1))) boom) eqn:E.
    + unfold decs_of. cbn [drops_of filter e_dec e_drop fst String.eqb Ascii.eqb Bool.eqb List.length]. rewrite Ea.
      split; [reflexivity | lia].
    + specialize (IH buf boom base target (cur - 1)%nat (List.app acc [get_slot buf (cur - 1)]) ltac:(lia)).
      replace (base + N.of_nat (cur - 1)) with (base + N.of_nat cur - 1) in IH by lia.
      destruct (trun j (base + N.of_nat cur - 1) (script_for buf boom (cur - 1) j)) as [[t q] b].
      destruct IH as [IH1 IH2]. rewrite IH1.
      unfold decs_of. cbn [drops_of filter e_dec e_drop fst String.eqb Ascii.eqb Bool.eqb List.length]. rewrite Ea.
      fold (decs_of t). split.
      * rewrite <- app_assoc. cbn [List.app]. f_equal. f_equal. lia.
      * rewrite IH2. f_equal. lia.
Qed.

Example trunc_walk_ex :
  exec src_fns 9 (tenv 1 4 (1000 + 4)) [] [Some true; None; Some true] tloop
  = XPanic (tenv 1 4 1002) [e_dec; e_drop 1003; e_dec; e_drop 1002].
Proof. vm_compute. reflexivity. Qed.
