(* ArenaCap.v — capacity: what the current chunk can still serve (C06, C18). *)
From BV Require Import Word WordFacts ArenaModel ArenaFast ArenaSpec ArenaInv ArenaSafe.
From Coq Require Import Lia.

Definition small_req (k : cfg) (l : layout) : Prop :=
  pow2 (l_align l) /\ l_align l <= k_malign k /\ l_size l mod k_malign k = 0.

(* a request that is a multiple of MIN_ALIGN, no more aligned than MIN_ALIGN and no
   larger than chunk_capacity() is served in place: no request to the global
   allocator, whatever the acquirer would have done, whatever the limit *)
Lemma fast_exact k A b c r l :
  cfg_ok k -> chunks b = c :: r -> chunk_ok k c -> small_req k l ->
  l_size l <= q_chunk_capacity k b ->
  let p := c_ptr c - l_size l in
  fst (try_alloc k A b l) = set_ptr b p /\
  o_res (snd (try_alloc k A b l)) = ROk p /\
  o_reqs (snd (try_alloc k A b l)) = [] /\
  q_chunk_capacity k (set_ptr b p) = q_chunk_capacity k b - l_size l.
Proof.
  intros K E Hc (Pa & La & Sm) Hfit p.
  pose proof (cfg_m_nz k K) as Nm. pose proof (cfg_c_nz k K) as Nc.
  unfold q_chunk_capacity, cur_ptr, cur_start in *. rewrite E in Hfit.
  destruct Hc as (C1 & C2 & C3 & C4 & C5 & C6 & C7).
  assert (Dm : k_malign k <= c_data c).
  { pose proof (ko_mc k K). apply mod0_divide in C2; [|exact Nc]. destruct C2 as [q Hq].
    destruct q; [lia|]. nia. }
  pose proof (ko_f k K) as Fp. unfold c_end in C7.
  assert (F : fast_ptr k (c_data c) (c_ptr c) l = Some (c_ptr c - rup (l_size l) (k_malign k))).
  { apply fast_ptr_enough.
    - apply (ko_m k K).
    - exact Pa.
    - exact C4.
    - exact C6.
    - unfold c_foot in *. lia.
    - exact La.
    - rewrite (rup_id _ _ Nm Sm). exact Hfit.
    - unfold c_foot in *. lia. }
  rewrite (rup_id _ _ Nm Sm) in F. fold p in F.
  unfold try_alloc, fast, cur_start, cur_ptr. rewrite E, F. cbn [fst snd o_res o_reqs].
  conj; try reflexivity.
  rewrite chunks_set_ptr', E. cbn [with_ptr c_ptr c_data]. unfold p. lia.
Qed.

(* serving a whole list of such requests *)
Fixpoint serve (k : cfg) (A : acquirer) (b : bump) (ls : list layout) : bump * bool :=
  match ls with
  | [] => (b, true)
  | l :: rest =>
      let r := try_alloc k A b l in
      match o_res (snd r), o_reqs (snd r) with
      | ROk _, [] => serve k A (fst r) rest
      | _, _ => (fst r, false)
      end
  end.

Theorem capacity_honoured k A ls : forall b c r,
  cfg_ok k -> chunks b = c :: r -> chunk_ok k c ->
  Forall (small_req k) ls ->
  sumN (map l_size ls) <= q_chunk_capacity k b ->
  snd (serve k A b ls) = true.
Proof.
  induction ls as [|l rest IH]; intros b c r K E Hc Hs Hsum; cbn [serve]; [reflexivity|].
  inversion Hs as [|? ? Hl Hrest]; subst. cbn [map sumN fold_right] in Hsum.
  assert (Hfit : l_size l <= q_chunk_capacity k b) by (unfold sumN in Hsum; lia).
  destruct (fast_exact k A b c r l K E Hc Hl Hfit) as (E1 & E2 & E3 & E4).
  rewrite E2, E3, E1.
  pose proof (cfg_m_nz k K) as Nm. destruct Hl as (_ & _ & Sm).
  assert (Hc' : chunk_ok k (with_ptr c (c_ptr c - l_size l))).
  { unfold q_chunk_capacity, cur_ptr, cur_start in Hfit. rewrite E in Hfit.
    assert (Hcc := Hc). destruct Hcc as (C1 & C2 & C3 & C4 & C5 & C6 & C7).
    apply chunk_ok_with_ptr; try assumption; try lia.
    apply mod0_sub; assumption. }
  eapply (IH _ (with_ptr c (c_ptr c - l_size l)) r K); try assumption.
  - rewrite chunks_set_ptr', E. reflexivity.
  - rewrite E4. unfold sumN in *. lia.
Qed.

(* chunk_capacity() never overstates: a request of exactly that many bytes fits *)
Theorem capacity_exact k A b c r a :
  cfg_ok k -> chunks b = c :: r -> chunk_ok k c -> pow2 a -> a <= k_malign k ->
  o_res (snd (try_alloc k A b (mkLayout (q_chunk_capacity k b) a))) = ROk (c_data c) /\
  o_reqs (snd (try_alloc k A b (mkLayout (q_chunk_capacity k b) a))) = [].
Proof.
  intros K E Hc Pa La.
  pose proof (cfg_m_nz k K) as Nm. pose proof (cfg_c_nz k K) as Nc.
  assert (Hcc := Hc). destruct Hcc as (C1 & C2 & C3 & C4 & C5 & C6 & C7).
  assert (Cm : c_data c mod k_malign k = 0).
  { eapply mod0_trans; [exact Nm | exact Nc | apply (cfg_m_div_c k K) | exact C2]. }
  assert (S : small_req k (mkLayout (q_chunk_capacity k b) a)).
  { split; [exact Pa|]. split; [exact La|]. cbn [l_size].
    unfold q_chunk_capacity, cur_ptr, cur_start. rewrite E. apply mod0_sub; assumption. }
  destruct (fast_exact k A b c r _ K E Hc S (N.le_refl _)) as (_ & E2 & E3 & _).
  cbn [l_size] in *. rewrite E2, E3. split; [|reflexivity].
  f_equal. unfold q_chunk_capacity, cur_ptr, cur_start. rewrite E. lia.
Qed.

(* after reset the whole chunk can be handed out again without the global allocator *)
Theorem reset_full_capacity k A b c r ls :
  cfg_ok k -> chunks b = c :: r -> chunk_ok k c ->
  Forall (small_req k) ls -> sumN (map l_size ls) <= c_nswf c ->
  snd (serve k A (fst (reset k b)) ls) = true.
Proof.
  intros K E Hc Hs Hsum.
  pose proof (chunk_foot_aligned k c K Hc) as Fa.
  assert (Hcc := Hc). destruct Hcc as (C1 & C2 & C3 & C4 & C5 & C6 & C7).
  unfold reset. rewrite E. cbn [fst].
  eapply (capacity_honoured k A ls _ (mkChunk (c_data c) (c_nswf c) (c_align c) (c_foot c) (c_nswf c)) []);
    [exact K | reflexivity | | exact Hs |].
  - unfold chunk_ok, c_end, c_foot in *; cbn [c_data c_nswf c_ptr c_align]. conj; try assumption; lia.
  - unfold q_chunk_capacity, cur_ptr, cur_start, c_foot. cbn [chunks c_ptr c_data c_nswf]. lia.
Qed.
