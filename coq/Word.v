(* Word.v — 64-bit machine arithmetic used by the bumpalo models.
   No proofs here (see WordFacts.v); every definition is executable. *)
From Coq Require Export NArith List Bool.
Export ListNotations.
Open Scope N_scope.

Definition W : N := 18446744073709551616.          (* 2^64 *)
Definition USIZE_MAX : N := 18446744073709551615.  (* 2^64 - 1 *)
Definition ISIZE_MAX : N := 9223372036854775807.   (* 2^63 - 1 *)

(* usize::wrapping_sub / wrapping_add on values below W *)
Definition wsub (a b : N) : N := (a + W - b) mod W.
Definition wadd (a b : N) : N := (a + b) mod W.

Definition checked_add (a b : N) : option N :=
  if a + b <? W then Some (a + b) else None.
Definition checked_mul (a b : N) : option N :=
  if a * b <? W then Some (a * b) else None.

(* usize::is_power_of_two *)
Definition pow2b (a : N) : bool := (0 <? a) && (a =? 2 ^ N.log2 a).

(* round_down_to(n, d) = n & !(d - 1), for d a power of two: div/mod form.
   WordFacts.mask_rdown proves the mask form equal to this one. *)
Definition rdown (n d : N) : N := (n / d) * d.
(* the code's literal mask forms *)
Definition rdown_mask (n d : N) : N := N.ldiff n (d - 1).
Definition low_mask (n d : N) : N := N.land n (d - 1).

(* round_up_to(n, d): checked_add(d - 1) then mask *)
Definition round_up_to (n d : N) : option N :=
  match checked_add n (d - 1) with
  | Some x => Some (rdown x d)
  | None => None
  end.
(* round_up_to_unchecked: caller guarantees no overflow *)
Definition rup (n d : N) : N := rdown (n + (d - 1)) d.

(* usize::next_power_of_two (for arguments <= 2^63) *)
Definition npow2 (n : N) : N := if n <=? 1 then 1 else 2 ^ (N.log2 (n - 1) + 1).

(* core::alloc::Layout *)
Record layout := mkLayout { l_size : N; l_align : N }.

(* Layout::from_size_align(size, align).is_ok() *)
Definition layout_ok (size align : N) : bool :=
  pow2b align && (align <? W) && (size <=? ISIZE_MAX - (align - 1)).
Definition lay_ok (l : layout) : bool := layout_ok (l_size l) (l_align l).

(* Layout::array::<T>(n) for an element of size es and alignment ea
   (es a multiple of ea, as for every Rust type) *)
Definition layout_array (es ea n : N) : option layout :=
  match checked_mul es n with
  | Some sz => if layout_ok sz ea then Some (mkLayout sz ea) else None
  | None => None
  end.
