(* Conc.v — several arenas (C20).  A world is a list of arenas; a step acts on
   one of them.  What an arena does and reports depends only on its own state
   and on the answers the global allocator gave to its own requests. *)
From BV Require Import Word ArenaModel ArenaSpec ArenaStruct.
From Coq Require Import Lia Arith PeanoNat.

Definition world := list bump.

Fixpoint update {A} (l : list A) (i : nat) (x : A) : list A :=
  match l, i with
  | [], _ => []
  | _ :: r, O => x :: r
  | y :: r, S j => y :: update r j x
  end.

Lemma nth_update_same {A} (l : list A) i x y : nth_error l i = Some y -> nth_error (update l i x) i = Some x.
Proof.
  revert i. induction l as [|z r IH]; intros [|j] H; cbn in *; try discriminate; [reflexivity | apply IH; exact H].
Qed.

Lemma nth_update_other {A} (l : list A) i j x : i <> j -> nth_error (update l i x) j = nth_error l j.
Proof.
  revert i j. induction l as [|z r IH]; intros [|i] [|j] H; cbn; try reflexivity; try contradiction.
  apply IH. congruence.
Qed.

Definition BAD_NO_ARENA : N := 99.

Definition wstep (k : cfg) (w : world) (i : nat) (A : acquirer) (o : op) : world * out :=
  match nth_error w i with
  | Some b => let r := step k A b o in (update w i (fst r), snd r)
  | None => (w, out_of (RBad BAD_NO_ARENA))
  end.

(* frame: a step on arena i leaves every other arena exactly as it was *)
Theorem wstep_frame k w i j A o : i <> j -> nth_error (fst (wstep k w i A o)) j = nth_error w j.
Proof.
  intros H. unfold wstep. destruct (nth_error w i); cbn [fst]; [apply nth_update_other; exact H | reflexivity].
Qed.

(* locality: the result and the new state of arena i are those of the solo step *)
Theorem wstep_local k w i A o b :
  nth_error w i = Some b ->
  snd (wstep k w i A o) = snd (step k A b o) /\
  nth_error (fst (wstep k w i A o)) i = Some (fst (step k A b o)).
Proof.
  intros H. unfold wstep. rewrite H. cbn [fst snd]. split; [reflexivity|].
  eapply nth_update_same. exact H.
Qed.

(* interleaved histories: each event names the arena it acts on *)
Definition event := (nat * (op * acquirer))%type.

Definition wrun (k : cfg) (w : world) (h : list event) : world :=
  fold_left (fun w e => fst (wstep k w (fst e) (snd (snd e)) (fst (snd e)))) h w.

Definition proj (i : nat) (h : list event) : list (op * acquirer) :=
  map snd (filter (fun e => Nat.eqb (fst e) i) h).

(* any interleaving projects to the solo run: arena i ends in the state it would
   reach running only its own operations *)
Theorem wrun_projection k h : forall w i b,
  nth_error w i = Some b ->
  (forall e, In e h -> nth_error w (fst e) <> None) ->
  nth_error (wrun k w h) i = Some (run k b (proj i h)).
Proof.
  induction h as [|[j [o A]] r IH]; intros w i b Hb Hall; cbn [wrun fold_left proj filter map fst snd run].
  - exact Hb.
  - fold (wrun k (fst (wstep k w j A o)) r).
    assert (Hall' : forall e, In e r -> nth_error (fst (wstep k w j A o)) (fst e) <> None).
    { intros e He. specialize (Hall e (or_intror He)).
      unfold wstep. destruct (nth_error w j) as [bj|] eqn:Ej; cbn [fst]; [|exact Hall].
      destruct (Nat.eq_dec j (fst e)) as [<-|Hne].
      - rewrite (nth_update_same _ _ _ _ Ej). discriminate.
      - rewrite nth_update_other by exact Hne. exact Hall. }
    destruct (Nat.eqb j i) eqn:Eji.
    + apply Nat.eqb_eq in Eji. subst j.
      destruct (wstep_local k w i A o b Hb) as [_ Hn].
      cbn [map fold_left fst snd]. rewrite (IH _ i _ Hn Hall'). reflexivity.
    + apply Nat.eqb_neq in Eji.
      apply IH; [|exact Hall']. rewrite wstep_frame by exact Eji. exact Hb.
Qed.

(* footprint: every finger store of a step lands in a footer of the arena acted on *)
Theorem wstep_stores_owned k w i A o b' :
  nth_error (fst (wstep k w i A o)) i = Some b' ->
  nth_error w i <> None ->
  Forall (own_footer b') (o_stores (snd (wstep k w i A o))).
Proof.
  intros Hn Hi. destruct (nth_error w i) as [b|] eqn:E; [|contradiction].
  destruct (wstep_local k w i A o b E) as [Hs Hn']. rewrite Hs.
  rewrite Hn in Hn'. inversion Hn'; subst. apply step_stores_owned.
Qed.
