(* BoxSourceOk.v — the statements of /repo's boxed.rs that the Box model (BoxModel.v) stands for,
   pinned as text in LeafActual.v (regenerated on every run): Drop runs the destructor and nothing
   else; new_in makes one arena allocation; into_raw forgets the box and hands out its pointer,
   from_raw wraps one; leak and into_inner go through into_raw (so neither drops); the array→slice
   conversion keeps pointer and length N; slice→array succeeds iff len() == N and otherwise returns the
   slice itself; downcast (both flavours) succeeds iff is::<T>() and otherwise returns self. *)
From BV Require Import RustSem LeafActual.
From Coq Require Import String List.
Import ListNotations.

Lemma src_frames_box_ok : forallb snd src_frames_box = true.
Proof. vm_compute. reflexivity. Qed.

Lemma src_frames_box_names :
  map fst src_frames_box =
  ["box_drop_runs_destructor_only"; "box_new_allocates_in_arena"; "box_into_inner_reads_out";
   "box_from_raw_wraps"; "box_into_raw_forgets"; "box_leak_is_into_raw"; "box_array_to_slice";
   "box_slice_to_array"; "box_downcast_any"; "box_downcast_any_send"]%string.
Proof. reflexivity. Qed.
