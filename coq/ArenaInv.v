(* ArenaInv.v — the safety invariant of the arena model: definitions and the
   basic lemmas (lists, chunks, placement of blocks). *)
From BV Require Import Word WordFacts ArenaModel ArenaFast ArenaSpec.
From Coq Require Import Lia.

(* ---------- configuration ---------- *)
Record cfg_ok (k : cfg) : Prop := mk_cfg_ok {
  ko_m  : pow2 (k_malign k);
  ko_c  : pow2 (k_calign k);
  ko_mc : k_malign k <= k_calign k;
  ko_f  : 0 < k_footer k;
  ko_e  : k_eaddr k mod k_malign k = 0;   (* the static is aligned to MIN_ALIGN *)
  ko_e0 : 0 < k_eaddr k;
  ko_ew : k_eaddr k + k_footer k <= W
}.

Definition cfg_okb (k : cfg) : bool :=
  pow2b (k_malign k) && pow2b (k_calign k) && (k_malign k <=? k_calign k) &&
  (0 <? k_footer k) && (k_eaddr k mod k_malign k =? 0) && (0 <? k_eaddr k) &&
  (k_eaddr k + k_footer k <=? W).

Lemma cfg_okb_ok k : cfg_okb k = true -> cfg_ok k.
Proof.
  unfold cfg_okb. intros H.
  rewrite !andb_true_iff in H. destruct H as [[[[[[H1 H2] H3] H4] H5] H6] H7].
  constructor.
  - apply pow2b_pow2; exact H1.
  - apply pow2b_pow2; exact H2.
  - apply N.leb_le; exact H3.
  - apply N.ltb_lt; exact H4.
  - apply N.eqb_eq; exact H5.
  - apply N.ltb_lt; exact H6.
  - apply N.leb_le; exact H7.
Qed.

Lemma cfg_m_nz k : cfg_ok k -> k_malign k <> 0.
Proof. intros H. apply pow2_nz. apply (ko_m k H). Qed.
Lemma cfg_c_nz k : cfg_ok k -> k_calign k <> 0.
Proof. intros H. apply pow2_nz. apply (ko_c k H). Qed.
Lemma cfg_m_div_c k : cfg_ok k -> (k_malign k | k_calign k).
Proof. intros H. apply pow2_divide; [apply (ko_m k H) | apply (ko_c k H) | apply (ko_mc k H)]. Qed.

(* ---------- generic list predicates ---------- *)
Fixpoint pairwise {A} (R : A -> A -> Prop) (l : list A) : Prop :=
  match l with
  | [] => True
  | x :: r => Forall (R x) r /\ pairwise R r
  end.

Lemma pairwise_app_cons {A} (R : A -> A -> Prop) (Rsym : forall a b, R a b -> R b a) l1 x l2 :
  pairwise R (l1 ++ x :: l2) <-> Forall (R x) (l1 ++ l2) /\ pairwise R (l1 ++ l2).
Proof.
  induction l1 as [|y l1 IH]; cbn [app pairwise].
  - tauto.
  - rewrite IH. rewrite !Forall_app. rewrite !Forall_cons_iff. rewrite Forall_app.
    split.
    + intros [[Hy1 [Hyx Hy2]] [[H1 H2] Hp]]. repeat split; auto.
    + intros [[Hxy [H1 H2]] [[Hy1 Hy2] Hp]]. repeat split; auto.
Qed.

Lemma Forall_remove {A} (P : A -> Prop) (f : A -> bool) l :
  Forall P l -> Forall P (filter f l).
Proof. induction 1; cbn; [constructor | destruct (f x); auto]. Qed.

(* ---------- chunks ---------- *)
Definition c_end (k : cfg) (c : chunk) : N := c_foot c + k_footer k.

Definition chunk_ok (k : cfg) (c : chunk) : Prop :=
  0 < c_data c /\
  c_data c mod k_calign k = 0 /\
  c_nswf c mod k_calign k = 0 /\
  c_data c <= c_ptr c /\ c_ptr c <= c_foot c /\
  c_ptr c mod k_malign k = 0 /\
  c_end k c <= W.

Definition rng_disj (a1 e1 a2 e2 : N) : Prop := e1 <= a2 \/ e2 <= a1.

Definition chunk_disj (k : cfg) (c c' : chunk) : Prop :=
  rng_disj (c_data c) (c_end k c) (c_data c') (c_end k c').
Definition chunk_off_static (k : cfg) (c : chunk) : Prop :=
  rng_disj (c_data c) (c_end k c) (k_eaddr k) (k_eaddr k + k_footer k).

Definition ChunksInv (k : cfg) (cs : list chunk) : Prop :=
  Forall (chunk_ok k) cs /\ Forall (chunk_off_static k) cs /\ pairwise (chunk_disj k) cs.

Lemma chunk_disj_sym k a b : chunk_disj k a b -> chunk_disj k b a.
Proof. unfold chunk_disj, rng_disj. tauto. Qed.

Lemma chunk_foot_aligned k c : cfg_ok k -> chunk_ok k c -> c_foot c mod k_malign k = 0.
Proof.
  intros K (_ & Hd & Hn & _). unfold c_foot.
  eapply mod0_trans; [apply (cfg_m_nz k K) | apply (cfg_c_nz k K) | apply (cfg_m_div_c k K) |].
  apply mod0_add; [apply (cfg_c_nz k K) | assumption | assumption].
Qed.

(* changing only the finger of a chunk *)
Lemma chunk_ok_with_ptr k c f :
  chunk_ok k c -> c_data c <= f -> f <= c_foot c -> f mod k_malign k = 0 ->
  chunk_ok k (with_ptr c f).
Proof.
  unfold chunk_ok, with_ptr, c_end, c_foot; cbn [c_data c_nswf c_ptr c_align].
  intros (H1 & H2 & H3 & H4 & H5 & H6 & H7) A B C. repeat split; assumption.
Qed.

Lemma ChunksInv_with_ptr k c r f :
  ChunksInv k (c :: r) -> c_data c <= f -> f <= c_foot c -> f mod k_malign k = 0 ->
  ChunksInv k (with_ptr c f :: r).
Proof.
  intros (Hok & Hst & Hpw) A B C. cbn [pairwise] in Hpw. destruct Hpw as [Hd Hp].
  inversion Hok as [|? ? Hc Hr]; subst. inversion Hst as [|? ? Hs Hsr]; subst.
  split; [|split].
  - constructor; [apply chunk_ok_with_ptr; assumption | assumption].
  - constructor; [exact Hs | assumption].
  - cbn [pairwise]. split; [exact Hd | exact Hp].
Qed.

(* ---------- blocks ---------- *)
Definition blk_in (c : chunk) (b : blk) : Prop :=
  c_ptr c <= fst b /\ fst b + snd b <= c_foot c.

(* every block is at a non-null, MIN_ALIGN-aligned address; one of non-zero size
   sits in the allocated part of one chunk *)
Definition placed (k : cfg) (cs : list chunk) (b : blk) : Prop :=
  0 < fst b /\ fst b mod k_malign k = 0 /\
  (snd b = 0 \/ exists c, In c cs /\ blk_in c b).

Definition bdisj (a b : blk) : Prop :=
  snd a = 0 \/ snd b = 0 \/ fst a + snd a <= fst b \/ fst b + snd b <= fst a.

Lemma bdisj_sym a b : bdisj a b -> bdisj b a.
Proof. unfold bdisj. tauto. Qed.

Definition BlocksInv (k : cfg) (cs : list chunk) (bl : list blk) : Prop :=
  Forall (placed k cs) bl /\ pairwise bdisj bl.

(* a block inside another inherits its disjointness *)
Lemma bdisj_inside a a' b :
  fst a <= fst a' -> fst a' + snd a' <= fst a + snd a -> bdisj a b -> bdisj a' b.
Proof. unfold bdisj. intros. destruct (N.eq_dec (snd a') 0); lia. Qed.

(* removing the first occurrence of a block *)
Fixpoint remove_blk (b : blk) (l : list blk) : list blk :=
  match l with
  | [] => []
  | x :: r => if (fst x =? fst b) && (snd x =? snd b) then r else x :: remove_blk b r
  end.

Lemma remove_blk_incl b l x : In x (remove_blk b l) -> In x l.
Proof.
  induction l as [|y r IH]; cbn; [tauto|].
  destruct (_ && _); cbn; [tauto|]. intros [->|H]; [left; reflexivity | right; auto].
Qed.

Lemma Forall_remove_blk (P : blk -> Prop) b l : Forall P l -> Forall P (remove_blk b l).
Proof.
  intros H. apply Forall_forall. intros x Hx. apply remove_blk_incl in Hx.
  rewrite Forall_forall in H. auto.
Qed.

Lemma pairwise_remove_blk (R : blk -> blk -> Prop) b l :
  pairwise R l -> pairwise R (remove_blk b l).
Proof.
  induction l as [|y r IH]; cbn [remove_blk pairwise]; [tauto|].
  intros [Hy Hr]. destruct (_ && _); [exact Hr|].
  cbn [pairwise]. split; [apply Forall_remove_blk; exact Hy | apply IH; exact Hr].
Qed.

(* the removed block was related to everything that remains *)
Lemma pairwise_removed (R : blk -> blk -> Prop) (Rsym : forall a b, R a b -> R b a) b l :
  pairwise R l -> In b l -> Forall (R b) (remove_blk b l).
Proof.
  induction l as [|y r IH]; cbn [remove_blk pairwise In]; [tauto|].
  intros [Hy Hr] Hin.
  destruct ((fst y =? fst b) && (snd y =? snd b)) eqn:E.
  - apply andb_prop in E. destruct E as [E1 E2]. apply N.eqb_eq in E1, E2.
    assert (y = b) by (destruct y, b; cbn in *; congruence). subst y. exact Hy.
  - destruct Hin as [->|Hin].
    + rewrite !N.eqb_refl in E. discriminate.
    + constructor.
      * apply Rsym. rewrite Forall_forall in Hy. apply Hy. exact Hin.
      * apply IH; assumption.
Qed.

Lemma placed_weaken k cs cs' b :
  (forall c, In c cs -> blk_in c b -> exists c', In c' cs' /\ blk_in c' b) ->
  placed k cs b -> placed k cs' b.
Proof.
  intros H (P0 & A & [Z|(c & Hc & Hb)]); (split; [exact P0|split; [exact A|]]); [left; exact Z|].
  right. apply (H c Hc Hb).
Qed.

(* pushing a chunk keeps every block placed *)
Lemma placed_push k cs c b : placed k cs b -> placed k (c :: cs) b.
Proof.
  apply placed_weaken. intros c0 H0 Hb. exists c0. split; [right; exact H0 | exact Hb].
Qed.

(* moving the finger of the current chunk down keeps every block placed *)
Lemma placed_ptr_down k c r f b :
  f <= c_ptr c -> placed k (c :: r) b -> placed k (with_ptr c f :: r) b.
Proof.
  intros Hf. apply placed_weaken. intros c0 [<-|H0] Hb.
  - exists (with_ptr c f). split; [left; reflexivity|].
    unfold blk_in, with_ptr, c_foot in *; cbn [c_ptr c_data c_nswf] in *. lia.
  - exists c0. split; [right; exact H0 | exact Hb].
Qed.

(* a placed non-empty block lies inside the address range of its chunk *)
Lemma blk_in_range k c b : chunk_ok k c -> blk_in c b ->
  c_data c <= fst b /\ fst b + snd b <= c_foot c.
Proof. unfold chunk_ok, blk_in. intros (_ & _ & _ & H & _) [A B]. lia. Qed.

(* which chunk holds a block whose address is the current finger *)
Lemma blk_at_finger_in_cur k c r b :
  cfg_ok k -> ChunksInv k (c :: r) -> snd b <> 0 -> placed k (c :: r) b -> fst b = c_ptr c ->
  blk_in c b.
Proof.
  intros K (Hok & _ & Hpw) Hnz (_ & _ & [Z|(c0 & [<-|Hin] & Hb)]) E; [contradiction | exact Hb |].
  exfalso. cbn [pairwise] in Hpw. destruct Hpw as [Hd _].
  rewrite Forall_forall in Hd. specialize (Hd c0 Hin).
  inversion Hok as [|? ? Hc Hr]; subst. rewrite Forall_forall in Hr. specialize (Hr c0 Hin).
  pose proof (blk_in_range k c0 b Hr Hb) as [B1 B2].
  destruct Hc as (_ & _ & _ & C1 & C2 & _). destruct Hr as (_ & _ & _ & _ & _ & _ & R7).
  pose proof (ko_f k K). unfold chunk_disj, rng_disj, c_end in *. lia.
Qed.
