(* ArenaUniform.v — C10, byte-exact clause: when every request has one alignment Au
   (MIN_ALIGN <= Au <= CHUNK_ALIGN) and a size that is a multiple of it, the slices that
   chunk iteration yields grow by exactly the bytes allocated: no padding before,
   between or after the objects. *)
From BV Require Import Word WordFacts ArenaModel ArenaFast ArenaSpec ArenaInv ArenaSafe.
From Coq Require Import Lia.

Definition iter_total (b : bump) : N := sumN (map snd (q_iter_chunks b)).

Lemma fold_left_add_sum (l : list (N * N)) a :
  fold_left (fun acc s => acc + snd s) l a = a + sumN (map snd l).
Proof.
  revert a. induction l as [|x r IH]; intros a; cbn [fold_left map sumN fold_right]; [lia|].
  rewrite IH. unfold sumN. lia.
Qed.

Lemma sp_iter_exact_total b n : sp_iter_exact (q_iter_chunks b) n = true <-> iter_total b = n.
Proof. unfold sp_iter_exact, iter_total. rewrite fold_left_add_sum, N.eqb_eq. lia. Qed.

Definition uni_cfg (k : cfg) (Au : N) : Prop := pow2 Au /\ k_malign k <= Au /\ Au <= k_calign k.
Definition uni_req (Au : N) (l : layout) : Prop := l_align l = Au /\ l_size l mod Au = 0.
Definition uni_state (Au : N) (b : bump) : Prop := Forall (fun c => c_ptr c mod Au = 0) (chunks b).

(* with a finger that is already Au-aligned the fast path subtracts exactly the size *)
Lemma fast_ptr_uniform k start ptr l Au :
  pow2 (k_malign k) -> uni_cfg k Au -> uni_req Au l -> ptr mod Au = 0 -> start <= ptr ->
  fast_ptr k start ptr l = if ptr - start <? l_size l then None else Some (ptr - l_size l).
Proof.
  intros Pm (Pa & Lm & _) (Ea & Es) Hp Hsp. unfold fast_ptr. rewrite Ea.
  pose proof (pow2_nz _ Pa) as Na.
  assert (R : rup (l_size l) Au = l_size l) by (apply rup_id; assumption).
  assert (D : rdown ptr Au = ptr) by (apply rdown_id; assumption).
  destruct (Au ?= k_malign k) eqn:C.
  - rewrite R. reflexivity.
  - rewrite N.compare_lt_iff in C. exfalso. lia.
  - rewrite R, D. replace (ptr <? start) with false by (symmetry; apply N.ltb_ge; exact Hsp).
    reflexivity.
Qed.

Lemma iter_total_cons b c r : chunks b = c :: r ->
  iter_total b = (c_foot c - c_ptr c) + sumN (map snd (map (fun c => (c_ptr c, c_foot c - c_ptr c)) r)).
Proof. intros E. unfold iter_total, q_iter_chunks. rewrite E. reflexivity. Qed.

Lemma fast_uniform k b l Au p b' :
  cfg_ok k -> ChunksInv k (chunks b) -> uni_cfg k Au -> uni_req Au l -> uni_state Au b ->
  fast k b l = Some (p, b') ->
  uni_state Au b' /\ iter_total b' = iter_total b + l_size l.
Proof.
  intros K HC U Rq St F.
  assert (Pa : pow2 (l_align l)) by (destruct U as (P & _), Rq as (-> & _); exact P).
  destruct (fast_facts k b l p b' K HC Pa F) as (_ & _ & _ & _ & _ & Hm).
  unfold fast in F. destruct (fast_ptr k (cur_start k b) (cur_ptr k b) l) as [q|] eqn:FP; [|discriminate].
  inversion F; subst q b'; clear F.
  unfold cur_start, cur_ptr in FP. destruct (chunks b) as [|c r] eqn:EC.
  - destruct Hm as (Ec & _ & Z). unfold uni_state, iter_total, q_iter_chunks. rewrite Ec, EC. cbn. split; [constructor | lia].
  - destruct Hm as (Ec & M1 & M2).
    unfold uni_state in St. rewrite EC in St. inversion St as [|? ? Sc Sr]; subst.
    destruct HC as (Hok & _). inversion Hok as [|? ? Hc _]; subst.
    destruct Hc as (_ & _ & _ & C4 & C5 & _).
    rewrite (fast_ptr_uniform k (c_data c) (c_ptr c) l Au (ko_m k K) U Rq Sc C4) in FP.
    destruct (c_ptr c - c_data c <? l_size l) eqn:E; [discriminate|]. inversion FP; subst p; clear FP.
    apply N.ltb_ge in E. destruct U as (PA & _), Rq as (_ & Es). pose proof (pow2_nz _ PA) as Na.
    split.
    + unfold uni_state. rewrite Ec. constructor; [|exact Sr]. cbn [with_ptr c_ptr].
      apply mod0_sub; assumption.
    + unfold iter_total, q_iter_chunks, sumN. rewrite Ec, EC. cbn [map snd fold_right].
      unfold with_ptr, c_foot in *; cbn [c_ptr c_data c_nswf] in *. lia.
Qed.

(* C10: one allocation of a uniform history: the slices grow by exactly its size, or not at
   all when it fails — whichever path serves it, whatever the global allocator answers *)
Theorem uniform_alloc_exact k A Au b l :
  cfg_ok k -> ChunksInv k (chunks b) -> A_ok k A b ->
  uni_cfg k Au -> uni_req Au l -> uni_state Au b ->
  let r := try_alloc k A b l in
  uni_state Au (fst r) /\
  iter_total (fst r) = iter_total b + (match o_res (snd r) with ROk _ => l_size l | _ => 0 end).
Proof.
  intros K HC HA U Rq St. unfold try_alloc.
  destruct (fast k b l) as [[p b1]|] eqn:F; cbn [fst snd o_res].
  - apply (fast_uniform k b l Au p b1 K HC U Rq St F).
  - unfold slow. destruct (A b (ForLayout l)) as [a reqs] eqn:EA.
    destruct a as [|w|g data]; cbn [fst snd o_res]; try (split; [exact St | lia]).
    assert (Hf : fresh_chunk_ok k b g data) by (apply (HA (ForLayout l)); rewrite EA; reflexivity).
    destruct (new_chunk_inv k b g data K HC Hf) as (C1 & Ptop & Efoot).
    set (nc := new_chunk k b g data) in *. set (b1 := push_chunk b nc).
    assert (Fa : c_foot nc mod Au = 0).
    { destruct C1 as (Hok & _). inversion Hok as [|? ? Hnc _]; subst.
      destruct Hnc as (_ & D1 & D2 & _). destruct U as (PA & _ & Lc).
      eapply mod0_trans; [apply (pow2_nz _ PA) | apply (cfg_c_nz k K) | apply pow2_divide; [exact PA | apply (ko_c k K) | exact Lc] |].
      unfold c_foot. apply mod0_add; [apply (cfg_c_nz k K) | exact D1 | exact D2]. }
    assert (St1 : uni_state Au b1).
    { unfold uni_state, b1. cbn [push_chunk chunks]. constructor; [rewrite Ptop; exact Fa | exact St]. }
    assert (T1 : iter_total b1 = iter_total b).
    { unfold iter_total, q_iter_chunks, b1, sumN. cbn [push_chunk chunks map snd fold_right]. rewrite Ptop. lia. }
    destruct (fast k b1 l) as [[p b2]|] eqn:F2; cbn [fst snd o_res].
    + destruct (fast_uniform k b1 l Au p b2 K C1 U Rq St1 F2) as [S2 T2]. split; [exact S2 | lia].
    + split; [exact St1 | lia].
Qed.

(* reset: nothing is allocated any more, and the finger of the chunk kept is aligned for every Au *)
Theorem uniform_reset k Au b :
  cfg_ok k -> ChunksInv k (chunks b) -> uni_cfg k Au ->
  uni_state Au (fst (reset k b)) /\ iter_total (fst (reset k b)) = 0.
Proof.
  intros K HC U. unfold reset. destruct (chunks b) as [|c r] eqn:EC; cbn [fst].
  - unfold uni_state, iter_total, q_iter_chunks. rewrite EC. cbn. split; [constructor | reflexivity].
  - destruct HC as (Hok & _). inversion Hok as [|? ? Hc _]; subst.
    destruct Hc as (_ & D1 & D2 & _). destruct U as (PA & _ & Lc).
    assert (Fa : c_foot c mod Au = 0).
    { eapply mod0_trans; [apply (pow2_nz _ PA) | apply (cfg_c_nz k K) | apply pow2_divide; [exact PA | apply (ko_c k K) | exact Lc] |].
      unfold c_foot. apply mod0_add; [apply (cfg_c_nz k K) | exact D1 | exact D2]. }
    unfold uni_state, iter_total, q_iter_chunks. cbn [chunks map snd sumN fold_right c_ptr c_foot c_data c_nswf].
    split; [constructor; [exact Fa | constructor] | unfold c_foot; cbn [c_data c_nswf]; lia].
Qed.

(* ---------- whole uniform histories ---------- *)
From BV Require Import ArenaSafeThm.

(* the operations of a uniform history: allocations of one alignment Au with sizes that are
   multiples of it, and resets *)
Definition uni_op (Au : N) (o : op) : Prop :=
  match o with OAlloc l => uni_req Au l | OReset => True | _ => False end.

(* the bytes allocated since the last reset, read off the run *)
Fixpoint uni_total (k : cfg) (g : gstate) (h : list (op * acquirer)) (acc : N) : N :=
  match h with
  | [] => acc
  | (o, A) :: r =>
      let r1 := gstep k A g o in
      uni_total k (fst r1) r
        (match o with
         | OAlloc l => acc + (match o_res (snd r1) with ROk _ => l_size l | _ => 0 end)
         | OReset => 0
         | _ => acc
         end)
  end.

Theorem uniform_history k Au : cfg_ok k -> uni_cfg k Au ->
  forall h g acc, Inv k g -> uni_state Au (fst g) -> iter_total (fst g) = acc ->
    hist_ok k g h -> Forall (fun oa => uni_op Au (fst oa)) h ->
    uni_state Au (fst (grun k g h)) /\ iter_total (fst (grun k g h)) = uni_total k g h acc.
Proof.
  intros K U. induction h as [|[o A] r IH]; intros g acc HI St Ht HH HU; cbn [grun uni_total].
  - split; assumption.
  - destruct HH as (Hwf & Hnr & HA & HH). inversion HU as [|? ? Ho Hr]; subst. cbn [fst] in Ho.
    pose proof (gstep_inv k A g o K HI Hwf Hnr HA) as HI1.
    destruct HI as [HC HB].
    destruct o; cbn [uni_op] in Ho; try contradiction.
    + (* alloc *)
      destruct (uniform_alloc_exact k A Au (fst g) l K HC HA U Ho St) as [St1 T1].
      apply IH; [exact HI1 | exact St1 | | exact HH | exact Hr].
      unfold gstep. cbn [fst snd step]. rewrite T1. reflexivity.
    + (* reset *)
      destruct (uniform_reset k Au (fst g) K HC U) as [St1 T1].
      apply IH; [exact HI1 | exact St1 | | exact HH | exact Hr].
      unfold gstep. cbn [fst snd step]. exact T1.
Qed.

(* from a fresh arena: after any uniform history the slices hold exactly the bytes of the
   allocations that succeeded since the last reset *)
Corollary uniform_history_fresh k Au h : cfg_ok k -> uni_cfg k Au ->
  hist_ok k (fresh, []) h -> Forall (fun oa => uni_op Au (fst oa)) h ->
  sp_iter_exact (q_iter_chunks (fst (grun k (fresh, []) h))) (uni_total k (fresh, []) h 0) = true.
Proof.
  intros K U HH HU. apply sp_iter_exact_total.
  apply (uniform_history k Au K U h (fresh, []) 0 (Inv_fresh k)); [constructor | reflexivity | exact HH | exact HU].
Qed.
