(* BorrowFacts.v — consequences of the soundness theorem of Borrow.v: the misuse
   families property C05 lists are rejected in every context, the ordinary
   patterns are accepted for every size, and each fact is necessary. *)
From BV Require Import Word Borrow.
From Coq Require Import Lia Arith PeanoNat.

Lemma drun_app d p q : drun d (p ++ q) = true -> exists d', drun d' q = true.
Proof.
  revert d. induction p as [|s p IH]; intros d H; cbn [app] in H; [exists d; exact H|].
  cbn [drun] in H. destruct (dstep d s) as [d1|]; [|discriminate]. exact (IH d1 H).
Qed.

Lemma drun_app_false d p q : (forall d', drun d' q = false) -> drun d (p ++ q) = false.
Proof.
  intros H. destruct (drun d (p ++ q)) eqn:E; [|reflexivity].
  destruct (drun_app _ _ _ E) as (d' & Hd). rewrite H in Hd. discriminate.
Qed.

(* soundness, read the other way: a program that misuses the arena is rejected *)
Lemma misuse_rejected f p : facts_ok f = true -> drun dyn0 p = false -> accepts f st0 p = false.
Proof.
  intros F D. destruct (accepts f st0 p) eqn:A; [|reflexivity].
  rewrite (accepted_programs_are_safe f p F A) in D. discriminate.
Qed.

Definition binds_ref (r : nat) (s : stmt) : bool := match s with SAlloc r' => Nat.eqb r r' | _ => false end.
Definition binds_iter (i : nat) (s : stmt) : bool := match s with SIterBegin i' => Nat.eqb i i' | _ => false end.

(* a reference that is not live stays not live as long as it is not bound again *)
Lemma dead_ref_stays d r mid post :
  memb r (d_refs d) = false -> existsb (binds_ref r) mid = false ->
  drun d (mid ++ SUse r :: post) = false.
Proof.
  revert d. induction mid as [|s mid IH]; intros d M B.
  - cbn [app drun dstep]. rewrite M. reflexivity.
  - cbn [existsb] in B. apply orb_false_iff in B. destruct B as [B1 B2].
    cbn [app drun]. destruct (dstep d s) as [d1|] eqn:E; [|reflexivity].
    apply IH; [|exact B2].
    destruct s; cbn [dstep] in E;
      try (destruct (d_arena d); [|discriminate]; injection E as <-; cbn [d_refs]; try reflexivity; try exact M);
      try (match type of E with (if ?c then _ else _) = _ => destruct c; [|discriminate] end; injection E as <-; exact M);
      try discriminate.
    cbn [binds_ref] in B1. rewrite memb_cons, B1, M. reflexivity.
Qed.

Lemma dead_iter_stays d i mid post :
  memb i (d_iters d) = false -> existsb (binds_iter i) mid = false ->
  drun d (mid ++ SIterUse i :: post) = false.
Proof.
  revert d. induction mid as [|s mid IH]; intros d M B.
  - cbn [app drun dstep]. rewrite M. reflexivity.
  - cbn [existsb] in B. apply orb_false_iff in B. destruct B as [B1 B2].
    cbn [app drun]. destruct (dstep d s) as [d1|] eqn:E; [|reflexivity].
    apply IH; [|exact B2].
    destruct s; cbn [dstep] in E;
      try (destruct (d_arena d); [|discriminate]; injection E as <-; cbn [d_iters]; try reflexivity; try exact M);
      try (match type of E with (if ?c then _ else _) = _ => destruct c; [|discriminate] end; injection E as <-; exact M);
      try discriminate.
    cbn [binds_iter] in B1. rewrite memb_cons, B1, M. reflexivity.
Qed.

(* once the arena is gone nothing can be bound or used any more *)
Lemma gone_stays d mid s post :
  d_arena d = false -> d_refs d = [] -> d_iters d = [] ->
  (match s with SUse _ | SIterUse _ | SAlloc _ | SReset | SIterBegin _ => True | _ => False end) ->
  drun d (mid ++ s :: post) = false.
Proof.
  revert d. induction mid as [|t mid IH]; intros d A R I S.
  - cbn [app drun]. destruct s; try contradiction; cbn [dstep]; rewrite ?A, ?R, ?I; reflexivity.
  - cbn [app drun]. destruct (dstep d t) as [d1|] eqn:E; [|reflexivity].
    destruct t; cbn [dstep] in E; rewrite ?A, ?R, ?I in E; cbn in E; try discriminate.
Qed.

Definition kills_arena (s : stmt) : bool :=
  match s with SDropArena | SMoveArena | SSpawnMove => true | _ => false end.


Theorem use_after_reset_rejected f (F : facts_ok f = true) pre mid post r :
  existsb (binds_ref r) mid = false ->
  accepts f st0 (pre ++ SReset :: mid ++ SUse r :: post) = false.
Proof.
  intros B. apply (misuse_rejected f _ F). apply drun_app_false. intros d.
  cbn [drun dstep]. destruct (d_arena d); [|reflexivity].
  apply dead_ref_stays; [reflexivity | exact B].
Qed.

Theorem iterator_after_reset_rejected f (F : facts_ok f = true) pre mid post i :
  existsb (binds_iter i) mid = false ->
  accepts f st0 (pre ++ SReset :: mid ++ SIterUse i :: post) = false.
Proof.
  intros B. apply (misuse_rejected f _ F). apply drun_app_false. intros d.
  cbn [drun dstep]. destruct (d_arena d); [|reflexivity].
  apply dead_iter_stays; [reflexivity | exact B].
Qed.

(* drop(a), `let b = a`, or moving the arena to another thread: nothing that borrowed from it is used again *)
Theorem use_after_arena_gone_rejected f (F : facts_ok f = true) pre k mid post r :
  kills_arena k = true ->
  accepts f st0 (pre ++ k :: mid ++ SUse r :: post) = false.
Proof.
  intros K. apply (misuse_rejected f _ F). apply drun_app_false. intros d.
  cbn [drun]. destruct k; try discriminate; cbn [dstep]; (destruct (d_arena d); [|reflexivity]);
    apply gone_stays; try reflexivity; exact I.
Qed.

Theorem iterator_after_arena_gone_rejected f (F : facts_ok f = true) pre k mid post i :
  kills_arena k = true ->
  accepts f st0 (pre ++ k :: mid ++ SIterUse i :: post) = false.
Proof.
  intros K. apply (misuse_rejected f _ F). apply drun_app_false. intros d.
  cbn [drun]. destruct k; try discriminate; cbn [dstep]; (destruct (d_arena d); [|reflexivity]);
    apply gone_stays; try reflexivity; exact I.
Qed.

Theorem alloc_during_iteration_rejected f (F : facts_ok f = true) pre r mid post i :
  existsb (binds_iter i) mid = false ->
  accepts f st0 (pre ++ SAlloc r :: mid ++ SIterUse i :: post) = false.
Proof.
  intros B. apply (misuse_rejected f _ F). apply drun_app_false. intros d.
  cbn [drun dstep]. destruct (d_arena d); [|reflexivity].
  apply dead_iter_stays; [reflexivity | exact B].
Qed.

Theorem sharing_between_threads_rejected f (F : facts_ok f = true) pre post :
  accepts f st0 (pre ++ SSpawnShare :: post) = false.
Proof. apply (misuse_rejected f _ F). apply drun_app_false. intros d. reflexivity. Qed.

Theorem sending_a_collection_rejected f (F : facts_ok f = true) pre r post :
  accepts f st0 (pre ++ SSpawnRef r :: post) = false.
Proof. apply (misuse_rejected f _ F). apply drun_app_false. intros d. reflexivity. Qed.

(* ---------- ordinary patterns ---------- *)
Lemma acc_allocs f l : forall c rest, s_arena c = true -> s_iters c = [] ->
  accepts f c (map SAlloc l ++ rest) = accepts f (mkSt (rev l ++ s_refs c) [] true) rest.
Proof.
  induction l as [|r l IH]; intros c rest A I.
  - cbn [map app rev]. destruct c as [rs is ar]; cbn in *. subst. reflexivity.
  - cbn [map app accepts]. rewrite A. unfold no_live_iters. rewrite I. cbn [forallb]. rewrite orb_true_r.
    cbn [andb]. rewrite IH by reflexivity. cbn [s_refs rev]. rewrite <- app_assoc. reflexivity.
Qed.

Lemma acc_uses f l : forall c rest, (forall r, In r l -> memb r (s_refs c) = true) ->
  accepts f c (map SUse l ++ rest) = accepts f c rest.
Proof.
  induction l as [|r l IH]; intros c rest H; [reflexivity|].
  cbn [map app accepts]. rewrite (H r (or_introl eq_refl)). cbn [andb].
  apply IH. intros r' Hr'. apply H. right. exact Hr'.
Qed.

Lemma memb_in x l : In x l -> memb x l = true.
Proof. intros H. unfold memb. apply existsb_exists. exists x. split; [exact H | apply Nat.eqb_refl]. Qed.

Theorem many_allocations_alive f n :
  accepts f st0 (map SAlloc (seq 0 n) ++ map SUse (seq 0 n)) = true.
Proof.
  rewrite acc_allocs by reflexivity. rewrite <- (app_nil_r (map SUse (seq 0 n))).
  rewrite acc_uses; [reflexivity|].
  intros r Hr. cbn [s_refs st0]. apply memb_in. apply in_or_app. left. apply in_rev. rewrite rev_involutive. exact Hr.
Qed.

Theorem idle_arena_moves_to_thread f n : f_send f = true ->
  accepts f st0 (map SAlloc (seq 0 n) ++ map SUse (seq 0 n) ++ [SSpawnMove]) = true.
Proof.
  intros S. rewrite acc_allocs by reflexivity. rewrite acc_uses.
  - cbn [accepts s_arena]. rewrite S. unfold no_live_refs, no_live_iters. cbn [s_iters forallb uses_ref].
    rewrite !orb_true_r. cbn [andb].
    replace (forallb _ _) with true; [destruct (f_alloc_shared f); reflexivity|].
    symmetry. apply forallb_forall. reflexivity.
  - intros r Hr. cbn [s_refs st0]. apply memb_in. apply in_or_app. left. apply in_rev. rewrite rev_involutive. exact Hr.
Qed.

Theorem many_allocations_safe n : drun dyn0 (map SAlloc (seq 0 n) ++ map SUse (seq 0 n) ++ [SSpawnMove]) = true.
Proof.
  apply (accepted_programs_are_safe (mkFacts true true true true false false)); [reflexivity|].
  apply idle_arena_moves_to_thread. reflexivity.
Qed.

(* ---------- each fact is needed ---------- *)
Definition unsound (f : facts) : Prop := exists p, accepts f st0 p = true /\ drun dyn0 p = false.

Lemma alloc_shared_needed : unsound (mkFacts false true true true false false).
Proof. exists [SAlloc 0; SDropArena; SUse 0]. split; reflexivity. Qed.
Lemma reset_excl_needed : unsound (mkFacts true false true true false false).
Proof. exists [SAlloc 0; SReset; SUse 0]. split; reflexivity. Qed.
Lemma iter_excl_needed : unsound (mkFacts true true false true false false).
Proof. exists [SIterBegin 0; SAlloc 0; SIterUse 0]. split; reflexivity. Qed.
Lemma not_sync_needed : unsound (mkFacts true true true true true false).
Proof. exists [SSpawnShare]. split; reflexivity. Qed.
Lemma coll_not_send_needed : unsound (mkFacts true true true true false true).
Proof. exists [SAlloc 0; SSpawnRef 0]. split; reflexivity. Qed.
