(* ArenaMem.v — the bytes of blocks (C02, C12): which copies an operation
   performs, that they stay inside the block handed out, that
   copy_nonoverlapping is only used on disjoint ranges, and that the new block
   starts with the old block's bytes. *)
From BV Require Import Word WordFacts ArenaModel ArenaFast ArenaSpec ArenaInv ArenaSafe.
From Coq Require Import Lia.

Definition mem := N -> N.     (* a byte for every address *)

Definition in_rng (a lo len : N) : bool := (lo <=? a) && (a <? lo + len).

Definition apply_copy (m : mem) (c : copy) : mem :=
  match cp_kind c with
  | ZeroFill => fun a => if in_rng a (cp_dst c) (cp_len c) then 0 else m a
  | _ => fun a => if in_rng a (cp_dst c) (cp_len c) then m (cp_src c + (a - cp_dst c)) else m a
  end.

Definition apply_copies (m : mem) (cs : list copy) : mem := fold_left apply_copy cs m.

(* a copy writes only inside [lo, lo + len) *)
Definition copy_within_blk (x : blk) (c : copy) : Prop :=
  cp_len c = 0 \/ (fst x <= cp_dst c /\ cp_dst c + cp_len c <= fst x + snd x).

Definition copy_legal (c : copy) : Prop :=
  match cp_kind c with
  | CopyNonOverlapping =>
      cp_len c = 0 \/ cp_src c + cp_len c <= cp_dst c \/ cp_dst c + cp_len c <= cp_src c
  | _ => True
  end.

Lemma apply_copy_outside m c a :
  (cp_len c = 0 \/ a < cp_dst c \/ cp_dst c + cp_len c <= a) -> apply_copy m c a = m a.
Proof.
  intros H. unfold apply_copy, in_rng.
  assert (E : (cp_dst c <=? a) && (a <? cp_dst c + cp_len c) = false).
  { apply andb_false_iff. destruct H as [Z|[L|G]].
    - destruct (N.lt_ge_cases a (cp_dst c)); [left; apply N.leb_gt; assumption | right; apply N.ltb_ge; lia].
    - left. apply N.leb_gt. exact L.
    - right. apply N.ltb_ge. exact G. }
  destruct (cp_kind c); rewrite E; reflexivity.
Qed.

(* frame: bytes outside the block written by the copies do not change *)
Lemma apply_copies_frame cs : forall m x a,
  Forall (copy_within_blk x) cs -> (a < fst x \/ fst x + snd x <= a) ->
  apply_copies m cs a = m a.
Proof.
  induction cs as [|c cs IH]; intros m x a H Ha; [reflexivity|].
  inversion H as [|? ? Hc Hcs]; subst. cbn [apply_copies fold_left].
  fold (apply_copies (apply_copy m c) cs). rewrite (IH _ x a Hcs Ha).
  apply apply_copy_outside. destruct Hc as [Z|[L G]]; [left; exact Z|]. right. lia.
Qed.

Lemma apply_copy_inside m c i :
  cp_kind c <> ZeroFill -> i < cp_len c -> apply_copy m c (cp_dst c + i) = m (cp_src c + i).
Proof.
  intros Hk Hi. unfold apply_copy, in_rng.
  assert (E : (cp_dst c <=? cp_dst c + i) && (cp_dst c + i <? cp_dst c + cp_len c) = true).
  { apply andb_true_intro. split; [apply N.leb_le; lia | apply N.ltb_lt; lia]. }
  destruct (cp_kind c); try contradiction; rewrite E; f_equal; lia.
Qed.

(* ---------- what grow / shrink copy ---------- *)
Definition moves_prefix (o : out) (p q n : N) : Prop :=
  (* the block at q starts with the n bytes that were at p *)
  forall m i, i < n -> apply_copies m (o_copies o) (q + i) = m (p + i).

Lemma after_alloc_copy_copies r s n q :
  o_res (snd r) = ROk q -> o_copies (snd (after_alloc_copy r s n)) = [mkCopy CopyNonOverlapping s q n].
Proof. intros H. unfold after_alloc_copy. rewrite H. reflexivity. Qed.

Lemma after_alloc_copy_copies_err r s n :
  (forall q, o_res (snd r) <> ROk q) -> after_alloc_copy r s n = r.
Proof. intros H. unfold after_alloc_copy. destruct (o_res (snd r)) eqn:E; try reflexivity. exfalso. apply (H p). reflexivity. Qed.

Lemma try_alloc_no_copies k A b l : o_copies (snd (try_alloc k A b l)) = [].
Proof.
  unfold try_alloc. destruct (fast k b l) as [[p b1]|]; [reflexivity|].
  unfold slow. destruct (A b (ForLayout l)) as [a reqs]. destruct a; try reflexivity.
  destruct (fast k _ l) as [[p b2]|]; reflexivity.
Qed.

(* the fallback of grow and shrink: a fresh block, then copy_nonoverlapping of n bytes *)
Lemma fresh_copy_facts k A b rest X l n q :
  cfg_ok k -> ChunksInv k (chunks b) -> BlocksInv k (chunks b) rest -> A_ok k A b ->
  pow2 (l_align l) -> In X rest -> n <= snd X -> n <= l_size l ->
  let r := after_alloc_copy (try_alloc k A b l) (fst X) n in
  o_res (snd r) = ROk q ->
  Forall (copy_within_blk (q, l_size l)) (o_copies (snd r)) /\
  Forall copy_legal (o_copies (snd r)) /\
  moves_prefix (snd r) (fst X) q n.
Proof.
  intros K HC HB HA Pa Hin Hn Hnl r Hres. unfold r in *.
  rewrite after_alloc_copy_res in Hres.
  rewrite (after_alloc_copy_copies _ _ _ q Hres).
  destruct (try_alloc_inv k A b rest l K HC HB HA Pa) as (_ & B & _).
  rewrite Hres in B. cbn [res_blocks] in B. destruct B as [_ HD]. cbn [pairwise] in HD.
  destruct HD as [HX _]. rewrite Forall_forall in HX. specialize (HX X Hin).
  conj.
  - constructor; [|constructor]. unfold copy_within_blk; cbn [cp_len cp_dst fst snd]. right. lia.
  - constructor; [|constructor]. unfold copy_legal; cbn [cp_kind cp_len cp_src cp_dst].
    unfold bdisj in HX; cbn [fst snd] in HX.
    destruct (N.eq_dec n 0) as [Z|NZ]; [left; exact Z|]. right. lia.
  - unfold moves_prefix. rewrite (after_alloc_copy_copies _ _ _ q Hres).
    intros m i Hi. cbn [apply_copies fold_left].
    pose proof (apply_copy_inside m (mkCopy CopyNonOverlapping (fst X) q n) i) as HI.
    cbn [cp_kind cp_dst cp_src cp_len] in HI. apply HI; [discriminate | exact Hi].
Qed.

(* shrink: every copy stays inside the block handed out, copy_nonoverlapping is
   legal, and the block handed out starts with the first new-size bytes of the old one *)
Theorem shrink_copies k A b rest p old new q :
  cfg_ok k -> ChunksInv k (chunks b) -> BlocksInv k (chunks b) rest -> A_ok k A b ->
  In (p, l_size old) rest -> l_size new <= l_size old -> pow2 (l_align new) ->
  o_res (snd (shrink k A b p old new)) = ROk q ->
  Forall (copy_within_blk (q, l_size new)) (o_copies (snd (shrink k A b p old new))) /\
  Forall copy_legal (o_copies (snd (shrink k A b p old new))) /\
  (q = p \/ moves_prefix (snd (shrink k A b p old new)) p q (l_size new)).
Proof.
  intros K HC HB HA Hin Hle Pn. unfold shrink.
  destruct (l_align old <? l_align new).
  - destruct (p mod l_align new =? 0); cbn [snd o_res o_copies].
    + intros H; inversion H; subst. conj; [constructor | constructor | left; reflexivity].
    + intros Hres.
      destruct (fresh_copy_facts k A b rest (p, l_size old) new (l_size new) q K HC HB HA Pn Hin Hle (N.le_refl _) Hres)
        as (F1 & F2 & F3).
      conj; try assumption. right. exact F3.
  - set (delta := rdown (l_size old - l_size new) (N.max (l_align new) (k_malign k))).
    assert (PM : N.max (l_align new) (k_malign k) <> 0) by (pose proof (pow2_pos _ Pn); lia).
    pose proof (rdown_le (l_size old - l_size new) _ PM) as Dle. fold delta in Dle.
    destruct ((cur_ptr k b =? p) && ((l_size old + 1) / 2 <=? delta)) eqn:EI; cbn [snd o_res o_copies].
    + apply andb_prop in EI. destruct EI as [_ E2]. apply N.leb_le in E2.
      intros H; inversion H; subst q; clear H.
      (* delta >= ceil(old/2) and delta <= old - new, so new <= delta: source and target do not meet *)
      assert (Hhalf : l_size old <= 2 * ((l_size old + 1) / 2)).
      { pose proof (N.div_mod' (l_size old + 1) 2). pose proof (N.mod_upper_bound (l_size old + 1) 2). lia. }
      assert (Hnd : l_size new <= delta) by lia.
      conj.
      * constructor; [|constructor]. unfold copy_within_blk; cbn [cp_len cp_dst fst snd]. right. lia.
      * constructor; [|constructor]. unfold copy_legal; cbn [cp_kind cp_len cp_src cp_dst]. right. left. lia.
      * destruct (N.eq_dec delta 0) as [Z|NZ]; [left; lia|]. right.
        intros m i Hi. cbn [apply_copies fold_left].
        pose proof (apply_copy_inside m (mkCopy CopyNonOverlapping p (p + delta) (l_size new)) i) as HI.
        cbn [cp_kind cp_dst cp_src cp_len] in HI. apply HI; [discriminate | exact Hi].
    + intros H; inversion H; subst. conj; [constructor | constructor | left; reflexivity].
Qed.

(* grow: the same, with the whole old block preserved *)
Theorem grow_copies k A b rest p old new q :
  cfg_ok k -> ChunksInv k (chunks b) -> BlocksInv k (chunks b) rest -> A_ok k A b ->
  In (p, l_size old) rest -> l_size old <= l_size new -> pow2 (l_align new) -> pow2 (l_align old) ->
  o_res (snd (grow k A b p old new)) = ROk q ->
  Forall (copy_within_blk (q, l_size new)) (o_copies (snd (grow k A b p old new))) /\
  Forall copy_legal (o_copies (snd (grow k A b p old new))) /\
  moves_prefix (snd (grow k A b p old new)) p q (l_size old).
Proof.
  intros K HC HB HA Hin Hle Pn Po. unfold grow.
  destruct (round_up_to (l_size new) (k_malign k)) as [ns|] eqn:ER; cbn [snd o_res]; [|discriminate].
  apply round_up_to_some in ER. destruct ER as [-> _].
  pose proof (rup_ge (l_size new) _ (cfg_m_nz k K)) as Hns.
  assert (FB : o_res (snd (after_alloc_copy (try_alloc k A b new) p (l_size old))) = ROk q ->
               Forall (copy_within_blk (q, l_size new)) (o_copies (snd (after_alloc_copy (try_alloc k A b new) p (l_size old)))) /\
               Forall copy_legal (o_copies (snd (after_alloc_copy (try_alloc k A b new) p (l_size old)))) /\
               moves_prefix (snd (after_alloc_copy (try_alloc k A b new) p (l_size old))) p q (l_size old)).
  { intros Hres.
    apply (fresh_copy_facts k A b rest (p, l_size old) new (l_size old) q K HC HB HA Pn Hin (N.le_refl _) Hle Hres). }
  destruct ((l_align new <=? l_align old) && (cur_ptr k b =? p)); [|exact FB].
  destruct (layout_ok _ _); cbn [snd o_res]; [|discriminate].
  destruct (fast k b (mkLayout (rup (l_size new) (k_malign k) - l_size old) (l_align old))) as [[q0 b1]|] eqn:EF; [|exact FB].
  cbn [snd o_res o_copies]. intros H; inversion H; subst q0; clear H.
  conj.
  - constructor; [|constructor]. unfold copy_within_blk; cbn [cp_len cp_dst fst snd]. right. lia.
  - constructor; [|constructor]. exact I.
  - intros m i Hi. cbn [apply_copies fold_left].
    pose proof (apply_copy_inside m (mkCopy CopyMove p q (l_size old)) i) as HI.
    cbn [cp_kind cp_dst cp_src cp_len] in HI. apply HI; [discriminate | exact Hi].
Qed.

(* grow_zeroed additionally zeroes exactly the added tail *)
Theorem grow_zeroed_tail k A b p old new q :
  l_size old <= l_size new ->
  o_res (snd (grow k A b p old new)) = ROk q ->
  forall m i, l_size old <= i -> i < l_size new ->
    apply_copies m (o_copies (snd (grow_zeroed k A b p old new))) (q + i) = 0.
Proof.
  intros Hle Hres m i H1 H2. unfold grow_zeroed. rewrite Hres. cbn [snd o_copies with_copies].
  unfold apply_copies. rewrite fold_left_app. cbn [fold_left].
  unfold apply_copy at 1. cbn [cp_kind cp_dst cp_len]. unfold in_rng.
  assert (E : (q + l_size old <=? q + i) && (q + i <? q + l_size old + (l_size new - l_size old)) = true).
  { apply andb_true_intro. split; [apply N.leb_le; lia | apply N.ltb_lt; lia]. }
  rewrite E. reflexivity.
Qed.
