(* DedupWalkOk.v — the loop of `partition_dedup_by` (behind Vec::dedup_by / dedup_by_key / dedup) as
   /repo's source has it: tools/rs2v.py translates the `while` statement into the statement language
   of RustSem on every run (LeafActual.src_procs, "dedup_partition_loop"; the caller's closure
   `same_bucket` is asked through a script of answers, None = it panics).  Run on any slice length
   and any script, the translated loop asks, swaps and counts exactly as VecModel.dedup_loop does:
   same questions (candidate first, last kept element second), same swaps, same next_write, and a
   panic of the closure leaves exactly the swaps made so far. *)
From BV Require Import Word WordFacts VecModel RustSem LeafActual.
From Coq Require Import String List Lia Arith ZifyBool ZifyN ZifyNat.
Import ListNotations.
Open Scope string_scope.
Open Scope N_scope.

Definition dloop : list stmt :=
  match lookup "dedup_partition_loop" src_procs with Some p => proc_body p | None => [] end.

Definition dcond : expr := EBin BLt (EVar "next_read") (EVar "len").
Definition dbody : list stmt :=
  [SLet "ptr_read" (EMeth1 (EVar "ptr") "add" (EVar "next_read"));
   SLet "prev_ptr_write" (EMeth1 (EVar "ptr") "add" (EBin BSub (EVar "next_write") (ELit 1)));
   SIfAsk true "same_bucket" [EVar "ptr_read"; EVar "prev_ptr_write"]
     [SIf (EBin BNe (EVar "next_read") (EVar "next_write"))
        [SLet "ptr_write" (EMeth1 (EVar "prev_ptr_write") "offset" (ELit 1));
         SDo "swap" [EVar "ptr_read"; EVar "ptr_write"]] [];
      SSet "next_write" (EBin BAdd (EVar "next_write") (ELit 1))] [];
   SSet "next_read" (EBin BAdd (EVar "next_read") (ELit 1))].

(* the procedure parsed from the source is this loop *)
Lemma dloop_is : dloop = [SWhile dcond dbody].
Proof. reflexivity. Qed.

Definition denv (base len nr nw : N) (t1 t2 t3 : val) : env :=
  [("ptr", VN base); ("len", VN len); ("next_read", VN nr); ("next_write", VN nw);
   ("ptr_read", t1); ("prev_ptr_write", t2); ("ptr_write", t3)].

Definition ask (base nr nw : N) : effect := ("same_bucket", [VN (base + nr); VN (base + (nw - 1))]).
Definition swp (base nr nw : N) : effect := ("swap", [VN (base + nr); VN (base + (nw - 1) + 1)]).

Ltac dsimpl :=
  cbv beta iota zeta delta
    [eval eval_args upd denv lookup bind finish meth0 meth1 arith fn_params fn_body src_fns
     FUEL_SEM String.eqb Ascii.eqb Bool.eqb xorb List.app List.combine List.length Nat.eqb negb fst snd].

(* one step of the executor, for any fuel (all by computation) *)
Lemma exec_nil ft f en tr sc : exec ft (S f) en tr sc [] = XOk en tr sc.
Proof. reflexivity. Qed.
Lemma exec_let ft f en tr sc x e r :
  exec ft (S f) en tr sc (SLet x e :: r) =
  match eval ft FUEL_SEM en e with Ret v => exec ft f (upd x v en) tr sc r | _ => XStuck end.
Proof. reflexivity. Qed.
Lemma exec_set ft f en tr sc x e r :
  exec ft (S f) en tr sc (SSet x e :: r) =
  match eval ft FUEL_SEM en e with Ret v => exec ft f (upd x v en) tr sc r | _ => XStuck end.
Proof. reflexivity. Qed.
Lemma exec_do ft f en tr sc g args r :
  exec ft (S f) en tr sc (SDo g args :: r) =
  match eval_args ft en args with Some vs => exec ft f en (List.app tr [(g, vs)]) sc r | None => XStuck end.
Proof. reflexivity. Qed.
Lemma exec_if ft f en tr sc c th el r :
  exec ft (S f) en tr sc (SIf c th el :: r) =
  match eval ft FUEL_SEM en c with
  | Ret (VB b) => match exec ft f en tr sc (if b then th else el) with
                  | XOk en' tr' sc' => exec ft f en' tr' sc' r | other => other end
  | _ => XStuck
  end.
Proof. reflexivity. Qed.
Lemma exec_ifask ft f en tr sc neg g args th el r :
  exec ft (S f) en tr sc (SIfAsk neg g args th el :: r) =
  match eval_args ft en args with
  | Some vs =>
      match sc with
      | Some b :: sc' =>
          match exec ft f en (List.app tr [(g, vs)]) sc' (if xorb neg b then th else el) with
          | XOk en' tr' sc'' => exec ft f en' tr' sc'' r | other => other end
      | None :: _ => XPanic en (List.app tr [(g, vs)])
      | [] => XStuck
      end
  | None => XStuck
  end.
Proof. reflexivity. Qed.
Lemma exec_while ft f en tr sc c body r :
  exec ft (S f) en tr sc (SWhile c body :: r) =
  match eval ft FUEL_SEM en c with
  | Ret (VB true) =>
      match exec ft f en tr sc body with
      | XOk en' tr' sc' => exec ft f en' tr' sc' (SWhile c body :: r)
      | other => other
      end
  | Ret (VB false) => exec ft f en tr sc r
  | _ => XStuck
  end.
Proof. reflexivity. Qed.

(* the expressions of the body, one at a time *)
Lemma ev_read base len nr nw t1 t2 t3 : base + nr < W ->
  eval src_fns FUEL_SEM (denv base len nr nw t1 t2 t3) (EMeth1 (EVar "ptr") "add" (EVar "next_read")) = Ret (VN (base + nr)).
Proof. intros H. apply N.ltb_lt in H. dsimpl. rewrite H. reflexivity. Qed.
Lemma ev_prev base len nr nw t1 t2 t3 : 1 <= nw -> base + (nw - 1) < W ->
  eval src_fns FUEL_SEM (denv base len nr nw t1 t2 t3)
       (EMeth1 (EVar "ptr") "add" (EBin BSub (EVar "next_write") (ELit 1))) = Ret (VN (base + (nw - 1))).
Proof. intros H1 H2. apply N.leb_le in H1. apply N.ltb_lt in H2. dsimpl. rewrite H1. dsimpl. rewrite H2. reflexivity. Qed.
Lemma ev_args base len nr nw v1 v2 t3 :
  eval_args src_fns (denv base len nr nw v1 v2 t3) [EVar "ptr_read"; EVar "prev_ptr_write"] = Some [v1; v2].
Proof. reflexivity. Qed.
Lemma ev_ne base len nr nw t1 t2 t3 :
  eval src_fns FUEL_SEM (denv base len nr nw t1 t2 t3) (EBin BNe (EVar "next_read") (EVar "next_write")) = Ret (VB (negb (nr =? nw))).
Proof. reflexivity. Qed.
Lemma ev_write base len nr nw t1 p t3 : p + 1 < W ->
  eval src_fns FUEL_SEM (denv base len nr nw t1 (VN p) t3) (EMeth1 (EVar "prev_ptr_write") "offset" (ELit 1)) = Ret (VN (p + 1)).
Proof. intros H. apply N.ltb_lt in H. dsimpl. rewrite H. reflexivity. Qed.
Lemma ev_swap_args base len nr nw v1 t2 v3 :
  eval_args src_fns (denv base len nr nw v1 t2 v3) [EVar "ptr_read"; EVar "ptr_write"] = Some [v1; v3].
Proof. reflexivity. Qed.
Lemma ev_nw1 base len nr nw t1 t2 t3 : nw + 1 < W ->
  eval src_fns FUEL_SEM (denv base len nr nw t1 t2 t3) (EBin BAdd (EVar "next_write") (ELit 1)) = Ret (VN (nw + 1)).
Proof. intros H. apply N.ltb_lt in H. dsimpl. rewrite H. reflexivity. Qed.
Lemma ev_nr1 base len nr nw t1 t2 t3 : nr + 1 < W ->
  eval src_fns FUEL_SEM (denv base len nr nw t1 t2 t3) (EBin BAdd (EVar "next_read") (ELit 1)) = Ret (VN (nr + 1)).
Proof. intros H. apply N.ltb_lt in H. dsimpl. rewrite H. reflexivity. Qed.
Lemma ev_cond base len nr nw t1 t2 t3 :
  eval src_fns FUEL_SEM (denv base len nr nw t1 t2 t3) dcond = Ret (VB (nr <? len)).
Proof. reflexivity. Qed.

(* the environment keeps its shape *)
Lemma upd_t1 base len nr nw t1 t2 t3 v : upd "ptr_read" v (denv base len nr nw t1 t2 t3) = denv base len nr nw v t2 t3.
Proof. reflexivity. Qed.
Lemma upd_t2 base len nr nw t1 t2 t3 v : upd "prev_ptr_write" v (denv base len nr nw t1 t2 t3) = denv base len nr nw t1 v t3.
Proof. reflexivity. Qed.
Lemma upd_t3 base len nr nw t1 t2 t3 v : upd "ptr_write" v (denv base len nr nw t1 t2 t3) = denv base len nr nw t1 t2 v.
Proof. reflexivity. Qed.
Lemma upd_nr base len nr nw t1 t2 t3 v : upd "next_read" (VN v) (denv base len nr nw t1 t2 t3) = denv base len v nw t1 t2 t3.
Proof. reflexivity. Qed.
Lemma upd_nw base len nr nw t1 t2 t3 v : upd "next_write" (VN v) (denv base len nr nw t1 t2 t3) = denv base len nr v t1 t2 t3.
Proof. reflexivity. Qed.

Definition bfuel (f : nat) : nat := S (S (S (S (S (S (S (S (S f)))))))).

Ltac step :=
  first [ rewrite exec_let | rewrite exec_set | rewrite exec_do | rewrite exec_if | rewrite exec_ifask | rewrite exec_nil ].

Lemma iter_yes base len nr nw t1 t2 t3 tr sc f :
  1 <= nw -> nw <= nr -> nr < len -> base + len < W ->
  exec src_fns (bfuel f) (denv base len nr nw t1 t2 t3) tr (Some true :: sc) dbody
  = XOk (denv base len (nr + 1) nw (VN (base + nr)) (VN (base + (nw - 1))) t3) (List.app tr [ask base nr nw]) sc.
Proof.
  intros H1 H2 H3 H4. unfold bfuel, dbody, ask.
  step. rewrite ev_read by lia. rewrite upd_t1.
  step. rewrite ev_prev by lia. rewrite upd_t2.
  step. rewrite ev_args. cbn [xorb]. step.
  step. rewrite ev_nr1 by lia. rewrite upd_nr. step. reflexivity.
Qed.

Lemma iter_boom base len nr nw t1 t2 t3 tr sc f :
  1 <= nw -> nw <= nr -> nr < len -> base + len < W ->
  exec src_fns (bfuel f) (denv base len nr nw t1 t2 t3) tr (None :: sc) dbody
  = XPanic (denv base len nr nw (VN (base + nr)) (VN (base + (nw - 1))) t3) (List.app tr [ask base nr nw]).
Proof.
  intros H1 H2 H3 H4. unfold bfuel, dbody, ask.
  step. rewrite ev_read by lia. rewrite upd_t1.
  step. rewrite ev_prev by lia. rewrite upd_t2.
  step. rewrite ev_args. reflexivity.
Qed.

Lemma iter_no_same base len nr nw t1 t2 t3 tr sc f :
  1 <= nw -> nw <= nr -> nr < len -> base + len < W -> nr = nw ->
  exec src_fns (bfuel f) (denv base len nr nw t1 t2 t3) tr (Some false :: sc) dbody
  = XOk (denv base len (nr + 1) (nw + 1) (VN (base + nr)) (VN (base + (nw - 1))) t3) (List.app tr [ask base nr nw]) sc.
Proof.
  intros H1 H2 H3 H4 E. unfold bfuel, dbody, ask.
  step. rewrite ev_read by lia. rewrite upd_t1.
  step. rewrite ev_prev by lia. rewrite upd_t2.
  step. rewrite ev_args. cbn [xorb].
  step. rewrite ev_ne. replace (nr =? nw) with true by (symmetry; apply N.eqb_eq; exact E). cbn [negb].
  step. step. rewrite ev_nw1 by lia. rewrite upd_nw. step.
  step. rewrite ev_nr1 by lia. rewrite upd_nr. step. reflexivity.
Qed.

Lemma iter_no_swap base len nr nw t1 t2 t3 tr sc f :
  1 <= nw -> nw <= nr -> nr < len -> base + len < W -> nr <> nw ->
  exec src_fns (bfuel f) (denv base len nr nw t1 t2 t3) tr (Some false :: sc) dbody
  = XOk (denv base len (nr + 1) (nw + 1) (VN (base + nr)) (VN (base + (nw - 1))) (VN (base + (nw - 1) + 1)))
        (List.app (List.app tr [ask base nr nw]) [swp base nr nw]) sc.
Proof.
  intros H1 H2 H3 H4 E. unfold bfuel, dbody, ask, swp.
  step. rewrite ev_read by lia. rewrite upd_t1.
  step. rewrite ev_prev by lia. rewrite upd_t2.
  step. rewrite ev_args. cbn [xorb].
  step. rewrite ev_ne. replace (nr =? nw) with false by (symmetry; apply N.eqb_neq; exact E). cbn [negb].
  step. rewrite ev_write by lia. rewrite upd_t3. step. rewrite ev_swap_args. step.
  step. rewrite ev_nw1 by lia. rewrite upd_nw. step.
  step. rewrite ev_nr1 by lia. rewrite upd_nr. step. reflexivity.
Qed.

(* ---------- the whole loop ---------- *)
Definition script_of (a : cans) : option bool :=
  match a with Yes => Some true | No => Some false | Boom => None end.

(* what the loop does, as a function: the questions asked and swaps made, the final counters, and
   whether the closure panicked; n = iterations still to go *)
Fixpoint drun (base : N) (n : nat) (nr nw : N) (ans : list cans) : list effect * N * N * bool :=
  match n with
  | O => ([], nr, nw, false)
  | S n' =>
      match ans with
      | [] => ([], nr, nw, false)
      | Boom :: _ => ([ask base nr nw], nr, nw, true)
      | Yes :: rest =>
          let '(t, r, w, p) := drun base n' (nr + 1) nw rest in (ask base nr nw :: t, r, w, p)
      | No :: rest =>
          let sw := if nr =? nw then [] else [swp base nr nw] in
          let '(t, r, w, p) := drun base n' (nr + 1) (nw + 1) rest in (ask base nr nw :: List.app sw t, r, w, p)
      end
  end.

Definition lfuel (n extra : nat) : nat := S (bfuel (n + extra)).

Theorem loop_is_drun : forall n ans base len nr nw t1 t2 t3 tr extra,
  N.to_nat (len - nr) = n -> nr <= len -> 1 <= nw -> nw <= nr -> base + len < W -> (n <= List.length ans)%nat ->
  let '(t, r, w, p) := drun base n nr nw ans in
  exists t1' t2' t3',
    exec src_fns (lfuel n extra) (denv base len nr nw t1 t2 t3) tr (map script_of ans) dloop =
    if p then XPanic (denv base len r w t1' t2' t3') (List.app tr t)
    else XOk (denv base len r w t1' t2' t3') (List.app tr t) (map script_of (skipn n ans)).
Proof.
  rewrite dloop_is.
  induction n as [|n IH]; intros ans base len nr nw t1 t2 t3 tr extra Hn Hle H1 H2 Hw Hlen.
  - cbn [drun]. exists t1, t2, t3. unfold lfuel. rewrite exec_while, ev_cond.
    replace (nr <? len) with false by (symmetry; apply N.ltb_ge; lia).
    unfold bfuel. rewrite exec_nil, app_nil_r. reflexivity.
  - assert (Hlt : nr < len) by lia.
    destruct ans as [|a rest]; [cbn in Hlen; lia|]. cbn [List.length] in Hlen.
    change (lfuel (S n) extra) with (S (lfuel n extra)).
    assert (Hn' : N.to_nat (len - (nr + 1)) = n) by lia.
    cbn [drun map]. rewrite exec_while, ev_cond.
    replace (nr <? len) with true by (symmetry; apply N.ltb_lt; exact Hlt).
    change (lfuel n extra) with (bfuel (S (n + extra))) at 1.
    destruct a; cbn [script_of].
    + (* Yes *)
      rewrite iter_yes by assumption.
      specialize (IH rest base len (nr + 1) nw (VN (base + nr)) (VN (base + (nw - 1))) t3 (List.app tr [ask base nr nw]) extra
                     Hn' ltac:(lia) H1 ltac:(lia) Hw ltac:(lia)).
      destruct (drun base n (nr + 1) nw rest) as [[[t r] w] p].
      destruct IH as (a1 & a2 & a3 & E). exists a1, a2, a3. rewrite E.
      rewrite <- app_assoc. cbn [List.app skipn]. reflexivity.
    + (* No *)
      destruct (N.eq_dec nr nw) as [Heq | Hne].
      * rewrite iter_no_same by assumption.
        specialize (IH rest base len (nr + 1) (nw + 1) (VN (base + nr)) (VN (base + (nw - 1))) t3 (List.app tr [ask base nr nw]) extra
                       Hn' ltac:(lia) ltac:(lia) ltac:(lia) Hw ltac:(lia)).
          replace (nr =? nw) with true by (symmetry; apply N.eqb_eq; exact Heq). cbn [List.app].
        destruct (drun base n (nr + 1) (nw + 1) rest) as [[[t r] w] p].
        destruct IH as (a1 & a2 & a3 & E). exists a1, a2, a3. rewrite E.
        rewrite <- app_assoc. cbn [List.app skipn]. reflexivity.
      * rewrite iter_no_swap by assumption.
        specialize (IH rest base len (nr + 1) (nw + 1) (VN (base + nr)) (VN (base + (nw - 1))) (VN (base + (nw - 1) + 1))
                       (List.app (List.app tr [ask base nr nw]) [swp base nr nw]) extra
                       Hn' ltac:(lia) ltac:(lia) ltac:(lia) Hw ltac:(lia)).
          replace (nr =? nw) with false by (symmetry; apply N.eqb_neq; exact Hne).
        destruct (drun base n (nr + 1) (nw + 1) rest) as [[[t r] w] p].
        destruct IH as (a1 & a2 & a3 & E). exists a1, a2, a3. rewrite E.
        rewrite <- !app_assoc. cbn [List.app skipn]. reflexivity.
    + (* Boom *)
      rewrite iter_boom by assumption.
      exists (VN (base + nr)), (VN (base + (nw - 1))), t3. reflexivity.
Qed.

(* ---------- and that function is VecModel.dedup_loop: same swaps on the buffer, same next_write,
   same panic ---------- *)
Fixpoint apply_swaps (base : N) (t : list effect) (buf : list slot) : list slot :=
  match t with
  | [] => buf
  | ("swap", [VN a; VN b]) :: r => apply_swaps base r (swap_slots buf (N.to_nat (a - base)) (N.to_nat (b - base)))
  | _ :: r => apply_swaps base r buf
  end.

Lemma apply_swaps_ask base nr nw r buf : apply_swaps base (ask base nr nw :: r) buf = apply_swaps base r buf.
Proof. reflexivity. Qed.

Theorem drun_is_dedup_loop : forall n ans base len nr nw buf fuel,
  N.to_nat (len - nr) = n -> nr <= len -> 1 <= nw -> nw <= nr -> (n <= List.length ans)%nat -> (n <= fuel)%nat ->
  let '(t, r, w, p) := drun base n nr nw ans in
  dedup_loop buf (N.to_nat len) (N.to_nat nr) (N.to_nat nw) ans fuel = (apply_swaps base t buf, N.to_nat w, p).
Proof.
  induction n as [|n IH]; intros ans base len nr nw buf fuel Hn Hle H1 H2 Hlen Hf.
  - cbn [drun apply_swaps]. destruct fuel as [|f]; cbn [dedup_loop]; [reflexivity|].
    replace (Nat.ltb (N.to_nat nr) (N.to_nat len)) with false by (symmetry; apply Nat.ltb_ge; lia). reflexivity.
  - destruct fuel as [|f]; [lia|]. destruct ans as [|a rest]; [cbn in Hlen; lia|]. cbn [List.length] in Hlen.
    cbn [dedup_loop drun].
    replace (Nat.ltb (N.to_nat nr) (N.to_nat len)) with true by (symmetry; apply Nat.ltb_lt; lia).
    assert (Hn' : N.to_nat (len - (nr + 1)) = n) by lia.
    destruct a.
    + specialize (IH rest base len (nr + 1) nw buf f Hn' ltac:(lia) H1 ltac:(lia) ltac:(lia) ltac:(lia)).
      replace (N.to_nat (nr + 1)) with (N.to_nat nr + 1)%nat in IH by lia.
      destruct (drun base n (nr + 1) nw rest) as [[[t r] w] p]. rewrite IH. reflexivity.
    + set (buf' := if Nat.eqb (N.to_nat nr) (N.to_nat nw) then buf else swap_slots buf (N.to_nat nr) (N.to_nat nw)).
      specialize (IH rest base len (nr + 1) (nw + 1) buf' f Hn' ltac:(lia) ltac:(lia) ltac:(lia) ltac:(lia) ltac:(lia)).
      replace (N.to_nat (nr + 1)) with (N.to_nat nr + 1)%nat in IH by lia.
      replace (N.to_nat (nw + 1)) with (N.to_nat nw + 1)%nat in IH by lia.
      destruct (drun base n (nr + 1) (nw + 1) rest) as [[[t r] w] p]. rewrite IH.
      f_equal. f_equal. rewrite apply_swaps_ask. unfold buf'.
      destruct (N.eqb_spec nr nw) as [E | E].
      * replace (Nat.eqb (N.to_nat nr) (N.to_nat nw)) with true by (symmetry; apply Nat.eqb_eq; lia). reflexivity.
      * replace (Nat.eqb (N.to_nat nr) (N.to_nat nw)) with false by (symmetry; apply Nat.eqb_neq; lia).
        unfold swp. cbn [List.app apply_swaps].
        replace (N.to_nat (base + nr - base)) with (N.to_nat nr) by lia.
        replace (N.to_nat (base + (nw - 1) + 1 - base)) with (N.to_nat nw) by lia. reflexivity.
    + reflexivity.
Qed.

(* the hypotheses are met: four elements, the script says keep, drop, keep *)
Example dedup_walk_ex :
  exec src_fns (lfuel 3 0) (denv 1000 4 1 1 VUnit VUnit VUnit) [] (map script_of [No; Yes; No]) dloop
  = XOk (denv 1000 4 4 3 (VN 1003) (VN 1001) (VN 1002))
        [ask 1000 1 1; ask 1000 2 2; ask 1000 3 2; swp 1000 3 2] [].
Proof. vm_compute. reflexivity. Qed.
