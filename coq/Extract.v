(* Extract.v — OCaml extraction of the executable models for the bulk
   correspondence driver.  Only ExtrOcamlBasic: N, positive, nat keep their
   inductive representation; no Extract Constant / Extract Inductive of ours. *)
From Coq Require Import Extraction ExtrOcamlBasic.
From BV Require Import Word ArenaModel ArenaPolicy ArenaSpec ArenaInv VecModel Utf8 LossyTableActual Utf8Lossy BoxModel Borrow SigFactsActual StringRetain VecPanic.
Extraction Language OCaml.
Extraction "model.ml"
  W N.add N.mul N.div N.modulo N.sub N.eqb N.leb N.ltb N.of_nat N.to_nat
  mkCfg mkLayout mkGreq fresh step follow policy ctor_ok cfg_okb
  q_allocated_bytes q_allocated_bytes_incl q_chunk_capacity q_iter_chunks held
  cur_ptr cur_foot cur_start fast_ptr
  sp_accounting apply_frees sp_block_ok sp_aligned sp_limit_ok sp_iter_ok sp_reset_ok
  sp_stores_owned sp_growth_ok sp_chain_ok sp_iter_exact footer_of lay_ok layout_ok
  mkVec mkEcfg v_cap contents vwith_capacity push pop insert remove swap_remove truncate truncate_state
  try_reserve reserve shrink_to_fit drain drain_filter retain dedup_by dedup_state resize
  extend_copy extend_iter extend_slices_copy split_off drop_vec splice into_iter clone_vec resize_clone_panic into_slice
  valid_utf8 is_char_boundary utf8_lossy_spec from_utf8_lossy actual_width scalar encode decode s_push s_insert s_pop s_retain s_extend s_push_str chars from_utf16 s_truncate s_insert_str s_split_off s_remove s_replace_range retain_run s_drain
  bw0 box_new box_drop box_into_inner box_leak box_roundtrip box_try_array box_downcast box_of_vec
  accepts drun st0 dyn0 trait_holds actual_facts mkFacts.
