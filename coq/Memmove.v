(* What ptr::copy / ptr::copy_nonoverlapping / set_len do to a buffer seen as a list, and the two
   shapes in which the collections use them: opening a gap to insert, closing a gap to remove.
   The source tie (LeafActualOk.v) shows which arguments /repo's insert / remove / insert_bytes pass;
   the lemmas here show that those arguments, and only those, give the model's result. *)
From Coq Require Import List Arith Lia.
Import ListNotations.

Section Mem.
Context {A : Type}.

(* ptr::copy(buf + s, buf + d, n): the n cells from s land at d (the regions may overlap: the
   source cells are read before any is written) *)
Definition mcopy (buf : list A) (s d n : nat) : list A :=
  firstn d buf ++ firstn n (skipn s buf) ++ skipn (d + n) buf.

(* ptr::copy(src, buf + d, |src|) from another object *)
Definition mwrite (buf : list A) (d : nat) (src : list A) : list A :=
  firstn d buf ++ src ++ skipn (d + length src) buf.

(* set_len(n): the collection is the first n cells of its buffer *)
Definition mlen (buf : list A) (n : nat) : list A := firstn n buf.

Lemma mcopy_length buf s d n : s + n <= length buf -> d + n <= length buf ->
  length (mcopy buf s d n) = length buf.
Proof.
  intros Hs Hd. unfold mcopy. rewrite !app_length, !firstn_length, !skipn_length. lia.
Qed.

Lemma mwrite_length buf d src : d + length src <= length buf -> length (mwrite buf d src) = length buf.
Proof.
  intros Hd. unfold mwrite. rewrite !app_length, firstn_length, skipn_length. lia.
Qed.

Lemma firstn_app_exact (l r : list A) n : n = length l -> firstn n (l ++ r) = l.
Proof.
  intros ->. rewrite firstn_app, Nat.sub_diag, firstn_all. cbn [firstn]. apply app_nil_r.
Qed.

Lemma skipn_app_exact (l r : list A) n : n = length l -> skipn n (l ++ r) = r.
Proof.
  intros ->. rewrite skipn_app, Nat.sub_diag, skipn_all. reflexivity.
Qed.

Lemma firstn_app_l (l r : list A) n : n <= length l -> firstn n (l ++ r) = firstn n l.
Proof.
  intros H. rewrite firstn_app. replace (n - length l) with 0 by lia. cbn [firstn]. apply app_nil_r.
Qed.

Lemma skipn_app_l (l r : list A) n : n <= length l -> skipn n (l ++ r) = skipn n l ++ r.
Proof.
  intros H. rewrite skipn_app. replace (n - length l) with 0 by lia. reflexivity.
Qed.

(* remove: the collection is l (|l| = len), spare capacity follows; the w cells at i leave.
   copy(buf+i+w, buf+i, len-(i+w)); set_len(len-w) *)
Theorem remove_by_memmove (l spare : list A) i w :
  i + w <= length l ->
  mlen (mcopy (l ++ spare) (i + w) i (length l - (i + w))) (length l - w) = firstn i l ++ skipn (i + w) l.
Proof.
  intros H. unfold mlen, mcopy.
  rewrite (firstn_app_l l spare i) by lia.
  rewrite (skipn_app_l l spare (i + w)) by lia.
  rewrite (firstn_app_exact (skipn (i + w) l) spare) by (rewrite skipn_length; lia).
  rewrite app_assoc. apply firstn_app_exact.
  rewrite app_length, firstn_length, skipn_length. lia.
Qed.

Lemma nth_firstn_lt (l : list A) i n d : i < n -> nth i (firstn n l) d = nth i l d.
Proof.
  revert i n. induction l as [|x l IH]; intros i n H.
  - rewrite firstn_nil. reflexivity.
  - destruct n as [|n]; [lia|]. destruct i as [|i]; cbn [firstn nth]; [reflexivity|]. apply IH. lia.
Qed.

Lemma nth_skipn_add (l : list A) i n d : nth i (skipn n l) d = nth (n + i) l d.
Proof.
  revert l. induction n as [|n IH]; intros l; [reflexivity|].
  destruct l as [|x l]; cbn [skipn Nat.add nth]; [destruct i; reflexivity | apply IH].
Qed.

(* only that source offset gives the model's result: with a copy from s instead, the cell at i
   is the cell that was at s *)
Lemma remove_source_matters (l spare : list A) i w s (d : A) :
  i + w < length l -> s + (length l - (i + w)) <= length l ->
  nth i (mlen (mcopy (l ++ spare) s i (length l - (i + w))) (length l - w)) d = nth s l d.
Proof.
  intros H Hs. unfold mlen, mcopy.
  rewrite nth_firstn_lt by lia.
  rewrite (firstn_app_l l spare i) by lia.
  rewrite app_nth2 by (rewrite firstn_length; lia).
  rewrite firstn_length. replace (i - Nat.min i (length l)) with 0 by lia.
  rewrite app_nth1 by (rewrite firstn_length, skipn_length, app_length; lia).
  rewrite nth_firstn_lt by lia.
  rewrite nth_skipn_add, Nat.add_0_r. apply app_nth1. lia.
Qed.

(* insert: the collection is l, the buffer has room for |t| more cells (reserve);
   copy(buf+i, buf+i+|t|, len-i); copy(t, buf+i, |t|); set_len(len+|t|) *)
Theorem insert_by_memmove (l spare t : list A) i :
  i <= length l -> length t <= length spare ->
  mlen (mwrite (mcopy (l ++ spare) i (i + length t) (length l - i)) i t) (length l + length t)
  = firstn i l ++ t ++ skipn i l.
Proof.
  intros Hi Ht. unfold mlen, mwrite, mcopy.
  set (M := firstn (i + length t) (l ++ spare)).
  assert (LM : length M = i + length t) by (unfold M; rewrite firstn_length, app_length; lia).
  assert (FM : firstn i M = firstn i l).
  { unfold M. rewrite firstn_firstn. replace (Nat.min i (i + length t)) with i by lia.
    apply firstn_app_l. exact Hi. }
  rewrite (skipn_app_l l spare i) by lia.
  rewrite (firstn_app_exact (skipn i l) spare) by (rewrite skipn_length; lia).
  (* the buffer after the first copy: M ++ skipn i l ++ rest *)
  rewrite (firstn_app_l M _ i) by lia. rewrite FM.
  rewrite (skipn_app (i + length t) M). rewrite LM, Nat.sub_diag. cbn [skipn].
  rewrite (skipn_all2 M) by lia. cbn [app].
  rewrite !app_assoc. apply firstn_app_exact.
  rewrite !app_length, firstn_length, skipn_length. lia.
Qed.

End Mem.

Example remove_ex : mlen (mcopy ([10; 11; 12; 13; 14] ++ [99; 98]) 3 1 2) 3 = [10; 13; 14].
Proof. reflexivity. Qed.
Example insert_ex : mlen (mwrite (mcopy ([10; 11; 12] ++ [99; 98; 97]) 1 3 2) 1 [7; 8]) 5 = [10; 7; 8; 11; 12].
Proof. reflexivity. Qed.
