(* VecSourceOk.v — the pieces of /repo's collections::Vec and RawVec parsed into LeafActual.v
   (regenerated on every run) mean what VecModel says: capacity arithmetic of reserve, index checks,
   memmove arguments and new lengths of insert / remove / split_off, range resolution of drain. *)
From BV Require Import LeafActualOk.
From BV Require Import Word WordFacts RustSem ArenaModel ArenaPolicy ConstsActual LeafActual.
From Coq Require Import String Lia.
Open Scope string_scope.
Open Scope N_scope.

(* a source function that no longer means what the model says must make a lemma fail, not hang *)
Set Default Timeout 100.

(* a source function that no longer means what the model says can make `cbn` explode:
   bound every command, the lemma then simply fails *)

Arguments N.add : simpl never.
Arguments N.sub : simpl never.
Arguments N.mul : simpl never.
Arguments N.div : simpl never.
Arguments N.modulo : simpl never.
Arguments N.ltb : simpl never.
Arguments N.leb : simpl never.
Arguments N.eqb : simpl never.
Arguments N.max : simpl never.
Arguments N.min : simpl never.
Arguments N.land : simpl never.
Arguments N.lnot : simpl never.
Arguments N.ldiff : simpl never.
Arguments N.pow : simpl never.
Arguments N.log2 : simpl never.
Arguments N.shiftl : simpl never.
Arguments npow2 : simpl never.
Arguments rdown : simpl never.
Arguments N.compare : simpl never.
Arguments wsub : simpl never.


(* RawVec::amortized_new_size; `self.cap * 2` is unchecked in the source (cap <= isize::MAX) *)
Lemma src_amortized_new_size_ok cap used extra : cap * 2 < W ->
  call_fn src_fns [("self", VRec [("cap", VN cap)])] "amortized_new_size" [VN used; VN extra]
  = Ret (vopt (match checked_add used extra with Some r => Some (N.max (cap * 2) r) | None => None end)).
Proof.
  intros H. unfold call_fn, checked_add. rsimpl.
  destruct (used + extra <? W); rsimpl; [|reflexivity].
  replace (cap * 2 <? W) with true by (symmetry; apply N.ltb_lt; exact H). rsimpl. reflexivity.
Qed.

(* RawVec::cap(): usize::MAX for zero-sized elements, the field otherwise *)
Lemma src_cap_ok es cap :
  call_fn src_fns [("self", VRec [("cap", VN cap)]); ("size_of_T", VN es)] "cap" []
  = Ret (VN (if es =? 0 then USIZE_MAX else cap)).
Proof. unfold call_fn. rsimpl. destruct (es =? 0); rsimpl; reflexivity. Qed.

(* RawVec::current_layout, the layout handed to realloc and dealloc: none without a buffer, else the
   WHOLE buffer, cap elements (not the initialised prefix) *)
Lemma src_current_layout_ok es ea cap : es * cap < W ->
  call_fn src_fns [("self", VRec [("cap", VN cap)]); ("size_of_T", VN es); ("align_of_T", VN ea)] "current_layout" []
  = Ret (if cap =? 0 then VNone else VSome (vlayout (mkLayout (es * cap) ea))).
Proof.
  intros H. unfold call_fn. rsimpl. destruct (cap =? 0); rsimpl; [reflexivity|].
  replace (es * cap <? W) with true by (symmetry; apply N.ltb_lt; exact H). rsimpl. reflexivity.
Qed.

(* the inlined shortcut of {fallible,infallible}_reserve_internal: "there is room already" is
   `cap().wrapping_sub(used) >= extra` — the test of VecModel.try_reserve (capv is what cap() returns) *)
Lemma src_reserve_has_room_ok capv used extra strat :
  call_fn src_fns [("self", VRec [("cap", VN capv)])] "fallible_reserve_has_room" [VN used; VN extra; strat]
  = Ret (VB (extra <=? wsub capv used)) /\
  call_fn src_fns [("self", VRec [("cap", VN capv)])] "infallible_reserve_has_room" [VN used; VN extra; strat]
  = Ret (VB (extra <=? wsub capv used)).
Proof. unfold call_fn. split; rsimpl; reflexivity. Qed.

(* the new capacity reserve_internal asks for: exact = used + extra, amortized = max(2 cap, used + extra);
   an overflowing sum leaves the function with the error (`?`): vtry None *)
Lemma src_reserve_new_cap_ok cap used extra f strat : cap * 2 < W ->
  call_fn src_fns [("self", VRec [("cap", VN cap)])] "reserve_new_cap_exact" [VN used; VN extra; f; strat]
  = Ret (vtry (checked_add used extra)) /\
  call_fn src_fns [("self", VRec [("cap", VN cap)])] "reserve_new_cap_amortized" [VN used; VN extra; f; strat]
  = Ret (vtry (match checked_add used extra with Some r => Some (N.max (cap * 2) r) | None => None end)).
Proof.
  intros H. unfold call_fn, checked_add. split; rsimpl.
  - destruct (used + extra <? W); rsimpl; reflexivity.
  - destruct (used + extra <? W); rsimpl; [|reflexivity].
    replace (cap * 2 <? W) with true by (symmetry; apply N.ltb_lt; exact H). rsimpl. reflexivity.
Qed.

(* ---------- collections::Vec: index checks, memmove arguments and new lengths of insert / remove /
   split_off, and the range resolution of drain (also String::drain) ---------- *)
From BV Require VecModel.
Definition vself (len cap base : N) : env :=
  [("self", VRec [("len", VN len); ("buf", VRec [("cap", VN cap)]); ("as_mut_ptr", VN base); ("as_ptr", VN base)])].
Definition vbound (b : VecModel.bound) : val :=
  match b with
  | VecModel.Incl n => VRec [("tag", VN 0); ("n", VN n)]
  | VecModel.Excl n => VRec [("tag", VN 1); ("n", VN n)]
  | VecModel.Unb => VRec [("tag", VN 2); ("n", VN 0)]
  end.
Definition vrange (s e : VecModel.bound) : val := VRec [("start_bound", vbound s); ("end_bound", vbound e)].
Definition opt_or_panic (o : option N) : outcome := match o with Some x => Ret (VN x) | None => Panic end.

Ltac vsimpl :=
  cbv beta iota zeta delta
    [call_fn eval lookup bind finish meth0 meth1 arith fn_params fn_body src_fns vself vbound vrange
     String.eqb Ascii.eqb Bool.eqb List.app List.combine List.length
     Datatypes.app Datatypes.length List.rev Nat.eqb FUEL_SEM fst snd].

(* the statements of vec.rs pinned as text *)
Lemma src_frames_vec_ok : forallb snd src_frames_vec = true.
Proof. vm_compute. reflexivity. Qed.

Lemma src_vec_insert_ok len cap base i x : i <= len -> base + i + 1 < W -> len + 1 < W ->
  let en := vself len cap base in
  let args := [VN i; x] in
  call_fn src_fns en "vec_insert_index_ok" args = Ret (VB (i <=? len)) /\
  call_fn src_fns en "vec_insert_must_grow" args = Ret (VB (len =? cap)) /\
  call_fn src_fns en "vec_insert_copy_src" args = Ret (VN (base + i)) /\
  call_fn src_fns en "vec_insert_copy_dst" args = Ret (VN (base + i + 1)) /\
  call_fn src_fns en "vec_insert_copy_len" args = Ret (VN (len - i)) /\
  call_fn src_fns en "vec_insert_new_len" args = Ret (VN (len + 1)).
Proof.
  intros Hi Hb Hl en args. unfold en, args.
  assert (T1 : (base + i <? W) = true) by (apply N.ltb_lt; lia).
  assert (T2 : (base + i + 1 <? W) = true) by (apply N.ltb_lt; lia).
  assert (T3 : (i <=? len) = true) by (apply N.leb_le; exact Hi).
  assert (T4 : (len + 1 <? W) = true) by (apply N.ltb_lt; exact Hl).
  repeat match goal with |- _ /\ _ => split end; unfold call_fn; vsimpl;
    rewrite ?T1; vsimpl; rewrite ?T2, ?T3, ?T4; vsimpl; reflexivity.
Qed.

(* the index check alone, for every index (the panic condition of the model: len <? i) *)
Lemma src_vec_insert_check len cap base i x :
  call_fn src_fns (vself len cap base) "vec_insert_index_ok" [VN i; x] = Ret (VB (negb (len <? i))).
Proof.
  unfold call_fn. vsimpl. f_equal. f_equal. destruct (len <? i) eqn:E; cbn [negb].
  - apply N.leb_gt. apply N.ltb_lt. exact E.
  - apply N.leb_le. apply N.ltb_ge. exact E.
Qed.

Lemma src_vec_remove_ok len cap base i : i < len -> base + i + 1 < W ->
  let en := vself len cap base in
  let args := [VN i] in
  call_fn src_fns en "vec_remove_index_ok" args = Ret (VB (i <? len)) /\
  call_fn src_fns en "vec_remove_copy_src" args = Ret (VN (base + i + 1)) /\
  call_fn src_fns en "vec_remove_copy_dst" args = Ret (VN (base + i)) /\
  call_fn src_fns en "vec_remove_copy_len" args = Ret (VN (len - i - 1)) /\
  call_fn src_fns en "vec_remove_new_len" args = Ret (VN (len - 1)).
Proof.
  intros Hi Hb en args. unfold en, args.
  assert (T1 : (base + i <? W) = true) by (apply N.ltb_lt; lia).
  assert (T2 : (base + i + 1 <? W) = true) by (apply N.ltb_lt; lia).
  assert (T3 : (i <=? len) = true) by (apply N.leb_le; lia).
  assert (T4 : (1 <=? len - i) = true) by (apply N.leb_le; lia).
  assert (T5 : (1 <=? len) = true) by (apply N.leb_le; lia).
  repeat match goal with |- _ /\ _ => split end; unfold call_fn; vsimpl;
    rewrite ?T1; vsimpl; rewrite ?T2, ?T3; vsimpl; rewrite ?T4, ?T5; vsimpl; reflexivity.
Qed.

Lemma src_vec_remove_check len cap base i :
  call_fn src_fns (vself len cap base) "vec_remove_index_ok" [VN i] = Ret (VB (i <? len)).
Proof. unfold call_fn. vsimpl. reflexivity. Qed.

Lemma src_vec_split_off_ok len cap base at_ : at_ <= len -> base + at_ < W ->
  let en := vself len cap base in
  call_fn src_fns en "vec_split_off_index_ok" [VN at_] = Ret (VB (negb (len <? at_))) /\
  call_fn src_fns en "vec_split_off_other_len" [VN at_] = Ret (VN (len - at_)) /\
  call_fn src_fns en "vec_split_off_copy_src" [VN at_] = Ret (VN (base + at_)).
Proof.
  intros Hi Hb en. unfold en.
  assert (T1 : (base + at_ <? W) = true) by (apply N.ltb_lt; lia).
  assert (T3 : (at_ <=? len) = true) by (apply N.leb_le; exact Hi).
  repeat match goal with |- _ /\ _ => split end.
  - unfold call_fn. vsimpl. rewrite T3.
    replace (len <? at_) with false by (symmetry; apply N.ltb_ge; exact Hi). reflexivity.
  - unfold call_fn. vsimpl. rewrite T3. vsimpl. reflexivity.
  - unfold call_fn. vsimpl. rewrite T1. vsimpl. reflexivity.
Qed.

(* Vec::drain resolves its range like VecModel.range_start / range_end: an inclusive/exclusive
   bound of usize::MAX panics instead of wrapping (finding F10) *)
Lemma src_drain_bounds_ok len cap base s e :
  let en := vself len cap base in
  call_fn src_fns en "vec_drain_start" [vrange s e] = opt_or_panic (VecModel.range_start s) /\
  call_fn src_fns en "vec_drain_end" [vrange s e] = opt_or_panic (VecModel.range_end e len).
Proof.
  intros en. unfold en, VecModel.range_start, VecModel.range_end, checked_add.
  repeat match goal with |- _ /\ _ => split end; unfold call_fn;
    [destruct s as [n|n|] | destruct e as [n|n|]]; vsimpl; try reflexivity;
    destruct (n + 1 <? W); vsimpl; reflexivity.
Qed.

Lemma src_vec_drain_checks_ok len cap base s e a b :
  VecModel.range_start s = Some a -> VecModel.range_end e len = Some b ->
  let en := vself len cap base in
  call_fn src_fns en "vec_drain_ordered" [vrange s e] = Ret (VB (a <=? b)) /\
  call_fn src_fns en "vec_drain_in_range" [vrange s e] = Ret (VB (b <=? len)) /\
  (b <= len -> call_fn src_fns en "vec_drain_tail_len" [vrange s e] = Ret (VN (len - b))).
Proof.
  intros Hs He en. unfold en.
  destruct s as [n|n|]; destruct e as [n'|n'|];
    cbn [VecModel.range_start VecModel.range_end] in Hs, He; unfold checked_add in Hs, He;
    repeat match goal with
           | H : (if ?c then _ else _) = Some _ |- _ => destruct c eqn:?; [|discriminate H]
           end;
    inversion Hs; inversion He; subst a b; clear Hs He;
    (split; [|split; [|intros Hb; apply N.leb_le in Hb]]); unfold call_fn; vsimpl;
    cbv beta iota delta [N.eqb Pos.eqb]; vsimpl;
    repeat match goal with E : (_ <? W) = true |- _ => rewrite E; clear E end; vsimpl;
    rewrite ?Hb, ?N.leb_refl; vsimpl; reflexivity.
Qed.


(* Drain::drop: after the remaining items are dropped, the tail [tail_start, tail_start + tail_len) moves
   down to the vector's current length (the drain's start) — only if there is a tail and it is not
   already in place — and the length becomes start + tail_len: VecModel.drain's copy_within and length *)
Definition vdrain (base start tail_start tail_len : N) : env :=
  [("self", VRec [("tail_start", VN tail_start); ("tail_len", VN tail_len);
                  ("vec", VRec [("as_mut", VRec [("len", VN start); ("as_mut_ptr", VN base)])])])].
Lemma src_vec_drain_drop_ok base start tail_start tail_len :
  base + tail_start < W -> base + start < W -> start + tail_len < W ->
  let en := vdrain base start tail_start tail_len in
  call_fn src_fns en "vec_drain_drop_has_tail" [] = Ret (VB (0 <? tail_len)) /\
  call_fn src_fns en "vec_drain_drop_must_move" [] = Ret (VB (negb (tail_start =? start))) /\
  call_fn src_fns en "vec_drain_drop_copy_src" [] = Ret (VN (base + tail_start)) /\
  call_fn src_fns en "vec_drain_drop_copy_dst" [] = Ret (VN (base + start)) /\
  call_fn src_fns en "vec_drain_drop_copy_len" [] = Ret (VN tail_len) /\
  call_fn src_fns en "vec_drain_drop_new_len" [] = Ret (VN (start + tail_len)).
Proof.
  intros H1 H2 H3 en. unfold en.
  assert (T1 : (base + tail_start <? W) = true) by (apply N.ltb_lt; exact H1).
  assert (T2 : (base + start <? W) = true) by (apply N.ltb_lt; exact H2).
  assert (T3 : (start + tail_len <? W) = true) by (apply N.ltb_lt; exact H3).
  repeat match goal with |- _ /\ _ => split end; unfold call_fn;
    cbv beta iota zeta delta
      [call_fn eval lookup bind finish meth0 meth1 arith fn_params fn_body src_fns vdrain
       String.eqb Ascii.eqb Bool.eqb List.app List.combine List.length
       Datatypes.app Datatypes.length List.rev Nat.eqb FUEL_SEM fst snd];
    rewrite ?T1, ?T2, ?T3; reflexivity.
Qed.

(* push / pop / append_elements: push grows iff len == cap and writes at buf.ptr() + len; pop tests
   len == 0; append reserves `count`, copies `count` elements to the end (VecModel.push / pop / extend_copy) *)
Definition vself2 (len cap base : N) : env :=
  [("self", VRec [("len", VN len); ("buf", VRec [("cap", VN cap); ("ptr", VN base)]); ("as_mut_ptr", VN base)])].
Lemma src_vec_push_pop_append_ok len cap base x count other : base + len < W ->
  let en := vself2 len cap base in
  call_fn src_fns en "vec_push_must_grow" [x] = Ret (VB (len =? cap)) /\
  call_fn src_fns en "vec_push_slot" [x] = Ret (VN (base + len)) /\
  call_fn src_fns en "vec_pop_empty" [] = Ret (VB (len =? 0)) /\
  let en2 := ("count", VN count) :: en in
  call_fn src_fns en2 "vec_append_reserves" [other] = Ret (VN count) /\
  call_fn src_fns en2 "vec_append_copy_dst" [other] = Ret (VN (base + len)) /\
  call_fn src_fns en2 "vec_append_copy_len" [other] = Ret (VN count).
Proof.
  intros H. assert (T : (base + len <? W) = true) by (apply N.ltb_lt; exact H).
  repeat match goal with |- _ /\ _ => split | |- let _ := _ in _ => let x := fresh in intro x; subst x end;
    unfold call_fn;
    cbv beta iota zeta delta
      [call_fn eval lookup bind finish meth0 meth1 arith fn_params fn_body src_fns vself2
       String.eqb Ascii.eqb Bool.eqb List.app List.combine List.length
       Datatypes.app Datatypes.length List.rev Nat.eqb FUEL_SEM fst snd];
    rewrite ?T; reflexivity.
Qed.

(* DrainFilter's destructor restores the length old_len - del (del counts what was removed, including
   an element whose predicate call is in flight: VecModel.df_drain) *)
Lemma src_vec_drain_filter_drop_ok old_len del : del <= old_len ->
  call_fn src_fns [("self", VRec [("old_len", VN old_len); ("del", VN del)])] "vec_drain_filter_drop_new_len" []
  = Ret (VN (old_len - del)).
Proof.
  intros H. assert (T : (del <=? old_len) = true) by (apply N.leb_le; exact H).
  unfold call_fn.
  cbv beta iota zeta delta
      [call_fn eval lookup bind finish meth0 meth1 arith fn_params fn_body src_fns
       String.eqb Ascii.eqb Bool.eqb List.app List.combine List.length
       Datatypes.app Datatypes.length List.rev Nat.eqb FUEL_SEM fst snd].
  rewrite T. reflexivity.
Qed.

(* Splice: Drain::fill writes into the gap [vec.len, tail_start) starting at buffer + vec.len;
   Drain::move_tail reserves (tail_start + tail_len, extra), then moves the tail_len tail elements
   from tail_start up to tail_start + extra — VecModel.sp_fill / sp_move_tail *)
Lemma src_vec_splice_ok base len tail_start tail_len extra it :
  len <= tail_start -> base + tail_start + extra < W -> tail_start + tail_len < W ->
  let en := vdrain base len tail_start tail_len in
  call_fn src_fns en "vec_splice_fill_start" [it] = Ret (VN len) /\
  call_fn src_fns en "vec_splice_fill_end" [it] = Ret (VN tail_start) /\
  call_fn src_fns en "vec_splice_fill_at" [it] = Ret (VN (base + len)) /\
  call_fn src_fns en "vec_splice_fill_gap" [it] = Ret (VN (tail_start - len)) /\
  call_fn src_fns en "vec_splice_used_capacity" [VN extra] = Ret (VN (tail_start + tail_len)) /\
  call_fn src_fns en "vec_splice_reserve_extra" [VN extra] = Ret (VN extra) /\
  call_fn src_fns en "vec_splice_new_tail_start" [VN extra] = Ret (VN (tail_start + extra)) /\
  call_fn src_fns en "vec_splice_move_src" [VN extra] = Ret (VN (base + tail_start)) /\
  call_fn src_fns en "vec_splice_move_dst" [VN extra] = Ret (VN (base + (tail_start + extra))) /\
  call_fn src_fns en "vec_splice_move_len" [VN extra] = Ret (VN tail_len).
Proof.
  intros H0 H1 H2 en. subst en.
  assert (T1 : (base + len <? W) = true) by (apply N.ltb_lt; lia).
  assert (T2 : (len <=? tail_start) = true) by (apply N.leb_le; exact H0).
  assert (T3 : (tail_start + tail_len <? W) = true) by (apply N.ltb_lt; exact H2).
  assert (T4 : (tail_start + extra <? W) = true) by (apply N.ltb_lt; lia).
  assert (T5 : (base + tail_start <? W) = true) by (apply N.ltb_lt; lia).
  assert (T6 : (base + (tail_start + extra) <? W) = true) by (apply N.ltb_lt; lia).
  repeat match goal with |- _ /\ _ => split end; unfold call_fn;
    cbv beta iota zeta delta
      [call_fn eval lookup bind finish meth0 meth1 arith fn_params fn_body src_fns vdrain
       String.eqb Ascii.eqb Bool.eqb List.app List.combine List.length
       Datatypes.app Datatypes.length List.rev Nat.eqb FUEL_SEM fst snd];
    rewrite ?T1, ?T2, ?T3, ?T4, ?T5;
    cbv beta iota zeta delta [bind meth1 lookup String.eqb Ascii.eqb Bool.eqb];
    rewrite ?T6; reflexivity.
Qed.
