(* ArenaFast.v — try_alloc_layout_fast: where the pointer lands. *)
From BV Require Import Word WordFacts ArenaModel.
From Coq Require Import Lia.

Lemma fast_ptr_spec k start ptr l q :
  pow2 (k_malign k) -> pow2 (l_align l) ->
  start <= ptr -> ptr mod k_malign k = 0 ->
  fast_ptr k start ptr l = Some q ->
  start <= q /\ q + l_size l <= ptr /\ q mod l_align l = 0 /\ q mod k_malign k = 0.
Proof.
  intros Pm Pa Hsp Hpm. unfold fast_ptr.
  pose proof (pow2_nz _ Pm) as Nm. pose proof (pow2_nz _ Pa) as Na.
  set (m := k_malign k) in *. set (a := l_align l) in *. set (s := l_size l) in *.
  destruct (N.compare_spec a m) as [E|L|G].
  - (* Eq *)
    destruct (ptr - start <? rup s a) eqn:C; [discriminate|].
    intros H; inversion H; subst q; clear H. apply N.ltb_ge in C.
    pose proof (rup_ge s a Na). pose proof (rup_mod s a Na) as Ra.
    set (asz := rup s a) in *.
    split; [lia|]. split; [lia|]. split.
    + apply mod0_sub; [exact Na | rewrite E; exact Hpm | exact Ra].
    + apply mod0_sub; [exact Nm | exact Hpm | rewrite <- E; exact Ra].
  - (* Lt *)
    destruct (round_up_to s m) as [asz|] eqn:R; [|discriminate].
    apply round_up_to_some in R. destruct R as [-> _].
    destruct (ptr - start <? rup s m) eqn:C; [discriminate|].
    intros H; inversion H; subst q; clear H. apply N.ltb_ge in C.
    pose proof (rup_ge s m Nm). pose proof (rup_mod s m Nm) as Rm.
    set (asz := rup s m) in *.
    assert (D : (a | m)) by (apply pow2_divide; [assumption | assumption | lia]).
    assert (Q : (ptr - asz) mod m = 0) by (apply mod0_sub; assumption).
    split; [lia|]. split; [lia|]. split.
    + eapply mod0_trans; [exact Na | exact Nm | exact D | exact Q].
    + exact Q.
  - (* Gt *)
    destruct ((rdown ptr a <? start) || (rdown ptr a - start <? rup s a)) eqn:C; [discriminate|].
    intros H; inversion H; subst q; clear H.
    apply orb_false_elim in C. destruct C as [C1 C2].
    apply N.ltb_ge in C1. apply N.ltb_ge in C2.
    pose proof (rup_ge s a Na). pose proof (rup_mod s a Na) as Ra.
    pose proof (rdown_le ptr a Na). pose proof (rdown_mod ptr a Na) as Da.
    set (asz := rup s a) in *. set (ap := rdown ptr a) in *.
    assert (D : (m | a)) by (apply pow2_divide; [assumption | assumption | lia]).
    assert (Q : (ap - asz) mod a = 0) by (apply mod0_sub; assumption).
    split; [lia|]. split; [lia|]. split.
    + exact Q.
    + eapply mod0_trans; [exact Nm | exact Na | exact D | exact Q].
Qed.

(* on a chunk-less arena only zero-sized requests succeed, and they return the
   address of the static itself: nothing is ever stored there but that address *)
Lemma fast_ptr_empty k e l q :
  pow2 (k_malign k) -> pow2 (l_align l) -> e mod k_malign k = 0 ->
  fast_ptr k e e l = Some q -> q = e /\ l_size l = 0.
Proof.
  intros Pm Pa He H.
  destruct (fast_ptr_spec k e e l q Pm Pa (N.le_refl e) He H) as (A & B & _).
  lia.
Qed.

(* the fast path is monotone in the space available: used for C06/C18 *)
Lemma fast_ptr_enough k start ptr l :
  pow2 (k_malign k) -> pow2 (l_align l) ->
  start <= ptr -> ptr mod k_malign k = 0 -> ptr < W ->
  l_align l <= k_malign k -> rup (l_size l) (k_malign k) <= ptr - start ->
  l_size l + (k_malign k - 1) < W ->
  fast_ptr k start ptr l = Some (ptr - rup (l_size l) (k_malign k)).
Proof.
  intros Pm Pa Hsp Hpm HW La Hfit Hno. unfold fast_ptr.
  pose proof (pow2_nz _ Pm) as Nm.
  destruct (N.compare_spec (l_align l) (k_malign k)) as [E|L|G].
  - rewrite E. destruct (ptr - start <? rup (l_size l) (k_malign k)) eqn:C.
    + apply N.ltb_lt in C. lia.
    + reflexivity.
  - unfold round_up_to, checked_add.
    assert (T : l_size l + (k_malign k - 1) <? W = true) by (apply N.ltb_lt; exact Hno).
    rewrite T. fold (rup (l_size l) (k_malign k)).
    destruct (ptr - start <? rup (l_size l) (k_malign k)) eqn:C.
    + apply N.ltb_lt in C. lia.
    + reflexivity.
  - lia.
Qed.
