(* Utf8Enc.v — C14: the encoding of a char is one well-formed character that decodes to the
   same scalar value, so push / insert keep the text valid and hold the char given. *)
From BV Require Import Word Utf8 Utf8Facts Utf8Lossy.
From Coq Require Import ZArith Lia Arith PeanoNat ZifyBool ZifyN.
Ltac Zify.zify_post_hook ::= Z.div_mod_to_equations.

Lemma scalar_spec cp : scalar cp = true <-> cp < 55296 \/ (57343 < cp /\ cp <= 1114111).
Proof. unfold scalar. rewrite orb_true_iff, andb_true_iff, !N.ltb_lt, N.leb_le. tauto. Qed.

Ltac ranges := unfold in_range, is_cont; repeat rewrite ?andb_true_iff, ?andb_false_iff, ?orb_true_iff, ?orb_false_iff, ?N.leb_le, ?N.leb_gt, ?N.ltb_lt, ?N.ltb_ge, ?N.eqb_eq, ?N.eqb_neq.

Theorem encode_wf cp : scalar cp = true -> wf_char (encode cp).
Proof.
  intros S. apply scalar_spec in S. unfold wf_char, encode.
  destruct (cp <? 128) eqn:E1.
  - cbn [char_len length]. rewrite E1. reflexivity.
  - apply N.ltb_ge in E1. destruct (cp <? 2048) eqn:E2.
    + apply N.ltb_lt in E2. cbn [char_len length].
      replace (192 + cp / 64 <? 128) with false by lia.
      replace (in_range 194 223 (192 + cp / 64)) with true by (cbv [in_range is_cont]; lia).
      replace (is_cont (128 + cp mod 64)) with true by (cbv [in_range is_cont]; lia). reflexivity.
    + apply N.ltb_ge in E2. destruct (cp <? 65536) eqn:E3.
      * apply N.ltb_lt in E3. cbn [char_len length].
        replace (224 + cp / 4096 <? 128) with false by lia.
        replace (in_range 194 223 (224 + cp / 4096)) with false by (cbv [in_range is_cont]; lia).
        replace (in_range 224 239 (224 + cp / 4096)) with true by (cbv [in_range is_cont]; lia).
        replace (is_cont (128 + cp mod 64)) with true by (cbv [in_range is_cont]; lia).
        rewrite andb_true_r.
        assert (G : ((224 + cp / 4096 =? 224) && in_range 160 191 (128 + (cp / 64) mod 64)
                     || in_range 225 236 (224 + cp / 4096) && in_range 128 191 (128 + (cp / 64) mod 64)
                     || (224 + cp / 4096 =? 237) && in_range 128 159 (128 + (cp / 64) mod 64)
                     || in_range 238 239 (224 + cp / 4096) && in_range 128 191 (128 + (cp / 64) mod 64)) = true).
        { cbv [in_range]. lia. }
        rewrite G. reflexivity.
      * apply N.ltb_ge in E3. cbn [char_len length].
        replace (240 + cp / 262144 <? 128) with false by lia.
        replace (in_range 194 223 (240 + cp / 262144)) with false by (cbv [in_range is_cont]; lia).
        replace (in_range 224 239 (240 + cp / 262144)) with false by (cbv [in_range is_cont]; lia).
        replace (in_range 240 244 (240 + cp / 262144)) with true by (cbv [in_range is_cont]; lia).
        replace (is_cont (128 + cp mod 64)) with true by (cbv [in_range is_cont]; lia).
        replace (is_cont (128 + (cp / 64) mod 64)) with true by (cbv [in_range is_cont]; lia).
        rewrite !andb_true_r.
        assert (G : ((240 + cp / 262144 =? 240) && in_range 144 191 (128 + (cp / 4096) mod 64)
                     || in_range 241 243 (240 + cp / 262144) && in_range 128 191 (128 + (cp / 4096) mod 64)
                     || (240 + cp / 262144 =? 244) && in_range 128 143 (128 + (cp / 4096) mod 64)) = true).
        { cbv [in_range]. lia. }
        rewrite G. reflexivity.
Qed.

Lemma encode_length cp : (1 <= length (encode cp) <= 4)%nat.
Proof. unfold encode. destruct (cp <? 128); [cbn; lia|]. destruct (cp <? 2048); [cbn; lia|]. destruct (cp <? 65536); cbn; lia. Qed.

(* what was encoded is what is read back *)
Theorem decode_encode cp rest : scalar cp = true -> decode (encode cp ++ rest) = Some cp.
Proof.
  intros S. pose proof (encode_wf cp S) as W. unfold decode.
  rewrite (wf_char_head (encode cp) rest W).
  apply scalar_spec in S. unfold encode in *.
  destruct (cp <? 128) eqn:E1; [reflexivity|].
  destruct (cp <? 2048) eqn:E2.
  - cbn [length app]. f_equal. lia.
  - destruct (cp <? 65536) eqn:E3; cbn [length app]; f_equal; lia.
Qed.

(* String::push / insert: valid text stays valid, and the char pushed is the last char read back *)
Theorem s_push_valid s cp : Valid s -> scalar cp = true -> Valid (s_push s cp).
Proof. intros V S. unfold s_push. apply Valid_app; [exact V | apply Valid_single, encode_wf; exact S]. Qed.

Theorem s_insert_valid s i cp s' : Valid s -> scalar cp = true -> s_insert s i cp = SRet s' -> Valid s'.
Proof.
  intros V S H. unfold s_insert in H.
  apply (s_insert_str_valid s i (encode cp) s' V); [apply Valid_single, encode_wf; exact S | exact H].
Qed.

(* insert at a position that is not a char boundary (or out of range) panics, as std does *)
Theorem s_insert_panics s i cp : is_char_boundary s i && (i <=? N.of_nat (length s)) = false -> s_insert s i cp = SPanic.
Proof. intros H. unfold s_insert, s_insert_str. rewrite H. reflexivity. Qed.

(* the lossy decoder never changes a pushed char: encode output is copied through *)
Corollary lossy_keeps_encoded cp : scalar cp = true -> utf8_lossy_spec (encode cp) = encode cp.
Proof.
  intros S. rewrite <- (app_nil_r (encode cp)) at 1.
  rewrite (spec_valid (encode cp) [] (Valid_single _ (encode_wf cp S))), spec_nil, app_nil_r. reflexivity.
Qed.
