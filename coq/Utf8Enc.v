(* Utf8Enc.v — C14: the encoding of a char is one well-formed character that decodes to the
   same scalar value, so push / insert keep the text valid and hold the char given. *)
From BV Require Import Word Utf8 Utf8Facts Utf8Lossy.
From Coq Require Import ZArith Lia Arith PeanoNat ZifyBool ZifyN.
Ltac Zify.zify_post_hook ::= Z.div_mod_to_equations.

Lemma scalar_spec cp : scalar cp = true <-> cp < 55296 \/ (57343 < cp /\ cp <= 1114111).
Proof. unfold scalar. rewrite orb_true_iff, andb_true_iff, !N.ltb_lt, N.leb_le. tauto. Qed.

Ltac ranges := unfold in_range, is_cont; repeat rewrite ?andb_true_iff, ?andb_false_iff, ?orb_true_iff, ?orb_false_iff, ?N.leb_le, ?N.leb_gt, ?N.ltb_lt, ?N.ltb_ge, ?N.eqb_eq, ?N.eqb_neq.

Theorem encode_wf cp : scalar cp = true -> wf_char (encode cp).
Proof.
  intros S. apply scalar_spec in S. unfold wf_char, encode.
  destruct (cp <? 128) eqn:E1.
  - cbn [char_len length]. rewrite E1. reflexivity.
  - apply N.ltb_ge in E1. destruct (cp <? 2048) eqn:E2.
    + apply N.ltb_lt in E2. cbn [char_len length].
      replace (192 + cp / 64 <? 128) with false by lia.
      replace (in_range 194 223 (192 + cp / 64)) with true by (cbv [in_range is_cont]; lia).
      replace (is_cont (128 + cp mod 64)) with true by (cbv [in_range is_cont]; lia). reflexivity.
    + apply N.ltb_ge in E2. destruct (cp <? 65536) eqn:E3.
      * apply N.ltb_lt in E3. cbn [char_len length].
        replace (224 + cp / 4096 <? 128) with false by lia.
        replace (in_range 194 223 (224 + cp / 4096)) with false by (cbv [in_range is_cont]; lia).
        replace (in_range 224 239 (224 + cp / 4096)) with true by (cbv [in_range is_cont]; lia).
        replace (is_cont (128 + cp mod 64)) with true by (cbv [in_range is_cont]; lia).
        rewrite andb_true_r.
        assert (G : ((224 + cp / 4096 =? 224) && in_range 160 191 (128 + (cp / 64) mod 64)
                     || in_range 225 236 (224 + cp / 4096) && in_range 128 191 (128 + (cp / 64) mod 64)
                     || (224 + cp / 4096 =? 237) && in_range 128 159 (128 + (cp / 64) mod 64)
                     || in_range 238 239 (224 + cp / 4096) && in_range 128 191 (128 + (cp / 64) mod 64)) = true).
        { cbv [in_range]. lia. }
        rewrite G. reflexivity.
      * apply N.ltb_ge in E3. cbn [char_len length].
        replace (240 + cp / 262144 <? 128) with false by lia.
        replace (in_range 194 223 (240 + cp / 262144)) with false by (cbv [in_range is_cont]; lia).
        replace (in_range 224 239 (240 + cp / 262144)) with false by (cbv [in_range is_cont]; lia).
        replace (in_range 240 244 (240 + cp / 262144)) with true by (cbv [in_range is_cont]; lia).
        replace (is_cont (128 + cp mod 64)) with true by (cbv [in_range is_cont]; lia).
        replace (is_cont (128 + (cp / 64) mod 64)) with true by (cbv [in_range is_cont]; lia).
        rewrite !andb_true_r.
        assert (G : ((240 + cp / 262144 =? 240) && in_range 144 191 (128 + (cp / 4096) mod 64)
                     || in_range 241 243 (240 + cp / 262144) && in_range 128 191 (128 + (cp / 4096) mod 64)
                     || (240 + cp / 262144 =? 244) && in_range 128 143 (128 + (cp / 4096) mod 64)) = true).
        { cbv [in_range]. lia. }
        rewrite G. reflexivity.
Qed.

Lemma encode_length cp : (1 <= length (encode cp) <= 4)%nat.
Proof. unfold encode. destruct (cp <? 128); [cbn; lia|]. destruct (cp <? 2048); [cbn; lia|]. destruct (cp <? 65536); cbn; lia. Qed.

(* what was encoded is what is read back *)
Theorem decode_encode cp rest : scalar cp = true -> decode (encode cp ++ rest) = Some cp.
Proof.
  intros S. pose proof (encode_wf cp S) as W. unfold decode.
  rewrite (wf_char_head (encode cp) rest W).
  apply scalar_spec in S. unfold encode in *.
  destruct (cp <? 128) eqn:E1; [reflexivity|].
  destruct (cp <? 2048) eqn:E2.
  - cbn [length app]. f_equal. lia.
  - destruct (cp <? 65536) eqn:E3; cbn [length app]; f_equal; lia.
Qed.

(* String::push / insert: valid text stays valid, and the char pushed is the last char read back *)
Theorem s_push_valid s cp : Valid s -> scalar cp = true -> Valid (s_push s cp).
Proof. intros V S. unfold s_push. apply Valid_app; [exact V | apply Valid_single, encode_wf; exact S]. Qed.

Theorem s_insert_valid s i cp s' : Valid s -> scalar cp = true -> s_insert s i cp = SRet s' -> Valid s'.
Proof.
  intros V S H. unfold s_insert in H.
  apply (s_insert_str_valid s i (encode cp) s' V); [apply Valid_single, encode_wf; exact S | exact H].
Qed.

(* insert at a position that is not a char boundary (or out of range) panics, as std does *)
Theorem s_insert_panics s i cp : is_char_boundary s i && (i <=? N.of_nat (length s)) = false -> s_insert s i cp = SPanic.
Proof. intros H. unfold s_insert, s_insert_str. rewrite H. reflexivity. Qed.

(* the lossy decoder never changes a pushed char: encode output is copied through *)
Corollary lossy_keeps_encoded cp : scalar cp = true -> utf8_lossy_spec (encode cp) = encode cp.
Proof.
  intros S. rewrite <- (app_nil_r (encode cp)) at 1.
  rewrite (spec_valid (encode cp) [] (Valid_single _ (encode_wf cp S))), spec_nil, app_nil_r. reflexivity.
Qed.

(* ---------- chars, pop, retain ---------- *)
Lemma chars_of_spec : forall fuel s, Valid s -> (length s <= fuel)%nat ->
  concat (chars_of fuel s) = s /\ Forall wf_char (chars_of fuel s).
Proof.
  induction fuel as [|fuel IH]; intros s V L.
  - destruct s; [split; [reflexivity | constructor] | cbn in L; lia].
  - cbn [chars_of]. destruct s as [|b0 r] eqn:Es; [split; [reflexivity | constructor]|]. rewrite <- Es in *.
    destruct (Valid_tail_char s V) as (n & C & Vr & W); [rewrite Es; discriminate|].
    rewrite C. destruct (char_len_spec s n C) as ((N1 & _) & N2 & _).
    destruct (IH (skipn n s) Vr) as [E F]; [rewrite skipn_length; lia|].
    cbn [concat]. rewrite E, firstn_skipn. split; [reflexivity | constructor; assumption].
Qed.

Lemma chars_spec s : Valid s -> concat (chars s) = s /\ Forall wf_char (chars s).
Proof. intros V. apply chars_of_spec; [exact V | lia]. Qed.

Lemma Valid_concat l : Forall wf_char l -> Valid (concat l).
Proof. induction 1 as [|ch r W _ IH]; cbn [concat]; [constructor | apply V_char; assumption]. Qed.

Lemma keep_by_forall {A} (P : A -> Prop) l : forall keep, Forall P l -> Forall P (keep_by l keep).
Proof.
  induction l as [|x r IH]; intros keep F; [destruct keep; constructor|].
  destruct keep as [|k ks]; [constructor|]. inversion F; subst. cbn [keep_by]. destruct k; [constructor|]; auto.
Qed.

(* retain keeps whole characters only: the text stays valid whatever the predicate answers *)
Theorem s_retain_valid s keep : Valid s -> Valid (s_retain s keep).
Proof.
  intros V. unfold s_retain. apply Valid_concat. apply keep_by_forall. apply (chars_spec s V).
Qed.

Theorem s_retain_all s keep : Valid s -> (length (chars s) <= length keep)%nat -> Forall (fun k => k = true) keep ->
  s_retain s keep = s.
Proof.
  intros V L K. unfold s_retain. rewrite <- (proj1 (chars_spec s V)) at 2. f_equal.
  revert keep L K. induction (chars s) as [|x r IH]; intros keep L K; [destruct keep; reflexivity|].
  destruct keep as [|k ks]; [cbn in L; lia|]. inversion K; subst. cbn [keep_by]. f_equal. apply IH; [cbn in L; lia | assumption].
Qed.

(* pop: what remains is valid, and remaining ++ popped character is the old text *)
Theorem s_pop_spec s : Valid s -> s <> [] ->
  exists ch cp, s_pop s = (fst (s_pop s), Some cp) /\ fst (s_pop s) ++ ch = s /\ wf_char ch /\
                decode ch = Some cp /\ Valid (fst (s_pop s)).
Proof.
  intros V Hne. destruct (chars_spec s V) as [E F]. unfold s_pop.
  destruct (rev (chars s)) as [|ch before] eqn:R.
  - exfalso. assert (chars s = []) by (rewrite <- (rev_involutive (chars s)), R; reflexivity).
    rewrite H in E. cbn in E. symmetry in E. contradiction.
  - assert (Ec : chars s = rev before ++ [ch]) by (rewrite <- (rev_involutive (chars s)), R; reflexivity).
    rewrite Ec in E, F. rewrite concat_app in E. cbn [concat] in E. rewrite app_nil_r in E.
    apply Forall_app in F. destruct F as [Fb Fc]. inversion Fc as [|? ? W _]; subst.
    cbn [fst].
    assert (D : exists cp, decode ch = Some cp).
    { unfold decode. pose proof W as W'. unfold wf_char in W'. rewrite W'.
      destruct ch as [|b0 [|b1 [|b2 [|b3 [|b4 r]]]]]; cbn [length]; try (eexists; reflexivity).
      - cbn in W'. discriminate.
      - destruct (char_len_spec _ _ W') as ((_ & N4) & _). cbn [length] in N4. lia. }
    destruct D as (cp & D). exists ch, cp. rewrite D.
    split; [reflexivity|]. split; [first [exact E | reflexivity]|]. split; [exact W|]. split; [reflexivity|].
    apply Valid_concat. exact Fb.
Qed.

(* ---------- from_utf16_in ---------- *)
Lemma decode_utf16_scalar : forall n us cps, (length us <= n)%nat -> Forall (fun u => u < 65536) us ->
  decode_utf16 us = Some cps -> Forall (fun cp => scalar cp = true) cps.
Proof.
  induction n as [|n IH]; intros us cps L B H.
  - destruct us; [cbn in H; injection H as <-; constructor | cbn in L; lia].
  - destruct us as [|u r]; [cbn in H; injection H as <-; constructor|].
    cbn [decode_utf16] in H. inversion B as [|? ? Bu Br]; subst.
    destruct ((u <? 55296) || (57343 <? u)) eqn:E1.
    + destruct (decode_utf16 r) as [cps'|] eqn:ER; [|discriminate]. injection H as <-.
      constructor; [apply scalar_spec; lia | apply (IH r cps'); [cbn in L; lia | exact Br | exact ER]].
    + destruct (u <=? 56319) eqn:E2; [|discriminate].
      destruct r as [|lo r2]; [discriminate|].
      destruct (in_range 56320 57343 lo) eqn:E3; [|discriminate].
      destruct (decode_utf16 r2) as [cps'|] eqn:ER; [|discriminate]. injection H as <-.
      inversion Br as [|? ? Blo Br2]; subst.
      constructor; [apply scalar_spec; cbv [in_range] in E3; unfold surrogate_pair; lia|].
      apply (IH r2 cps'); [cbn in L; lia | exact Br2 | exact ER].
Qed.

(* whatever from_utf16_in accepts is valid UTF-8: the concatenation of the encodings of scalar values *)
Theorem from_utf16_valid us bs : Forall (fun u => u < 65536) us -> from_utf16 us = Some bs -> Valid bs.
Proof.
  intros B H. unfold from_utf16 in H. destruct (decode_utf16 us) as [cps|] eqn:E; [|discriminate].
  inversion H; subst. pose proof (decode_utf16_scalar (length us) us cps (Nat.le_refl _) B E) as S.
  clear E H. induction S as [|cp r Hs _ IH]; cbn [map concat]; [constructor|].
  apply Valid_app; [apply Valid_single, encode_wf; exact Hs | exact IH].
Qed.

(* it refuses exactly the inputs with an unpaired surrogate *)
Theorem from_utf16_lone_low u r : in_range 56320 57343 u = true -> from_utf16 (u :: r) = None.
Proof.
  intros H. unfold from_utf16. cbn [decode_utf16].
  replace ((u <? 55296) || (57343 <? u)) with false by (cbv [in_range] in H; lia).
  replace (u <=? 56319) with false by (cbv [in_range] in H; lia). reflexivity.
Qed.

Theorem from_utf16_lone_high u r : in_range 55296 56319 u = true ->
  (match r with lo :: _ => in_range 56320 57343 lo = false | [] => True end) -> from_utf16 (u :: r) = None.
Proof.
  intros H Hr. unfold from_utf16. cbn [decode_utf16].
  replace ((u <? 55296) || (57343 <? u)) with false by (cbv [in_range] in H; lia).
  replace (u <=? 56319) with true by (cbv [in_range] in H; lia).
  destruct r as [|lo r2]; [reflexivity|]. rewrite Hr. reflexivity.
Qed.

(* from_utf16_in accepts exactly the well-formed UTF-16 texts, and yields the UTF-8 of the same scalar values *)
Theorem decode_utf16_enc16 cps : Forall (fun cp => scalar cp = true) cps ->
  decode_utf16 (concat (map enc16 cps)) = Some cps.
Proof.
  induction 1 as [|cp r S _ IH]; [reflexivity|]. apply scalar_spec in S.
  cbn [map concat]. unfold enc16 at 1. destruct (cp <? 65536) eqn:E.
  - cbn [List.app decode_utf16]. replace ((cp <? 55296) || (57343 <? cp)) with true by lia. rewrite IH. reflexivity.
  - cbn [List.app decode_utf16].
    replace ((55296 + (cp - 65536) / 1024 <? 55296) || (57343 <? 55296 + (cp - 65536) / 1024)) with false by lia.
    replace (55296 + (cp - 65536) / 1024 <=? 56319) with true by lia.
    replace (in_range 56320 57343 (56320 + (cp - 65536) mod 1024)) with true by (cbv [in_range]; lia).
    rewrite IH. f_equal. f_equal. unfold surrogate_pair. lia.
Qed.

Theorem from_utf16_roundtrip cps : Forall (fun cp => scalar cp = true) cps ->
  from_utf16 (concat (map enc16 cps)) = Some (concat (map encode cps)).
Proof. intros S. unfold from_utf16. rewrite (decode_utf16_enc16 cps S). reflexivity. Qed.

Lemma decode_utf16_complete : forall n us cps, (length us <= n)%nat -> Forall (fun u => u < 65536) us ->
  decode_utf16 us = Some cps -> us = concat (map enc16 cps).
Proof.
  induction n as [|n IH]; intros us cps L B H.
  - destruct us; [cbn in H; injection H as <-; reflexivity | cbn in L; lia].
  - destruct us as [|u r]; [cbn in H; injection H as <-; reflexivity|].
    cbn [decode_utf16] in H. inversion B as [|? ? Bu Br]; subst.
    destruct ((u <? 55296) || (57343 <? u)) eqn:E1.
    + destruct (decode_utf16 r) as [cps'|] eqn:ER; [|discriminate]. injection H as <-.
      cbn [map concat]. unfold enc16 at 1. replace (u <? 65536) with true by lia. cbn [List.app]. f_equal.
      apply (IH r cps'); [cbn in L; lia | exact Br | exact ER].
    + destruct (u <=? 56319) eqn:E2; [|discriminate].
      destruct r as [|lo r2]; [discriminate|].
      destruct (in_range 56320 57343 lo) eqn:E3; [|discriminate].
      destruct (decode_utf16 r2) as [cps'|] eqn:ER; [|discriminate]. injection H as <-.
      inversion Br as [|? ? Blo Br2]; subst. cbv [in_range] in E3.
      cbn [map concat]. unfold enc16 at 1. unfold surrogate_pair.
      replace (65536 + (u - 55296) * 1024 + (lo - 56320) <? 65536) with false by lia. cbn [List.app].
      replace (65536 + (u - 55296) * 1024 + (lo - 56320) - 65536) with ((u - 55296) * 1024 + (lo - 56320)) by lia.
      f_equal; [lia|]. f_equal; [lia|].
      apply (IH r2 cps'); [cbn in L; lia | exact Br2 | exact ER].
Qed.

Theorem from_utf16_exact us : Forall (fun u => u < 65536) us ->
  (exists bs, from_utf16 us = Some bs) <->
  (exists cps, Forall (fun cp => scalar cp = true) cps /\ us = concat (map enc16 cps)).
Proof.
  intros B. split.
  - intros [bs H]. unfold from_utf16 in H. destruct (decode_utf16 us) as [cps|] eqn:E; [|discriminate].
    exists cps. split; [exact (decode_utf16_scalar _ us cps (Nat.le_refl _) B E) | exact (decode_utf16_complete _ us cps (Nat.le_refl _) B E)].
  - intros [cps [S ->]]. eexists. apply from_utf16_roundtrip. exact S.
Qed.

(* ---------- every well-formed character is the encoding of exactly one scalar value ---------- *)
Ltac split_if H := match type of H with context [if ?c then _ else _] => destruct c eqn:? end.

Theorem encode_decode ch cp : wf_char ch -> decode ch = Some cp -> scalar cp = true /\ encode cp = ch.
Proof.
  unfold wf_char. intros W D. unfold decode in D. rewrite W in D.
  destruct ch as [|b0 [|b1 [|b2 [|b3 [|b4 r]]]]]; cbn [length] in D; try discriminate.
  - (* one byte *)
    injection D as <-. cbn [char_len length] in W. split_if W; [|repeat (split_if W; try discriminate)].
    split; [apply scalar_spec; lia | unfold encode; rewrite Heqb; reflexivity].
  - (* two bytes *)
    injection D as <-. cbn [char_len length] in W.
    split_if W; [discriminate|]. split_if W; [|repeat (split_if W; try discriminate)].
    split_if W; [|discriminate]. cbv [in_range is_cont] in *.
    split; [apply scalar_spec; lia|]. unfold encode.
    replace ((b0 - 192) * 64 + (b1 - 128) <? 128) with false by lia.
    replace ((b0 - 192) * 64 + (b1 - 128) <? 2048) with true by lia.
    f_equal; [lia|]. f_equal. lia.
  - (* three bytes *)
    injection D as <-. cbn [char_len length] in W.
    split_if W; [discriminate|]. split_if W; [split_if W; discriminate|].
    split_if W; [|repeat (split_if W; try discriminate)].
    split_if W; [|discriminate]. cbv [in_range is_cont] in *.
    split; [apply scalar_spec; lia|]. unfold encode.
    replace ((b0 - 224) * 4096 + (b1 - 128) * 64 + (b2 - 128) <? 128) with false by lia.
    replace ((b0 - 224) * 4096 + (b1 - 128) * 64 + (b2 - 128) <? 2048) with false by lia.
    replace ((b0 - 224) * 4096 + (b1 - 128) * 64 + (b2 - 128) <? 65536) with true by lia.
    f_equal; [lia|]. f_equal; [lia|]. f_equal. lia.
  - (* four bytes *)
    injection D as <-. cbn [char_len length] in W.
    split_if W; [discriminate|]. split_if W; [split_if W; discriminate|].
    split_if W; [split_if W; discriminate|].
    split_if W; [|discriminate].
    split_if W; [|discriminate]. cbv [in_range is_cont] in *.
    split; [apply scalar_spec; lia|]. unfold encode.
    replace ((b0 - 240) * 262144 + (b1 - 128) * 4096 + (b2 - 128) * 64 + (b3 - 128) <? 128) with false by lia.
    replace ((b0 - 240) * 262144 + (b1 - 128) * 4096 + (b2 - 128) * 64 + (b3 - 128) <? 2048) with false by lia.
    replace ((b0 - 240) * 262144 + (b1 - 128) * 4096 + (b2 - 128) * 64 + (b3 - 128) <? 65536) with false by lia.
    f_equal; [lia|]. f_equal; [lia|]. f_equal; [lia|]. f_equal. lia.
Qed.

(* ---------- extend / push_str ---------- *)
Lemma s_extend_spec : forall cps s, s_extend s cps = s ++ concat (map encode cps).
Proof.
  induction cps as [|cp r IH]; intros s; cbn [s_extend fold_left map concat].
  - rewrite app_nil_r. reflexivity.
  - fold (s_extend (s_push s cp) r). rewrite IH. unfold s_push. rewrite <- app_assoc. reflexivity.
Qed.

Theorem s_extend_valid s cps : Valid s -> Forall (fun cp => scalar cp = true) cps -> Valid (s_extend s cps).
Proof.
  intros V F. rewrite s_extend_spec. apply Valid_app; [exact V|].
  induction F as [|cp r S _ IH]; cbn [map concat]; [constructor|].
  apply Valid_app; [apply Valid_single, encode_wf; exact S | exact IH].
Qed.

(* extending by the characters of a valid text appends that text *)
Theorem s_extend_chars s t cps : Valid t -> map decode (chars t) = map Some cps ->
  Forall (fun cp => scalar cp = true) cps -> s_extend s cps = s ++ t.
Proof.
  intros V D F. rewrite s_extend_spec. f_equal.
  destruct (chars_spec t V) as [C W]. transitivity (concat (chars t)); [f_equal | exact C].
  clear C V. revert cps D F. generalize dependent (chars t). intros l W.
  induction W as [|ch r Wc _ IH]; intros cps D F.
  - destruct cps; [reflexivity | discriminate].
  - destruct cps as [|cp cr]; [discriminate|]. cbn [map] in *. injection D as D1 D2.
    inversion F as [|? ? S Fr]; subst. f_equal; [|apply IH; assumption].
    destruct (encode_decode ch cp Wc D1) as [_ E]. exact E.
Qed.

Theorem s_push_str_valid s t : Valid s -> Valid t -> Valid (s_push_str s t).
Proof. intros; apply Valid_app; assumption. Qed.

(* ---------- String::drain: what the Drain yields ---------- *)
Lemma boundary_firstn s a b : (a <= b)%nat -> (b <= length s)%nat -> boundary s a -> boundary (firstn b s) a.
Proof.
  intros Hab Hb Ha. unfold boundary in *. rewrite firstn_length, Nat.min_l by exact Hb.
  destruct Ha as [-> | [-> | [Hlt Hc]]].
  - left. reflexivity.
  - right. left. lia.
  - destruct (Nat.eq_dec a b) as [->|Hne]; [right; left; reflexivity|].
    right. right. split; [lia|].
    rewrite <- (firstn_skipn b s) in Hc. rewrite app_nth1 in Hc by (rewrite firstn_length; lia). exact Hc.
Qed.

Lemma Forall_firstn' {A} (P : A -> Prop) n l : Forall P l -> Forall P (firstn n l).
Proof. intros H. revert n. induction H; intros [|n]; cbn [firstn]; constructor; auto. Qed.
Lemma Forall_skipn' {A} (P : A -> Prop) n l : Forall P l -> Forall P (skipn n l).
Proof. intros H. revert n. induction H; intros [|n]; cbn [skipn]; auto. Qed.
Lemma Forall_rev' {A} (P : A -> Prop) l : Forall P l -> Forall P (rev l).
Proof. intros H. apply Forall_forall. intros x Hx. apply in_rev in Hx. exact (proj1 (Forall_forall _ _) H x Hx). Qed.

Theorem s_drain_spec s a b front back d : Valid s -> s_drain s a b front back = SRet d ->
  let sub := firstn (N.to_nat b - N.to_nat a) (skipn (N.to_nat a) s) in
  sd_rest d = firstn (N.to_nat a) s ++ skipn (N.to_nat b) s /\ Valid (sd_rest d) /\
  Valid sub /\
  (* everything in the range is yielded from the front, yielded from the back or left: nothing twice, nothing lost *)
  concat (sd_front d) ++ concat (sd_left d) ++ concat (rev (sd_back d)) = sub /\
  sd_front d = firstn front (chars sub) /\
  sd_back d = firstn back (rev (skipn front (chars sub))) /\
  Forall wf_char (sd_front d ++ sd_left d ++ sd_back d).
Proof.
  intros V. unfold s_drain. destruct (s_replace_range s a b []) as [rest|] eqn:E; [|discriminate].
  intros H. injection H as <-. cbn [sd_rest sd_front sd_back sd_left].
  pose proof (s_replace_range_valid s a b [] rest V V_nil E) as Vr.
  unfold s_replace_range in E.
  destruct ((a <=? b) && (b <=? N.of_nat (length s)) && is_char_boundary s a && is_char_boundary s b) eqn:G; [|discriminate].
  injection E as <-. cbn [app] in *.
  rewrite !andb_true_iff in G. destruct G as [[[L1 L2] B1] B2]. apply N.leb_le in L1, L2.
  set (sub := firstn (N.to_nat b - N.to_nat a) (skipn (N.to_nat a) s)).
  assert (Vsub : Valid sub).
  { unfold sub. rewrite firstn_skipn_comm. replace (N.to_nat a + (N.to_nat b - N.to_nat a))%nat with (N.to_nat b) by lia.
    destruct (Valid_split s V (N.to_nat b)) as [V1 _]; [lia | apply is_char_boundary_spec; assumption|].
    apply (Valid_split _ V1 (N.to_nat a)).
    - rewrite firstn_length. lia.
    - apply boundary_firstn; [lia | lia | apply is_char_boundary_spec; [assumption | lia]]. }
  destruct (chars_spec sub Vsub) as [Hc Hwf].
  split; [reflexivity|]. split; [exact Vr|]. split; [exact Vsub|].
  set (cs := chars sub) in *. set (r1 := skipn front cs).
  assert (Hr1 : firstn (length r1 - back) r1 ++ rev (firstn back (rev r1)) = r1).
  { rewrite firstn_rev, rev_involutive. apply firstn_skipn. }
  split.
  { rewrite <- Hc. rewrite <- concat_app, <- concat_app. f_equal.
    rewrite Hr1. unfold r1. apply firstn_skipn. }
  split; [reflexivity|]. split; [reflexivity|].
  assert (Wr : Forall wf_char r1) by (apply Forall_skipn'; exact Hwf).
  apply Forall_app. split; [apply Forall_firstn'; exact Hwf|]. apply Forall_app. split.
  - apply Forall_firstn'. exact Wr.
  - apply Forall_firstn'. apply Forall_rev'. exact Wr.
Qed.
