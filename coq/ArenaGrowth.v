(* ArenaGrowth.v — C18, whole histories: when every chunk the allocator grants at least doubles the
   current one (what the crate's own policy does whenever its first candidate is granted), the
   chunk list is a doubling chain: its length is logarithmic in the newest chunk's size and all
   chunks together are at most twice the newest. *)
From BV Require Import Word WordFacts ArenaModel ArenaPolicy ArenaPolicyFacts ArenaSpec ArenaTrans ArenaAccounting.
From Coq Require Import Lia.

(* ---- elementary transitions whose chunk acquisitions satisfy Q at the state they happen in ---- *)
Inductive gelem (k : cfg) (Q : bump -> greq -> Prop) : bump -> bump -> Prop :=
| G_ptr b p : gelem k Q b (set_ptr b p)
| G_push b g data : Q b g -> gelem k Q b (push_chunk b (new_chunk k b g data))
| G_reset b : gelem k Q b (fst (reset k b))
| G_drop b : gelem k Q b (fst (drop_arena k b))
| G_tws b ts : gelem k Q b (set_tws b ts).

Inductive gpath (k : cfg) (Q : bump -> greq -> Prop) : bump -> bump -> Prop :=
| GP_nil b : gpath k Q b b
| GP_cons a b c : gelem k Q a b -> gpath k Q b c -> gpath k Q a c.

Lemma gpath_one k Q a b : gelem k Q a b -> gpath k Q a b.
Proof. intro H; eapply GP_cons; [exact H | apply GP_nil]. Qed.

Lemma gpath_trans k Q a b c : gpath k Q a b -> gpath k Q b c -> gpath k Q a c.
Proof. induction 1; intros; [assumption | eapply GP_cons; eauto]. Qed.

#[export] Hint Resolve GP_nil gpath_one G_ptr G_reset G_drop G_tws : growth.

(* what the acquirer answers at state b satisfies Q there *)
(* (a capacity request is only ever made by the constructor, on an arena without chunks) *)
Definition relevant (b : bump) (o : op) (w : want) : Prop :=
  match w with
  | ForCapacity cap => chunks b = [] /\ o = OWithCapacity cap
  | ForLayout _ => forall cap, o <> OWithCapacity cap
  end.
Definition acq_at (A : acquirer) (b : bump) (o : op) (Q : bump -> greq -> Prop) : Prop :=
  forall w g data reqs, relevant b o w -> A b w = (AcqSome g data, reqs) -> Q b g.
(* the same, for the operations that ask with a layout *)
Definition acq_lay (A : acquirer) (b : bump) (Q : bump -> greq -> Prop) : Prop :=
  forall l g data reqs, A b (ForLayout l) = (AcqSome g data, reqs) -> Q b g.
Lemma acq_at_lay A b o Q : (forall cap, o <> OWithCapacity cap) -> acq_at A b o Q -> acq_lay A b Q.
Proof. intros N H l g data reqs E. exact (H (ForLayout l) g data reqs N E). Qed.

Lemma fast_gpath k Q b l p b' : fast k b l = Some (p, b') -> gpath k Q b b'.
Proof. unfold fast; destruct (fast_ptr _ _ _ _); intros H; inversion H; subst; auto with growth. Qed.

Lemma slow_gpath k Q A b l : acq_lay A b Q -> gpath k Q b (fst (slow k A b l)).
Proof.
  intros HA. unfold slow. destruct (A b (ForLayout l)) as [a reqs] eqn:EA. destruct a; cbn [fst]; auto with growth.
  assert (HQ : Q b g) by (apply (HA l g data reqs EA)).
  destruct (fast k _ l) as [[p b2]|] eqn:E; cbn [fst].
  - eapply GP_cons; [apply G_push; exact HQ | eapply fast_gpath; eauto].
  - apply gpath_one, G_push, HQ.
Qed.

Lemma try_alloc_gpath k Q A b l : acq_lay A b Q -> gpath k Q b (fst (try_alloc k A b l)).
Proof.
  intros HA. unfold try_alloc. destruct (fast k b l) as [[p b1]|] eqn:E; cbn [fst].
  - eapply fast_gpath; eauto.
  - apply slow_gpath, HA.
Qed.

Lemma shrink_gpath k Q A b p old new : acq_lay A b Q -> gpath k Q b (fst (shrink k A b p old new)).
Proof.
  intros HA. unfold shrink.
  destruct (l_align old <? l_align new).
  - destruct (p mod l_align new =? 0); cbn [fst]; auto with growth.
    rewrite after_alloc_copy_fst. apply try_alloc_gpath, HA.
  - destruct (_ && _); cbn [fst]; auto with growth.
Qed.

Lemma grow_gpath k Q A b p old new : acq_lay A b Q -> gpath k Q b (fst (grow k A b p old new)).
Proof.
  intros HA. unfold grow.
  destruct (round_up_to _ _); cbn [fst]; auto with growth.
  destruct (_ && _).
  - destruct (layout_ok _ _); cbn [fst]; auto with growth.
    destruct (fast k b _) as [[q b1]|] eqn:E; cbn [fst].
    + eapply fast_gpath; eauto.
    + rewrite after_alloc_copy_fst. apply try_alloc_gpath, HA.
  - rewrite after_alloc_copy_fst. apply try_alloc_gpath, HA.
Qed.

Lemma realloc_gpath k Q A b p l n : acq_lay A b Q -> gpath k Q b (fst (realloc k A b p l n)).
Proof.
  intros HA. unfold realloc. destruct (l_size l =? 0); [apply try_alloc_gpath, HA|].
  destruct (layout_ok _ _); cbn [fst]; auto with growth.
  destruct (n <=? l_size l); [apply shrink_gpath | apply grow_gpath]; exact HA.
Qed.

Lemma with_capacity_gpath k Q A b cap : acq_at A b (OWithCapacity cap) Q -> gpath k Q b (fst (with_capacity k A b cap)).
Proof.
  intros HA. unfold with_capacity. destruct (chunks b) eqn:EC; cbn [fst]; auto with growth.
  destruct (cap =? 0); cbn [fst]; auto with growth.
  destruct (layout_ok _ _); cbn [fst]; auto with growth.
  destruct (A b (ForCapacity cap)) as [a reqs] eqn:EA; destruct a; cbn [fst]; auto with growth.
  apply gpath_one, G_push. exact (HA (ForCapacity cap) g data reqs (conj EC eq_refl) EA).
Qed.

Lemma tw_begin_gpath k Q A b l : acq_lay A b Q -> gpath k Q b (fst (tw_begin k A b l)).
Proof.
  intros HA. unfold tw_begin. pose proof (try_alloc_gpath k Q A b l HA) as H.
  destruct (try_alloc k A b l) as [b1 o]; cbn [fst snd] in *.
  destruct (o_res o); cbn [fst]; auto.
  eapply gpath_trans; [exact H|]. apply gpath_one. apply (G_tws k Q b1).
Qed.

Lemma tw_end_gpath k Q b ok : gpath k Q b (fst (tw_end k b ok)).
Proof.
  unfold tw_end. destruct (tws b) as [|t rest]; cbn [fst]; auto with growth.
  destruct ok; cbn [fst]; [auto with growth|].
  destruct (_ =? tw_res t); [|cbn [fst]; auto with growth].
  destruct (_ =? tw_foot t); cbn [fst];
    (eapply GP_cons; [apply (G_tws k Q b rest) | auto with growth]).
Qed.

Theorem step_gpath k Q A b o :
  (forall x, o <> OSetLimit x) -> acq_at A b o Q -> gpath k Q b (fst (step k A b o)).
Proof.
  intros NL HA.
  destruct o; cbn [step];
    try (assert (HL : acq_lay A b Q) by (eapply acq_at_lay; [|exact HA]; intros c; discriminate)).
  - apply with_capacity_gpath, HA.
  - apply try_alloc_gpath, HL.
  - unfold dealloc; destruct (_ =? _); cbn [fst]; auto with growth.
  - destruct zeroed; [rewrite grow_zeroed_fst|]; apply grow_gpath, HL.
  - apply shrink_gpath, HL.
  - apply realloc_gpath, HL.
  - auto with growth.
  - exfalso. exact (NL o eq_refl).
  - apply tw_begin_gpath, HL.
  - apply tw_end_gpath.
  - auto with growth.
Qed.

Lemma gpath_inv k Q (P : bump -> Prop) :
  (forall a b, gelem k Q a b -> P a -> P b) -> forall a b, gpath k Q a b -> P a -> P b.
Proof. intros HP a b H; induction H; eauto. Qed.

(* a history in which whatever the allocator granted satisfied Q at the state it was asked in, and
   every change of the limit satisfied L at the state it was made in *)
Fixpoint hist_ok (k : cfg) (Q : bump -> greq -> Prop) (L : bump -> option N -> Prop)
         (b : bump) (h : list (op * acquirer)) : Prop :=
  match h with
  | [] => True
  | (o, A) :: r =>
      acq_at A b o Q /\ (match o with OSetLimit x => L b x | _ => True end) /\
      hist_ok k Q L (fst (step k A b o)) r
  end.

Theorem run_ginv k Q (L : bump -> option N -> Prop) (P : bump -> Prop) :
  (forall a b, gelem k Q a b -> P a -> P b) ->
  (forall b x, L b x -> P b -> P (mkBump (chunks b) x (tws b))) ->
  forall h b, hist_ok k Q L b h -> P b -> P (run k b h).
Proof.
  intros HP HL h. unfold run.
  induction h as [|[o A] h IH]; cbn [fold_left fst snd hist_ok]; intros b Hh Hb; [exact Hb|].
  destruct Hh as (HA & Ho & Hr). apply IH; [exact Hr|].
  destruct o; try (eapply gpath_inv; [exact HP | apply step_gpath; [intros x; discriminate | exact HA] | exact Hb]).
  cbn [step fst]. apply HL; assumption.
Qed.

(* ---- the doubling chain ---- *)
Definition grows (k : cfg) (b : bump) (g : greq) : Prop :=
  2 * (cur_layout_size k b - k_footer k) <= g_size g - k_footer k /\ k_default k <= g_size g - k_footer k.

Fixpoint doubling (cs : list chunk) : Prop :=
  match cs with
  | c2 :: r => match r with c1 :: _ => 2 * c_nswf c1 <= c_nswf c2 | [] => True end /\ doubling r
  | [] => True
  end.

Definition Chain (k : cfg) (b : bump) : Prop :=
  doubling (chunks b) /\ Forall (fun c => k_default k <= c_nswf c) (chunks b).

Lemma Chain_fresh k : Chain k fresh.
Proof. split; [exact I | constructor]. Qed.

Lemma gelem_chain k a b : gelem k (grows k) a b -> Chain k a -> Chain k b.
Proof.
  unfold Chain. intros H; destruct H as [b p|b g data HQ|b|b|b ts]; intros [Hd Hf].
  - rewrite chunks_set_ptr. destruct (chunks b) as [|c r]; [split; assumption|].
    cbn [doubling with_ptr c_nswf] in *. split; [exact Hd|].
    inversion Hf; subst. constructor; assumption.
  - destruct HQ as [H2 Hdef]. cbn [push_chunk chunks doubling new_chunk c_nswf]. split.
    + split; [|exact Hd]. unfold cur_layout_size in H2. destruct (chunks b) as [|c r]; [exact I|]. lia.
    + constructor; [exact Hdef | exact Hf].
  - unfold reset. destruct (chunks b) as [|c r] eqn:E; cbn [fst chunks]; [rewrite E; split; assumption|].
    cbn [doubling c_nswf]. split; [split; exact I|]. inversion Hf; subst. constructor; [assumption | constructor].
  - cbn [drop_arena fst chunks doubling]. split; [exact I | constructor].
  - split; assumption.
Qed.

(* every reachable state of such a history is a doubling chain *)
Definition any_limit : bump -> option N -> Prop := fun _ _ => True.

Theorem growth_chain k h b :
  hist_ok k (grows k) any_limit b h -> Chain k b -> Chain k (run k b h).
Proof.
  intros Hh Hb. apply (run_ginv k (grows k) any_limit (Chain k) (gelem_chain k)); [|exact Hh | exact Hb].
  intros b0 x _ H. exact H.
Qed.

(* ---- what a doubling chain means in numbers ---- *)
Lemma chain_log k : forall cs c r, doubling cs -> Forall (fun c => k_default k <= c_nswf c) cs ->
  cs = c :: r -> k_default k * 2 ^ N.of_nat (length r) <= c_nswf c.
Proof.
  induction cs as [|c0 r0 IH]; intros c r Hd Hf E; [discriminate|]. inversion E; subst c0 r0; clear E.
  destruct r as [|c1 r1].
  - cbn [length]. inversion Hf; subst. cbn. lia.
  - cbn [doubling] in Hd. destruct Hd as [H2 Hd]. inversion Hf; subst.
    specialize (IH c1 r1 Hd H3 eq_refl).
    cbn [length]. rewrite Nat2N.inj_succ, N.pow_succ_r'. lia.
Qed.

Definition total_nswf (cs : list chunk) : N := sumN (map c_nswf cs).

Lemma chain_sum : forall cs c r, doubling cs -> cs = c :: r -> total_nswf cs <= 2 * c_nswf c.
Proof.
  induction cs as [|c0 r0 IH]; intros c r Hd E; [discriminate|]. inversion E; subst c0 r0; clear E.
  unfold total_nswf in *. cbn [map]. unfold sumN in *. cbn [fold_right].
  destruct r as [|c1 r1]; [cbn [map fold_right]; lia|].
  cbn [doubling] in Hd. destruct Hd as [H2 Hd]. specialize (IH c1 r1 Hd eq_refl).
  cbn [map fold_right] in *. lia.
Qed.

(* the number of chunks held is logarithmic in the size of the newest; everything held is at most
   twice the newest chunk *)
Theorem growth_logarithmic k h :
  hist_ok k (grows k) any_limit fresh h ->
  let b := run k fresh h in
  match chunks b with
  | [] => True
  | c :: r => k_default k * 2 ^ N.of_nat (length r) <= c_nswf c /\ total_nswf (chunks b) <= 2 * c_nswf c
  end.
Proof.
  intros Hh b. destruct (growth_chain k h fresh Hh (Chain_fresh k)) as [Hd Hf]. fold b in Hd, Hf.
  destruct (chunks b) as [|c r] eqn:E; [exact I|]. split.
  - exact (chain_log k (c :: r) c r Hd Hf eq_refl).
  - exact (chain_sum (c :: r) c r Hd eq_refl).
Qed.

(* the executable form the checker evaluates on the blocks the implementation really holds *)
Lemma chain_sp k b : Chain k b ->
  sp_chain_ok k (map (fun c => c_nswf c + k_footer k) (chunks b)) = true.
Proof.
  intros [Hd Hf]. unfold sp_chain_ok.
  assert (D : sp_doubling k (map (fun c => c_nswf c + k_footer k) (chunks b)) = true).
  { clear Hf. induction (chunks b) as [|c2 r IH]; [reflexivity|]. cbn [map sp_doubling].
    cbn [doubling] in Hd. destruct Hd as [H2 Hd]. rewrite (IH Hd), Bool.andb_true_r.
    destruct r as [|c1 r1]; [reflexivity|]. cbn [map]. apply N.leb_le. lia. }
  assert (F : forallb (fun s => k_default k <=? s - k_footer k) (map (fun c => c_nswf c + k_footer k) (chunks b)) = true).
  { apply forallb_forall. intros s Hs. apply in_map_iff in Hs. destruct Hs as (c & <- & Hc).
    rewrite Forall_forall in Hf. specialize (Hf c Hc). apply N.leb_le. lia. }
  rewrite D, F. cbn [andb].
  destruct (chunks b) as [|c r] eqn:E; [reflexivity|].
  pose proof (chain_log k (c :: r) c r Hd Hf eq_refl) as L.
  pose proof (chain_sum (c :: r) c r Hd eq_refl) as S.
  assert (M : sumN (map (fun x => x - k_footer k) (map (fun c0 => c_nswf c0 + k_footer k) (c :: r))) = total_nswf (c :: r)).
  { unfold total_nswf. rewrite map_map. f_equal. apply map_ext. intros a. lia. }
  rewrite M. cbn [map]. rewrite map_length.
  replace (c_nswf c + k_footer k - k_footer k) with (c_nswf c) by lia.
  apply andb_true_intro. split; apply N.leb_le; assumption.
Qed.

(* ---- the crate's own policy grows like that: with no limit set and an allocator that grants what
   it is asked first, the chunk obtained is the first candidate or nothing ---- *)
Definition small_consts (k : cfg) : Prop :=
  k_page k <= 4294967296 /\ k_overhead k <= 4294967296 /\ k_default k <= 4294967296 /\ 0 < k_default k /\
  k_calign k <> 0 /\ k_page k <> 0 /\ k_footer k <= k_overhead k.

Lemma mem_details_bounds k given l d :
  k_calign k <> 0 -> k_page k <> 0 ->
  mem_details k given l = DSome d ->
  let al := N.max (N.max (k_calign k) (k_malign k)) (l_align l) in
  let n := N.max (match given with Some g => g | None => k_default k end) (rup (l_size l) al) in
  round_up_to (l_size l) al = Some (rup (l_size l) al) /\
  n <= d_nswf d /\ d_nswf d <= 2 * (n + k_overhead k) + k_page k /\
  d_size d = d_nswf d + k_footer k /\ d_align d = al.
Proof.
  intros Nc Np. unfold mem_details.
  set (al := N.max (N.max (k_calign k) (k_malign k)) (l_align l)).
  assert (Nal : al <> 0) by (unfold al; lia).
  destruct (round_up_to (l_size l) al) as [req|] eqn:ER; [|discriminate].
  apply round_up_to_some in ER. destruct ER as [-> _].
  set (g0 := match given with Some g => g | None => k_default k end).
  set (n := N.max g0 (rup (l_size l) al)).
  destruct (n <? k_page k) eqn:EP.
  - unfold checked_add. destruct (_ <? W); [|discriminate].
    intros H; inversion H; subst; clear H. cbn [d_nswf d_size d_align]. cbv zeta.
    pose proof (npow2_ge (n + k_overhead k)) as G.
    assert (U : npow2 (n + k_overhead k) <= 2 * (n + k_overhead k) + 1).
    { destruct (N.eq_dec (n + k_overhead k) 0) as [Z|NZ]; [rewrite Z; cbv; discriminate|].
      pose proof (npow2_le_double (n + k_overhead k)). lia. }
    repeat split; try reflexivity; lia.
  - destruct (round_up_to (n + k_overhead k) (k_page k)) as [x|] eqn:ER2; [|discriminate].
    apply round_up_to_some in ER2. destruct ER2 as [-> _].
    pose proof (rup_ge (n + k_overhead k) (k_page k) Np). pose proof (rup_lt (n + k_overhead k) (k_page k) Np).
    unfold checked_add. destruct (_ <? W); [|discriminate].
    intros HH; inversion HH; subst; clear HH. cbn [d_nswf d_size d_align]. cbv zeta.
    repeat split; try reflexivity; lia.
Qed.

(* the details depend on the candidate size only through max(candidate, rounded request) *)
Lemma mem_details_same_n k g1 g2 l :
  N.max g1 (rup (l_size l) (N.max (N.max (k_calign k) (k_malign k)) (l_align l))) =
  N.max g2 (rup (l_size l) (N.max (N.max (k_calign k) (k_malign k)) (l_align l))) ->
  mem_details k (Some g1) l = mem_details k (Some g2) l.
Proof.
  intros H. unfold mem_details.
  destruct (round_up_to (l_size l) _) as [req|] eqn:ER; [|reflexivity].
  apply round_up_to_some in ER. destruct ER as [-> _]. rewrite H. reflexivity.
Qed.

Lemma pow2_between a : pow2 a -> 4611686018427387904 < a -> a < W -> a = 9223372036854775808.
Proof.
  intros [j ->] Lo Hi. unfold W in Hi.
  destruct (N.le_gt_cases j 62) as [L|L].
  - assert (2 ^ j <= 2 ^ 62) by (apply N.pow_le_mono_r; lia). change (2 ^ 62) with 4611686018427387904 in *. lia.
  - destruct (N.le_gt_cases 64 j) as [G|G].
    + assert (2 ^ 64 <= 2 ^ j) by (apply N.pow_le_mono_r; lia). change (2 ^ 64) with 18446744073709551616 in *. lia.
    + assert (j = 63) by lia. subst j. reflexivity.
Qed.

(* the candidate loop without a limit, fed an allocator that grants: the chunk is the first
   candidate, or a later one after the first was not even a valid layout *)
Lemma cand_loop_scan k fuel : forall b l min_new base data rest reqs d data',
  limit b = None ->
  cand_loop k fuel b l None min_new base (Some data :: rest) = (reqs, PChunk d data') ->
  min_new <= base /\
  ((mem_details k (Some base) l = DSome d /\ layout_ok (d_size d) (d_align d) = true)
   \/ (exists d0 base', mem_details k (Some base) l = DSome d0 /\ layout_ok (d_size d0) (d_align d0) = false /\
        base <> 0 /\ base' <= base / 2 /\ min_new <= base' /\
        mem_details k (Some base') l = DSome d /\ layout_ok (d_size d) (d_align d) = true)).
Proof.
  induction fuel as [|fuel IH]; intros b l min_new base data rest reqs d data' Hlim H; [discriminate|].
  cbn [cand_loop] in H.
  assert (Bp : bypass b l k base = false) by (unfold bypass; rewrite Hlim; reflexivity).
  rewrite Bp, Bool.orb_false_r in H.
  destruct (min_new <=? base) eqn:EM; [|discriminate]. apply N.leb_le in EM. split; [exact EM|].
  destruct (mem_details k (Some base) l) as [| |d0] eqn:ED; try discriminate.
  cbn [fits andb] in H.
  destruct (layout_ok (d_size d0) (d_align d0)) eqn:EL.
  - inversion H; subst. left. split; [reflexivity | exact EL].
  - destruct (base =? 0) eqn:EZ; [discriminate|]. apply N.eqb_neq in EZ.
    destruct (cand_loop k fuel b l None min_new (base / 2) (Some data :: rest)) as [rq pr] eqn:EC.
    assert (pr = PChunk d data') by (cbn [fst snd] in H; inversion H; reflexivity). subst pr.
    destruct (IH b l min_new (base / 2) data rest rq d data' Hlim EC) as [M [[E1 E2]|(d1 & b1 & F1 & F2 & F3 & F4 & F5 & F6 & F7)]].
    + right. exists d0, (base / 2). repeat split; try assumption; try reflexivity.
    + right. exists d0, b1. repeat split; try assumption; try reflexivity.
      assert (base / 2 / 2 <= base / 2) by (apply N.div_le_upper_bound; lia). lia.
Qed.

Definition granted (answers : list (option N)) : Prop := exists data rest, answers = Some data :: rest.

(* first candidate or nothing *)
Lemma slow_policy_first k b l data rest rq d dt :
  small_consts k -> limit b = None -> cur_layout_size k b - k_footer k < 576460752303423488 ->
  slow_policy k b l (Some data :: rest) = (rq, PChunk d dt) ->
  mem_details k (Some (N.max ((cur_layout_size k b - k_footer k) * 2) (N.max (l_size l) (k_default k)))) l = DSome d.
Proof.
  intros (Kp & Ko & Kd & Kd0 & Nc & Np & Kf) Hlim Hcur E.
  unfold slow_policy, limit_left in E. rewrite Hlim in E.
  set (cur := cur_layout_size k b - k_footer k) in *.
  unfold checked_mul in E. destruct (cur * 2 <? W) eqn:EW; [|discriminate].
  set (min_new := N.max (l_size l) (k_default k)) in *.
  destruct (cand_loop_scan k FUEL b l min_new (N.max (cur * 2) min_new) data rest rq d dt Hlim E)
    as [M [[E1 E2]|(d0 & b1 & F1 & F2 & F3 & F4 & F5 & F6 & F7)]]; [exact E1|].
  exfalso.
  set (al := N.max (N.max (k_calign k) (k_malign k)) (l_align l)) in *.
  destruct (mem_details_bounds k _ l d0 Nc Np F1) as (_ & A1 & A2 & A3 & A4).
  destruct (mem_details_bounds k _ l d Nc Np F6) as (_ & B1 & B2 & B3 & B4).
  fold al in A1, A2, A4, B1, B2, B4.
  assert (Hb : N.max (cur * 2) min_new = cur * 2).
  { assert (N.max (cur * 2) min_new / 2 < N.max (cur * 2) min_new) by (apply N.div_lt; lia). lia. }
  rewrite Hb in *.
  assert (b1 <= cur) by (assert (cur * 2 / 2 = cur) by (apply N.div_mul; lia); lia).
  destruct (N.le_gt_cases (cur * 2) (rup (l_size l) al)) as [C|C].
  - (* the rounded request dominates: both candidates have the same details *)
    assert (EQ : mem_details k (Some (cur * 2)) l = mem_details k (Some b1) l)
      by (apply mem_details_same_n; fold al; lia).
    rewrite F1, F6 in EQ. inversion EQ; subst d0. rewrite F7 in F2. discriminate.
  - (* the first candidate is small: only an alignment of 2^63 makes it an invalid layout,
       and then no candidate is valid *)
    destruct (layout_ok_spec _ _ F7) as (P2 & PW & PS). rewrite B4 in P2, PW, PS.
    unfold layout_ok in F2. rewrite A4 in F2.
    rewrite (pow2_pow2b al P2) in F2. assert (T : (al <? W) = true) by (apply N.ltb_lt; exact PW).
    rewrite T in F2. cbn [andb] in F2. apply N.leb_gt in F2.
    assert (S0 : d_size d0 < 4611686018427387904) by lia.
    assert (AL : al = 9223372036854775808) by (apply pow2_between; [exact P2 | unfold ISIZE_MAX in F2; lia | exact PW]).
    unfold ISIZE_MAX in PS. unfold min_new in *. lia.
Qed.

Theorem policy_grows k answers b :
  small_consts k -> limit b = None -> cur_layout_size k b - k_footer k < 576460752303423488 ->
  granted answers -> forall o, acq_at (policy k answers) b o (grows k).
Proof.
  intros K Hlim Hcur (data & rest & ->) o w g data' reqs Hrel H.
  pose proof K as (Kp & Ko & Kd & Kd0 & Nc & Np & Kf).
  destruct w as [l|cap]; unfold policy, acq_of in H.
  - destruct (slow_policy k b l (Some data :: rest)) as [rq pr] eqn:E. cbn [fst snd] in H.
    destruct pr as [d dt| | | |]; inversion H; subst g data' reqs; clear H.
    pose proof (slow_policy_first k b l data rest rq d dt K Hlim Hcur E) as E1.
    destruct (mem_details_bounds k _ l d Nc Np E1) as (_ & B1 & _ & B3 & _).
    unfold grows. cbn [g_size]. rewrite B3. lia.
  - cbn [relevant] in Hrel. destruct Hrel as [Hrel _]. unfold capacity_policy in H.
    destruct (mem_details k None (mkLayout cap (k_malign k))) as [| |d] eqn:ED; cbn [fst snd] in H; try discriminate.
    destruct (layout_ok (d_size d) (d_align d)); cbn [fst snd] in H; [|discriminate].
    inversion H; subst; clear H.
    destruct (mem_details_bounds k _ _ d Nc Np ED) as (_ & B1 & _ & B3 & _).
    unfold grows, cur_layout_size. rewrite Hrel. cbn [g_size]. rewrite B3. lia.
Qed.

(* ... and the chunk is not much larger than what forced it: twice the larger of the doubled current
   chunk, the rounded request and the default size, plus page rounding *)
Theorem policy_chunk_bounded k answers b l g data reqs :
  small_consts k -> limit b = None -> cur_layout_size k b - k_footer k < 576460752303423488 ->
  granted answers -> policy k answers b (ForLayout l) = (AcqSome g data, reqs) ->
  let al := N.max (N.max (k_calign k) (k_malign k)) (l_align l) in
  g_size g - k_footer k <=
    2 * N.max (2 * (cur_layout_size k b - k_footer k)) (N.max (rup (l_size l) al) (k_default k))
    + 2 * k_overhead k + k_page k.
Proof.
  intros K Hlim Hcur (data0 & rest & ->) H al.
  pose proof K as (Kp & Ko & Kd & Kd0 & Nc & Np & Kf).
  unfold policy, acq_of in H.
  destruct (slow_policy k b l (Some data0 :: rest)) as [rq pr] eqn:E. cbn [fst snd] in H.
  destruct pr as [d dt| | | |]; inversion H; subst g data reqs; clear H.
  pose proof (slow_policy_first k b l data0 rest rq d dt K Hlim Hcur E) as E1.
  destruct (mem_details_bounds k _ l d Nc Np E1) as (R & _ & B2 & B3 & _). fold al in R, B2.
  apply round_up_to_some in R. destruct R as [_ R].
  assert (Nal : al <> 0) by (unfold al; lia).
  pose proof (rup_ge (l_size l) al Nal).
  cbn [g_size]. rewrite B3. lia.
Qed.

(* ---- whole histories of the crate's own policy ---- *)
(* every operation consults the crate's policy fed by an allocator that grants what it is asked
   first; no limit is in force and the current chunk is below 2^59 bytes when the operation starts *)
Fixpoint crate_run (k : cfg) (b : bump) (h : list (op * acquirer)) : Prop :=
  match h with
  | [] => True
  | (o, A) :: r =>
      (exists answers, A = policy k answers /\ granted answers) /\ limit b = None /\
      cur_layout_size k b - k_footer k < 576460752303423488 /\
      crate_run k (fst (step k A b o)) r
  end.

Lemma crate_run_hist_ok k : small_consts k -> forall h b, crate_run k b h -> hist_ok k (grows k) any_limit b h.
Proof.
  intros K. induction h as [|[o A] r IH]; intros b H; [exact I|].
  cbn [crate_run hist_ok] in *. destruct H as ((answers & -> & G) & L & C & R).
  split; [apply policy_grows; assumption | split; [destruct o; exact I | apply IH, R]].
Qed.

Theorem crate_growth_logarithmic k h :
  small_consts k -> crate_run k fresh h ->
  let b := run k fresh h in
  match chunks b with
  | [] => True
  | c :: r => k_default k * 2 ^ N.of_nat (length r) <= c_nswf c /\ total_nswf (chunks b) <= 2 * c_nswf c
  end.
Proof. intros K H. exact (growth_logarithmic k h (crate_run_hist_ok k K h fresh H)). Qed.

(* non-vacuity: a history that reaches four chunks *)
Definition k_ex : cfg := mkCfg 48 16 64 448 4096 1 1000.
Definition h_ex : list (op * acquirer) :=
  [(OAlloc (mkLayout 400 1), policy k_ex [Some 4096]); (OAlloc (mkLayout 400 1), policy k_ex [Some 8192]);
   (OAlloc (mkLayout 900 8), policy k_ex [Some 16384]); (ODealloc 0 (mkLayout 1 1), policy k_ex [Some 1]);
   (OAlloc (mkLayout 5000 1), policy k_ex [Some 65536])].

Example crate_run_example :
  small_consts k_ex /\ crate_run k_ex fresh h_ex /\
  map c_nswf (chunks (run k_ex fresh h_ex)) = [8128; 1984; 960; 448].
Proof.
  split; [unfold small_consts, k_ex; cbn; lia|]. split; [|vm_compute; reflexivity].
  unfold h_ex. cbn [crate_run].
  repeat (split; [eexists; split; [reflexivity | eexists; eexists; reflexivity] |
                  split; [vm_compute; reflexivity | split; [vm_compute; reflexivity |]]]).
  exact I.
Qed.
