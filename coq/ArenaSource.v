(* ArenaSource.v — the model's dealloc / shrink / grow are assembled from exactly the expressions that
   tools/rs2v.py extracts from Bump::dealloc / shrink / grow (LeafActual.v) and LeafActualOk.v evaluates:
   the structure around them (which branch calls which helper, what is stored, what is copied from
   where to where) is the hand-written part of the model, the arithmetic is the source's. *)
From BV Require Import Word WordFacts ArenaModel.
From Coq Require Import Lia.

Definition dealloc_assembled (k : cfg) (b : bump) (is_last : bool) (new_finger : N) : bump * out :=
  if is_last then (set_ptr b new_finger, mkOut RUnit [] (stores_of k b) [] [] []) else (b, out_of RUnit).

Theorem dealloc_is_assembled k b p l :
  dealloc k b p l = dealloc_assembled k b (cur_ptr k b =? p) (rup (cur_ptr k b + l_size l) (k_malign k)).
Proof.
  unfold dealloc, dealloc_assembled. destruct (cur_ptr k b =? p) eqn:E; [|reflexivity].
  apply N.eqb_eq in E. rewrite E. reflexivity.
Qed.

Definition shrink_delta_m (m : N) (old new : layout) : N :=
  rdown (l_size old - l_size new) (N.max (l_align new) m).

Definition shrink_assembled (k : cfg) (A : acquirer) (b : bump) (p : N) (new : layout)
           (raised lucky : bool) (fresh_len : N) (in_place : bool) (new_finger in_place_len : N) : bump * out :=
  if raised then
    if lucky then (b, out_of (ROk p)) else after_alloc_copy (try_alloc k A b new) p fresh_len
  else if in_place then
    (set_ptr b new_finger,
     mkOut (ROk new_finger) [] (stores_of k b) [mkCopy CopyNonOverlapping p new_finger in_place_len] [] [])
  else (b, out_of (ROk p)).

Theorem shrink_is_assembled k A b p old new :
  shrink k A b p old new =
  shrink_assembled k A b p new
    (l_align old <? l_align new) (p mod l_align new =? 0) (l_size new)
    ((cur_ptr k b =? p) && ((l_size old + 1) / 2 <=? shrink_delta_m (k_malign k) old new))
    (cur_ptr k b + shrink_delta_m (k_malign k) old new) (l_size new).
Proof.
  unfold shrink, shrink_assembled, shrink_delta_m. destruct (l_align old <? l_align new); [reflexivity|].
  destruct (cur_ptr k b =? p) eqn:E; cbn [andb]; [|reflexivity].
  apply N.eqb_eq in E. rewrite E. reflexivity.
Qed.

Definition grow_assembled (k : cfg) (A : acquirer) (b : bump) (p : N) (new : layout)
           (rounded : option N) (in_place : bool) (old_size old_align : N)
           (in_place_len fresh_len : N) : bump * out :=
  match rounded with
  | None => (b, out_of RErr)
  | Some ns =>
      let fallback := after_alloc_copy (try_alloc k A b new) p fresh_len in
      if in_place then
        let delta := ns - old_size in
        if layout_ok delta old_align then
          match fast k b (mkLayout delta old_align) with
          | Some (q, b1) => (b1, mkOut (ROk q) [] (stores_of k b) [mkCopy CopyMove p q in_place_len] [] [])
          | None => fallback
          end
        else (b, out_of RErr)
      else fallback
  end.

Theorem grow_is_assembled k A b p old new :
  grow k A b p old new =
  grow_assembled k A b p new (round_up_to (l_size new) (k_malign k))
    ((l_align new <=? l_align old) && (cur_ptr k b =? p)) (l_size old) (l_align old) (l_size old) (l_size old).
Proof. reflexivity. Qed.

(* ---------- alloc_try_with / try_alloc_try_with ---------- *)
(* entry: what the pending record keeps is what the source saves before reserving the slot
   (src_try_with_entry_ok: the current footer's address and its finger) *)
Theorem tw_begin_saves k A b l p :
  o_res (snd (tw_begin k A b l)) = ROk p ->
  exists t, tws (fst (tw_begin k A b l)) = t :: tws (fst (try_alloc k A b l)) /\
            tw_foot t = cur_foot k b /\ tw_ptr t = cur_ptr k b /\ tw_res t = p.
Proof.
  unfold tw_begin. destruct (o_res (snd (try_alloc k A b l))) eqn:E; intros H;
    try (rewrite E in H; discriminate H).
  cbn [fst snd] in *. rewrite E in H. injection H as <-.
  eexists. split; [reflexivity|]. cbn [tw_foot tw_ptr tw_res]. repeat split.
Qed.

(* exit with Err: the two tests and the two rewind targets are parameters *)
Definition tw_end_err_assembled (k : cfg) (b0 : bump) (is_last same_chunk : bool) (back_same back_new : N) : bump * out :=
  if is_last then
    if same_chunk then (set_ptr b0 back_same, mkOut RErr [] (stores_of k b0) [] [] [])
    else (set_ptr b0 back_new, mkOut RErr [] (stores_of k b0) [] [] [])
  else (b0, out_of RErr).

Theorem tw_end_is_assembled k b t rest :
  tws b = t :: rest ->
  let b0 := set_tws b rest in
  tw_end k b false =
  tw_end_err_assembled k b0 (cur_ptr k b0 =? tw_res t) (cur_foot k b0 =? tw_foot t)
                       (tw_ptr t) (rdown (cur_foot k b0) (k_malign k)) /\
  tw_end k b true = (b0, out_of (ROk (tw_res t))).
Proof.
  intros H b0. unfold tw_end, tw_end_err_assembled. rewrite H. cbn [negb]. split; reflexivity.
Qed.

(* ---------- try_with_min_align_and_capacity ---------- *)
Definition with_capacity_assembled (k : cfg) (A : acquirer) (b : bump) (cap : N)
           (zero : bool) (lay : option layout) : bump * out :=
  match chunks b with
  | _ :: _ => (b, out_of (RBad BAD_NOT_FRESH))
  | [] =>
    if zero then (b, out_of RUnit)
    else match lay with
         | Some _ =>
             let (a, reqs) := A b (ForCapacity cap) in
             match a with
             | AcqNone => (b, mkOut RErr [] [] [] [] reqs)
             | AcqBad w => (b, mkOut (RBad w) [] [] [] [] reqs)
             | AcqSome g data =>
                 (push_chunk b (new_chunk k b g data), mkOut RUnit [] [] [] (limit_flags k b g) reqs)
             end
         | None => (b, out_of RErr)
         end
  end.

Theorem with_capacity_is_assembled k A b cap :
  with_capacity k A b cap =
  with_capacity_assembled k A b cap (cap =? 0)
    (if layout_ok cap (k_malign k) then Some (mkLayout cap (k_malign k)) else None).
Proof.
  unfold with_capacity, with_capacity_assembled. destruct (chunks b); [|reflexivity].
  destruct (cap =? 0); [reflexivity|]. destruct (layout_ok cap (k_malign k)); reflexivity.
Qed.

(* ---------- Alloc::realloc (RawVec's route into the arena) ---------- *)
Definition realloc_assembled (k : cfg) (A : acquirer) (b : bump) (p : N) (l : layout)
           (old_empty : bool) (new_lay : option layout) (shrinks : bool) : bump * out :=
  if old_empty then try_alloc k A b l
  else match new_lay with
       | None => (b, out_of RErr)
       | Some nl => if shrinks then shrink k A b p l nl else grow k A b p l nl
       end.

Theorem realloc_is_assembled k A b p l n :
  realloc k A b p l n =
  realloc_assembled k A b p l (l_size l =? 0)
    (if layout_ok n (l_align l) then Some (mkLayout n (l_align l)) else None) (n <=? l_size l).
Proof.
  unfold realloc, realloc_assembled. destruct (l_size l =? 0); [reflexivity|].
  destruct (layout_ok n (l_align l)); reflexivity.
Qed.
