(* VecSplice.v — Vec::splice: Drain over the range, then Splice::drop (fill the gap, move the tail by
   the iterator's lower size hint, fill again, collect the rest, move the tail by its exact count,
   fill, let Drain::drop restore the length).  Whatever the size hints say, the result is
   c[..a] ++ xs ++ c[b..]. *)
From BV Require Import Word WordFacts VecModel VecFacts VecFacts2.
From Coq Require Import Lia Arith PeanoNat.

(* the buffer while the Drain is alive: the kept prefix, a gap of moved-out (or never initialised)
   slots, the tail, the rest of the capacity *)
Definition GapSt (pre tail : list N) (buf : list slot) (len ts : nat) : Prop :=
  exists gap rest, buf = map Some pre ++ gap ++ map Some tail ++ rest /\
                   length pre = len /\ (len + length gap = ts)%nat.

Lemma set_slot_length (buf : list slot) i x : (i < length buf)%nat -> length (set_slot buf i x) = length buf.
Proof. intros H. unfold set_slot. apply overwrite_length. cbn [length]. lia. Qed.

Lemma sp_fill_spec : forall gapn items pre tail buf len ts,
  GapSt pre tail buf len ts -> (ts - len = gapn)%nat ->
  forall buf' len' rest' full, sp_fill buf len gapn items = (buf', len', rest', full) ->
  exists written, items = written ++ rest' /\ GapSt (pre ++ written) tail buf' len' ts /\
    length buf' = length buf /\
    (full = true -> len' = ts) /\ (full = false -> rest' = [] /\ (len' < ts)%nat).
Proof.
  induction gapn as [|g IH]; intros items pre tail buf len ts G Hg buf' len' rest' full H.
  - cbn [sp_fill] in H. inversion H; subst buf' len' rest' full; clear H. exists [].
    assert (Hle : len = ts) by (destruct G as (gap & rest & _ & _ & Hl); lia).
    split; [reflexivity|]. split; [rewrite app_nil_r; exact G|]. split; [reflexivity|].
    split; [intros _; exact Hle | discriminate].
  - cbn [sp_fill] in H. destruct items as [|x r].
    + inversion H; subst buf' len' rest' full; clear H. exists [].
      split; [reflexivity|]. split; [rewrite app_nil_r; exact G|]. split; [reflexivity|].
      split; [discriminate | intros _; split; [reflexivity | lia]].
    + destruct G as (gap & rest & Hb & Hp & Hl).
      destruct gap as [|s0 gap']; [cbn [length] in Hl; lia|].
      assert (E : set_slot buf len x = map Some (pre ++ [x]) ++ gap' ++ map Some tail ++ rest).
      { rewrite Hb, <- Hp. cbn [app]. apply set_slot_next. }
      assert (G1 : GapSt (pre ++ [x]) tail (set_slot buf len x) (S len) ts).
      { exists gap', rest. repeat split; [exact E | rewrite app_length; cbn [length]; lia | cbn [length] in Hl; lia]. }
      destruct (IH r (pre ++ [x]) tail (set_slot buf len x) (S len) ts G1 ltac:(lia) buf' len' rest' full H)
        as (w & Hw & G2 & L2 & F1 & F2).
      exists (x :: w). rewrite <- app_assoc in G2. cbn [app] in G2.
      split; [cbn [app]; rewrite Hw; reflexivity|]. split; [exact G2|].
      split; [rewrite L2; apply set_slot_length; rewrite Hb, !app_length, map_length; cbn [length]; lia|].
      split; [exact F1 | exact F2].
Qed.

(* reserve on any buffer: the slots stay, the capacity covers used + extra and is a valid array size *)
Lemma resize_buf_any (buf : list slot) n : (length buf <= n)%nat ->
  resize_buf buf n = buf ++ repeat None (n - length buf).
Proof. intros H. unfold resize_buf. rewrite firstn_all2 by exact H. reflexivity. Qed.

Lemma reserve_any e (buf : list slot) used extra v1 :
  (used <= length buf)%nat -> e_size e * N.of_nat (length buf) <= ISIZE_MAX -> 0 < e_size e ->
  reserve e (mkVec buf (N.of_nat used)) extra false = Ret v1 ->
  exists pad, v_buf v1 = buf ++ pad /\ N.of_nat used + extra <= v_cap v1 /\ e_size e * v_cap v1 <= ISIZE_MAX.
Proof.
  intros Hu Hc He. unfold reserve, try_reserve, v_cap. cbn [v_buf v_len].
  assert (HW : N.of_nat (length buf) < W) by (unfold ISIZE_MAX, W in *; nia).
  assert (Hs : wsub (N.of_nat (length buf)) (N.of_nat used) = N.of_nat (length buf) - N.of_nat used).
  { unfold wsub. replace (N.of_nat (length buf) + W - N.of_nat used) with ((N.of_nat (length buf) - N.of_nat used) + 1 * W) by lia.
    rewrite N.mod_add by (unfold W; lia). apply N.mod_small. lia. }
  rewrite Hs. destruct (extra <=? N.of_nat (length buf) - N.of_nat used) eqn:E.
  - apply N.leb_le in E. intros H; inversion H; subst. exists []. rewrite app_nil_r. cbn [v_buf].
    repeat split; [lia | exact Hc].
  - apply N.leb_gt in E. unfold reserve_internal, v_cap. cbn [v_buf v_len].
    destruct (checked_add (N.of_nat used) extra) as [required|] eqn:EA; [|discriminate].
    unfold checked_add in EA. destruct (N.of_nat used + extra <? W); [|discriminate]. inversion EA; subst required; clear EA.
    set (new_cap := N.max (N.of_nat (length buf) * 2) (N.of_nat used + extra)).
    destruct (layout_array (e_size e) (e_align e) new_cap) as [l|] eqn:EL; [|discriminate].
    destruct (layout_array_spec _ _ _ _ EL) as [Ls Lb].
    destruct (l_size l <? ARENA_GRANTS); [|discriminate].
    intros H; inversion H; subst v1; clear H. cbn [v_buf].
    assert (Hn : (length buf <= nn new_cap)%nat) by (unfold nn, new_cap; lia).
    rewrite (resize_buf_any buf _ Hn). eexists. split; [reflexivity|].
    rewrite app_length, repeat_length. unfold nn in *.
    replace (N.of_nat (length buf + (N.to_nat new_cap - length buf))) with new_cap by lia.
    split; [unfold new_cap; lia | exact Lb].
Qed.

Lemma firstn_app_le {A} (l1 l2 : list A) n : (n <= length l1)%nat -> firstn n (l1 ++ l2) = firstn n l1.
Proof. intros H. rewrite firstn_app. replace (n - length l1)%nat with 0%nat by lia. cbn [firstn]. apply app_nil_r. Qed.

Lemma sp_move_tail_spec e pre tail buf len ts extra buf' ts' :
  GapSt pre tail buf len ts -> 0 < e_size e -> e_size e * N.of_nat (length buf) <= ISIZE_MAX ->
  sp_move_tail e buf ts (length tail) extra = Ret (buf', ts') ->
  GapSt pre tail buf' len ts' /\ ts' = (ts + nn extra)%nat /\ e_size e * N.of_nat (length buf') <= ISIZE_MAX.
Proof.
  intros (gap & rest & Hb & Hp & Hl) He Hc. unfold sp_move_tail.
  destruct (reserve e (mkVec buf (N.of_nat (ts + length tail))) extra false) as [v1|k] eqn:ER; [|discriminate].
  intros H; inversion H; subst buf' ts'; clear H.
  assert (Hu : (ts + length tail <= length buf)%nat).
  { rewrite Hb, !app_length, !map_length. lia. }
  destruct (reserve_any e buf _ extra v1 Hu Hc He ER) as (pad & Hv & Hcap & Hsz).
  unfold v_cap in Hcap, Hsz.
  set (x := nn extra). set (M := map Some tail ++ rest ++ pad).
  assert (HL : v_buf v1 = (map Some pre ++ gap) ++ M).
  { rewrite Hv, Hb. unfold M. rewrite <- !app_assoc. reflexivity. }
  assert (Hpg : length (map Some pre ++ gap) = ts) by (rewrite app_length, map_length; lia).
  assert (HM : (x + length tail <= length M)%nat).
  { assert (length (v_buf v1) = (ts + length M)%nat) by (rewrite HL, app_length, Hpg; reflexivity). unfold x, nn. lia. }
  assert (Hsrc : firstn (length tail) (skipn ts (v_buf v1)) = map Some tail).
  { rewrite HL, <- Hpg, skipn_app_exact. unfold M. rewrite <- (map_length Some tail). apply firstn_app_exact. }
  unfold copy_within. rewrite Hsrc.
  assert (Hfit : (ts + x + length (map Some tail) <= length (v_buf v1))%nat).
  { rewrite HL, app_length, Hpg, map_length. lia. }
  rewrite overwrite_fits by exact Hfit. rewrite map_length.
  split; [|split; [reflexivity|]].
  - exists (gap ++ firstn x M), (skipn (ts + x + length tail) (v_buf v1)).
    split; [|split; [exact Hp|]].
    + rewrite HL at 1. rewrite <- Hpg at 1. rewrite firstn_app, firstn_all2 by lia.
      replace (length (map Some pre ++ gap) + x - length (map Some pre ++ gap))%nat with x by lia.
      rewrite <- !app_assoc. reflexivity.
    + rewrite app_length, firstn_length. lia.
  - match goal with |- e_size e * N.of_nat ?n <= _ => assert (EQ : n = length (v_buf v1)) end.
    { rewrite !app_length, firstn_length, map_length, skipn_length. rewrite map_length in Hfit. lia. }
    rewrite EQ. exact Hsz.
Qed.

Lemma sp_finish_spec e pre tail buf len ts :
  GapSt pre tail buf len ts -> 0 < e_size e -> e_size e * N.of_nat (length buf) <= ISIZE_MAX ->
  repr e (sp_finish buf len ts (length tail)) (pre ++ tail).
Proof.
  intros (gap & rest & Hb & Hp & Hl) He Hc. unfold sp_finish.
  destruct (Nat.eqb (length tail) 0) eqn:ET.
  - apply Nat.eqb_eq in ET. destruct tail; [|discriminate]. rewrite app_nil_r.
    unfold repr, v_cap. cbn [v_buf v_len]. repeat split; [|lia|exact Hc|exact He].
    exists (gap ++ rest). rewrite Hb. cbn [map app]. reflexivity.
  - destruct (Nat.eqb ts len) eqn:EL.
    + apply Nat.eqb_eq in EL. assert (gap = []) by (destruct gap; [reflexivity | cbn [length] in Hl; lia]). subst gap.
      unfold repr, v_cap. cbn [v_buf v_len]. repeat split; [|rewrite app_length; lia|exact Hc|exact He].
      exists rest. rewrite Hb, map_app, <- app_assoc. reflexivity.
    + unfold copy_within.
      assert (Hsrc : firstn (length tail) (skipn ts buf) = map Some tail).
      { rewrite Hb, app_assoc. assert (Hpg : length (map Some pre ++ gap) = ts) by (rewrite app_length, map_length; lia).
        rewrite <- Hpg, skipn_app_exact. rewrite <- (map_length Some tail). apply firstn_app_exact. }
      rewrite Hsrc.
      assert (Hfit : (len + length (map Some tail) <= length buf)%nat).
      { rewrite Hb, !app_length, !map_length. lia. }
      unfold repr, v_cap. cbn [v_buf v_len]. rewrite overwrite_length by exact Hfit.
      repeat split; [|rewrite app_length; lia|exact Hc|exact He].
      rewrite overwrite_fits by exact Hfit. eexists.
      rewrite Hb at 1. rewrite <- Hp, <- (map_length Some pre), firstn_app_exact, map_app, <- app_assoc. reflexivity.
Qed.

Lemma sp_collect_spec e pre tail removed buf3 len3 rest3 full3 ts3 r :
  GapSt pre tail buf3 len3 ts3 -> 0 < e_size e -> e_size e * N.of_nat (length buf3) <= ISIZE_MAX ->
  (full3 = true -> len3 = ts3) -> (full3 = false -> rest3 = []) ->
  sp_collect e (length tail) removed (buf3, len3, rest3, full3, ts3) = Ret r ->
  repr e (s_vec r) (pre ++ rest3 ++ tail) /\ s_removed r = removed.
Proof.
  intros G He Hc Ft Ff. unfold sp_collect. destruct full3; cbn [negb].
  - destruct rest3 as [|y rest3'].
    + intros H; inversion H; subst r; clear H. cbn [s_vec s_removed app]. split; [|reflexivity].
      apply sp_finish_spec; assumption.
    + set (rest3 := y :: rest3').
      destruct (sp_move_tail e buf3 ts3 (length tail) (N.of_nat (length rest3))) as [[buf4 ts4]|k] eqn:EM; [|discriminate].
      destruct (sp_move_tail_spec e pre tail buf3 len3 ts3 _ buf4 ts4 G He Hc EM) as (G4 & Ets & Hc4).
      destruct (sp_fill buf4 len3 (ts4 - len3) rest3) as [[[buf5 len5] rest5] full5] eqn:EF.
      destruct (sp_fill_spec _ rest3 pre tail buf4 len3 ts4 G4 eq_refl buf5 len5 rest5 full5 EF)
        as (w & Hw & G5 & L5 & F5t & F5f).
      intros H; inversion H; subst r; clear H. cbn [s_vec s_removed]. split; [|reflexivity].
      assert (rest5 = []).
      { destruct full5; [|apply F5f; reflexivity].
        specialize (F5t eq_refl). specialize (Ft eq_refl).
        destruct G5 as (gap5 & r5 & _ & Hp5 & _). destruct G as (_ & _ & _ & Hp & _).
        rewrite app_length in Hp5. unfold nn in Ets. rewrite Nat2N.id in Ets.
        assert (length w = length rest3) by lia.
        assert (length rest3 = (length w + length rest5)%nat) by (rewrite Hw, app_length; reflexivity).
        destruct rest5; [reflexivity | cbn [length] in *; lia]. }
      subst rest5. rewrite app_nil_r in Hw. rewrite Hw.
      rewrite app_assoc. apply sp_finish_spec; [exact G5 | exact He | rewrite L5; exact Hc4].
  - intros H; inversion H; subst r; clear H. cbn [s_vec s_removed]. split; [|reflexivity].
    rewrite (Ff eq_refl). cbn [app]. apply sp_finish_spec; assumption.
Qed.

(* Vec::splice (dropped without taking items out): whatever the iterator's size hints claim, the
   vector ends as c[..a] ++ xs ++ c[b..], and the removed items are exactly c[a..b] *)
Theorem splice_spec e v c s e0 xs h0 h1 r :
  repr e v c -> splice e v s e0 xs h0 h1 = Ret r ->
  exists a b, drain_range v s e0 = Ret (a, b) /\
    repr e (s_vec r) (firstn (nn a) c ++ xs ++ skipn (nn b) c) /\
    s_removed r = firstn (nn b - nn a) (skipn (nn a) c).
Proof.
  intros R. unfold splice. destruct (drain_range v s e0) as [[a b]|k] eqn:ER; [|discriminate].
  intros H. exists a, b. split; [reflexivity|].
  destruct (drain_range_spec v s e0 a b ER) as [Lab Lb].
  pose proof R as ((rest0 & Hb) & Hl & Hc & He).
  assert (La : (nn a <= nn b)%nat) by (unfold nn; lia).
  assert (Lbc : (nn b <= length c)%nat) by (unfold nn; lia).
  assert (Hlen : nn (v_len v) = length c) by (unfold nn; lia).
  assert (Items : map (fun s0 : slot => match s0 with Some x => x | None => 0 end)
                    (firstn (nn b - nn a) (skipn (nn a) (v_buf v))) = firstn (nn b - nn a) (skipn (nn a) c)).
  { rewrite Hb, slice_of_buf by lia. apply unslot_some. }
  rewrite Items in H. set (removed := firstn (nn b - nn a) (skipn (nn a) c)) in *.
  set (pre := firstn (nn a) c). set (tail := skipn (nn b) c).
  assert (Htl : (nn (v_len v) - nn b)%nat = length tail) by (unfold tail; rewrite skipn_length; lia).
  rewrite Htl in H.
  assert (Hsplit : c = pre ++ removed ++ tail).
  { unfold pre, removed, tail. rewrite <- (firstn_skipn (nn a) c) at 1. f_equal.
    rewrite <- (firstn_skipn (nn b - nn a) (skipn (nn a) c)) at 1. f_equal.
    rewrite skipn_skipn'. f_equal. lia. }
  assert (Hcap : e_size e * N.of_nat (length (v_buf v)) <= ISIZE_MAX) by exact Hc.
  destruct (Nat.eqb (length tail) 0) eqn:ET.
  - (* no tail: extend *)
    apply Nat.eqb_eq in ET. assert (Tn : tail = []) by (destruct tail; [reflexivity | discriminate]).
    destruct (extend_iter e (mkVec (v_buf v) a) h0 xs) as [v'|k] eqn:EE; [|discriminate].
    inversion H; subst r; clear H. cbn [s_vec s_removed]. split; [|reflexivity].
    assert (R0 : repr e (mkVec (v_buf v) a) pre).
    { unfold repr, v_cap. cbn [v_buf v_len]. repeat split; [|unfold pre; rewrite firstn_length; unfold nn in *; lia|exact Hc|exact He].
      exists (map Some (removed ++ tail) ++ rest0). rewrite Hb. rewrite Hsplit at 1. rewrite map_app, <- app_assoc. reflexivity. }
    fold tail. rewrite Tn, app_nil_r.
    exact (extend_iter_spec e _ pre h0 xs v' R0 EE).
  - (* a tail: fill, move, fill, collect *)
    assert (G0 : GapSt pre tail (v_buf v) (nn a) (nn b)).
    { exists (map Some removed), rest0. repeat split.
      - rewrite Hb. rewrite Hsplit at 1. rewrite !map_app, <- !app_assoc. reflexivity.
      - unfold pre. rewrite firstn_length. lia.
      - rewrite map_length. unfold removed. rewrite firstn_length, skipn_length. lia. }
    destruct (sp_fill (v_buf v) (nn a) (nn b - nn a) xs) as [[[buf1 len1] rest1] full1] eqn:F1.
    destruct (sp_fill_spec _ xs pre tail (v_buf v) (nn a) (nn b) G0 eq_refl buf1 len1 rest1 full1 F1)
      as (w1 & Hw1 & G1 & L1 & F1t & F1f).
    assert (Hc1 : e_size e * N.of_nat (length buf1) <= ISIZE_MAX) by (rewrite L1; exact Hcap).
    destruct full1; cbn [negb] in H.
    + specialize (F1t eq_refl).
      destruct (0 <? h1) eqn:EH.
      * destruct (sp_move_tail e buf1 (nn b) (length tail) h1) as [[buf2 ts2]|k] eqn:EM; [|discriminate].
        destruct (sp_move_tail_spec e (pre ++ w1) tail buf1 len1 (nn b) h1 buf2 ts2 G1 He Hc1 EM) as (G2 & Ets & Hc2).
        destruct (sp_fill buf2 len1 (ts2 - len1) rest1) as [[[buf3 len3] rest3] full3] eqn:F2.
        destruct (sp_fill_spec _ rest1 (pre ++ w1) tail buf2 len1 ts2 G2 eq_refl buf3 len3 rest3 full3 F2)
          as (w2 & Hw2 & G3 & L3 & F3t & F3f).
        assert (Hc3 : e_size e * N.of_nat (length buf3) <= ISIZE_MAX) by (rewrite L3; exact Hc2).
        destruct (sp_collect_spec e ((pre ++ w1) ++ w2) tail removed buf3 len3 rest3 full3 ts2 r G3 He Hc3 F3t
                    (fun E => proj1 (F3f E)) H) as [RR RM].
        split; [|exact RM]. rewrite Hw1, Hw2. rewrite <- !app_assoc in *. exact RR.
      * destruct (sp_collect_spec e (pre ++ w1) tail removed buf1 len1 rest1 true (nn b) r G1 He Hc1
                    (fun _ => F1t) (fun E => ltac:(discriminate E)) H) as [RR RM].
        split; [|exact RM]. rewrite Hw1. rewrite <- !app_assoc in *. exact RR.
    + destruct (F1f eq_refl) as [E1 _]. subst rest1. rewrite app_nil_r in Hw1. subst w1.
      inversion H; subst r; clear H. cbn [s_vec s_removed]. split; [|reflexivity].
      rewrite app_assoc. apply sp_finish_spec; assumption.
Qed.

(* the size hints are irrelevant to the outcome *)
Corollary splice_hints_irrelevant e v c s e0 xs h0 h1 h0' h1' r r' :
  repr e v c -> splice e v s e0 xs h0 h1 = Ret r -> splice e v s e0 xs h0' h1' = Ret r' ->
  contents (s_vec r) = contents (s_vec r') /\ s_removed r = s_removed r'.
Proof.
  intros R H1 H2.
  destruct (splice_spec e v c s e0 xs h0 h1 r R H1) as (a & b & E & Rr & Rm).
  destruct (splice_spec e v c s e0 xs h0' h1' r' R H2) as (a' & b' & E' & Rr' & Rm').
  rewrite E in E'. inversion E'; subst a' b'.
  rewrite (repr_contents e _ _ Rr), (repr_contents e _ _ Rr'), Rm, Rm'. split; reflexivity.
Qed.

(* conservation (C15): what the vector held plus what was spliced in is what it holds afterwards plus
   what was removed *)
Corollary splice_conserves e v c s e0 xs h0 h1 r :
  repr e v c -> splice e v s e0 xs h0 h1 = Ret r ->
  Permutation.Permutation (c ++ xs) (contents (s_vec r) ++ s_removed r).
Proof.
  intros R H. destruct (splice_spec e v c s e0 xs h0 h1 r R H) as (a & b & E & Rr & Rm).
  destruct (drain_range_spec v s e0 a b E) as [Lab Lb]. destruct R as (_ & Hl & _).
  rewrite (repr_contents e _ _ Rr), Rm.
  set (pre := firstn (nn a) c). set (mid := firstn (nn b - nn a) (skipn (nn a) c)). set (tail := skipn (nn b) c).
  assert (Hsplit : c = pre ++ mid ++ tail).
  { unfold pre, mid, tail. rewrite <- (firstn_skipn (nn a) c) at 1. f_equal.
    rewrite <- (firstn_skipn (nn b - nn a) (skipn (nn a) c)) at 1. f_equal.
    rewrite skipn_skipn'. f_equal. unfold nn. lia. }
  rewrite Hsplit at 1. rewrite <- !app_assoc.
  apply Permutation.Permutation_app_head.
  (* mid ++ tail ++ xs  ~  xs ++ tail ++ mid *)
  eapply Permutation.Permutation_trans; [apply Permutation.Permutation_app_comm|].
  rewrite <- app_assoc. apply perm_swap3.
Qed.
