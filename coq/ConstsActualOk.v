(* ConstsActualOk.v — the obligations the crate's constants must meet for the
   arena theorems to apply to it.  ConstsActual.v is regenerated from the built
   crate on every run, so these lemmas are re-checked against what the code
   says now. *)
From BV Require Import Word WordFacts ArenaModel ArenaInv ConstsActual.
From Coq Require Import Lia.

Definition consts_okb : bool :=
  pow2b actual_calign && pow2b actual_empty_align &&
  (actual_calign <=? actual_empty_align) &&      (* the static is CHUNK_ALIGN-aligned *)
  (actual_footer_align <=? actual_calign) &&
  (0 <? actual_footer) && (actual_footer mod actual_footer_align =? 0) &&
  (actual_overhead mod actual_calign =? 0) && (actual_footer <=? actual_overhead) &&
  (0 <? actual_default) && (actual_default mod actual_calign =? 0) &&
  pow2b (actual_default + actual_overhead) && (actual_default + actual_overhead <=? actual_page) &&
  pow2b actual_page && (actual_calign <=? actual_page).

(* obligation re-checked on every run *)
Lemma actual_consts_ok : consts_okb = true.
Proof. vm_compute. reflexivity. Qed.

Lemma actual_calign_16 : actual_calign <= 16 /\ pow2 actual_calign /\
                         pow2 actual_empty_align /\ actual_calign <= actual_empty_align /\
                         0 < actual_footer.
Proof.
  pose proof actual_consts_ok as H. unfold consts_okb in H.
  rewrite !andb_true_iff in H.
  destruct H as [[[[[[[[[[[[[H1 H2] H3] H4] H5] H6] H7] H8] H9] H10] H11] H12] H13] H14].
  split; [vm_compute; discriminate|].
  split; [apply pow2b_pow2; exact H1|]. split; [apply pow2b_pow2; exact H2|].
  split; [apply N.leb_le; exact H3 | apply N.ltb_lt; exact H5].
Qed.

Definition supported : list N := [1; 2; 4; 8; 16].

Lemma supported_pow2_le m : In m supported -> pow2 m /\ m <= actual_calign.
Proof.
  intros H. assert (E : pow2b m && (m <=? actual_calign) = true).
  { cbn [supported In] in H.
    destruct H as [<-|[<-|[<-|[<-|[<-|[]]]]]]; vm_compute; reflexivity. }
  apply andb_prop in E. destruct E as [E1 E2].
  split; [apply pow2b_pow2; exact E1 | apply N.leb_le; exact E2].
Qed.

Lemma actual_cfg_ok m e :
  In m supported -> 0 < e -> e mod actual_empty_align = 0 -> e + actual_footer <= W ->
  cfg_ok (actual m e).
Proof.
  intros Hm He Hal Hw.
  destruct (supported_pow2_le m Hm) as [Pm Lm].
  destruct actual_calign_16 as (_ & Pc & Pe & Lce & Fp).
  constructor; unfold actual; cbn [k_malign k_calign k_footer k_eaddr]; try assumption.
  eapply mod0_trans; [apply (pow2_nz _ Pm) | apply (pow2_nz _ Pe) | | exact Hal].
  apply pow2_divide; [exact Pm | exact Pe | lia].
Qed.

(* the constructor check, decided on the finitely many values it can accept *)
Lemma actual_ctor_ok m e : ctor_ok (actual m e) = true <-> In m supported.
Proof.
  unfold ctor_ok, actual; cbn [k_malign k_calign]. split.
  - intros H. apply andb_prop in H. destruct H as [H1 H2]. apply N.leb_le in H2.
    destruct actual_calign_16 as (L16 & _).
    assert (B : m <= 16) by lia.
    assert (F : forallb (fun x => implb (pow2b x) (existsb (N.eqb x) supported))
                        (map N.of_nat (seq 0 17)) = true) by (vm_compute; reflexivity).
    rewrite forallb_forall in F.
    assert (I : In m (map N.of_nat (seq 0 17))).
    { apply in_map_iff. exists (N.to_nat m). split; [apply N2Nat.id|]. apply in_seq. lia. }
    specialize (F m I). rewrite H1 in F. cbn [implb] in F.
    apply existsb_exists in F. destruct F as (y & Hy & E). apply N.eqb_eq in E. subst y. exact Hy.
  - intros H. destruct (supported_pow2_le m H) as [Pm Lm].
    rewrite (pow2_pow2b m Pm). apply N.leb_le in Lm. rewrite Lm. reflexivity.
Qed.

(* the sizing policy's constants (ArenaPolicyFacts.policy_consts_okb) *)
From BV Require Import ArenaPolicy ArenaPolicyFacts.
Lemma actual_policy_ok m e : In m supported -> policy_consts_okb (actual m e) = true.
Proof.
  intros H. cbn [supported In] in H.
  destruct H as [<-|[<-|[<-|[<-|[<-|[]]]]]]; vm_compute; reflexivity.
Qed.
Lemma actual_default_small m e : k_default (actual m e) < W.
Proof. vm_compute. reflexivity. Qed.
