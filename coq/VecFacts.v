(* VecFacts.v — the Vec model refines the list semantics of std's Vec (C13),
   with exact drop accounting (C15) and capacity arithmetic that never wraps (C19). *)
From BV Require Import Word WordFacts VecModel.
From Coq Require Import Lia Arith PeanoNat.

Ltac conj := repeat match goal with |- _ /\ _ => split end.

(* ---------- lists ---------- *)
Lemma overwrite_fits {A} (l : list A) a xs :
  (a + length xs <= length l)%nat ->
  overwrite l a xs = firstn a l ++ xs ++ skipn (a + length xs) l.
Proof.
  intros H. unfold overwrite. f_equal. f_equal. apply firstn_all2. lia.
Qed.

Lemma overwrite_length {A} (l : list A) a xs :
  (a + length xs <= length l)%nat -> length (overwrite l a xs) = length l.
Proof.
  intros H. rewrite overwrite_fits by exact H.
  rewrite !app_length, firstn_length, skipn_length. lia.
Qed.

Lemma firstn_app_exact {A} (l1 l2 : list A) : firstn (length l1) (l1 ++ l2) = l1.
Proof. rewrite firstn_app, Nat.sub_diag, firstn_all. cbn. apply app_nil_r. Qed.

Lemma skipn_app_exact {A} (l1 l2 : list A) : skipn (length l1) (l1 ++ l2) = l2.
Proof. rewrite skipn_app, Nat.sub_diag, skipn_all. reflexivity. Qed.

Lemma map_firstn {A B} (f : A -> B) n l : map f (firstn n l) = firstn n (map f l).
Proof. symmetry. apply firstn_map. Qed.
Lemma map_skipn {A B} (f : A -> B) n l : map f (skipn n l) = skipn n (map f l).
Proof. symmetry. apply skipn_map. Qed.

(* ---------- representation ---------- *)
Definition unslot (s : slot) : N := match s with Some x => x | None => 0 end.

(* the buffer holds the elements c in its first slots; the capacity is a valid array size *)
Definition repr (e : ecfg) (v : vec) (c : list N) : Prop :=
  (exists rest, v_buf v = map Some c ++ rest) /\
  v_len v = N.of_nat (length c) /\
  e_size e * v_cap v <= ISIZE_MAX /\ 0 < e_size e.

Lemma unslot_some l : map unslot (map Some l) = l.
Proof. rewrite map_map. cbn. apply map_id. Qed.

Lemma repr_contents e v c : repr e v c -> contents v = c.
Proof.
  intros ((rest & Hb) & Hl & _). unfold contents, nn. rewrite Hl, Nat2N.id, Hb.
  rewrite <- (map_length Some c) at 1. rewrite firstn_app_exact. apply unslot_some.
Qed.

Lemma repr_cap_ge_len e v c : repr e v c -> v_len v <= v_cap v.
Proof.
  intros ((rest & Hb) & Hl & _). unfold v_cap. rewrite Hl, Hb, app_length, map_length. lia.
Qed.

Lemma repr_cap_lt_W e v c : repr e v c -> v_cap v < W.
Proof.
  intros (_ & _ & Hc & He). assert (ISIZE_MAX < W) by (vm_compute; reflexivity). nia.
Qed.

Lemma repr_empty e : 0 < e_size e -> repr e (mkVec [] 0) [].
Proof. intros H. unfold repr, v_cap. cbn. conj; try (exists []; reflexivity); try reflexivity; try lia. Qed.

(* ---------- get / set ---------- *)
Lemma get_slot_repr c rest i :
  (i < length c)%nat -> get_slot (map Some c ++ rest) i = nth i c 0.
Proof.
  intros H. unfold get_slot. rewrite app_nth1 by (rewrite map_length; exact H).
  rewrite (nth_indep _ None (Some 0)) by (rewrite map_length; exact H).
  rewrite (map_nth Some c 0 i). reflexivity.
Qed.

Lemma set_slot_next c x r rest :
  set_slot (map Some c ++ r :: rest) (length c) x = map Some (c ++ [x]) ++ rest.
Proof.
  unfold set_slot. rewrite overwrite_fits by (rewrite app_length, map_length; cbn; lia).
  rewrite <- (map_length Some c) at 1. rewrite firstn_app_exact.
  rewrite skipn_app. rewrite (skipn_all2 (map Some c)) by (rewrite map_length; cbn [length]; lia).
  rewrite map_length. cbn [length]. replace (length c + 1 - length c)%nat with 1%nat by lia.
  cbn [skipn app]. rewrite map_app. cbn [map]. rewrite <- app_assoc. reflexivity.
Qed.

(* ---------- RawVec: reservation ---------- *)
Lemma layout_array_spec es ea n l :
  layout_array es ea n = Some l -> l_size l = es * n /\ es * n <= ISIZE_MAX.
Proof.
  unfold layout_array, checked_mul. destruct (es * n <? W); [|discriminate].
  destruct (layout_ok (es * n) ea) eqn:E; [|discriminate]. intros H; inversion H; subst. cbn [l_size].
  split; [reflexivity|]. apply layout_ok_spec in E. destruct E as (_ & _ & E). lia.
Qed.

Lemma resize_buf_grow c rest n :
  (length c + length rest <= n)%nat ->
  resize_buf (map Some c ++ rest) n = map Some c ++ (rest ++ repeat None (n - (length c + length rest))).
Proof.
  intros H. unfold resize_buf. rewrite firstn_all2 by (rewrite app_length, map_length; lia).
  rewrite app_length, map_length. rewrite <- app_assoc. reflexivity.
Qed.

(* Vec::try_reserve / reserve: the elements stay, the capacity covers len + extra,
   and the byte size of the buffer is a valid array size (never wrapped) *)
Theorem try_reserve_spec e v c extra exact :
  repr e v c ->
  match try_reserve e v extra exact with
  | inl v' => repr e v' c /\ v_len v + extra <= v_cap v' /\ v_cap v <= v_cap v'
  | inr _ => True
  end.
Proof.
  intros R. pose proof (repr_cap_ge_len e v c R) as Hle. pose proof (repr_cap_lt_W e v c R) as HW.
  unfold try_reserve.
  assert (Hs : wsub (v_cap v) (v_len v) = v_cap v - v_len v).
  { unfold wsub. replace (v_cap v + W - v_len v) with ((v_cap v - v_len v) + 1 * W) by lia.
    rewrite N.mod_add by (unfold W; lia). apply N.mod_small. lia. }
  rewrite Hs.
  destruct (extra <=? v_cap v - v_len v) eqn:E.
  - apply N.leb_le in E. conj; [exact R | lia | lia].
  - apply N.leb_gt in E. unfold reserve_internal.
    set (nc := if exact then checked_add (v_len v) extra
               else match checked_add (v_len v) extra with
                    | Some required => Some (N.max (v_cap v * 2) required) | None => None end).
    destruct nc as [new_cap|] eqn:ENC; [|exact I].
    assert (Hreq : v_len v + extra <= new_cap /\ v_cap v <= new_cap).
    { unfold nc in ENC. unfold checked_add in ENC. destruct (v_len v + extra <? W); destruct exact; inversion ENC; subst; lia. }
    destruct (layout_array (e_size e) (e_align e) new_cap) as [l|] eqn:EL; [|exact I].
    destruct (layout_array_spec _ _ _ _ EL) as [Ls Lb].
    destruct (l_size l <? ARENA_GRANTS); [|exact I].
    destruct R as ((rest & Hb) & Hl & Hc & He).
    assert (Hcap : v_cap v = N.of_nat (length c + length rest)).
    { unfold v_cap. rewrite Hb, app_length, map_length. reflexivity. }
    assert (Hn : (length c + length rest <= nn new_cap)%nat) by (unfold nn; lia).
    conj.
    + unfold repr, v_cap. cbn [v_buf v_len]. rewrite Hb, (resize_buf_grow c rest _ Hn).
      conj; [eexists; reflexivity | exact Hl | | exact He].
      rewrite app_length, map_length, app_length, repeat_length. unfold nn in *. lia.
    + unfold v_cap. cbn [v_buf]. rewrite Hb, (resize_buf_grow c rest _ Hn).
      rewrite app_length, map_length, app_length, repeat_length. unfold nn in *. lia.
    + unfold v_cap at 2. cbn [v_buf]. rewrite Hb, (resize_buf_grow c rest _ Hn).
      rewrite app_length, map_length, app_length, repeat_length. unfold nn in *. lia.
Qed.

Theorem reserve_spec e v c extra exact v' :
  repr e v c -> reserve e v extra exact = Ret v' ->
  repr e v' c /\ v_len v + extra <= v_cap v' /\ v_cap v <= v_cap v'.
Proof.
  intros R. unfold reserve. pose proof (try_reserve_spec e v c extra exact R) as H.
  destruct (try_reserve e v extra exact) as [v1|[]]; try discriminate.
  intros E; inversion E; subst. exact H.
Qed.

Lemma reserve_panic_kind e v n ex k : reserve e v n ex = Panic k -> k = PCapacity \/ k = POom.
Proof.
  unfold reserve. destruct (try_reserve e v n ex) as [v1|[]]; intros H; inversion H; auto.
Qed.

(* a request that cannot be represented is refused, never wrapped (C19) *)
Theorem try_reserve_refuses e v c extra exact :
  repr e v c -> ISIZE_MAX < e_size e * (v_len v + extra) ->
  exists err, try_reserve e v extra exact = inr err.
Proof.
  intros R Hbig. pose proof (repr_cap_ge_len e v c R) as Hle. pose proof (repr_cap_lt_W e v c R) as HW.
  destruct R as (_ & _ & Hc & He).
  unfold try_reserve.
  assert (Hs : wsub (v_cap v) (v_len v) = v_cap v - v_len v).
  { unfold wsub. replace (v_cap v + W - v_len v) with ((v_cap v - v_len v) + 1 * W) by lia.
    rewrite N.mod_add by (unfold W; lia). apply N.mod_small. lia. }
  rewrite Hs.
  destruct (extra <=? v_cap v - v_len v) eqn:E.
  - apply N.leb_le in E. exfalso. nia.
  - unfold reserve_internal.
    set (nc := if exact then checked_add (v_len v) extra
               else match checked_add (v_len v) extra with
                    | Some required => Some (N.max (v_cap v * 2) required) | None => None end).
    destruct nc as [new_cap|] eqn:ENC; [|eexists; reflexivity].
    assert (Hreq : v_len v + extra <= new_cap).
    { unfold nc in ENC. unfold checked_add in ENC. destruct (v_len v + extra <? W); destruct exact; inversion ENC; subst; lia. }
    destruct (layout_array (e_size e) (e_align e) new_cap) as [l|] eqn:EL; [|eexists; reflexivity].
    destruct (layout_array_spec _ _ _ _ EL) as [Ls Lb]. exfalso. nia.
Qed.

(* ---------- push / pop ---------- *)
Theorem push_spec e v c x v' :
  repr e v c -> push e v x = Ret v' -> repr e v' (c ++ [x]).
Proof.
  intros R. unfold push.
  assert (Step : forall v1, repr e v1 c -> v_len v1 < v_cap v1 ->
            repr e (mkVec (set_slot (v_buf v1) (nn (v_len v1)) x) (v_len v1 + 1)) (c ++ [x])).
  { intros v1 ((rest & Hb) & Hl & Hc & He) Hlt.
    assert (Hcap : v_cap v1 = N.of_nat (length c + length rest)).
    { unfold v_cap. rewrite Hb, app_length, map_length. reflexivity. }
    destruct rest as [|r rest]; [cbn in Hcap; lia|].
    unfold repr, v_cap in *. cbn [v_buf v_len]. rewrite Hb. unfold nn. rewrite Hl, Nat2N.id.
    rewrite set_slot_next. conj; [eexists; reflexivity | rewrite app_length; cbn; lia | | exact He].
    rewrite Hb in Hc. rewrite !app_length, !map_length in *. cbn [length] in *. rewrite app_length. cbn [length]. lia. }
  destruct (v_len v =? v_cap v) eqn:E.
  - destruct (reserve e v 1 false) as [v1|k] eqn:ER; [|discriminate].
    destruct (reserve_spec e v c 1 false v1 R ER) as (R1 & Hc1 & _).
    intros H; inversion H; subst. apply Step; [exact R1|].
    destruct R1 as (_ & Hl1 & _). destruct R as (_ & Hl & _). lia.
  - apply N.eqb_neq in E. pose proof (repr_cap_ge_len e v c R).
    intros HH; inversion HH; subst. apply Step; [exact R | lia].
Qed.

Theorem pop_spec e v c :
  repr e v c ->
  match c with
  | [] => pop v = (v, None)
  | _ => exists c0 x, c = c0 ++ [x] /\ snd (pop v) = Some x /\ repr e (fst (pop v)) c0
  end.
Proof.
  intros R. destruct R as ((rest & Hb) & Hl & Hc & He). unfold pop.
  destruct c as [|a c'] using rev_ind.
  - cbn in Hl. rewrite Hl. reflexivity.
  - clear IHc'. destruct (c' ++ [a]) eqn:Ec; [destruct c'; discriminate|]. rewrite <- Ec in *.
    assert (Hlen : v_len v = N.of_nat (length c') + 1) by (rewrite Hl, app_length; cbn; lia).
    assert (Hz : v_len v =? 0 = false) by (apply N.eqb_neq; lia). rewrite Hz.
    exists c', a. conj; [reflexivity | |].
    + cbn [snd]. f_equal. rewrite Hb. unfold nn. replace (N.to_nat (v_len v - 1)) with (length c') by lia.
      rewrite get_slot_repr by (rewrite app_length; cbn; lia).
      rewrite app_nth2 by lia. rewrite Nat.sub_diag. reflexivity.
    + cbn [fst]. unfold repr, v_cap in *. cbn [v_buf v_len]. conj; [|lia|exact Hc|exact He].
      exists (Some a :: rest). rewrite Hb, map_app. cbn [map]. rewrite <- app_assoc. reflexivity.
Qed.

(* ---------- more list facts about overwrite ---------- *)
Lemma overwrite_app_l {A} (l1 l2 : list A) a xs :
  overwrite (l1 ++ l2) (length l1 + a) xs = l1 ++ overwrite l2 a xs.
Proof.
  unfold overwrite. rewrite firstn_app. rewrite firstn_all2 by lia.
  replace (length l1 + a - length l1)%nat with a by lia.
  rewrite app_length. replace (length l1 + length l2 - (length l1 + a))%nat with (length l2 - a)%nat by lia.
  rewrite skipn_app. rewrite skipn_all2 by lia.
  replace (length l1 + a + length xs - length l1)%nat with (a + length xs)%nat by lia.
  cbn [app]. rewrite <- !app_assoc. reflexivity.
Qed.

Lemma overwrite_0 {A} (l : list A) xs :
  (length xs <= length l)%nat -> overwrite l 0 xs = xs ++ skipn (length xs) l.
Proof. intros H. rewrite overwrite_fits by (cbn; lia). cbn [firstn app plus]. reflexivity. Qed.

Lemma overwrite_1 {A} (y : A) l xs :
  (length xs <= length l)%nat -> overwrite (y :: l) 1 xs = y :: xs ++ skipn (length xs) l.
Proof. intros H. rewrite overwrite_fits by (cbn [length]; lia). reflexivity. Qed.

Lemma split_at {A} (c : list A) i : (i <= length c)%nat ->
  exists c1 c2, c = c1 ++ c2 /\ length c1 = i.
Proof.
  intros H. exists (firstn i c), (skipn i c). split; [symmetry; apply firstn_skipn|].
  rewrite firstn_length. lia.
Qed.

Lemma skipn_succ_app {A} (l : list A) r rest : skipn (S (length l)) (l ++ r :: rest) = rest.
Proof. induction l as [|a l IH]; [reflexivity | exact IH]. Qed.

(* ---------- insert / remove / swap_remove ---------- *)
Lemma insert_buf c1 c2 r rest x :
  set_slot (copy_within (map Some (c1 ++ c2) ++ r :: rest) (length c1) (length c1 + 1) (length c2)) (length c1) x
  = map Some (c1 ++ x :: c2) ++ rest.
Proof.
  unfold copy_within, set_slot. rewrite !map_app, <- !app_assoc.
  rewrite <- (map_length Some c1) at 1 2. rewrite skipn_app_exact.
  rewrite <- (map_length Some c2) at 1. rewrite firstn_app_exact.
  rewrite (overwrite_app_l (map Some c1) (map Some c2 ++ r :: rest) 1 (map Some c2)).
  (* the slot right after c1 keeps its old value until it is overwritten *)
  destruct (map Some c2 ++ r :: rest) as [|y l2] eqn:E; [destruct c2; discriminate|].
  assert (Hl : (length (map Some c2) <= length l2)%nat).
  { assert (length (y :: l2) = length (map Some c2 ++ r :: rest)) by (rewrite E; reflexivity).
    rewrite app_length in H. cbn [length] in H. lia. }
  rewrite overwrite_1 by exact Hl.
  replace (length c1) with (length (map Some c1) + 0)%nat by (rewrite map_length; lia).
  rewrite overwrite_app_l. rewrite overwrite_0 by (cbn [length]; lia).
  cbn [length skipn app map]. f_equal. f_equal. f_equal.
  (* what follows c2 in l2 is rest *)
  assert (l2 = tl (map Some c2 ++ r :: rest)) by (rewrite E; reflexivity). subst l2.
  clear. destruct c2 as [|a c2]; cbn [map app tl length]; [reflexivity|].
  apply skipn_succ_app.
Qed.

Theorem insert_spec e v c i x :
  repr e v c ->
  match insert e v i x with
  | Ret v' => i <= v_len v /\ repr e v' (firstn (nn i) c ++ x :: skipn (nn i) c)
  | Panic PIndex => v_len v < i
  | Panic _ => i <= v_len v       (* the reservation failed: capacity overflow / out of memory *)
  end.
Proof.
  intros R. unfold insert. destruct (v_len v <? i) eqn:EI; [apply N.ltb_lt in EI; exact EI|].
  apply N.ltb_ge in EI.
  assert (Step : forall v1, repr e v1 c -> v_len v1 < v_cap v1 -> v_len v1 = v_len v ->
            repr e (mkVec (set_slot (copy_within (v_buf v1) (nn i) (nn i + 1) (nn (v_len v1) - nn i)) (nn i) x)
                          (v_len v1 + 1)) (firstn (nn i) c ++ x :: skipn (nn i) c)).
  { intros v1 ((rest & Hb) & Hl & Hc & He) Hlt Hsame.
    assert (Hcap : v_cap v1 = N.of_nat (length c + length rest)).
    { unfold v_cap. rewrite Hb, app_length, map_length. reflexivity. }
    destruct rest as [|r rest]; [cbn in Hcap; lia|].
    assert (Hi : (nn i <= length c)%nat) by (unfold nn; lia).
    destruct (split_at c (nn i) Hi) as (c1 & c2 & -> & L1).
    rewrite <- L1. rewrite firstn_app_exact, skipn_app_exact.
    unfold repr, v_cap in *. cbn [v_buf v_len]. rewrite Hb.
    replace (nn (v_len v1) - length c1)%nat with (length c2) by (unfold nn; rewrite Hl, app_length; lia).
    rewrite insert_buf. conj; [eexists; reflexivity | | | exact He].
    - rewrite Hl, !app_length. cbn [length]. lia.
    - rewrite Hb in Hc. rewrite !app_length, !map_length in *. cbn [length] in *. rewrite !app_length in *. cbn [length]. lia. }
  destruct (v_len v =? v_cap v) eqn:E.
  - destruct (reserve e v 1 false) as [v1|k] eqn:ER;
      [|destruct (reserve_panic_kind _ _ _ _ _ ER) as [->| ->]; exact EI].
    destruct (reserve_spec e v c 1 false v1 R ER) as (R1 & Hc1 & _).
    split; [exact EI|]. apply Step; [exact R1 | | ].
    + destruct R1 as (_ & Hl1 & _). destruct R as (_ & Hl & _). lia.
    + destruct R1 as (_ & Hl1 & _). destruct R as (_ & Hl & _). lia.
  - apply N.eqb_neq in E. pose proof (repr_cap_ge_len e v c R).
    split; [exact EI|]. apply Step; [exact R | lia | reflexivity].
Qed.

Lemma skipn_shifted {A} (l : list A) y rest : exists s, skipn (length l) (y :: l ++ rest) = s :: rest.
Proof.
  revert y. induction l as [|b l IH]; intros y; cbn [length skipn app]; [exists y; reflexivity|].
  apply IH.
Qed.

(* after the left shift the slot behind the new end keeps stale bits *)
Lemma remove_buf (c1 : list N) (a : N) (c2 : list N) (rest : list slot) :
  exists s, copy_within (map Some (c1 ++ a :: c2) ++ rest) (length c1 + 1) (length c1) (length c2)
            = map Some (c1 ++ c2) ++ s :: rest.
Proof.
  destruct (skipn_shifted (map Some c2) (Some a) rest) as [s Hs]. exists s.
  unfold copy_within. rewrite !map_app. cbn [map]. rewrite <- !app_assoc. cbn [app].
  replace (length c1 + 1)%nat with (length (map Some c1 ++ [Some a])) by (rewrite app_length, map_length; reflexivity).
  replace (map Some c1 ++ Some a :: map Some c2 ++ rest) with ((map Some c1 ++ [Some a]) ++ map Some c2 ++ rest)
    by (rewrite <- app_assoc; reflexivity).
  rewrite skipn_app_exact. rewrite <- (map_length Some c2) at 1. rewrite firstn_app_exact.
  rewrite <- app_assoc. cbn [app].
  replace (length c1) with (length (map Some c1) + 0)%nat by (rewrite map_length; lia).
  rewrite overwrite_app_l.
  rewrite overwrite_0 by (cbn [length]; rewrite app_length; lia).
  rewrite Hs. reflexivity.
Qed.

Theorem remove_spec e v c i :
  repr e v c ->
  match remove v i with
  | Ret (v', x) => i < v_len v /\ x = nth (nn i) c 0 /\
                   repr e v' (firstn (nn i) c ++ skipn (nn i + 1) c)
  | Panic _ => v_len v <= i
  end.
Proof.
  intros ((rest & Hb) & Hl & Hc & He). unfold remove.
  destruct (i <? v_len v) eqn:EI; [|apply N.ltb_ge in EI; exact EI].
  apply N.ltb_lt in EI.
  assert (Hi : (nn i < length c)%nat) by (unfold nn; lia).
  destruct (split_at c (nn i)) as (c1 & c2 & -> & L1); [lia|].
  destruct c2 as [|a c2]; [rewrite app_nil_r in Hi; lia|].
  conj; [exact EI| |].
  - rewrite Hb. rewrite get_slot_repr by exact Hi. reflexivity.
  - rewrite <- L1.
    assert (F : firstn (length c1) (c1 ++ a :: c2) = c1) by apply firstn_app_exact.
    assert (S : skipn (length c1 + 1) (c1 ++ a :: c2) = c2)
      by (replace (length c1 + 1)%nat with (S (length c1)) by lia; apply skipn_succ_app).
    rewrite F, S.
    assert (K : (nn (v_len v) - length c1 - 1)%nat = length c2)
      by (unfold nn; rewrite Hl, app_length; cbn [length]; lia).
    unfold repr, v_cap in *. cbn [v_buf v_len]. rewrite Hb, K.
    destruct (remove_buf c1 a c2 rest) as [s0 E0]. rewrite E0.
    conj; [eexists; reflexivity | | | exact He].
    + rewrite Hl, !app_length. cbn [length]. lia.
    + rewrite Hb in Hc. rewrite !app_length, !map_length in *. cbn [length] in *. rewrite !app_length in *. cbn [length] in *. lia.
Qed.

(* ---------- swap_remove ---------- *)
Lemma set_slot_mid (c1 : list N) (a : N) (c2 : list N) (rest : list slot) x :
  set_slot (map Some (c1 ++ a :: c2) ++ rest) (length c1) x = map Some (c1 ++ x :: c2) ++ rest.
Proof.
  unfold set_slot. rewrite !map_app. cbn [map]. rewrite <- !app_assoc. cbn [app].
  replace (length c1) with (length (map Some c1) + 0)%nat by (rewrite map_length; lia).
  rewrite overwrite_app_l. rewrite overwrite_0 by (cbn [length]; lia). reflexivity.
Qed.

Theorem swap_remove_spec e v c i :
  repr e v c ->
  match swap_remove v i with
  | Ret (v', x) => i < v_len v /\ x = nth (nn i) c 0 /\
                   repr e v' (removelast (firstn (nn i) c ++ last c 0 :: skipn (nn i + 1) c))
  | Panic _ => v_len v <= i
  end.
Proof.
  intros ((rest & Hb) & Hl & Hc & He). unfold swap_remove.
  destruct (i <? v_len v) eqn:EI; [|apply N.ltb_ge in EI; exact EI].
  apply N.ltb_lt in EI.
  assert (Hi : (nn i < length c)%nat) by (unfold nn; lia).
  destruct (split_at c (nn i)) as (c1 & c2 & -> & L1); [lia|].
  destruct c2 as [|a c2]; [rewrite app_nil_r in Hi; lia|].
  conj; [exact EI| |].
  - rewrite Hb. rewrite get_slot_repr by exact Hi. reflexivity.
  - rewrite <- L1.
    assert (F : firstn (length c1) (c1 ++ a :: c2) = c1) by apply firstn_app_exact.
    assert (S : skipn (length c1 + 1) (c1 ++ a :: c2) = c2)
      by (replace (length c1 + 1)%nat with (S (length c1)) by lia; apply skipn_succ_app).
    rewrite F, S.
    assert (Hlast : get_slot (v_buf v) (nn (v_len v - 1)) = last (c1 ++ a :: c2) 0).
    { rewrite Hb. rewrite get_slot_repr by (unfold nn; lia).
      replace (nn (v_len v - 1)) with (length (c1 ++ a :: c2) - 1)%nat by (unfold nn; lia).
      generalize (c1 ++ a :: c2). intros l. destruct l as [|y l] using rev_ind; [reflexivity|].
      rewrite app_length. cbn [length]. replace (length l + 1 - 1)%nat with (length l) by lia.
      rewrite app_nth2 by lia. rewrite Nat.sub_diag. rewrite last_last. reflexivity. }
    rewrite Hlast. set (z := last (c1 ++ a :: c2) 0).
    unfold repr, v_cap in *. cbn [v_buf v_len]. rewrite Hb, set_slot_mid.
    set (c' := c1 ++ z :: c2).
    assert (Hne : c' <> []) by (unfold c'; destruct c1; discriminate).
    destruct (exists_last Hne) as (c0 & y & Ec). rewrite Ec, removelast_last.
    conj; [| | | exact He].
    + exists (Some y :: rest). rewrite map_app. cbn [map]. rewrite <- app_assoc. reflexivity.
    + assert (length c' = length (c1 ++ a :: c2)) by (unfold c'; rewrite !app_length; reflexivity).
      rewrite Ec, app_length in H. cbn [length] in H. lia.
    + assert (H : length c' = length (c1 ++ a :: c2)) by (unfold c'; rewrite !app_length; reflexivity).
      rewrite Hb in Hc. rewrite app_length, map_length in Hc. rewrite <- Ec. rewrite app_length, map_length, H. exact Hc.
Qed.

(* ---------- truncate: drops from the back, exactly the elements cut off ---------- *)
Lemma firstn_succ_nth {A} (l : list A) k d :
  (k < length l)%nat -> firstn (S k) l = firstn k l ++ [nth k l d].
Proof.
  revert k. induction l as [|a l IH]; intros k H; [cbn in H; lia|].
  destruct k; [reflexivity|]. cbn [firstn nth app]. f_equal. apply IH. cbn in H. lia.
Qed.

Lemma nth_skipn' {A} (l : list A) n i d : nth i (skipn n l) d = nth (n + i) l d.
Proof.
  revert l. induction n as [|n IH]; intros l; [reflexivity|].
  destruct l as [|a l]; [destruct i; reflexivity|]. cbn [skipn plus nth]. apply IH.
Qed.

Lemma truncate_loop_spec (c : list N) (rest : list slot) boom t :
  forall k cur acc, (k <= cur)%nat -> (cur <= length c)%nat ->
  exists m b, truncate_loop (map Some c ++ rest) boom t cur k acc
              = (m, acc ++ rev (firstn (cur - m) (skipn m c)), b) /\
              (cur - k <= m)%nat /\ (m <= cur)%nat /\ (b = false -> m = (cur - k)%nat).
Proof.
  induction k as [|k IH]; intros cur acc Hk Hc; cbn [truncate_loop].
  - exists cur, false. rewrite Nat.sub_diag. cbn [firstn rev]. rewrite app_nil_r. conj; try reflexivity; lia.
  - assert (Hx : get_slot (map Some c ++ rest) (cur - 1) = nth (cur - 1) c 0) by (apply get_slot_repr; lia).
    rewrite Hx.
    assert (Hone : firstn 1 (skipn (cur - 1) c) = [nth (cur - 1) c 0]).
    { rewrite <- (firstn_skipn (cur - 1) c) at 2.
      rewrite app_nth2 by (rewrite firstn_length; lia). rewrite firstn_length.
      replace (cur - 1 - Nat.min (cur - 1) (length c))%nat with 0%nat by lia.
      destruct (skipn (cur - 1) c) eqn:E; [|reflexivity].
      assert (length (skipn (cur - 1) c) = 0%nat) by (rewrite E; reflexivity). rewrite skipn_length in H. lia. }
    destruct (existsb (N.eqb (nth (cur - 1) c 0)) boom).
    + exists (cur - 1)%nat, true. replace (cur - (cur - 1))%nat with 1%nat by lia. rewrite Hone.
      conj; try reflexivity; try lia; try discriminate.
    + destruct (IH (cur - 1)%nat (acc ++ [nth (cur - 1) c 0])) as (m & b & E & H1 & H2 & H3); [lia | lia |].
      exists m, b. rewrite E. conj; try lia.
      * f_equal. f_equal. rewrite <- app_assoc. f_equal.
        replace (cur - m)%nat with (S (cur - 1 - m)) by lia.
        rewrite (firstn_succ_nth _ _ 0) by (rewrite skipn_length; lia).
        rewrite rev_app_distr. cbn [rev app]. rewrite nth_skipn'.
        replace (m + (cur - 1 - m))%nat with (cur - 1)%nat by lia. reflexivity.
      * intros Hb. rewrite (H3 Hb). lia.
Qed.

Theorem truncate_spec e v c n boom :
  repr e v c ->
  exists m, repr e (truncate_state v n boom) (firstn m c) /\
            f_drops (snd (truncate v n boom)) = rev (skipn m c) /\
            (N.to_nat n <= m \/ length c <= m)%nat /\
            (forall v', fst (truncate v n boom) = Ret v' -> v' = truncate_state v n boom /\ m = Nat.min (nn n) (length c)).
Proof.
  intros ((rest & Hb) & Hl & Hc & He). unfold truncate, truncate_state.
  destruct (n <? v_len v) eqn:E.
  - apply N.ltb_lt in E. rewrite Hb.
    destruct (truncate_loop_spec c rest boom (nn n) (nn (v_len v) - nn n) (nn (v_len v)) [])
      as (m & b & EL & H1 & H2 & H3); [lia | unfold nn; lia |].
    rewrite EL. cbn [fst snd f_drops app].
    assert (Hlen : nn (v_len v) = length c) by (unfold nn; lia).
    exists m. conj.
    + unfold repr, v_cap in *. cbn [v_buf v_len].
      conj; [| rewrite firstn_length; lia | rewrite Hb in Hc; exact Hc | exact He].
      exists (map Some (skipn m c) ++ rest). rewrite app_assoc, <- map_app, firstn_skipn. reflexivity.
    + rewrite Hlen. rewrite firstn_all2 by (rewrite skipn_length; lia). reflexivity.
    + left. unfold nn in *. lia.
    + intros v'. destruct b; [discriminate|]. intros Hv; inversion Hv; subst. split; [reflexivity|].
      rewrite (H3 eq_refl). unfold nn in *. lia.
  - apply N.ltb_ge in E. cbn [fst snd f_drops]. exists (length c). conj.
    + rewrite firstn_all. unfold repr. conj; [exists rest; exact Hb | exact Hl | exact Hc | exact He].
    + rewrite skipn_all. reflexivity.
    + right. lia.
    + intros v' Hv; inversion Hv; subst. split; [reflexivity|]. unfold nn. lia.
Qed.

(* ---------- DrainFilter (retain, drain_filter) ---------- *)
(* loop invariant: the kept elements are compacted at the front, followed by del
   stale slots, followed by the elements not looked at yet *)
Definition dfJ (c : list N) (rest : list slot) (buf : list slot) (idx del : nat) (kept : list N) : Prop :=
  (idx <= length c)%nat /\ (del <= idx)%nat /\ length kept = (idx - del)%nat /\
  exists stale, length stale = del /\
    buf = map Some kept ++ stale ++ map Some (skipn idx c) ++ rest.

Lemma skipn_cons_nth (c : list N) idx : (idx < length c)%nat ->
  skipn idx c = nth idx c 0 :: skipn (S idx) c.
Proof.
  revert idx. induction c as [|a c IH]; intros idx H; [cbn in H; lia|].
  destruct idx; [reflexivity|]. cbn [skipn nth]. apply IH. cbn in H. lia.
Qed.

(* keeping element idx: it is copied down over the first stale slot (if any) *)
Lemma dfJ_keep c rest buf idx del kept :
  dfJ c rest buf idx del kept -> (idx < length c)%nat ->
  get_slot buf idx = nth idx c 0 /\
  dfJ c rest (if Nat.eqb del 0 then buf else copy_within buf idx (idx - del) 1) (idx + 1) del
      (kept ++ [nth idx c 0]).
Proof.
  intros (H1 & H2 & H3 & stale & Hs & Hb) Hlt.
  set (x := nth idx c 0).
  assert (Hsk : skipn idx c = x :: skipn (S idx) c) by (apply skipn_cons_nth; exact Hlt).
  assert (Hpre : length (map Some kept ++ stale) = idx) by (rewrite app_length, map_length; lia).
  assert (Hget : get_slot buf idx = x).
  { rewrite Hb, Hsk. cbn [map]. unfold get_slot. rewrite app_assoc.
    rewrite app_nth2 by lia. rewrite Hpre, Nat.sub_diag. reflexivity. }
  split; [exact Hget|].
  unfold dfJ. rewrite app_length. cbn [length]. replace (idx + 1)%nat with (S idx) by lia.
  conj; try lia.
  destruct (Nat.eqb del 0) eqn:E.
  - apply Nat.eqb_eq in E. subst del. destruct stale; [|discriminate]. exists []. split; [reflexivity|].
    rewrite Hb, Hsk. cbn [app map]. rewrite map_app. cbn [map]. rewrite <- app_assoc. reflexivity.
  - apply Nat.eqb_neq in E. destruct stale as [|s0 stale']; [cbn in Hs; lia|].
    exists (stale' ++ [Some x]). split; [rewrite app_length; cbn [length] in *; lia|].
    unfold copy_within. rewrite Hb, Hsk. cbn [map].
    set (B := map Some kept ++ (s0 :: stale') ++ (Some x :: map Some (skipn (S idx) c)) ++ rest).
    assert (HB : B = (map Some kept ++ (s0 :: stale')) ++ Some x :: (map Some (skipn (S idx) c) ++ rest))
      by (unfold B; rewrite <- !app_assoc; reflexivity).
    assert (Hsrc : firstn 1 (skipn idx B) = [Some x]).
    { rewrite HB. rewrite <- Hpre at 1. rewrite skipn_app_exact. reflexivity. }
    rewrite Hsrc. unfold B.
    replace (idx - del)%nat with (length (map Some kept) + 0)%nat by (rewrite map_length; lia).
    rewrite overwrite_app_l. rewrite overwrite_0 by (cbn [length]; rewrite app_length; cbn [length]; lia).
    cbn [length skipn app]. rewrite map_app. cbn [map]. rewrite <- !app_assoc. reflexivity.
Qed.

(* skipping element idx (handed out, or leaked by a panicking predicate): its slot becomes stale *)
Lemma dfJ_skip c rest buf idx del kept :
  dfJ c rest buf idx del kept -> (idx < length c)%nat ->
  get_slot buf idx = nth idx c 0 /\ dfJ c rest buf (idx + 1) (del + 1) kept.
Proof.
  intros (H1 & H2 & H3 & stale & Hs & Hb) Hlt.
  set (x := nth idx c 0).
  assert (Hsk : skipn idx c = x :: skipn (S idx) c) by (apply skipn_cons_nth; exact Hlt).
  assert (Hpre : length (map Some kept ++ stale) = idx) by (rewrite app_length, map_length; lia).
  split.
  - rewrite Hb, Hsk. cbn [map]. unfold get_slot. rewrite app_assoc.
    rewrite app_nth2 by lia. rewrite Hpre, Nat.sub_diag. reflexivity.
  - unfold dfJ. replace (idx + 1)%nat with (S idx) by lia. conj; try lia.
    exists (stale ++ [Some x]). split; [rewrite app_length; cbn [length]; lia|].
    rewrite Hb, Hsk. cbn [map]. rewrite <- !app_assoc. reflexivity.
Qed.

(* the classification of the elements by the predicate's answers *)
Definition is_no (a : cans) : bool := match a with No => true | _ => false end.
Fixpoint kept_of (c : list N) (ans : list cans) : list N :=
  match c, ans with
  | x :: c', a :: ans' => if is_no a then x :: kept_of c' ans' else kept_of c' ans'
  | _, _ => []
  end.
Fixpoint outs_of (c : list N) (ans : list cans) : list N :=      (* handed out, dropped or leaked *)
  match c, ans with
  | x :: c', a :: ans' => if is_no a then outs_of c' ans' else x :: outs_of c' ans'
  | _, _ => []
  end.

Lemma df_next_S buf old_len idx del ans fuel :
  df_next buf old_len idx del ans (S fuel) =
  if Nat.eqb idx old_len then (buf, idx, del, ans, DfDone)
  else match ans with
       | [] => (buf, idx, del, ans, DfStarved)
       | Boom :: rest => (buf, (idx + 1)%nat, (del + 1)%nat, rest, DfBoom)
       | Yes :: rest => (buf, (idx + 1)%nat, (del + 1)%nat, rest, DfItem (get_slot buf idx))
       | No :: rest =>
           df_next (if Nat.eqb del 0 then buf else copy_within buf idx (idx - del) 1)
                   old_len (idx + 1) del rest fuel
       end.
Proof. reflexivity. Qed.

(* one call of next(): the elements up to the one returned are classified by the answers *)
Lemma df_next_spec c rest : forall fuel buf idx del kept ans,
  dfJ c rest buf idx del kept -> (length c - idx < fuel)%nat ->
  exists buf' idx' del' ans' r kept',
    df_next buf (length c) idx del ans fuel = (buf', idx', del', ans', r) /\
    dfJ c rest buf' idx' del' kept' /\ (idx <= idx')%nat /\
    ans' = skipn (idx' - idx) ans /\
    match r with
    | DfItem x =>
        kept' = kept ++ kept_of (firstn (idx' - idx) (skipn idx c)) ans /\
        outs_of (firstn (idx' - idx) (skipn idx c)) ans = [x] /\ del' = (del + 1)%nat /\
        (idx' - idx <= length ans)%nat
    | DfBoom =>
        kept' = kept ++ kept_of (firstn (idx' - idx) (skipn idx c)) ans /\
        (exists x, outs_of (firstn (idx' - idx) (skipn idx c)) ans = [x]) /\ del' = (del + 1)%nat /\
        (idx' - idx <= length ans)%nat
    | DfDone =>
        idx' = length c /\ kept' = kept ++ kept_of (skipn idx c) ans /\
        outs_of (skipn idx c) ans = [] /\ del' = del /\ (length c - idx <= length ans)%nat
    | DfStarved =>
        kept' = kept ++ kept_of (skipn idx c) ans /\ outs_of (skipn idx c) ans = [] /\ del' = del /\
        (length ans < length c - idx)%nat
    end.
Proof.
  induction fuel as [|fuel IH]; intros buf idx del kept ans HJ Hf; [lia|].
  rewrite df_next_S.
  destruct (Nat.eqb idx (length c)) eqn:E.
  - apply Nat.eqb_eq in E. subst idx.
    exists buf, (length c), del, ans, DfDone, kept. rewrite Nat.sub_diag, skipn_all. cbn [skipn kept_of outs_of].
    rewrite app_nil_r. conj; try reflexivity; try assumption; try lia.
  - apply Nat.eqb_neq in E.
    assert (Hlt : (idx < length c)%nat) by (destruct HJ as (H1 & _); lia).
    assert (Hsk : skipn idx c = nth idx c 0 :: skipn (S idx) c) by (apply skipn_cons_nth; exact Hlt).
    destruct ans as [|a ans1].
    + exists buf, idx, del, [], DfStarved, kept. rewrite Nat.sub_diag. cbn [skipn].
      rewrite Hsk. cbn [kept_of outs_of length]. rewrite app_nil_r.
      conj; try reflexivity; try assumption; try lia.
    + destruct a.
      * (* Yes: handed out *)
        destruct (dfJ_skip c rest buf idx del kept HJ Hlt) as [Hg HJ'].
        exists buf, (idx + 1)%nat, (del + 1)%nat, ans1, (DfItem (get_slot buf idx)), kept.
        replace (idx + 1 - idx)%nat with 1%nat by lia. rewrite Hsk. cbn [firstn skipn kept_of outs_of is_no length].
        rewrite app_nil_r, Hg. conj; try reflexivity; try assumption; try lia.
      * (* No: kept, go on *)
        destruct (dfJ_keep c rest buf idx del kept HJ Hlt) as [Hg HJ'].
        destruct (IH _ (idx + 1)%nat del (kept ++ [nth idx c 0]) ans1 HJ') as
            (buf' & idx' & del' & ans' & r & kept' & E1 & J1 & L1 & A1 & R1); [lia|].
        exists buf', idx', del', ans', r, kept'. rewrite E1.
        assert (Hsplit : (idx' - idx)%nat = S (idx' - (idx + 1))) by lia.
        assert (Hsk1 : skipn (idx + 1) c = skipn (S idx) c) by (f_equal; lia).
        conj; try reflexivity; try assumption; try lia.
        { rewrite A1. rewrite Hsplit. reflexivity. }
        destruct r.
        -- destruct R1 as (K1 & O1 & D1 & N1). rewrite Hsplit, Hsk. cbn [firstn kept_of outs_of is_no length].
           rewrite Hsk1 in K1, O1. rewrite K1, <- app_assoc. cbn [app]. conj; try reflexivity; try assumption; lia.
        -- destruct R1 as (I1 & K1 & O1 & D1 & N1). rewrite Hsk. cbn [kept_of outs_of is_no length].
           rewrite Hsk1 in K1, O1. rewrite K1, <- app_assoc. cbn [app]. conj; try reflexivity; try assumption; lia.
        -- destruct R1 as (K1 & O1 & D1 & N1). rewrite Hsplit, Hsk. cbn [firstn kept_of outs_of is_no length].
           rewrite Hsk1 in K1, O1. rewrite K1, <- app_assoc. cbn [app]. conj; try reflexivity; try assumption; lia.
        -- destruct R1 as (K1 & O1 & D1 & N1). rewrite Hsk. cbn [kept_of outs_of is_no length].
           rewrite Hsk1 in K1, O1. rewrite K1, <- app_assoc. cbn [app]. conj; try reflexivity; try assumption; lia.
      * (* Boom: the element is leaked *)
        destruct (dfJ_skip c rest buf idx del kept HJ Hlt) as [Hg HJ'].
        exists buf, (idx + 1)%nat, (del + 1)%nat, ans1, DfBoom, kept.
        replace (idx + 1 - idx)%nat with 1%nat by lia. rewrite Hsk. cbn [firstn skipn kept_of outs_of is_no length].
        rewrite app_nil_r. conj; try reflexivity; try assumption; try lia.
        exists (nth idx c 0). reflexivity.
Qed.

(* ---------- conservation: every element is kept, handed out, dropped or leaked — once ---------- *)
From Coq Require Import Permutation.

Lemma kept_outs_perm l : forall ans, (length l <= length ans)%nat ->
  Permutation (kept_of l ans ++ outs_of l ans) l.
Proof.
  induction l as [|x l IH]; intros ans H; [destruct ans; reflexivity|].
  destruct ans as [|a ans]; [cbn in H; lia|]. cbn [kept_of outs_of].
  assert (H' : (length l <= length ans)%nat) by (cbn in H; lia).
  destruct (is_no a).
  - cbn [app]. constructor. apply IH. exact H'.
  - apply Permutation_sym. apply Permutation_cons_app. apply Permutation_sym. apply IH. exact H'.
Qed.

Lemma dfJ_buf_length c rest buf idx del kept :
  dfJ c rest buf idx del kept -> length buf = (length c + length rest)%nat.
Proof.
  intros (H1 & H2 & H3 & stale & Hs & Hb). rewrite Hb.
  rewrite !app_length, !map_length, skipn_length. lia.
Qed.

Lemma skipn_skipn' {A} (l : list A) a b : skipn a (skipn b l) = skipn (b + a) l.
Proof.
  revert l. induction b as [|b IH]; intros l; [reflexivity|].
  destruct l as [|x l]; [rewrite !skipn_nil; reflexivity|]. cbn [skipn plus]. apply IH.
Qed.

(* progress of the scan: what was looked at is split between kept, out (items, leaked) *)
Definition df_progress (c : list N) (kept kept' : list N) (idx idx' : nat) (outs : list N) : Prop :=
  Permutation (kept' ++ outs ++ skipn idx' c) (kept ++ skipn idx c).

Lemma df_progress_step c kept idx idx' ans outs :
  (idx <= idx')%nat -> (idx' <= length c)%nat -> (idx' - idx <= length ans)%nat ->
  outs_of (firstn (idx' - idx) (skipn idx c)) ans = outs ->
  df_progress c kept (kept ++ kept_of (firstn (idx' - idx) (skipn idx c)) ans) idx idx' outs.
Proof.
  intros H1 H2 H3 <-. unfold df_progress.
  set (seg := firstn (idx' - idx) (skipn idx c)).
  assert (Hseg : skipn idx c = seg ++ skipn idx' c).
  { unfold seg. rewrite <- (firstn_skipn (idx' - idx) (skipn idx c)) at 1. f_equal.
    rewrite skipn_skipn'. f_equal. lia. }
  rewrite Hseg. rewrite <- !app_assoc. apply Permutation_app_head.
  rewrite !app_assoc. apply Permutation_app_tail.
  apply kept_outs_perm. unfold seg. rewrite firstn_length, skipn_length. lia.
Qed.

Lemma df_progress_trans c k0 k1 k2 i0 i1 i2 o1 o2 :
  df_progress c k0 k1 i0 i1 o1 -> df_progress c k1 k2 i1 i2 o2 ->
  df_progress c k0 k2 i0 i2 (o1 ++ o2).
Proof.
  unfold df_progress. intros P1 P2.
  eapply Permutation_trans; [|exact P1].
  (* k2 ++ (o1 ++ o2) ++ tail2  ~  k1 ++ o1 ++ tail1, knowing k2 ++ o2 ++ tail2 ~ k1 ++ tail1 *)
  apply Permutation_trans with (o1 ++ (k2 ++ o2 ++ skipn i2 c)).
  - rewrite <- !app_assoc. rewrite !app_assoc. rewrite <- !app_assoc.
    apply Permutation_trans with ((k2 ++ o1) ++ o2 ++ skipn i2 c); [rewrite <- !app_assoc; reflexivity|].
    apply Permutation_trans with ((o1 ++ k2) ++ o2 ++ skipn i2 c);
      [apply Permutation_app_tail; apply Permutation_app_comm | rewrite <- !app_assoc; reflexivity].
  - apply Permutation_trans with (o1 ++ (k1 ++ skipn i1 c)); [apply Permutation_app_head; exact P2|].
    rewrite !app_assoc. apply Permutation_app_tail. apply Permutation_app_comm.
Qed.

Lemma df_progress_refl c k i : df_progress c k k i i [].
Proof. unfold df_progress. reflexivity. Qed.

(* for_each(drop) / the caller's next() calls: a sequence of next() *)
Inductive df_end := EndDone | EndBoom (x : N) | EndStopped.

Lemma df_drain_spec c rest : forall fuel buf idx del kept ans acc,
  dfJ c rest buf idx del kept -> (length c - idx <= length ans)%nat -> (length c - idx < fuel)%nat ->
  exists buf' idx' del' ans' items r kept',
    df_drain buf (length c) idx del ans fuel acc = (buf', idx', del', ans', acc ++ items, r) /\
    dfJ c rest buf' idx' del' kept' /\ (length c - idx' <= length ans')%nat /\
    ((r = DfDone /\ idx' = length c /\ df_progress c kept kept' idx idx' items) \/
     (r = DfBoom /\ exists x, df_progress c kept kept' idx idx' (items ++ [x]))).
Proof.
  induction fuel as [|fuel IH]; intros buf idx del kept ans acc HJ Ha Hf; [lia|].
  cbn [df_drain].
  destruct (df_next_spec c rest (S (length c)) buf idx del kept ans HJ) as
      (buf1 & idx1 & del1 & ans1 & r & kept1 & E1 & J1 & L1 & A1 & R1); [lia|].
  rewrite E1.
  assert (Hi1 : (idx1 <= length c)%nat) by (destruct J1 as (H & _); exact H).
  destruct r.
  - (* an item: continue *)
    destruct R1 as (K1 & O1 & D1 & N1).
    assert (P1 : df_progress c kept kept1 idx idx1 [x]).
    { rewrite K1. apply df_progress_step; try assumption. }
    assert (Hlt : (idx < idx1)%nat).
    { destruct (Nat.eq_dec idx idx1) as [->|]; [|lia]. rewrite Nat.sub_diag in O1. discriminate. }
    destruct (IH buf1 idx1 del1 kept1 ans1 (acc ++ [x]) J1) as
        (buf2 & idx2 & del2 & ans2 & items & r2 & kept2 & E2 & J2 & A2 & R2).
    { rewrite A1, skipn_length. lia. }
    { lia. }
    exists buf2, idx2, del2, ans2, (x :: items), r2, kept2. rewrite E2.
    conj; try assumption.
    + rewrite <- app_assoc. reflexivity.
    + destruct R2 as [(-> & I2 & P2)|(-> & y & P2)].
      * left. conj; try reflexivity; try assumption.
        apply (df_progress_trans c kept kept1 kept2 idx idx1 idx2 [x] items P1 P2).
      * right. split; [reflexivity|]. exists y.
        apply (df_progress_trans c kept kept1 kept2 idx idx1 idx2 [x] (items ++ [y]) P1 P2).
  - destruct R1 as (I1 & K1 & O1 & D1 & N1).
    exists buf1, idx1, del1, ans1, [], DfDone, kept1. rewrite app_nil_r.
    conj; try reflexivity; try assumption; [rewrite I1; lia|].
    left. conj; try reflexivity; try assumption.
    rewrite K1. unfold df_progress. rewrite I1, skipn_all. cbn [app]. rewrite app_nil_r.
    apply Permutation_app_head.
    pose proof (kept_outs_perm (skipn idx c) ans) as P. rewrite O1, app_nil_r in P. apply P.
    rewrite skipn_length. exact N1.
  - destruct R1 as (K1 & (x & O1) & D1 & N1).
    exists buf1, idx1, del1, ans1, [], DfBoom, kept1. rewrite app_nil_r.
    conj; try reflexivity; try assumption; [rewrite A1, skipn_length; lia|].
    right. split; [reflexivity|]. exists x. cbn [app]. rewrite K1.
    apply df_progress_step; try assumption.
  - destruct R1 as (_ & _ & _ & N1). lia.
Qed.

Lemma df_take_spec c rest : forall take buf idx del kept ans acc,
  dfJ c rest buf idx del kept -> (length c - idx <= length ans)%nat ->
  exists buf' idx' del' ans' items r kept',
    df_take buf (length c) idx del ans take acc = (buf', idx', del', ans', acc ++ items, r) /\
    dfJ c rest buf' idx' del' kept' /\ (length c - idx' <= length ans')%nat /\ (idx <= idx')%nat /\
    ((r <> DfBoom /\ df_progress c kept kept' idx idx' items) \/
     (r = DfBoom /\ exists x, df_progress c kept kept' idx idx' (items ++ [x]))).
Proof.
  induction take as [|take IH]; intros buf idx del kept ans acc HJ Ha; cbn [df_take].
  - exists buf, idx, del, ans, [], DfDone, kept. rewrite app_nil_r.
    conj; try reflexivity; try assumption; try lia. left. split; [discriminate | apply df_progress_refl].
  - destruct (df_next_spec c rest (S (length c)) buf idx del kept ans HJ) as
        (buf1 & idx1 & del1 & ans1 & r & kept1 & E1 & J1 & L1 & A1 & R1); [lia|].
    rewrite E1.
    assert (Hi1 : (idx1 <= length c)%nat) by (destruct J1 as (H & _); exact H).
    destruct r.
    + destruct R1 as (K1 & O1 & D1 & N1).
      assert (P1 : df_progress c kept kept1 idx idx1 [x]).
      { rewrite K1. apply df_progress_step; try assumption. }
      destruct (IH buf1 idx1 del1 kept1 ans1 (acc ++ [x]) J1) as
          (buf2 & idx2 & del2 & ans2 & items & r2 & kept2 & E2 & J2 & A2 & L2 & R2).
      { rewrite A1, skipn_length. lia. }
      exists buf2, idx2, del2, ans2, (x :: items), r2, kept2. rewrite E2.
      conj; try assumption; try lia.
      * rewrite <- app_assoc. reflexivity.
      * destruct R2 as [(Hn & P2)|(-> & y & P2)].
        -- left. split; [exact Hn|].
           apply (df_progress_trans c kept kept1 kept2 idx idx1 idx2 [x] items P1 P2).
        -- right. split; [reflexivity|]. exists y.
           apply (df_progress_trans c kept kept1 kept2 idx idx1 idx2 [x] (items ++ [y]) P1 P2).
    + destruct R1 as (I1 & K1 & O1 & D1 & N1).
      exists buf1, idx1, del1, ans1, [], DfDone, kept1. rewrite app_nil_r.
      conj; try reflexivity; try assumption; try lia; try (rewrite I1; lia).
      left. split; [discriminate|].
      rewrite K1. unfold df_progress. rewrite I1, skipn_all. cbn [app]. rewrite app_nil_r.
      apply Permutation_app_head.
      pose proof (kept_outs_perm (skipn idx c) ans) as P. rewrite O1, app_nil_r in P. apply P.
      rewrite skipn_length. exact N1.
    + destruct R1 as (K1 & (x & O1) & D1 & N1).
      exists buf1, idx1, del1, ans1, [], DfBoom, kept1. rewrite app_nil_r.
      conj; try reflexivity; try assumption; try lia; try (rewrite A1, skipn_length; lia).
      right. split; [reflexivity|]. exists x. cbn [app]. rewrite K1.
      apply df_progress_step; try assumption.
    + destruct R1 as (_ & _ & _ & N1). lia.
Qed.

Lemma dfJ_init c rest : dfJ c rest (map Some c ++ rest) 0 0 [].
Proof.
  unfold dfJ. conj; try lia; try reflexivity. exists []. split; reflexivity.
Qed.

Lemma dfJ_final_repr e v c rest buf idx del kept :
  v_buf v = map Some c ++ rest -> e_size e * v_cap v <= ISIZE_MAX -> 0 < e_size e ->
  dfJ c rest buf idx del kept -> idx = length c ->
  repr e (mkVec buf (N.of_nat (length c - del))) kept.
Proof.
  intros Hb Hc He HJ Hi. pose proof (dfJ_buf_length _ _ _ _ _ _ HJ) as HL.
  destruct HJ as (H1 & H2 & H3 & stale & Hs & Hbuf). subst idx.
  unfold repr, v_cap in *. cbn [v_buf v_len]. conj; [| lia | | exact He].
  - exists (stale ++ rest). rewrite Hbuf, skipn_all. reflexivity.
  - rewrite HL. rewrite Hb, app_length, map_length in Hc. exact Hc.
Qed.

Lemma dfJ_empty_repr e v c rest buf idx del kept :
  v_buf v = map Some c ++ rest -> e_size e * v_cap v <= ISIZE_MAX -> 0 < e_size e ->
  dfJ c rest buf idx del kept -> repr e (mkVec buf 0) [].
Proof.
  intros Hb Hc He HJ. pose proof (dfJ_buf_length _ _ _ _ _ _ HJ) as HL.
  unfold repr, v_cap in *. cbn [v_buf v_len]. conj; [exists buf; reflexivity | reflexivity | | exact He].
  rewrite HL. rewrite Hb, app_length, map_length in Hc. exact Hc.
Qed.

Lemma perm_swap3 {A} (a b c : list A) : Permutation (a ++ b ++ c) (b ++ a ++ c).
Proof. rewrite !app_assoc. apply Permutation_app_tail. apply Permutation_app_comm. Qed.

(* C16 for drain_filter / retain: whatever the predicate does (panics included),
   every element ends up in exactly one place: still in the vector, handed to
   the caller, dropped, or leaked *)
Theorem drain_filter_safe e v c ans take :
  repr e v c -> (length c <= length ans)%nat ->
  let d := drain_filter v ans take in
  exists kept leaked,
    repr e (df_vec d) kept /\
    Permutation (kept ++ df_taken d ++ df_dropped d ++ leaked) c /\
    (df_panicked d = false -> leaked = []).
Proof.
  intros ((rest & Hb) & Hl & Hc & He) Ha d. unfold d, drain_filter.
  assert (Hlen : nn (v_len v) = length c) by (unfold nn; lia). rewrite Hlen, Hb.
  destruct (df_take_spec c rest take (map Some c ++ rest) 0 0 [] ans [] (dfJ_init c rest)) as
      (buf1 & idx1 & del1 & ans1 & taken & r1 & kept1 & E1 & J1 & A1 & L1 & R1); [lia|].
  cbn [app] in E1. rewrite E1.
  assert (Hi1 : (idx1 <= length c)%nat) by (destruct J1 as (H & _); exact H).
  destruct (df_drain_spec c rest (S (length c)) buf1 idx1 del1 kept1 ans1 [] J1 A1) as
      (buf2 & idx2 & del2 & ans2 & dropped & r2 & kept2 & E2 & J2 & A2 & R2); [lia|].
  cbn [app] in E2. rewrite E2.
  (* the four outcomes, as facts about the two phases *)
  assert (Hdone : forall o1 o2, df_progress c [] kept1 0 idx1 o1 -> df_progress c kept1 kept2 idx1 idx2 o2 ->
                  Permutation (kept2 ++ o1 ++ o2 ++ skipn idx2 c) c).
  { intros o1 o2 P1 P2. pose proof (df_progress_trans c [] kept1 kept2 0 idx1 idx2 o1 o2 P1 P2) as P.
    unfold df_progress in P. cbn [app skipn] in P. rewrite <- !app_assoc in P. exact P. }
  destruct R1 as [(Hn1 & P1)|(-> & x1 & P1)]; destruct R2 as [(-> & I2 & P2)|(-> & x2 & P2)].
  - (* nobody panicked *)
    destruct r1; try contradiction; cbn [df_vec df_taken df_dropped df_panicked];
      (exists kept2, []; conj;
       [ eapply dfJ_final_repr; eauto
       | pose proof (Hdone _ _ P1 P2) as P; rewrite I2, skipn_all in P; exact P
       | reflexivity ]).
  - (* the predicate panicked inside Drop: the vector stays empty *)
    destruct r1; try contradiction; cbn [df_vec df_taken df_dropped df_panicked];
      (exists [], (kept2 ++ [x2] ++ skipn idx2 c); conj;
       [ eapply dfJ_empty_repr; eauto
       | pose proof (Hdone _ _ P1 P2) as P; cbn [app]; rewrite <- !app_assoc in P;
         eapply Permutation_trans; [|exact P];
         rewrite (app_assoc taken dropped); rewrite (app_assoc taken dropped ([x2] ++ skipn idx2 c));
         apply perm_swap3
       | discriminate ]).
  - (* the predicate panicked in the caller's next(); Drop finished the scan *)
    cbn [df_vec df_taken df_dropped df_panicked].
    exists kept2, [x1]. conj; [eapply dfJ_final_repr; eauto | | discriminate].
    pose proof (Hdone _ _ P1 P2) as P. rewrite I2, skipn_all, app_nil_r in P. rewrite <- !app_assoc in P.
    eapply Permutation_trans; [|exact P].
    apply Permutation_app_head. apply Permutation_app_head. apply Permutation_app_comm.
  - (* it panicked twice *)
    cbn [df_vec df_taken df_dropped df_panicked].
    exists [], (kept2 ++ [x1] ++ [x2] ++ skipn idx2 c). conj; [eapply dfJ_empty_repr; eauto | | discriminate].
    pose proof (Hdone _ _ P1 P2) as P. cbn [app]. rewrite <- !app_assoc in P.
    eapply Permutation_trans; [|exact P].
    (* taken ++ dropped ++ kept2 ++ x1 ++ x2 ++ s  ~  kept2 ++ taken ++ x1 ++ dropped ++ x2 ++ s *)
    apply Permutation_trans with (kept2 ++ taken ++ dropped ++ [x1] ++ [x2] ++ skipn idx2 c).
    + rewrite (app_assoc taken dropped). rewrite (app_assoc taken dropped ([x1] ++ [x2] ++ skipn idx2 c)).
      apply perm_swap3.
    + apply Permutation_app_head. apply Permutation_app_head. apply perm_swap3.
Qed.

(* ---------- with_capacity ---------- *)
Definition ecfg_ok (e : ecfg) : Prop :=
  0 < e_size e /\ pow2b (e_align e) = true /\ e_align e < W.

Theorem vwith_capacity_spec e n :
  ecfg_ok e ->
  match vwith_capacity e n with
  | Ret v => repr e v [] /\ (n <= v_cap v \/ e_size e * n = 0) /\ e_size e * n <= ISIZE_MAX
  | Panic _ => ISIZE_MAX < e_size e * n + (e_align e - 1) \/ ARENA_GRANTS <= e_size e * n
  end.
Proof.
  intros (He & Ha & Haw). unfold vwith_capacity, checked_mul.
  assert (HW : ISIZE_MAX < W) by (vm_compute; reflexivity).
  destruct (n * e_size e <? W) eqn:E1.
  - apply N.ltb_lt in E1.
    destruct (n * e_size e =? 0) eqn:E0.
    + apply N.eqb_eq in E0. conj; [apply repr_empty; exact He | right; lia | lia].
    + apply N.eqb_neq in E0.
      destruct (layout_ok (n * e_size e) (e_align e)) eqn:EL.
      * apply layout_ok_spec in EL. destruct EL as (_ & _ & EL).
        destruct (n * e_size e <? ARENA_GRANTS) eqn:EG.
        -- unfold repr, v_cap. cbn [v_buf v_len]. rewrite repeat_length. unfold nn. rewrite N2Nat.id.
           conj; [exists (repeat None (N.to_nat n)); reflexivity | reflexivity | lia | exact He | left; lia | lia].
        -- apply N.ltb_ge in EG. right. lia.
      * left. unfold layout_ok in EL. rewrite Ha in EL. apply N.ltb_lt in Haw. rewrite Haw in EL.
        cbn [andb] in EL. apply N.leb_gt in EL. lia.
  - apply N.ltb_ge in E1. left. lia.
Qed.
