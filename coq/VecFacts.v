(* VecFacts.v — the Vec model refines the list semantics of std's Vec (C13),
   with exact drop accounting (C15) and capacity arithmetic that never wraps (C19). *)
From BV Require Import Word WordFacts VecModel.
From Coq Require Import Lia Arith PeanoNat.

Ltac conj := repeat match goal with |- _ /\ _ => split end.

(* ---------- lists ---------- *)
Lemma overwrite_fits {A} (l : list A) a xs :
  (a + length xs <= length l)%nat ->
  overwrite l a xs = firstn a l ++ xs ++ skipn (a + length xs) l.
Proof.
  intros H. unfold overwrite. f_equal. f_equal. apply firstn_all2. lia.
Qed.

Lemma overwrite_length {A} (l : list A) a xs :
  (a + length xs <= length l)%nat -> length (overwrite l a xs) = length l.
Proof.
  intros H. rewrite overwrite_fits by exact H.
  rewrite !app_length, firstn_length, skipn_length. lia.
Qed.

Lemma firstn_app_exact {A} (l1 l2 : list A) : firstn (length l1) (l1 ++ l2) = l1.
Proof. rewrite firstn_app, Nat.sub_diag, firstn_all. cbn. apply app_nil_r. Qed.

Lemma skipn_app_exact {A} (l1 l2 : list A) : skipn (length l1) (l1 ++ l2) = l2.
Proof. rewrite skipn_app, Nat.sub_diag, skipn_all. reflexivity. Qed.

Lemma map_firstn {A B} (f : A -> B) n l : map f (firstn n l) = firstn n (map f l).
Proof. symmetry. apply firstn_map. Qed.
Lemma map_skipn {A B} (f : A -> B) n l : map f (skipn n l) = skipn n (map f l).
Proof. symmetry. apply skipn_map. Qed.

(* ---------- representation ---------- *)
Definition unslot (s : slot) : N := match s with Some x => x | None => 0 end.

(* the buffer holds the elements c in its first slots; the capacity is a valid array size *)
Definition repr (e : ecfg) (v : vec) (c : list N) : Prop :=
  (exists rest, v_buf v = map Some c ++ rest) /\
  v_len v = N.of_nat (length c) /\
  e_size e * v_cap v <= ISIZE_MAX /\ 0 < e_size e.

Lemma unslot_some l : map unslot (map Some l) = l.
Proof. rewrite map_map. cbn. apply map_id. Qed.

Lemma repr_contents e v c : repr e v c -> contents v = c.
Proof.
  intros ((rest & Hb) & Hl & _). unfold contents, nn. rewrite Hl, Nat2N.id, Hb.
  rewrite <- (map_length Some c) at 1. rewrite firstn_app_exact. apply unslot_some.
Qed.

Lemma repr_cap_ge_len e v c : repr e v c -> v_len v <= v_cap v.
Proof.
  intros ((rest & Hb) & Hl & _). unfold v_cap. rewrite Hl, Hb, app_length, map_length. lia.
Qed.

Lemma repr_cap_lt_W e v c : repr e v c -> v_cap v < W.
Proof.
  intros (_ & _ & Hc & He). assert (ISIZE_MAX < W) by (vm_compute; reflexivity). nia.
Qed.

Lemma repr_empty e : 0 < e_size e -> repr e (mkVec [] 0) [].
Proof. intros H. unfold repr, v_cap. cbn. conj; try (exists []; reflexivity); try reflexivity; try lia. Qed.

(* ---------- get / set ---------- *)
Lemma get_slot_repr c rest i :
  (i < length c)%nat -> get_slot (map Some c ++ rest) i = nth i c 0.
Proof.
  intros H. unfold get_slot. rewrite app_nth1 by (rewrite map_length; exact H).
  rewrite (nth_indep _ None (Some 0)) by (rewrite map_length; exact H).
  rewrite (map_nth Some c 0 i). reflexivity.
Qed.

Lemma set_slot_next c x r rest :
  set_slot (map Some c ++ r :: rest) (length c) x = map Some (c ++ [x]) ++ rest.
Proof.
  unfold set_slot. rewrite overwrite_fits by (rewrite app_length, map_length; cbn; lia).
  rewrite <- (map_length Some c) at 1. rewrite firstn_app_exact.
  rewrite skipn_app. rewrite (skipn_all2 (map Some c)) by (rewrite map_length; cbn [length]; lia).
  rewrite map_length. cbn [length]. replace (length c + 1 - length c)%nat with 1%nat by lia.
  cbn [skipn app]. rewrite map_app. cbn [map]. rewrite <- app_assoc. reflexivity.
Qed.

(* ---------- RawVec: reservation ---------- *)
Lemma layout_array_spec es ea n l :
  layout_array es ea n = Some l -> l_size l = es * n /\ es * n <= ISIZE_MAX.
Proof.
  unfold layout_array, checked_mul. destruct (es * n <? W); [|discriminate].
  destruct (layout_ok (es * n) ea) eqn:E; [|discriminate]. intros H; inversion H; subst. cbn [l_size].
  split; [reflexivity|]. apply layout_ok_spec in E. destruct E as (_ & _ & E). lia.
Qed.

Lemma resize_buf_grow c rest n :
  (length c + length rest <= n)%nat ->
  resize_buf (map Some c ++ rest) n = map Some c ++ (rest ++ repeat None (n - (length c + length rest))).
Proof.
  intros H. unfold resize_buf. rewrite firstn_all2 by (rewrite app_length, map_length; lia).
  rewrite app_length, map_length. rewrite <- app_assoc. reflexivity.
Qed.

(* Vec::try_reserve / reserve: the elements stay, the capacity covers len + extra,
   and the byte size of the buffer is a valid array size (never wrapped) *)
Theorem try_reserve_spec e v c extra exact :
  repr e v c ->
  match try_reserve e v extra exact with
  | inl v' => repr e v' c /\ v_len v + extra <= v_cap v' /\ v_cap v <= v_cap v'
  | inr _ => True
  end.
Proof.
  intros R. pose proof (repr_cap_ge_len e v c R) as Hle. pose proof (repr_cap_lt_W e v c R) as HW.
  unfold try_reserve.
  assert (Hs : wsub (v_cap v) (v_len v) = v_cap v - v_len v).
  { unfold wsub. replace (v_cap v + W - v_len v) with ((v_cap v - v_len v) + 1 * W) by lia.
    rewrite N.mod_add by (unfold W; lia). apply N.mod_small. lia. }
  rewrite Hs.
  destruct (extra <=? v_cap v - v_len v) eqn:E.
  - apply N.leb_le in E. conj; [exact R | lia | lia].
  - apply N.leb_gt in E. unfold reserve_internal.
    set (nc := if exact then checked_add (v_len v) extra
               else match checked_add (v_len v) extra with
                    | Some required => Some (N.max (v_cap v * 2) required) | None => None end).
    destruct nc as [new_cap|] eqn:ENC; [|exact I].
    assert (Hreq : v_len v + extra <= new_cap /\ v_cap v <= new_cap).
    { unfold nc in ENC. unfold checked_add in ENC. destruct (v_len v + extra <? W); destruct exact; inversion ENC; subst; lia. }
    destruct (layout_array (e_size e) (e_align e) new_cap) as [l|] eqn:EL; [|exact I].
    destruct (layout_array_spec _ _ _ _ EL) as [Ls Lb].
    destruct (l_size l <? ARENA_GRANTS); [|exact I].
    destruct R as ((rest & Hb) & Hl & Hc & He).
    assert (Hcap : v_cap v = N.of_nat (length c + length rest)).
    { unfold v_cap. rewrite Hb, app_length, map_length. reflexivity. }
    assert (Hn : (length c + length rest <= nn new_cap)%nat) by (unfold nn; lia).
    conj.
    + unfold repr, v_cap. cbn [v_buf v_len]. rewrite Hb, (resize_buf_grow c rest _ Hn).
      conj; [eexists; reflexivity | exact Hl | | exact He].
      rewrite app_length, map_length, app_length, repeat_length. unfold nn in *. lia.
    + unfold v_cap. cbn [v_buf]. rewrite Hb, (resize_buf_grow c rest _ Hn).
      rewrite app_length, map_length, app_length, repeat_length. unfold nn in *. lia.
    + unfold v_cap at 2. cbn [v_buf]. rewrite Hb, (resize_buf_grow c rest _ Hn).
      rewrite app_length, map_length, app_length, repeat_length. unfold nn in *. lia.
Qed.

Theorem reserve_spec e v c extra exact v' :
  repr e v c -> reserve e v extra exact = Ret v' ->
  repr e v' c /\ v_len v + extra <= v_cap v' /\ v_cap v <= v_cap v'.
Proof.
  intros R. unfold reserve. pose proof (try_reserve_spec e v c extra exact R) as H.
  destruct (try_reserve e v extra exact) as [v1|[]]; try discriminate.
  intros E; inversion E; subst. exact H.
Qed.

Lemma reserve_panic_kind e v n ex k : reserve e v n ex = Panic k -> k = PCapacity \/ k = POom.
Proof.
  unfold reserve. destruct (try_reserve e v n ex) as [v1|[]]; intros H; inversion H; auto.
Qed.

(* a request that cannot be represented is refused, never wrapped (C19) *)
Theorem try_reserve_refuses e v c extra exact :
  repr e v c -> ISIZE_MAX < e_size e * (v_len v + extra) ->
  exists err, try_reserve e v extra exact = inr err.
Proof.
  intros R Hbig. pose proof (repr_cap_ge_len e v c R) as Hle. pose proof (repr_cap_lt_W e v c R) as HW.
  destruct R as (_ & _ & Hc & He).
  unfold try_reserve.
  assert (Hs : wsub (v_cap v) (v_len v) = v_cap v - v_len v).
  { unfold wsub. replace (v_cap v + W - v_len v) with ((v_cap v - v_len v) + 1 * W) by lia.
    rewrite N.mod_add by (unfold W; lia). apply N.mod_small. lia. }
  rewrite Hs.
  destruct (extra <=? v_cap v - v_len v) eqn:E.
  - apply N.leb_le in E. exfalso. nia.
  - unfold reserve_internal.
    set (nc := if exact then checked_add (v_len v) extra
               else match checked_add (v_len v) extra with
                    | Some required => Some (N.max (v_cap v * 2) required) | None => None end).
    destruct nc as [new_cap|] eqn:ENC; [|eexists; reflexivity].
    assert (Hreq : v_len v + extra <= new_cap).
    { unfold nc in ENC. unfold checked_add in ENC. destruct (v_len v + extra <? W); destruct exact; inversion ENC; subst; lia. }
    destruct (layout_array (e_size e) (e_align e) new_cap) as [l|] eqn:EL; [|eexists; reflexivity].
    destruct (layout_array_spec _ _ _ _ EL) as [Ls Lb]. exfalso. nia.
Qed.

(* ---------- push / pop ---------- *)
Theorem push_spec e v c x v' :
  repr e v c -> push e v x = Ret v' -> repr e v' (c ++ [x]).
Proof.
  intros R. unfold push.
  assert (Step : forall v1, repr e v1 c -> v_len v1 < v_cap v1 ->
            repr e (mkVec (set_slot (v_buf v1) (nn (v_len v1)) x) (v_len v1 + 1)) (c ++ [x])).
  { intros v1 ((rest & Hb) & Hl & Hc & He) Hlt.
    assert (Hcap : v_cap v1 = N.of_nat (length c + length rest)).
    { unfold v_cap. rewrite Hb, app_length, map_length. reflexivity. }
    destruct rest as [|r rest]; [cbn in Hcap; lia|].
    unfold repr, v_cap in *. cbn [v_buf v_len]. rewrite Hb. unfold nn. rewrite Hl, Nat2N.id.
    rewrite set_slot_next. conj; [eexists; reflexivity | rewrite app_length; cbn; lia | | exact He].
    rewrite Hb in Hc. rewrite !app_length, !map_length in *. cbn [length] in *. rewrite app_length. cbn [length]. lia. }
  destruct (v_len v =? v_cap v) eqn:E.
  - destruct (reserve e v 1 false) as [v1|k] eqn:ER; [|discriminate].
    destruct (reserve_spec e v c 1 false v1 R ER) as (R1 & Hc1 & _).
    intros H; inversion H; subst. apply Step; [exact R1|].
    destruct R1 as (_ & Hl1 & _). destruct R as (_ & Hl & _). lia.
  - apply N.eqb_neq in E. pose proof (repr_cap_ge_len e v c R).
    intros HH; inversion HH; subst. apply Step; [exact R | lia].
Qed.

Theorem pop_spec e v c :
  repr e v c ->
  match c with
  | [] => pop v = (v, None)
  | _ => exists c0 x, c = c0 ++ [x] /\ snd (pop v) = Some x /\ repr e (fst (pop v)) c0
  end.
Proof.
  intros R. destruct R as ((rest & Hb) & Hl & Hc & He). unfold pop.
  destruct c as [|a c'] using rev_ind.
  - cbn in Hl. rewrite Hl. reflexivity.
  - clear IHc'. destruct (c' ++ [a]) eqn:Ec; [destruct c'; discriminate|]. rewrite <- Ec in *.
    assert (Hlen : v_len v = N.of_nat (length c') + 1) by (rewrite Hl, app_length; cbn; lia).
    assert (Hz : v_len v =? 0 = false) by (apply N.eqb_neq; lia). rewrite Hz.
    exists c', a. conj; [reflexivity | |].
    + cbn [snd]. f_equal. rewrite Hb. unfold nn. replace (N.to_nat (v_len v - 1)) with (length c') by lia.
      rewrite get_slot_repr by (rewrite app_length; cbn; lia).
      rewrite app_nth2 by lia. rewrite Nat.sub_diag. reflexivity.
    + cbn [fst]. unfold repr, v_cap in *. cbn [v_buf v_len]. conj; [|lia|exact Hc|exact He].
      exists (Some a :: rest). rewrite Hb, map_app. cbn [map]. rewrite <- app_assoc. reflexivity.
Qed.

(* ---------- more list facts about overwrite ---------- *)
Lemma overwrite_app_l {A} (l1 l2 : list A) a xs :
  overwrite (l1 ++ l2) (length l1 + a) xs = l1 ++ overwrite l2 a xs.
Proof.
  unfold overwrite. rewrite firstn_app. rewrite firstn_all2 by lia.
  replace (length l1 + a - length l1)%nat with a by lia.
  rewrite app_length. replace (length l1 + length l2 - (length l1 + a))%nat with (length l2 - a)%nat by lia.
  rewrite skipn_app. rewrite skipn_all2 by lia.
  replace (length l1 + a + length xs - length l1)%nat with (a + length xs)%nat by lia.
  cbn [app]. rewrite <- !app_assoc. reflexivity.
Qed.

Lemma overwrite_0 {A} (l : list A) xs :
  (length xs <= length l)%nat -> overwrite l 0 xs = xs ++ skipn (length xs) l.
Proof. intros H. rewrite overwrite_fits by (cbn; lia). cbn [firstn app plus]. reflexivity. Qed.

Lemma overwrite_1 {A} (y : A) l xs :
  (length xs <= length l)%nat -> overwrite (y :: l) 1 xs = y :: xs ++ skipn (length xs) l.
Proof. intros H. rewrite overwrite_fits by (cbn [length]; lia). reflexivity. Qed.

Lemma split_at {A} (c : list A) i : (i <= length c)%nat ->
  exists c1 c2, c = c1 ++ c2 /\ length c1 = i.
Proof.
  intros H. exists (firstn i c), (skipn i c). split; [symmetry; apply firstn_skipn|].
  rewrite firstn_length. lia.
Qed.

Lemma skipn_succ_app {A} (l : list A) r rest : skipn (S (length l)) (l ++ r :: rest) = rest.
Proof. induction l as [|a l IH]; [reflexivity | exact IH]. Qed.

(* ---------- insert / remove / swap_remove ---------- *)
Lemma insert_buf c1 c2 r rest x :
  set_slot (copy_within (map Some (c1 ++ c2) ++ r :: rest) (length c1) (length c1 + 1) (length c2)) (length c1) x
  = map Some (c1 ++ x :: c2) ++ rest.
Proof.
  unfold copy_within, set_slot. rewrite !map_app, <- !app_assoc.
  rewrite <- (map_length Some c1) at 1 2. rewrite skipn_app_exact.
  rewrite <- (map_length Some c2) at 1. rewrite firstn_app_exact.
  rewrite (overwrite_app_l (map Some c1) (map Some c2 ++ r :: rest) 1 (map Some c2)).
  (* the slot right after c1 keeps its old value until it is overwritten *)
  destruct (map Some c2 ++ r :: rest) as [|y l2] eqn:E; [destruct c2; discriminate|].
  assert (Hl : (length (map Some c2) <= length l2)%nat).
  { assert (length (y :: l2) = length (map Some c2 ++ r :: rest)) by (rewrite E; reflexivity).
    rewrite app_length in H. cbn [length] in H. lia. }
  rewrite overwrite_1 by exact Hl.
  replace (length c1) with (length (map Some c1) + 0)%nat by (rewrite map_length; lia).
  rewrite overwrite_app_l. rewrite overwrite_0 by (cbn [length]; lia).
  cbn [length skipn app map]. f_equal. f_equal. f_equal.
  (* what follows c2 in l2 is rest *)
  assert (l2 = tl (map Some c2 ++ r :: rest)) by (rewrite E; reflexivity). subst l2.
  clear. destruct c2 as [|a c2]; cbn [map app tl length]; [reflexivity|].
  apply skipn_succ_app.
Qed.

Theorem insert_spec e v c i x :
  repr e v c ->
  match insert e v i x with
  | Ret v' => i <= v_len v /\ repr e v' (firstn (nn i) c ++ x :: skipn (nn i) c)
  | Panic PIndex => v_len v < i
  | Panic _ => i <= v_len v       (* the reservation failed: capacity overflow / out of memory *)
  end.
Proof.
  intros R. unfold insert. destruct (v_len v <? i) eqn:EI; [apply N.ltb_lt in EI; exact EI|].
  apply N.ltb_ge in EI.
  assert (Step : forall v1, repr e v1 c -> v_len v1 < v_cap v1 -> v_len v1 = v_len v ->
            repr e (mkVec (set_slot (copy_within (v_buf v1) (nn i) (nn i + 1) (nn (v_len v1) - nn i)) (nn i) x)
                          (v_len v1 + 1)) (firstn (nn i) c ++ x :: skipn (nn i) c)).
  { intros v1 ((rest & Hb) & Hl & Hc & He) Hlt Hsame.
    assert (Hcap : v_cap v1 = N.of_nat (length c + length rest)).
    { unfold v_cap. rewrite Hb, app_length, map_length. reflexivity. }
    destruct rest as [|r rest]; [cbn in Hcap; lia|].
    assert (Hi : (nn i <= length c)%nat) by (unfold nn; lia).
    destruct (split_at c (nn i) Hi) as (c1 & c2 & -> & L1).
    rewrite <- L1. rewrite firstn_app_exact, skipn_app_exact.
    unfold repr, v_cap in *. cbn [v_buf v_len]. rewrite Hb.
    replace (nn (v_len v1) - length c1)%nat with (length c2) by (unfold nn; rewrite Hl, app_length; lia).
    rewrite insert_buf. conj; [eexists; reflexivity | | | exact He].
    - rewrite Hl, !app_length. cbn [length]. lia.
    - rewrite Hb in Hc. rewrite !app_length, !map_length in *. cbn [length] in *. rewrite !app_length in *. cbn [length]. lia. }
  destruct (v_len v =? v_cap v) eqn:E.
  - destruct (reserve e v 1 false) as [v1|k] eqn:ER;
      [|destruct (reserve_panic_kind _ _ _ _ _ ER) as [->| ->]; exact EI].
    destruct (reserve_spec e v c 1 false v1 R ER) as (R1 & Hc1 & _).
    split; [exact EI|]. apply Step; [exact R1 | | ].
    + destruct R1 as (_ & Hl1 & _). destruct R as (_ & Hl & _). lia.
    + destruct R1 as (_ & Hl1 & _). destruct R as (_ & Hl & _). lia.
  - apply N.eqb_neq in E. pose proof (repr_cap_ge_len e v c R).
    split; [exact EI|]. apply Step; [exact R | lia | reflexivity].
Qed.

Lemma skipn_shifted {A} (l : list A) y rest : exists s, skipn (length l) (y :: l ++ rest) = s :: rest.
Proof.
  revert y. induction l as [|b l IH]; intros y; cbn [length skipn app]; [exists y; reflexivity|].
  apply IH.
Qed.

(* after the left shift the slot behind the new end keeps stale bits *)
Lemma remove_buf (c1 : list N) (a : N) (c2 : list N) (rest : list slot) :
  exists s, copy_within (map Some (c1 ++ a :: c2) ++ rest) (length c1 + 1) (length c1) (length c2)
            = map Some (c1 ++ c2) ++ s :: rest.
Proof.
  destruct (skipn_shifted (map Some c2) (Some a) rest) as [s Hs]. exists s.
  unfold copy_within. rewrite !map_app. cbn [map]. rewrite <- !app_assoc. cbn [app].
  replace (length c1 + 1)%nat with (length (map Some c1 ++ [Some a])) by (rewrite app_length, map_length; reflexivity).
  replace (map Some c1 ++ Some a :: map Some c2 ++ rest) with ((map Some c1 ++ [Some a]) ++ map Some c2 ++ rest)
    by (rewrite <- app_assoc; reflexivity).
  rewrite skipn_app_exact. rewrite <- (map_length Some c2) at 1. rewrite firstn_app_exact.
  rewrite <- app_assoc. cbn [app].
  replace (length c1) with (length (map Some c1) + 0)%nat by (rewrite map_length; lia).
  rewrite overwrite_app_l.
  rewrite overwrite_0 by (cbn [length]; rewrite app_length; lia).
  rewrite Hs. reflexivity.
Qed.

Theorem remove_spec e v c i :
  repr e v c ->
  match remove v i with
  | Ret (v', x) => i < v_len v /\ x = nth (nn i) c 0 /\
                   repr e v' (firstn (nn i) c ++ skipn (nn i + 1) c)
  | Panic _ => v_len v <= i
  end.
Proof.
  intros ((rest & Hb) & Hl & Hc & He). unfold remove.
  destruct (i <? v_len v) eqn:EI; [|apply N.ltb_ge in EI; exact EI].
  apply N.ltb_lt in EI.
  assert (Hi : (nn i < length c)%nat) by (unfold nn; lia).
  destruct (split_at c (nn i)) as (c1 & c2 & -> & L1); [lia|].
  destruct c2 as [|a c2]; [rewrite app_nil_r in Hi; lia|].
  conj; [exact EI| |].
  - rewrite Hb. rewrite get_slot_repr by exact Hi. reflexivity.
  - rewrite <- L1.
    assert (F : firstn (length c1) (c1 ++ a :: c2) = c1) by apply firstn_app_exact.
    assert (S : skipn (length c1 + 1) (c1 ++ a :: c2) = c2)
      by (replace (length c1 + 1)%nat with (S (length c1)) by lia; apply skipn_succ_app).
    rewrite F, S.
    assert (K : (nn (v_len v) - length c1 - 1)%nat = length c2)
      by (unfold nn; rewrite Hl, app_length; cbn [length]; lia).
    unfold repr, v_cap in *. cbn [v_buf v_len]. rewrite Hb, K.
    destruct (remove_buf c1 a c2 rest) as [s0 E0]. rewrite E0.
    conj; [eexists; reflexivity | | | exact He].
    + rewrite Hl, !app_length. cbn [length]. lia.
    + rewrite Hb in Hc. rewrite !app_length, !map_length in *. cbn [length] in *. rewrite !app_length in *. cbn [length] in *. lia.
Qed.
