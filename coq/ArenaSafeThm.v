(* ArenaSafeThm.v — history-level safety theorems (C01, C04, C10 containment). *)
From BV Require Import Word WordFacts ArenaModel ArenaFast ArenaSpec ArenaInv ArenaSafe.
From Coq Require Import Lia.

Lemma Inv_fresh k : Inv k (fresh, []).
Proof.
  split; cbn; [split; [constructor | split; [constructor | exact I]] | split; [constructor | exact I]].
Qed.

(* a history: each operation with the acquirer that served it *)
Fixpoint hist_ok (k : cfg) (g : gstate) (h : list (op * acquirer)) : Prop :=
  match h with
  | [] => True
  | (o, A) :: r =>
      wf_op k g o /\ no_rewind o /\ A_ok k A (fst g) /\ hist_ok k (fst (gstep k A g o)) r
  end.

Fixpoint grun (k : cfg) (g : gstate) (h : list (op * acquirer)) : gstate :=
  match h with
  | [] => g
  | (o, A) :: r => grun k (fst (gstep k A g o)) r
  end.

Lemma grun_bump k g h : fst (grun k g h) = run k (fst g) h.
Proof.
  revert g. induction h as [|[o A] r IH]; intros g; cbn [grun run fold_left]; [reflexivity|].
  rewrite IH. reflexivity.
Qed.

Theorem grun_inv k g h : cfg_ok k -> Inv k g -> hist_ok k g h -> Inv k (grun k g h).
Proof.
  intros K. revert g. induction h as [|[o A] r IH]; intros g HI HH; cbn [grun]; [exact HI|].
  destruct HH as (Hwf & Hnr & HA & HH). apply IH; [|exact HH].
  apply gstep_inv; assumption.
Qed.

(* ---------- what an operation hands out ---------- *)
Definition handed_out (o : op) (r : res) : option (blk * N) :=   (* block, requested alignment *)
  match o, r with
  | OAlloc l, ROk p => Some ((p, l_size l), l_align l)
  | OTwBegin l, ROk p => Some ((p, l_size l), l_align l)
  | OGrow _ _ _ new, ROk q => Some ((q, l_size new), l_align new)
  | OShrink _ _ new, ROk q => Some ((q, l_size new), l_align new)
  | ORealloc _ l n, ROk q => Some ((q, if l_size l =? 0 then 0 else n), l_align l)
  | _, _ => None
  end.

(* the blocks of the new state other than the one just handed out *)
Definition others (k : cfg) (A : acquirer) (g : gstate) (o : op) : list blk :=
  let g' := fst (gstep k A g o) in
  match o with
  | OTwBegin _ => snd g' ++ slots (fst g)
  | _ => tl (snd g') ++ slots (fst g')
  end.

Definition in_held_data (k : cfg) (b : bump) (x : blk) : Prop :=
  snd x = 0 \/ exists c, In c (chunks b) /\ c_data c <= fst x /\ fst x + snd x <= c_foot c.

(* C04 part: the pointer is non-null and aligned *)
Theorem handed_out_aligned k A g o x a :
  cfg_ok k -> Inv k g -> wf_op k g o -> A_ok k A (fst g) ->
  handed_out o (o_res (snd (gstep k A g o))) = Some (x, a) ->
  0 < fst x /\ fst x mod a = 0 /\ fst x mod k_malign k = 0.
Proof.
  intros K [HC HB] Hwf HA. destruct g as [b live]. unfold gstep, blocks in *. cbn [fst snd] in *.
  destruct o; cbn [step wf_op handed_out fst snd] in *; try discriminate.
  - (* alloc *)
    pose proof (lay_ok_pow2 l Hwf) as Pa.
    destruct (try_alloc_inv k A b (live ++ slots b) l K HC HB HA Pa) as (_ & _ & _ & _ & F).
    destruct (o_res (snd (try_alloc k A b l))) eqn:ER; try discriminate.
    intros H; inversion H; subst. cbn [fst]. destruct (F p eq_refl) as (F1 & F2 & F3). tauto.
  - (* grow *)
    destruct Hwf as (Hin & Lo & Ln & Hle).
    assert (G := grow_inv k A b (live ++ slots b) p old new K HC HB HA
                   (in_live_blocks (b, live) _ Hin) Hle (lay_ok_pow2 _ Ln) (lay_ok_pow2 _ Lo)).
    cbv zeta in G. destruct G as (_ & _ & _ & _ & F).
    assert (R : o_res (snd (if zeroed then grow_zeroed k A b p old new else grow k A b p old new))
                = o_res (snd (grow k A b p old new))).
    { destruct zeroed; [apply grow_zeroed_res | reflexivity]. }
    replace (match zeroed with true => grow_zeroed k A b p old new | false => grow k A b p old new end)
      with (if zeroed then grow_zeroed k A b p old new else grow k A b p old new) by (destruct zeroed; reflexivity).
    rewrite R. destruct (o_res (snd (grow k A b p old new))) eqn:ER; try discriminate.
    intros H; inversion H; subst. cbn [fst]. destruct (F p0 eq_refl) as (F1 & F2 & F3). tauto.
  - (* shrink *)
    destruct Hwf as (Hin & Lo & Ln & Hle & Hpa).
    assert (G := shrink_inv k A b (live ++ slots b) p old new K HC HB HA
                   (in_live_blocks (b, live) _ Hin) Hle (lay_ok_pow2 _ Ln) (lay_ok_pow2 _ Lo) Hpa).
    cbv zeta in G. destruct G as (_ & _ & _ & _ & F).
    destruct (o_res (snd (shrink k A b p old new))) eqn:ER; try discriminate.
    intros H; inversion H; subst. cbn [fst]. destruct (F p0 eq_refl) as (F1 & F2 & F3). tauto.
  - (* realloc *)
    destruct Hwf as (Hin & Ll & Hpa).
    assert (G := realloc_inv k A b (live ++ slots b) p l n K HC HB HA
                   (in_live_blocks (b, live) _ Hin) Ll Hpa).
    cbv zeta in G. destruct G as (_ & _ & _ & _ & F).
    destruct (o_res (snd (realloc k A b p l n))) eqn:ER; try discriminate.
    intros H; inversion H; subst. cbn [fst]. destruct (F p0 eq_refl) as (F1 & F2 & F3). tauto.
  - (* tw_begin *)
    pose proof (lay_ok_pow2 l Hwf) as Pa. unfold tw_begin.
    destruct (try_alloc_inv k A b (live ++ slots b) l K HC HB HA Pa) as (_ & _ & _ & _ & F).
    destruct (o_res (snd (try_alloc k A b l))) eqn:ER; cbn [snd]; rewrite ER; try discriminate.
    intros H; inversion H; subst. cbn [fst]. destruct (F p eq_refl) as (F1 & F2 & F3). tauto.
Qed.

Lemma placed_in_held k b x : ChunksInv k (chunks b) -> placed k (chunks b) x -> in_held_data k b x.
Proof.
  intros (Hok & _) (_ & _ & [Z|(c & Hc & Hb)]); [left; exact Z|]. right.
  exists c. split; [exact Hc|]. rewrite Forall_forall in Hok.
  apply (blk_in_range k c x (Hok c Hc) Hb).
Qed.

(* C01: the block handed out lies in the data part of a held chunk and is
   disjoint from every other block of the arena (live or reserved) *)
Theorem handed_out_placed k A g o x a :
  cfg_ok k -> Inv k g -> wf_op k g o -> no_rewind o -> A_ok k A (fst g) ->
  handed_out o (o_res (snd (gstep k A g o))) = Some (x, a) ->
  in_held_data k (fst (fst (gstep k A g o))) x /\
  Forall (bdisj x) (others k A g o).
Proof.
  intros K HI Hwf Hnr HA Hh.
  pose proof (gstep_inv k A g o K HI Hwf Hnr HA) as [C' B'].
  unfold others. destruct g as [b live]. unfold gstep, blocks in *. cbn [fst snd] in *.
  assert (Gen : forall rest, BlocksInv k (chunks (fst (step k A b o))) (x :: rest) ->
            in_held_data k (fst (step k A b o)) x /\ Forall (bdisj x) rest).
  { intros rest [HP HD]. inversion HP as [|? ? Hx _]; subst. cbn [pairwise] in HD.
    split; [apply (placed_in_held k _ x C' Hx) | apply HD]. }
  destruct o; cbn [handed_out live_step step fst snd] in *; try discriminate.
  - destruct (o_res (snd (try_alloc k A b l))); try discriminate. inversion Hh; subst.
    cbn [tl]. apply Gen. exact B'.
  - destruct (o_res (snd (if zeroed then grow_zeroed k A b p old new else grow k A b p old new)));
      try discriminate. inversion Hh; subst. cbn [tl]. apply Gen. exact B'.
  - destruct (o_res (snd (shrink k A b p old new))); try discriminate. inversion Hh; subst.
    cbn [tl]. apply Gen. exact B'.
  - destruct (o_res (snd (realloc k A b p l n))); try discriminate. inversion Hh; subst.
    cbn [tl]. apply Gen. exact B'.
  - unfold tw_begin in *.
    destruct (o_res (snd (try_alloc k A b l))) eqn:ER; cbn [fst snd] in *; rewrite ?ER in Hh; try discriminate.
    inversion Hh; subst. apply Gen.
    unfold slots in B'. cbn [push_tw tws map chunks] in B'.
    apply BlocksInv_move_in in B'.
    destruct (try_alloc_inv k A b (live ++ slots b) l K (proj1 HI) (proj2 HI) HA (lay_ok_pow2 l Hwf))
      as (_ & _ & T & _ & _).
    unfold slots. rewrite <- T.
    eapply BlocksInv_head_inside; [exact B' | reflexivity |].
    unfold region. cbn [fst snd tw_size tw_res tw_top]. lia.
Qed.

(* a zero-sized request never disturbs the other blocks: they are the same list *)
(* C10 containment: every live block of non-zero size lies in the allocated
   part [finger, footer) of exactly the chunk that holds it *)
Theorem live_in_iter_slices k g :
  Inv k g ->
  Forall (fun x => snd x = 0 \/
            exists c, In c (chunks (fst g)) /\ c_ptr c <= fst x /\ fst x + snd x <= c_ptr c + (c_foot c - c_ptr c))
         (blocks g).
Proof.
  intros [(Hok & _) [HP _]]. eapply Forall_impl; [|exact HP].
  intros x (_ & _ & [Z|(c & Hc & [B1 B2])]); [left; exact Z|]. right.
  exists c. split; [exact Hc|]. rewrite Forall_forall in Hok. destruct (Hok c Hc) as (_ & _ & _ & _ & C5 & _).
  lia.
Qed.
