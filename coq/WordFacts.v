(* WordFacts.v — arithmetic facts about the definitions of Word.v. *)
From BV Require Import Word.
From Coq Require Import Lia ZArith.

Definition pow2 (a : N) : Prop := exists j, a = 2 ^ j.

Lemma pow2b_pow2 a : pow2b a = true -> pow2 a.
Proof.
  unfold pow2b. intros H. apply andb_prop in H. destruct H as [_ H].
  apply N.eqb_eq in H. exists (N.log2 a). exact H.
Qed.

Lemma pow2_pos a : pow2 a -> 0 < a.
Proof. intros [j ->]. apply N.neq_0_lt_0. apply N.pow_nonzero. lia. Qed.

Lemma pow2_nz a : pow2 a -> a <> 0.
Proof. intros H. apply pow2_pos in H. lia. Qed.

Lemma pow2_pow2b a : pow2 a -> pow2b a = true.
Proof.
  intros [j ->]. unfold pow2b. rewrite N.log2_pow2 by lia. rewrite N.eqb_refl.
  assert (0 < 2 ^ j) by (apply pow2_pos; exists j; reflexivity).
  apply N.ltb_lt in H. rewrite H. reflexivity.
Qed.

Lemma pow2_divide a b : pow2 a -> pow2 b -> a <= b -> (a | b).
Proof.
  intros [i ->] [j ->] H.
  assert (i <= j) by (apply (N.pow_le_mono_r_iff 2); lia).
  exists (2 ^ (j - i)). rewrite <- N.pow_add_r. f_equal. lia.
Qed.

Lemma pow2_max a b : pow2 a -> pow2 b -> pow2 (N.max a b).
Proof. intros Ha Hb. destruct (N.max_spec a b) as [[_ ->]|[_ ->]]; assumption. Qed.

Lemma mod0_divide n a : a <> 0 -> (n mod a = 0 <-> (a | n)).
Proof. intros H. apply N.mod_divide. exact H. Qed.

(* ---- rdown ---- *)
Lemma rdown_le n a : a <> 0 -> rdown n a <= n.
Proof. intros H. unfold rdown. rewrite N.mul_comm. apply N.mul_div_le. exact H. Qed.

Lemma rdown_gt n a : a <> 0 -> n < rdown n a + a.
Proof.
  intros H. unfold rdown. pose proof (N.div_mod' n a) as E.
  pose proof (N.mod_upper_bound n a H) as U.
  remember (n / a) as q. remember (n mod a) as r. nia.
Qed.

Lemma rdown_divide n a : (a | rdown n a).
Proof. exists (n / a). reflexivity. Qed.

Lemma rdown_mod n a : a <> 0 -> rdown n a mod a = 0.
Proof. intros H. apply mod0_divide; [exact H | apply rdown_divide]. Qed.

Lemma rdown_id n a : a <> 0 -> n mod a = 0 -> rdown n a = n.
Proof.
  intros H E. unfold rdown. pose proof (N.div_mod' n a) as D.
  remember (n / a) as q. rewrite E in D. nia.
Qed.

Lemma rdown_sub_mod n a : a <> 0 -> rdown n a = n - n mod a.
Proof.
  intros H. unfold rdown. pose proof (N.div_mod' n a) as D.
  remember (n / a) as q. remember (n mod a) as r. nia.
Qed.

Lemma rdown_mono n m a : a <> 0 -> n <= m -> rdown n a <= rdown m a.
Proof.
  intros H L. unfold rdown. apply N.mul_le_mono_r. apply N.div_le_mono; assumption.
Qed.

(* a multiple of a that is <= n is <= rdown n a *)
Lemma rdown_greatest n a x : a <> 0 -> (a | x) -> x <= n -> x <= rdown n a.
Proof.
  intros H [q ->] L. unfold rdown. apply N.mul_le_mono_r.
  apply N.div_le_lower_bound; [exact H | lia].
Qed.

(* ---- rup ---- *)
Lemma rup_ge n a : a <> 0 -> n <= rup n a.
Proof.
  intros H. unfold rup. pose proof (rdown_gt (n + (a - 1)) a H). lia.
Qed.

Lemma rup_lt n a : a <> 0 -> rup n a < n + a.
Proof.
  intros H. unfold rup. pose proof (rdown_le (n + (a - 1)) a H). lia.
Qed.

Lemma rup_divide n a : (a | rup n a).
Proof. apply rdown_divide. Qed.

Lemma rup_mod n a : a <> 0 -> rup n a mod a = 0.
Proof. intros H. apply rdown_mod. exact H. Qed.

Lemma rup_id n a : a <> 0 -> n mod a = 0 -> rup n a = n.
Proof.
  intros H E. unfold rup, rdown.
  apply mod0_divide in E; [|exact H]. destruct E as [q ->].
  replace (q * a + (a - 1)) with ((a - 1) + q * a) by lia.
  rewrite N.div_add by exact H. rewrite N.div_small by lia. lia.
Qed.

(* the least multiple of a that is >= n *)
Lemma rup_least n a x : a <> 0 -> (a | x) -> n <= x -> rup n a <= x.
Proof.
  intros H [q ->] L. unfold rup, rdown. apply N.mul_le_mono_r.
  apply N.lt_succ_r. apply N.div_lt_upper_bound; [exact H|]. lia.
Qed.

Lemma rup_zero a : a <> 0 -> rup 0 a = 0.
Proof. intros H. apply rup_id; [exact H | apply N.mod_0_l; exact H]. Qed.

Lemma round_up_to_some n a x : round_up_to n a = Some x -> x = rup n a /\ n + (a - 1) < W.
Proof.
  unfold round_up_to, checked_add. destruct (n + (a - 1) <? W) eqn:E; [|discriminate].
  intros H; inversion H; subst. apply N.ltb_lt in E. split; [reflexivity | exact E].
Qed.

(* ---- divisibility helpers ---- *)
Lemma divide_mod0 n a : a <> 0 -> (a | n) -> n mod a = 0.
Proof. intros H D. apply mod0_divide; assumption. Qed.

Lemma mod0_add n m a : a <> 0 -> n mod a = 0 -> m mod a = 0 -> (n + m) mod a = 0.
Proof.
  intros H A B. apply mod0_divide in A; [|exact H]. apply mod0_divide in B; [|exact H].
  apply divide_mod0; [exact H|]. apply N.divide_add_r; assumption.
Qed.

Lemma mod0_sub n m a : a <> 0 -> n mod a = 0 -> m mod a = 0 -> (n - m) mod a = 0.
Proof.
  intros H A B. apply mod0_divide in A; [|exact H]. apply mod0_divide in B; [|exact H].
  apply divide_mod0; [exact H|].
  destruct A as [x ->], B as [y ->]. exists (x - y). rewrite N.mul_sub_distr_r. reflexivity.
Qed.

Lemma mod0_trans n a b : a <> 0 -> b <> 0 -> (a | b) -> n mod b = 0 -> n mod a = 0.
Proof.
  intros Ha Hb D E. apply mod0_divide in E; [|exact Hb].
  apply divide_mod0; [exact Ha|]. eapply N.divide_trans; eassumption.
Qed.

(* ---- the code's mask forms are the div/mod forms ---- *)
Lemma mask_rdown n d : pow2 d -> rdown_mask n d = rdown n d.
Proof.
  intros [j ->]. unfold rdown_mask, rdown.
  rewrite N.sub_1_r, <- N.ones_equiv. rewrite N.ldiff_ones_r.
  rewrite N.shiftl_mul_pow2, N.shiftr_div_pow2. reflexivity.
Qed.

Lemma mask_low n d : pow2 d -> low_mask n d = n mod d.
Proof.
  intros [j ->]. unfold low_mask. rewrite N.sub_1_r, <- N.ones_equiv. apply N.land_ones.
Qed.

(* ---- npow2 ---- *)
Lemma npow2_pow2 n : pow2 (npow2 n).
Proof.
  unfold npow2. destruct (n <=? 1); [exists 0; reflexivity | eexists; reflexivity].
Qed.

Lemma npow2_ge n : n <= npow2 n.
Proof.
  unfold npow2. destruct (n <=? 1) eqn:E.
  - apply N.leb_le in E. exact E.
  - apply N.leb_gt in E.
    assert (0 < n - 1) by lia.
    pose proof (N.log2_spec (n - 1) H) as [_ Hu].
    rewrite N.add_1_r. lia.
Qed.

(* ---- layouts ---- *)
Lemma layout_ok_spec s a :
  layout_ok s a = true -> pow2 a /\ a < W /\ s + (a - 1) <= ISIZE_MAX.
Proof.
  unfold layout_ok. intros H.
  apply andb_prop in H. destruct H as [H H3]. apply andb_prop in H. destruct H as [H1 H2].
  apply pow2b_pow2 in H1. apply N.ltb_lt in H2. apply N.leb_le in H3.
  split; [exact H1|]. split; [exact H2|].
  assert (a - 1 <= ISIZE_MAX).
  { destruct H1 as [j ->]. unfold W in H2. unfold ISIZE_MAX.
    assert (j < 64) by (apply (N.pow_lt_mono_r_iff 2); [lia | exact H2]).
    assert (j <= 63) by lia.
    assert (2 ^ j <= 2 ^ 63) by (apply N.pow_le_mono_r; lia).
    change (2^63) with 9223372036854775808 in H1. lia. }
  lia.
Qed.
