(* ArenaRewind.v — C11: a failed initialiser that allocated nothing leaves no
   residue: the very same request is then served from the same place, without
   asking the global allocator. *)
From BV Require Import Word WordFacts ArenaModel ArenaFast ArenaSpec ArenaInv ArenaSafe.
From Coq Require Import Lia.

Lemma bump_eta b : mkBump (chunks b) (limit b) (tws b) = b.
Proof. destruct b; reflexivity. Qed.
Lemma chunk_eta c : mkChunk (c_data c) (c_nswf c) (c_align c) (c_ptr c) (c_ab c) = c.
Proof. destruct c; reflexivity. Qed.

Lemma fast_again k b l p b' A :
  fast k b l = Some (p, b') ->
  o_res (snd (try_alloc k A b l)) = ROk p /\ o_reqs (snd (try_alloc k A b l)) = [].
Proof. intros F. unfold try_alloc. rewrite F. cbn. split; reflexivity. Qed.

(* undoing the finger move of a successful fast-path allocation *)
Lemma set_ptr_back k b l p b' :
  fast k b l = Some (p, b') ->
  set_ptr b' (cur_ptr k b) = b /\ tws b' = tws b /\ cur_foot k b' = cur_foot k b /\
  (chunks b <> [] -> cur_ptr k b' = p).
Proof.
  unfold fast. destruct (fast_ptr _ _ _ _); [|discriminate]. intros H; inversion H; subst; clear H.
  unfold set_ptr, cur_ptr, cur_foot. destruct b as [cs lim ts]. cbn [chunks limit tws].
  destruct cs as [|c r]; cbn [chunks limit tws].
  - conj; try reflexivity. intros H; contradiction.
  - destruct c as [d n a pt ab]. cbn [with_ptr c_ptr c_data c_nswf c_align c_ab c_foot]. conj; reflexivity.
Qed.

Lemma tw_begin_cases k A b l :
  (exists q b1 top, fast k b l = Some (q, b1) /\
     fst (tw_begin k A b l) = push_tw b1 (mkTw (cur_foot k b) (cur_ptr k b) q (l_size l) top) /\
     o_res (snd (tw_begin k A b l)) = ROk q) \/
  (fast k b l = None /\
   exists g data reqs q b2 top, A b (ForLayout l) = (AcqSome g data, reqs) /\
     fast k (push_chunk b (new_chunk k b g data)) l = Some (q, b2) /\
     fst (tw_begin k A b l) = push_tw b2 (mkTw (cur_foot k b) (cur_ptr k b) q (l_size l) top) /\
     o_res (snd (tw_begin k A b l)) = ROk q) \/
  (forall q, o_res (snd (tw_begin k A b l)) <> ROk q).
Proof.
  unfold tw_begin, try_alloc.
  destruct (fast k b l) as [[q b1]|] eqn:F; cbn [fst snd o_res].
  - left. eexists q, b1, _. conj; try reflexivity; try assumption.
  - unfold slow. destruct (A b (ForLayout l)) as [a reqs] eqn:EA.
    destruct a as [|w|g data]; cbn [fst snd o_res]; try (right; right; intros q; discriminate).
    destruct (fast k (push_chunk b (new_chunk k b g data)) l) as [[q b2]|] eqn:F2; cbn [fst snd o_res].
    + right. left. split; [reflexivity|]. eexists g, data, reqs, q, b2, _. conj; try reflexivity; try assumption.
    + right. right. intros q; discriminate.
Qed.

Theorem rewind_restores k A b l p :
  cfg_ok k -> ChunksInv k (chunks b) -> A_ok k A b -> pow2 (l_align l) ->
  o_res (snd (tw_begin k A b l)) = ROk p ->
  let b2 := fst (tw_end k (fst (tw_begin k A b l)) false) in
  forall A',
    o_res (snd (try_alloc k A' b2 l)) = ROk p /\ o_reqs (snd (try_alloc k A' b2 l)) = [].
Proof.
  intros K HC HA Pa Hres b2 A'. unfold b2. clear b2.
  destruct (tw_begin_cases k A b l) as [(q & b1 & top & F & E1 & R1)|[(F & g & data & reqs & q & b2' & top & EA & F2 & E1 & R1)|Hno]].
  - (* the slot was carved from the current chunk (or is zero-sized on a chunk-less arena) *)
    rewrite R1 in Hres. inversion Hres; subst q; clear Hres. rewrite E1.
    unfold tw_end. replace (tws (push_tw b1 (mkTw (cur_foot k b) (cur_ptr k b) p (l_size l) top))) with (mkTw (cur_foot k b) (cur_ptr k b) p (l_size l) top :: tws b1) by reflexivity.
    destruct (set_ptr_back k b l p b1 F) as (Hback & Ht & Hf & Hp).
    assert (E0 : set_tws (push_tw b1 (mkTw (cur_foot k b) (cur_ptr k b) p (l_size l) top)) (tws b1) = b1)
      by (unfold set_tws, push_tw; cbn [chunks limit]; apply bump_eta).
    rewrite E0. cbn [tw_res tw_foot tw_ptr].
    assert (Hcp : cur_ptr k b1 = p).
    { pose proof (fast_facts k b l p b1 K HC Pa F) as (_ & _ & _ & _ & _ & Hm).
      destruct (chunks b) eqn:EC; [|apply Hp; discriminate].
      destruct Hm as (Ec1 & -> & _). unfold cur_ptr. rewrite Ec1. reflexivity. }
    rewrite Hcp, N.eqb_refl, Hf, N.eqb_refl. cbn [fst]. rewrite Hback.
    apply (fast_again k b l p b1 A' F).
  - (* the slot forced a new chunk *)
    rewrite R1 in Hres. inversion Hres; subst q; clear Hres. rewrite E1.
    assert (Hf : fresh_chunk_ok k b g data) by (apply (HA (ForLayout l)); rewrite EA; reflexivity).
    destruct (new_chunk_inv k b g data K HC Hf) as (C1 & Hptr & Hfoot).
    set (nc := new_chunk k b g data) in *.
    set (b1 := push_chunk b nc) in *.
    unfold tw_end. replace (tws (push_tw b2' (mkTw (cur_foot k b) (cur_ptr k b) p (l_size l) top))) with (mkTw (cur_foot k b) (cur_ptr k b) p (l_size l) top :: tws b2') by reflexivity.
    destruct (set_ptr_back k b1 l p b2' F2) as (Hback & Ht & Hft & Hp).
    assert (E0 : set_tws (push_tw b2' (mkTw (cur_foot k b) (cur_ptr k b) p (l_size l) top)) (tws b2') = b2')
      by (unfold set_tws, push_tw; cbn [chunks limit]; apply bump_eta).
    rewrite E0. cbn [tw_res tw_foot tw_ptr].
    assert (Hcp : cur_ptr k b2' = p) by (apply Hp; unfold b1; cbn; discriminate).
    rewrite Hcp, N.eqb_refl.
    (* the new chunk's footer is not the footer we started from *)
    assert (Hne : cur_foot k b2' =? cur_foot k b = false).
    { apply N.eqb_neq. rewrite Hft. unfold b1, cur_foot. cbn [push_chunk chunks].
      destruct Hf as (Hsafe & D0 & Da & Dw & Dd & Ds).
      unfold req_safe in Hsafe. rewrite !andb_true_iff in Hsafe. destruct Hsafe as [[[_ L2] _] _].
      apply N.leb_le in L2. pose proof (ko_f k K) as Fp. rewrite Hfoot.
      destruct (chunks b) as [|c r] eqn:EC.
      - unfold rng_disj in Ds. lia.
      - inversion Dd as [|? ? Hc _]; subst. destruct HC as (Hok & _). inversion Hok as [|? ? Hck _]; subst.
        destruct Hck as (_ & _ & _ & C4 & C5 & _ & C7). unfold rng_disj, c_end, c_foot in *. lia. }
    rewrite Hne. cbn [fst].
    (* resetting the finger to the footer gives back the chunk as it was created *)
    assert (Hal : rdown (cur_foot k b2') (k_malign k) = cur_ptr k b1).
    { rewrite Hft. unfold b1, cur_foot, cur_ptr. cbn [push_chunk chunks]. rewrite Hptr.
      apply rdown_id; [apply (cfg_m_nz k K)|].
      destruct C1 as (Hok & _). inversion Hok as [|? ? Hc _]; subst.
      apply (chunk_foot_aligned k nc K Hc). }
    rewrite Hal, Hback.
    apply (fast_again k b1 l p b2' A' F2).
  - exfalso. apply (Hno p). exact Hres.
Qed.

(* if the slot cannot be reserved, no initialiser is pending afterwards *)
Theorem no_slot_no_pending k A b l :
  (forall p, o_res (snd (tw_begin k A b l)) <> ROk p) ->
  tws (fst (tw_begin k A b l)) = tws b.
Proof.
  intros H. unfold tw_begin in *.
  destruct (o_res (snd (try_alloc k A b l))) eqn:E; cbn [fst snd] in *;
    try (rewrite E in H).
  - exfalso. apply (H p). reflexivity.
  - apply try_alloc_tws.
  - apply try_alloc_tws.
  - apply try_alloc_tws.
Qed.
