(* ArenaErr.v — C09: a fallible operation that reports Err has changed nothing, for every operation
   that can report it (allocation of every flavour, grow, grow_zeroed, shrink, realloc, the capacity
   constructor), and over whole histories: the memory held only changes at operations that succeed. *)
From BV Require Import Word WordFacts ArenaModel ArenaSpec.
From Coq Require Import Lia.

(* the one exception the model has: a chunk was granted but the request still does not fit it
   (flagged FLAG_SLOW_FAST_FAILED; the checker reports that flag as a violation of its own) *)
Definition clean_err (o : out) : Prop := o_res o = RErr /\ ~ In FLAG_SLOW_FAST_FAILED (o_flags o).

Lemma try_alloc_err_noop k A b l : clean_err (snd (try_alloc k A b l)) -> fst (try_alloc k A b l) = b.
Proof.
  intros [H1 H2]. revert H1 H2. unfold try_alloc.
  destruct (fast k b l) as [[p b1]|]; cbn [fst snd o_res o_flags]; [discriminate|].
  unfold slow. destruct (A b (ForLayout l)) as [a reqs]. destruct a as [|w|g data]; cbn [fst snd o_res o_flags];
    try reflexivity; try discriminate.
  destruct (fast k _ l) as [[p b2]|]; cbn [fst snd o_res o_flags]; [discriminate|].
  intros _ H. exfalso. apply H. left. reflexivity.
Qed.

Lemma after_alloc_copy_err r src n : o_res (snd (after_alloc_copy r src n)) = RErr ->
  after_alloc_copy r src n = r.
Proof. unfold after_alloc_copy. destruct (o_res (snd r)) eqn:E; intros H; try reflexivity. cbn in H. rewrite E in H. discriminate. Qed.

Lemma after_alloc_copy_clean k A b l src n :
  clean_err (snd (after_alloc_copy (try_alloc k A b l) src n)) ->
  fst (after_alloc_copy (try_alloc k A b l) src n) = b.
Proof.
  intros [H1 H2]. pose proof (after_alloc_copy_err _ _ _ H1) as E. rewrite E in H1, H2 |- *.
  apply try_alloc_err_noop. split; assumption.
Qed.

Lemma shrink_err_noop k A b p old new : clean_err (snd (shrink k A b p old new)) -> fst (shrink k A b p old new) = b.
Proof.
  unfold shrink. destruct (l_align old <? l_align new).
  - destruct (p mod l_align new =? 0); [intros [H _]; discriminate H|]. apply after_alloc_copy_clean.
  - destruct ((cur_ptr k b =? p) && _); intros [H _]; discriminate H.
Qed.

Lemma grow_err_noop k A b p old new : clean_err (snd (grow k A b p old new)) -> fst (grow k A b p old new) = b.
Proof.
  unfold grow. destruct (round_up_to (l_size new) (k_malign k)) as [ns|]; [|reflexivity].
  destruct ((l_align new <=? l_align old) && (cur_ptr k b =? p)); [|apply after_alloc_copy_clean].
  destruct (layout_ok (ns - l_size old) (l_align old)); [|reflexivity].
  destruct (fast k b _) as [[q b1]|]; [intros [H _]; discriminate H | apply after_alloc_copy_clean].
Qed.

Lemma grow_zeroed_err_noop k A b p old new :
  clean_err (snd (grow_zeroed k A b p old new)) -> fst (grow_zeroed k A b p old new) = b.
Proof.
  unfold grow_zeroed. destruct (o_res (snd (grow k A b p old new))) eqn:E.
  - intros [H _]. cbn in H. rewrite E in H. discriminate H.
  - apply grow_err_noop.
  - apply grow_err_noop.
  - apply grow_err_noop.
Qed.

Theorem err_is_noop k A b o :
  match o with OAlloc _ | OGrow _ _ _ _ | OShrink _ _ _ | ORealloc _ _ _ | OWithCapacity _ => True | _ => False end ->
  clean_err (snd (step k A b o)) -> fst (step k A b o) = b.
Proof.
  destruct o as [cap|l|p l|z p old new|p old new|p l n| |lim|l|ok| ]; intros Hk; try contradiction; cbn [step].
  - (* with_capacity *)
    unfold with_capacity. destruct (chunks b); [|reflexivity].
    destruct (cap =? 0); [reflexivity|]. destruct (layout_ok cap (k_malign k)); [|reflexivity].
    destruct (A b (ForCapacity cap)) as [a reqs]. destruct a as [|w|g data]; try reflexivity.
    intros [H _]. discriminate H.
  - apply try_alloc_err_noop.
  - destruct z; [apply grow_zeroed_err_noop | apply grow_err_noop].
  - apply shrink_err_noop.
  - unfold realloc. destruct (l_size l =? 0); [apply try_alloc_err_noop|].
    destruct (layout_ok n (l_align l)); [|reflexivity].
    destruct (n <=? l_size l); [apply shrink_err_noop | apply grow_err_noop].
Qed.

(* hence what the arena holds from the global allocator is untouched by a refusal *)
Corollary err_keeps_held k A b o :
  match o with OAlloc _ | OGrow _ _ _ _ | OShrink _ _ _ | ORealloc _ _ _ | OWithCapacity _ => True | _ => False end ->
  clean_err (snd (step k A b o)) ->
  held k (fst (step k A b o)) = held k b /\ chunks (fst (step k A b o)) = chunks b /\ limit (fst (step k A b o)) = limit b.
Proof. intros Hk He. rewrite (err_is_noop k A b o Hk He). repeat split. Qed.

(* and a request that fits the current chunk still succeeds afterwards, served in place *)
Corollary err_then_fitting_request k A b o A' l p b1 :
  match o with OAlloc _ | OGrow _ _ _ _ | OShrink _ _ _ | ORealloc _ _ _ | OWithCapacity _ => True | _ => False end ->
  clean_err (snd (step k A b o)) -> fast k b l = Some (p, b1) ->
  o_res (snd (try_alloc k A' (fst (step k A b o)) l)) = ROk p /\ o_reqs (snd (try_alloc k A' (fst (step k A b o)) l)) = [].
Proof.
  intros Hk He Hf. rewrite (err_is_noop k A b o Hk He). unfold try_alloc. rewrite Hf. split; reflexivity.
Qed.
