(* LeafActualOk.v — the leaf functions parsed from /repo/src (LeafActual.v,
   regenerated on every run) mean what the hand-written models say.
   If the source of one of these functions changes its meaning, the
   corresponding lemma stops checking. *)
From BV Require Import Word WordFacts RustSem ArenaModel ArenaPolicy ConstsActual LeafActual.
From Coq Require Import String Lia.
Open Scope string_scope.
Open Scope N_scope.

(* a source function that no longer means what the model says must make a lemma fail, not hang *)
Set Default Timeout 100.

(* a source function that no longer means what the model says can make `cbn` explode:
   bound every command, the lemma then simply fails *)

Arguments N.add : simpl never.
Arguments N.sub : simpl never.
Arguments N.mul : simpl never.
Arguments N.div : simpl never.
Arguments N.modulo : simpl never.
Arguments N.ltb : simpl never.
Arguments N.leb : simpl never.
Arguments N.eqb : simpl never.
Arguments N.max : simpl never.
Arguments N.min : simpl never.
Arguments N.land : simpl never.
Arguments N.lnot : simpl never.
Arguments N.ldiff : simpl never.
Arguments N.pow : simpl never.
Arguments N.log2 : simpl never.
Arguments N.shiftl : simpl never.
Arguments npow2 : simpl never.
Arguments rdown : simpl never.
Arguments N.compare : simpl never.
Arguments wsub : simpl never.


(* ---------- values and environments the lemmas are stated with ---------- *)
Definition given_consts : env := [("FOOTER_SIZE", VN actual_footer)].
Definition cenv (malign : N) : env :=
  [("MIN_ALIGN", VN malign); ("CHUNK_ALIGN", VN actual_calign); ("OVERHEAD", VN actual_overhead);
   ("DEFAULT_CHUNK_SIZE_WITHOUT_FOOTER", VN actual_default); ("TYPICAL_PAGE_SIZE", VN actual_page);
   ("FOOTER_SIZE", VN actual_footer)].
Definition vopt (o : option N) : val := match o with Some x => VSome (VN x) | None => VNone end.
(* what `e?` leaves in scope, or the error the function is left with *)
Definition vtry (o : option N) : val := match o with Some r => VN r | None => VNone end.
Definition self_of (limit : option N) (held : N) : env :=
  [("self", VRec [("allocation_limit", vopt limit); ("allocated_bytes", VN held)])].
Definition vdetails (d : details) : val :=
  VRec [("new_size_without_footer", VN (d_nswf d)); ("size", VN (d_size d)); ("align", VN (d_align d))].
Definition vlayout (l : layout) : val := VRec [("size", VN (l_size l)); ("align", VN (l_align l))].
Definition given_or_default (given : option N) : N := match given with Some g => g | None => actual_default end.
Definition dres_out (r : dres) : outcome :=
  match r with DSome d => Ret (VSome (vdetails d)) | DNone => Ret VNone | DPanic => Panic end.
Definition self_full (start ptr lsize ab : N) (lim : option N) : env :=
  [("self", VRec [("current_chunk_footer",
                   VRec [("ptr", VN ptr); ("data", VN start); ("layout", VRec [("size", VN lsize)]);
                         ("allocated_bytes", VN ab)]);
                  ("allocation_limit", vopt lim); ("allocated_bytes", VN ab)])].

Definition self_chunk (start ptr : N) : env :=
  [("self", VRec [("current_chunk_footer", VRec [("ptr", VN ptr); ("data", VN start)])])].

(* symbolic evaluation of a parsed function: reduce the interpreter and the environment lookups,
   leave the arithmetic on N alone (much faster than cbn on the deep embedding) *)
Ltac rsimpl :=
  cbv beta iota zeta delta
    [call_fn eval lookup bind finish meth0 meth1 arith fn_params fn_body src_fns cenv vlayout vdetails
     self_chunk self_of self_full String.eqb Ascii.eqb Bool.eqb List.app List.combine List.length
     Datatypes.app Datatypes.length List.rev Nat.eqb FUEL_SEM fst snd].

(* ---------- the constants: source definitions = what the built crate reports ---------- *)

Lemma src_consts_ok :
  match eval_consts src_fns given_consts src_consts with
  | Some en =>
      lookup "CHUNK_ALIGN" en = Some (VN actual_calign) /\
      lookup "OVERHEAD" en = Some (VN actual_overhead) /\
      lookup "DEFAULT_CHUNK_SIZE_WITHOUT_FOOTER" en = Some (VN actual_default) /\
      lookup "TYPICAL_PAGE_SIZE" en = Some (VN actual_page) /\
      lookup "FOOTER_SIZE" en = Some (VN actual_footer)
  | None => False
  end.
Proof. vm_compute. repeat split; reflexivity. Qed.

(* the environment in which the functions run: the constants plus the const generic *)

(* ---------- masks ---------- *)
Lemma land_lnot64 x b : x < W -> N.land x (lnot64 b) = N.ldiff x b.
Proof.
  intros Hx. apply N.bits_inj. intros m. rewrite N.land_spec, N.ldiff_spec. unfold lnot64.
  destruct (N.lt_ge_cases m 64) as [Hm|Hm].
  - rewrite N.lnot_spec_low by exact Hm. reflexivity.
  - assert (Hb : N.testbit x m = false).
    { destruct (N.eq_dec x 0) as [->|Hz]; [apply N.bits_0|].
      apply N.bits_above_log2. apply N.lt_le_trans with 64; [|exact Hm].
      apply N.log2_lt_pow2; [lia|]. exact Hx. }
    rewrite Hb. reflexivity.
Qed.


(* ---------- round_up_to / round_down_to ---------- *)
Lemma src_round_up_to_ok n d en : pow2 d -> d < W ->
  call_fn src_fns en "round_up_to" [VN n; VN d] = Ret (vopt (round_up_to n d)).
Proof.
  intros Hp Hd. pose proof (pow2_pos d Hp) as Hd0.
  rsimpl. replace (1 <=? d) with true by (symmetry; apply N.leb_le; lia). cbn.
  unfold round_up_to, checked_add.
  destruct (n + (d - 1) <? W) eqn:E; cbn; [|reflexivity].
  apply N.ltb_lt in E. rewrite land_lnot64 by exact E.
  change (N.ldiff (n + (d - 1)) (d - 1)) with (rdown_mask (n + (d - 1)) d).
  rewrite mask_rdown by exact Hp. reflexivity.
Qed.

Lemma src_round_down_to_ok n d en : pow2 d -> n < W ->
  call_fn src_fns en "round_down_to" [VN n; VN d] = Ret (VN (rdown n d)).
Proof.
  intros Hp Hn. pose proof (pow2_pos d Hp) as Hd0.
  rsimpl. replace (1 <=? d) with true by (symmetry; apply N.leb_le; lia). cbn.
  rewrite land_lnot64 by exact Hn.
  change (N.ldiff n (d - 1)) with (rdown_mask n d). rewrite mask_rdown by exact Hp. reflexivity.
Qed.

(* round_mut_ptr_down_to: ptr.wrapping_sub(ptr & (divisor - 1)) is the same rounding *)
Lemma src_round_mut_ptr_down_to_ok p d en : pow2 d -> p < W ->
  call_fn src_fns en "round_mut_ptr_down_to" [VN p; VN d] = Ret (VN (rdown p d)).
Proof.
  intros Hp Hn. pose proof (pow2_pos d Hp) as Hd0.
  rsimpl. replace (1 <=? d) with true by (symmetry; apply N.leb_le; lia). cbn.
  change (N.land p (d - 1)) with (low_mask p d). rewrite mask_low by exact Hp.
  f_equal. f_equal. unfold wsub. rewrite rdown_sub_mod by lia.
  assert (Hm : p mod d <= p) by (apply N.mod_le; lia).
  generalize dependent (p mod d). intros m Hm.
  replace (p + W - m) with ((p - m) + 1 * W) by lia.
  rewrite N.mod_add by (unfold W; lia). apply N.mod_small. lia.
Qed.

Lemma src_is_pointer_aligned_to_ok p d en : pow2 d -> p < W ->
  call_fn src_fns en "is_pointer_aligned_to" [VN p; VN d] = Ret (VB (p =? rdown p d)).
Proof.
  intros Hp Hn. pose proof (pow2_pos d Hp) as Hd0.
  rsimpl. replace (1 <=? d) with true by (symmetry; apply N.leb_le; lia). cbn.
  rewrite land_lnot64 by exact Hn.
  change (N.ldiff p (d - 1)) with (rdown_mask p d). rewrite mask_rdown by exact Hp. reflexivity.
Qed.

(* ---------- the limit ---------- *)

Lemma src_allocation_limit_remaining_ok (b : bump) :
  call_fn src_fns (self_of (limit b) (ab_of b)) "allocation_limit_remaining" [] = Ret (vopt (limit_left b)).
Proof.
  unfold call_fn, limit_left. cbn. destruct (limit b) as [L|]; cbn; reflexivity.
Qed.


Lemma src_chunk_fits_under_limit_ok left d en :
  call_fn src_fns en "chunk_fits_under_limit" [vopt left; vdetails d] = Ret (VB (fits left d)).
Proof.
  unfold call_fn, fits. cbn. destruct left as [r|]; cbn; reflexivity.
Qed.

(* ---------- the chunk-sizing arithmetic ---------- *)

Lemma npow2_lt_W x : x <= 2 ^ 63 -> npow2 x < W.
Proof.
  intros H. unfold npow2. destruct (x <=? 1) eqn:E; [unfold W; lia|].
  apply N.leb_gt in E.
  assert (N.log2 (x - 1) < 63). { apply N.log2_lt_pow2; lia. }
  apply N.lt_le_trans with (2 ^ 64); [|unfold W; lia].
  apply N.pow_lt_mono_r; lia.
Qed.


(* Bump::new_chunk_memory_details.  The two unchecked `+ OVERHEAD` of the source are the
   hypothesis: they cannot overflow for sizes any allocator can grant (debug builds would
   panic there, release builds wrap). *)
Lemma src_new_chunk_memory_details_ok m e given l :
  pow2 m -> pow2 (l_align l) -> l_size l < W ->
  (forall req, round_up_to (l_size l) (N.max (N.max actual_calign m) (l_align l)) = Some req ->
               N.max (given_or_default given) req + actual_overhead < W) ->
  call_fn src_fns (cenv m) "new_chunk_memory_details" [vopt given; vlayout l]
   = dres_out (mem_details (actual m e) given l).
Proof.
  intros Hm Hl Hs Hov.
  assert (HA : pow2 (N.max (N.max actual_calign m) (l_align l))).
  { apply pow2_max; [apply pow2_max; [|exact Hm]|exact Hl]. apply pow2b_pow2. reflexivity. }
  unfold mem_details. cbn [k_calign k_malign k_default k_page k_overhead k_footer actual].
  fold (given_or_default given).
  set (A := N.max (N.max actual_calign m) (l_align l)) in *.
  pose proof (pow2_pos A HA) as HA0.
  rsimpl. fold A.
  replace (1 <=? A) with true by (symmetry; apply N.leb_le; lia).
  assert (G : match vopt given with VNone => Ret (VN actual_default) | VSome v => Ret v | _ => Stuck end
              = Ret (VN (given_or_default given))) by (destruct given; reflexivity).
  rewrite G. clear G. rsimpl.
  unfold round_up_to, checked_add in *.
  destruct (l_size l + (A - 1) <? W) eqn:E1; rsimpl; [|reflexivity].
  apply N.ltb_lt in E1. rewrite land_lnot64 by exact E1.
  change (N.ldiff (l_size l + (A - 1)) (A - 1)) with (rdown_mask (l_size l + (A - 1)) A).
  rewrite mask_rdown by exact HA.
  specialize (Hov _ eq_refl).
  set (n := N.max (given_or_default given) (rdown (l_size l + (A - 1)) A)) in *.
  destruct (n <? actual_page) eqn:E2; rsimpl.
  - apply N.ltb_lt in E2.
    replace (n + actual_overhead <? W) with true by (symmetry; apply N.ltb_lt; exact Hov). rsimpl.
    assert (P : npow2 (n + actual_overhead) < W).
    { apply npow2_lt_W. unfold actual_page, actual_overhead in *. lia. }
    replace (npow2 (n + actual_overhead) <? W) with true by (symmetry; apply N.ltb_lt; exact P). rsimpl.
    pose proof (npow2_ge (n + actual_overhead)) as Q.
    replace (actual_overhead <=? npow2 (n + actual_overhead)) with true by (symmetry; apply N.leb_le; lia). rsimpl.
    destruct (npow2 (n + actual_overhead) - actual_overhead + actual_footer <? W); rsimpl; reflexivity.
  - replace (n + actual_overhead <? W) with true by (symmetry; apply N.ltb_lt; exact Hov). rsimpl.
    change (1 <=? actual_page) with true. rsimpl.
    destruct (n + actual_overhead + (actual_page - 1) <? W) eqn:E3; rsimpl; [|reflexivity].
    apply N.ltb_lt in E3. rewrite land_lnot64 by exact E3.
    change (N.ldiff (n + actual_overhead + (actual_page - 1)) (actual_page - 1))
      with (rdown_mask (n + actual_overhead + (actual_page - 1)) actual_page).
    assert (HP : pow2 actual_page) by (apply pow2b_pow2; reflexivity).
    rewrite mask_rdown by exact HP.
    assert (Q : actual_overhead <= rdown (n + actual_overhead + (actual_page - 1)) actual_page).
    { pose proof (rup_ge (n + actual_overhead) actual_page) as R. unfold rup in R.
      assert (actual_page <> 0) by (unfold actual_page; lia). specialize (R H). lia. }
    replace (actual_overhead <=? rdown (n + actual_overhead + (actual_page - 1)) actual_page) with true
      by (symmetry; apply N.leb_le; exact Q). rsimpl.
    destruct (rdown (n + actual_overhead + (actual_page - 1)) actual_page - actual_overhead + actual_footer <? W); rsimpl; reflexivity.
Qed.

(* ---------- the fast path ---------- *)

Lemma wsub_small a b : b <= a -> a < W -> wsub a b = a - b.
Proof.
  intros H1 H2. unfold wsub. replace (a + W - b) with ((a - b) + 1 * W) by lia.
  rewrite N.mod_add by (unfold W; lia). apply N.mod_small. lia.
Qed.

(* Bump::try_alloc_layout_fast: the pointer arithmetic of the fast path.  Hypotheses: the
   chunk invariant start <= ptr < 2^64 and Layout's guarantee that rounding the size up to the
   alignment does not overflow.  The store `footer.set_ptr(p)` stores the pointer returned. *)
Lemma src_try_alloc_layout_fast_ok m e0 start ptr l :
  pow2 m -> pow2 (l_align l) -> m < W -> l_align l < W -> ptr < W -> start <= ptr ->
  l_size l + (l_align l - 1) < W ->
  call_fn src_fns (List.app (self_chunk start ptr) (cenv m)) "try_alloc_layout_fast" [vlayout l]
  = Ret (vopt (fast_ptr (actual m e0) start ptr l)).
Proof.
  intros Hm Hl Hmw Hlw Hp Hsp Hlay.
  pose proof (pow2_pos _ Hm) as Hm0. pose proof (pow2_pos _ Hl) as Hl0.
  unfold fast_ptr. cbn [k_malign actual].
  rsimpl.
  assert (T1 : (1 <=? l_align l) = true) by (apply N.leb_le; lia).
  assert (T2 : (1 <=? m) = true) by (apply N.leb_le; lia).
  assert (T3 : (start <=? ptr) = true) by (apply N.leb_le; lia).
  assert (T4 : (l_size l + (l_align l - 1) <? W) = true) by (apply N.ltb_lt; exact Hlay).
  assert (R : N.land (l_size l + (l_align l - 1)) (lnot64 (l_align l - 1)) = rup (l_size l) (l_align l)).
  { rewrite land_lnot64 by exact Hlay.
    change (N.ldiff (l_size l + (l_align l - 1)) (l_align l - 1)) with (rdown_mask (l_size l + (l_align l - 1)) (l_align l)).
    rewrite mask_rdown by exact Hl. reflexivity. }
  destruct (l_align l ?= m) eqn:C; rsimpl.
  - repeat (rewrite ?T1, ?T3, ?T4; rsimpl). rewrite R.
    destruct (ptr - start <? rup (l_size l) (l_align l)) eqn:E; rsimpl; [reflexivity|].
    apply N.ltb_ge in E. rewrite wsub_small by lia. reflexivity.
  - rewrite T2. rsimpl. unfold round_up_to, checked_add.
    destruct (l_size l + (m - 1) <? W) eqn:E1; rsimpl; [|reflexivity].
    repeat (rewrite ?T2, ?T3; rsimpl).
    apply N.ltb_lt in E1. rewrite land_lnot64 by exact E1.
    change (N.ldiff (l_size l + (m - 1)) (m - 1)) with (rdown_mask (l_size l + (m - 1)) m).
    rewrite mask_rdown by exact Hm.
    destruct (ptr - start <? rdown (l_size l + (m - 1)) m) eqn:E; rsimpl; [reflexivity|].
    apply N.ltb_ge in E. rewrite wsub_small by lia. reflexivity.
  - repeat (rewrite ?T1, ?T3, ?T4; rsimpl). rewrite R.
    change (N.land ptr (l_align l - 1)) with (low_mask ptr (l_align l)). rewrite mask_low by exact Hl.
    assert (Q : wsub ptr (ptr mod l_align l) = rdown ptr (l_align l)).
    { rewrite wsub_small; [rewrite rdown_sub_mod by lia; reflexivity | apply N.mod_le; lia | exact Hp]. }
    rewrite Q.
    pose proof (rdown_le ptr (l_align l)) as RL.
    destruct (rdown ptr (l_align l) <? start) eqn:E0; rsimpl; [reflexivity|].
    apply N.ltb_ge in E0. rewrite (wsub_small (rdown ptr (l_align l)) start) by lia.
    destruct (rdown ptr (l_align l) - start <? rup (l_size l) (l_align l)) eqn:E; rsimpl; [reflexivity|].
    apply N.ltb_ge in E. rewrite wsub_small by lia. reflexivity.
Qed.

(* ---------- dealloc / shrink / grow: the expressions that move the finger and size the copies ----------
   These functions call other methods and write memory, so they are not translated as wholes;
   tools/rs2v.py extracts the expressions below (together with the `let`s they depend on) and the
   lemmas say that each equals the corresponding piece of ArenaModel.{dealloc, shrink, grow}. *)

Definition mem_env (m start ptr : N) : env := List.app (self_chunk start ptr) (cenv m).

Lemma src_is_last_allocation_ok m start ptr p :
  call_fn src_fns (mem_env m start ptr) "is_last_allocation" [VN p] = Ret (VB (ptr =? p)).
Proof. unfold call_fn, mem_env. rsimpl. reflexivity. Qed.

(* Bump::dealloc: `if self.is_last_allocation(ptr)` and the finger it then stores *)
Lemma src_dealloc_ok m start ptr p l : pow2 m -> m < W -> ptr + l_size l + (m - 1) < W ->
  call_fn src_fns (mem_env m start ptr) "dealloc_cond" [VN p; vlayout l] = Ret (VB (ptr =? p)) /\
  call_fn src_fns (mem_env m start ptr) "dealloc_new_finger" [VN p; vlayout l]
  = Ret (VN (rup (ptr + l_size l) m)).
Proof.
  intros Hm Hmw Hs. pose proof (pow2_pos _ Hm) as Hm0. split.
  - unfold call_fn, mem_env. rsimpl. reflexivity.
  - unfold call_fn, mem_env. rsimpl.
    replace (ptr + l_size l <? W) with true by (symmetry; apply N.ltb_lt; lia). rsimpl.
    replace (1 <=? m) with true by (symmetry; apply N.leb_le; lia). rsimpl.
    replace (ptr + l_size l + (m - 1) <? W) with true by (symmetry; apply N.ltb_lt; lia). rsimpl.
    rewrite land_lnot64 by lia.
    change (N.ldiff (ptr + l_size l + (m - 1)) (m - 1)) with (rdown_mask (ptr + l_size l + (m - 1)) m).
    rewrite mask_rdown by exact Hm. fold (rup (ptr + l_size l) m).
    pose proof (rup_ge (ptr + l_size l) m ltac:(lia)) as G. pose proof (rup_lt (ptr + l_size l) m ltac:(lia)) as L.
    replace (ptr + l_size l <=? rup (ptr + l_size l) m) with true by (symmetry; apply N.leb_le; exact G). rsimpl.
    replace (ptr + l_size l + (rup (ptr + l_size l) m - (ptr + l_size l)) <? W) with true by (symmetry; apply N.ltb_lt; lia).
    rsimpl. f_equal. f_equal. lia.
Qed.

Lemma aligned_iff_mod p a : a <> 0 -> (p =? rdown p a) = (p mod a =? 0).
Proof.
  intros Ha. rewrite rdown_sub_mod by exact Ha. pose proof (N.mod_le p a Ha) as H.
  destruct (p mod a =? 0) eqn:E.
  - apply N.eqb_eq in E. rewrite E. apply N.eqb_eq. lia.
  - apply N.eqb_neq in E. apply N.eqb_neq. lia.
Qed.

Definition shrink_delta_of (m : N) (old new : layout) : N :=
  rdown (l_size old - l_size new) (N.max (l_align new) m).

(* Bump::shrink *)
Lemma src_shrink_ok m start ptr p old new :
  pow2 m -> pow2 (l_align new) -> m < W -> l_align new < W -> p < W -> l_size old + 1 < W ->
  l_size new <= l_size old -> ptr + l_size old < W ->
  let en := mem_env m start ptr in
  let args := [VN p; vlayout old; vlayout new] in
  call_fn src_fns en "shrink_align_raised" args = Ret (VB (l_align old <? l_align new)) /\
  call_fn src_fns en "shrink_lucky" args = Ret (VB (p mod l_align new =? 0)) /\
  call_fn src_fns en "shrink_fresh_copy_len" args = Ret (VN (l_size new)) /\
  call_fn src_fns en "shrink_delta" args = Ret (VN (shrink_delta_of m old new)) /\
  call_fn src_fns en "shrink_in_place_cond" args
    = Ret (VB ((ptr =? p) && ((l_size old + 1) / 2 <=? shrink_delta_of m old new))) /\
  call_fn src_fns en "shrink_new_finger" args = Ret (VN (ptr + shrink_delta_of m old new)) /\
  call_fn src_fns en "shrink_in_place_copy_len" args = Ret (VN (l_size new)).
Proof.
  intros Hm Ha Hmw Haw Hp Ho Hle Hpo en args.
  pose proof (pow2_pos _ Hm) as Hm0. pose proof (pow2_pos _ Ha) as Ha0.
  assert (PM : pow2 (N.max (l_align new) m)) by (apply pow2_max; assumption).
  assert (PM0 : 0 < N.max (l_align new) m) by lia.
  assert (T1 : (1 <=? N.max (l_align new) m) = true) by (apply N.leb_le; lia).
  assert (T2 : (l_size new <=? l_size old) = true) by (apply N.leb_le; exact Hle).
  assert (DL : shrink_delta_of m old new <= l_size old).
  { unfold shrink_delta_of. pose proof (rdown_le (l_size old - l_size new) (N.max (l_align new) m) ltac:(lia)). lia. }
  assert (RD : forall en', call_fn src_fns en' "round_down_to" [VN (l_size old - l_size new); VN (N.max (l_align new) m)]
               = Ret (VN (shrink_delta_of m old new))).
  { intros en'. apply src_round_down_to_ok; [exact PM | lia]. }
  unfold en, args, mem_env.
  repeat match goal with |- _ /\ _ => split end.
  - unfold call_fn. rsimpl. reflexivity.
  - unfold call_fn. rsimpl. replace (1 <=? l_align new) with true by (symmetry; apply N.leb_le; lia). rsimpl.
    rewrite land_lnot64 by exact Hp.
    change (N.ldiff p (l_align new - 1)) with (rdown_mask p (l_align new)). rewrite mask_rdown by exact Ha.
    rewrite aligned_iff_mod by lia. reflexivity.
  - unfold call_fn. rsimpl. reflexivity.
  - unfold call_fn. rsimpl. rewrite T2. rsimpl. rewrite T1. rsimpl.
    change (N.land (l_size old - l_size new) (lnot64 (N.max (l_align new) m - 1)))
      with (N.land (l_size old - l_size new) (lnot64 (N.max (l_align new) m - 1))).
    rewrite land_lnot64 by lia.
    change (N.ldiff (l_size old - l_size new) (N.max (l_align new) m - 1)) with (rdown_mask (l_size old - l_size new) (N.max (l_align new) m)).
    rewrite mask_rdown by exact PM. reflexivity.
  - unfold call_fn. rsimpl. rewrite T2. rsimpl. rewrite T1. rsimpl.
    rewrite land_lnot64 by lia.
    change (N.ldiff (l_size old - l_size new) (N.max (l_align new) m - 1)) with (rdown_mask (l_size old - l_size new) (N.max (l_align new) m)).
    rewrite mask_rdown by exact PM. fold (shrink_delta_of m old new).
    destruct (ptr =? p); rsimpl; [|reflexivity].
    replace (l_size old + 1 <? W) with true by (symmetry; apply N.ltb_lt; exact Ho). rsimpl. reflexivity.
  - unfold call_fn. rsimpl. rewrite T2. rsimpl. rewrite T1. rsimpl.
    rewrite land_lnot64 by lia.
    change (N.ldiff (l_size old - l_size new) (N.max (l_align new) m - 1)) with (rdown_mask (l_size old - l_size new) (N.max (l_align new) m)).
    rewrite mask_rdown by exact PM. fold (shrink_delta_of m old new).
    replace (ptr + shrink_delta_of m old new <? W) with true by (symmetry; apply N.ltb_lt; lia). rsimpl. reflexivity.
  - unfold call_fn. rsimpl. reflexivity.
Qed.

(* Bump::grow: the rounded new size, the in-place test, the extra layout asked of the fast path and
   the copy lengths *)
Lemma src_grow_ok m start ptr p old new :
  pow2 m -> m < W -> l_size old < W ->
  let en := mem_env m start ptr in
  let args := [VN p; vlayout old; vlayout new] in
  call_fn src_fns en "grow_rounded_size" args = Ret (vtry (round_up_to (l_size new) m)) /\
  call_fn src_fns en "grow_in_place_cond" args = Ret (VB ((l_align new <=? l_align old) && (ptr =? p))) /\
  (forall ns, round_up_to (l_size new) m = Some ns -> l_size old <= ns ->
     call_fn src_fns en "grow_delta" args = Ret (VN (ns - l_size old)) /\
     call_fn src_fns en "grow_extra_layout" args
       = Ret (if layout_ok (ns - l_size old) (l_align old)
              then vlayout (mkLayout (ns - l_size old) (l_align old)) else VNone)) /\
  call_fn src_fns en "grow_in_place_copy_len" args = Ret (VN (l_size old)) /\
  call_fn src_fns en "grow_fresh_copy_len" args = Ret (VN (l_size old)).
Proof.
  intros Hm Hmw Ho en args. pose proof (pow2_pos _ Hm) as Hm0.
  assert (T1 : (1 <=? m) = true) by (apply N.leb_le; lia).
  unfold en, args, mem_env.
  repeat match goal with |- _ /\ _ => split end.
  - unfold call_fn. rsimpl. rewrite T1. rsimpl. unfold round_up_to, checked_add.
    destruct (l_size new + (m - 1) <? W) eqn:E; rsimpl; [|reflexivity].
    apply N.ltb_lt in E. rewrite land_lnot64 by exact E.
    change (N.ldiff (l_size new + (m - 1)) (m - 1)) with (rdown_mask (l_size new + (m - 1)) m).
    rewrite mask_rdown by exact Hm. reflexivity.
  - unfold call_fn. rsimpl. destruct (l_align new <=? l_align old); rsimpl; reflexivity.
  - intros ns Hns Hle. unfold round_up_to, checked_add in Hns.
    destruct (l_size new + (m - 1) <? W) eqn:E; [|discriminate]. inversion Hns; subst ns; clear Hns.
    apply N.ltb_lt in E.
    assert (MR : N.land (l_size new + (m - 1)) (lnot64 (m - 1)) = rdown (l_size new + (m - 1)) m).
    { rewrite land_lnot64 by exact E.
      change (N.ldiff (l_size new + (m - 1)) (m - 1)) with (rdown_mask (l_size new + (m - 1)) m).
      apply mask_rdown. exact Hm. }
    assert (T2 : (l_size old <=? rdown (l_size new + (m - 1)) m) = true) by (apply N.leb_le; exact Hle).
    assert (T3 : (l_size new + (m - 1) <? W) = true) by (apply N.ltb_lt; exact E).
    split.
    + unfold call_fn. rsimpl. rewrite T1. rsimpl. rewrite T3. rsimpl. rewrite MR. rewrite T2. rsimpl. reflexivity.
    + unfold call_fn. rsimpl. rewrite T1. rsimpl. rewrite T3. rsimpl. rewrite MR. rewrite T2. rsimpl.
      destruct (layout_ok (rdown (l_size new + (m - 1)) m - l_size old) (l_align old)); rsimpl; reflexivity.
  - unfold call_fn. rsimpl. reflexivity.
  - unfold call_fn. rsimpl. reflexivity.
Qed.

(* ---------- getters, reset's accounting, and the candidate computation of alloc_layout_slow ---------- *)
(* self as these functions see it: the current footer with its finger, data pointer, layout and
   running total; the limit *)
Lemma src_frames_ok : forallb snd src_frames = true.
Proof. vm_compute. reflexivity. Qed.

Lemma src_getters_ok m start ptr lsize ab lim : start <= ptr -> actual_footer <= lsize ->
  let en := List.app (self_full start ptr lsize ab lim) (cenv m) in
  call_fn src_fns en "chunk_capacity" [] = Ret (VN (ptr - start)) /\
  call_fn src_fns en "allocated_bytes" [] = Ret (VN ab) /\
  call_fn src_fns en "reset_allocated_bytes" [] = Ret (VN (lsize - actual_footer)).
Proof.
  intros H1 H2 en. unfold en. repeat match goal with |- _ /\ _ => split end.
  - unfold call_fn. rsimpl. replace (start <=? ptr) with true by (symmetry; apply N.leb_le; exact H1). rsimpl. reflexivity.
  - unfold call_fn. rsimpl. reflexivity.
  - unfold call_fn. rsimpl. replace (actual_footer <=? lsize) with true by (symmetry; apply N.leb_le; exact H2). rsimpl. reflexivity.
Qed.

(* alloc_layout_slow: min_new_chunk_size, the first candidate, the small-limit bypass and the test
   that lets a candidate be tried — the values ArenaPolicy.slow_policy / cand_loop / bypass start from *)
Lemma src_slow_path_ok m e0 (b : bump) l start ptr :
  actual_footer <= cur_layout_size (actual m e0) b ->
  let k := actual m e0 in
  let en := List.app (self_full start ptr (cur_layout_size k b) (ab_of b) (limit b)) (cenv m) in
  let min_new := N.max (l_size l) actual_default in
  call_fn src_fns en "slow_min_new_chunk_size" [vlayout l] = Ret (VN min_new) /\
  call_fn src_fns en "slow_first_candidate" [vlayout l]
    = Ret (vtry (match checked_mul (cur_layout_size k b - actual_footer) 2 with
                 | Some dbl => Some (N.max dbl min_new) | None => None end)) /\
  (forall dbl, checked_mul (cur_layout_size k b - actual_footer) 2 = Some dbl ->
     call_fn src_fns en "slow_bypass" [vlayout l] = Ret (VB (bypass b l k (N.max dbl min_new))) /\
     call_fn src_fns en "slow_try_candidate_cond" [vlayout l]
       = Ret (VB ((min_new <=? N.max dbl min_new) || bypass b l k (N.max dbl min_new)))).
Proof.
  intros Hf k en min_new. unfold en, k.
  assert (T0 : (actual_footer <=? cur_layout_size (actual m e0) b) = true) by (apply N.leb_le; exact Hf).
  repeat match goal with |- _ /\ _ => split end.
  - unfold call_fn. rsimpl. reflexivity.
  - unfold call_fn. rsimpl. rewrite T0. rsimpl. unfold checked_mul.
    destruct ((cur_layout_size (actual m e0) b - actual_footer) * 2 <? W); rsimpl; reflexivity.
  - intros dbl Hd. unfold checked_mul in Hd.
    destruct ((cur_layout_size (actual m e0) b - actual_footer) * 2 <? W) eqn:EW; [|discriminate]. inversion Hd; subst dbl; clear Hd.
    unfold bypass. cbn [k_default actual]. unfold min_new.
    set (c1 := N.max ((cur_layout_size (actual m e0) b - actual_footer) * 2) (N.max (l_size l) actual_default)).
    destruct (limit b) as [L|]; (split; unfold call_fn; rsimpl; rewrite T0; rsimpl; rewrite EW; rsimpl; cbn [vopt]; rsimpl; fold c1).
    + destruct (l_size l <? L); rsimpl; cbn [andb]; [|reflexivity].
      destruct (l_size l <=? c1); rsimpl; cbn [andb]; [|reflexivity].
      destruct (L <? actual_default); rsimpl; cbn [andb]; reflexivity.
    + destruct (l_size l <? L); rsimpl; cbn [andb];
        [destruct (l_size l <=? c1); rsimpl; cbn [andb];
          [destruct (L <? actual_default); rsimpl; cbn [andb]|]|];
        destruct (N.max (l_size l) actual_default <=? c1); rsimpl; cbn [orb]; try reflexivity;
        destruct (ab_of b =? 0); reflexivity.
    + reflexivity.
    + destruct (N.max (l_size l) actual_default <=? c1); rsimpl; reflexivity.
Qed.

(* ---------- new_chunk: the layout asked of the global allocator, where the footer goes, the initial
   finger and the running total — the fields of ArenaModel.new_chunk ---------- *)
Lemma src_new_chunk_ok m data nswf size align ab a b c :
  pow2 m -> m < W -> data + nswf < W -> ab + nswf < W ->
  let en := List.app [("size", VN size); ("align", VN align); ("data", VN data);
                      ("new_size_without_footer", VN nswf)] (cenv m) in
  let args := [a; b; VRec [("allocated_bytes", VN ab)]] in
  call_fn src_fns en "new_chunk_layout" [a; b; c]
    = Ret (if layout_ok size align then vlayout (mkLayout size align) else VNone) /\
  call_fn src_fns en "new_chunk_footer_at" [a; b; c] = Ret (VN (data + nswf)) /\
  call_fn src_fns en "new_chunk_finger" [a; b; c] = Ret (VN (rdown (data + nswf) m)) /\
  call_fn src_fns en "new_chunk_allocated_bytes" args = Ret (VN (ab + nswf)).
Proof.
  intros Hm Hmw Hd Ha en args. pose proof (pow2_pos _ Hm) as Hm0. unfold en, args.
  assert (T1 : (data + nswf <? W) = true) by (apply N.ltb_lt; exact Hd).
  assert (T2 : (ab + nswf <? W) = true) by (apply N.ltb_lt; exact Ha).
  assert (T3 : (1 <=? m) = true) by (apply N.leb_le; lia).
  repeat match goal with |- _ /\ _ => split end.
  - unfold call_fn. rsimpl. destruct (layout_ok size align); rsimpl; reflexivity.
  - unfold call_fn. rsimpl. rewrite T1. rsimpl. reflexivity.
  - unfold call_fn. rsimpl. rewrite T1. rsimpl. rewrite T3. rsimpl.
    change (N.land (data + nswf) (m - 1)) with (low_mask (data + nswf) m). rewrite mask_low by exact Hm.
    f_equal. f_equal. unfold wsub. rewrite rdown_sub_mod by lia.
    assert (Hmod : (data + nswf) mod m <= data + nswf) by (apply N.mod_le; lia).
    generalize dependent ((data + nswf) mod m). intros r Hr.
    replace (data + nswf + W - r) with ((data + nswf - r) + 1 * W) by lia.
    rewrite N.mod_add by (unfold W; lia). apply N.mod_small. lia.
  - unfold call_fn. rsimpl. rewrite T2. rsimpl. reflexivity.
Qed.


(* ---------- alloc_try_with / try_alloc_try_with: what is saved on entry; on an Err from the initialiser
   the two tests and the two rewind targets.  The current footer is a pointer here (address and
   pointee), because the methods compare footers by address ---------- *)
Definition self_ptr (foot start ptr : N) : env :=
  [("self", VRec [("current_chunk_footer", VPtr foot (VRec [("ptr", VN ptr); ("data", VN start)]))])].
Definition saved_env (res rfoot rstart rptr0 rptr : N) : env :=
  [("inner_result_ptr", VN res);
   ("rewind_footer", VPtr rfoot (VRec [("ptr", VN rptr0); ("data", VN rstart)]));
   ("rewind_ptr", VN rptr)].

Ltac psimpl :=
  cbv beta iota zeta delta
    [call_fn eval lookup bind finish meth0 meth1 fn_params fn_body src_fns cenv given_consts self_ptr saved_env
     String.eqb Ascii.eqb Bool.eqb List.app List.combine List.length
     Datatypes.app Datatypes.length List.rev Nat.eqb FUEL_SEM fst snd].

Lemma src_try_with_entry_ok m foot start ptr f :
  let en := List.app (self_ptr foot start ptr) (cenv m) in
  call_fn src_fns en "atw_saved_footer" [f] = Ret (VPtr foot (VRec [("ptr", VN ptr); ("data", VN start)])) /\
  call_fn src_fns en "atw_saved_ptr" [f] = Ret (VN ptr) /\
  call_fn src_fns en "tatw_saved_footer" [f] = Ret (VPtr foot (VRec [("ptr", VN ptr); ("data", VN start)])) /\
  call_fn src_fns en "tatw_saved_ptr" [f] = Ret (VN ptr).
Proof.
  intros en. unfold en. repeat match goal with |- _ /\ _ => split end; unfold call_fn; psimpl; reflexivity.
Qed.

Lemma src_try_with_exit_ok m foot start ptr res rfoot rstart rptr0 rptr f : pow2 m -> m < W -> foot < W ->
  let en := List.app (saved_env res rfoot rstart rptr0 rptr) (List.app (self_ptr foot start ptr) (cenv m)) in
  call_fn src_fns en "atw_is_last" [f] = Ret (VB (ptr =? res)) /\
  call_fn src_fns en "atw_same_chunk" [f] = Ret (VB (foot =? rfoot)) /\
  call_fn src_fns en "atw_rewind_same_chunk" [f] = Ret (VN rptr) /\
  call_fn src_fns en "atw_rewind_new_chunk" [f] = Ret (VN (rdown foot m)) /\
  call_fn src_fns en "tatw_is_last" [f] = Ret (VB (ptr =? res)) /\
  call_fn src_fns en "tatw_same_chunk" [f] = Ret (VB (foot =? rfoot)) /\
  call_fn src_fns en "tatw_rewind_same_chunk" [f] = Ret (VN rptr) /\
  call_fn src_fns en "tatw_rewind_new_chunk" [f] = Ret (VN (rdown foot m)).
Proof.
  intros Hm Hmw Hf en. unfold en. pose proof (pow2_pos _ Hm) as Hm0.
  assert (T3 : (1 <=? m) = true) by (apply N.leb_le; lia).
  assert (R : wsub foot (N.land foot (m - 1)) = rdown foot m).
  { change (N.land foot (m - 1)) with (low_mask foot m). rewrite mask_low by exact Hm.
    unfold wsub. rewrite rdown_sub_mod by lia.
    assert (Hmod : foot mod m <= foot) by (apply N.mod_le; lia).
    generalize dependent (foot mod m). intros r Hr.
    replace (foot + W - r) with ((foot - r) + 1 * W) by lia.
    rewrite N.mod_add by (unfold W; lia). apply N.mod_small. lia. }
  repeat match goal with |- _ /\ _ => split end; unfold call_fn; psimpl; try reflexivity;
    cbv beta iota delta [arith]; rewrite ?T3; psimpl; rewrite R; reflexivity.
Qed.

(* ---------- try_with_min_align_and_capacity: the two assertions are ArenaModel.ctor_ok, the zero
   test and the layout are with_capacity's, and no chunk size is given to new_chunk_memory_details ---------- *)
(* Alloc::realloc for &Bump, the route RawVec takes into the arena: the zero-size shortcut, the
   layout asked for (old alignment, new size; an invalid one leaves with the error) and the
   shrink / grow dispatch *)
Lemma src_realloc_ok p l n :
  call_fn src_fns [] "realloc_old_is_empty" [VN p; vlayout l; VN n] = Ret (VB (l_size l =? 0)) /\
  call_fn src_fns [] "realloc_new_layout" [VN p; vlayout l; VN n]
    = Ret (if layout_ok n (l_align l) then vlayout (mkLayout n (l_align l)) else VNone) /\
  call_fn src_fns [] "realloc_shrinks" [VN p; vlayout l; VN n] = Ret (VB (n <=? l_size l)).
Proof.
  repeat match goal with |- _ /\ _ => split end; unfold call_fn; rsimpl; try reflexivity.
  destruct (layout_ok n (l_align l)); rsimpl; reflexivity.
Qed.

Lemma src_ctor_ok m cap :
  let en := cenv m in
  call_fn src_fns en "ctor_align_is_pow2" [VN cap] = Ret (VB (pow2b m)) /\
  call_fn src_fns en "ctor_align_small" [VN cap] = Ret (VB (m <=? actual_calign)) /\
  call_fn src_fns en "ctor_capacity_zero" [VN cap] = Ret (VB (cap =? 0)) /\
  call_fn src_fns en "ctor_layout" [VN cap]
    = Ret (if layout_ok cap m then vlayout (mkLayout cap m) else VNone) /\
  call_fn src_fns en "ctor_given_size" [VN cap] = Ret VNone.
Proof.
  intros en. unfold en. repeat match goal with |- _ /\ _ => split end; unfold call_fn; rsimpl; try reflexivity.
  destruct (layout_ok cap m); rsimpl; reflexivity.
Qed.

(* ---------- chunk iteration: the slice a footer reports (ChunkFooter::as_raw_parts; `self` is the
   footer, by address): from its finger up to the footer itself — the pair of ArenaModel.q_iter_chunks ---------- *)
Definition footer_self (foot start ptr : N) : env :=
  [("self", VPtr foot (VRec [("ptr", VN ptr); ("data", VN start)]))].
Lemma src_chunk_parts_ok foot start ptr : ptr <= foot ->
  call_fn src_fns (footer_self foot start ptr) "chunk_parts_ptr" [] = Ret (VN ptr) /\
  call_fn src_fns (footer_self foot start ptr) "chunk_parts_len" [] = Ret (VN (foot - ptr)).
Proof.
  intros H. assert (T : (ptr <=? foot) = true) by (apply N.leb_le; exact H).
  split; unfold call_fn;
    cbv beta iota zeta delta
      [call_fn eval lookup bind finish meth0 meth1 fn_params fn_body src_fns footer_self
       String.eqb Ascii.eqb Bool.eqb List.app List.combine List.length
       Datatypes.app Datatypes.length List.rev Nat.eqb FUEL_SEM fst snd];
    rewrite ?T; reflexivity.
Qed.
