(* ArenaLedger.v — C03, whole histories: every block the arena ever held is either given back
   exactly once (by reset or drop, with the layout it was obtained with) or is still held. *)
From BV Require Import Word WordFacts ArenaModel ArenaSpec ArenaInv ArenaSafe ArenaStruct.
From Coq Require Import Lia Permutation Arith PeanoNat.

(* the blocks an operation added to what is held (observed on the states, not on the request log) *)
Definition gained (k : cfg) (b b' : bump) : list (N * N * N) :=
  if Nat.ltb (length (held k b)) (length (held k b')) then firstn 1 (held k b') else [].

Fixpoint obtained_of (k : cfg) (b : bump) (h : list (op * acquirer)) : list (N * N * N) :=
  match h with
  | [] => []
  | (o, A) :: r => gained k b (fst (step k A b o)) ++ obtained_of k (fst (step k A b o)) r
  end.

Fixpoint frees_of (k : cfg) (b : bump) (h : list (op * acquirer)) : list (N * N * N) :=
  match h with
  | [] => []
  | (o, A) :: r => o_frees (snd (step k A b o)) ++ frees_of k (fst (step k A b o)) r
  end.

Fixpoint sound_run (k : cfg) (b : bump) (h : list (op * acquirer)) : Prop :=
  match h with
  | [] => True
  | (o, A) :: r => acq_sound k A b /\ sound_run k (fst (step k A b o)) r
  end.

Lemma firstn1_tl {A} (l : list A) : Permutation l (tl l ++ firstn 1 l).
Proof. destruct l as [|x r]; [constructor|]. cbn [tl firstn]. apply Permutation_cons_append. Qed.

(* one operation conserves blocks *)
Lemma step_ledger k A b o :
  acq_sound k A b ->
  Permutation (held k b ++ gained k b (fst (step k A b o)))
              (o_frees (snd (step k A b o)) ++ held k (fst (step k A b o))).
Proof.
  intros HS. pose proof (step_frees k A b o HS) as H. cbv zeta in H. unfold gained.
  assert (G : forall F, o_frees (snd (step k A b o)) = [] /\
                        (same_blocks k b (fst (step k A b o)) \/ one_more k b (fst (step k A b o))) -> F = True ->
              Permutation (held k b ++ (if Nat.ltb (length (held k b)) (length (held k (fst (step k A b o))))
                                        then firstn 1 (held k (fst (step k A b o))) else []))
                          (o_frees (snd (step k A b o)) ++ held k (fst (step k A b o)))).
  { intros _ [Hf [Hs|(g & data & _ & Hm)]] _; rewrite Hf; cbn [app].
    - unfold same_blocks in Hs. rewrite Hs, Nat.ltb_irrefl, app_nil_r. apply Permutation_refl.
    - rewrite Hm. cbn [length firstn].
      replace (Nat.ltb (length (held k b)) (S (length (held k b)))) with true by (symmetry; apply Nat.ltb_lt; lia).
      apply Permutation_sym, Permutation_cons_append. }
  destruct o; try (apply (G True H eq_refl)).
  - (* reset *) destruct H as [Hf Hh]. rewrite Hf, Hh.
    replace (Nat.ltb (length (held k b)) (length (firstn 1 (held k b)))) with false.
    + rewrite app_nil_r. apply firstn1_tl.
    + symmetry. apply Nat.ltb_ge. rewrite firstn_length. lia.
  - (* drop *) destruct H as [Hf Hh]. rewrite Hf, Hh. cbn [length].
    replace (Nat.ltb (length (held k b)) 0) with false by (symmetry; apply Nat.ltb_ge; lia).
    rewrite !app_nil_r. apply Permutation_refl.
Qed.

(* conservation over a history *)
Theorem ledger k : forall h b, sound_run k b h ->
  Permutation (held k b ++ obtained_of k b h) (frees_of k b h ++ held k (run k b h)).
Proof.
  induction h as [|[o A] r IH]; intros b Hs.
  - cbn [obtained_of frees_of run fold_left app]. rewrite app_nil_r. apply Permutation_refl.
  - cbn [sound_run] in Hs. destruct Hs as [HA Hr].
    cbn [obtained_of frees_of]. unfold run. cbn [fold_left fst snd]. fold (run k (fst (step k A b o)) r).
    specialize (IH _ Hr). pose proof (step_ledger k A b o HA) as S.
    rewrite app_assoc. rewrite <- app_assoc with (l := o_frees _).
    eapply Permutation_trans; [apply Permutation_app_tail; exact S|].
    rewrite <- app_assoc. apply Permutation_app_head. exact IH.
Qed.

(* from a fresh arena: what was obtained is what was freed plus what is still held; once the arena is
   dropped, everything obtained has been freed exactly once *)
Theorem ledger_fresh k h : sound_run k fresh h ->
  Permutation (obtained_of k fresh h) (frees_of k fresh h ++ held k (run k fresh h)).
Proof. intros H. exact (ledger k h fresh H). Qed.

Theorem ledger_after_drop k h A : sound_run k fresh (h ++ [(ODrop, A)]) ->
  Permutation (obtained_of k fresh (h ++ [(ODrop, A)])) (frees_of k fresh (h ++ [(ODrop, A)])) /\
  held k (run k fresh (h ++ [(ODrop, A)])) = [].
Proof.
  intros H. pose proof (ledger_fresh k _ H) as L.
  assert (E : held k (run k fresh (h ++ [(ODrop, A)])) = []).
  { unfold run. rewrite fold_left_app. cbn [fold_left fst snd step drop_arena]. reflexivity. }
  rewrite E, app_nil_r in L. split; [exact L | exact E].
Qed.
