(* C15 — Every element is dropped exactly once, and only by its owner (model part). *)
From BV Require Import Word WordFacts VecModel VecFacts.
From Coq Require Import Lia Permutation.

(* truncate / clear drop exactly the elements cut off (back to front), and keep the rest *)
Theorem C15_truncate_drops : forall e v c n, repr e v c ->
  exists m, repr e (truncate_state v n []) (firstn m c) /\
            f_drops (snd (truncate v n [])) = rev (skipn m c).
Proof.
  intros e v c n R. destruct (truncate_spec e v c n [] R) as (m & H1 & H2 & _). exists m. split; assumption.
Qed.

(* retain / drain_filter without a panicking predicate: what is not kept is handed
   to the caller or dropped, exactly once *)
Theorem C15_drain_filter_conserves : forall e v c ans take,
  repr e v c -> (length c <= length ans)%nat ->
  let d := drain_filter v ans take in
  df_panicked d = false ->
  exists kept, repr e (df_vec d) kept /\ Permutation (kept ++ df_taken d ++ df_dropped d) c.
Proof.
  intros e v c ans take R Ha d Hp.
  destruct (drain_filter_safe e v c ans take R Ha) as (kept & leaked & R' & P & L).
  exists kept. split; [exact R'|]. fold d in P, L. rewrite (L Hp), app_nil_r in P. exact P.
Qed.

(* the value moved out by pop/remove/swap_remove is no longer in the vector's
   contents: the caller is its only owner (for duplicate-free contents) *)
Theorem C15_remove_moves_out : forall e v c i v' x, repr e v c -> NoDup c ->
  remove v i = Ret (v', x) -> ~ In x (contents v').
Proof.
  intros e v c i v' x R ND H. pose proof (remove_spec e v c i R) as S. rewrite H in S.
  destruct S as (Hi & Hx & R'). rewrite (repr_contents e v' _ R').
  destruct R as (_ & Hl & _).
  assert (Hlt : (nn i < length c)%nat) by (unfold nn; lia).
  rewrite <- (firstn_skipn (nn i) c) in ND.
  rewrite (skipn_cons_nth c (nn i) Hlt) in ND. rewrite <- Hx in ND.
  apply NoDup_remove_2 in ND. replace (nn i + 1)%nat with (S (nn i)) by lia. exact ND.
Qed.

(* dropping the vector drops exactly its contents *)
Theorem C15_drop_vec : forall e v c, repr e v c -> drop_vec v = c.
Proof. intros e v c R. unfold drop_vec. apply (repr_contents e v c R). Qed.

Example C15_witness :
  let v := mkVec [Some 1; Some 2; Some 3; Some 4; None] 4 in
  f_drops (snd (truncate v 1 [])) = [4; 3; 2] /\ contents (truncate_state v 1 []) = [1].
Proof. vm_compute. split; reflexivity. Qed.

Print Assumptions C15_truncate_drops.
Print Assumptions C15_drain_filter_conserves.
Print Assumptions C15_remove_moves_out.
Print Assumptions C15_drop_vec.

From BV Require Import VecFacts2.
(* drain: every element of the range goes to exactly one place — handed to the caller from the
   front, handed from the back, or dropped by Drain's destructor — and the rest stays *)
Theorem C15_drain_conserves : forall e v c s e0 front back d,
  repr e v c -> drain v s e0 front back = Ret d ->
  exists a b, repr e (d_vec d) (firstn (nn a) c ++ skipn (nn b) c) /\
    d_taken_front d ++ d_dropped d ++ rev (d_taken_back d) = firstn (nn b - nn a) (skipn (nn a) c).
Proof.
  intros e v c s e0 front back d R H. destruct (drain_spec e v c s e0 front back d R H) as (a & b & _ & A & B).
  exists a, b. split; assumption.
Qed.

(* growing resize clones n-1 times and moves the value in; nothing is dropped *)
Theorem C15_resize_grow_drops_nothing : forall e v c new_len x next_id boom v',
  repr e v c -> v_len v < new_len -> fst (resize e v new_len x next_id boom) = Ret v' ->
  f_drops (snd (resize e v new_len x next_id boom)) = [] /\
  f_clones (snd (resize e v new_len x next_id boom)) = new_len - v_len v - 1.
Proof.
  intros e v c new_len x next_id boom v' R L H.
  destruct (resize_grow_spec e v c new_len x next_id boom v' R L H) as (_ & _ & _ & _ & A & B). split; assumption.
Qed.

(* split_off moves the tail: both vectors together hold exactly the old elements *)
Theorem C15_split_off_moves : forall e v c at_ v1 v2,
  ecfg_ok e -> repr e v c -> split_off e v at_ = Ret (v1, v2) -> contents v1 ++ contents v2 = c.
Proof.
  intros e v c at_ v1 v2 E R H. destruct (split_off_spec e v c at_ v1 v2 E R H) as (R1 & R2 & _).
  rewrite (repr_contents e v1 _ R1), (repr_contents e v2 _ R2). apply firstn_skipn.
Qed.

Print Assumptions C15_drain_conserves.
Print Assumptions C15_resize_grow_drops_nothing.
Print Assumptions C15_split_off_moves.

(* splice conserves values: what the vector held plus what was spliced in is what it holds
   afterwards plus what was removed (to be dropped by the Splice or taken by the caller) *)
From BV Require Import VecSplice.
Theorem C15_splice_conserves : forall e v c s e0 xs h0 h1 r,
  repr e v c -> splice e v s e0 xs h0 h1 = Ret r ->
  Permutation.Permutation (c ++ xs) (contents (s_vec r) ++ s_removed r).
Proof. exact splice_conserves. Qed.
Print Assumptions C15_splice_conserves.
