(* C03 — Chunks are returned to the global allocator exactly once and never early. *)
From BV Require Import Word ArenaModel ArenaSpec ArenaInv ArenaSafe ArenaSafeThm ArenaStruct.
From Coq Require Import Lia.

(* Blocks go back only in reset and drop; reset hands back exactly the blocks
   behind the newest one and keeps that one; drop hands back everything; every
   other operation frees nothing and either keeps what is held or adds exactly
   the block it was granted, recorded with the size and alignment it was
   requested with (so that is the layout it is later freed with). *)
Theorem C03_frees :
  forall k A b o, acq_sound k A b ->
    let r := step k A b o in
    match o with
    | OReset => o_frees (snd r) = tl (held k b) /\ held k (fst r) = firstn 1 (held k b)
    | ODrop => o_frees (snd r) = held k b /\ held k (fst r) = []
    | _ => o_frees (snd r) = [] /\ (same_blocks k b (fst r) \/ one_more k b (fst r))
    end.
Proof. exact step_frees. Qed.

(* what is held never overlaps the static empty chunk, so the static is never
   among the blocks freed; and held blocks are pairwise disjoint, so no block
   can be freed twice *)
Theorem C03_held_disjoint_from_static :
  forall k h, cfg_ok k -> hist_ok k (fresh, []) h ->
    let b := fst (grun k (fresh, []) h) in
    Forall (chunk_off_static k) (chunks b) /\ pairwise (chunk_disj k) (chunks b).
Proof.
  intros k h K HH b. destruct (grun_inv k (fresh, []) h K (Inv_fresh k) HH) as [(_ & H1 & H2) _].
  split; assumption.
Qed.

(* no block that is still live is inside a chunk that an operation other than
   reset/drop gives up: such operations give up nothing at all *)
Theorem C03_no_early_free :
  forall k A b o, acq_sound k A b -> o <> OReset -> o <> ODrop -> o_frees (snd (step k A b o)) = [].
Proof.
  intros k A b o HS H1 H2. pose proof (step_frees k A b o HS) as H. cbv zeta in H.
  destruct o; try apply H; contradiction.
Qed.

Example C03_witness :
  let k := mkCfg 48 16 64 448 4096 1 1000 in
  let b := run k fresh [(OWithCapacity 1, follow k [mkGreq 496 16 (Some 4096)]);
                        (OAlloc (mkLayout 600 1), follow k [mkGreq 1008 16 (Some 8192)])] in
  o_frees (snd (step k (follow k []) b OReset)) = [(4096, 496, 16)] /\
  o_frees (snd (step k (follow k []) b ODrop)) = [(8192, 1008, 16); (4096, 496, 16)].
Proof. vm_compute. split; reflexivity. Qed.

Print Assumptions C03_frees.
Print Assumptions C03_held_disjoint_from_static.
Print Assumptions C03_no_early_free.

(* ---- whole histories (ArenaLedger.v) ---- *)
From BV Require Import ArenaLedger.
From Coq Require Import Permutation.

(* conservation: everything the arena ever held is either given back exactly once, with the layout
   it was obtained with, or is still held (equality of multisets of (address, size, align)) *)
Theorem C03_ledger : forall k h b, sound_run k b h ->
  Permutation (held k b ++ obtained_of k b h) (frees_of k b h ++ held k (run k b h)).
Proof. exact ledger. Qed.

(* once the arena is dropped it holds nothing and everything it ever obtained has been freed once *)
Theorem C03_all_returned_after_drop : forall k h A, sound_run k fresh (h ++ [(ODrop, A)]) ->
  Permutation (obtained_of k fresh (h ++ [(ODrop, A)])) (frees_of k fresh (h ++ [(ODrop, A)])) /\
  held k (run k fresh (h ++ [(ODrop, A)])) = [].
Proof. exact ledger_after_drop. Qed.

(* nothing is freed that was not obtained (in particular not the static empty chunk) *)
Theorem C03_only_obtained_blocks_are_freed : forall k h x, sound_run k fresh h ->
  In x (frees_of k fresh h) -> In x (obtained_of k fresh h).
Proof.
  intros k h x H I. apply (Permutation_in x (Permutation_sym (ledger_fresh k h H))).
  apply in_or_app. left. exact I.
Qed.

Example C03_ledger_witness :
  let k := mkCfg 48 16 64 448 4096 1 1000 in
  let h := [(OWithCapacity 1, follow k [mkGreq 496 16 (Some 4096)]);
            (OAlloc (mkLayout 600 1), follow k [mkGreq 1008 16 (Some 8192)]);
            (OReset, follow k []); (OAlloc (mkLayout 2000 1), follow k [mkGreq 2032 16 (Some 16384)]);
            (ODrop, follow k [])] in
  obtained_of k fresh h = [(4096, 496, 16); (8192, 1008, 16); (16384, 2032, 16)] /\
  frees_of k fresh h = [(4096, 496, 16); (16384, 2032, 16); (8192, 1008, 16)].
Proof. vm_compute. split; reflexivity. Qed.

Print Assumptions C03_ledger.
Print Assumptions C03_all_returned_after_drop.
Print Assumptions C03_only_obtained_blocks_are_freed.

(* ---------- the source tie: the statements of /repo that give memory back, pinned as text in
   LeafActual.v (regenerated on every run): the walk over the chunk list frees each footer's
   (data, layout) and stops at the sentinel, which is recognised by address; Drop walks the whole
   list; reset walks everything but the current chunk; set_ptr never writes to the sentinel ---------- *)
From BV Require Import RustSem LeafActual LeafActualOk.
From Coq Require Import String.
Theorem C03_source_frames :
  Forall (fun n => lookup n src_frames = Some true)
    ["chunk_list_walk"; "drop_frees_whole_list"; "sentinel_test_by_address"; "set_ptr_spares_sentinel";
     "reset_frees_all_but_current"; "reset_empty_is_noop"; "new_chunk_asks_allocator"]%string.
Proof. repeat (constructor; [vm_compute; reflexivity|]). constructor. Qed.
Print Assumptions C03_source_frames.

(* ---------- the loop that gives chunks back, as /repo's source has it.  tools/rs2v.py translates the
   body of dealloc_chunk_list into the statement language of RustSem on every run (LeafActual.src_procs);
   run on a chunk list of any length — each footer pointing to its predecessor, the oldest to the static
   sentinel — it calls dealloc exactly once per chunk, newest first, with the data pointer and the
   layout the footer records, and stops at the sentinel without touching it ---------- *)
From BV Require Import ConstsActual ChunkWalkOk.
Theorem C03_source_chunk_list_walk : forall k cs, Forall (fun c => c_foot c <> k_eaddr k) cs ->
  forall extra tr sc f0, exists f1,
    exec src_fns (wfuel (List.length cs) extra) (walk_env k cs f0) tr sc walk_body
    = XOk (walk_env k [] f1) (List.app tr (map (freed k) cs)) sc.
Proof. exact walk_frees_the_list. Qed.

(* and those calls are what the model reports as freed: every chunk on drop, all but the current one on reset *)
Theorem C03_walk_is_what_drop_and_reset_report : forall k (b : bump),
  map freed_block (map (freed k) (chunks b)) = map Some (o_frees (snd (drop_arena k b))) /\
  (forall c rest, chunks b = c :: rest ->
     map freed_block (map (freed k) rest) = map Some (o_frees (snd (reset k b)))).
Proof. intros k b. split; [apply walk_frees_what_drop_reports | intros c rest H; exact (walk_frees_what_reset_reports k b c rest H)]. Qed.

Print Assumptions C03_source_chunk_list_walk.
Print Assumptions C03_walk_is_what_drop_and_reset_report.
