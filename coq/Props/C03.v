(* C03 — Chunks are returned to the global allocator exactly once and never early. *)
From BV Require Import Word ArenaModel ArenaSpec ArenaInv ArenaSafe ArenaSafeThm ArenaStruct.
From Coq Require Import Lia.

(* Blocks go back only in reset and drop; reset hands back exactly the blocks
   behind the newest one and keeps that one; drop hands back everything; every
   other operation frees nothing and either keeps what is held or adds exactly
   the block it was granted, recorded with the size and alignment it was
   requested with (so that is the layout it is later freed with). *)
Theorem C03_frees :
  forall k A b o, acq_sound k A b ->
    let r := step k A b o in
    match o with
    | OReset => o_frees (snd r) = tl (held k b) /\ held k (fst r) = firstn 1 (held k b)
    | ODrop => o_frees (snd r) = held k b /\ held k (fst r) = []
    | _ => o_frees (snd r) = [] /\ (same_blocks k b (fst r) \/ one_more k b (fst r))
    end.
Proof. exact step_frees. Qed.

(* what is held never overlaps the static empty chunk, so the static is never
   among the blocks freed; and held blocks are pairwise disjoint, so no block
   can be freed twice *)
Theorem C03_held_disjoint_from_static :
  forall k h, cfg_ok k -> hist_ok k (fresh, []) h ->
    let b := fst (grun k (fresh, []) h) in
    Forall (chunk_off_static k) (chunks b) /\ pairwise (chunk_disj k) (chunks b).
Proof.
  intros k h K HH b. destruct (grun_inv k (fresh, []) h K (Inv_fresh k) HH) as [(_ & H1 & H2) _].
  split; assumption.
Qed.

(* no block that is still live is inside a chunk that an operation other than
   reset/drop gives up: such operations give up nothing at all *)
Theorem C03_no_early_free :
  forall k A b o, acq_sound k A b -> o <> OReset -> o <> ODrop -> o_frees (snd (step k A b o)) = [].
Proof.
  intros k A b o HS H1 H2. pose proof (step_frees k A b o HS) as H. cbv zeta in H.
  destruct o; try apply H; contradiction.
Qed.

Example C03_witness :
  let k := mkCfg 48 16 64 448 4096 1 1000 in
  let b := run k fresh [(OWithCapacity 1, follow k [mkGreq 496 16 (Some 4096)]);
                        (OAlloc (mkLayout 600 1), follow k [mkGreq 1008 16 (Some 8192)])] in
  o_frees (snd (step k (follow k []) b OReset)) = [(4096, 496, 16)] /\
  o_frees (snd (step k (follow k []) b ODrop)) = [(8192, 1008, 16); (4096, 496, 16)].
Proof. vm_compute. split; reflexivity. Qed.

Print Assumptions C03_frees.
Print Assumptions C03_held_disjoint_from_static.
Print Assumptions C03_no_early_free.
