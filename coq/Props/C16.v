(* C16 — A panicking callback never causes double drops or invalid text (Vec model part). *)
From BV Require Import Word WordFacts VecModel VecFacts.
From Coq Require Import Lia Permutation.

(* retain / drain_filter with a predicate that may panic at any invocation, the
   DrainFilter iterated any number of times by the caller before being dropped:
   every element ends in exactly one place (vector, caller, dropped, leaked) *)
Theorem C16_drain_filter_no_double_drop : forall e v c ans take,
  repr e v c -> (length c <= length ans)%nat ->
  let d := drain_filter v ans take in
  exists kept leaked, repr e (df_vec d) kept /\
    Permutation (kept ++ df_taken d ++ df_dropped d ++ leaked) c /\
    (df_panicked d = false -> leaked = []).
Proof. exact drain_filter_safe. Qed.

Lemma NoDup_app_l {A} (l l' : list A) : NoDup (l ++ l') -> NoDup l.
Proof.
  induction l as [|a l IH]; intros H; [constructor|].
  inversion H as [|? ? Hn Hr]; subst. constructor; [|apply IH; exact Hr].
  intros Hin. apply Hn. apply in_or_app. left. exact Hin.
Qed.

Corollary C16_drain_filter_nodup : forall e v c ans take,
  repr e v c -> (length c <= length ans)%nat -> NoDup c ->
  let d := drain_filter v ans take in
  NoDup (contents (df_vec d) ++ df_taken d ++ df_dropped d).
Proof.
  intros e v c ans take R Ha ND d.
  destruct (drain_filter_safe e v c ans take R Ha) as (kept & leaked & R' & P & _). fold d in R', P.
  rewrite (repr_contents e _ _ R').
  assert (ND' : NoDup (kept ++ df_taken d ++ df_dropped d ++ leaked)).
  { eapply Permutation_NoDup; [apply Permutation_sym; exact P | exact ND]. }
  rewrite !app_assoc in ND'. apply NoDup_app_l in ND'. rewrite <- !app_assoc in ND'. exact ND'.
Qed.

(* truncate / clear / resize-down when an element's destructor panics: the
   elements from the panicking one to the end count as dropped, the rest stay *)
Theorem C16_truncate_panicking_drop : forall e v c n boom, repr e v c ->
  exists m, repr e (truncate_state v n boom) (firstn m c) /\
            f_drops (snd (truncate v n boom)) = rev (skipn m c).
Proof.
  intros e v c n boom R. destruct (truncate_spec e v c n boom R) as (m & H1 & H2 & _). exists m. split; assumption.
Qed.
(* Not yet theorems: dedup_by, resize/extend with panicking Clone or iterator,
   String::retain, Box: decided on the implementation by the drop ledger
   (no_double_drop, no_duplicate_identity, dropped_not_reachable). *)

Example C16_witness :
  (* the history of the repaired defect: predicate answers y n n y BOOM n, the caller takes 4 *)
  let v := mkVec [Some 1; Some 3; Some 4; Some 5; Some 2] 5 in
  let d := drain_filter v [Yes; No; No; Yes; Boom; No] 4 in
  contents (df_vec d) = [3; 4] /\ df_taken d = [1; 5] /\ df_panicked d = true.
Proof. vm_compute. repeat split; reflexivity. Qed.

Print Assumptions C16_drain_filter_no_double_drop.
Print Assumptions C16_drain_filter_nodup.
Print Assumptions C16_truncate_panicking_drop.

(* ---- dedup_by / dedup_by_key / dedup (VecDedup.v) ---- *)
From BV Require Import VecDedup.
From Coq Require Import Permutation.

(* for every script of closure answers — a panic at any invocation included — the vector
   afterwards holds `kept`, the destructors that ran are the drops, and together they are
   exactly the old contents; if the closure panicked nothing was dropped and every element
   is still in the vector exactly once *)
Theorem C16_dedup_by_panic_safe : forall e v c ans,
  repr e v c ->
  exists kept, repr e (dedup_state v ans) kept /\
    Permutation (kept ++ f_drops (snd (dedup_by v ans))) c /\
    (fst (dedup_by v ans) = Panic PCallback -> f_drops (snd (dedup_by v ans)) = [] /\ Permutation kept c).
Proof. exact dedup_by_safe. Qed.
Print Assumptions C16_dedup_by_panic_safe.

(* ---------- String::retain with a predicate that panics at any call (StringRetain.v): the loop of
   string.rs at buffer level, the guard's destructor cutting the string to idx - del_bytes.
   For every valid text and every script of answers (keep / delete / panic) the string afterwards
   holds exactly the characters kept before the panic: it is valid UTF-8 ---------- *)
From BV Require Import Utf8 Utf8Facts StringRetain.
Theorem C16_string_retain_panic_safe : forall s script, Valid s ->
  fst (retain_run s script) = concat (retain_spec (chars s) script) /\
  snd (retain_run s script) = panics (chars s) script /\
  Valid (fst (retain_run s script)).
Proof. exact retain_run_spec. Qed.

(* the values that loop is written with are the source's (LeafActual.v, regenerated on every run):
   the guard's new length, the test for moving, source, destination and length of the move *)
From BV Require Import RustSem LeafActual LeafActualOk VecSourceOk StringSourceOk.
From Coq Require Import String.
Theorem C16_source_string_retain : forall base idx del w f, del <= idx -> base + idx < W ->
  call_fn src_fns [("self"%string, vguard base idx del)] "string_retain_guard_len" [f] = RustSem.Ret (VN (idx - del)) /\
  let en := [("guard"%string, vguard base idx del); ("ch"%string, vch w)] in
  call_fn src_fns en "string_retain_must_move" [f] = RustSem.Ret (VB (0 <? del)) /\
  call_fn src_fns en "string_retain_copy_src" [f] = RustSem.Ret (VN (base + idx)) /\
  call_fn src_fns en "string_retain_copy_dst" [f] = RustSem.Ret (VN (base + (idx - del))) /\
  call_fn src_fns en "string_retain_copy_len" [f] = RustSem.Ret (VN w).
Proof. exact src_string_retain_ok. Qed.

(* and the statements around them: the guard is created with idx = del_bytes = 0 before the loop,
   the callback runs before either counter moves, idx advances after it, the guard is dropped at
   the end (and by unwinding) *)
Theorem C16_source_string_retain_frames :
  Forall (fun n => lookup n src_frames_string = Some true)
    ["string_retain_guard_sets_len"; "string_retain_guard_set_len_call"; "string_retain_loop";
     "string_retain_advances_after_callback"]%string.
Proof. repeat (constructor; [vm_compute; reflexivity|]). constructor. Qed.

Print Assumptions C16_string_retain_panic_safe.
Print Assumptions C16_source_string_retain.
Print Assumptions C16_source_string_retain_frames.

(* ---------- Vec::resize / extend_with when Clone panics at the (j+1)-th call (VecPanic.v): the
   vector holds its old contents followed by exactly the j clones made so far, the value passed in
   is dropped exactly once (by the unwinding) and is not reachable, nothing is in two places ---------- *)
From BV Require Import VecModel VecFacts VecPanic.
Theorem C16_resize_clone_panic : forall e v c new_len x next_id j v1,
  repr e v c -> v_len v < new_len -> reserve e v (new_len - v_len v) false = Ret v1 ->
  (j < nn (new_len - v_len v) - 1)%nat ->
  let '(_, v', f) := resize_clone_panic e v new_len x next_id j in
  let clones := map (fun i => next_id + N.of_nat i) (seq 0 j) in
  repr e v' (c ++ clones) /\
  f_drops f = [x] /\ f_clones f = N.of_nat j /\
  Permutation (contents v' ++ f_drops f) (c ++ clones ++ [x]).
Proof. exact resize_clone_panic_spec. Qed.

Theorem C16_resize_clone_panic_no_double_drop : forall e v c new_len x next_id j v1,
  repr e v c -> v_len v < new_len -> reserve e v (new_len - v_len v) false = Ret v1 ->
  (j < nn (new_len - v_len v) - 1)%nat ->
  NoDup (c ++ map (fun i => next_id + N.of_nat i) (seq 0 j) ++ [x]) ->
  let '(_, v', f) := resize_clone_panic e v new_len x next_id j in
  NoDup (contents v' ++ f_drops f) /\ ~ In x (contents v').
Proof. exact resize_clone_panic_nodup. Qed.

Print Assumptions C16_resize_clone_panic.
Print Assumptions C16_resize_clone_panic_no_double_drop.

(* extend / extend_from_slice when the iterator or Clone panics after j items: exactly those j
   items were pushed; the panic state is a state of the normal run *)
Theorem C16_extend_panic : forall e v c hint xs j v',
  repr e v c -> extend_iter e v hint (firstn j xs) = Ret v' ->
  repr e v' (c ++ firstn j xs) /\
  extend_iter e v hint xs =
    fold_left (fun acc x => match acc with Panic k => Panic k | Ret w => push e w x end) (skipn j xs) (Ret v').
Proof. exact extend_panic_spec. Qed.
Print Assumptions C16_extend_panic.

(* ---------- the loop of Vec::truncate as /repo's source has it (TruncWalkOk.v; the `for` statement
   translated on every run): each round lowers the guard's length, steps the pointer back and only
   then runs the destructor, which may panic.  For every count and every script of returning /
   panicking destructors the run is the function trun, and trun is VecModel.truncate_loop: elements
   dropped from the back, the length already lowered when a destructor runs, a panic stops it there
   (so the panicking element is outside the vector and is not dropped again) ---------- *)
From BV Require Import DedupWalkOk TruncWalkOk.
Theorem C16_source_truncate_loop : forall len cur base tr sc f, len <= cur -> base + cur < W ->
  (N.to_nat (cur - len) <= List.length sc)%nat ->
  let '(t, q, b) := trun (N.to_nat (cur - len)) (base + cur) sc in
  exec src_fns (S (S (S (S (S f))))) (tenv len cur (base + cur)) tr sc tloop =
  if b then XPanic (tenv len cur q) (List.app tr t)
  else XOk (tenv len cur q) (List.app tr t) (skipn (N.to_nat (cur - len)) sc).
Proof. exact loop_is_trun. Qed.

Theorem C16_source_truncate_loop_is_the_model : forall j buf boom base target cur acc,
  (j <= cur)%nat ->
  let '(t, q, b) := trun j (base + N.of_nat cur) (script_for buf boom cur j) in
  truncate_loop buf boom target cur j acc = ((cur - decs_of t)%nat, List.app acc (drops_of base buf t), b) /\
  q = base + N.of_nat (cur - decs_of t).
Proof. exact trun_is_truncate_loop. Qed.

Print Assumptions C16_source_truncate_loop.
Print Assumptions C16_source_truncate_loop_is_the_model.

(* a panicking initialiser closure inside alloc_slice_fill_with / try_alloc_slice_fill_with (the loop
   translated from /repo's source, FillWalkOk.v): the closure's (k+1)-th call panics -> indices
   0..k-1 were asked and stored, index k was asked and nothing stored for it, nothing else happened.
   The slice was never handed out, so no destructor can run on the k values (they leak in the arena) *)
From BV Require Import FillWalkOk.
Theorem C16_fill_closure_panic : forall k j dst i sc,
  (k < j)%nat -> forallb returns (firstn k sc) = true -> nth k sc (Some true) = None ->
  frun dst j i sc = (List.app (filled dst k i) [e_ask (i + N.of_nat k)], i + N.of_nat k, true).
Proof. exact frun_panics_at. Qed.
Print Assumptions C16_fill_closure_panic.

(* ---------- Vec::extend_with (behind Vec::resize) as /repo's source has it: the whole function body
   translated by tools/rs2v.py on every run (LeafActual.src_procs, ExtendWalkOk.v).  For every n,
   vector and script of returning / panicking clones the translated procedure is the function
   xwhole: reserve first; n - 1 times a clone, its store through the pointer, the pointer one on, and
   only then the guard's length one up; last the value itself.  When the (k+1)-th clone panics:
   exactly k stores, at the k addresses after the old contents, and exactly k increments — the
   vector owns the old contents and the k clones, as VecPanic.resize_clone_panic has it ---------- *)
From BV Require Import ExtendWalkOk.
Theorem C16_source_extend_with : forall len base n tr sc f, base + len + n < W ->
  (N.to_nat n <= List.length sc)%nat ->
  let '(t, q, b, rest) := xwhole len base n sc in
  exec src_fns (S (S (S (S (S (S (S (S (S f))))))))) (xenv0 len base n) tr sc xproc =
  if b then XPanic (xenv len base n q) (List.app tr t) else XOk (xenv len base n q) (List.app tr t) rest.
Proof. exact proc_is_xwhole. Qed.

Theorem C16_extend_with_clone_panic : forall k j p sc,
  (k < j)%nat -> forallb ExtendWalkOk.returns (firstn k sc) = true -> nth k sc (Some true) = None ->
  xrun j p sc = (List.app (cloned k p) [e_next], p + N.of_nat k, true, skipn (S k) sc) /\
  count "write" (cloned k p) = k /\ count "increment_len" (cloned k p) = k /\
  map (fun e : effect => snd e) (filter (fun e : effect => String.eqb (fst e) "write") (cloned k p))
    = map (fun i => [VN (p + N.of_nat i)]) (seq 0 k).
Proof.
  intros k j p sc H1 H2 H3. split; [apply xrun_panics_at; assumption|].
  destruct (cloned_counts k p) as (A & B & _ & D). auto.
Qed.

Print Assumptions C16_source_extend_with.
Print Assumptions C16_extend_with_clone_panic.

(* ---------- the loop of DrainFilter::next (behind drain_filter and retain) as /repo's source has it:
   translated by tools/rs2v.py on every run (LeafActual.src_procs, DrainFilterWalkOk.v).  For every
   state and script one call of next() is the function nrun — idx and del are both advanced before the
   predicate is asked, so a panicking predicate leaves the element counted as removed (leaked, never
   duplicated) — and nrun is VecModel.df_next, to which the C16 theorems about drain_filter apply ---------- *)
From BV Require Import DrainFilterWalkOk.
Theorem C16_source_drain_filter_next : forall n sc base ol idx del ti tv ts td tr extra,
  N.to_nat (ol - idx) = n -> idx <= ol -> del <= idx -> base + ol < W -> (n <= List.length sc)%nat ->
  let '(t, i2, d2, e, rest) := nrun base n idx del sc in
  exists ti' tv' ts' td',
    exec src_fns (DrainFilterWalkOk.lfuel n extra) (nenv base ol idx del ti tv ts td) tr sc nloop =
    match e with
    | NItem _ => XRet (nenv base ol i2 d2 ti' tv' ts' td') (List.app tr t) rest
    | NBoom => XPanic (nenv base ol i2 d2 ti' tv' ts' td') (List.app tr t)
    | NDone => XOk (nenv base ol i2 d2 ti' tv' ts' td') (List.app tr t) rest
    end.
Proof. exact next_is_nrun. Qed.

Theorem C16_source_drain_filter_next_is_the_model : forall n ans base buf ol idx del fuel,
  (ol - idx = n)%nat -> (idx <= ol)%nat -> (del <= idx)%nat -> (n <= List.length ans)%nat -> (n < fuel)%nat ->
  let '(t, i2, d2, e, rest) := nrun base n (N.of_nat idx) (N.of_nat del) (map DrainFilterWalkOk.script_of ans) in
  let '(buf', i', d', ans', r) := df_next buf ol idx del ans fuel in
  buf' = apply_copies base t buf /\ N.of_nat i' = i2 /\ N.of_nat d' = d2 /\
  r = res_of buf' base e /\ map DrainFilterWalkOk.script_of ans' = rest.
Proof.
  intros n ans base buf ol idx del fuel H1 H2 H3 H4 H5.
  exact (nrun_is_df_next n ans base buf ol idx del fuel H1 H2 H3 H4 H5 (fun _ _ _ _ => I)).
Qed.

Print Assumptions C16_source_drain_filter_next.
Print Assumptions C16_source_drain_filter_next_is_the_model.

(* the stores and increments of the translated extend_with ARE the model's state after a panicking
   clone: k values written from element position pos give VecModel.write_all buf pos vals (the buffer
   of VecPanic.resize_clone_panic) and k increments give its length *)
Theorem C16_extend_with_trace_is_the_model : forall k base pos vals buf, List.length vals = k ->
  apply_writes base (cloned k (base + N.of_nat pos)) vals buf = write_all buf pos vals /\
  count "increment_len" (cloned k (base + N.of_nat pos)) = k.
Proof. exact cloned_is_write_all. Qed.
Print Assumptions C16_extend_with_trace_is_the_model.
