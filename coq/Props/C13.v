(* C13 — collections::Vec behaves exactly like std's Vec (model part). *)
From BV Require Import Word WordFacts VecModel VecFacts.
From Coq Require Import Lia.

(* [repr e v c]: the model vector v represents the list c (std's semantics is
   stated directly on lists). Each operation on v is the list operation on c,
   for all indices, in- and out-of-range. *)
Theorem C13_push : forall e v c x v',
  repr e v c -> push e v x = Ret v' -> repr e v' (c ++ [x]).
Proof. exact push_spec. Qed.

Theorem C13_pop : forall e v c, repr e v c ->
  match c with
  | [] => pop v = (v, None)
  | _ => exists c0 x, c = c0 ++ [x] /\ snd (pop v) = Some x /\ repr e (fst (pop v)) c0
  end.
Proof. exact pop_spec. Qed.

Theorem C13_insert : forall e v c i x, repr e v c ->
  match insert e v i x with
  | Ret v' => i <= v_len v /\ repr e v' (firstn (nn i) c ++ x :: skipn (nn i) c)
  | Panic PIndex => v_len v < i
  | Panic _ => i <= v_len v
  end.
Proof. exact insert_spec. Qed.

Theorem C13_remove : forall e v c i, repr e v c ->
  match remove v i with
  | Ret (v', x) => i < v_len v /\ x = nth (nn i) c 0 /\ repr e v' (firstn (nn i) c ++ skipn (nn i + 1) c)
  | Panic _ => v_len v <= i
  end.
Proof. exact remove_spec. Qed.

Theorem C13_swap_remove : forall e v c i, repr e v c ->
  match swap_remove v i with
  | Ret (v', x) => i < v_len v /\ x = nth (nn i) c 0 /\
                   repr e v' (removelast (firstn (nn i) c ++ last c 0 :: skipn (nn i + 1) c))
  | Panic _ => v_len v <= i
  end.
Proof. exact swap_remove_spec. Qed.

Theorem C13_truncate : forall e v c n v', repr e v c ->
  fst (truncate v n []) = Ret v' -> repr e v' (firstn (Nat.min (nn n) (length c)) c).
Proof.
  intros e v c n v' R H. destruct (truncate_spec e v c n [] R) as (m & Rm & _ & _ & Hm).
  destruct (Hm v' H) as [-> ->]. exact Rm.
Qed.

(* capacity: never below the length; reserve keeps the elements and delivers what it promised *)
Theorem C13_cap_ge_len : forall e v c, repr e v c -> v_len v <= v_cap v.
Proof. exact repr_cap_ge_len. Qed.

Theorem C13_reserve_post : forall e v c extra exact v',
  repr e v c -> reserve e v extra exact = Ret v' ->
  repr e v' c /\ v_len v + extra <= v_cap v' /\ v_cap v <= v_cap v'.
Proof. exact reserve_spec. Qed.

(* retain / drain_filter: the elements are partitioned, none is lost or duplicated *)
Theorem C13_drain_filter_partition : forall e v c ans take,
  repr e v c -> (length c <= length ans)%nat ->
  let d := drain_filter v ans take in
  exists kept leaked, repr e (df_vec d) kept /\
    Permutation.Permutation (kept ++ df_taken d ++ df_dropped d ++ leaked) c /\
    (df_panicked d = false -> leaked = []).
Proof. exact drain_filter_safe. Qed.
(* Not theorems (decided by the differential against std::vec::Vec only): splice, dedup_by,
   clone, into_iter, conversions; zero-sized element types. *)

Example C13_witness :
  let e := mkEcfg 24 8 in
  match fold_left (fun acc x => match acc with Ret w => push e w x | p => p end) [1; 2; 3; 4; 5]
                  (Ret (mkVec [] 0)) with
  | Ret v =>
      contents v = [1; 2; 3; 4; 5] /\ v_cap v = 8 /\
      (match insert e v 2 9 with Ret w => contents w | _ => [] end) = [1; 2; 9; 3; 4; 5] /\
      (match remove v 7 with Panic _ => true | _ => false end) = true
  | Panic _ => False
  end.
Proof. vm_compute. repeat split; reflexivity. Qed.

Print Assumptions C13_push.
Print Assumptions C13_pop.
Print Assumptions C13_insert.
Print Assumptions C13_remove.
Print Assumptions C13_swap_remove.
Print Assumptions C13_truncate.
Print Assumptions C13_cap_ge_len.
Print Assumptions C13_reserve_post.
Print Assumptions C13_drain_filter_partition.

(* ---- more operations refine the list semantics (VecFacts2.v) ---- *)
From BV Require Import VecFacts2.

(* extend_from_slice / append / extend with an exact hint: the elements are appended in order *)
Theorem C13_extend_copy : forall e v c xs v',
  repr e v c -> extend_copy e v xs = Ret v' -> repr e v' (c ++ xs).
Proof. exact extend_copy_spec. Qed.

(* Extend::extend with any size hint, honest or not: same contents *)
Theorem C13_extend_iter : forall e v c hint xs v',
  repr e v c -> extend_iter e v hint xs = Ret v' -> repr e v' (c ++ xs).
Proof. exact extend_iter_spec. Qed.

Theorem C13_extend_hint_irrelevant : forall e v c h1 h2 xs v1 v2,
  repr e v c -> extend_iter e v h1 xs = Ret v1 -> extend_iter e v h2 xs = Ret v2 ->
  contents v1 = contents v2.
Proof. exact extend_iter_hint_irrelevant. Qed.

Theorem C13_split_off : forall e v c at_ v1 v2,
  ecfg_ok e -> repr e v c -> split_off e v at_ = Ret (v1, v2) ->
  repr e v1 (firstn (nn at_) c) /\ repr e v2 (skipn (nn at_) c) /\ at_ <= v_len v.
Proof. exact split_off_spec. Qed.

(* drain(range): the vector keeps what lies outside the range; what the caller took from the
   front, what was dropped unseen and what it took from the back are the range, in order *)
Theorem C13_drain : forall e v c s e0 front back d,
  repr e v c -> drain v s e0 front back = Ret d ->
  exists a b, drain_range v s e0 = Ret (a, b) /\
    repr e (d_vec d) (firstn (nn a) c ++ skipn (nn b) c) /\
    d_taken_front d ++ d_dropped d ++ rev (d_taken_back d) = firstn (nn b - nn a) (skipn (nn a) c).
Proof. exact drain_spec. Qed.

Theorem C13_resize_grow : forall e v c new_len x next_id boom v',
  repr e v c -> v_len v < new_len -> fst (resize e v new_len x next_id boom) = Ret v' ->
  exists clones, length clones = (nn (new_len - v_len v) - 1)%nat /\
    repr e v' (c ++ clones ++ [x]) /\ v_len v' = new_len /\
    f_clones (snd (resize e v new_len x next_id boom)) = new_len - v_len v - 1 /\
    f_drops (snd (resize e v new_len x next_id boom)) = [].
Proof. exact resize_grow_spec. Qed.

Theorem C13_resize_shrink : forall e v new_len x next_id boom,
  new_len <= v_len v ->
  fst (resize e v new_len x next_id boom) = fst (truncate v new_len boom) /\
  f_drops (snd (resize e v new_len x next_id boom)) = f_drops (snd (truncate v new_len boom)) ++ [x].
Proof. exact resize_shrink_spec. Qed.

Print Assumptions C13_extend_copy.
Print Assumptions C13_extend_iter.
Print Assumptions C13_extend_hint_irrelevant.
Print Assumptions C13_split_off.
Print Assumptions C13_drain.
Print Assumptions C13_resize_grow.
Print Assumptions C13_resize_shrink.

(* ---- splice (VecSplice.v): Drain over the range, then Splice::drop's fill / move_tail / collect ---- *)
From BV Require Import VecSplice.

(* whatever the replacement iterator's size hints claim, v.splice(range, xs) leaves
   c[..a] ++ xs ++ c[b..] and removes exactly c[a..b] *)
Theorem C13_splice : forall e v c s e0 xs h0 h1 r,
  repr e v c -> splice e v s e0 xs h0 h1 = Ret r ->
  exists a b, drain_range v s e0 = Ret (a, b) /\
    repr e (s_vec r) (firstn (nn a) c ++ xs ++ skipn (nn b) c) /\
    s_removed r = firstn (nn b - nn a) (skipn (nn a) c).
Proof. exact splice_spec. Qed.

Theorem C13_splice_hints_irrelevant : forall e v c s e0 xs h0 h1 h0' h1' r r',
  repr e v c -> splice e v s e0 xs h0 h1 = Ret r -> splice e v s e0 xs h0' h1' = Ret r' ->
  contents (s_vec r) = contents (s_vec r') /\ s_removed r = s_removed r'.
Proof. exact splice_hints_irrelevant. Qed.

Example C13_splice_example :
  let e := mkEcfg 8 8 in
  let v := mkVec [Some 1; Some 2; Some 3; Some 4; Some 5; None] 5 in
  match splice e v (Incl 1) (Excl 3) [10; 11; 12; 13] 1 7 with
  | Ret r => contents (s_vec r) = [1; 10; 11; 12; 13; 4; 5] /\ s_removed r = [2; 3]
  | Panic _ => False
  end.
Proof. vm_compute. split; reflexivity. Qed.

Print Assumptions C13_splice.
Print Assumptions C13_splice_hints_irrelevant.

(* ---- dedup_by / dedup_by_key / dedup (VecDedup.v): what stays is what std documents ---- *)
From BV Require Import VecDedup.
Theorem C13_dedup_by : forall e v x0 xs ans,
  repr e v (x0 :: xs) -> no_boom ans -> (length xs <= length ans)%nat ->
  repr e (dedup_state v ans) (x0 :: dedup_keep xs ans) /\
  Permutation.Permutation ((x0 :: dedup_keep xs ans) ++ f_drops (snd (dedup_by v ans))) (x0 :: xs).
Proof. exact dedup_by_spec. Qed.

Example C13_dedup_example :
  dedup_keep [2; 3; 4; 5] [Yes; No; Yes; No] = [3; 5].
Proof. reflexivity. Qed.
Print Assumptions C13_dedup_by.

(* ---- tie to the source text: the index checks, memmove arguments and new lengths of Vec::insert /
   remove / split_off and the range resolution and checks of Vec::drain are extracted from vec.rs on
   every run (tools/rs2v.py -> LeafActual.v) and equal what VecModel.insert / remove / split_off /
   drain_range compute ---- *)
From BV Require Import RustSem LeafActual LeafActualOk VecSourceOk.
From Coq Require Import String.
Open Scope string_scope.
Open Scope N_scope.

Theorem C13_source_insert : forall len cap base i x, i <= len -> base + i + 1 < W -> len + 1 < W ->
  let en := vself len cap base in
  let args := [VN i; x] in
  call_fn src_fns en "vec_insert_index_ok" args = RustSem.Ret (VB (i <=? len)) /\
  call_fn src_fns en "vec_insert_must_grow" args = RustSem.Ret (VB (len =? cap)) /\
  call_fn src_fns en "vec_insert_copy_src" args = RustSem.Ret (VN (base + i)) /\
  call_fn src_fns en "vec_insert_copy_dst" args = RustSem.Ret (VN (base + i + 1)) /\
  call_fn src_fns en "vec_insert_copy_len" args = RustSem.Ret (VN (len - i)) /\
  call_fn src_fns en "vec_insert_new_len" args = RustSem.Ret (VN (len + 1)).
Proof. exact src_vec_insert_ok. Qed.

Theorem C13_source_index_checks : forall len cap base i x,
  call_fn src_fns (vself len cap base) "vec_insert_index_ok" [VN i; x] = RustSem.Ret (VB (negb (len <? i))) /\
  call_fn src_fns (vself len cap base) "vec_remove_index_ok" [VN i] = RustSem.Ret (VB (i <? len)).
Proof. intros. split; [apply src_vec_insert_check | apply src_vec_remove_check]. Qed.

Theorem C13_source_remove : forall len cap base i, i < len -> base + i + 1 < W ->
  let en := vself len cap base in
  let args := [VN i] in
  call_fn src_fns en "vec_remove_index_ok" args = RustSem.Ret (VB (i <? len)) /\
  call_fn src_fns en "vec_remove_copy_src" args = RustSem.Ret (VN (base + i + 1)) /\
  call_fn src_fns en "vec_remove_copy_dst" args = RustSem.Ret (VN (base + i)) /\
  call_fn src_fns en "vec_remove_copy_len" args = RustSem.Ret (VN (len - i - 1)) /\
  call_fn src_fns en "vec_remove_new_len" args = RustSem.Ret (VN (len - 1)).
Proof. exact src_vec_remove_ok. Qed.

Theorem C13_source_split_off : forall len cap base at_, at_ <= len -> base + at_ < W ->
  let en := vself len cap base in
  call_fn src_fns en "vec_split_off_index_ok" [VN at_] = RustSem.Ret (VB (negb (len <? at_))) /\
  call_fn src_fns en "vec_split_off_other_len" [VN at_] = RustSem.Ret (VN (len - at_)) /\
  call_fn src_fns en "vec_split_off_copy_src" [VN at_] = RustSem.Ret (VN (base + at_)).
Proof. exact src_vec_split_off_ok. Qed.

(* drain: a bound of usize::MAX that would need +1 panics instead of wrapping (F10) *)
Theorem C13_source_drain_bounds : forall len cap base s e,
  let en := vself len cap base in
  call_fn src_fns en "vec_drain_start" [vrange s e] = opt_or_panic (range_start s) /\
  call_fn src_fns en "vec_drain_end" [vrange s e] = opt_or_panic (range_end e len).
Proof. exact src_drain_bounds_ok. Qed.

(* the statements around those expressions in insert / remove are the ones the model's steps stand for *)
Theorem C13_source_frames : forallb snd src_frames_vec = true /\ List.length src_frames_vec = 31%nat.
Proof. split; [exact src_frames_vec_ok | reflexivity]. Qed.

(* what RawVec hands to the arena when it reallocates or frees: nothing without a buffer, else the
   layout of the WHOLE buffer (cap elements — not the initialised prefix), which is the block the arena
   gave it (Word.layout_array of the capacity, the layout VecModel.reserve_internal asks for) *)
Theorem C13_source_rawvec_current_layout : forall es ea cap, es * cap < W ->
  call_fn src_fns [("self", VRec [("cap", VN cap)]); ("size_of_T", VN es); ("align_of_T", VN ea)] "current_layout" []
  = RustSem.Ret (if cap =? 0 then VNone else VSome (vlayout (mkLayout (es * cap) ea))).
Proof. exact src_current_layout_ok. Qed.

Theorem C13_current_layout_is_the_granted_block : forall es ea cap l,
  layout_array es ea cap = Some l -> l = mkLayout (es * cap) ea /\ es * cap < W.
Proof.
  intros es ea cap l H. unfold layout_array, checked_mul in H.
  destruct (es * cap <? W) eqn:E; [|discriminate].
  destruct (layout_ok (es * cap) ea); [|discriminate].
  split; [congruence | apply N.ltb_lt; exact E].
Qed.
Print Assumptions C13_source_rawvec_current_layout.
Print Assumptions C13_current_layout_is_the_granted_block.

Theorem C13_source_drain_checks : forall len cap base s e a b,
  range_start s = Some a -> range_end e len = Some b ->
  let en := vself len cap base in
  call_fn src_fns en "vec_drain_ordered" [vrange s e] = RustSem.Ret (VB (a <=? b)) /\
  call_fn src_fns en "vec_drain_in_range" [vrange s e] = RustSem.Ret (VB (b <=? len)) /\
  (b <= len -> call_fn src_fns en "vec_drain_tail_len" [vrange s e] = RustSem.Ret (VN (len - b))).
Proof. exact src_vec_drain_checks_ok. Qed.

Print Assumptions C13_source_insert.
Print Assumptions C13_source_index_checks.
Print Assumptions C13_source_remove.
Print Assumptions C13_source_split_off.
Print Assumptions C13_source_drain_bounds.
Print Assumptions C13_source_frames.
Print Assumptions C13_source_drain_checks.

(* Drain::drop: the tail moves down to the drain's start (only if there is one and it is not in
   place already) and the length becomes start + tail_len — drain's copy_within and new length *)
Theorem C13_source_drain_drop : forall base start tail_start tail_len,
  base + tail_start < W -> base + start < W -> start + tail_len < W ->
  let en := vdrain base start tail_start tail_len in
  call_fn src_fns en "vec_drain_drop_has_tail" [] = RustSem.Ret (VB (0 <? tail_len)) /\
  call_fn src_fns en "vec_drain_drop_must_move" [] = RustSem.Ret (VB (negb (tail_start =? start))) /\
  call_fn src_fns en "vec_drain_drop_copy_src" [] = RustSem.Ret (VN (base + tail_start)) /\
  call_fn src_fns en "vec_drain_drop_copy_dst" [] = RustSem.Ret (VN (base + start)) /\
  call_fn src_fns en "vec_drain_drop_copy_len" [] = RustSem.Ret (VN tail_len) /\
  call_fn src_fns en "vec_drain_drop_new_len" [] = RustSem.Ret (VN (start + tail_len)).
Proof. exact src_vec_drain_drop_ok. Qed.
Print Assumptions C13_source_drain_drop.

Theorem C13_source_push_pop_append : forall len cap base x count other, base + len < W ->
  let en := vself2 len cap base in
  call_fn src_fns en "vec_push_must_grow" [x] = RustSem.Ret (VB (len =? cap)) /\
  call_fn src_fns en "vec_push_slot" [x] = RustSem.Ret (VN (base + len)) /\
  call_fn src_fns en "vec_pop_empty" [] = RustSem.Ret (VB (len =? 0)) /\
  let en2 := ("count"%string, VN count) :: en in
  call_fn src_fns en2 "vec_append_reserves" [other] = RustSem.Ret (VN count) /\
  call_fn src_fns en2 "vec_append_copy_dst" [other] = RustSem.Ret (VN (base + len)) /\
  call_fn src_fns en2 "vec_append_copy_len" [other] = RustSem.Ret (VN count).
Proof. exact src_vec_push_pop_append_ok. Qed.
Print Assumptions C13_source_push_pop_append.

Theorem C13_source_drain_filter_drop : forall old_len del, del <= old_len ->
  call_fn src_fns [("self"%string, VRec [("old_len"%string, VN old_len); ("del"%string, VN del)])] "vec_drain_filter_drop_new_len" []
  = RustSem.Ret (VN (old_len - del)).
Proof. exact src_vec_drain_filter_drop_ok. Qed.
Print Assumptions C13_source_drain_filter_drop.

(* Splice: where Drain::fill writes and how long the gap is; what Drain::move_tail reserves and moves *)
Theorem C13_source_splice : forall base len tail_start tail_len extra it,
  len <= tail_start -> base + tail_start + extra < W -> tail_start + tail_len < W ->
  let en := vdrain base len tail_start tail_len in
  call_fn src_fns en "vec_splice_fill_start" [it] = RustSem.Ret (VN len) /\
  call_fn src_fns en "vec_splice_fill_end" [it] = RustSem.Ret (VN tail_start) /\
  call_fn src_fns en "vec_splice_fill_at" [it] = RustSem.Ret (VN (base + len)) /\
  call_fn src_fns en "vec_splice_fill_gap" [it] = RustSem.Ret (VN (tail_start - len)) /\
  call_fn src_fns en "vec_splice_used_capacity" [VN extra] = RustSem.Ret (VN (tail_start + tail_len)) /\
  call_fn src_fns en "vec_splice_reserve_extra" [VN extra] = RustSem.Ret (VN extra) /\
  call_fn src_fns en "vec_splice_new_tail_start" [VN extra] = RustSem.Ret (VN (tail_start + extra)) /\
  call_fn src_fns en "vec_splice_move_src" [VN extra] = RustSem.Ret (VN (base + tail_start)) /\
  call_fn src_fns en "vec_splice_move_dst" [VN extra] = RustSem.Ret (VN (base + (tail_start + extra))) /\
  call_fn src_fns en "vec_splice_move_len" [VN extra] = RustSem.Ret (VN tail_len).
Proof. exact src_vec_splice_ok. Qed.
Print Assumptions C13_source_splice.

(* ---- into_iter and clone (VecIter.v) ---- *)
From BV Require Import VecIter.
Close Scope string_scope.
Theorem C13_into_iter : forall e v c front back, repr e v c ->
  let r := into_iter v front back in
  c_taken_front r ++ c_left r ++ rev (c_taken_back r) = c /\
  c_taken_front r = firstn front c /\
  c_taken_back r = firstn back (rev (skipn front c)).
Proof. exact into_iter_spec. Qed.

Theorem C13_clone : forall e v c next v',
  ecfg_ok e -> repr e v c -> clone_vec e v next = VecModel.Ret v' ->
  repr e v' (fresh_ids next (List.length c)) /\ v_len v' = v_len v.
Proof. exact clone_spec. Qed.
Print Assumptions C13_into_iter.
Print Assumptions C13_clone.

(* the conversions that give the buffer away: the slice is the contents, in order; nothing is dropped *)
Theorem C13_into_slice : forall e v c, repr e v c -> into_slice v = (c, no_eff).
Proof. exact into_slice_spec. Qed.
Print Assumptions C13_into_slice.

(* ---------- the loop behind dedup_by / dedup_by_key / dedup, as /repo's source has it.  tools/rs2v.py
   translates the `while` statement of partition_dedup_by into the statement language of RustSem on
   every run (LeafActual.src_procs); the caller's closure is asked through a script (None: it panics).
   For every slice length and every script the translated loop asks the same questions (candidate
   first, last kept element second), makes the same swaps and ends with the same next_write as
   VecModel.dedup_loop, and a panic of the closure leaves exactly the swaps made so far ---------- *)
From BV Require Import DedupWalkOk.
Theorem C13_source_dedup_loop : forall n ans base len nr nw t1 t2 t3 tr extra,
  N.to_nat (len - nr) = n -> nr <= len -> 1 <= nw -> nw <= nr -> base + len < W -> (n <= List.length ans)%nat ->
  let '(t, r, w, p) := drun base n nr nw ans in
  exists t1' t2' t3',
    exec src_fns (lfuel n extra) (denv base len nr nw t1 t2 t3) tr (map script_of ans) dloop =
    if p then XPanic (denv base len r w t1' t2' t3') (List.app tr t)
    else XOk (denv base len r w t1' t2' t3') (List.app tr t) (map script_of (skipn n ans)).
Proof. exact loop_is_drun. Qed.

Theorem C13_source_dedup_loop_is_the_model : forall n ans base len nr nw buf fuel,
  N.to_nat (len - nr) = n -> nr <= len -> 1 <= nw -> nw <= nr -> (n <= List.length ans)%nat -> (n <= fuel)%nat ->
  let '(t, r, w, p) := drun base n nr nw ans in
  dedup_loop buf (N.to_nat len) (N.to_nat nr) (N.to_nat nw) ans fuel = (apply_swaps base t buf, N.to_nat w, p).
Proof. exact drun_is_dedup_loop. Qed.

Print Assumptions C13_source_dedup_loop.
Print Assumptions C13_source_dedup_loop_is_the_model.
