(* C09 — Fallible methods never panic; failure changes nothing. *)
From BV Require Import Word WordFacts ArenaModel ArenaPolicy ArenaSpec ArenaInv ArenaSafe ArenaPolicyFacts
     ConstsActual ConstsActualOk.
From Coq Require Import Lia.

(* the slow path of try_alloc_layout under the crate's own policy always comes
   back with a chunk or with a refusal: it never panics and never diverges,
   for every pattern of allocator answers (BAD_STARVED only says that the
   recorded answer list was shorter than the requests made) *)
Theorem C09_try_total :
  forall m e b l answers, In m supported -> lay_ok l = true ->
    match fst (policy (actual m e) answers b (ForLayout l)) with
    | AcqBad w => w = BAD_STARVED
    | _ => True
    end.
Proof.
  intros m e b l answers Hm Hl.
  apply policy_total; [apply actual_policy_ok; exact Hm | exact Hl | apply actual_default_small].
Qed.

Theorem C09_loop_terminates :
  forall k b l answers, l_size l < W -> k_default k < W ->
    snd (slow_policy k b l answers) <> PDiverge.
Proof. exact slow_policy_terminates. Qed.

(* when an allocation-like operation reports Err without having been granted a
   chunk, the arena is exactly as before (same chunks, fingers, limit) *)
Theorem C09_err_is_noop :
  forall k A b l,
    o_res (snd (try_alloc k A b l)) = RErr ->
    ~ In FLAG_SLOW_FAST_FAILED (o_flags (snd (try_alloc k A b l))) ->
    fst (try_alloc k A b l) = b.
Proof.
  intros k A b l. unfold try_alloc.
  destruct (fast k b l) as [[p b1]|]; cbn [fst snd o_res o_flags]; [discriminate|].
  unfold slow. destruct (A b (ForLayout l)) as [a reqs]. destruct a as [|w|g data]; cbn [fst snd o_res o_flags];
    try reflexivity; try discriminate.
  destruct (fast k _ l) as [[p b2]|]; cbn [fst snd o_res o_flags]; [discriminate|].
  intros _ H. exfalso. apply H. left. reflexivity.
Qed.

Example C09_witness :
  (* zero-sized over-aligned request, small limit, allocator refusing everything:
     the policy gives up after finitely many requests *)
  let k := actual 1 4096 in
  let b := mkBump [] (Some 10) [] in
  policy k (repeat None 20) b (ForLayout (mkLayout 0 4096)) = (AcqNone, [(48, 4096)]).
Proof. vm_compute. reflexivity. Qed.

Print Assumptions C09_try_total.
Print Assumptions C09_loop_terminates.
Print Assumptions C09_err_is_noop.

(* ---------- every operation that can report Err (ArenaErr.v) ---------- *)
From BV Require Import ArenaErr.
Theorem C09_err_is_noop_every_operation : forall k A b o,
  match o with OAlloc _ | OGrow _ _ _ _ | OShrink _ _ _ | ORealloc _ _ _ | OWithCapacity _ => True | _ => False end ->
  clean_err (snd (step k A b o)) -> fst (step k A b o) = b.
Proof. exact err_is_noop. Qed.

Theorem C09_err_keeps_memory : forall k A b o,
  match o with OAlloc _ | OGrow _ _ _ _ | OShrink _ _ _ | ORealloc _ _ _ | OWithCapacity _ => True | _ => False end ->
  clean_err (snd (step k A b o)) ->
  held k (fst (step k A b o)) = held k b /\ chunks (fst (step k A b o)) = chunks b /\ limit (fst (step k A b o)) = limit b.
Proof. exact err_keeps_held. Qed.

(* after a refusal, a request that fits the current chunk is still served, in place, whatever the
   global allocator would answer *)
Theorem C09_err_then_fitting_request_succeeds : forall k A b o A' l p b1,
  match o with OAlloc _ | OGrow _ _ _ _ | OShrink _ _ _ | ORealloc _ _ _ | OWithCapacity _ => True | _ => False end ->
  clean_err (snd (step k A b o)) -> fast k b l = Some (p, b1) ->
  o_res (snd (try_alloc k A' (fst (step k A b o)) l)) = ROk p /\ o_reqs (snd (try_alloc k A' (fst (step k A b o)) l)) = [].
Proof. exact err_then_fitting_request. Qed.

Print Assumptions C09_err_is_noop_every_operation.
Print Assumptions C09_err_keeps_memory.
Print Assumptions C09_err_then_fitting_request_succeeds.
