(* C06 — reset() recycles the arena completely. *)
From BV Require Import Word WordFacts ArenaModel ArenaSpec ArenaInv ArenaSafe ArenaSafeThm ArenaStruct ArenaCap.
From Coq Require Import Lia.

Theorem C06_reset_state :
  forall k b c r, chunks b = c :: r ->
    let b' := fst (reset k b) in
    chunks b' = [mkChunk (c_data c) (c_nswf c) (c_align c) (c_foot c) (c_nswf c)] /\
    q_iter_chunks b' = [(c_foot c, 0)] /\
    held k b' = [chunk_block k c] /\
    q_chunk_capacity k b' = c_nswf c /\
    limit b' = limit b /\ tws b' = [].
Proof. exact reset_state. Qed.

Theorem C06_chunkless_noop :
  forall k b, chunks b = [] -> reset k b = (b, out_of RUnit).
Proof. exact reset_chunkless. Qed.

(* after reset the full usable capacity of the kept block can be handed out again,
   in any split into MIN_ALIGN-multiple requests, without one request to the global
   allocator — whatever acquirer (policy, limit, failing allocator) is in place *)
Theorem C06_full_capacity_reusable :
  forall k A b c r ls,
    cfg_ok k -> chunks b = c :: r -> chunk_ok k c ->
    Forall (small_req k) ls -> sumN (map l_size ls) <= c_nswf c ->
    snd (serve k A (fst (reset k b)) ls) = true.
Proof. exact reset_full_capacity. Qed.

(* the spec predicate evaluated on the implementation holds of the model *)
Theorem C06_sp_reset_ok :
  forall k b, Forall (chunk_ok k) (chunks b) ->
    let b' := fst (reset k b) in
    sp_reset_ok k (held k b) (held k b') (q_iter_chunks b') (q_chunk_capacity k b') = true.
Proof.
  intros k b Hok b'. unfold b', reset, held. destruct (chunks b) as [|c r] eqn:E.
  - cbn [fst map sp_reset_ok]. unfold q_iter_chunks. rewrite E. reflexivity.
  - cbn [fst chunks map q_iter_chunks sp_reset_ok].
    unfold gblock_eqb, chunk_block, g_addr, g_sz, g_al, q_chunk_capacity, cur_ptr, cur_start, c_foot.
    cbn [fst snd chunks c_data c_nswf c_align c_ptr]. rewrite !N.eqb_refl. cbn [andb].
    rewrite N.sub_diag, N.eqb_refl. cbn [andb].
    apply N.eqb_eq. lia.
Qed.

Example C06_witness :
  let k := mkCfg 48 16 64 448 4096 8 1000 in
  let b := run k fresh [(OWithCapacity 1, follow k [mkGreq 496 16 (Some 4096)]);
                        (OAlloc (mkLayout 600 1), follow k [mkGreq 1008 16 (Some 8192)])] in
  snd (serve k (follow k []) (fst (reset k b)) [mkLayout 400 8; mkLayout 560 1]) = true.
Proof. vm_compute. reflexivity. Qed.

Print Assumptions C06_reset_state.
Print Assumptions C06_chunkless_noop.
Print Assumptions C06_full_capacity_reusable.
Print Assumptions C06_sp_reset_ok.

(* ---------- the source tie: reset's statements and the value it assigns to allocated_bytes
   (LeafActual.v, regenerated from /repo on every run) ---------- *)
From BV Require Import RustSem ConstsActual LeafActual LeafActualOk.
From Coq Require Import String.
Theorem C06_source_frames :
  Forall (fun n => lookup n src_frames = Some true)
    ["reset_empty_is_noop"; "reset_frees_all_but_current"; "reset_finger_to_footer"]%string.
Proof. repeat (constructor; [vm_compute; reflexivity|]). constructor. Qed.

Theorem C06_source_reset_accounting : forall m start ptr lsize ab lim, start <= ptr -> actual_footer <= lsize ->
  call_fn src_fns (List.app (self_full start ptr lsize ab lim) (cenv m)) "reset_allocated_bytes" []
  = RustSem.Ret (VN (lsize - actual_footer)).
Proof. intros m start ptr lsize ab lim H1 H2. exact (proj2 (proj2 (src_getters_ok m start ptr lsize ab lim H1 H2))). Qed.
Print Assumptions C06_source_frames.
Print Assumptions C06_source_reset_accounting.
