(* C04 — Returned pointers honour the requested and the minimum alignment. *)
From BV Require Import Word WordFacts ArenaModel ArenaSpec ArenaInv ArenaSafe ArenaSafeThm
     ConstsActual ConstsActualOk.
From Coq Require Import Lia.

(* every pointer handed out by allocation, grow, shrink or realloc, from any
   state satisfying the invariant (fresh arenas without memory included), is
   non-null and aligned to the requested alignment and to MIN_ALIGN *)
Theorem C04_aligned :
  forall k A g o x a,
    cfg_ok k -> Inv k g -> wf_op k g o -> A_ok k A (fst g) ->
    handed_out o (o_res (snd (gstep k A g o))) = Some (x, a) ->
    0 < fst x /\ fst x mod a = 0 /\ fst x mod k_malign k = 0.
Proof. exact handed_out_aligned. Qed.

(* the invariant part: the bump finger of every chunk is MIN_ALIGN-aligned in
   every reachable state *)
Theorem C04_finger_aligned :
  forall k h c, cfg_ok k -> hist_ok k (fresh, []) h ->
    In c (chunks (fst (grun k (fresh, []) h))) -> c_ptr c mod k_malign k = 0.
Proof.
  intros k h c K HH Hc.
  destruct (grun_inv k (fresh, []) h K (Inv_fresh k) HH) as [(Hok & _) _].
  rewrite Forall_forall in Hok. destruct (Hok c Hc) as (_ & _ & _ & _ & _ & C6 & _). exact C6.
Qed.

(* the hypothesis cfg_ok is met by the crate's actual constants for every
   supported MIN_ALIGN, given only that the static EMPTY_CHUNK is placed at an
   address aligned to its type's alignment (rustc's obligation) *)
Theorem C04_actual_cfg_ok :
  forall m e, In m [1; 2; 4; 8; 16] ->
    0 < e -> e mod actual_empty_align = 0 -> e + actual_footer <= W ->
    cfg_ok (actual m e).
Proof. exact actual_cfg_ok. Qed.

(* with_min_align and friends refuse exactly the unsupported values *)
Theorem C04_ctor_refuses :
  forall m e, ctor_ok (actual m e) = true <-> In m [1; 2; 4; 8; 16].
Proof. exact actual_ctor_ok. Qed.

Example C04_witness :
  let k := actual 16 4096 in
  handed_out (OAlloc (mkLayout 0 4)) (o_res (snd (gstep k (follow k []) (fresh, []) (OAlloc (mkLayout 0 4)))))
  = Some ((4096, 0), 4).
Proof. vm_compute. reflexivity. Qed.

Print Assumptions C04_aligned.
Print Assumptions C04_finger_aligned.
Print Assumptions C04_actual_cfg_ok.
Print Assumptions C04_ctor_refuses.

(* ---- tie to the source text: the functions below are parsed from /repo/src on every run
   (tools/rs2v.py -> LeafActual.v) and evaluated by RustSem.eval ---- *)
From BV Require Import RustSem ConstsActual LeafActual LeafActualOk.
From Coq Require Import String.
Open Scope string_scope.
Open Scope N_scope.

Theorem C04_source_rounding : forall n d en, pow2 d -> d < W -> n < W ->
  call_fn src_fns en "round_up_to" [VN n; VN d] = Ret (vopt (round_up_to n d)) /\
  call_fn src_fns en "round_down_to" [VN n; VN d] = Ret (VN (rdown n d)) /\
  call_fn src_fns en "round_mut_ptr_down_to" [VN n; VN d] = Ret (VN (rdown n d)) /\
  call_fn src_fns en "is_pointer_aligned_to" [VN n; VN d] = Ret (VB (n =? rdown n d)).
Proof.
  exact (fun n d en Hp Hd Hn => conj (src_round_up_to_ok n d en Hp Hd)
    (conj (src_round_down_to_ok n d en Hp Hn) (conj (src_round_mut_ptr_down_to_ok n d en Hp Hn)
      (src_is_pointer_aligned_to_ok n d en Hp Hn)))).
Qed.
Print Assumptions C04_source_rounding.

Theorem C04_source_fast_path : forall m e0 start ptr l,
  pow2 m -> pow2 (l_align l) -> m < W -> l_align l < W -> ptr < W -> start <= ptr ->
  l_size l + (l_align l - 1) < W ->
  call_fn src_fns (List.app (self_chunk start ptr) (cenv m)) "try_alloc_layout_fast" [vlayout l]
  = Ret (vopt (fast_ptr (actual m e0) start ptr l)).
Proof. exact src_try_alloc_layout_fast_ok. Qed.
Print Assumptions C04_source_fast_path.
