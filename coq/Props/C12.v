(* C12 — The Allocator implementation obeys the allocator contract. *)
From BV Require Import Word WordFacts ArenaModel ArenaSpec ArenaInv ArenaSafe ArenaSafeThm ArenaMem.
From Coq Require Import Lia.

(* allocate / grow / grow_zeroed / shrink: the block returned fits the new layout
   (aligned, non-null), lies in held memory and overlaps no other live block *)
Theorem C12_block_fits :
  forall k A g o x a,
    cfg_ok k -> Inv k g -> wf_op k g o -> A_ok k A (fst g) ->
    handed_out o (o_res (snd (gstep k A g o))) = Some (x, a) ->
    0 < fst x /\ fst x mod a = 0 /\
    in_held_data k (fst (fst (gstep k A g o))) x /\
    Forall (bdisj x) (others k A g o).
Proof.
  intros k A g o x a K HI Hwf HA Hh.
  assert (Hnr : no_rewind o).
  { destruct o; try exact I. destruct ok; [exact I|]. cbn [handed_out] in Hh. discriminate. }
  destruct (handed_out_aligned k A g o x a K HI Hwf HA Hh) as (P0 & Pa & _).
  destruct (handed_out_placed k A g o x a K HI Hwf Hnr HA Hh) as (H1 & H2).
  conj; assumption.
Qed.

(* grow keeps the whole old block's bytes; shrink keeps the first new-size bytes *)
Theorem C12_grow_keeps_prefix :
  forall k A b rest p old new q,
    cfg_ok k -> ChunksInv k (chunks b) -> BlocksInv k (chunks b) rest -> A_ok k A b ->
    In (p, l_size old) rest -> l_size old <= l_size new -> pow2 (l_align new) -> pow2 (l_align old) ->
    o_res (snd (grow k A b p old new)) = ROk q ->
    moves_prefix (snd (grow k A b p old new)) p q (l_size old).
Proof. intros. eapply grow_copies; eauto. Qed.

Theorem C12_shrink_keeps_prefix :
  forall k A b rest p old new q,
    cfg_ok k -> ChunksInv k (chunks b) -> BlocksInv k (chunks b) rest -> A_ok k A b ->
    In (p, l_size old) rest -> l_size new <= l_size old -> pow2 (l_align new) ->
    o_res (snd (shrink k A b p old new)) = ROk q ->
    q = p \/ moves_prefix (snd (shrink k A b p old new)) p q (l_size new).
Proof. intros. eapply shrink_copies; eauto. Qed.

Theorem C12_grow_zeroed_tail :
  forall k A b p old new q, l_size old <= l_size new ->
    o_res (snd (grow k A b p old new)) = ROk q ->
    forall m i, l_size old <= i -> i < l_size new ->
      apply_copies m (o_copies (snd (grow_zeroed k A b p old new))) (q + i) = 0.
Proof. exact grow_zeroed_tail. Qed.

(* on error the arena is unchanged and the old block is still the caller's *)
Theorem C12_err_keeps_old :
  forall k A g zeroed p old new,
    o_res (snd (gstep k A g (OGrow zeroed p old new))) = RErr ->
    snd (fst (gstep k A g (OGrow zeroed p old new))) = snd g.
Proof.
  intros k A [b live] zeroed p old new H. unfold gstep in *. cbn [fst snd live_step step] in *.
  destruct (o_res (snd (if zeroed then grow_zeroed k A b p old new else grow k A b p old new))) eqn:E;
    try discriminate; rewrite ?E; try reflexivity.
  all: destruct zeroed; rewrite E; reflexivity.
Qed.

(* deallocate accepts any live block, in any order, and keeps the invariant (so
   every other block stays placed and disjoint) *)
Theorem C12_deallocate_any_order :
  forall k A g p l, cfg_ok k -> Inv k g -> In (p, l_size l) (snd g) -> A_ok k A (fst g) ->
    Inv k (fst (gstep k A g (ODealloc p l))).
Proof. intros k A g p l K HI Hin HA. apply gstep_inv; try assumption; exact I. Qed.

Print Assumptions C12_block_fits.
Print Assumptions C12_grow_keeps_prefix.
Print Assumptions C12_shrink_keeps_prefix.
Print Assumptions C12_grow_zeroed_tail.
Print Assumptions C12_err_keeps_old.
Print Assumptions C12_deallocate_any_order.

(* ---- tie to the source text: the expressions of Bump::dealloc / shrink / grow that move the finger,
   choose the branch and size the copies are extracted from /repo/src/lib.rs on every run
   (tools/rs2v.py -> LeafActual.v), evaluated by RustSem.eval, and equal the pieces from which the
   model's dealloc / shrink / grow are assembled (ArenaSource.v) ---- *)
From BV Require Import RustSem ConstsActual LeafActual LeafActualOk ArenaSource.
From Coq Require Import String.
Open Scope string_scope.
Open Scope N_scope.

Theorem C12_source_dealloc : forall m start ptr p l, pow2 m -> m < W -> ptr + l_size l + (m - 1) < W ->
  call_fn src_fns (mem_env m start ptr) "dealloc_cond" [VN p; vlayout l] = Ret (VB (ptr =? p)) /\
  call_fn src_fns (mem_env m start ptr) "dealloc_new_finger" [VN p; vlayout l] = Ret (VN (rup (ptr + l_size l) m)).
Proof. exact src_dealloc_ok. Qed.

Theorem C12_source_shrink : forall m start ptr p old new,
  pow2 m -> pow2 (l_align new) -> m < W -> l_align new < W -> p < W -> l_size old + 1 < W ->
  l_size new <= l_size old -> ptr + l_size old < W ->
  let en := mem_env m start ptr in
  let args := [VN p; vlayout old; vlayout new] in
  call_fn src_fns en "shrink_align_raised" args = Ret (VB (l_align old <? l_align new)) /\
  call_fn src_fns en "shrink_lucky" args = Ret (VB (p mod l_align new =? 0)) /\
  call_fn src_fns en "shrink_fresh_copy_len" args = Ret (VN (l_size new)) /\
  call_fn src_fns en "shrink_delta" args = Ret (VN (shrink_delta_of m old new)) /\
  call_fn src_fns en "shrink_in_place_cond" args
    = Ret (VB ((ptr =? p) && ((l_size old + 1) / 2 <=? shrink_delta_of m old new))) /\
  call_fn src_fns en "shrink_new_finger" args = Ret (VN (ptr + shrink_delta_of m old new)) /\
  call_fn src_fns en "shrink_in_place_copy_len" args = Ret (VN (l_size new)).
Proof. exact src_shrink_ok. Qed.

Theorem C12_source_grow : forall m start ptr p old new,
  pow2 m -> m < W -> l_size old < W ->
  let en := mem_env m start ptr in
  let args := [VN p; vlayout old; vlayout new] in
  call_fn src_fns en "grow_rounded_size" args = Ret (vtry (round_up_to (l_size new) m)) /\
  call_fn src_fns en "grow_in_place_cond" args = Ret (VB ((l_align new <=? l_align old) && (ptr =? p))) /\
  (forall ns, round_up_to (l_size new) m = Some ns -> l_size old <= ns ->
     call_fn src_fns en "grow_delta" args = Ret (VN (ns - l_size old)) /\
     call_fn src_fns en "grow_extra_layout" args
       = Ret (if layout_ok (ns - l_size old) (l_align old)
              then vlayout (mkLayout (ns - l_size old) (l_align old)) else VNone)) /\
  call_fn src_fns en "grow_in_place_copy_len" args = Ret (VN (l_size old)) /\
  call_fn src_fns en "grow_fresh_copy_len" args = Ret (VN (l_size old)).
Proof. exact src_grow_ok. Qed.

(* the model is assembled from exactly these values (shrink_delta_m = shrink_delta_of) *)
Theorem C12_model_assembled_from_source_parts : forall k A b p old new l,
  dealloc k b p l = dealloc_assembled k b (cur_ptr k b =? p) (rup (cur_ptr k b + l_size l) (k_malign k)) /\
  shrink k A b p old new =
    shrink_assembled k A b p new
      (l_align old <? l_align new) (p mod l_align new =? 0) (l_size new)
      ((cur_ptr k b =? p) && ((l_size old + 1) / 2 <=? shrink_delta_m (k_malign k) old new))
      (cur_ptr k b + shrink_delta_m (k_malign k) old new) (l_size new) /\
  grow k A b p old new =
    grow_assembled k A b p new (round_up_to (l_size new) (k_malign k))
      ((l_align new <=? l_align old) && (cur_ptr k b =? p)) (l_size old) (l_align old) (l_size old) (l_size old).
Proof.
  intros. split; [apply dealloc_is_assembled|]. split; [apply shrink_is_assembled | apply grow_is_assembled].
Qed.

(* Alloc::realloc for &Bump (the entry RawVec uses, so every growing Vec and String goes through it):
   the zero-size shortcut, the new layout and the shrink / grow choice as /repo has them, and the model's
   realloc assembled from exactly those values *)
Theorem C12_source_realloc_dispatch : forall p l n,
  call_fn src_fns [] "realloc_old_is_empty" [VN p; vlayout l; VN n] = Ret (VB (l_size l =? 0)) /\
  call_fn src_fns [] "realloc_new_layout" [VN p; vlayout l; VN n]
    = Ret (if layout_ok n (l_align l) then vlayout (mkLayout n (l_align l)) else VNone) /\
  call_fn src_fns [] "realloc_shrinks" [VN p; vlayout l; VN n] = Ret (VB (n <=? l_size l)).
Proof. exact src_realloc_ok. Qed.

Theorem C12_realloc_assembled_from_source_parts : forall k A b p l n,
  realloc k A b p l n =
  realloc_assembled k A b p l (l_size l =? 0)
    (if layout_ok n (l_align l) then Some (mkLayout n (l_align l)) else None) (n <=? l_size l).
Proof. exact realloc_is_assembled. Qed.

Print Assumptions C12_source_realloc_dispatch.
Print Assumptions C12_realloc_assembled_from_source_parts.
Print Assumptions C12_source_dealloc.
Print Assumptions C12_source_shrink.
Print Assumptions C12_source_grow.
Print Assumptions C12_model_assembled_from_source_parts.
