(* C12 — The Allocator implementation obeys the allocator contract. *)
From BV Require Import Word WordFacts ArenaModel ArenaSpec ArenaInv ArenaSafe ArenaSafeThm ArenaMem.
From Coq Require Import Lia.

(* allocate / grow / grow_zeroed / shrink: the block returned fits the new layout
   (aligned, non-null), lies in held memory and overlaps no other live block *)
Theorem C12_block_fits :
  forall k A g o x a,
    cfg_ok k -> Inv k g -> wf_op k g o -> A_ok k A (fst g) ->
    handed_out o (o_res (snd (gstep k A g o))) = Some (x, a) ->
    0 < fst x /\ fst x mod a = 0 /\
    in_held_data k (fst (fst (gstep k A g o))) x /\
    Forall (bdisj x) (others k A g o).
Proof.
  intros k A g o x a K HI Hwf HA Hh.
  assert (Hnr : no_rewind o).
  { destruct o; try exact I. destruct ok; [exact I|]. cbn [handed_out] in Hh. discriminate. }
  destruct (handed_out_aligned k A g o x a K HI Hwf HA Hh) as (P0 & Pa & _).
  destruct (handed_out_placed k A g o x a K HI Hwf Hnr HA Hh) as (H1 & H2).
  conj; assumption.
Qed.

(* grow keeps the whole old block's bytes; shrink keeps the first new-size bytes *)
Theorem C12_grow_keeps_prefix :
  forall k A b rest p old new q,
    cfg_ok k -> ChunksInv k (chunks b) -> BlocksInv k (chunks b) rest -> A_ok k A b ->
    In (p, l_size old) rest -> l_size old <= l_size new -> pow2 (l_align new) -> pow2 (l_align old) ->
    o_res (snd (grow k A b p old new)) = ROk q ->
    moves_prefix (snd (grow k A b p old new)) p q (l_size old).
Proof. intros. eapply grow_copies; eauto. Qed.

Theorem C12_shrink_keeps_prefix :
  forall k A b rest p old new q,
    cfg_ok k -> ChunksInv k (chunks b) -> BlocksInv k (chunks b) rest -> A_ok k A b ->
    In (p, l_size old) rest -> l_size new <= l_size old -> pow2 (l_align new) ->
    o_res (snd (shrink k A b p old new)) = ROk q ->
    q = p \/ moves_prefix (snd (shrink k A b p old new)) p q (l_size new).
Proof. intros. eapply shrink_copies; eauto. Qed.

Theorem C12_grow_zeroed_tail :
  forall k A b p old new q, l_size old <= l_size new ->
    o_res (snd (grow k A b p old new)) = ROk q ->
    forall m i, l_size old <= i -> i < l_size new ->
      apply_copies m (o_copies (snd (grow_zeroed k A b p old new))) (q + i) = 0.
Proof. exact grow_zeroed_tail. Qed.

(* on error the arena is unchanged and the old block is still the caller's *)
Theorem C12_err_keeps_old :
  forall k A g zeroed p old new,
    o_res (snd (gstep k A g (OGrow zeroed p old new))) = RErr ->
    snd (fst (gstep k A g (OGrow zeroed p old new))) = snd g.
Proof.
  intros k A [b live] zeroed p old new H. unfold gstep in *. cbn [fst snd live_step step] in *.
  destruct (o_res (snd (if zeroed then grow_zeroed k A b p old new else grow k A b p old new))) eqn:E;
    try discriminate; rewrite ?E; try reflexivity.
  all: destruct zeroed; rewrite E; reflexivity.
Qed.

(* deallocate accepts any live block, in any order, and keeps the invariant (so
   every other block stays placed and disjoint) *)
Theorem C12_deallocate_any_order :
  forall k A g p l, cfg_ok k -> Inv k g -> In (p, l_size l) (snd g) -> A_ok k A (fst g) ->
    Inv k (fst (gstep k A g (ODealloc p l))).
Proof. intros k A g p l K HI Hin HA. apply gstep_inv; try assumption; exact I. Qed.

Print Assumptions C12_block_fits.
Print Assumptions C12_grow_keeps_prefix.
Print Assumptions C12_shrink_keeps_prefix.
Print Assumptions C12_grow_zeroed_tail.
Print Assumptions C12_err_keeps_old.
Print Assumptions C12_deallocate_any_order.
