(* C18 — Requested capacity is honoured and growth is geometric (arena part). *)
From BV Require Import Word WordFacts ArenaModel ArenaPolicy ArenaSpec ArenaInv ArenaSafe ArenaCap ArenaPolicyFacts.
From Coq Require Import Lia.

(* any split of chunk_capacity() bytes into MIN_ALIGN-multiple requests (aligned
   no more than MIN_ALIGN) is served without obtaining memory *)
Theorem C18_capacity_honoured :
  forall k A ls b c r,
    cfg_ok k -> chunks b = c :: r -> chunk_ok k c ->
    Forall (small_req k) ls -> sumN (map l_size ls) <= q_chunk_capacity k b ->
    snd (serve k A b ls) = true.
Proof. exact capacity_honoured. Qed.

(* chunk_capacity() never overstates *)
Theorem C18_capacity_exact :
  forall k A b c r a,
    cfg_ok k -> chunks b = c :: r -> chunk_ok k c -> pow2 a -> a <= k_malign k ->
    o_res (snd (try_alloc k A b (mkLayout (q_chunk_capacity k b) a))) = ROk (c_data c) /\
    o_reqs (snd (try_alloc k A b (mkLayout (q_chunk_capacity k b) a))) = [].
Proof. exact capacity_exact. Qed.

(* the chunk the policy builds for with_capacity(cap) has at least cap usable bytes *)
Theorem C18_with_capacity_size :
  forall k cap d,
    k_calign k <> 0 -> k_page k <> 0 -> k_malign k <> 0 ->
    mem_details k None (mkLayout cap (k_malign k)) = DSome d -> cap <= d_nswf d.
Proof.
  intros k cap d Nc Np Nm H.
  destruct (mem_details_ge k None (mkLayout cap (k_malign k)) d Nc Np Nm Nm H) as (_ & G & _). exact G.
Qed.

(* growth: the first candidate, when granted, at least doubles the current chunk *)
Theorem C18_growth_doubles :
  forall k b l data rest,
    k_calign k <> 0 -> k_page k <> 0 -> l_align l <> 0 -> k_malign k <> 0 ->
    limit b = None ->
    forall d dbl,
      checked_mul (cur_layout_size k b - k_footer k) 2 = Some dbl ->
      mem_details k (Some (N.max dbl (N.max (l_size l) (k_default k)))) l = DSome d ->
      layout_ok (d_size d) (d_align d) = true ->
      slow_policy k b l (Some data :: rest) = ([(d_size d, d_align d)], PChunk d data) /\
      2 * (cur_layout_size k b - k_footer k) <= d_nswf d /\ k_default k <= d_nswf d /\ l_size l <= d_nswf d.
Proof. exact first_candidate_doubles. Qed.
(* (the whole-history statements — doubling chain, logarithmic chunk count, held memory at most
   twice the newest chunk — are at the end of this file) *)

Example C18_witness :
  let k := mkCfg 48 16 64 448 4096 1 1000 in
  let b := run k fresh [(OWithCapacity 1000, policy k [Some 4096])] in
  q_chunk_capacity k b = 1984 /\
  snd (serve k (policy k []) b [mkLayout 1000 1; mkLayout 984 1]) = true.
Proof. vm_compute. split; reflexivity. Qed.

Print Assumptions C18_capacity_honoured.
Print Assumptions C18_capacity_exact.
Print Assumptions C18_with_capacity_size.
Print Assumptions C18_growth_doubles.

(* ---- tie to the source text: the functions below are parsed from /repo/src on every run
   (tools/rs2v.py -> LeafActual.v) and evaluated by RustSem.eval ---- *)
From BV Require Import RustSem ConstsActual LeafActual LeafActualOk.
From Coq Require Import String.
Open Scope string_scope.
Open Scope N_scope.

Theorem C18_source_chunk_size : forall m e given l,
  pow2 m -> pow2 (l_align l) -> l_size l < W ->
  (forall req, round_up_to (l_size l) (N.max (N.max actual_calign m) (l_align l)) = Some req ->
               N.max (given_or_default given) req + actual_overhead < W) ->
  call_fn src_fns (cenv m) "new_chunk_memory_details" [vopt given; vlayout l]
   = dres_out (mem_details (actual m e) given l).
Proof. exact src_new_chunk_memory_details_ok. Qed.
Print Assumptions C18_source_chunk_size.

(* ---- the collections part: growth of a Vec is geometric ---- *)
From BV Require Import VecModel VecFacts VecFacts2.

Theorem C18_vec_reserve_doubles : forall e v c extra v',
  repr e v c -> try_reserve e v extra false = inl v' ->
  v_cap v < v_len v + extra -> 2 * v_cap v <= v_cap v'.
Proof. exact reserve_doubles. Qed.

(* k reallocations while pushing any sequence of elements leave a capacity of at least 2^(k-1):
   the number of reallocations is logarithmic, for every element size *)
Theorem C18_vec_reallocations_logarithmic : forall e xs v c k v' k',
  repr e v c -> (k = 0%nat \/ 2 ^ N.of_nat (k - 1) <= v_cap v) ->
  push_count e v xs k = Ret (v', k') ->
  repr e v' (c ++ xs) /\ (k' = 0%nat \/ 2 ^ N.of_nat (k' - 1) <= v_cap v').
Proof. exact pushes_realloc_log. Qed.

(* a reservation is honoured: afterwards that many elements fit without another reservation *)
Theorem C18_vec_reserved_capacity : forall e v c extra exact v',
  repr e v c -> reserve e v extra exact = Ret v' -> repr e v' c /\ v_len v + extra <= v_cap v'.
Proof. intros e v c extra exact v' R H. destruct (reserve_spec e v c extra exact v' R H) as (A & B & _). split; assumption. Qed.

Print Assumptions C18_vec_reserve_doubles.
Print Assumptions C18_vec_reallocations_logarithmic.
Print Assumptions C18_vec_reserved_capacity.

(* chunk_capacity() as the source computes it is finger - data: the model's q_chunk_capacity;
   the slow path's minimum chunk size, first candidate, small-limit bypass and the test that lets a
   candidate be tried are the values ArenaPolicy.slow_policy / cand_loop / bypass start from; the
   statements around them (halving, the limit filter, installing the chunk) are present as text *)
Theorem C18_source_chunk_capacity : forall m start ptr lsize ab lim, start <= ptr -> actual_footer <= lsize ->
  call_fn src_fns (List.app (self_full start ptr lsize ab lim) (cenv m)) "chunk_capacity" [] = RustSem.Ret (VN (ptr - start)).
Proof. intros m start ptr lsize ab lim H1 H2. exact (proj1 (src_getters_ok m start ptr lsize ab lim H1 H2)). Qed.

Theorem C18_source_slow_path : forall m e0 (b : bump) l start ptr,
  actual_footer <= cur_layout_size (actual m e0) b ->
  let k := actual m e0 in
  let en := List.app (self_full start ptr (cur_layout_size k b) (ab_of b) (limit b)) (cenv m) in
  let min_new := N.max (l_size l) actual_default in
  call_fn src_fns en "slow_min_new_chunk_size" [vlayout l] = RustSem.Ret (VN min_new) /\
  call_fn src_fns en "slow_first_candidate" [vlayout l]
    = RustSem.Ret (vtry (match checked_mul (cur_layout_size k b - actual_footer) 2 with
                 | Some dbl => Some (N.max dbl min_new) | None => None end)) /\
  (forall dbl, checked_mul (cur_layout_size k b - actual_footer) 2 = Some dbl ->
     call_fn src_fns en "slow_bypass" [vlayout l] = RustSem.Ret (VB (bypass b l k (N.max dbl min_new))) /\
     call_fn src_fns en "slow_try_candidate_cond" [vlayout l]
       = RustSem.Ret (VB ((min_new <=? N.max dbl min_new) || bypass b l k (N.max dbl min_new)))).
Proof. exact src_slow_path_ok. Qed.

Theorem C18_source_frames : forallb snd src_frames = true.
Proof. exact src_frames_ok. Qed.

(* the capacity constructor as /repo has it: its two assertions are the model's ctor_ok, the zero
   test and the layout are with_capacity's, new_chunk_memory_details is given no size (the default
   chunk size is the floor), and one chunk is acquired with no limit in place (pinned statements
   ctor_zero_takes_nothing, ctor_one_chunk_no_limit of src_frames) *)
From BV Require Import ArenaSource.
Theorem C18_source_constructor : forall m cap,
  let en := cenv m in
  call_fn src_fns en "ctor_align_is_pow2" [VN cap] = RustSem.Ret (VB (pow2b m)) /\
  call_fn src_fns en "ctor_align_small" [VN cap] = RustSem.Ret (VB (m <=? actual_calign)) /\
  call_fn src_fns en "ctor_capacity_zero" [VN cap] = RustSem.Ret (VB (cap =? 0)) /\
  call_fn src_fns en "ctor_layout" [VN cap]
    = RustSem.Ret (if layout_ok cap m then vlayout (mkLayout cap m) else VNone) /\
  call_fn src_fns en "ctor_given_size" [VN cap] = RustSem.Ret VNone.
Proof. exact src_ctor_ok. Qed.

Theorem C18_constructor_assembled_from_source_parts : forall k A b cap,
  ctor_ok k = pow2b (k_malign k) && (k_malign k <=? k_calign k) /\
  with_capacity k A b cap =
  with_capacity_assembled k A b cap (cap =? 0)
    (if layout_ok cap (k_malign k) then Some (mkLayout cap (k_malign k)) else None).
Proof. intros. split; [reflexivity | apply with_capacity_is_assembled]. Qed.

Print Assumptions C18_source_chunk_capacity.
Print Assumptions C18_source_slow_path.
Print Assumptions C18_source_frames.
Print Assumptions C18_source_constructor.
Print Assumptions C18_constructor_assembled_from_source_parts.

(* ---- whole histories (ArenaGrowth.v) ---- *)
From BV Require Import ArenaGrowth.
Close Scope string_scope.

(* with no limit in force, below 2^59 bytes, against an allocator that grants what it is asked
   first, the crate's policy obtains its first candidate or nothing: never a smaller chunk *)
Theorem C18_policy_first_candidate_or_nothing : forall k answers b,
  small_consts k -> limit b = None -> cur_layout_size k b - k_footer k < 576460752303423488 ->
  granted answers -> forall o, acq_at (policy k answers) b o (grows k).
Proof. exact policy_grows. Qed.

Theorem C18_new_chunk_bounded : forall k answers b l g data reqs,
  small_consts k -> limit b = None -> cur_layout_size k b - k_footer k < 576460752303423488 ->
  granted answers -> policy k answers b (ForLayout l) = (AcqSome g data, reqs) ->
  let al := N.max (N.max (k_calign k) (k_malign k)) (l_align l) in
  g_size g - k_footer k <=
    2 * N.max (2 * (cur_layout_size k b - k_footer k)) (N.max (rup (l_size l) al) (k_default k))
    + 2 * k_overhead k + k_page k.
Proof. exact policy_chunk_bounded. Qed.

(* any history, any acquirers: if every chunk granted at least doubled the current one, every
   reachable state's chunk list is a doubling chain *)
Theorem C18_history_doubling_chain : forall k h b,
  hist_ok k (grows k) any_limit b h -> Chain k b -> Chain k (run k b h).
Proof. exact growth_chain. Qed.

(* the crate's policy over whole histories: the number of chunks held is logarithmic in the size of
   the newest chunk, and everything held is at most twice the newest chunk *)
Theorem C18_arena_growth_logarithmic : forall k h,
  small_consts k -> crate_run k fresh h ->
  let b := run k fresh h in
  match chunks b with
  | [] => True
  | c :: r => k_default k * 2 ^ N.of_nat (List.length r) <= c_nswf c /\ total_nswf (chunks b) <= 2 * c_nswf c
  end.
Proof. exact crate_growth_logarithmic. Qed.

Theorem C18_actual_consts_small : forall m e, small_consts (actual m e).
Proof.
  intros m e.
  cbv [small_consts actual k_page k_overhead k_default k_calign k_footer
       actual_page actual_overhead actual_default actual_calign actual_footer]. lia.
Qed.

Example C18_growth_witness :
  small_consts k_ex /\ crate_run k_ex fresh h_ex /\
  map c_nswf (chunks (run k_ex fresh h_ex)) = [8128; 1984; 960; 448].
Proof. exact crate_run_example. Qed.

Print Assumptions C18_policy_first_candidate_or_nothing.
Print Assumptions C18_new_chunk_bounded.
Print Assumptions C18_history_doubling_chain.
Print Assumptions C18_arena_growth_logarithmic.
Print Assumptions C18_actual_consts_small.
