(* C11 — A failed initialiser hands back its error and leaves no residue. *)
From BV Require Import Word WordFacts ArenaModel ArenaSpec ArenaInv ArenaSafe ArenaStruct ArenaRewind ArenaTw.
From Coq Require Import Lia.

(* if the slot for the value cannot be reserved, nothing is pending: the
   initialiser is never run (the drivers observe that the closure was not called) *)
Theorem C11_no_run_without_space :
  forall k A b l, (forall p, o_res (snd (tw_begin k A b l)) <> ROk p) ->
    tws (fst (tw_begin k A b l)) = tws b.
Proof. exact no_slot_no_pending. Qed.

(* a failed initialiser that allocated nothing: the very same layout requested
   next is served at the very same address, without a request to the global
   allocator — whether the slot sat in the current chunk or forced a new one,
   for every MIN_ALIGN, whatever acquirer (limit, failing allocator) is in place *)
Theorem C11_rewind_restores :
  forall k A b l p,
    cfg_ok k -> ChunksInv k (chunks b) -> A_ok k A b -> pow2 (l_align l) ->
    o_res (snd (tw_begin k A b l)) = ROk p ->
    let b2 := fst (tw_end k (fst (tw_begin k A b l)) false) in
    forall A',
      o_res (snd (try_alloc k A' b2 l)) = ROk p /\ o_reqs (snd (try_alloc k A' b2 l)) = [].
Proof. exact rewind_restores. Qed.

(* on success the slot simply becomes the client's block *)
Theorem C11_ok_keeps_slot :
  forall k b t ts, tws b = t :: ts ->
    tw_end k b true = (set_tws b ts, out_of (ROk (tw_res t))).
Proof. intros k b t ts E. unfold tw_end. rewrite E. reflexivity. Qed.

(* whatever the initialiser allocated and kept, and whatever else is live or reserved, stays
   in-bounds and disjoint when the finger is rewound (or left alone): the failed
   initialiser leaves a state satisfying the full invariant, from every reachable state *)
Theorem C11_rewind_keeps_everything_valid :
  forall k A b live, cfg_ok k -> Inv2 k (b, live) -> tws b <> [] -> A_ok k A b ->
    Inv2 k (fst (gstep k A (b, live) (OTwEnd false))).
Proof. intros k A b live K HI Hne HA. apply gstep_inv2; assumption. Qed.
(* Not a theorem here: the exactly-once delivery of the error value (decided on the
   implementation by the driver's error-value checks). *)

Example C11_witness :
  let k := mkCfg 48 16 64 448 4096 1 1000 in
  let A := follow k [mkGreq 496 16 (Some 4096)] in
  let b1 := fst (tw_begin k A fresh (mkLayout 101 1)) in
  let b2 := fst (tw_end k b1 false) in
  q_chunk_capacity k b1 = 347 /\ q_chunk_capacity k b2 = 448 /\
  o_res (snd (try_alloc k (follow k []) b2 (mkLayout 101 1))) = ROk 4443.
Proof. vm_compute. repeat split; reflexivity. Qed.

Print Assumptions C11_no_run_without_space.
Print Assumptions C11_rewind_restores.
Print Assumptions C11_rewind_keeps_everything_valid.
Print Assumptions C11_ok_keeps_slot.

(* ---------- the source tie (LeafActual.v, regenerated from /repo on every run) ---------- *)
From BV Require Import RustSem ConstsActual LeafActual LeafActualOk ArenaSource.
From Coq Require Import String.
Close Scope string_scope.

(* what both methods save before reserving the slot: the current footer (by address) and its finger *)
Theorem C11_source_entry : forall m foot start ptr f,
  let en := List.app (self_ptr foot start ptr) (cenv m) in
  let saved := VPtr foot (VRec [("ptr"%string, VN ptr); ("data"%string, VN start)]) in
  call_fn src_fns en "atw_saved_footer" [f] = RustSem.Ret saved /\
  call_fn src_fns en "atw_saved_ptr" [f] = RustSem.Ret (VN ptr) /\
  call_fn src_fns en "tatw_saved_footer" [f] = RustSem.Ret saved /\
  call_fn src_fns en "tatw_saved_ptr" [f] = RustSem.Ret (VN ptr).
Proof. exact src_try_with_entry_ok. Qed.

(* on an Err from the initialiser: "is the slot still the last allocation", "is it still the same
   chunk" (footers compared by address), and the finger stored in either case — for every MIN_ALIGN *)
Theorem C11_source_exit : forall m foot start ptr res rfoot rstart rptr0 rptr f, pow2 m -> m < W -> foot < W ->
  let en := List.app (saved_env res rfoot rstart rptr0 rptr) (List.app (self_ptr foot start ptr) (cenv m)) in
  call_fn src_fns en "atw_is_last" [f] = RustSem.Ret (VB (ptr =? res)) /\
  call_fn src_fns en "atw_same_chunk" [f] = RustSem.Ret (VB (foot =? rfoot)) /\
  call_fn src_fns en "atw_rewind_same_chunk" [f] = RustSem.Ret (VN rptr) /\
  call_fn src_fns en "atw_rewind_new_chunk" [f] = RustSem.Ret (VN (rdown foot m)) /\
  call_fn src_fns en "tatw_is_last" [f] = RustSem.Ret (VB (ptr =? res)) /\
  call_fn src_fns en "tatw_same_chunk" [f] = RustSem.Ret (VB (foot =? rfoot)) /\
  call_fn src_fns en "tatw_rewind_same_chunk" [f] = RustSem.Ret (VN rptr) /\
  call_fn src_fns en "tatw_rewind_new_chunk" [f] = RustSem.Ret (VN (rdown foot m)).
Proof. exact src_try_with_exit_ok. Qed.

(* the model's two events are assembled from exactly those values: the pending record keeps
   (footer, finger, slot) as saved; the exit tests and stores are the source's *)
Theorem C11_model_assembled_from_source_parts : forall k A b l p,
  (o_res (snd (tw_begin k A b l)) = ROk p ->
   exists t, tws (fst (tw_begin k A b l)) = t :: tws (fst (try_alloc k A b l)) /\
             tw_foot t = cur_foot k b /\ tw_ptr t = cur_ptr k b /\ tw_res t = p) /\
  (forall t rest, tws b = t :: rest ->
   let b0 := set_tws b rest in
   tw_end k b false =
   tw_end_err_assembled k b0 (cur_ptr k b0 =? tw_res t) (cur_foot k b0 =? tw_foot t)
                        (tw_ptr t) (rdown (cur_foot k b0) (k_malign k)) /\
   tw_end k b true = (b0, out_of (ROk (tw_res t)))).
Proof. intros. split; [apply tw_begin_saves | intros t rest; apply tw_end_is_assembled]. Qed.

(* the statements with no value: the slot is reserved through alloc_with / try_alloc_with(..)?
   before the initialiser's result is matched, the error value is read out of the slot exactly once
   on the way out, and the try_fill methods release the slice with dealloc on an error *)
Theorem C11_source_frames :
  Forall (fun n => lookup n src_frames = Some true)
    ["atw_reserves_then_matches"; "atw_error_read_once"; "tatw_reserves_then_matches";
     "tatw_error_read_once"; "try_fill_releases_on_error"]%string.
Proof. repeat (constructor; [vm_compute; reflexivity|]). constructor. Qed.

Print Assumptions C11_source_entry.
Print Assumptions C11_source_exit.
Print Assumptions C11_model_assembled_from_source_parts.
Print Assumptions C11_source_frames.

(* ---------- the loop of alloc_slice_try_fill_with as /repo's source has it (translated by
   tools/rs2v.py on every run into LeafActual.src_procs; FillWalkOk.v).  The closure's answers come
   from a script: Some true = Ok(el), Some false = Err(e), None = it panics.  For every length,
   destination, block and script the translated loop is the function tyrun; when the first Err is
   the (k+1)-th answer, indices 0..k-1 were asked in order and stored, index k was asked, then the
   WHOLE block goes back in one dealloc(base_ptr, layout) and the function returns at once: the
   closure is not asked again and nothing more is stored ---------- *)
From BV Require Import DedupWalkOk TruncWalkOk FillWalkOk.
From Coq Require Import List.
Import ListNotations.
Theorem C11_source_try_fill_loop : forall len dst bp lay tr sc f, dst + len < W ->
  (N.to_nat len <= List.length sc)%nat ->
  let '(t, q, b, rest) := tyrun dst bp lay (N.to_nat len) 0 sc in
  exec src_fns (S (S (S (S (S (S f)))))) (tyenv0 len dst bp lay) tr sc tryloop =
  match b with
  | FDone => XOk (tyenv len dst bp lay q) (List.app tr t) rest
  | FPanic => XPanic (tyenv len dst bp lay q) (List.app tr t)
  | FErr => XRet (tyenv len dst bp lay q) (List.app tr t) rest
  end.
Proof. exact loop_is_tyrun. Qed.

Theorem C11_try_fill_error_releases_block_and_stops : forall k j dst bp lay i sc,
  (k < j)%nat -> forallb says_ok (firstn k sc) = true -> nth k sc None = Some false ->
  tyrun dst bp lay j i sc
  = (List.app (filled dst k i) [e_ask (i + N.of_nat k); e_dealloc bp lay], i + N.of_nat k, FErr, skipn (S k) sc).
Proof. exact tyrun_err_at. Qed.

Theorem C11_try_fill_all_ok_fills_in_order : forall j dst bp lay i sc,
  (j <= List.length sc)%nat -> forallb says_ok (firstn j sc) = true ->
  tyrun dst bp lay j i sc = (filled dst j i, i + N.of_nat j, FDone, skipn j sc).
Proof. exact tyrun_all_ok. Qed.

Print Assumptions C11_source_try_fill_loop.
Print Assumptions C11_try_fill_error_releases_block_and_stops.
Print Assumptions C11_try_fill_all_ok_fills_in_order.
