(* C11 — A failed initialiser hands back its error and leaves no residue. *)
From BV Require Import Word WordFacts ArenaModel ArenaSpec ArenaInv ArenaSafe ArenaStruct ArenaRewind ArenaTw.
From Coq Require Import Lia.

(* if the slot for the value cannot be reserved, nothing is pending: the
   initialiser is never run (the drivers observe that the closure was not called) *)
Theorem C11_no_run_without_space :
  forall k A b l, (forall p, o_res (snd (tw_begin k A b l)) <> ROk p) ->
    tws (fst (tw_begin k A b l)) = tws b.
Proof. exact no_slot_no_pending. Qed.

(* a failed initialiser that allocated nothing: the very same layout requested
   next is served at the very same address, without a request to the global
   allocator — whether the slot sat in the current chunk or forced a new one,
   for every MIN_ALIGN, whatever acquirer (limit, failing allocator) is in place *)
Theorem C11_rewind_restores :
  forall k A b l p,
    cfg_ok k -> ChunksInv k (chunks b) -> A_ok k A b -> pow2 (l_align l) ->
    o_res (snd (tw_begin k A b l)) = ROk p ->
    let b2 := fst (tw_end k (fst (tw_begin k A b l)) false) in
    forall A',
      o_res (snd (try_alloc k A' b2 l)) = ROk p /\ o_reqs (snd (try_alloc k A' b2 l)) = [].
Proof. exact rewind_restores. Qed.

(* on success the slot simply becomes the client's block *)
Theorem C11_ok_keeps_slot :
  forall k b t ts, tws b = t :: ts ->
    tw_end k b true = (set_tws b ts, out_of (ROk (tw_res t))).
Proof. intros k b t ts E. unfold tw_end. rewrite E. reflexivity. Qed.

(* whatever the initialiser allocated and kept, and whatever else is live or reserved, stays
   in-bounds and disjoint when the finger is rewound (or left alone): the failed
   initialiser leaves a state satisfying the full invariant, from every reachable state *)
Theorem C11_rewind_keeps_everything_valid :
  forall k A b live, cfg_ok k -> Inv2 k (b, live) -> tws b <> [] -> A_ok k A b ->
    Inv2 k (fst (gstep k A (b, live) (OTwEnd false))).
Proof. intros k A b live K HI Hne HA. apply gstep_inv2; assumption. Qed.
(* Not a theorem here: the exactly-once delivery of the error value (decided on the
   implementation by the driver's error-value checks). *)

Example C11_witness :
  let k := mkCfg 48 16 64 448 4096 1 1000 in
  let A := follow k [mkGreq 496 16 (Some 4096)] in
  let b1 := fst (tw_begin k A fresh (mkLayout 101 1)) in
  let b2 := fst (tw_end k b1 false) in
  q_chunk_capacity k b1 = 347 /\ q_chunk_capacity k b2 = 448 /\
  o_res (snd (try_alloc k (follow k []) b2 (mkLayout 101 1))) = ROk 4443.
Proof. vm_compute. repeat split; reflexivity. Qed.

Print Assumptions C11_no_run_without_space.
Print Assumptions C11_rewind_restores.
Print Assumptions C11_rewind_keeps_everything_valid.
Print Assumptions C11_ok_keeps_slot.
