(* C05 — borrow rules make misuse a compile error.
   The client language, its run-time meaning (drun) and the discipline the public
   signatures impose (accepts) are in Borrow.v; actual_facts is read from /repo/src
   on every run (SigFactsActual.v) and SigFactsOk.v re-checks facts_ok actual_facts.
   That `accepts actual_facts` is what rustc decides for these programs is the
   compile-probe correspondence (tools/borrow_probe.py). *)
From BV Require Import Word Borrow BorrowFacts SigFactsActual SigFactsOk.

(* no accepted program ever uses a dangling reference, a stale chunk iterator or
   the arena from two threads — for every program of the language, of any length *)
Theorem C05_accepted_programs_never_misuse : forall p,
  accepts actual_facts st0 p = true -> drun dyn0 p = true.
Proof. exact (fun p => accepted_programs_are_safe actual_facts p actual_facts_ok). Qed.

Theorem C05_misuse_is_rejected : forall p,
  drun dyn0 p = false -> accepts actual_facts st0 p = false.
Proof. exact (fun p => misuse_rejected actual_facts p actual_facts_ok). Qed.

(* the misuse families of the property, in every context (any code before, between and after) *)
Theorem C05_use_after_reset : forall pre mid post r,
  existsb (binds_ref r) mid = false ->
  accepts actual_facts st0 (pre ++ SReset :: mid ++ SUse r :: post) = false.
Proof. exact (use_after_reset_rejected actual_facts actual_facts_ok). Qed.

Theorem C05_iterator_survives_reset : forall pre mid post i,
  existsb (binds_iter i) mid = false ->
  accepts actual_facts st0 (pre ++ SReset :: mid ++ SIterUse i :: post) = false.
Proof. exact (iterator_after_reset_rejected actual_facts actual_facts_ok). Qed.

Theorem C05_outlives_or_moved_arena : forall pre k mid post r,
  kills_arena k = true ->       (* drop(a), let b = a, or the arena sent to another thread *)
  accepts actual_facts st0 (pre ++ k :: mid ++ SUse r :: post) = false.
Proof. exact (use_after_arena_gone_rejected actual_facts actual_facts_ok). Qed.

Theorem C05_iterator_outlives_arena : forall pre k mid post i,
  kills_arena k = true ->
  accepts actual_facts st0 (pre ++ k :: mid ++ SIterUse i :: post) = false.
Proof. exact (iterator_after_arena_gone_rejected actual_facts actual_facts_ok). Qed.

Theorem C05_alloc_during_iteration : forall pre r mid post i,
  existsb (binds_iter i) mid = false ->
  accepts actual_facts st0 (pre ++ SAlloc r :: mid ++ SIterUse i :: post) = false.
Proof. exact (alloc_during_iteration_rejected actual_facts actual_facts_ok). Qed.

Theorem C05_no_sharing_between_threads : forall pre post,
  accepts actual_facts st0 (pre ++ SSpawnShare :: post) = false.
Proof. exact (sharing_between_threads_rejected actual_facts actual_facts_ok). Qed.

Theorem C05_collections_not_sent : forall pre r post,
  accepts actual_facts st0 (pre ++ SSpawnRef r :: post) = false.
Proof. exact (sending_a_collection_rejected actual_facts actual_facts_ok). Qed.

Theorem C05_thread_bounds :
  trait_holds actual_facts QBumpSync = false /\ trait_holds actual_facts QRefBumpSend = false /\
  trait_holds actual_facts QCollSend = false /\ trait_holds actual_facts QBumpSend = true.
Proof. vm_compute. repeat split; reflexivity. Qed.

(* the ordinary patterns are accepted: n allocations alive at once, then the idle arena moves to a thread *)
Theorem C05_many_allocations_alive : forall n,
  accepts actual_facts st0 (map SAlloc (seq 0 n) ++ map SUse (seq 0 n)) = true.
Proof. exact (many_allocations_alive actual_facts). Qed.

Theorem C05_idle_arena_moves_to_thread : forall n,
  accepts actual_facts st0 (map SAlloc (seq 0 n) ++ map SUse (seq 0 n) ++ [SSpawnMove]) = true.
Proof. exact (fun n => idle_arena_moves_to_thread actual_facts n actual_send). Qed.

(* each fact read from the source is necessary: without it some accepted program misuses the arena *)
Theorem C05_each_fact_needed :
  unsound (mkFacts false true true true false false) /\ unsound (mkFacts true false true true false false) /\
  unsound (mkFacts true true false true false false) /\ unsound (mkFacts true true true true true false) /\
  unsound (mkFacts true true true true false true).
Proof. exact (conj alloc_shared_needed (conj reset_excl_needed (conj iter_excl_needed (conj not_sync_needed coll_not_send_needed)))). Qed.

(* non-vacuity: an accepted program that exercises every kind of statement that can be accepted *)
Example C05_witness :
  let p := [SAlloc 0; SAlloc 1; SUse 0; SUse 1; SReset; SIterBegin 0; SIterUse 0; SAlloc 2; SUse 2; SSpawnMove] in
  accepts actual_facts st0 p = true /\ drun dyn0 p = true /\
  accepts actual_facts st0 [SAlloc 0; SReset; SUse 0] = false /\ drun dyn0 [SAlloc 0; SReset; SUse 0] = false.
Proof. vm_compute. repeat split; reflexivity. Qed.

Print Assumptions C05_accepted_programs_never_misuse.
Print Assumptions C05_misuse_is_rejected.
Print Assumptions C05_use_after_reset.
Print Assumptions C05_iterator_survives_reset.
Print Assumptions C05_outlives_or_moved_arena.
Print Assumptions C05_iterator_outlives_arena.
Print Assumptions C05_alloc_during_iteration.
Print Assumptions C05_no_sharing_between_threads.
Print Assumptions C05_collections_not_sent.
Print Assumptions C05_thread_bounds.
Print Assumptions C05_many_allocations_alive.
Print Assumptions C05_idle_arena_moves_to_thread.
Print Assumptions C05_each_fact_needed.

(* the unsafe auto-trait impls of the source are exactly the ones accounted for, with their bounds
   (pinned as text, re-read from /repo on every run; a changed bound or a new impl fails here) *)
From BV Require Import RustSem LeafActual AutoTraitsOk.
Theorem C05_source_auto_trait_impls :
  forallb snd src_auto_trait_impls = true /\ List.length src_auto_trait_impls = 9%nat.
Proof. exact src_auto_trait_impls_ok. Qed.
Print Assumptions C05_source_auto_trait_impls.
