(* C08 — Byte accounting matches what the arena really holds. *)
From BV Require Import Word ArenaModel ArenaSpec ArenaTrans ArenaAccounting.

(* For every configuration, every history of operations and every behaviour of
   the global allocator / sizing policy (any acquirer per operation): the two
   getters equal the sum of the sizes of the blocks held, and that sum minus
   FOOTER_SIZE per chunk. *)
Theorem C08_accounting :
  forall (k : cfg) (h : list (op * acquirer)),
    let b := run k fresh h in
    sp_accounting k (held k b) (q_allocated_bytes b) (q_allocated_bytes_incl k b) = true.
Proof. exact accounting_reachable. Qed.

Theorem C08_zero_when_nothing_held :
  forall (k : cfg) (b : bump),
    held k b = [] -> q_allocated_bytes b = 0 /\ q_allocated_bytes_incl k b = 0.
Proof. exact accounting_zero. Qed.

Theorem C08_changes_only_on_acquire_release :
  forall (k : cfg) (h1 h2 : list (op * acquirer)),
    let b1 := run k fresh h1 in
    let b2 := run k fresh h2 in
    held k b1 = held k b2 ->
    q_allocated_bytes b1 = q_allocated_bytes b2 /\
    q_allocated_bytes_incl k b1 = q_allocated_bytes_incl k b2.
Proof.
  intros k h1 h2 b1 b2. apply accounting_changes_only_with_held;
    apply (run_inv k AbInv (elem_ab k)); exact AbInv_fresh.
Qed.

(* non-vacuity: a concrete three-operation history (capacity, alloc, reset) *)
Example C08_witness :
  let k := mkCfg 48 16 64 448 4096 1 1000 in
  let A := follow k [mkGreq 496 16 (Some 4096)] in
  let b := run k fresh [(OWithCapacity 1, A); (OAlloc (mkLayout 8 8), follow k []); (OReset, follow k [])] in
  held k b = [(4096, 496, 16)] /\ q_allocated_bytes b = 448 /\ q_allocated_bytes_incl k b = 496.
Proof. vm_compute. repeat split. Qed.

Print Assumptions C08_accounting.
Print Assumptions C08_zero_when_nothing_held.
Print Assumptions C08_changes_only_on_acquire_release.

(* ---- tie to the source text: allocated_bytes() reads the current footer's running total, and
   reset() sets it to the kept chunk's size minus the footer (the site of finding F1) ---- *)
From BV Require Import RustSem ConstsActual LeafActual LeafActualOk.
From Coq Require Import String.
Open Scope string_scope.
Open Scope N_scope.
Theorem C08_source_accounting : forall m start ptr lsize ab lim, start <= ptr -> actual_footer <= lsize ->
  let en := List.app (self_full start ptr lsize ab lim) (cenv m) in
  call_fn src_fns en "allocated_bytes" [] = Ret (VN ab) /\
  call_fn src_fns en "reset_allocated_bytes" [] = Ret (VN (lsize - actual_footer)).
Proof. intros m start ptr lsize ab lim H1 H2 en. exact (proj2 (src_getters_ok m start ptr lsize ab lim H1 H2)). Qed.
Print Assumptions C08_source_accounting.

(* allocated_bytes_including_metadata adds one footer per item of the raw chunk iterator (pinned
   statement; the iterator's walk is pinned by C10_source_frames) — q_allocated_bytes_incl *)
From Coq Require Import String.
Theorem C08_source_metadata_frame : lookup "metadata_counts_chunks"%string src_frames = Some true.
Proof. vm_compute. reflexivity. Qed.
Print Assumptions C08_source_metadata_frame.
