(* C10 — Chunk iteration yields exactly the allocated bytes, newest first. *)
From BV Require Import Word WordFacts ArenaModel ArenaSpec ArenaInv ArenaSafe ArenaSafeThm ArenaStruct.
From Coq Require Import Lia.

(* one slice per held chunk, newest first, each starting at the finger (inside the
   chunk) and ending exactly at the chunk's footer *)
Theorem C10_iter_shape :
  forall k h, cfg_ok k -> hist_ok k (fresh, []) h ->
    let b := fst (grun k (fresh, []) h) in
    slices_ok k (held k b) (q_iter_chunks b) = true.
Proof.
  intros k h K HH b. apply iter_shape.
  destruct (grun_inv k (fresh, []) h K (Inv_fresh k) HH) as [(Hok & _) _]. exact Hok.
Qed.

(* every live block of non-zero size lies inside the slice of a chunk *)
Theorem C10_live_contained :
  forall k h, cfg_ok k -> hist_ok k (fresh, []) h ->
    let g := grun k (fresh, []) h in
    Forall (fun x => snd x = 0 \/
              exists c, In c (chunks (fst g)) /\ c_ptr c <= fst x /\
                        fst x + snd x <= c_ptr c + (c_foot c - c_ptr c))
           (blocks g).
Proof.
  intros k h K HH g. apply (live_in_iter_slices k).
  apply grun_inv; [exact K | apply Inv_fresh | exact HH].
Qed.

(* ... of exactly one: the slices of distinct chunks are disjoint *)
Theorem C10_slices_disjoint :
  forall k h, cfg_ok k -> hist_ok k (fresh, []) h ->
    pairwise (chunk_disj k) (chunks (fst (grun k (fresh, []) h))).
Proof.
  intros k h K HH. destruct (grun_inv k (fresh, []) h K (Inv_fresh k) HH) as [(_ & _ & H) _]. exact H.
Qed.
(* ---- the byte-exact clause (ArenaUniform.v): every request has the one alignment Au
   (MIN_ALIGN <= Au <= CHUNK_ALIGN) and a size that is a multiple of it ---- *)
From BV Require Import ArenaUniform ArenaSafeThm.

(* one allocation: the slices grow by exactly its size, or not at all when it fails — whichever
   path serves it, whatever the global allocator answers *)
Theorem C10_uniform_alloc_exact : forall k A Au b l,
  cfg_ok k -> ChunksInv k (chunks b) -> A_ok k A b ->
  uni_cfg k Au -> uni_req Au l -> uni_state Au b ->
  let r := try_alloc k A b l in
  uni_state Au (fst r) /\
  iter_total (fst r) = iter_total b + (match o_res (snd r) with ROk _ => l_size l | _ => 0 end).
Proof. exact uniform_alloc_exact. Qed.

Theorem C10_uniform_reset : forall k Au b,
  cfg_ok k -> ChunksInv k (chunks b) -> uni_cfg k Au ->
  uni_state Au (fst (reset k b)) /\ iter_total (fst (reset k b)) = 0.
Proof. exact uniform_reset. Qed.

(* whole histories of uniform allocations and resets from a fresh arena: the slices hold exactly
   the bytes of the allocations that succeeded since the last reset — no byte before, between or
   after the objects (sp_iter_exact is the predicate the checker evaluates on the implementation) *)
Theorem C10_uniform_history_exact : forall k Au h, cfg_ok k -> uni_cfg k Au ->
  hist_ok k (fresh, []) h -> Forall (fun oa => uni_op Au (fst oa)) h ->
  sp_iter_exact (q_iter_chunks (fst (grun k (fresh, []) h))) (uni_total k (fresh, []) h 0) = true.
Proof. exact uniform_history_fresh. Qed.

Theorem C10_exact_predicate : forall b n, sp_iter_exact (q_iter_chunks b) n = true <-> iter_total b = n.
Proof. exact sp_iter_exact_total. Qed.

Example C10_witness :
  let k := mkCfg 48 16 64 448 4096 1 1000 in
  let b := run k fresh [(OWithCapacity 1, follow k [mkGreq 496 16 (Some 4096)]);
                        (OAlloc (mkLayout 600 1), follow k [mkGreq 1008 16 (Some 8192)])] in
  q_iter_chunks b = [(8552, 600); (4544, 0)].
Proof. vm_compute. reflexivity. Qed.

Print Assumptions C10_iter_shape.
Print Assumptions C10_live_contained.
Print Assumptions C10_slices_disjoint.
Print Assumptions C10_uniform_alloc_exact.
Print Assumptions C10_uniform_reset.
Print Assumptions C10_uniform_history_exact.
Print Assumptions C10_exact_predicate.

(* ---------- the source tie (LeafActual.v, regenerated from /repo on every run): the slice a footer
   reports is (finger, footer address - finger) — the pair q_iter_chunks lists for each chunk — and
   the iterators start at the current footer, stop at the sentinel, follow `prev`, the safe one
   wrapping the raw one (pinned statements) ---------- *)
From BV Require Import RustSem LeafActual LeafActualOk.
From Coq Require Import String.
Theorem C10_source_chunk_parts : forall foot start ptr, ptr <= foot ->
  call_fn src_fns (footer_self foot start ptr) "chunk_parts_ptr" [] = RustSem.Ret (VN ptr) /\
  call_fn src_fns (footer_self foot start ptr) "chunk_parts_len" [] = RustSem.Ret (VN (foot - ptr)).
Proof. exact src_chunk_parts_ok. Qed.

Theorem C10_model_lists_source_parts : forall b,
  q_iter_chunks b = map (fun c => (c_ptr c, c_foot c - c_ptr c)) (chunks b).
Proof. reflexivity. Qed.

Theorem C10_source_frames :
  Forall (fun n => lookup n src_frames = Some true)
    ["chunk_parts_returned"; "chunk_iter_wraps_raw"; "chunk_raw_iter_walk";
     "chunk_raw_iter_starts_at_current"; "chunk_iter_from_raw"]%string.
Proof. repeat (constructor; [vm_compute; reflexivity|]). constructor. Qed.

Print Assumptions C10_source_chunk_parts.
Print Assumptions C10_model_lists_source_parts.
Print Assumptions C10_source_frames.

(* ChunkRawIter::next, call after call, over a chunk list of any length: each call is made of the
   source's own end test, as_raw_parts and step to the previous footer (LeafActual.v, regenerated on
   every run); the items are the model's q_iter_chunks, newest chunk first, and the iteration ends at
   the sentinel *)
From BV Require Import ChunkWalkOk.
Theorem C10_source_raw_iteration : forall k (b : bump),
  Forall (fun c => c_foot c <> k_eaddr k /\ c_ptr c <= c_foot c) (chunks b) ->
  raw_collect k (S (List.length (chunks b))) (footer_val k (chunks b)) = Some (q_iter_chunks b).
Proof. exact raw_iteration_is_q_iter_chunks. Qed.
Print Assumptions C10_source_raw_iteration.
