(* C10 — Chunk iteration yields exactly the allocated bytes, newest first. *)
From BV Require Import Word WordFacts ArenaModel ArenaSpec ArenaInv ArenaSafe ArenaSafeThm ArenaStruct.
From Coq Require Import Lia.

(* one slice per held chunk, newest first, each starting at the finger (inside the
   chunk) and ending exactly at the chunk's footer *)
Theorem C10_iter_shape :
  forall k h, cfg_ok k -> hist_ok k (fresh, []) h ->
    let b := fst (grun k (fresh, []) h) in
    slices_ok k (held k b) (q_iter_chunks b) = true.
Proof.
  intros k h K HH b. apply iter_shape.
  destruct (grun_inv k (fresh, []) h K (Inv_fresh k) HH) as [(Hok & _) _]. exact Hok.
Qed.

(* every live block of non-zero size lies inside the slice of a chunk *)
Theorem C10_live_contained :
  forall k h, cfg_ok k -> hist_ok k (fresh, []) h ->
    let g := grun k (fresh, []) h in
    Forall (fun x => snd x = 0 \/
              exists c, In c (chunks (fst g)) /\ c_ptr c <= fst x /\
                        fst x + snd x <= c_ptr c + (c_foot c - c_ptr c))
           (blocks g).
Proof.
  intros k h K HH g. apply (live_in_iter_slices k).
  apply grun_inv; [exact K | apply Inv_fresh | exact HH].
Qed.

(* ... of exactly one: the slices of distinct chunks are disjoint *)
Theorem C10_slices_disjoint :
  forall k h, cfg_ok k -> hist_ok k (fresh, []) h ->
    pairwise (chunk_disj k) (chunks (fst (grun k (fresh, []) h))).
Proof.
  intros k h K HH. destruct (grun_inv k (fresh, []) h K (Inv_fresh k) HH) as [(_ & _ & H) _]. exact H.
Qed.
(* C10_uniform_exact (no bytes before, between or after the objects when all
   requests share one alignment) is not proved yet: it is decided on the
   implementation by the uniform histories of the correspondence run. *)

Example C10_witness :
  let k := mkCfg 48 16 64 448 4096 1 1000 in
  let b := run k fresh [(OWithCapacity 1, follow k [mkGreq 496 16 (Some 4096)]);
                        (OAlloc (mkLayout 600 1), follow k [mkGreq 1008 16 (Some 8192)])] in
  q_iter_chunks b = [(8552, 600); (4544, 0)].
Proof. vm_compute. reflexivity. Qed.

Print Assumptions C10_iter_shape.
Print Assumptions C10_live_contained.
Print Assumptions C10_slices_disjoint.
