(* C07 — The allocation limit is never exceeded by acquiring memory. *)
From BV Require Import Word WordFacts ArenaModel ArenaPolicy ArenaSpec ArenaInv ArenaSafe ArenaCap ArenaPolicyFacts.
From Coq Require Import Lia.

(* under the crate's sizing policy, a chunk is obtained only if its usable size
   fits in what the limit leaves (0 when already at or above the limit) *)
Theorem C07_never_exceeds :
  forall k b l answers g data,
    fst (policy k answers b (ForLayout l)) = AcqSome g data ->
    match limit b with
    | None => True
    | Some L => g_size g - k_footer k <= L - ab_of b
    end.
Proof. exact policy_respects_limit. Qed.

Corollary C07_held_stays_under_limit :
  forall k b l answers g data L,
    fst (policy k answers b (ForLayout l)) = AcqSome g data ->
    limit b = Some L -> ab_of b <= L ->
    ab_of b + (g_size g - k_footer k) <= L.
Proof.
  intros k b l answers g data L H E Hle.
  pose proof (policy_respects_limit k b l answers g data H) as P. rewrite E in P. lia.
Qed.

(* a request that fits in the current chunk succeeds whatever the limit is *)
Theorem C07_fits_in_chunk_succeeds :
  forall k A b c r l,
    cfg_ok k -> chunks b = c :: r -> chunk_ok k c -> small_req k l ->
    l_size l <= q_chunk_capacity k b ->
    forall lim, let b' := mkBump (chunks b) lim (tws b) in
    o_res (snd (try_alloc k A b' l)) = ROk (c_ptr c - l_size l) /\
    o_reqs (snd (try_alloc k A b' l)) = [].
Proof.
  intros k A b c r l K E Hc Hs Hfit lim b'.
  destruct (fast_exact k A b' c r l K E Hc Hs Hfit) as (_ & E2 & E3 & _). split; assumption.
Qed.

(* with no limit set, the limit plays no role in the policy *)
Theorem C07_none_is_transparent :
  forall k b l base d, limit b = None -> fits (limit_left b) d = true /\ bypass b l k base = false.
Proof. intros k b l base d E. unfold limit_left, bypass. rewrite E. split; reflexivity. Qed.

Example C07_witness :
  let k := mkCfg 48 16 64 448 4096 1 1000 in
  let b := mkBump [mkChunk 4096 448 16 4096 448] (Some 100) [] in
  fst (policy k [Some 8192] b (ForLayout (mkLayout 1000 1))) = AcqNone /\
  fst (policy k [Some 8192] (mkBump (chunks b) (Some 4000) []) (ForLayout (mkLayout 1000 1)))
    = AcqSome (mkGreq 2032 16 (Some 8192)) 8192.
Proof. vm_compute. split; reflexivity. Qed.

Print Assumptions C07_never_exceeds.
Print Assumptions C07_held_stays_under_limit.
Print Assumptions C07_fits_in_chunk_succeeds.
Print Assumptions C07_none_is_transparent.

(* ---- tie to the source text: the functions below are parsed from /repo/src on every run
   (tools/rs2v.py -> LeafActual.v) and evaluated by RustSem.eval ---- *)
From BV Require Import RustSem ConstsActual LeafActual LeafActualOk.
From Coq Require Import String.
Open Scope string_scope.
Open Scope N_scope.

Theorem C07_source_limit : forall (b : bump) left d en,
  call_fn src_fns (self_of (limit b) (ab_of b)) "allocation_limit_remaining" [] = Ret (vopt (limit_left b)) /\
  call_fn src_fns en "chunk_fits_under_limit" [vopt left; vdetails d] = Ret (VB (fits left d)).
Proof. exact (fun b left d en => conj (src_allocation_limit_remaining_ok b) (src_chunk_fits_under_limit_ok left d en)). Qed.
Print Assumptions C07_source_limit.

(* ---- whole histories (ArenaLimit.v) ---- *)
From BV Require Import ArenaGrowth ArenaLimit.

(* any acquirers: if every chunk granted fitted under the limit in force, and the limit was only
   ever set to a value that what was already held respects, allocated_bytes <= limit everywhere *)
Theorem C07_history_invariant : forall k h b,
  hist_ok k (under k) lim_change_ok b h -> LimInv b -> LimInv (run k b h).
Proof. exact limit_history. Qed.

(* the crate's own policy, whatever the global allocator answers (refusals included): at every
   reachable state the bytes held for allocation respect the limit in force *)
Theorem C07_never_exceeded_over_histories : forall k h,
  crate_limited k fresh h ->
  match limit (run k fresh h) with
  | Some L => q_allocated_bytes (run k fresh h) <= L
  | None => True
  end.
Proof. exact crate_never_exceeds_limit. Qed.

Example C07_history_witness :
  crate_limited k_ex fresh h_lim /\ limit (run k_ex fresh h_lim) = Some 3000 /\
  map c_nswf (chunks (run k_ex fresh h_lim)) = [960; 448] /\ q_allocated_bytes (run k_ex fresh h_lim) = 1408.
Proof. exact crate_limited_example. Qed.

Print Assumptions C07_history_invariant.
Print Assumptions C07_never_exceeded_over_histories.
