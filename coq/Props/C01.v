(* C01 — Live allocations are in-bounds and never overlap. *)
From BV Require Import Word WordFacts ArenaModel ArenaSpec ArenaInv ArenaSafe ArenaSafeThm ArenaStruct ArenaTw.
From Coq Require Import Lia.

(* From ANY state satisfying the invariant (every finger position a chunk can be
   in, every chunk base the global allocator may return, every MIN_ALIGN), any
   operation that hands out a block gives a non-null block lying in the data
   part of a chunk the arena holds (so outside every footer) and disjoint from
   every other block that is live or reserved. *)
Theorem C01_any_state :
  forall k A g o x a,
    cfg_ok k -> Inv k g -> wf_op k g o -> A_ok k A (fst g) ->
    handed_out o (o_res (snd (gstep k A g o))) = Some (x, a) ->
    0 < fst x /\
    in_held_data k (fst (fst (gstep k A g o))) x /\
    Forall (bdisj x) (others k A g o).
Proof.
  intros k A g o x a K HI Hwf HA Hh.
  assert (Hnr : no_rewind o).
  { destruct o; try exact I. destruct ok; [exact I|]. cbn [handed_out] in Hh. discriminate. }
  destruct (handed_out_aligned k A g o x a K HI Hwf HA Hh) as (P0 & _ & _).
  destruct (handed_out_placed k A g o x a K HI Hwf Hnr HA Hh) as (H1 & H2).
  split; [exact P0|]. split; [exact H1 | exact H2].
Qed.

(* ... and every state reachable from a fresh arena by ANY history of operations satisfies
   that invariant (and the bookkeeping of pending initialisers), whatever the global
   allocator answered.  The only conditions on the history are the caller's obligations
   (wf_op: layouts are valid, blocks passed back are live, reset/drop are not called from
   inside an initialiser) and the allocator contract (A_ok). *)
Theorem C01_reachable :
  forall k h, cfg_ok k -> hist_wf k (fresh, []) h -> Inv2 k (grun2 k (fresh, []) h).
Proof. intros k h K HH. apply grun2_inv; [exact K | apply Inv2_fresh | exact HH]. Qed.

Theorem C01_every_step :
  forall k A g o, cfg_ok k -> Inv2 k g -> wf_op k g o -> A_ok k A (fst g) -> Inv2 k (fst (gstep k A g o)).
Proof. exact gstep_inv2. Qed.

(* in particular the rewind of a failed initialiser, in every state *)
Theorem C01_rewind_safe :
  forall k A b live, cfg_ok k -> Inv k (b, live) -> TwsOk k b ->
    Inv k (fst (gstep k A (b, live) (OTwEnd false))).
Proof. exact rewind_inv. Qed.

Theorem C01_alloc_in_bounds_disjoint :
  forall k h A o x a,
    cfg_ok k -> hist_wf k (fresh, []) (h ++ [(o, A)]) ->
    let g := grun2 k (fresh, []) h in
    handed_out o (o_res (snd (gstep k A g o))) = Some (x, a) ->
    0 < fst x /\
    in_held_data k (fst (fst (gstep k A g o))) x /\
    Forall (bdisj x) (others k A g o).
Proof.
  intros k h A o x a K HH g Hh.
  assert (S : forall g0, hist_wf k g0 (h ++ [(o, A)]) ->
              hist_wf k g0 h /\ wf_op k (grun2 k g0 h) o /\ A_ok k A (fst (grun2 k g0 h))).
  { clear. induction h as [|[o1 A1] r IH]; intros g0 H; cbn [app hist_wf grun2] in *.
    - tauto.
    - destruct H as (W & AO & H). destruct (IH _ H) as (H1 & H2 & H3). tauto. }
  destruct (S _ HH) as (H1 & H2 & H3).
  apply (C01_any_state k A g o x a K); try assumption.
  apply (grun2_inv k (fresh, []) h K (Inv2_fresh k) H1).
Qed.

(* a successful zero-sized request leaves the list of other blocks untouched *)
Theorem C01_zst :
  forall k A g l p,
    cfg_ok k -> Inv k g -> lay_ok l = true -> A_ok k A (fst g) -> l_size l = 0 ->
    o_res (snd (gstep k A g (OAlloc l))) = ROk p ->
    0 < p /\ others k A g (OAlloc l) = blocks g.
Proof.
  intros k A [b live] l p K [HC HB] Hl HA Z Hr.
  destruct (handed_out_aligned k A (b, live) (OAlloc l) (p, l_size l) (l_align l) K (conj HC HB) Hl HA)
    as (P0 & _).
  { cbn [gstep step handed_out fst snd] in *. rewrite Hr. reflexivity. }
  split; [exact P0|].
  unfold others, gstep, blocks in *. cbn [step live_step fst snd] in *. rewrite Hr. cbn [tl].
  destruct (try_alloc_inv k A b (live ++ slots b) l K HC HB HA (lay_ok_pow2 l Hl)) as (_ & _ & T & _).
  unfold slots. rewrite T. reflexivity.
Qed.

(* non-vacuity: a concrete history satisfies hist_ok and hands out two disjoint blocks *)
Example C01_witness :
  let k := mkCfg 48 16 64 448 4096 8 4000 in
  let A0 := follow k [mkGreq 496 16 (Some 8192)] in
  let A := follow k [] in
  let g := grun2 k (fresh, []) [(OWithCapacity 1, A0); (OAlloc (mkLayout 24 8), A)] in
  snd g = [(8616, 24)] /\
  handed_out (OAlloc (mkLayout 5 1)) (o_res (snd (gstep k A g (OAlloc (mkLayout 5 1))))) = Some ((8608, 5), 1).
Proof. vm_compute. split; reflexivity. Qed.

Print Assumptions C01_any_state.
Print Assumptions C01_reachable.
Print Assumptions C01_every_step.
Print Assumptions C01_rewind_safe.
Print Assumptions C01_alloc_in_bounds_disjoint.
Print Assumptions C01_zst.

(* ---- tie to the source text: try_alloc_layout_fast as parsed from /repo/src on every run
   (tools/rs2v.py -> LeafActual.v, evaluated by RustSem.eval) is the model's fast_ptr ---- *)
From BV Require Import RustSem ConstsActual LeafActual LeafActualOk.
From Coq Require Import String.
Open Scope string_scope.
Open Scope N_scope.
Theorem C01_source_fast_path : forall m e0 start ptr l,
  pow2 m -> pow2 (l_align l) -> m < W -> l_align l < W -> ptr < W -> start <= ptr ->
  l_size l + (l_align l - 1) < W ->
  call_fn src_fns (List.app (self_chunk start ptr) (cenv m)) "try_alloc_layout_fast" [vlayout l]
  = Ret (vopt (fast_ptr (actual m e0) start ptr l)).
Proof. exact src_try_alloc_layout_fast_ok. Qed.
Print Assumptions C01_source_fast_path.

(* new_chunk as the source has it: the layout asked of the global allocator, the footer position,
   the initial finger (the footer address rounded down to MIN_ALIGN) and the running total are the
   fields of ArenaModel.new_chunk (c_foot = data + nswf, c_ptr = rdown (data + nswf) malign,
   c_ab = ab_of b + nswf); the footer write and the allocator call are present as text *)
Theorem C01_source_new_chunk : forall m data nswf size align ab a b c,
  pow2 m -> m < W -> data + nswf < W -> ab + nswf < W ->
  let en := List.app [("size", VN size); ("align", VN align); ("data", VN data);
                      ("new_size_without_footer", VN nswf)] (cenv m) in
  let args := [a; b; VRec [("allocated_bytes", VN ab)]] in
  call_fn src_fns en "new_chunk_layout" [a; b; c]
    = Ret (if layout_ok size align then vlayout (mkLayout size align) else VNone) /\
  call_fn src_fns en "new_chunk_footer_at" [a; b; c] = Ret (VN (data + nswf)) /\
  call_fn src_fns en "new_chunk_finger" [a; b; c] = Ret (VN (rdown (data + nswf) m)) /\
  call_fn src_fns en "new_chunk_allocated_bytes" args = Ret (VN (ab + nswf)).
Proof. exact src_new_chunk_ok. Qed.
Print Assumptions C01_source_new_chunk.
