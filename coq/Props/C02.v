(* C02 — Allocation contents are initialised as specified and stay intact. *)
From BV Require Import Word WordFacts ArenaModel ArenaSpec ArenaInv ArenaSafe ArenaSafeThm ArenaMem.
From Coq Require Import Lia.

(* The arena itself writes client-visible bytes only in grow/shrink/realloc (the
   copies recorded in o_copies); everything else only moves fingers.  Those
   copies stay inside the block handed out ... *)
Theorem C02_shrink_copies :
  forall k A b rest p old new q,
    cfg_ok k -> ChunksInv k (chunks b) -> BlocksInv k (chunks b) rest -> A_ok k A b ->
    In (p, l_size old) rest -> l_size new <= l_size old -> pow2 (l_align new) ->
    o_res (snd (shrink k A b p old new)) = ROk q ->
    Forall (copy_within_blk (q, l_size new)) (o_copies (snd (shrink k A b p old new))) /\
    Forall copy_legal (o_copies (snd (shrink k A b p old new))) /\
    (q = p \/ moves_prefix (snd (shrink k A b p old new)) p q (l_size new)).
Proof. exact shrink_copies. Qed.

Theorem C02_grow_copies :
  forall k A b rest p old new q,
    cfg_ok k -> ChunksInv k (chunks b) -> BlocksInv k (chunks b) rest -> A_ok k A b ->
    In (p, l_size old) rest -> l_size old <= l_size new -> pow2 (l_align new) -> pow2 (l_align old) ->
    o_res (snd (grow k A b p old new)) = ROk q ->
    Forall (copy_within_blk (q, l_size new)) (o_copies (snd (grow k A b p old new))) /\
    Forall copy_legal (o_copies (snd (grow k A b p old new))) /\
    moves_prefix (snd (grow k A b p old new)) p q (l_size old).
Proof. exact grow_copies. Qed.

(* ... so, the block handed out being disjoint from every other live block (C01),
   no byte of any other live block changes *)
Theorem C02_frame :
  forall cs m x a, Forall (copy_within_blk x) cs -> (a < fst x \/ fst x + snd x <= a) ->
    apply_copies m cs a = m a.
Proof. intros cs m x a. apply apply_copies_frame. Qed.

(* operations other than grow/shrink/realloc copy nothing at all *)
Theorem C02_alloc_copies_nothing :
  forall k A b l, o_copies (snd (try_alloc k A b l)) = [].
Proof. exact try_alloc_no_copies. Qed.

Theorem C02_dealloc_copies_nothing :
  forall k b p l, o_copies (snd (dealloc k b p l)) = [].
Proof. intros k b p l. unfold dealloc. destruct (_ =? _); reflexivity. Qed.
(* Initialisation order of the typed flavours (fill_with call order, iterator
   consumption order) is glue outside the model: decided by the driver's call
   logs and by re-reading every live block after every fourth operation. *)

Example C02_witness :
  let k := mkCfg 48 16 64 448 4096 1 1000 in
  let b := run k fresh [(OWithCapacity 1, follow k [mkGreq 496 16 (Some 4096)]);
                        (OAlloc (mkLayout 10 1), follow k [])] in
  let r := shrink k (follow k []) b 4534 (mkLayout 10 1) (mkLayout 4 1) in
  o_res (snd r) = ROk 4540 /\
  apply_copies (fun a => a) (o_copies (snd r)) 4541 = 4535.
Proof. vm_compute. split; reflexivity. Qed.

Print Assumptions C02_shrink_copies.
Print Assumptions C02_grow_copies.
Print Assumptions C02_frame.
Print Assumptions C02_alloc_copies_nothing.
Print Assumptions C02_dealloc_copies_nothing.

(* ---------- the source tie: how /repo places values (pinned statements of lib.rs, re-checked on every
   run): alloc_with writes f()'s result once into the reserved slot; alloc_slice_copy copies exactly
   src.len() elements from src; alloc_slice_clone and the fill methods write index i with the i-th
   clone / f(i) / the iterator's next item, for i = 0, 1, .. in order, one call per index;
   alloc_str copies the bytes ---------- *)
From BV Require Import RustSem LeafActual LeafActualOk.
From Coq Require Import String.
Theorem C02_source_frames :
  Forall (fun n => lookup n src_frames = Some true)
    ["alloc_with_writes_result_once"; "alloc_with_inner_writer"; "slice_copy_copies_len_elements";
     "slice_clone_in_order"; "alloc_str_copies_bytes"; "slice_fill_in_index_order";
     "try_slice_fill_in_index_order"; "slice_fill_iter_takes_next_per_index"]%string.
Proof. repeat (constructor; [vm_compute; reflexivity|]). constructor. Qed.
Print Assumptions C02_source_frames.

(* ---------- the loop of alloc_slice_fill_with / try_alloc_slice_fill_with as /repo's source has it.
   tools/rs2v.py translates the `for i in 0..len` statement of both functions into the statement
   language of RustSem on every run (LeafActual.src_procs); the caller's closure is answered by a
   script (None: it panics).  For every length, destination and script: the closure is called with
   0, 1, 2, .. in that order, once per index, and each result is stored at dst + i before the next
   call; when no call panics all len indices are served; a panic at index k leaves exactly k stores ---------- *)
From BV Require Import DedupWalkOk TruncWalkOk FillWalkOk.
From Coq Require Import List.
Import ListNotations.
Theorem C02_source_fill_loop : forall len dst tr sc f, dst + len < W ->
  (N.to_nat len <= List.length sc)%nat ->
  let '(t, q, b) := frun dst (N.to_nat len) 0 sc in
  exec src_fns (S (S (S (S (S (S f)))))) (fenv0 len dst) tr sc floop =
  if b then XPanic (fenv len dst q) (List.app tr t)
  else XOk (fenv len dst q) (List.app tr t) (skipn (N.to_nat len) sc).
Proof. exact loop_is_frun. Qed.

Theorem C02_source_try_fill_loop_is_the_same : tfloop = floop.
Proof. exact (proj2 floop_is). Qed.

Theorem C02_fill_calls_in_index_order : forall j dst i sc,
  (j <= List.length sc)%nat -> forallb returns (firstn j sc) = true ->
  frun dst j i sc = (filled dst j i, i + N.of_nat j, false) /\
  map (fun e : effect => snd e) (filter (fun e : effect => String.eqb (fst e) "f") (filled dst j i))
    = map (fun k => [VN (i + N.of_nat k)]) (seq 0 j) /\
  map (fun e : effect => snd e) (filter (fun e : effect => String.eqb (fst e) "write") (filled dst j i))
    = map (fun k => [VN (dst + (i + N.of_nat k))]) (seq 0 j).
Proof.
  intros j dst i sc H1 H2. split; [apply frun_all_return; assumption|].
  split; [apply filled_asks | apply filled_writes].
Qed.

Print Assumptions C02_source_fill_loop.
Print Assumptions C02_source_try_fill_loop_is_the_same.
Print Assumptions C02_fill_calls_in_index_order.
