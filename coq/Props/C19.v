(* C19 — Impossible sizes are refused, never wrapped (Vec/RawVec model part). *)
From BV Require Import Word WordFacts VecModel VecFacts.
From Coq Require Import Lia.

(* a reservation that succeeds really covers what it claims, and the byte size
   of the buffer is a representable array size *)
Theorem C19_reserve_covers : forall e v c extra exact, repr e v c ->
  match try_reserve e v extra exact with
  | inl v' => repr e v' c /\ v_len v + extra <= v_cap v' /\ e_size e * v_cap v' <= ISIZE_MAX
  | inr _ => True
  end.
Proof.
  intros e v c extra exact R. pose proof (try_reserve_spec e v c extra exact R) as H.
  destruct (try_reserve e v extra exact) as [v'|]; [|exact I].
  destruct H as (R' & H1 & _). conj; [exact R' | exact H1 | destruct R' as (_ & _ & Hc & _); exact Hc].
Qed.

(* a request whose total byte size cannot be represented is refused *)
Theorem C19_reserve_refuses : forall e v c extra exact, repr e v c ->
  ISIZE_MAX < e_size e * (v_len v + extra) ->
  exists err, try_reserve e v extra exact = inr err.
Proof. exact try_reserve_refuses. Qed.

Theorem C19_with_capacity : forall e n, ecfg_ok e ->
  match vwith_capacity e n with
  | Ret v => repr e v [] /\ (n <= v_cap v \/ e_size e * n = 0) /\ e_size e * n <= ISIZE_MAX
  | Panic _ => ISIZE_MAX < e_size e * n + (e_align e - 1) \/ ARENA_GRANTS <= e_size e * n
  end.
Proof. exact vwith_capacity_spec. Qed.

(* the arena-side entry points are covered by Props/C09 (no overflow panic in
   new_chunk_memory_details) and by layout_ok in the arena model *)

Example C19_witness :
  let e := mkEcfg 24 8 in
  (match try_reserve e (mkVec [] 0) 384307168202282326 false with inr CapacityOverflow => true | _ => false end) = true /\
  (match try_reserve e (mkVec [] 0) 384307168202282325 false with inr AllocErr => true | _ => false end) = true.
Proof. vm_compute. split; reflexivity. Qed.

Print Assumptions C19_reserve_covers.
Print Assumptions C19_reserve_refuses.
Print Assumptions C19_with_capacity.

(* ---- tie to the source text: the functions below are parsed from /repo/src on every run
   (tools/rs2v.py -> LeafActual.v) and evaluated by RustSem.eval ---- *)
From BV Require Import RustSem ConstsActual LeafActual LeafActualOk VecSourceOk.
From Coq Require Import String.
Open Scope string_scope.
Open Scope N_scope.

Theorem C19_source_amortized : forall cap used extra, cap * 2 < W ->
  call_fn src_fns [("self", VRec [("cap", VN cap)])] "amortized_new_size" [VN used; VN extra]
  = Ret (vopt (match checked_add used extra with Some r => Some (N.max (cap * 2) r) | None => None end)).
Proof. exact src_amortized_new_size_ok. Qed.
Print Assumptions C19_source_amortized.

(* the reserve machinery of RawVec as the source has it: cap(), the inlined "there is room already"
   shortcut of both reserve_internal wrappers (the test VecModel.try_reserve makes first), and the
   capacity asked for under either strategy *)
Theorem C19_source_cap : forall es cap,
  call_fn src_fns [("self", VRec [("cap", VN cap)]); ("size_of_T", VN es)] "cap" []
  = Ret (VN (if es =? 0 then USIZE_MAX else cap)).
Proof. exact src_cap_ok. Qed.

Theorem C19_source_reserve_shortcut : forall (v : VecModel.vec) extra strat,
  call_fn src_fns [("self", VRec [("cap", VN (VecModel.v_cap v))])] "fallible_reserve_has_room"
          [VN (VecModel.v_len v); VN extra; strat]
  = Ret (VB (extra <=? wsub (VecModel.v_cap v) (VecModel.v_len v))) /\
  call_fn src_fns [("self", VRec [("cap", VN (VecModel.v_cap v))])] "infallible_reserve_has_room"
          [VN (VecModel.v_len v); VN extra; strat]
  = Ret (VB (extra <=? wsub (VecModel.v_cap v) (VecModel.v_len v))).
Proof. intros v extra strat. exact (src_reserve_has_room_ok (VecModel.v_cap v) (VecModel.v_len v) extra strat). Qed.

Theorem C19_source_new_cap : forall cap used extra f strat, cap * 2 < W ->
  call_fn src_fns [("self", VRec [("cap", VN cap)])] "reserve_new_cap_exact" [VN used; VN extra; f; strat]
  = Ret (vtry (checked_add used extra)) /\
  call_fn src_fns [("self", VRec [("cap", VN cap)])] "reserve_new_cap_amortized" [VN used; VN extra; f; strat]
  = Ret (vtry (match checked_add used extra with Some r => Some (N.max (cap * 2) r) | None => None end)).
Proof. exact src_reserve_new_cap_ok. Qed.

Print Assumptions C19_source_cap.
Print Assumptions C19_source_reserve_shortcut.
Print Assumptions C19_source_new_cap.

From BV Require Import VecFacts2.
(* extend_from_slices_copy: slice lengths that add up to 2^64 or more are refused, never wrapped *)
Theorem C19_slices_sum_refused : forall e v slices lens,
  W <= fold_right N.add 0 lens -> extend_slices_copy e v slices lens = VecModel.Panic VecModel.PCapacity.
Proof. exact extend_slices_overflow_refused. Qed.
Print Assumptions C19_slices_sum_refused.
