(* C17 — boxed::Box owns its value like std's Box without owning memory (model part). *)
From BV Require Import Word BoxModel.
From Coq Require Import Lia Permutation.

Theorem C17_drop_once_no_release : forall w b,
  Permutation (accounted (box_drop w b)) (accounted w ++ b_ids b) /\ w_arena (box_drop w b) = w_arena w.
Proof. exact box_drop_once. Qed.

Theorem C17_into_inner_moves : forall w b,
  w_dropped (box_into_inner w b) = w_dropped w /\
  w_given (box_into_inner w b) = w_given w ++ b_ids b /\
  w_arena (box_into_inner w b) = w_arena w.
Proof. exact box_into_inner_moves. Qed.

Theorem C17_leak_never_drops : forall w b,
  w_dropped (box_leak w b) = w_dropped w /\ w_arena (box_leak w b) = w_arena w.
Proof. exact box_leak_never_drops. Qed.

Theorem C17_new_one_alloc : forall w ptr x tag size align,
  w_arena (fst (box_new w ptr x tag size align)) = w_arena w ++ [AReq_alloc size align] /\
  b_ids (snd (box_new w ptr x tag size align)) = [x] /\
  w_dropped (fst (box_new w ptr x tag size align)) = w_dropped w.
Proof. exact box_new_one_alloc. Qed.

Theorem C17_array_slice_roundtrip : forall b n,
  match box_try_array b n with
  | inl b' => b' = b /\ N.of_nat (length (b_ids b)) = n
  | inr b' => b' = b /\ N.of_nat (length (b_ids b)) <> n
  end.
Proof. exact box_try_array_preserves. Qed.

Theorem C17_downcast_iff_tag : forall b target,
  match box_downcast b target with
  | inl b' => b' = b /\ b_tag b = target
  | inr b' => b' = b /\ b_tag b <> target
  end.
Proof. exact box_downcast_iff_tag. Qed.

Theorem C17_life : forall ptr x tag size align (convs : list (bx -> bx)),
  (forall f, In f convs -> forall b, f b = b) ->
  let (w1, b1) := box_new bw0 ptr x tag size align in
  let b2 := fold_left (fun b f => f b) convs b1 in
  let w2 := box_drop w1 b2 in
  w_dropped w2 = [x] /\ w_given w2 = [] /\ w_arena w2 = [AReq_alloc size align].
Proof. exact box_life. Qed.
(* The model is deliberately thin: Box is a pointer plus ownership.  Trait
   forwarding (Eq/Ord/Hash/Display/Debug/Iterator/Future/Deref) is one-line glue
   with no state; it is decided by the differential against std::boxed::Box only. *)

Example C17_witness :
  let (w1, b) := box_new bw0 4096 7 1 24 8 in
  match box_downcast b 2 with
  | inr b' => w_dropped (box_drop w1 b') = [7] /\ w_arena (box_drop w1 b') = [AReq_alloc 24 8]
  | inl _ => False
  end.
Proof. vm_compute. split; reflexivity. Qed.

Print Assumptions C17_drop_once_no_release.
Print Assumptions C17_into_inner_moves.
Print Assumptions C17_leak_never_drops.
Print Assumptions C17_new_one_alloc.
Print Assumptions C17_array_slice_roundtrip.
Print Assumptions C17_downcast_iff_tag.
Print Assumptions C17_life.

(* ---------- the source tie: the statements of boxed.rs the model's operations stand for, pinned as
   text and re-checked against /repo on every run (BoxSourceOk.v) ---------- *)
From BV Require Import RustSem LeafActual BoxSourceOk.
From Coq Require Import String.
Theorem C17_source_frames :
  forallb snd src_frames_box = true /\
  map fst src_frames_box =
  ["box_drop_runs_destructor_only"; "box_new_allocates_in_arena"; "box_into_inner_reads_out";
   "box_from_raw_wraps"; "box_into_raw_forgets"; "box_leak_is_into_raw"; "box_array_to_slice";
   "box_slice_to_array"; "box_downcast_any"; "box_downcast_any_send"]%string.
Proof. split; [exact src_frames_box_ok | exact src_frames_box_names]. Qed.
Print Assumptions C17_source_frames.
