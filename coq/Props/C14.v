(* C14 — collections::String is always UTF-8; the decoders accept, reject and
   repair like the standard prescribes (model part). *)
From BV Require Import Word Utf8 Utf8Facts LossyTableActual LossyTableOk.
From Coq Require Import Lia.

(* [Valid bs]: bs is a concatenation of well-formed characters (Unicode Table 3-7). *)

(* splitting a valid text at a char boundary, and joining valid texts, keep validity:
   every boundary-checking String operation is built from these two *)
Theorem C14_split_at_boundary :
  forall s, Valid s -> forall i, (i <= length s)%nat -> boundary s i ->
    Valid (firstn i s) /\ Valid (skipn i s).
Proof. exact Valid_split. Qed.

Theorem C14_concat : forall a b, Valid a -> Valid b -> Valid (a ++ b).
Proof. exact Valid_app. Qed.

(* the operations that take byte indices either panic or leave valid text *)
Theorem C14_truncate : forall s n s', Valid s -> s_truncate s n = SRet s' -> Valid s'.
Proof. exact s_truncate_valid. Qed.
Theorem C14_insert_str : forall s i t s', Valid s -> Valid t -> s_insert_str s i t = SRet s' -> Valid s'.
Proof. exact s_insert_str_valid. Qed.
Theorem C14_split_off : forall s i a b, Valid s -> s_split_off s i = SRet (a, b) -> Valid a /\ Valid b.
Proof. exact s_split_off_valid. Qed.
Theorem C14_remove : forall s i s' ch, Valid s -> s_remove s i = SRet (s', ch) -> Valid s' /\ wf_char ch.
Proof. exact s_remove_valid. Qed.
Theorem C14_replace_range : forall s a b t s',
  Valid s -> Valid t -> s_replace_range s a b t = SRet s' -> Valid s'.
Proof. exact s_replace_range_valid. Qed.

(* from_utf8 accepts exactly the well-formed byte strings *)
Theorem C14_from_utf8 : forall bs, valid_utf8 bs = true <-> Valid bs.
Proof. exact valid_utf8_iff. Qed.

(* the lossy decoder, with the width table the built crate reports (obligation
   actual_table_ok, re-checked on every run): nothing is lost chunk by chunk, the
   output is always well-formed, well-formed input comes back unchanged *)
Theorem C14_lossy_chunk : forall src c rest,
  next_chunk actual_width src = Some (c, rest) ->
  ch_valid c ++ ch_broken c ++ rest = src /\ Valid (ch_valid c) /\
  (length rest < length src)%nat /\ (ch_broken c = [] -> rest = []).
Proof. intros src c rest. apply next_chunk_spec. exact actual_table_ok. Qed.

Theorem C14_lossy_valid : forall v, Valid (from_utf8_lossy actual_width v).
Proof. intros v. apply from_utf8_lossy_valid. exact actual_table_ok. Qed.

Theorem C14_lossy_identity : forall v, Valid v -> from_utf8_lossy actual_width v = v.
Proof. intros v. apply from_utf8_lossy_id. exact actual_table_ok. Qed.
(* Not theorems: from_utf16_in and the operations that do not take byte indices
   (differential against std::string::String only). *)

Example C14_witness :
  from_utf8_lossy actual_width [97; 240; 159; 152; 98] = [97; 239; 191; 189; 98] /\
  valid_utf8 [237; 160; 128] = false /\
  (match s_truncate [195; 169; 97] 1 with SPanic => true | _ => false end) = true.
Proof. vm_compute. repeat split; reflexivity. Qed.

Print Assumptions C14_split_at_boundary.
Print Assumptions C14_concat.
Print Assumptions C14_truncate.
Print Assumptions C14_insert_str.
Print Assumptions C14_split_off.
Print Assumptions C14_remove.
Print Assumptions C14_replace_range.
Print Assumptions C14_from_utf8.
Print Assumptions C14_lossy_chunk.
Print Assumptions C14_lossy_valid.
Print Assumptions C14_lossy_identity.

(* ---- the repair is the one the Unicode standard and std prescribe (Utf8Lossy.v) ---- *)
From BV Require Import Utf8Lossy.

(* for every byte string: well-formed characters are copied, every maximal subpart of an
   ill-formed sequence becomes exactly one U+FFFD.  utf8_lossy_spec is defined without
   reference to the implementation; the checker also compares it with std's output. *)
Theorem C14_lossy_is_maximal_subpart_repair :
  forall v, from_utf8_lossy actual_width v = utf8_lossy_spec v.
Proof. intros v. apply from_utf8_lossy_is_spec. exact actual_table_ok. Qed.
Print Assumptions C14_lossy_is_maximal_subpart_repair.

(* ---- chars: encoding, push, insert (Utf8Enc.v) ---- *)
From BV Require Import Utf8Enc.

Theorem C14_encode_wellformed : forall cp, scalar cp = true -> wf_char (encode cp).
Proof. exact encode_wf. Qed.

Theorem C14_decode_encode : forall cp rest, scalar cp = true -> decode (encode cp ++ rest) = Some cp.
Proof. exact decode_encode. Qed.

Theorem C14_push : forall s cp, Valid s -> scalar cp = true -> Valid (s_push s cp).
Proof. exact s_push_valid. Qed.

Theorem C14_insert : forall s i cp s', Valid s -> scalar cp = true -> s_insert s i cp = SRet s' -> Valid s'.
Proof. exact s_insert_valid. Qed.

Theorem C14_insert_panics_off_boundary : forall s i cp,
  is_char_boundary s i && (i <=? N.of_nat (length s)) = false -> s_insert s i cp = SPanic.
Proof. exact s_insert_panics. Qed.

Print Assumptions C14_encode_wellformed.
Print Assumptions C14_decode_encode.
Print Assumptions C14_push.
Print Assumptions C14_insert.
Print Assumptions C14_insert_panics_off_boundary.

Theorem C14_retain : forall s keep, Valid s -> Valid (s_retain s keep).
Proof. exact s_retain_valid. Qed.

Theorem C14_retain_all_is_identity : forall s keep,
  Valid s -> (length (chars s) <= length keep)%nat -> Forall (fun k => k = true) keep -> s_retain s keep = s.
Proof. exact s_retain_all. Qed.

Theorem C14_pop : forall s, Valid s -> s <> [] ->
  exists ch cp, s_pop s = (fst (s_pop s), Some cp) /\ fst (s_pop s) ++ ch = s /\ wf_char ch /\
                decode ch = Some cp /\ Valid (fst (s_pop s)).
Proof. exact s_pop_spec. Qed.

Print Assumptions C14_retain.
Print Assumptions C14_retain_all_is_identity.
Print Assumptions C14_pop.

(* from_utf16_in: what it accepts is valid UTF-8; it accepts exactly the well-formed UTF-16 texts
   (concatenated encode_utf16 of scalar values) and yields the UTF-8 of the same scalar values *)
Theorem C14_from_utf16_valid : forall us bs, Forall (fun u => u < 65536) us -> from_utf16 us = Some bs -> Valid bs.
Proof. exact from_utf16_valid. Qed.

Theorem C14_from_utf16_roundtrip : forall cps, Forall (fun cp => scalar cp = true) cps ->
  from_utf16 (concat (map enc16 cps)) = Some (concat (map encode cps)).
Proof. exact from_utf16_roundtrip. Qed.

Theorem C14_from_utf16_exact : forall us, Forall (fun u => u < 65536) us ->
  (exists bs, from_utf16 us = Some bs) <->
  (exists cps, Forall (fun cp => scalar cp = true) cps /\ us = concat (map enc16 cps)).
Proof. exact from_utf16_exact. Qed.

Example C14_from_utf16_example :
  from_utf16 [97; 55348; 56606; 8364] = Some [97; 240; 157; 132; 158; 226; 130; 172] /\ from_utf16 [97; 56606] = None.
Proof. vm_compute. split; reflexivity. Qed.

Print Assumptions C14_from_utf16_valid.
Print Assumptions C14_from_utf16_roundtrip.
Print Assumptions C14_from_utf16_exact.

(* tie to the source text: the loop body of Utf8LossyChunksIter::next, parsed from lossy.rs on every
   run (LossyProgActual.v) and given meaning by Utf8Prog.run_prog, decides exactly as the model's
   scan_step on every byte string at every position *)
From BV Require Import Utf8Prog LossyProgActual LossyProgOk.
Theorem C14_source_decoder : forall src i, bytes src ->
  run_prog lossy_prog_actual actual_width src i = scan_step actual_width src i.
Proof. intros src i B. exact (lossy_source_ok actual_width src i B). Qed.

Print Assumptions C14_source_decoder.

(* every well-formed character is the encoding of exactly one scalar value (with C14_decode_encode:
   encode and decode are mutually inverse between scalar values and well-formed characters) *)
Theorem C14_encode_decode : forall ch cp, wf_char ch -> decode ch = Some cp -> scalar cp = true /\ encode cp = ch.
Proof. exact encode_decode. Qed.

(* extend(chars) is one push per item; extending by the characters of a valid text appends it *)
Theorem C14_extend : forall s cps, Valid s -> Forall (fun cp => scalar cp = true) cps ->
  Valid (s_extend s cps) /\ s_extend s cps = s ++ concat (map encode cps).
Proof. intros s cps V F. split; [apply s_extend_valid; assumption | apply s_extend_spec]. Qed.

Theorem C14_extend_by_text : forall s t cps, Valid t -> map decode (chars t) = map Some cps ->
  Forall (fun cp => scalar cp = true) cps -> s_extend s cps = s ++ t.
Proof. exact s_extend_chars. Qed.

Theorem C14_push_str : forall s t, Valid s -> Valid t -> Valid (s_push_str s t).
Proof. exact s_push_str_valid. Qed.

Print Assumptions C14_encode_decode.
Print Assumptions C14_extend.
Print Assumptions C14_extend_by_text.
Print Assumptions C14_push_str.

(* ---------- the byte moves of remove / insert / insert_str / pop / truncate as /repo's source has
   them (LeafActual.v, regenerated on every run): which addresses and lengths go to ptr::copy and
   set_len, for every text length, index, character width and inserted length ---------- *)
From BV Require Import RustSem LeafActual LeafActualOk VecSourceOk StringSourceOk Memmove StringSource.
From Coq Require Import String.
Close Scope string_scope.

Theorem C14_source_remove : forall len base i w, i + w <= len -> base + len < W ->
  let en := ("ch"%string, vch w) :: sself len base in
  let args := [VN i] in
  call_fn src_fns en "string_remove_next" args = RustSem.Ret (VN (i + w)) /\
  call_fn src_fns en "string_remove_copy_src" args = RustSem.Ret (VN (base + (i + w))) /\
  call_fn src_fns en "string_remove_copy_dst" args = RustSem.Ret (VN (base + i)) /\
  call_fn src_fns en "string_remove_copy_len" args = RustSem.Ret (VN (len - (i + w))) /\
  call_fn src_fns en "string_remove_new_len" args = RustSem.Ret (VN (len - w)).
Proof. exact src_string_remove_ok. Qed.

Theorem C14_source_insert_bytes : forall len base i amt src, i <= len -> base + len + amt < W ->
  let en := sself len base in
  let args := [VN i; vbytes amt src] in
  call_fn src_fns en "string_insert_reserve" args = RustSem.Ret (VN amt) /\
  call_fn src_fns en "string_insert_shift_src" args = RustSem.Ret (VN (base + i)) /\
  call_fn src_fns en "string_insert_shift_dst" args = RustSem.Ret (VN (base + (i + amt))) /\
  call_fn src_fns en "string_insert_shift_len" args = RustSem.Ret (VN (len - i)) /\
  call_fn src_fns en "string_insert_write_src" args = RustSem.Ret (vbytes amt src) /\
  call_fn src_fns en "string_insert_write_dst" args = RustSem.Ret (VN (base + i)) /\
  call_fn src_fns en "string_insert_write_len" args = RustSem.Ret (VN amt) /\
  call_fn src_fns en "string_insert_new_len" args = RustSem.Ret (VN (len + amt)).
Proof. exact src_string_insert_bytes_ok. Qed.

Theorem C14_source_pop_truncate : forall len base w n, w <= len ->
  call_fn src_fns (("ch"%string, vch w) :: sself len base) "string_pop_new_len" [] = RustSem.Ret (VN (len - w)) /\
  call_fn src_fns (sself len base) "string_truncate_in_range" [VN n] = RustSem.Ret (VB (n <=? len)).
Proof. exact src_string_pop_truncate_ok. Qed.

(* String::drain resolves its range like Vec::drain: a bound of usize::MAX that would need +1 panics (F10);
   and the statements around the located expressions (boundary assertions first, then the moves) *)
Theorem C14_source_drain_bounds : forall len cap base s e,
  let en := vself len cap base in
  call_fn src_fns en "string_drain_start" [vrange s e] = opt_or_panic (VecModel.range_start s) /\
  call_fn src_fns en "string_drain_end" [vrange s e] = opt_or_panic (VecModel.range_end e len).
Proof. exact src_string_drain_bounds_ok. Qed.

Theorem C14_source_frames : forallb snd src_frames_string = true /\ List.length src_frames_string = 14%nat.
Proof. split; [exact src_frames_string_ok | reflexivity]. Qed.

(* those moves, done to a buffer with any spare capacity behind the text, give the model's result:
   remove takes out exactly the character at the index, insert opens a gap of exactly the inserted
   length and fills it, truncate keeps a prefix *)
Theorem C14_remove_assembled_from_source : forall s spare i rest removed,
  s_remove s i = SRet (rest, removed) ->
  remove_assembled s spare i (N.of_nat (List.length removed)) = rest /\
  char_len (skipn (N.to_nat i) s) = Some (List.length removed) /\
  i + N.of_nat (List.length removed) <= N.of_nat (List.length s).
Proof. exact remove_is_assembled. Qed.

Theorem C14_insert_assembled_from_source : forall s spare i t r,
  s_insert_str s i t = SRet r -> (List.length t <= List.length spare)%nat -> insert_assembled s spare i t = r.
Proof. exact insert_is_assembled. Qed.

Theorem C14_truncate_assembled_from_source : forall s spare n r,
  s_truncate s n = SRet r ->
  r = if n <=? N.of_nat (List.length s) then mlen (s ++ spare) (N.to_nat n) else s.
Proof. exact truncate_is_assembled. Qed.

(* the memmove facts themselves, for any cell type *)
Theorem C14_remove_by_memmove : forall (A : Type) (l spare : list A) i w, (i + w <= List.length l)%nat ->
  mlen (mcopy (l ++ spare) (i + w) i (List.length l - (i + w))) (List.length l - w) = firstn i l ++ skipn (i + w) l.
Proof. intros A. exact remove_by_memmove. Qed.

Theorem C14_insert_by_memmove : forall (A : Type) (l spare t : list A) i,
  (i <= List.length l)%nat -> (List.length t <= List.length spare)%nat ->
  mlen (mwrite (mcopy (l ++ spare) i (i + List.length t) (List.length l - i)) i t) (List.length l + List.length t)
  = firstn i l ++ t ++ skipn i l.
Proof. intros A. exact insert_by_memmove. Qed.

Print Assumptions C14_source_remove.
Print Assumptions C14_source_insert_bytes.
Print Assumptions C14_source_pop_truncate.
Print Assumptions C14_source_drain_bounds.
Print Assumptions C14_source_frames.
Print Assumptions C14_remove_assembled_from_source.
Print Assumptions C14_insert_assembled_from_source.
Print Assumptions C14_truncate_assembled_from_source.
Print Assumptions C14_remove_by_memmove.
Print Assumptions C14_insert_by_memmove.

(* String::retain as the loop of string.rs (StringRetain.v: buffer, idx, del_bytes, the move of a
   kept character by ptr::copy, the guard's set_len) computes the model's s_retain for every valid
   text and every script of non-panicking answers *)
From BV Require Import StringRetain.
Theorem C14_retain_loop_is_model : forall s keep, Valid s -> (List.length (chars s) <= List.length keep)%nat ->
  retain_run s (answers keep) = (s_retain s keep, false).
Proof. exact retain_run_is_s_retain. Qed.
Print Assumptions C14_retain_loop_is_model.

(* String::drain: what the Drain yields.  The characters of the range are yielded from the front,
   yielded from the back or left to be dropped — nothing twice, nothing lost — each of them a
   well-formed character, and the string keeps what is outside the range *)
Theorem C14_drain_yields : forall s a b front back d, Valid s -> s_drain s a b front back = SRet d ->
  let sub := firstn (N.to_nat b - N.to_nat a) (skipn (N.to_nat a) s) in
  sd_rest d = firstn (N.to_nat a) s ++ skipn (N.to_nat b) s /\ Valid (sd_rest d) /\
  Valid sub /\
  List.concat (sd_front d) ++ List.concat (sd_left d) ++ List.concat (List.rev (sd_back d)) = sub /\
  sd_front d = firstn front (chars sub) /\
  sd_back d = firstn back (List.rev (skipn front (chars sub))) /\
  Forall wf_char (sd_front d ++ sd_left d ++ sd_back d).
Proof. exact s_drain_spec. Qed.
Print Assumptions C14_drain_yields.

(* pop as the source writes it: the last character leaves by set_len(len - ch.len_utf8()) *)
Theorem C14_pop_assembled_from_source : forall s spare, Valid s ->
  match List.rev (chars s) with
  | [] => s = [] /\ s_pop s = ([], None)
  | ch :: _ => fst (s_pop s) = mlen (s ++ spare) (List.length s - List.length ch) /\ snd (s_pop s) = decode ch /\
               (List.length ch <= List.length s)%nat
  end.
Proof. exact pop_is_assembled. Qed.
Print Assumptions C14_pop_assembled_from_source.
