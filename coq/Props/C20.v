(* C20 — Arenas are isolated from each other, also across threads. *)
From BV Require Import Word ArenaModel ArenaSpec ArenaStruct Conc.
From Coq Require Import Lia.

(* a step on one arena leaves every other arena untouched *)
Theorem C20_frame :
  forall k w i j A o, i <> j -> nth_error (fst (wstep k w i A o)) j = nth_error w j.
Proof. exact wstep_frame. Qed.

(* what a step reports and the state it leaves depend only on that arena's own
   state and on the answers to its own requests *)
Theorem C20_local :
  forall k w i A o b, nth_error w i = Some b ->
    snd (wstep k w i A o) = snd (step k A b o) /\
    nth_error (fst (wstep k w i A o)) i = Some (fst (step k A b o)).
Proof. exact wstep_local. Qed.

(* every interleaving of several arenas' histories projects, for each arena, to
   its solo run *)
Theorem C20_projection :
  forall k h w i b, nth_error w i = Some b ->
    (forall e, In e h -> nth_error w (fst e) <> None) ->
    nth_error (wrun k w h) i = Some (run k b (proj i h)).
Proof. exact wrun_projection. Qed.

(* write footprint: the only bookkeeping words an operation writes are bump
   fingers in footers of chunks of the arena it acts on — never the shared
   static empty chunk, never another arena's chunk *)
Theorem C20_footprint_owned :
  forall k A b o, let r := step k A b o in Forall (own_footer (fst r)) (o_stores (snd r)).
Proof. exact step_stores_owned. Qed.

Theorem C20_chunkless_writes_nothing :
  forall k A l, o_stores (snd (step k A fresh (OAlloc l))) = [] \/
                exists g data, fst (A fresh (ForLayout l)) = AcqSome g data.
Proof.
  intros k A l. cbn [step]. unfold try_alloc, fast, stores_of. cbn [chunks fresh cur_start cur_ptr].
  destruct (fast_ptr k (k_eaddr k) (k_eaddr k) l); cbn [fst snd o_stores]; [left; reflexivity|].
  unfold slow. destruct (A fresh (ForLayout l)) as [a reqs]. destruct a as [|w|g data]; cbn [fst snd o_stores];
    [left; reflexivity | left; reflexivity | right; exists g, data; reflexivity].
Qed.

Example C20_witness :
  let k := mkCfg 48 16 64 448 4096 1 1000 in
  o_stores (snd (step k (follow k []) fresh (OAlloc (mkLayout 0 1)))) = [] /\
  o_res (snd (step k (follow k []) fresh (OAlloc (mkLayout 0 1)))) = ROk 1000.
Proof. vm_compute. split; reflexivity. Qed.

Print Assumptions C20_frame.
Print Assumptions C20_local.
Print Assumptions C20_projection.
Print Assumptions C20_footprint_owned.
Print Assumptions C20_chunkless_writes_nothing.
