(* VecModel.v — executable model of bumpalo::collections::Vec<T> over RawVec<T>
   for element types of non-zero size (src/collections/vec.rs, raw_vec.rs).
   Elements are identities (N): ownership is logical, memory is bitwise — a
   ptr::read leaves the bits in place, exactly as in the code, so a stale copy
   that becomes reachable or is dropped again shows up as a duplicate identity.
   No proofs in this file. *)
From BV Require Import Word.

(* ---------- buffers ---------- *)
Notation slot := (option N).             (* None = uninitialised memory *)

Record vec := mkVec {
  v_buf : list slot;                     (* the RawVec buffer: one slot per unit of capacity *)
  v_len : N
}.
Definition v_cap (v : vec) : N := N.of_nat (length (v_buf v)).

Record ecfg := mkEcfg { e_size : N; e_align : N }.   (* size_of::<T>() > 0, align_of::<T>() *)

Inductive pkind := PIndex | PCapacity | POom | PCallback | PArith.
Inductive outcome (A : Type) := Ret (a : A) | Panic (k : pkind).
Arguments Ret {A} a.
Arguments Panic {A} k.

(* what one call did besides its result *)
Record eff := mkEff {
  f_drops : list N;      (* identities whose destructor ran, in order *)
  f_clones : N           (* how many clones were made (fresh identities are next_id, next_id+1, ...) *)
}.
Definition no_eff : eff := mkEff [] 0.

(* ---------- list helpers (nat indices; API arguments are N, checked before conversion) ---------- *)
Definition nn (n : N) : nat := N.to_nat n.

Definition overwrite {A} (l : list A) (at_ : nat) (xs : list A) : list A :=
  firstn at_ l ++ firstn (length l - at_)%nat xs ++ skipn (at_ + length xs)%nat l.

(* ptr::copy(src, dst, n) within one buffer (memmove semantics) *)
Definition copy_within {A} (l : list A) (src dst n : nat) : list A :=
  overwrite l dst (firstn n (skipn src l)).

Definition get_slot (l : list slot) (i : nat) : N :=
  match nth i l None with Some x => x | None => 0 end.   (* reading uninitialised memory: never done on valid states *)

Definition set_slot (l : list slot) (i : nat) (x : N) : list slot := overwrite l i [Some x].

Definition contents (v : vec) : list N :=
  map (fun s => match s with Some x => x | None => 0 end) (firstn (nn (v_len v)) (v_buf v)).

(* ---------- RawVec: capacity arithmetic ---------- *)
(* the arena is assumed to grant any valid layout below this size and to refuse above it *)
Definition ARENA_GRANTS : N := 1099511627776.   (* 2^40 *)

Inductive rerr := CapacityOverflow | AllocErr.

(* the buffer after (re)allocation to new_cap slots *)
Definition resize_buf (buf : list slot) (new_cap : nat) : list slot :=
  firstn new_cap buf ++ repeat None (new_cap - length buf)%nat.

(* RawVec::reserve_internal *)
Definition reserve_internal (e : ecfg) (v : vec) (used extra : N) (exact : bool) : vec + rerr :=
  match (if exact then checked_add used extra
         else match checked_add used extra with
              | Some required => Some (N.max (v_cap v * 2) required)
              | None => None
              end) with
  | None => inr CapacityOverflow
  | Some new_cap =>
      match layout_array (e_size e) (e_align e) new_cap with
      | None => inr CapacityOverflow
      | Some l =>
          if l_size l <? ARENA_GRANTS
          then inl (mkVec (resize_buf (v_buf v) (nn new_cap)) (v_len v))
          else inr AllocErr
      end
  end.

(* RawVec::{try_,}reserve{,_exact} as called by Vec with used = len *)
Definition try_reserve (e : ecfg) (v : vec) (extra : N) (exact : bool) : vec + rerr :=
  if extra <=? wsub (v_cap v) (v_len v) then inl v
  else reserve_internal e v (v_len v) extra exact.

Definition reserve (e : ecfg) (v : vec) (extra : N) (exact : bool) : outcome vec :=
  match try_reserve e v extra exact with
  | inl v' => Ret v'
  | inr CapacityOverflow => Panic PCapacity
  | inr AllocErr => Panic POom
  end.

(* RawVec::allocate_in via Vec::with_capacity_in *)
Definition vwith_capacity (e : ecfg) (cap : N) : outcome vec :=
  match checked_mul cap (e_size e) with
  | None => Panic PCapacity
  | Some sz =>
      if sz =? 0 then Ret (mkVec [] 0)
      else if layout_ok sz (e_align e) then
        if sz <? ARENA_GRANTS then Ret (mkVec (repeat None (nn cap)) 0) else Panic POom
      else Panic PCapacity        (* Layout::from_size_align(..).unwrap() *)
  end.

(* Vec::shrink_to_fit *)
Definition shrink_to_fit (v : vec) : vec :=
  if v_cap v =? v_len v then v
  else mkVec (firstn (nn (v_len v)) (v_buf v)) (v_len v).

(* ---------- element operations ---------- *)
Definition push (e : ecfg) (v : vec) (x : N) : outcome vec :=
  match (if v_len v =? v_cap v then reserve e v 1 false else Ret v) with
  | Panic k => Panic k
  | Ret v1 => Ret (mkVec (set_slot (v_buf v1) (nn (v_len v1)) x) (v_len v1 + 1))
  end.

Definition pop (v : vec) : vec * option N :=
  if v_len v =? 0 then (v, None)
  else (mkVec (v_buf v) (v_len v - 1), Some (get_slot (v_buf v) (nn (v_len v - 1)))).

Definition insert (e : ecfg) (v : vec) (i x : N) : outcome vec :=
  if v_len v <? i then Panic PIndex
  else
    match (if v_len v =? v_cap v then reserve e v 1 false else Ret v) with
    | Panic k => Panic k
    | Ret v1 =>
        let len := nn (v_len v1) in
        let b1 := copy_within (v_buf v1) (nn i) (nn i + 1)%nat (len - nn i)%nat in
        Ret (mkVec (set_slot b1 (nn i) x) (v_len v1 + 1))
    end.

Definition remove (v : vec) (i : N) : outcome (vec * N) :=
  if i <? v_len v then
    let len := nn (v_len v) in
    let x := get_slot (v_buf v) (nn i) in
    Ret (mkVec (copy_within (v_buf v) (nn i + 1)%nat (nn i) (len - nn i - 1)%nat) (v_len v - 1), x)
  else Panic PIndex.

Definition swap_remove (v : vec) (i : N) : outcome (vec * N) :=
  if i <? v_len v then
    let last := get_slot (v_buf v) (nn (v_len v - 1)) in
    let old := get_slot (v_buf v) (nn i) in
    Ret (mkVec (set_slot (v_buf v) (nn i) last) (v_len v - 1), old)
  else Panic PIndex.

(* Vec::truncate: drops from the back, the length goes down before each drop.
   [boom] lists the identities whose destructor panics. *)
Fixpoint truncate_loop (buf : list slot) (boom : list N) (target cur : nat) (n : nat) (acc : list N)
  : nat * list N * bool :=        (* new length, drops, panicked *)
  match n with
  | O => (cur, acc, false)
  | S n' =>
      let x := get_slot buf (cur - 1)%nat in
      if existsb (N.eqb x) boom then ((cur - 1)%nat, acc ++ [x], true)
      else truncate_loop buf boom target (cur - 1)%nat n' (acc ++ [x])
  end.

Definition truncate (v : vec) (n : N) (boom : list N) : outcome vec * eff :=
  if n <? v_len v then
    let r := truncate_loop (v_buf v) boom (nn n) (nn (v_len v)) (nn (v_len v) - nn n)%nat [] in
    let v' := mkVec (v_buf v) (N.of_nat (fst (fst r))) in
    (if snd r then Panic PCallback else Ret v', mkEff (snd (fst r)) 0)
  else (Ret v, no_eff).
(* on a panic the vector is left as v' (SetLenOnDrop): see truncate_state *)
Definition truncate_state (v : vec) (n : N) (boom : list N) : vec :=
  if n <? v_len v then
    let r := truncate_loop (v_buf v) boom (nn n) (nn (v_len v)) (nn (v_len v) - nn n)%nat [] in
    mkVec (v_buf v) (N.of_nat (fst (fst r)))
  else v.

(* ---------- ranges: Vec::drain's bound arithmetic ---------- *)
Inductive bound := Incl (n : N) | Excl (n : N) | Unb.

(* start/end as the code computes them; None = the `n + 1` overflows (a panic in
   both debug and release after the checked_add repair) *)
Definition range_start (b : bound) : option N :=
  match b with Incl n => Some n | Excl n => checked_add n 1 | Unb => Some 0 end.
Definition range_end (b : bound) (len : N) : option N :=
  match b with Incl n => checked_add n 1 | Excl n => Some n | Unb => Some len end.

Definition drain_range (v : vec) (s e : bound) : outcome (N * N) :=
  match range_start s, range_end e (v_len v) with
  | Some a, Some b => if (a <=? b) && (b <=? v_len v) then Ret (a, b) else Panic PIndex
  | _, _ => Panic PIndex
  end.

(* drain(range), the caller takes [front] items from the front and [back] from
   the back (as many as there are), then drops the Drain *)
Record drained := mkDrained { d_vec : vec; d_taken_front : list N; d_taken_back : list N; d_dropped : list N }.

Definition drain (v : vec) (s e : bound) (front back : nat) : outcome drained :=
  match drain_range v s e with
  | Panic k => Panic k
  | Ret (a, b) =>
      let items := map (fun s => match s with Some x => x | None => 0 end)
                       (firstn (nn b - nn a)%nat (skipn (nn a) (v_buf v))) in
      let tf := firstn front items in
      let rest := skipn front items in
      let tb := rev (firstn back (rev rest)) in
      let dropped := firstn (length rest - back)%nat rest in
      let tail_len := (nn (v_len v) - nn b)%nat in
      let buf' := if Nat.eqb tail_len 0%nat then v_buf v
                  else copy_within (v_buf v) (nn b) (nn a) tail_len in
      Ret (mkDrained (mkVec buf' (a + N.of_nat tail_len)) tf (rev tb) dropped)
  end.

(* ---------- callbacks ---------- *)
Inductive cans := Yes | No | Boom.     (* what a user callback does on its next invocation *)

(* DrainFilter: state (buffer, idx, del).  One call of next(): scan from idx until the
   predicate says "remove" (the item is returned), the elements run out, or the
   predicate panics.  While the predicate runs, the element counts as removed
   (del is incremented before the call and decremented again if it is kept):
   if the predicate panics the element is leaked, never duplicated. *)
Inductive dfres := DfItem (x : N) | DfDone | DfBoom | DfStarved.

Fixpoint df_next (buf : list slot) (old_len idx del : nat) (ans : list cans) (fuel : nat) {struct fuel}
  : list slot * nat * nat * list cans * dfres :=
  match fuel with
  | O => (buf, idx, del, ans, DfDone)
  | S fuel' =>
      if Nat.eqb idx old_len then (buf, idx, del, ans, DfDone)
      else
        match ans with
        | [] => (buf, idx, del, ans, DfStarved)
        | Boom :: rest => (buf, (idx + 1)%nat, (del + 1)%nat, rest, DfBoom)
        | Yes :: rest => (buf, (idx + 1)%nat, (del + 1)%nat, rest, DfItem (get_slot buf idx))
        | No :: rest =>
            let buf' := if Nat.eqb del 0%nat then buf else copy_within buf idx (idx - del)%nat 1%nat in
            df_next buf' old_len (idx + 1)%nat del rest fuel'
        end
  end.

(* for_each(drop): call next() until it is exhausted *)
Fixpoint df_drain (buf : list slot) (old_len idx del : nat) (ans : list cans) (fuel : nat) (acc : list N)
  : list slot * nat * nat * list cans * list N * dfres :=
  match fuel with
  | O => (buf, idx, del, ans, acc, DfDone)
  | S fuel' =>
      let '(buf1, idx1, del1, ans1, r) := df_next buf old_len idx del ans (S old_len) in
      match r with
      | DfItem x => df_drain buf1 old_len idx1 del1 ans1 fuel' (acc ++ [x])
      | other => (buf1, idx1, del1, ans1, acc, other)
      end
  end.

(* the caller takes up to [take] items, then the DrainFilter is dropped *)
Record dfout := mkDfout { df_vec : vec; df_taken : list N; df_dropped : list N; df_panicked : bool }.

Fixpoint df_take (buf : list slot) (old_len idx del : nat) (ans : list cans) (take : nat) (acc : list N)
  : list slot * nat * nat * list cans * list N * dfres :=
  match take with
  | O => (buf, idx, del, ans, acc, DfDone)
  | S t =>
      let '(buf1, idx1, del1, ans1, r) := df_next buf old_len idx del ans (S old_len) in
      match r with
      | DfItem x => df_take buf1 old_len idx1 del1 ans1 t (acc ++ [x])
      | other => (buf1, idx1, del1, ans1, acc, other)
      end
  end.

Definition drain_filter (v : vec) (ans : list cans) (take : nat) : dfout :=
  let old_len := nn (v_len v) in
  let '(buf1, idx1, del1, ans1, taken, r1) := df_take (v_buf v) old_len 0%nat 0%nat ans take [] in
  match r1 with
  | DfBoom =>
      (* the predicate panicked in the caller's next(): the unwinding drops the DrainFilter,
         whose Drop drains the rest and then restores the length *)
      let '(buf2, idx2, del2, _, dropped, r2) := df_drain buf1 old_len idx1 del1 ans1 (S old_len) [] in
      match r2 with
      | DfBoom => mkDfout (mkVec buf2 0) taken dropped true     (* second panic: abort in reality *)
      | _ => mkDfout (mkVec buf2 (N.of_nat (old_len - del2)%nat)) taken dropped true
      end
  | _ =>
      let '(buf2, idx2, del2, _, dropped, r2) := df_drain buf1 old_len idx1 del1 ans1 (S old_len) [] in
      match r2 with
      | DfBoom =>
          (* the predicate panicked inside Drop: set_len is never reached, the vector
             stays empty and everything that was not handed out or dropped is leaked *)
          mkDfout (mkVec buf2 0) taken dropped true
      | _ => mkDfout (mkVec buf2 (N.of_nat (old_len - del2)%nat)) taken dropped false
      end
  end.

(* retain(f) = drain_filter(!f) dropped at once: [ans] answers "remove?" *)
Definition retain (v : vec) (ans : list cans) : dfout := drain_filter v ans 0%nat.

(* partition_dedup_by + truncate: [ans] answers same_bucket(read, prev_write) *)
Definition swap_slots (l : list slot) (i j : nat) : list slot :=
  let a := nth i l None in let b := nth j l None in
  overwrite (overwrite l i [b]) j [a].

Fixpoint dedup_loop (buf : list slot) (len next_read next_write : nat) (ans : list cans) (fuel : nat) {struct fuel}
  : list slot * nat * bool :=     (* buffer, next_write, panicked *)
  match fuel with
  | O => (buf, next_write, false)
  | S fuel' =>
      if Nat.ltb next_read len then
        match ans with
        | [] => (buf, next_write, false)
        | Boom :: _ => (buf, next_write, true)
        | Yes :: rest => dedup_loop buf len (next_read + 1)%nat next_write rest fuel'
        | No :: rest =>
            let buf' := if Nat.eqb next_read next_write then buf else swap_slots buf next_read next_write in
            dedup_loop buf' len (next_read + 1)%nat (next_write + 1)%nat rest fuel'
        end
      else (buf, next_write, false)
  end.

Definition dedup_by (v : vec) (ans : list cans) : outcome vec * eff :=
  let len := nn (v_len v) in
  if Nat.leb len 1%nat then (Ret v, no_eff)
  else
    let '(buf, nw, boom) := dedup_loop (v_buf v) len 1%nat 1%nat ans len in
    if boom then (Panic PCallback, no_eff)       (* elements only swapped: the vector keeps all of them *)
    else
      let v1 := mkVec buf (v_len v) in
      truncate v1 (N.of_nat nw) [].
Definition dedup_state (v : vec) (ans : list cans) : vec :=
  let len := nn (v_len v) in
  if Nat.leb len 1%nat then v
  else
    let '(buf, nw, boom) := dedup_loop (v_buf v) len 1%nat 1%nat ans len in
    if boom then mkVec buf (v_len v) else truncate_state (mkVec buf (v_len v)) (N.of_nat nw) [].

(* ---------- bulk insertion ---------- *)
Fixpoint write_all (buf : list slot) (at_ : nat) (xs : list N) : list slot :=
  match xs with
  | [] => buf
  | x :: r => write_all (set_slot buf at_ x) (at_ + 1)%nat r
  end.

(* extend_from_slice_copy / append / extend with an exact size hint: reserve(n), then write *)
Definition extend_copy (e : ecfg) (v : vec) (xs : list N) : outcome vec :=
  match reserve e v (N.of_nat (length xs)) false with
  | Panic k => Panic k
  | Ret v1 => Ret (mkVec (write_all (v_buf v1) (nn (v_len v1)) xs) (v_len v1 + N.of_nat (length xs)))
  end.

(* extend_from_slices_copy: the lengths are summed first (checked after the repair) *)
Definition sum_lens (ls : list N) : option N :=
  fold_left (fun acc n => match acc with Some a => checked_add a n | None => None end) ls (Some 0).

Definition extend_slices_copy (e : ecfg) (v : vec) (slices : list (list N)) (lens : list N) : outcome vec :=
  (* [lens] are the claimed slice lengths (they can exceed what a test can materialise) *)
  match sum_lens lens with
  | None => Panic PCapacity
  | Some total =>
      match reserve e v total false with
      | Panic k => Panic k
      | Ret v1 =>
          let xs := concat slices in
          Ret (mkVec (write_all (v_buf v1) (nn (v_len v1)) xs) (v_len v1 + N.of_nat (length xs)))
      end
  end.

(* resize(new_len, value): value has identity x; clones get next_id, next_id+1, ... *)
Definition resize (e : ecfg) (v : vec) (new_len x next_id : N) (boom : list N) : outcome vec * eff :=
  if v_len v <? new_len then
    let n := new_len - v_len v in
    match reserve e v n false with
    | Panic k => (Panic k, mkEff [x] 0)            (* the value passed in is dropped by the unwinding *)
    | Ret v1 =>
        let clones := map (fun i => next_id + N.of_nat i) (seq 0 (nn n - 1)%nat) in
        (Ret (mkVec (write_all (v_buf v1) (nn (v_len v1)) (clones ++ [x])) new_len),
         mkEff [] (n - 1))
    end
  else
    let r := truncate v new_len boom in
    (fst r, mkEff (f_drops (snd r) ++ [x]) 0).    (* the unused value is dropped at the end of resize *)

(* split_off(at): the tail moves to a fresh vector of exactly that capacity *)
Definition split_off (e : ecfg) (v : vec) (at_ : N) : outcome (vec * vec) :=
  if v_len v <? at_ then Panic PIndex
  else
    let other_len := v_len v - at_ in
    match vwith_capacity e other_len with
    | Panic k => Panic k
    | Ret o =>
        let tail := firstn (nn other_len) (skipn (nn at_) (v_buf v)) in
        Ret (mkVec (v_buf v) at_, mkVec (overwrite (v_buf o) 0%nat tail) other_len)
    end.

(* dropping the vector: every element of the initialised prefix, front to back *)
Definition drop_vec (v : vec) : list N := contents v.

(* Extend::extend: reserve(size_hint().0), then push the items one by one *)
Definition extend_iter (e : ecfg) (v : vec) (hint : N) (xs : list N) : outcome vec :=
  match reserve e v hint false with
  | Panic k => Panic k
  | Ret v1 =>
      fold_left (fun acc x => match acc with Panic k => Panic k | Ret w => push e w x end) xs (Ret v1)
  end.

(* into_bump_slice / into_bump_slice_mut / into_boxed_slice: pointer and length are read and the
   vector is forgotten — the slice (or boxed slice) is the initialised prefix of the buffer where it
   is; nothing is dropped, cloned or moved *)
Definition into_slice (v : vec) : list N * eff := (contents v, no_eff).

(* ---------- splice: Drain over the range, then Splice::drop ---------- *)
(* Drain::fill: write items into the gap [len, tail_start) while there are any;
   result: buffer, new vec.len, items left, whether the whole gap was filled *)
Fixpoint sp_fill (buf : list slot) (len gap : nat) (items : list N) : list slot * nat * list N * bool :=
  match gap with
  | O => (buf, len, items, true)
  | S g => match items with
           | [] => (buf, len, [], false)
           | x :: r => sp_fill (set_slot buf len x) (S len) g r
           end
  end.

(* Drain::move_tail(extra): buf.reserve(tail_start + tail_len, extra), then memmove the tail up *)
Definition sp_move_tail (e : ecfg) (buf : list slot) (tail_start tail_len : nat) (extra : N)
  : outcome (list slot * nat) :=
  match reserve e (mkVec buf (N.of_nat (tail_start + tail_len))) extra false with
  | Panic k => Panic k
  | Ret v1 => Ret (copy_within (v_buf v1) tail_start (tail_start + nn extra) tail_len, (tail_start + nn extra)%nat)
  end.

(* Drain::drop once the range is exhausted: move the tail back down to vec.len, restore the length *)
Definition sp_finish (buf : list slot) (len tail_start tail_len : nat) : vec :=
  if Nat.eqb tail_len 0 then mkVec buf (N.of_nat len)
  else mkVec (if Nat.eqb tail_start len then buf else copy_within buf tail_start len tail_len)
             (N.of_nat (len + tail_len)).

Record spliced := mkSpliced { s_vec : vec; s_removed : list N }.

(* the end of Splice::drop: the gap has been filled as far as the items went.  If items are left they
   are collected (now with an exact count), the tail is moved by that count and the gap filled. *)
Definition sp_collect (e : ecfg) (tail_len : nat) (removed : list N)
           (st : list slot * nat * list N * bool * nat) : outcome spliced :=
  match st with
  | (buf3, len3, rest3, full3, ts3) =>
      if negb full3 then Ret (mkSpliced (sp_finish buf3 len3 ts3 tail_len) removed)
      else match rest3 with
           | [] => Ret (mkSpliced (sp_finish buf3 len3 ts3 tail_len) removed)
           | _ :: _ =>
               match sp_move_tail e buf3 ts3 tail_len (N.of_nat (length rest3)) with
               | Panic k => Panic k
               | Ret (buf4, ts4) =>
                   match sp_fill buf4 len3 (ts4 - len3)%nat rest3 with
                   | (buf5, len5, _, _) => Ret (mkSpliced (sp_finish buf5 len5 ts4 tail_len) removed)
                   end
               end
           end
  end.

(* v.splice(range, xs) dropped without taking anything out of it.  hint0 is the lower size hint
   Extend sees when there is no tail; hint1 the one Splice::drop reads after the first fill.  Both
   come from the caller's iterator and may be anything. *)
Definition splice (e : ecfg) (v : vec) (s e0 : bound) (xs : list N) (hint0 hint1 : N) : outcome spliced :=
  match drain_range v s e0 with
  | Panic k => Panic k
  | Ret (a, b) =>
      let removed := map (fun s => match s with Some x => x | None => 0 end)
                         (firstn (nn b - nn a)%nat (skipn (nn a) (v_buf v))) in
      let tail_len := (nn (v_len v) - nn b)%nat in
      if Nat.eqb tail_len 0 then
        match extend_iter e (mkVec (v_buf v) a) hint0 xs with
        | Panic k => Panic k
        | Ret v' => Ret (mkSpliced v' removed)
        end
      else
        match sp_fill (v_buf v) (nn a) (nn b - nn a)%nat xs with
        | (buf1, len1, rest1, full1) =>
            if negb full1 then Ret (mkSpliced (sp_finish buf1 len1 (nn b) tail_len) removed)
            else if 0 <? hint1 then
              match sp_move_tail e buf1 (nn b) tail_len hint1 with
              | Panic k => Panic k
              | Ret (buf2, ts2) => sp_collect e tail_len removed (sp_fill buf2 len1 (ts2 - len1)%nat rest1, ts2)
              end
            else sp_collect e tail_len removed (buf1, len1, rest1, true, nn b)
        end
  end.

(* ---------- into_iter and clone ---------- *)
(* v.into_iter(): the vector is consumed; the caller takes [front] items from the front and then
   [back] from the back (as many as there are); dropping the IntoIter drops the rest, front to back *)
Record consumed := mkConsumed { c_taken_front : list N; c_taken_back : list N; c_left : list N }.
Definition into_iter (v : vec) (front back : nat) : consumed :=
  let items := contents v in
  let tf := firstn front items in
  let rest := skipn front items in
  let tb := firstn back (rev rest) in                      (* in the order next_back yields them *)
  mkConsumed tf tb (firstn (length rest - back)%nat rest).

(* v.clone(): with_capacity_in(len), then one clone per element in order; the clones are the fresh
   identities next, next + 1, ... *)
Definition fresh_ids (next : N) (n : nat) : list N := map (fun i => next + N.of_nat i) (seq 0 n).
Definition clone_vec (e : ecfg) (v : vec) (next : N) : outcome vec :=
  match vwith_capacity e (v_len v) with
  | Panic k => Panic k
  | Ret o => extend_iter e o (v_len v) (fresh_ids next (nn (v_len v)))
  end.
