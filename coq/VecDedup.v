(* VecDedup.v — C16/C15: dedup_by only ever swaps elements inside the vector, so a panicking
   same_bucket closure leaves every element in place exactly once; without a panic the
   elements kept and the elements dropped are together exactly the old contents. *)
From BV Require Import Word WordFacts VecModel VecFacts.
From Coq Require Import Lia Arith PeanoNat Permutation.

(* ---------- replacing one position ---------- *)
Lemma split_nth {A} (l : list A) i d : (i < length l)%nat ->
  l = firstn i l ++ nth i l d :: skipn (S i) l.
Proof.
  revert i. induction l as [|a l IH]; intros i H; [cbn in H; lia|].
  destruct i as [|i]; [reflexivity|]. cbn [firstn nth skipn app]. f_equal. apply IH. cbn in H. lia.
Qed.

Lemma overwrite_one {A} (l : list A) i x : (i < length l)%nat ->
  overwrite l i [x] = firstn i l ++ x :: skipn (S i) l.
Proof.
  intros H. rewrite overwrite_fits by (cbn [length]; lia). cbn [length app].
  replace (i + 1)%nat with (S i) by lia. reflexivity.
Qed.

Lemma overwrite_one_length {A} (l : list A) i x : (i < length l)%nat -> length (overwrite l i [x]) = length l.
Proof. intros H. apply overwrite_length. cbn [length]. lia. Qed.

Lemma nth_overwrite_one {A} (l : list A) i x k d : (i < length l)%nat ->
  nth k (overwrite l i [x]) d = if Nat.eqb k i then x else nth k l d.
Proof.
  intros H. rewrite overwrite_one by exact H.
  destruct (Nat.eqb k i) eqn:E.
  - apply Nat.eqb_eq in E. subst k. rewrite app_nth2 by (rewrite firstn_length; lia).
    rewrite firstn_length. replace (i - Nat.min i (length l))%nat with 0%nat by lia. reflexivity.
  - apply Nat.eqb_neq in E.
    replace (nth k l d) with (nth k (firstn i l ++ nth i l d :: skipn (S i) l) d)
      by (rewrite <- (split_nth l i d H); reflexivity).
    destruct (Nat.lt_ge_cases k i) as [L|G].
    + rewrite !app_nth1 by (rewrite firstn_length; lia). reflexivity.
    + rewrite !app_nth2 by (rewrite firstn_length; lia). rewrite firstn_length.
      replace (k - Nat.min i (length l))%nat with (S (k - i - 1)) by lia. reflexivity.
Qed.

Lemma count_overwrite_one (l : list N) i x y : (i < length l)%nat ->
  (count_occ N.eq_dec (overwrite l i [x]) y + (if N.eq_dec (nth i l 0%N) y then 1 else 0) =
   count_occ N.eq_dec l y + (if N.eq_dec x y then 1 else 0))%nat.
Proof.
  intros H. rewrite overwrite_one by exact H.
  replace (count_occ N.eq_dec l y) with (count_occ N.eq_dec (firstn i l ++ nth i l 0 :: skipn (S i) l) y)
    by (rewrite <- (split_nth l i 0 H); reflexivity).
  rewrite !count_occ_app. cbn [count_occ].
  destruct (N.eq_dec x y); destruct (N.eq_dec (nth i l 0) y); lia.
Qed.

(* ---------- swapping two positions is a permutation ---------- *)
Definition swapl (c : list N) (i j : nat) : list N :=
  overwrite (overwrite c i [nth j c 0]) j [nth i c 0].

Lemma swapl_length c i j : (i < length c)%nat -> (j < length c)%nat -> length (swapl c i j) = length c.
Proof. intros Hi Hj. unfold swapl. rewrite overwrite_one_length; rewrite ?overwrite_one_length; lia. Qed.

Lemma swapl_perm c i j : (i < length c)%nat -> (j < length c)%nat -> Permutation (swapl c i j) c.
Proof.
  intros Hi Hj. apply (Permutation_count_occ N.eq_dec). intros y. unfold swapl.
  set (c1 := overwrite c i [nth j c 0]).
  assert (L1 : length c1 = length c) by (apply overwrite_one_length; exact Hi).
  pose proof (count_overwrite_one c i (nth j c 0) y Hi) as E1. fold c1 in E1.
  assert (Hj1 : (j < length c1)%nat) by lia.
  pose proof (count_overwrite_one c1 j (nth i c 0) y Hj1) as E2.
  assert (N1 : nth j c1 0 = nth j c 0).
  { unfold c1. rewrite nth_overwrite_one by exact Hi. destruct (Nat.eqb j i) eqn:E; [|reflexivity]. reflexivity. }
  rewrite N1 in E2. lia.
Qed.

(* the buffer version *)
Lemma nth_buf (c : list N) (rest : list slot) i : (i < length c)%nat ->
  nth i (map Some c ++ rest) None = Some (nth i c 0).
Proof.
  intros H. rewrite app_nth1 by (rewrite map_length; exact H).
  rewrite (nth_indep _ None (Some 0)) by (rewrite map_length; exact H). apply (map_nth Some c 0 i).
Qed.

Lemma overwrite_in_prefix {A} (l1 l2 : list A) a xs : (a + length xs <= length l1)%nat ->
  overwrite (l1 ++ l2) a xs = overwrite l1 a xs ++ l2.
Proof.
  intros H. rewrite !overwrite_fits by (rewrite ?app_length; lia).
  rewrite firstn_app. replace (a - length l1)%nat with 0%nat by lia. cbn [firstn]. rewrite app_nil_r.
  rewrite skipn_app. replace (a + length xs - length l1)%nat with 0%nat by lia. cbn [skipn].
  rewrite <- !app_assoc. reflexivity.
Qed.

Lemma overwrite_buf_one (c : list N) (rest : list slot) i x : (i < length c)%nat ->
  overwrite (map Some c ++ rest) i [Some x] = map Some (overwrite c i [x]) ++ rest.
Proof.
  intros H. rewrite overwrite_in_prefix by (rewrite map_length; cbn [length]; lia). f_equal.
  rewrite !overwrite_one by (rewrite ?map_length; lia).
  rewrite map_app. cbn [map]. rewrite map_firstn, map_skipn. reflexivity.
Qed.

Lemma swap_slots_buf (c : list N) (rest : list slot) i j : (i < length c)%nat -> (j < length c)%nat ->
  swap_slots (map Some c ++ rest) i j = map Some (swapl c i j) ++ rest.
Proof.
  intros Hi Hj. unfold swap_slots, swapl. rewrite !nth_buf by assumption.
  rewrite overwrite_buf_one by exact Hi.
  rewrite overwrite_buf_one by (rewrite overwrite_one_length; assumption). reflexivity.
Qed.

(* ---------- the loop keeps a permutation of the contents in place ---------- *)
Lemma dedup_loop_perm (c0 : list N) (rest : list slot) : forall fuel c nr nw ans buf' nw' boom,
  Permutation c c0 -> (nw <= nr)%nat -> (nw <= length c0)%nat ->
  dedup_loop (map Some c ++ rest) (length c0) nr nw ans fuel = (buf', nw', boom) ->
  exists c', buf' = map Some c' ++ rest /\ Permutation c' c0 /\ (nw' <= length c0)%nat.
Proof.
  induction fuel as [|fuel IH]; intros c nr nw ans buf' nw' boom P L Lw H; cbn [dedup_loop] in H.
  - inversion H; subst. exists c. auto.
  - destruct (Nat.ltb nr (length c0)) eqn:E; [|inversion H; subst; exists c; auto].
    apply Nat.ltb_lt in E. pose proof (Permutation_length P) as PL.
    destruct ans as [|a ans]; [inversion H; subst; exists c; auto|].
    destruct a.
    + (* Yes: a duplicate, only the read index advances *)
      apply (IH c (nr + 1)%nat nw ans buf' nw' boom P); [lia | exact Lw | exact H].
    + (* No: kept, swapped down to the write index *)
      destruct (Nat.eqb nr nw) eqn:EQ.
      * apply (IH c (nr + 1)%nat (nw + 1)%nat ans buf' nw' boom P); [lia | lia | exact H].
      * rewrite swap_slots_buf in H by lia.
        apply (IH (swapl c nr nw) (nr + 1)%nat (nw + 1)%nat ans buf' nw' boom); [|lia|lia|exact H].
        eapply Permutation_trans; [apply swapl_perm; lia | exact P].
    + (* Boom: the closure panics, nothing else happens *)
      inversion H; subst. exists c. auto.
Qed.

Lemma truncate_loop_no_boom buf target : forall n cur acc,
  snd (truncate_loop buf [] target cur n acc) = false.
Proof. induction n as [|n IH]; intros cur acc; cbn [truncate_loop existsb]; [reflexivity | apply IH]. Qed.

(* dedup_by, dedup_by_key, dedup: for EVERY script of closure answers, panics included, the
   vector afterwards holds `kept`, the destructors that ran are `dropped`, and together they
   are exactly the old contents: nothing twice, nothing lost unless the closure panicked
   (then nothing is dropped at all and every element is still in the vector) *)
Theorem dedup_by_safe e v c ans :
  repr e v c ->
  exists kept, repr e (dedup_state v ans) kept /\
    Permutation (kept ++ f_drops (snd (dedup_by v ans))) c /\
    (fst (dedup_by v ans) = Panic PCallback -> f_drops (snd (dedup_by v ans)) = [] /\ Permutation kept c).
Proof.
  intros R. unfold dedup_state, dedup_by.
  assert (R0 := R). destruct R0 as ((rest & Hb) & Hl & Hc & He).
  assert (Hlen : nn (v_len v) = length c) by (unfold nn; lia).
  destruct (Nat.leb (nn (v_len v)) 1) eqn:E1.
  - cbn [fst snd f_drops no_eff]. exists c. rewrite app_nil_r. split; [exact R|]. split; [apply Permutation_refl|].
    intros H; discriminate.
  - rewrite Hb, Hlen.
    destruct (dedup_loop (map Some c ++ rest) (length c) 1 1 ans (length c)) as [[buf nw] boom] eqn:EL.
    destruct (dedup_loop_perm c rest (length c) c 1 1 ans buf nw boom (Permutation_refl c) (Nat.le_refl 1)) as (c' & Eb & P & Ln);
      [apply Nat.leb_gt in E1; lia | exact EL |].
    pose proof (Permutation_length P) as PL.
    assert (R' : repr e (mkVec buf (v_len v)) c').
    { unfold repr, v_cap. cbn [v_buf v_len]. rewrite Eb. split; [eexists; reflexivity|]. split; [lia|]. split; [|exact He].
      unfold v_cap in Hc. rewrite Hb in Hc. rewrite !app_length, !map_length in *. rewrite PL. exact Hc. }
    destruct boom.
    + cbn [fst snd f_drops no_eff]. exists c'. rewrite app_nil_r. split; [exact R'|]. split; [exact P|].
      intros _. split; [reflexivity | exact P].
    + destruct (truncate_spec e (mkVec buf (v_len v)) c' (N.of_nat nw) [] R') as (m & Rm & Dm & _ & _).
      exists (firstn m c'). split; [exact Rm|]. split.
      * rewrite Dm. eapply Permutation_trans; [|exact P].
        rewrite <- (firstn_skipn m c') at 3. apply Permutation_app_head. apply Permutation_sym, Permutation_rev.
      * intros H. exfalso. unfold truncate in H. cbn [v_len v_buf] in H.
        destruct (N.of_nat nw <? v_len v); cbn [fst] in H; [|discriminate].
        rewrite truncate_loop_no_boom in H. discriminate.
Qed.

(* ---------- what dedup_by keeps: the functional specification ---------- *)
(* the first element always stays; each later element stays iff same_bucket answered No for it *)
Fixpoint dedup_keep (xs : list N) (ans : list cans) : list N :=
  match xs, ans with
  | x :: r, No :: a => x :: dedup_keep r a
  | x :: r, Yes :: a => dedup_keep r a
  | _, _ => []
  end.

Lemma swapl_shape (a m t : list N) (y x : N) :
  swapl (a ++ y :: m ++ x :: t) (length a + S (length m)) (length a) = a ++ x :: m ++ y :: t.
Proof.
  unfold swapl.
  assert (L : length (a ++ y :: m ++ x :: t) = (length a + S (length m + S (length t)))%nat).
  { rewrite app_length. cbn [length]. rewrite app_length. cbn [length]. reflexivity. }
  assert (Nj : nth (length a) (a ++ y :: m ++ x :: t) 0 = y).
  { rewrite app_nth2 by lia. rewrite Nat.sub_diag. reflexivity. }
  assert (Ni : nth (length a + S (length m)) (a ++ y :: m ++ x :: t) 0 = x).
  { rewrite app_nth2 by lia. replace (length a + S (length m) - length a)%nat with (S (length m)) by lia.
    cbn [nth]. rewrite app_nth2 by lia. rewrite Nat.sub_diag. reflexivity. }
  rewrite Nj, Ni.
  rewrite (overwrite_one (a ++ y :: m ++ x :: t)) by (rewrite L; lia).
  assert (G : a ++ y :: m ++ x :: t = (a ++ y :: m) ++ x :: t) by (rewrite <- app_assoc; reflexivity).
  assert (Li : (length a + S (length m))%nat = length (a ++ y :: m)) by (rewrite app_length; reflexivity).
  assert (F1 : firstn (length a + S (length m)) (a ++ y :: m ++ x :: t) = a ++ y :: m).
  { rewrite G, Li. apply firstn_app_exact. }
  assert (S1 : skipn (S (length a + S (length m))) (a ++ y :: m ++ x :: t) = t).
  { rewrite G, Li. apply skipn_succ_app. }
  rewrite F1, S1.
  replace ((a ++ y :: m) ++ y :: t) with (a ++ y :: m ++ y :: t) by (rewrite <- app_assoc; reflexivity).
  rewrite (overwrite_one (a ++ y :: m ++ y :: t)) by (rewrite app_length; cbn [length]; lia).
  rewrite firstn_app, firstn_all2, Nat.sub_diag by lia. cbn [firstn]. rewrite app_nil_r.
  rewrite skipn_app, skipn_all2 by lia. replace (S (length a) - length a)%nat with 1%nat by lia. reflexivity.
Qed.

Definition no_boom (ans : list cans) : Prop := Forall (fun a => a <> Boom) ans.

Lemma dedup_loop_fun (c0 : list N) (rest : list slot) : forall fuel nr nw ans kept junk buf' nw' boom,
  length kept = nw -> (length kept + length junk = nr)%nat -> (1 <= nw)%nat -> (nr <= length c0)%nat ->
  (length c0 - nr <= fuel)%nat -> (length c0 - nr <= length ans)%nat -> no_boom ans ->
  dedup_loop (map Some (kept ++ junk ++ skipn nr c0) ++ rest) (length c0) nr nw ans fuel = (buf', nw', boom) ->
  boom = false /\ nw' = (nw + length (dedup_keep (skipn nr c0) ans))%nat /\
  exists junk', buf' = map Some (kept ++ dedup_keep (skipn nr c0) ans ++ junk') ++ rest /\
                length (kept ++ dedup_keep (skipn nr c0) ans ++ junk') = length c0.
Proof.
  induction fuel as [|fuel IH]; intros nr nw ans kept junk buf' nw' boom Hk Hj H1 Hn Hf Ha Hb H; cbn [dedup_loop] in H.
  - assert (E0 : skipn nr c0 = []) by (apply skipn_all2; lia). rewrite E0 in *. inversion H; subst buf' nw' boom. cbn [dedup_keep length].
    split; [reflexivity|]. split; [lia|]. exists junk. cbn [app]. rewrite app_nil_r. split; [reflexivity|].
    rewrite !app_length. lia.
  - destruct (Nat.ltb nr (length c0)) eqn:E.
    + apply Nat.ltb_lt in E.
      destruct (skipn nr c0) as [|x tl] eqn:ES.
      { exfalso. apply (f_equal (@length N)) in ES. rewrite skipn_length in ES. cbn [length] in ES. lia. }
      assert (ES1 : skipn (nr + 1) c0 = tl).
      { rewrite <- (skipn_skipn' c0 1 nr). rewrite ES. reflexivity. }
      destruct ans as [|a ans]; [cbn [length] in Ha; lia|].
      apply Forall_cons_iff in Hb. destruct Hb as [Ha0 Hb']. cbn [length] in Ha.
      destruct a; [| |contradiction].
      * (* Yes: x becomes junk *)
        cbn [dedup_keep].
        replace (kept ++ junk ++ x :: tl) with (kept ++ (junk ++ [x]) ++ skipn (nr + 1) c0) in H
          by (rewrite ES1, <- !app_assoc; reflexivity).
        destruct (IH (nr + 1)%nat (length kept) ans kept (junk ++ [x]) buf' nw' boom eq_refl) as (B & W & j' & Eb & El);
          try lia; try assumption.
        { rewrite app_length. cbn [length]. lia. }
        { subst nw. exact H. }
        rewrite ES1 in *. subst nw. split; [exact B|]. split; [exact W|]. exists j'. split; assumption.
      * (* No: x is kept *)
        cbn [dedup_keep].
        destruct (Nat.eqb nr nw) eqn:EQ.
        -- apply Nat.eqb_eq in EQ. assert (junk = []) by (destruct junk; [reflexivity | cbn [length] in *; lia]). subst junk.
           cbn [app] in H.
           replace (kept ++ x :: tl) with ((kept ++ [x]) ++ [] ++ skipn (nr + 1) c0) in H
             by (rewrite ES1, <- app_assoc; reflexivity).
           destruct (IH (nr + 1)%nat (nw + 1)%nat ans (kept ++ [x]) [] buf' nw' boom) as (B & W & j' & Eb & El);
             try lia; try assumption.
           { rewrite app_length. cbn [length]. lia. }
           { rewrite app_length. cbn [length]. lia. }
           rewrite ES1 in *. split; [exact B|]. split; [cbn [length]; lia|]. exists j'.
           rewrite <- !app_assoc in Eb, El. cbn [app] in *. split; assumption.
        -- apply Nat.eqb_neq in EQ.
           destruct junk as [|j0 junk1]; [cbn [length] in *; lia|].
           assert (SW : swap_slots (map Some (kept ++ (j0 :: junk1) ++ x :: tl) ++ rest) nr nw
                        = map Some (kept ++ x :: junk1 ++ j0 :: tl) ++ rest).
           { rewrite swap_slots_buf.
             - f_equal. f_equal. cbn [app]. subst nw. replace nr with (length kept + S (length junk1))%nat by (cbn [length] in Hj; lia).
               apply swapl_shape.
             - rewrite ?app_length; cbn [length]; rewrite ?app_length; cbn [length] in *; lia.
             - rewrite ?app_length; cbn [length]; rewrite ?app_length; cbn [length] in *; lia. }
           rewrite SW in H.
           replace (kept ++ x :: junk1 ++ j0 :: tl) with ((kept ++ [x]) ++ (junk1 ++ [j0]) ++ skipn (nr + 1) c0) in H
             by (rewrite ES1, <- !app_assoc; reflexivity).
           destruct (IH (nr + 1)%nat (nw + 1)%nat ans (kept ++ [x]) (junk1 ++ [j0]) buf' nw' boom) as (B & W & j' & Eb & El);
             try lia; try assumption.
           { rewrite app_length. cbn [length]. lia. }
           { rewrite !app_length. cbn [length] in *. lia. }
           rewrite ES1 in *. split; [exact B|]. split; [cbn [length]; lia|]. exists j'.
           rewrite <- !app_assoc in Eb, El. cbn [app] in *. split; assumption.
    + apply Nat.ltb_ge in E. assert (E0 : skipn nr c0 = []) by (apply skipn_all2; lia). rewrite E0 in *.
      inversion H; subst buf' nw' boom. cbn [dedup_keep length]. split; [reflexivity|]. split; [lia|]. exists junk. cbn [app]. rewrite app_nil_r. split; [reflexivity|].
      rewrite !app_length. lia.
Qed.

(* dedup_by / dedup_by_key / dedup with a closure that does not panic: the vector ends as its first
   element followed by exactly the elements for which same_bucket answered No, in order — what std
   documents — and the others are the ones dropped *)
Theorem dedup_by_spec e v x0 xs ans :
  repr e v (x0 :: xs) -> no_boom ans -> (length xs <= length ans)%nat ->
  repr e (dedup_state v ans) (x0 :: dedup_keep xs ans) /\
  Permutation ((x0 :: dedup_keep xs ans) ++ f_drops (snd (dedup_by v ans))) (x0 :: xs).
Proof.
  intros R Hb Ha. set (c := x0 :: xs) in *.
  destruct (dedup_by_safe e v c ans R) as (kept & Rk & P & _).
  assert (EK : kept = x0 :: dedup_keep xs ans).
  { rewrite <- (repr_contents e _ _ Rk). clear Rk P kept.
    unfold dedup_state.
    assert (R0 := R). destruct R0 as ((rest & Hbuf) & Hl & Hc & He).
    assert (Hlen : nn (v_len v) = length c) by (unfold nn; lia).
    destruct (Nat.leb (nn (v_len v)) 1) eqn:E1.
    - apply Nat.leb_le in E1. rewrite Hlen in E1. unfold c in E1. cbn [length] in E1.
      assert (xs = []) by (destruct xs; [reflexivity | cbn [length] in E1; lia]). subst xs.
      cbn [dedup_keep]. exact (repr_contents e v _ R).
    - apply Nat.leb_gt in E1. rewrite Hbuf, Hlen.
      destruct (dedup_loop (map Some c ++ rest) (length c) 1 1 ans (length c)) as [[buf nw] boom] eqn:EL.
      assert (Ec : c = [x0] ++ [] ++ skipn 1 c) by reflexivity.
      rewrite Ec in EL at 1.
      destruct (dedup_loop_fun c rest (length c) 1 1 ans [x0] [] buf nw boom eq_refl eq_refl (Nat.le_refl 1)) as (B & W & j' & Eb & Elen);
        try (unfold c; cbn [length]; lia); try assumption.
      subst boom. cbn [skipn] in *. unfold c in W, Eb, Elen. cbn [skipn] in W, Eb, Elen.
      set (kp := dedup_keep xs ans) in *. unfold c in Hl, Hc, Hlen, Hbuf.
      assert (R' : repr e (mkVec buf (v_len v)) ([x0] ++ kp ++ j')).
      { unfold repr, v_cap. cbn [v_buf v_len]. rewrite Eb. split; [eexists; reflexivity|]. split; [rewrite Elen; lia|]. split; [|exact He].
        assert (EQL : length (map Some ([x0] ++ kp ++ j') ++ rest) = length (v_buf v)).
        { rewrite Hbuf. rewrite (app_length (map Some ([x0] ++ kp ++ j'))), (app_length (map Some (x0 :: xs))), !map_length, Elen. reflexivity. }
        rewrite EQL. exact Hc. }
      destruct (truncate_spec e (mkVec buf (v_len v)) _ (N.of_nat nw) [] R') as (m & Rm & _ & _ & Hret).
      rewrite (repr_contents e _ _ Rm).
      assert (Hm : m = nw).
      { unfold truncate in Hret. cbn [v_len v_buf] in Hret.
        destruct (N.of_nat nw <? v_len v) eqn:ET.
        - destruct (truncate_loop buf [] (nn (N.of_nat nw)) (nn (v_len v)) (nn (v_len v) - nn (N.of_nat nw)) []) as [acc bm] eqn:ETL.
          pose proof (truncate_loop_no_boom buf (nn (N.of_nat nw)) (nn (v_len v) - nn (N.of_nat nw)) (nn (v_len v)) []) as NB.
          rewrite ETL in NB. cbn [snd] in NB. subst bm. cbn [fst] in Hret.
          destruct (Hret _ eq_refl) as [_ Hm]. rewrite Hm. unfold nn. rewrite Nat2N.id.
          apply Nat.min_l. rewrite !app_length. cbn [length]. lia.
        - cbn [fst] in Hret. destruct (Hret _ eq_refl) as [_ Hm]. rewrite Hm. unfold nn. rewrite Nat2N.id.
          apply Nat.min_l. rewrite !app_length. cbn [length]. lia. }
      rewrite Hm, W.
      replace (firstn (1 + length kp) ([x0] ++ kp ++ j')) with (x0 :: firstn (length kp) (kp ++ j')) by reflexivity.
      f_equal. apply firstn_app_exact. }
  rewrite <- EK. split; [exact Rk | exact P].
Qed.
