(* VecDedup.v — C16/C15: dedup_by only ever swaps elements inside the vector, so a panicking
   same_bucket closure leaves every element in place exactly once; without a panic the
   elements kept and the elements dropped are together exactly the old contents. *)
From BV Require Import Word WordFacts VecModel VecFacts.
From Coq Require Import Lia Arith PeanoNat Permutation.

(* ---------- replacing one position ---------- *)
Lemma split_nth {A} (l : list A) i d : (i < length l)%nat ->
  l = firstn i l ++ nth i l d :: skipn (S i) l.
Proof.
  revert i. induction l as [|a l IH]; intros i H; [cbn in H; lia|].
  destruct i as [|i]; [reflexivity|]. cbn [firstn nth skipn app]. f_equal. apply IH. cbn in H. lia.
Qed.

Lemma overwrite_one {A} (l : list A) i x : (i < length l)%nat ->
  overwrite l i [x] = firstn i l ++ x :: skipn (S i) l.
Proof.
  intros H. rewrite overwrite_fits by (cbn [length]; lia). cbn [length app].
  replace (i + 1)%nat with (S i) by lia. reflexivity.
Qed.

Lemma overwrite_one_length {A} (l : list A) i x : (i < length l)%nat -> length (overwrite l i [x]) = length l.
Proof. intros H. apply overwrite_length. cbn [length]. lia. Qed.

Lemma nth_overwrite_one {A} (l : list A) i x k d : (i < length l)%nat ->
  nth k (overwrite l i [x]) d = if Nat.eqb k i then x else nth k l d.
Proof.
  intros H. rewrite overwrite_one by exact H.
  destruct (Nat.eqb k i) eqn:E.
  - apply Nat.eqb_eq in E. subst k. rewrite app_nth2 by (rewrite firstn_length; lia).
    rewrite firstn_length. replace (i - Nat.min i (length l))%nat with 0%nat by lia. reflexivity.
  - apply Nat.eqb_neq in E.
    replace (nth k l d) with (nth k (firstn i l ++ nth i l d :: skipn (S i) l) d)
      by (rewrite <- (split_nth l i d H); reflexivity).
    destruct (Nat.lt_ge_cases k i) as [L|G].
    + rewrite !app_nth1 by (rewrite firstn_length; lia). reflexivity.
    + rewrite !app_nth2 by (rewrite firstn_length; lia). rewrite firstn_length.
      replace (k - Nat.min i (length l))%nat with (S (k - i - 1)) by lia. reflexivity.
Qed.

Lemma count_overwrite_one (l : list N) i x y : (i < length l)%nat ->
  (count_occ N.eq_dec (overwrite l i [x]) y + (if N.eq_dec (nth i l 0%N) y then 1 else 0) =
   count_occ N.eq_dec l y + (if N.eq_dec x y then 1 else 0))%nat.
Proof.
  intros H. rewrite overwrite_one by exact H.
  replace (count_occ N.eq_dec l y) with (count_occ N.eq_dec (firstn i l ++ nth i l 0 :: skipn (S i) l) y)
    by (rewrite <- (split_nth l i 0 H); reflexivity).
  rewrite !count_occ_app. cbn [count_occ].
  destruct (N.eq_dec x y); destruct (N.eq_dec (nth i l 0) y); lia.
Qed.

(* ---------- swapping two positions is a permutation ---------- *)
Definition swapl (c : list N) (i j : nat) : list N :=
  overwrite (overwrite c i [nth j c 0]) j [nth i c 0].

Lemma swapl_length c i j : (i < length c)%nat -> (j < length c)%nat -> length (swapl c i j) = length c.
Proof. intros Hi Hj. unfold swapl. rewrite overwrite_one_length; rewrite ?overwrite_one_length; lia. Qed.

Lemma swapl_perm c i j : (i < length c)%nat -> (j < length c)%nat -> Permutation (swapl c i j) c.
Proof.
  intros Hi Hj. apply (Permutation_count_occ N.eq_dec). intros y. unfold swapl.
  set (c1 := overwrite c i [nth j c 0]).
  assert (L1 : length c1 = length c) by (apply overwrite_one_length; exact Hi).
  pose proof (count_overwrite_one c i (nth j c 0) y Hi) as E1. fold c1 in E1.
  assert (Hj1 : (j < length c1)%nat) by lia.
  pose proof (count_overwrite_one c1 j (nth i c 0) y Hj1) as E2.
  assert (N1 : nth j c1 0 = nth j c 0).
  { unfold c1. rewrite nth_overwrite_one by exact Hi. destruct (Nat.eqb j i) eqn:E; [|reflexivity]. reflexivity. }
  rewrite N1 in E2. lia.
Qed.

(* the buffer version *)
Lemma nth_buf (c : list N) (rest : list slot) i : (i < length c)%nat ->
  nth i (map Some c ++ rest) None = Some (nth i c 0).
Proof.
  intros H. rewrite app_nth1 by (rewrite map_length; exact H).
  rewrite (nth_indep _ None (Some 0)) by (rewrite map_length; exact H). apply (map_nth Some c 0 i).
Qed.

Lemma overwrite_in_prefix {A} (l1 l2 : list A) a xs : (a + length xs <= length l1)%nat ->
  overwrite (l1 ++ l2) a xs = overwrite l1 a xs ++ l2.
Proof.
  intros H. rewrite !overwrite_fits by (rewrite ?app_length; lia).
  rewrite firstn_app. replace (a - length l1)%nat with 0%nat by lia. cbn [firstn]. rewrite app_nil_r.
  rewrite skipn_app. replace (a + length xs - length l1)%nat with 0%nat by lia. cbn [skipn].
  rewrite <- !app_assoc. reflexivity.
Qed.

Lemma overwrite_buf_one (c : list N) (rest : list slot) i x : (i < length c)%nat ->
  overwrite (map Some c ++ rest) i [Some x] = map Some (overwrite c i [x]) ++ rest.
Proof.
  intros H. rewrite overwrite_in_prefix by (rewrite map_length; cbn [length]; lia). f_equal.
  rewrite !overwrite_one by (rewrite ?map_length; lia).
  rewrite map_app. cbn [map]. rewrite map_firstn, map_skipn. reflexivity.
Qed.

Lemma swap_slots_buf (c : list N) (rest : list slot) i j : (i < length c)%nat -> (j < length c)%nat ->
  swap_slots (map Some c ++ rest) i j = map Some (swapl c i j) ++ rest.
Proof.
  intros Hi Hj. unfold swap_slots, swapl. rewrite !nth_buf by assumption.
  rewrite overwrite_buf_one by exact Hi.
  rewrite overwrite_buf_one by (rewrite overwrite_one_length; assumption). reflexivity.
Qed.

(* ---------- the loop keeps a permutation of the contents in place ---------- *)
Lemma dedup_loop_perm (c0 : list N) (rest : list slot) : forall fuel c nr nw ans buf' nw' boom,
  Permutation c c0 -> (nw <= nr)%nat -> (nw <= length c0)%nat ->
  dedup_loop (map Some c ++ rest) (length c0) nr nw ans fuel = (buf', nw', boom) ->
  exists c', buf' = map Some c' ++ rest /\ Permutation c' c0 /\ (nw' <= length c0)%nat.
Proof.
  induction fuel as [|fuel IH]; intros c nr nw ans buf' nw' boom P L Lw H; cbn [dedup_loop] in H.
  - inversion H; subst. exists c. auto.
  - destruct (Nat.ltb nr (length c0)) eqn:E; [|inversion H; subst; exists c; auto].
    apply Nat.ltb_lt in E. pose proof (Permutation_length P) as PL.
    destruct ans as [|a ans]; [inversion H; subst; exists c; auto|].
    destruct a.
    + (* Yes: a duplicate, only the read index advances *)
      apply (IH c (nr + 1)%nat nw ans buf' nw' boom P); [lia | exact Lw | exact H].
    + (* No: kept, swapped down to the write index *)
      destruct (Nat.eqb nr nw) eqn:EQ.
      * apply (IH c (nr + 1)%nat (nw + 1)%nat ans buf' nw' boom P); [lia | lia | exact H].
      * rewrite swap_slots_buf in H by lia.
        apply (IH (swapl c nr nw) (nr + 1)%nat (nw + 1)%nat ans buf' nw' boom); [|lia|lia|exact H].
        eapply Permutation_trans; [apply swapl_perm; lia | exact P].
    + (* Boom: the closure panics, nothing else happens *)
      inversion H; subst. exists c. auto.
Qed.

Lemma truncate_loop_no_boom buf target : forall n cur acc,
  snd (truncate_loop buf [] target cur n acc) = false.
Proof. induction n as [|n IH]; intros cur acc; cbn [truncate_loop existsb]; [reflexivity | apply IH]. Qed.

(* dedup_by, dedup_by_key, dedup: for EVERY script of closure answers, panics included, the
   vector afterwards holds `kept`, the destructors that ran are `dropped`, and together they
   are exactly the old contents: nothing twice, nothing lost unless the closure panicked
   (then nothing is dropped at all and every element is still in the vector) *)
Theorem dedup_by_safe e v c ans :
  repr e v c ->
  exists kept, repr e (dedup_state v ans) kept /\
    Permutation (kept ++ f_drops (snd (dedup_by v ans))) c /\
    (fst (dedup_by v ans) = Panic PCallback -> f_drops (snd (dedup_by v ans)) = [] /\ Permutation kept c).
Proof.
  intros R. unfold dedup_state, dedup_by.
  assert (R0 := R). destruct R0 as ((rest & Hb) & Hl & Hc & He).
  assert (Hlen : nn (v_len v) = length c) by (unfold nn; lia).
  destruct (Nat.leb (nn (v_len v)) 1) eqn:E1.
  - cbn [fst snd f_drops no_eff]. exists c. rewrite app_nil_r. split; [exact R|]. split; [apply Permutation_refl|].
    intros H; discriminate.
  - rewrite Hb, Hlen.
    destruct (dedup_loop (map Some c ++ rest) (length c) 1 1 ans (length c)) as [[buf nw] boom] eqn:EL.
    destruct (dedup_loop_perm c rest (length c) c 1 1 ans buf nw boom (Permutation_refl c) (Nat.le_refl 1)) as (c' & Eb & P & Ln);
      [apply Nat.leb_gt in E1; lia | exact EL |].
    pose proof (Permutation_length P) as PL.
    assert (R' : repr e (mkVec buf (v_len v)) c').
    { unfold repr, v_cap. cbn [v_buf v_len]. rewrite Eb. split; [eexists; reflexivity|]. split; [lia|]. split; [|exact He].
      unfold v_cap in Hc. rewrite Hb in Hc. rewrite !app_length, !map_length in *. rewrite PL. exact Hc. }
    destruct boom.
    + cbn [fst snd f_drops no_eff]. exists c'. rewrite app_nil_r. split; [exact R'|]. split; [exact P|].
      intros _. split; [reflexivity | exact P].
    + destruct (truncate_spec e (mkVec buf (v_len v)) c' (N.of_nat nw) [] R') as (m & Rm & Dm & _ & _).
      exists (firstn m c'). split; [exact Rm|]. split.
      * rewrite Dm. eapply Permutation_trans; [|exact P].
        rewrite <- (firstn_skipn m c') at 3. apply Permutation_app_head. apply Permutation_sym, Permutation_rev.
      * intros H. exfalso. unfold truncate in H. cbn [v_len v_buf] in H.
        destruct (N.of_nat nw <? v_len v); cbn [fst] in H; [|discriminate].
        rewrite truncate_loop_no_boom in H. discriminate.
Qed.
