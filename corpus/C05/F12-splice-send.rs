use bumpalo::Bump;
fn main() {
    let bump = Bump::new();
    let mut v = bumpalo::vec![in &bump; 1u32, 2, 3, 4];
    let sp = v.splice(1..2, vec![7u32, 8, 9, 10, 11, 12, 13, 14, 15, 16, 17, 18, 19, 20, 21, 22, 23]);
    std::thread::scope(|s| {
        s.spawn(move || drop(sp));        // Splice::drop allocates from `bump` on this thread
        for i in 0..1000u32 { bump.alloc(i); }   // ... while the owner keeps allocating
    });
    println!("{:?}", v);
}
