// F14 (fixed by 6017329): build with the crate from /repo (features collections); on the pre-fix tree it prints valid=false
use bumpalo::Bump;
use bumpalo::collections::String as BString;
use std::panic::{catch_unwind, AssertUnwindSafe};
fn main() {
    let bump = Bump::new();
    let mut s = BString::with_capacity_in(6, &bump);
    s.push_str("abcdef");
    // fill the chunk so that growth needs a new chunk, then forbid it
    let _fill = bump.alloc_slice_fill_copy(bump.chunk_capacity(), 0u8);
    bump.set_allocation_limit(Some(bump.allocated_bytes()));
    let r = catch_unwind(AssertUnwindSafe(|| s.replace_range(1..2, "€€€")));
    println!("panicked={} bytes={:x?} valid={}", r.is_err(), s.as_bytes(), std::str::from_utf8(s.as_bytes()).is_ok());
    let mut t = BString::with_capacity_in(6, &bump);
    let _ = t; 
}
