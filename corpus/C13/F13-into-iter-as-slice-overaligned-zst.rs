// F13 (fixed by f06ef89): IntoIter::as_slice / as_mut_slice / Debug on a partially consumed
// iterator over zero-sized, over-aligned elements built a slice from a misaligned pointer.
// Before the fix a debug build aborts here ("unsafe precondition(s) violated:
// slice::from_raw_parts requires the pointer to be aligned and non-null"); Miri reports UB.
// Build against /repo with --features collections.
use bumpalo::{collections::Vec, Bump};

#[repr(align(8))]
struct Z;

fn main() {
    let b = Bump::new();
    let mut v = Vec::new_in(&b);
    for _ in 0..3 {
        v.push(Z);
    }
    let mut it = v.into_iter();
    it.next();                      // ptr moves by one byte: no longer 8-aligned
    assert_eq!(it.as_slice().len(), 2);
    assert_eq!(it.as_mut_slice().len(), 2);
    println!("{}", format!("{:?}", it.as_slice().len()));
}
