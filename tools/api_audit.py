#!/usr/bin/env python3
"""Which public functions of /repo's crate are never named by a correspondence driver?

A differential can only decide "behaves like std" for the part of the API it calls.  This lists the
`pub fn`s of the arena, Vec, String, Box and RawVec sources whose names occur in no driver (and in
the borrow probe), and the trait impls of each file, so that gaps are visible.  Not a check: the
result is informational (RawVec's unused helpers and the serde impls are expected to be missing)."""
import os
import re
import sys

VERIF = os.path.dirname(os.path.dirname(os.path.abspath(__file__)))
REPO = os.environ.get("BV_REPO", "/repo")


def main():
    drv = ""
    d = os.path.join(VERIF, "harness", "src", "bin")
    for f in sorted(os.listdir(d)):
        drv += open(os.path.join(d, f)).read()
    drv += open(os.path.join(VERIF, "tools", "borrow_probe.py")).read()
    total = missing_total = 0
    for path in ["src/lib.rs", "src/collections/vec.rs", "src/collections/string.rs", "src/boxed.rs",
                 "src/collections/raw_vec.rs", "src/collections/collect_in.rs"]:
        src = open(os.path.join(REPO, path)).read()
        names = sorted(set(re.findall(r"pub (?:unsafe )?fn (\w+)", src)))
        missing = [n for n in names if not re.search(r"\b%s\b" % n, drv)]
        total += len(names)
        missing_total += len(missing)
        print("%-34s %3d public functions, not named by any driver: %s" % (path, len(names), ", ".join(missing) or "-"))
    print("total %d, unnamed %d" % (total, missing_total))
    return 0


if __name__ == "__main__":
    sys.exit(main())
