#!/usr/bin/env python3
"""Orchestrator for the bumpalo verification checks (see DESIGN.md §3.4).

A check for property Cxx
  1. rebuilds the hooked crate + harness from /repo's working tree (debug, release),
  2. regenerates the *Actual.v files, re-checks the Coq development it depends on
     and audits it (no Admitted/Axiom..., Print Assumptions within the allow-list),
  3. runs the correspondence drivers and the extracted spec predicates,
  4. decides: spec predicate fails on the implementation  -> VIOLATION with replay;
              proof or correspondence broken, no failing input -> VIOLATION ... no-failing-input-found;
              entries of known_findings.json -> KNOWN-FINDING lines, exit 0,
  5. writes evidence/Cxx.json.
"""
import hashlib
import json
import os
import re
import subprocess
import sys
import time
from concurrent.futures import ThreadPoolExecutor

VERIF = os.path.dirname(os.path.dirname(os.path.abspath(__file__)))
REPO = os.environ.get("BV_REPO", "/repo")
BUILD = os.path.join(VERIF, ".build")
COQ = os.path.join(VERIF, "coq")
HARNESS = os.path.join(VERIF, "harness")
OCAML_SRC = os.path.join(VERIF, "ocaml")
OCAML_BUILD = os.path.join(BUILD, "ocaml")
CARGO_TARGET = os.path.join(BUILD, "cargo")
CACHE = os.path.join(BUILD, "cache")
TRACES = os.path.join(BUILD, "traces")
REPLAYS = os.path.join(VERIF, "replays")
EVIDENCE = os.path.join(VERIF, "evidence")
NPROC = os.cpu_count() or 8

RUSTFLAGS = "--cfg bumpalo_verif -A dangerous_implicit_autorefs -A warnings"

FORBIDDEN = re.compile(
    r"\b(Admitted|admit|Axiom|Axioms|Parameter|Parameters|Conjecture|Conjectures|Hypothesis|Hypotheses|Variable|Variables)\b"
    r"|Unset\s+Guard|bypass_check|type-in-type|impredicative-set|Admit\s+Obligations|native_compute"
)
# axioms of the standard library we accept if Print Assumptions reports them (none expected so far)
ALLOWED_AXIOMS = {
    "functional_extensionality_dep",
    "Eqdep.Eq_rect_eq.eq_rect_eq",
    "JMeq.JMeq_eq",
    "ProofIrrelevance.proof_irrelevance",
    "Classical_Prop.classic",
}

TRUSTED_BASE = [
    "Coq 8.16.1 kernel (coqc) incl. vm_compute; no native_compute",
    "axioms: none declared; Print Assumptions of every property theorem is re-read on every run (expected: Closed under the global context)",
    "hand-written Coq models of the code (coq/*.v without proofs); their fidelity rests on the correspondence drivers",
    "extraction: ExtrOcamlBasic only (bool, option, list, prod, unit, sumbool to OCaml natives); no Extract Constant/Inductive of ours; ocamlfind ocamlopt 4.13.1",
    "OCaml glue in ocaml/*.ml (decimal<->N conversion through zarith, trace parsing, comparison)",
    "Rust harness (harness/): generators, tracking global allocator, --cfg bumpalo_verif hooks in /repo",
    "tools/bvlib.py (this orchestrator) and tools/gen_actual.py (constants/tables read from the built crate)",
    "tools/rs2v.py (parser of the leaf functions, of located expressions inside the arena's and the collections' functions, of eight loops / function bodies as statement programs (with early return, scripted closure answers and panics), and of pinned statements compared as whitespace-free text, into RustSem terms; their meaning is the Coq functions RustSem.eval / RustSem.exec, whose reading of Rust's usize/Option/pointer operations, assignments, loops and closure calls is trusted) and tools/sigfacts.py (textual reading of the public signatures); tools/lossyprog.py (parser of the lossy decoder's loop body into a Utf8Prog.lprog value whose meaning is the Coq function run_prog)",
    "not modelled: rustc/LLVM code generation, pointer provenance, real memcpy, the system allocator, the hardware memory model",
]


def log(*a):
    print(*a, file=sys.stderr, flush=True)


def sh(cmd, cwd=None, env=None, timeout=None, input=None):
    e = dict(os.environ)
    if env:
        e.update(env)
    p = subprocess.run(cmd, cwd=cwd, env=e, timeout=timeout, input=input,
                       stdout=subprocess.PIPE, stderr=subprocess.STDOUT, text=True)
    return p.returncode, p.stdout


def file_hash(paths):
    h = hashlib.sha256()
    for p in sorted(paths):
        h.update(p.encode())
        try:
            with open(p, "rb") as f:
                h.update(f.read())
        except OSError:
            h.update(b"<missing>")
    return h.hexdigest()[:16]


def walk(root, exts):
    out = []
    for d, dirs, files in os.walk(root):
        dirs[:] = [x for x in dirs if x not in ("target", ".git", ".build")]
        for f in files:
            if any(f.endswith(e) for e in exts):
                out.append(os.path.join(d, f))
    return out


def repo_hash():
    return file_hash(walk(os.path.join(REPO, "src"), (".rs",)) + [os.path.join(REPO, "Cargo.toml")])


def verif_hash():
    return file_hash(walk(COQ, (".v",)) + walk(os.path.join(HARNESS, "src"), (".rs",)) +
                     walk(OCAML_SRC, (".ml",)) + walk(os.path.join(VERIF, "tools"), (".py",)))


# ---------------------------------------------------------------- builds
def build_harness():
    """debug + release builds of the harness against /repo's working tree"""
    os.makedirs(BUILD, exist_ok=True)
    lock_src = os.path.join(REPO, "Cargo.lock")
    if os.path.exists(lock_src) and not os.path.exists(os.path.join(HARNESS, "Cargo.lock")):
        subprocess.run(["cp", lock_src, os.path.join(HARNESS, "Cargo.lock")])
    env = {"RUSTFLAGS": RUSTFLAGS, "CARGO_TARGET_DIR": CARGO_TARGET, "CARGO_NET_OFFLINE": "true"}
    res = {}
    for mode, flag in (("debug", []), ("release", ["--release"])):
        rc, out = sh(["cargo", "build", "--offline", "--bins"] + flag, cwd=HARNESS, env=env, timeout=1200)
        res[mode] = (rc, out)
        if rc != 0:
            log(out[-3000:])
    return res


def bin_path(mode, name):
    return os.path.join(CARGO_TARGET, mode, name)


def gen_actual():
    rc, out = sh([sys.executable, os.path.join(VERIF, "tools", "gen_actual.py")], timeout=300)
    if rc != 0:
        log(out)
    return rc == 0, out


def coq_files():
    with open(os.path.join(COQ, "_CoqProject")) as f:
        return [l.strip() for l in f if l.strip().endswith(".v")]


def build_coq(target=None):
    """full .vo build through coq_makefile; returns (ok, log)"""
    if not os.path.exists(os.path.join(COQ, "Makefile")) or \
            os.path.getmtime(os.path.join(COQ, "Makefile")) < os.path.getmtime(os.path.join(COQ, "_CoqProject")):
        rc, out = sh(["coq_makefile", "-f", "_CoqProject", "-o", "Makefile"], cwd=COQ)
        if rc != 0:
            return False, out
    args = ["make", "-j%d" % NPROC, "-k"]
    if target:
        args.append(target)
    rc, out = sh(args, cwd=COQ, timeout=1500)
    return rc == 0, out


def coq_failed_files(out):
    return sorted(set(re.findall(r'File "\./([^"]+)", line', out)))


def audit_sources():
    """forbidden vernacular anywhere in the development"""
    bad = []
    for p in walk(COQ, (".v",)):
        with open(p) as f:
            txt = f.read()
        # strip comments (non-nested is enough for our files) and strings
        txt = re.sub(r"\(\*.*?\*\)", " ", txt, flags=re.S)
        for i, line in enumerate(txt.split("\n"), 1):
            m = FORBIDDEN.search(line)
            if m and not re.search(r"\bSection\b", line):
                # Variable/Hypothesis inside a Section are fine; we simply do not use them at all
                bad.append("%s:%d: %s" % (os.path.relpath(p, VERIF), i, m.group(0)))
    return bad


def assumptions(prop):
    """compile Props/<prop>.v alone and read its Print Assumptions output"""
    src = os.path.join(COQ, "Props", prop + ".v")
    if not os.path.exists(src):
        return None
    rc, out = sh(["coqc", "-Q", ".", "BV", os.path.join("Props", prop + ".v")], cwd=COQ, timeout=900)
    with open(src) as f:
        txt = f.read()
    txt_nc = re.sub(r"\(\*.*?\*\)", " ", txt, flags=re.S)
    theorems = re.findall(r"^\s*Theorem\s+(\w+)", txt_nc, flags=re.M)
    printed = re.findall(r"^\s*Print Assumptions\s+(\w+)", txt_nc, flags=re.M)
    closed = out.count("Closed under the global context")
    axioms = []
    if "Axioms:" in out:
        for blk in out.split("Axioms:")[1:]:
            for line in blk.split("\n")[1:]:
                m = re.match(r"^(\S+)\s*:", line)
                if m:
                    axioms.append(m.group(1))
                elif line.strip() == "" or line.startswith("Closed"):
                    break
    bad_axioms = [a for a in axioms if a not in ALLOWED_AXIOMS]
    ok = (rc == 0) and not bad_axioms and set(theorems) <= set(printed) and \
        (closed + (1 if axioms else 0) * 0 >= 0)
    return {"ok": ok, "rc": rc, "theorems": theorems, "printed": printed, "closed": closed,
            "axioms": sorted(set(axioms)), "bad_axioms": bad_axioms, "log": out[-2000:]}


def coqchk(prop):
    """independent re-check of Props/<prop>.vo and everything it depends on (thorough tier)"""
    rc, out = sh(["coqchk", "-o", "-silent", "-Q", ".", "BV", "BV.Props.%s" % prop], cwd=COQ, timeout=1800)
    axioms = []
    m = re.search(r"\* Axioms:(.*?)\n\s*\n\* Constants", out, flags=re.S)
    if m:
        axioms = [l.strip() for l in m.group(1).split("\n") if l.strip() and l.strip() != "<none>"]
    flags = {}
    for key in ("type-in-type", "unsafe (co)fixpoints", "positivity is assumed"):
        mm = re.search(r"%s: (.*)" % re.escape(key), out)
        flags[key] = mm.group(1).strip() if mm else "?"
    bad = [a for a in axioms if not any(a.endswith(x) or x in a for x in ALLOWED_AXIOMS)]
    ok = rc == 0 and not bad and all(v == "<none>" for v in flags.values())
    return {"ok": ok, "rc": rc, "axioms": axioms, "bad_axioms": bad, "flags": flags, "log": out[-1500:]}


def build_ocaml():
    """extraction + ocamlopt of the correspondence checkers (rebuilt when inputs change)"""
    os.makedirs(OCAML_BUILD, exist_ok=True)
    inputs = walk(COQ, (".v",)) + walk(OCAML_SRC, (".ml",))
    key = file_hash([p for p in inputs if "/Props/" not in p])
    stamp = os.path.join(OCAML_BUILD, "stamp")
    if os.path.exists(stamp) and open(stamp).read() == key and os.path.exists(os.path.join(OCAML_BUILD, "arena_check")):
        return True, "cached"
    rc, out = sh(["coqc", "-Q", COQ, "BV", os.path.join(COQ, "Extract.v")], cwd=OCAML_BUILD, timeout=600)
    if rc != 0:
        return False, out
    logs = out
    for prog in ("arena_check", "vec_check", "string_check", "box_check", "borrow_check"):
        subprocess.run(["cp", os.path.join(OCAML_SRC, prog + ".ml"), OCAML_BUILD])
        rc, out = sh(["ocamlfind", "ocamlopt", "-O2", "-package", "zarith,str", "-linkpkg", "-w", "-a",
                      "model.mli", "model.ml", prog + ".ml", "-o", prog], cwd=OCAML_BUILD, timeout=600)
        logs += out
        if rc != 0:
            return False, logs
    with open(stamp, "w") as f:
        f.write(key)
    return True, logs


# ---------------------------------------------------------------- arena engine
ARENA_TIERS = {
    # shards per mode, histories per shard, max ops
    "quick": (8, 700, 60),
    "thorough": (16, 1500, 120),
}

# which observable differences matter to which property (DESIGN.md §3.4)
MISMATCH_PROPS = {
    ("follow", "res"): ["C01", "C02", "C04", "C09", "C11", "C12"],
    # the finger is the state every placement theorem rests on
    ("follow", "cap"): ["C01", "C02", "C04", "C06", "C10", "C11", "C12", "C18"],
    ("follow", "chunks"): ["C01", "C02", "C04", "C06", "C10", "C11", "C12", "C18"],
    ("follow", "stores"): ["C20"],
    ("follow", "frees"): ["C03"],
    ("follow", "reqs"): ["C03", "C07", "C11", "C18"],
    ("follow", "ab"): ["C08"],
    ("follow", "abim"): ["C08"],
    ("follow", "limit"): ["C07"],
    ("follow", "flag1"): ["C07"],
    ("policy", "reqs"): ["C07", "C09", "C18"],
    ("policy", "res"): ["C07", "C09", "C18"],
    ("driver", "parse"): ["*"],
    ("driver", "exception"): ["*"],
}
ARENA_PROPS = ["C01", "C02", "C03", "C04", "C06", "C07", "C08", "C09", "C10", "C11", "C12", "C18", "C20"]


def run_shard(mode, seed, count, maxops, first, outdir, tag):
    trace = os.path.join(outdir, "%s_%s.trace" % (mode, tag))
    rep = os.path.join(outdir, "%s_%s.report" % (mode, tag))
    # every other shard uses the padded binary (static EMPTY_CHUNK on the other residue mod 16)
    drv = bin_path(mode, "arena_driver_pad" if tag.endswith(("1", "3", "5", "7", "9")) else "arena_driver")
    status = "ok"
    with open(trace, "w") as tf:
        try:
            p = subprocess.run([drv, "gen", str(seed), str(count), str(maxops), str(first)],
                               stdout=tf, stderr=subprocess.PIPE, timeout=900)
            if p.returncode not in (0,):
                status = "exit%d" % p.returncode
        except subprocess.TimeoutExpired:
            status = "timeout"
    with open(trace) as tf, open(rep, "w") as rf:
        subprocess.run([os.path.join(OCAML_BUILD, "arena_check")], stdin=tf, stdout=rf, timeout=900)
    lines = open(rep).read().split("\n")
    return {"mode": mode, "tag": tag, "trace": trace, "status": status, "lines": lines,
            "seed": seed, "first": first, "count": count, "maxops": maxops}


VEC_TIERS = {
    "quick": (8, 1500, 40),
    "thorough": (16, 6000, 60),
}
VEC_MISMATCH_PROPS = {
    ("vecmodel", "res"): ["C13", "C15", "C16", "C19"],
    ("vecmodel", "contents"): ["C13", "C15", "C16"],
    ("vecmodel", "cap"): ["C13", "C18", "C19"],
    ("vecmodel", "drops"): ["C15", "C16"],
    ("vecmodel", "final_drops"): ["C15", "C16"],
    ("vecmodel", "grid_with_capacity"): ["C19"],
    ("vecmodel", "grid_reserve"): ["C19"],
    ("vecmodel", "grid_reserve_exact"): ["C19"],
    ("vecmodel", "grid_try_reserve"): ["C19"],
    ("vecmodel", "grid_try_reserve_exact"): ["C19"],
}
VEC_PROPS = ["C13", "C15", "C16", "C19"]

STR_TIERS = {
    "quick": (8, 800, 40),
    "thorough": (16, 4000, 60),
}
STR_MISMATCH_PROPS = {
    ("strmodel", "valid_utf8"): ["C14", "C16"],
    ("strmodel", "panics"): ["C14"],
    ("strmodel", "bytes"): ["C14"],
    ("strmodel", "lossy"): ["C14"],
    ("strmodel", "lossy_spec_vs_std"): ["C14"],
    ("strmodel", "from_utf8"): ["C14"],
}
STR_PROPS = ["C14"]


def run_str_shard(mode, seed, count, maxops, first, outdir, tag):
    trace = os.path.join(outdir, "str_%s_%s.trace" % (mode, tag))
    rep = os.path.join(outdir, "str_%s_%s.report" % (mode, tag))
    drv = bin_path(mode, "string_driver")
    status = "ok"
    with open(trace, "w") as tf:
        try:
            p = subprocess.run([drv, "gen", str(seed), str(count), str(maxops), str(first)],
                               stdout=tf, stderr=subprocess.PIPE, timeout=900)
            if p.returncode != 0:
                status = "exit%d" % p.returncode
        except subprocess.TimeoutExpired:
            status = "timeout"
    with open(trace) as tf, open(rep, "w") as rf:
        subprocess.run([os.path.join(OCAML_BUILD, "string_check")], stdin=tf, stdout=rf, timeout=900)
    lines = open(rep).read().split("\n")
    return {"mode": mode, "tag": tag, "trace": trace, "status": status, "lines": lines,
            "seed": seed, "first": first, "count": count, "maxops": maxops}


BOX_TIERS = {
    "quick": (8, 700, 30),
    "thorough": (16, 4000, 40),
}
BOX_MISMATCH_PROPS = {
    ("boxmodel", "dropped"): ["C17", "C15", "C16"],
    ("boxmodel", "given"): ["C17", "C15"],
}


def multi_run(fns):
    """one run made of several engines' runs (reports keep their engine name)"""
    def run(tier, seed, extra_tag=""):
        out = {"reports": [], "summaries": [], "wall_s": 0, "cached": True, "xc": []}
        for fn in fns:
            r = fn(tier, seed, extra_tag=extra_tag)
            out["xc"] += r.get("xc", [])
            out["reports"] += r["reports"]
            out["summaries"] += r["summaries"]
            out["wall_s"] += r.get("wall_s", 0)
            out["cached"] = out["cached"] and r.get("cached", False)
        return out
    return run
BOX_PROPS = ["C17"]


def run_box_shard(mode, seed, count, maxops, first, outdir, tag):
    trace = os.path.join(outdir, "box_%s_%s.trace" % (mode, tag))
    rep = os.path.join(outdir, "box_%s_%s.report" % (mode, tag))
    drv = bin_path(mode, "box_driver")
    status = "ok"
    with open(trace, "w") as tf:
        try:
            p = subprocess.run([drv, "gen", str(seed), str(count), str(maxops), str(first)],
                               stdout=tf, stderr=subprocess.PIPE, timeout=900)
            if p.returncode != 0:
                status = "exit%d" % p.returncode
        except subprocess.TimeoutExpired:
            status = "timeout"
    with open(trace) as tf, open(rep, "w") as rf:
        subprocess.run([os.path.join(OCAML_BUILD, "box_check")], stdin=tf, stdout=rf, timeout=900)
    lines = open(rep).read().split("\n")
    return {"mode": mode, "tag": tag, "trace": trace, "status": status, "lines": lines,
            "seed": seed, "first": first, "count": count, "maxops": maxops}


BORROW_TIERS = {
    # longest program enumerated for every kind; thorough adds one more statement for three kinds
    "quick": (3, False),
    "thorough": (4, True),
}
BORROW_MISMATCH_PROPS = {
    ("borrowmodel", "accepts"): ["C05"],
    ("borrowmodel", "trait"): ["C05"],
}
BORROW_PROPS = ["C05"]


def borrow_run(tier, seed, extra_tag=""):
    """compile probe + extracted Borrow model (deterministic: the seed only names the cache entry)"""
    import borrow_probe
    os.makedirs(CACHE, exist_ok=True)
    key = "%s_%s_%s%s" % (repo_hash(), verif_hash(), tier, "_search" if extra_tag else "")
    cpath = os.path.join(CACHE, "borrow_%s.json" % key)
    if os.path.exists(cpath) and not os.environ.get("BV_NOCACHE"):
        with open(cpath) as f:
            r = json.load(f)
        if os.path.isdir(r.get("outdir", "")):
            r["cached"] = True
            return r
    maxlen, deep = BORROW_TIERS[tier]
    if extra_tag:
        # the search for a failing program looks one statement further
        maxlen, deep = maxlen + 1, False
    outdir = os.path.join(TRACES, key)
    os.makedirs(outdir, exist_ok=True)
    trace = os.path.join(outdir, "borrow.trace")
    rep = os.path.join(outdir, "borrow.report")
    t0 = time.time()
    status = "ok"
    try:
        borrow_probe.run_trace(maxlen, trace, os.path.join(outdir, "work"), deep=deep)
    except Exception as e:  # rustc missing, crate does not build for clients, ...
        status = "probe_failed:" + re.sub(r"\s+", "_", str(e))[:200]
        open(trace, "a").close()
    with open(trace) as tf, open(rep, "w") as rf:
        subprocess.run([os.path.join(OCAML_BUILD, "borrow_check")], stdin=tf, stdout=rf, timeout=1800)
    reports, summaries, xc = [], [], []
    for line in open(rep).read().split("\n"):
        if line.startswith("XC ") and len(xc) < 400:
            xc.append(line[3:])
        if line.startswith("MISMATCH") or line.startswith("SPEC"):
            reports.append({"mode": "debug", "trace": trace, "line": line, "engine": "borrow", "seed": 0, "maxops": maxlen})
        elif line.startswith("SUMMARY"):
            try:
                summaries.append(json.loads(line[len("SUMMARY "):]))
            except Exception:
                pass
    if status != "ok":
        reports.append({"mode": "debug", "trace": trace, "seed": 0, "maxops": maxlen, "engine": "borrow",
                        "line": "MISMATCH hid=? op=0 who=borrowmodel field=accepts model=? impl=%s desc=[?] hdr=[?]" % status})
    out = {"key": key, "tier": tier, "seed": seed, "wall_s": time.time() - t0, "reports": reports,
           "summaries": summaries, "cached": False, "outdir": outdir, "xc": xc}
    with open(cpath, "w") as f:
        json.dump(out, f)
    return out


def box_run(tier, seed, extra_tag=""):
    return engine_run("box", BOX_TIERS, run_box_shard, "C17", tier, seed, extra_tag)


def str_run(tier, seed, extra_tag=""):
    return engine_run("str", STR_TIERS, run_str_shard, "C14", tier, seed, extra_tag)


def run_vec_shard(mode, seed, count, maxops, first, outdir, tag):
    trace = os.path.join(outdir, "vec_%s_%s.trace" % (mode, tag))
    rep = os.path.join(outdir, "vec_%s_%s.report" % (mode, tag))
    drv = bin_path(mode, "vec_driver")
    status = "ok"
    with open(trace, "w") as tf:
        try:
            p = subprocess.run([drv, "gen", str(seed), str(count), str(maxops), str(first)],
                               stdout=tf, stderr=subprocess.PIPE, timeout=900)
            if p.returncode != 0:
                status = "exit%d" % p.returncode
        except subprocess.TimeoutExpired:
            status = "timeout"
    with open(trace) as tf, open(rep, "w") as rf:
        subprocess.run([os.path.join(OCAML_BUILD, "vec_check")], stdin=tf, stdout=rf, timeout=900)
    lines = open(rep).read().split("\n")
    return {"mode": mode, "tag": tag, "trace": trace, "status": status, "lines": lines,
            "seed": seed, "first": first, "count": count, "maxops": maxops}


def vec_run(tier, seed, extra_tag=""):
    return engine_run("vec", VEC_TIERS, run_vec_shard, "C13", tier, seed, extra_tag)


def arena_run(tier, seed, extra_tag=""):
    return engine_run("arena", ARENA_TIERS, run_shard, "C09", tier, seed, extra_tag)


def prune_traces(keep=12):
    """traces are only needed until the replay files are written: keep the newest few runs"""
    try:
        ds = sorted((os.path.join(TRACES, d) for d in os.listdir(TRACES)), key=os.path.getmtime, reverse=True)
        for d in ds[keep:]:
            subprocess.run(["rm", "-rf", d])
        cs = sorted((os.path.join(CACHE, d) for d in os.listdir(CACHE)), key=os.path.getmtime, reverse=True)
        for c in cs[200:]:
            os.unlink(c)
    except OSError:
        pass


def engine_run(name, tiers, shard_fn, crash_prop, tier, seed, extra_tag=""):
    """run (or fetch from the cache) one engine's correspondence for this tree"""
    os.makedirs(CACHE, exist_ok=True)
    os.makedirs(TRACES, exist_ok=True)
    prune_traces()
    key = "%s_%s_%s_%d%s" % (repo_hash(), verif_hash(), tier, seed, extra_tag)
    cpath = os.path.join(CACHE, "%s_%s.json" % (name, key))
    if os.path.exists(cpath) and not os.environ.get("BV_NOCACHE"):
        with open(cpath) as f:
            r = json.load(f)
        if os.path.isdir(r.get("outdir", "")):      # the traces may have been pruned: then run again
            r["cached"] = True
            return r
    shards, count, maxops = tiers[tier]
    outdir = os.path.join(TRACES, key)
    os.makedirs(outdir, exist_ok=True)
    t0 = time.time()
    jobs = []
    with ThreadPoolExecutor(max_workers=NPROC) as ex:
        for mode in ("debug", "release"):
            for i in range(shards):
                jobs.append(ex.submit(shard_fn, mode, seed, count, maxops, i * count, outdir, "s%d" % i))
        results = [j.result() for j in jobs]
    reports, summaries, xc = [], [], []
    for r in results:
        for line in r["lines"]:
            if line.startswith("MISMATCH") or line.startswith("SPEC"):
                reports.append({"mode": r["mode"], "trace": r["trace"], "line": line, "engine": name,
                                "seed": r["seed"], "maxops": r["maxops"]})
            elif line.startswith("SUMMARY"):
                try:
                    summaries.append(json.loads(line[len("SUMMARY "):]))
                except Exception:
                    pass
            elif line.startswith("XC ") and len(xc) < 400:
                xc.append(line[3:])
        if r["status"] != "ok":
            reports.append({"mode": r["mode"], "trace": r["trace"], "seed": r["seed"], "maxops": r["maxops"], "engine": name,
                            "line": "SPEC hid=? op=0 prop=%s pred=driver_%s detail=driver_status desc=[?] hdr=[?]" % (crash_prop, r["status"])})
    out = {"key": key, "tier": tier, "seed": seed, "wall_s": time.time() - t0, "reports": reports,
           "summaries": summaries, "cached": False, "outdir": outdir, "xc": xc}
    with open(cpath, "w") as f:
        json.dump(out, f)
    return out


def xcheck(prop, samples):
    """re-evaluate sampled model calls inside Coq (vm_compute): independent of extraction and of the OCaml glue"""
    if not samples:
        return {"ok": True, "n": 0, "log": ""}
    d = os.path.join(BUILD, "xcheck")
    os.makedirs(d, exist_ok=True)
    path = os.path.join(d, "X%s.v" % prop)
    body = ["From BV Require Import Word ArenaModel ArenaPolicy VecModel Utf8 Utf8Lossy LossyTableActual Borrow SigFactsActual.",
            "From Coq Require Import NArith List. Import ListNotations. Open Scope N_scope."]
    n = 0
    for sline in samples:
        if " === " not in sline:
            continue
        lhs, rhs = sline.split(" === ", 1)
        if "SAlloc" in lhs or "accepts" in lhs:
            lhs = "(%s)%%nat" % lhs if False else lhs
            body.append("Goal (let f := fun (x : nat) => x in %s) = %s. Proof. vm_compute. reflexivity. Qed." % (nat_scope(lhs), rhs))
        else:
            body.append("Goal (%s) = (%s). Proof. vm_compute. reflexivity. Qed." % (lhs, rhs))
        n += 1
    with open(path, "w") as f:
        f.write("\n".join(body) + "\n")
    rc, out = sh(["coqc", "-Q", COQ, "BV", path], cwd=d, timeout=1200)
    return {"ok": rc == 0, "n": n, "log": out[-800:]}


def nat_scope(term):
    """statement arguments of the borrow language are nat: print numerals in nat scope"""
    return re.sub(r"\b(SAlloc|SUse|SIterBegin|SIterUse|SSpawnRef) (\d+)", r"\1 \2%nat", term)


def parse_report(line):
    d = {"kind": line.split(" ", 1)[0]}
    for m in re.finditer(r"(\w+)=(\[[^\]]*\]|\S+)", line):
        d.setdefault(m.group(1), m.group(2))
    return d


def reports_for(prop, run, table=None):
    """(spec failures of prop, correspondence mismatches that concern prop)"""
    table = table if table is not None else MISMATCH_PROPS
    spec, mism = [], []
    for r in run["reports"]:
        d = parse_report(r["line"])
        d.update({"mode": r["mode"], "trace": r["trace"], "raw": r["line"], "seed": r["seed"], "maxops": r["maxops"],
                  "engine": r.get("engine")})
        if d["kind"] == "SPEC":
            # a driver that crashed, hung or was killed left its histories unchecked: that concerns
            # every property this engine serves, not only the one the engine names by default
            if d.get("prop") == prop or str(d.get("pred", "")).startswith("driver_"):
                spec.append(d)
        elif d["kind"] == "MISMATCH":
            props = table.get((d.get("who"), d.get("field")), ["*"])
            if prop in props or "*" in props:
                mism.append(d)
    return spec, mism


def history_prefix(trace, hid, upto_op):
    """the lines of history hid up to and including operation number upto_op"""
    out, on, n = [], False, 0
    try:
        with open(trace) as f:
            for line in f:
                if line.startswith("H "):
                    on = (" id=%s " % hid) in line or line.startswith("H id=%s " % hid)
                    n = 0
                if on:
                    out.append(line.rstrip("\n"))
                    if line.startswith("O "):
                        n += 1
                        if upto_op and n >= int(upto_op):
                            break
                    if line.startswith("E"):
                        break
    except OSError:
        pass
    return out


# ---------------------------------------------------------------- known findings
def load_known():
    p = os.path.join(VERIF, "known_findings.json")
    if not os.path.exists(p):
        return []
    with open(p) as f:
        return json.load(f)


def known_match(prop, d):
    """an open known finding whose signature matches this report"""
    for k in load_known():
        if k.get("property") != prop or k.get("status") != "open":
            continue
        sig = k.get("signature", {})
        ok = True
        for key, pat in sig.items():
            if not re.search(pat, str(d.get(key, ""))):
                ok = False
                break
        if ok:
            return k
    return None


# ---------------------------------------------------------------- evidence / verdict
def write_replay(prop, kind, what, d, extra=None):
    os.makedirs(REPLAYS, exist_ok=True)
    hist = history_prefix(d.get("trace", ""), d.get("hid", ""), d.get("op", "0")) if d.get("trace") else []
    body = {
        "property": prop,
        "kind": kind,
        "theorem_or_observable": what,
        "report": d.get("raw", ""),
        "mode": d.get("mode"),
        "seed": d.get("seed"),
        "hid": d.get("hid"),
        "history": hist,
        "replay_cmd": "%s gen %s 1 %s %s | %s" % (bin_path(d.get("mode", "debug"), d.get("driver", "arena_driver")), d.get("seed"),
                                                 d.get("maxops"), d.get("hid"), os.path.join(OCAML_BUILD, d.get("checker", "arena_check")))
        if d.get("seed") is not None else None,
        "driver": d.get("driver", "arena_driver"),
        "checker": d.get("checker", "arena_check"),
        "maxops": d.get("maxops"),
    }
    if str(d.get("hid", "")).startswith("iso"):
        n = str(d.get("hid"))[3:]
        body["replay_cmd"] = "%s iso %s 1 %s | %s" % (bin_path(d.get("mode", "debug"), "arena_driver"), d.get("seed"), n, os.path.join(OCAML_BUILD, "arena_check"))
        try:
            with open(d.get("trace", "")) as tf:
                body["history"] = [l.rstrip("\n") for l in tf if l.startswith("I hid=%s " % n)]
        except OSError:
            pass
    if d.get("driver") == "borrow_probe":
        m = re.match(r"\[(\w+):([\w,]+)\]", d.get("desc", ""))
        body["replay_cmd"] = ("python3 %s one %s %s" % (os.path.join(VERIF, "tools", "borrow_probe.py"), m.group(1), m.group(2).replace(",", " "))) if m \
            else "python3 %s trace %s /dev/stdout | %s" % (os.path.join(VERIF, "tools", "borrow_probe.py"), d.get("maxops"), os.path.join(OCAML_BUILD, "borrow_check"))
    if extra:
        body.update(extra)
    h = hashlib.sha256(json.dumps(body, sort_keys=True).encode()).hexdigest()[:10]
    path = os.path.join(REPLAYS, "%s-%s.json" % (prop, h))
    with open(path, "w") as f:
        json.dump(body, f, indent=1)
    return path


def write_evidence(prop, tier, seed, level, coverage, assumptions_, wall, violations):
    os.makedirs(EVIDENCE, exist_ok=True)
    if coverage.get("discharged", 1) == 0:
        # nothing discharged (broken proof / missing theorem file): say so without the
        # proof-level keys, whose schema demands at least one discharged obligation
        coverage = dict(coverage)
        coverage["obligations_total"] = coverage.pop("obligations", 0)
        coverage["discharged_total"] = coverage.pop("discharged", 0)
    ev = {
        "property_id": prop,
        "tier": tier,
        "seed": seed,
        "level": level,
        "coverage": coverage,
        "assumptions": assumptions_,
        "wall_s": round(wall, 2),
        "violations": violations,
    }
    with open(os.path.join(EVIDENCE, prop + ".json"), "w") as f:
        json.dump(ev, f, indent=1)
