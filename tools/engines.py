"""Per-property check logic on top of bvlib (DESIGN.md §3.4, §6)."""
import json
import os
import re
import sys
import time

import bvlib as B

ARENA_ASSUMPTIONS = [
    "global allocator obeys the GlobalAlloc contract (non-null answers are aligned as requested, do not wrap, and are disjoint from everything still held and from the static EMPTY_CHUNK); the harness evaluates this on every recorded answer",
    "callers obey the unsafe-API obligations of Allocator (blocks passed to deallocate/grow/shrink are live and carry their layout)",
    "the correspondence drivers explore generated histories; the theorems cover all histories of the model",
]


def prepare(prop):
    """builds + proof re-check shared by all engines; returns a dict of statuses"""
    st = {}
    t0 = time.time()
    hb = B.build_harness()
    st["harness_ok"] = all(rc == 0 for rc, _ in hb.values())
    st["harness_log"] = "\n".join(out[-1500:] for rc, out in hb.values() if rc != 0)
    ok, out = B.gen_actual() if st["harness_ok"] else (False, "harness did not build")
    st["gen_ok"] = ok
    ok, out = B.build_coq()
    st["coq_ok"] = ok
    st["coq_failed"] = B.coq_failed_files(out) if not ok else []
    st["coq_log"] = out[-30000:] if not ok else ""
    st["audit"] = B.audit_sources()
    st["assumptions"] = B.assumptions(prop)
    ok, out = B.build_ocaml()
    st["ocaml_ok"] = ok
    st["ocaml_log"] = "" if ok else out[-3000:]
    st["prep_s"] = time.time() - t0
    return st


def proof_status(prop, st):
    """(n obligations, n discharged, list of broken things)"""
    a = st["assumptions"]
    broken = []
    if a is None:
        return 0, 0, ["Props/%s.v missing" % prop]
    n = len(a["theorems"])
    if a["rc"] != 0:
        m = re.findall(r'File "[^"]*", line \d+.*?\n(?:.*\n)*?Error:[^\n]*(?:\n[^\n]+){0,3}', a["log"])
        broken.append("Props/%s.v does not check: %s" % (prop, (m[0] if m else a["log"][-600:]).strip().replace("\n", " ")[:500]))
    if a["bad_axioms"]:
        broken.append("axioms outside the allow-list: %s" % ", ".join(a["bad_axioms"]))
    missing = set(a["theorems"]) - set(a["printed"])
    if missing:
        broken.append("no Print Assumptions for: %s" % ", ".join(sorted(missing)))
    if st["audit"]:
        broken.append("forbidden vernacular: %s" % "; ".join(st["audit"][:5]))
    if not st["gen_ok"]:
        broken.append("generated obligations (ConstsActual.v / tables) could not be produced")
    for f in st["coq_failed"]:
        if f.startswith("Props/") and f != "Props/%s.v" % prop:
            continue
        if (f.endswith("Actual.v") or f.endswith("Ok.v")) and a["rc"] != 0:
            m = re.search(r'File "\./%s", line (\d+)[^\n]*\n((?:[^\n]*\n){0,6})' % re.escape(f), st["coq_log"])
            where = (" (line %s: %s)" % (m.group(1), " ".join(m.group(2).split())[:300])) if m else ""
            broken.insert(0, "obligation about the current source no longer checks: %s%s" % (f, where))
    discharged = n if not broken else 0
    return n, discharged, broken


VEC_ASSUMPTIONS = [
    "the arena grants every valid layout below 2^40 bytes and refuses larger ones (the drivers never ask for sizes in between)",
    "std::vec::Vec (the oracle the property names) is correct",
    "elements are identities with observable Drop/Clone; callbacks are scripted (return true/false or panic, at most one panic per script)",
    "the correspondence drivers explore generated programs; the theorems cover all arguments and lengths of the model",
]

ENGINES = {}


def arena_check(prop, tier, seed):
    return engine_check(prop, tier, seed, B.arena_run, B.MISMATCH_PROPS, ARENA_ASSUMPTIONS, "arena_driver", "arena_check")


def vec_check(prop, tier, seed):
    return engine_check(prop, tier, seed, B.vec_run, B.VEC_MISMATCH_PROPS, VEC_ASSUMPTIONS, "vec_driver", "vec_check")


STR_ASSUMPTIONS = [
    "std::string::String, core::str::from_utf8, String::from_utf8_lossy and String::from_utf16 (the oracles the property names) are correct",
    "bytes are modelled as numbers below 256; the model covers the boundary-checking operations and the decoders, the remaining operations are differential-only",
]


BOX_ASSUMPTIONS = [
    "std::boxed::Box (the oracle the property names) is correct",
    "the Box model is ownership bookkeeping only: trait forwarding is decided by the differential, not by theorems",
]


def box_check(prop, tier, seed):
    return engine_check(prop, tier, seed, B.box_run, B.BOX_MISMATCH_PROPS, BOX_ASSUMPTIONS, "box_driver", "box_check")


def str_check(prop, tier, seed):
    return engine_check(prop, tier, seed, B.str_run, B.STR_MISMATCH_PROPS, STR_ASSUMPTIONS, "string_driver", "string_check")


RULES = {
    "arena_driver": "random histories from one PRNG state (seed, history id), debug and release builds, MIN_ALIGN in {1,2,4,8,16}; a history is non-trivial if it reached the slow path, an allocator refusal, an in-place grow/shrink copy, a multi-chunk reset, a failed initialiser or a limit refusal; distinct by hash of its (op,size,align) sequence",
    "vec_driver": "random programs over 26 Vec operations from one PRNG state (seed, history id), debug and release, run on bumpalo's Vec, std's Vec and the extracted model; each history ends with a zero-sized-element section; non-trivial = more than 6 operations or a panic/refusal reached; plus the C19 boundary grid",
    "string_driver": "random programs over the String operations (every byte index, boundary or not; 1-4 byte characters) on bumpalo's String, std's String and the extracted model, plus the decoder sweeps (all byte strings up to length 3 over a structural alphabet, random longer ones, u16 sequences)",
    "box_driver": "generated Box scenarios on bumpalo's Box and std's Box with a drop ledger and the global-allocator log",
    "borrow_probe": "every well-scoped program of the Borrow.v client language up to the tier's length, for 10 kinds of arena-backed value, rendered to Rust and judged by rustc (--emit=metadata) against the crate built from /repo; verdicts compared with the extracted accepts/drun; plus fixed trait, ordinary and negative probes. Deterministic (no PRNG).",
}
ENGINE_BINS = {"borrow": ("borrow_probe", "borrow_check"),
               "arena": ("arena_driver", "arena_check"), "vec": ("vec_driver", "vec_check"),
               "str": ("string_driver", "string_check"), "box": ("box_driver", "box_check")}


def tag_engine(d, driver, checker):
    dr, ck = ENGINE_BINS.get(d.get("engine"), (driver, checker))
    d["driver"] = dr
    d["checker"] = ck


def engine_check(prop, tier, seed, run_fn, table, assumptions, driver, checker):
    t0 = time.time()
    st = prepare(prop)
    violations = []      # (line printed, replay path)
    known_lines = []
    if not st["harness_ok"]:
        path = B.write_replay(prop, "build-broken", "harness build against /repo with --cfg bumpalo_verif",
                              {"raw": st["harness_log"][-1500:]})
        print("VIOLATION property=%s replay=%s no-failing-input-found" % (prop, path))
        B.write_evidence(prop, tier, seed, "proof",
                         {"obligations": 1, "discharged": 0, "checker_cmd": "cargo build", "trusted_base": B.TRUSTED_BASE,
                          "explanation": "the hooked crate or the harness does not build"}, assumptions,
                         time.time() - t0, 1)
        return 1
    n_obl, n_dis, broken = proof_status(prop, st)
    chk = None
    if tier == "thorough" and st["coq_ok"]:
        chk = B.coqchk(prop)
        if not chk["ok"]:
            broken.append("coqchk does not accept Props/%s.vo: rc=%s axioms=%s flags=%s" % (prop, chk["rc"], chk["axioms"], chk["flags"]))
    if not st["ocaml_ok"]:
        broken.append("extraction / OCaml checker build failed: " + st["ocaml_log"][-400:])
    run = run_fn(tier, seed) if st["ocaml_ok"] else {"reports": [], "summaries": [], "wall_s": 0, "cached": False}
    xres = None
    if tier == "thorough" and st["coq_ok"] and run.get("xc"):
        xres = B.xcheck(prop, run["xc"])
        if not xres["ok"]:
            broken.append("vm_compute cross-check of the extracted model disagrees with Coq's own evaluation: " + xres["log"][-300:].replace("\n", " "))
    spec, mism = B.reports_for(prop, run, table)
    for d in spec + mism:
        tag_engine(d, driver, checker)
    # 1. spec predicate fails on the implementation: a concrete failing history
    seen_sig = set()
    for d in spec:
        k = B.known_match(prop, d)
        if k:
            line = "KNOWN-FINDING: property=%s %s" % (prop, k.get("what_fails", ""))
            if line not in known_lines:
                known_lines.append(line)
            continue
        sig = (d.get("pred"), d.get("mode"))
        if sig in seen_sig:
            continue
        seen_sig.add(sig)
        path = B.write_replay(prop, "impl-violation", d.get("pred", ""), d)
        violations.append("VIOLATION property=%s replay=%s" % (prop, path))
    # 2. correspondence broken on an observable of this property / proof broken
    if not violations:
        unexplained = [d for d in mism if not B.known_match(prop, d)]
        for d in mism:
            k = B.known_match(prop, d)
            if k:
                line = "KNOWN-FINDING: property=%s %s" % (prop, k.get("what_fails", ""))
                if line not in known_lines:
                    known_lines.append(line)
        if unexplained or broken:
            # look further for a failing input before giving up: more seeds
            found = None
            if st["ocaml_ok"] and tier == "quick" and not os.environ.get("BV_NO_SEARCH"):
                for extra in range(1, 4):
                    r2 = run_fn(tier, seed + 7919 * extra, extra_tag="_search")
                    s2, _ = B.reports_for(prop, r2, table)
                    for d in s2:
                        tag_engine(d, driver, checker)
                    s2 = [d for d in s2 if not B.known_match(prop, d)]
                    if s2:
                        found = s2[0]
                        break
            if found:
                path = B.write_replay(prop, "impl-violation", found.get("pred", ""), found)
                violations.append("VIOLATION property=%s replay=%s" % (prop, path))
            else:
                what = "; ".join(broken) if broken else "correspondence: %s/%s" % (unexplained[0].get("who"), unexplained[0].get("field"))
                d = unexplained[0] if unexplained else {"raw": what}
                path = B.write_replay(prop, "proof-broken" if broken else "correspondence-broken", what, d,
                                      {"broken": broken, "n_mismatches": len(unexplained)})
                violations.append("VIOLATION property=%s replay=%s no-failing-input-found" % (prop, path))
    # evidence
    tot = {"histories": 0, "ops": 0, "distinct_nontrivial": 0}
    histo = {}
    samples = []
    for s in run.get("summaries", []):
        tot["histories"] += s.get("histories", 0)
        tot["ops"] += s.get("ops", 0)
        tot["distinct_nontrivial"] += s.get("distinct_nontrivial", 0)
        for k, v in s.get("histogram", {}).items():
            k2 = re.sub(r"0x[0-9a-f]+", "ADDR", k)
            histo[k2] = histo.get(k2, 0) + v
        samples += s.get("samples", [])[:1]
    a = st["assumptions"] or {}
    cov = {
        "obligations": max(n_obl, 1),
        "discharged": n_dis if not broken else 0,
        "checker_cmd": "cd coq && coq_makefile -f _CoqProject -o Makefile && make (coqc 8.16.1, full .vo build); coqc -Q . BV Props/%s.v for Print Assumptions" % prop,
        "trusted_base": B.TRUSTED_BASE,
        "theorems": a.get("theorems", []),
        "print_assumptions": "Closed under the global context x%d" % a.get("closed", 0) + ("; axioms: " + ",".join(a.get("axioms", [])) if a.get("axioms") else ""),
        "proof_broken": broken,
        "vm_compute_cross_check": ({"samples": xres["n"], "agree": xres["ok"]} if xres else "thorough tier only"),
        "coqchk": ({"axioms": chk["axioms"] or ["<none>"], "flags": chk["flags"], "accepted": chk["ok"]} if chk else "thorough tier only"),
        "evaluations": tot["histories"],
        "distinct_nontrivial": tot["distinct_nontrivial"],
        "rule": RULES.get(driver, RULES["arena_driver"]),
        "traces_validated_against_impl": tot["histories"],
        "operations": tot["ops"],
        "histogram": histo,
        "samples": samples[:3] + [{"theorem": t} for t in a.get("theorems", [])[:6]],
        "correspondence_mismatches_for_this_property": len(mism),
        "spec_failures_for_this_property": len(spec),
        "arena_run_cached": run.get("cached", False),
        "arena_run_wall_s": round(run.get("wall_s", 0), 1),
    }
    for l in known_lines:
        print(l)
    for v in violations:
        print(v)
    B.write_evidence(prop, tier, seed, "proof", cov, assumptions, time.time() - t0, len(violations))
    return 1 if violations else 0


BORROW_ASSUMPTIONS = [
    "rustc's type and borrow checking (the oracle the property names) is what decides acceptance; the probe asks it with --emit=metadata",
    "the client language of coq/Borrow.v (one arena; bindings, uses, reset, chunk iteration, drop/move, two thread patterns) stands for the misuse families of the property; richer programs are covered by the fixed ordinary/negative probes only",
    "tools/sigfacts.py reads the signatures textually; what it cannot recognise makes the obligation fail rather than pass",
]


def borrow_check(prop, tier, seed):
    return engine_check(prop, tier, seed, B.borrow_run, B.BORROW_MISMATCH_PROPS, BORROW_ASSUMPTIONS, "borrow_probe", "borrow_check")


def multi_check(prop, tier, seed):
    """C15/C16 quantify over Vec, String and Box: all three engines' reports count"""
    table = dict(B.VEC_MISMATCH_PROPS)
    table.update(B.STR_MISMATCH_PROPS)
    table.update(B.BOX_MISMATCH_PROPS)
    return engine_check(prop, tier, seed, B.multi_run([B.vec_run, B.str_run, B.box_run]), table,
                        VEC_ASSUMPTIONS + STR_ASSUMPTIONS + BOX_ASSUMPTIONS, "vec_driver", "vec_check")


def c18_check(prop, tier, seed):
    """C18 speaks about the arena's chunks and about Vec/String growth: both engines count"""
    table = dict(B.MISMATCH_PROPS)
    table.update(B.VEC_MISMATCH_PROPS)
    return engine_check(prop, tier, seed, B.multi_run([B.arena_run, B.vec_run]), table,
                        ARENA_ASSUMPTIONS + VEC_ASSUMPTIONS, "arena_driver", "arena_check")


def check(prop, tier, seed):
    if prop in ("C15", "C16"):
        return multi_check(prop, tier, seed)
    if prop == "C18":
        return c18_check(prop, tier, seed)
    if prop == "C19":
        # impossible sizes are refused by the arena itself as well as by the collections
        table = dict(B.MISMATCH_PROPS)
        table.update(B.VEC_MISMATCH_PROPS)
        return engine_check(prop, tier, seed, B.multi_run([B.vec_run, B.arena_run]), table,
                            VEC_ASSUMPTIONS + ARENA_ASSUMPTIONS, "vec_driver", "vec_check")
    if prop == "C20":
        # collections carry their arena with them: the vec engine's cross-arena section counts too
        table = dict(B.MISMATCH_PROPS)
        table.update(B.VEC_MISMATCH_PROPS)
        return engine_check(prop, tier, seed, B.multi_run([B.arena_run, B.vec_run]), table,
                            ARENA_ASSUMPTIONS + VEC_ASSUMPTIONS, "arena_driver", "arena_check")
    if prop == "C17":
        # Box<[T]> is also produced by the Vec conversions and collect_in: the vec engine's reports count
        table = dict(B.BOX_MISMATCH_PROPS)
        table.update(B.VEC_MISMATCH_PROPS)
        return engine_check(prop, tier, seed, B.multi_run([B.box_run, B.vec_run]), table,
                            BOX_ASSUMPTIONS + VEC_ASSUMPTIONS, "box_driver", "box_check")
    if prop in B.ARENA_PROPS:
        return arena_check(prop, tier, seed)
    if prop in B.VEC_PROPS:
        return vec_check(prop, tier, seed)
    if prop in B.STR_PROPS:
        return str_check(prop, tier, seed)
    if prop in B.BOX_PROPS:
        return box_check(prop, tier, seed)
    if prop in B.BORROW_PROPS:
        return borrow_check(prop, tier, seed)
    print("no engine for %s" % prop, file=sys.stderr)
    return 2


def replay(prop, path):
    with open(path) as f:
        r = json.load(f)
    B.build_harness()
    B.build_ocaml()
    if r.get("seed") is None:
        print("replay file names a proof obligation / correspondence, not an input: %s" % r.get("theorem_or_observable"))
        return check(prop, "quick", int(os.environ.get("VERIF_SEED", "20260930")))
    drv = B.bin_path(r.get("mode", "debug"), r.get("driver", "arena_driver"))
    import subprocess
    p1 = subprocess.run([drv, "gen", str(r["seed"]), "1", str(r.get("maxops", 60) or 60), str(r["hid"])],
                        stdout=subprocess.PIPE, timeout=600)
    p2 = subprocess.run([os.path.join(B.OCAML_BUILD, r.get("checker", "arena_check"))], input=p1.stdout, stdout=subprocess.PIPE, timeout=600)
    out = p2.stdout.decode()
    bad = [l for l in out.split("\n") if (l.startswith("SPEC") and ("prop=%s " % prop) in l)]
    for l in bad:
        print(l[:400])
    if bad:
        print("VIOLATION property=%s replay=%s" % (prop, path))
        return 1
    print("replay: property %s holds on this history now" % prop)
    return 0
