#!/usr/bin/env python3
"""C05 compile probe: renders client programs of the Borrow.v language to Rust,
asks rustc (type + borrow checking only, --emit=metadata) whether each one is
accepted against the crate built from /repo, and writes one history per program
for ocaml/borrow_check (which evaluates the extracted `accepts` / `drun`).

  borrow_probe.py trace <maxlen> <outfile>      enumerate, compile, write the trace
  borrow_probe.py one <kind> <tok> <tok> ...    render + compile one program, print everything
"""
import itertools
import json
import os
import re
import subprocess
import sys
from concurrent.futures import ThreadPoolExecutor

sys.path.insert(0, os.path.dirname(os.path.abspath(__file__)))
import bvlib as B

# ---------------------------------------------------------------- the language
# tokens: A<r> alloc, U<r> use, R reset, I<i> iter begin, J<i> iter use, D drop arena,
#         M move arena, S share between threads, T move to thread, X<r> send collection r
def MD(e):
    return "ManuallyDrop::new(%s)" % e


KINDS = {
    # kind: (binding: an expression, or statements with {r} = bound name and {h} = helper name,
    #        has implicit drop at scope end, may be sent with X)
    "ref": ("a.alloc(7u32)", False, False),
    "str": ("a.alloc_str(\"x\")", False, False),
    "slice": ("a.alloc_slice_copy(&[1u8, 2])", False, False),
    "fill": ("a.alloc_slice_fill_with(3, |i| i)", False, False),
    "vec": (MD("Vec::<u8>::with_capacity_in(4, &a)"), False, True),
    "string": (MD("BString::from_str_in(\"x\", &a)"), False, True),
    "box": (MD("BBox::new_in(5u64, &a)"), False, False),
    "vecd": ("bumpalo::vec![in &a; 1u8, 2]", True, False),
    "stringd": ("bumpalo::format!(in &a, \"{}\", 1)", True, False),
    "boxd": ("BBox::new_in([1u8; 3], &a)", True, False),
    # ---- other ways to obtain an arena-backed value: constructors, helpers, conversions, views
    "alloc_with": ("a.alloc_with(|| 1u8)", False, False),
    "try_alloc": ("a.try_alloc(1u8).unwrap()", False, False),
    "try_alloc_with": ("a.try_alloc_with(|| 1u8).unwrap()", False, False),
    "alloc_try_with": ("a.alloc_try_with(|| Ok::<u8, ()>(1)).unwrap()", False, False),
    "try_alloc_try_with": ("a.try_alloc_try_with(|| Ok::<u8, ()>(1)).unwrap()", False, False),
    "slice_clone": ("a.alloc_slice_clone(&[std::string::String::new()])", False, False),
    "fill_copy": ("a.alloc_slice_fill_copy(3, 1u8)", False, False),
    "fill_clone": ("a.alloc_slice_fill_clone(3, &1u8)", False, False),
    "fill_iter": ("a.alloc_slice_fill_iter([1u8, 2].iter().copied())", False, False),
    "fill_default": ("a.alloc_slice_fill_default::<u8>(3)", False, False),
    "try_slice_copy": ("a.try_alloc_slice_copy(&[1u8]).unwrap()", False, False),
    "try_str": ("a.try_alloc_str(\"x\").unwrap()", False, False),
    "try_slice_clone": ("a.try_alloc_slice_clone(&[1u8, 2]).unwrap()", False, False),
    "try_fill_with": ("a.try_alloc_slice_fill_with(3, |i| i).unwrap()", False, False),
    "try_fill_copy": ("a.try_alloc_slice_fill_copy(3, 1u8).unwrap()", False, False),
    "try_fill_clone": ("a.try_alloc_slice_fill_clone(3, &1u8).unwrap()", False, False),
    "try_fill_iter": ("a.try_alloc_slice_fill_iter([1u8, 2].iter().copied()).unwrap()", False, False),
    "try_fill_default": ("a.try_alloc_slice_fill_default::<u8>(3).unwrap()", False, False),
    "slice_try_fill_with": ("a.alloc_slice_try_fill_with(3, |i| Ok::<usize, ()>(i)).unwrap()", False, False),
    "slice_try_fill_iter": ("a.alloc_slice_try_fill_iter([Ok::<u8, ()>(1), Ok(2)].iter().copied()).unwrap()", False, False),
    "vec_new": (MD("Vec::<u8>::new_in(&a)"), False, True),
    "vec_from_iter": (MD("Vec::from_iter_in(0u8..3, &a)"), False, True),
    "string_new": (MD("BString::new_in(&a)"), False, True),
    "string_cap": (MD("BString::with_capacity_in(3, &a)"), False, True),
    "string_from_iter": (MD("BString::from_iter_in(['a', 'b'].iter().copied(), &a)"), False, True),
    "string_lossy": (MD("BString::from_utf8_lossy_in(b\"x\", &a)"), False, True),
    "string_utf16": (MD("BString::from_utf16_in(&[120u16], &a).unwrap()"), False, True),
    "string_from_utf8": (MD("BString::from_utf8(bumpalo::vec![in &a; 120u8]).unwrap()"), False, True),
    "string_into_bytes": (MD("BString::from_str_in(\"x\", &a).into_bytes()"), False, True),
    "string_into_bump_str": ("BString::from_str_in(\"x\", &a).into_bump_str()", False, False),
    "vec_into_bump_slice": ("bumpalo::vec![in &a; 1u8].into_bump_slice()", False, False),
    "vec_into_bump_slice_mut": ("bumpalo::vec![in &a; 1u8].into_bump_slice_mut()", False, False),
    "vec_into_boxed_slice": (MD("bumpalo::vec![in &a; 1u8].into_boxed_slice()"), False, False),
    "vec_into_iter": (MD("bumpalo::vec![in &a; 1u8].into_iter()"), False, False),
    "box_from_vec": (MD("BBox::<[u8]>::from(bumpalo::vec![in &a; 1u8])"), False, False),
    "box_slice_from_array": (MD("BBox::<[u8]>::from(BBox::new_in([1u8; 3], &a))"), False, False),
    "box_array_from_slice": (MD("BBox::<[u8; 3]>::try_from(BBox::<[u8]>::from(BBox::new_in([1u8; 3], &a))).ok().unwrap()"), False, False),
    "box_pin": (MD("BBox::pin_in(1u8, &a)"), False, False),
    "box_into_pin": (MD("std::pin::Pin::<BBox<u8>>::from(BBox::new_in(1u8, &a))"), False, False),
    "box_leak": ("BBox::leak(BBox::new_in(1u8, &a))", False, False),
    "box_from_iter": (MD("BBox::from_iter_in(0u8..3, &a)"), False, False),
    "collect_vec": (MD("(0u8..3).collect_in::<Vec<u8>>(&a)"), False, True),
    "collect_box": (MD("(0u8..3).collect_in::<BBox<[u8]>>(&a)"), False, False),
    "collect_string": (MD("\"ab\".chars().collect_in::<BString>(&a)"), False, True),
    "vec_clone": (MD("bumpalo::vec![in &a; 1u8].clone()"), False, True),
    "vec_split_off": (MD("bumpalo::vec![in &a; 1u8, 2].split_off(1)"), False, True),
    "string_split_off": (MD("BString::from_str_in(\"xy\", &a).split_off(1)"), False, True),
    # views into a collection: the collection itself lives in a helper binding
    "vec_drain": ("let mut {h} = " + MD("bumpalo::vec![in &a; 1u8, 2]") + "; let {r} = " + MD("{h}.drain(..)") + ";", False, False),
    "vec_drain_filter": ("let mut {h} = " + MD("bumpalo::vec![in &a; 1u8, 2]") + "; let {r} = " + MD("{h}.drain_filter(|_| true)") + ";", False, False),
    "vec_splice": ("let mut {h} = " + MD("bumpalo::vec![in &a; 1u8, 2]") + "; let {r} = " + MD("{h}.splice(.., [3u8])") + ";", False, False),
    "vec_as_slice": ("let mut {h} = " + MD("bumpalo::vec![in &a; 1u8, 2]") + "; let {r} = {h}.as_mut_slice();", False, False),
    "vec_iter": ("let {h} = " + MD("bumpalo::vec![in &a; 1u8, 2]") + "; let {r} = {h}.iter();", False, False),
    "string_drain": ("let mut {h} = " + MD("BString::from_str_in(\"xy\", &a)") + "; let {r} = " + MD("{h}.drain(..)") + ";", False, False),
    "string_as_str": ("let {h} = " + MD("BString::from_str_in(\"xy\", &a)") + "; let {r} = {h}.as_str();", False, False),
    "string_chars": ("let {h} = " + MD("BString::from_str_in(\"xy\", &a)") + "; let {r} = {h}.chars();", False, False),
    "box_deref": ("let mut {h} = " + MD("BBox::new_in(1u8, &a)") + "; let {r} = &mut **{h};", False, False),
    "vec_bump": ("let {h} = " + MD("Vec::<u8>::new_in(&a)") + "; let {r} = {h}.bump();", False, False),
}
BASE_KINDS = ("ref", "str", "slice", "fill", "vec", "string", "box", "vecd", "stringd", "boxd")
PRELUDE = """#![allow(warnings)]
extern crate bumpalo;
use bumpalo::Bump;
use bumpalo::collections::Vec;
use bumpalo::collections::String as BString;
use bumpalo::boxed::Box as BBox;
use std::mem::ManuallyDrop;
use bumpalo::collections::CollectIn;
use std::convert::TryFrom;
fn touch<T: ?Sized>(_: &T) {}
fn need_send<T: Send>() {}
fn need_sync<T: Sync>() {}
"""


def alphabet(kind):
    toks = ["A0", "A1", "U0", "U1", "R", "I0", "J0", "D", "M", "S", "T"]
    if KINDS[kind][2]:
        toks.append("X0")
    return toks


def well_scoped(prog):
    """names are bound before they are used (the rest is name resolution, not borrowing)"""
    refs, iters = set(), set()
    for t in prog:
        if t[0] == "A":
            refs.add(t[1:])
        elif t[0] in "UX":
            if t[1:] not in refs:
                return False
        elif t[0] == "I":
            iters.add(t[1:])
        elif t[0] == "J":
            if t[1:] not in iters:
                return False
    return True


def interesting(prog):
    # something must be able to go wrong or right: at least one binding or a thread/arena statement
    return any(t[0] in "AISTDMR" for t in prog)


def bind_stmt(expr, r, h):
    if "{r}" in expr:
        return expr.replace("{r}", r).replace("{h}", h)
    return "let %s = %s;" % (r, expr)


def render(kind, prog, fname):
    """-> (rust source of one function, the program the model must judge)"""
    expr, implicit_drop, _ = KINDS[kind]
    lines = ["fn %s() {" % fname, "    let mut a = Bump::new();"]
    model = []
    cur = {}        # source name -> unique binding number (implicit-drop kinds are renamed apart)
    n_bind = 0
    n_help = 0
    for t in prog:
        k, arg = t[0], t[1:]
        if k == "A":
            if implicit_drop:
                cur[arg] = n_bind
                n_bind += 1
                lines.append("    " + bind_stmt(expr, "r%d" % cur[arg], "h%d" % n_help))
                n_help += 1
                model.append("A%d" % cur[arg])
            else:
                lines.append("    " + bind_stmt(expr, "r%s" % arg, "h%d" % n_help))
                n_help += 1
                model.append(t)
        elif k == "U":
            name = cur[arg] if implicit_drop else arg
            lines.append("    touch(&r%s);" % name)
            model.append("U%s" % name)
        elif k == "R":
            lines.append("    a.reset();")
            model.append("R")
        elif k == "I":
            lines.append("    let mut i%s = a.iter_allocated_chunks();" % arg)
            model.append(t)
        elif k == "J":
            lines.append("    touch(&i%s.next());" % arg)
            model.append(t)
        elif k == "D":
            lines.append("    drop(a);")
            model.append("D")
        elif k == "M":
            lines.append("    let b = a; touch(&b);")
            model.append("M")
        elif k == "S":
            lines.append("    std::thread::scope(|s| { s.spawn(|| { touch(a.alloc(1u8)); }); s.spawn(|| { touch(a.alloc(2u8)); }); });")
            model.append("S")
        elif k == "T":
            lines.append("    std::thread::spawn(move || { let b = a; drop(b); }).join().unwrap();")
            model.append("T")
        elif k == "X":
            lines.append("    std::thread::scope(|s| { s.spawn(move || { let mut v = r%s; v.reserve(64); touch(&v); }); touch(a.alloc(1u8)); });" % arg)
            model.append(t)
    if implicit_drop:
        # every binding is dropped at the end of the scope: an implicit use
        for i in range(n_bind):
            model.append("U%d" % i)
    lines.append("}")
    return "\n".join(lines), model


TRAIT_QUERIES = [
    ("bump_send", "need_send::<Bump>();"),
    ("bump_sync", "need_sync::<Bump>();"),
    ("ref_bump_send", "need_send::<&'static Bump>();"),
    ("vec_send", "need_send::<Vec<'static, u8>>();"),
    ("string_send", "need_send::<BString<'static>>();"),
]
# ordinary patterns outside the little language: must compile
ORDINARY = [
    ("copy_outlives_source", """
    let a = Bump::new();
    let kept = { let src = std::string::String::from("hello"); a.alloc_str(&src) };
    let kept2 = { let src = std::vec![1u8, 2, 3]; a.alloc_slice_copy(&src) };
    let kept3 = { let src = std::string::String::from("hi"); BString::from_str_in(&src, &a) };
    touch(&kept); touch(&kept2); touch(&kept3);"""),
    ("copy_outlives_source_alloc_str", """
    let a = Bump::new(); let kept = { let src = std::string::String::from("hello"); a.alloc_str(&src) }; touch(&kept);"""),
    ("copy_outlives_source_alloc_slice_copy", """
    let a = Bump::new(); let kept = { let src = std::vec![1u8, 2, 3]; a.alloc_slice_copy(&src) }; touch(&kept);"""),
    ("copy_outlives_source_alloc_slice_clone", """
    let a = Bump::new(); let kept = { let src = std::vec![std::string::String::from("x")]; a.alloc_slice_clone(&src) }; touch(&kept);"""),
    ("copy_outlives_source_string_from_str_in", """
    let a = Bump::new(); let kept = { let src = std::string::String::from("hi"); BString::from_str_in(&src, &a) }; touch(&kept);"""),
    ("copy_outlives_source_from_utf8_lossy_in", """
    let a = Bump::new(); let kept = { let src = std::vec![104u8, 105, 255]; BString::from_utf8_lossy_in(&src, &a) }; touch(&kept);"""),
    ("copy_outlives_source_from_utf16_in", """
    let a = Bump::new(); let kept = { let src = std::vec![104u16, 105]; BString::from_utf16_in(&src, &a).unwrap() }; touch(&kept);"""),
    ("copy_outlives_source_push_str", """
    let a = Bump::new(); let mut kept = BString::new_in(&a); { let src = std::string::String::from("hi"); kept.push_str(&src); kept.insert_str(0, &src); kept.extend(src.chars()); } touch(&kept);"""),
    ("copy_outlives_source_vec_extend", """
    let a = Bump::new(); let mut kept = Vec::new_in(&a);
    { let src = std::vec![1u8, 2]; kept.extend_from_slice(&src); kept.extend_from_slice_copy(&src); kept.extend(src.iter().copied()); kept.extend_from_slices_copy(&[&src[..], &src[..]]); }
    touch(&kept);"""),
    ("copy_outlives_source_extend_by_ref", """
    let a = Bump::new(); let mut kept: Vec<u8> = Vec::new_in(&a);
    { let src = std::vec![1u8, 2]; kept.extend(&src); kept.extend(src.iter()); }
    fn f<'b>(dst: &mut Vec<'b, u32>, src: &[u32]) { dst.extend(src); dst.extend(src.iter()); dst.extend_from_slice(src); }
    let mut k2: Vec<u32> = Vec::new_in(&a); { let s2 = std::vec![1u32]; f(&mut k2, &s2); }
    let mut t = BString::new_in(&a);
    { let s3 = std::string::String::from("ab"); t.extend(s3.chars()); t.extend(s3.split('a')); let cs = std::vec!['x']; t.extend(cs.iter()); t.push_str(&s3); }
    fn g<'b>(dst: &mut BString<'b>, src: &str) { dst.push_str(src); dst.extend(src.chars()); dst.extend(std::iter::once(src)); }
    g(&mut t, "q");
    touch(&kept); touch(&k2); touch(&t);"""),
    ("copy_outlives_source_vec_from_iter_in", """
    let a = Bump::new(); let kept = { let src = std::vec![1u8, 2]; Vec::from_iter_in(src.iter().copied(), &a) };
    let kept2 = { let src = std::vec![1u8, 2]; src.iter().copied().collect_in::<Vec<u8>>(&a) }; touch(&kept); touch(&kept2);"""),
    ("copy_outlives_source_box_and_fill", """
    let a = Bump::new(); let kept = { let src = std::vec![1u8, 2]; BBox::<[u8]>::from_iter_in(src.iter().copied(), &a) };
    let kept2 = { let src = std::vec![3u8, 4]; a.alloc_slice_fill_iter(src.iter().copied()) };
    let kept3 = { let src = 5u8; a.alloc_slice_fill_copy(3, src) }; let kept4 = { let src = std::string::String::from("z"); a.alloc_slice_fill_clone(2, &src) };
    touch(&kept); touch(&kept2); touch(&kept3); touch(&kept4);"""),
    ("copy_outlives_source_try_variants", """
    let a = Bump::new();
    let k1 = { let src = std::vec![1u8, 2, 3]; a.try_alloc_slice_copy(&src).unwrap() };
    let k2 = { let src = std::vec![std::string::String::from("x")]; a.try_alloc_slice_clone(&src).unwrap() };
    let k3 = { let src = std::string::String::from("hello"); a.try_alloc_str(&src).unwrap() };
    let k4 = { let src = std::string::String::from("z"); a.try_alloc_slice_fill_clone(2, &src).unwrap() };
    let k5 = { let src = std::vec![3u8, 4]; a.try_alloc_slice_fill_iter(src.iter().copied()).unwrap() };
    touch(&k1); touch(&k2); touch(&k3); touch(&k4); touch(&k5);"""),
    ("idle_min_align_arenas_to_threads", """
    let a2 = Bump::<2>::with_min_align(); let a8 = Bump::<8>::with_min_align(); let a16 = Bump::<16>::with_min_align();
    touch(a8.alloc(1u8));
    let h = std::thread::spawn(move || { touch(a2.alloc(1u8)); touch(a8.alloc(2u64)); touch(a16.alloc(3u8)); (a2, a8, a16) });
    let (b2, b8, b16) = h.join().unwrap(); touch(b2.alloc(1u8)); touch(b8.alloc(1u8)); touch(b16.alloc(1u8));
    let (tx, rx) = std::sync::mpsc::channel::<Bump<4>>(); tx.send(Bump::<4>::with_min_align()).unwrap(); touch(rx.recv().unwrap().alloc(1u8));"""),
    ("many_kinds_alive_at_once", """
    let a = Bump::new();
    let x = a.alloc(1u32); let s = a.alloc_str("s"); let mut v = Vec::new_in(&a); v.push(1u8);
    let t = BString::from_str_in("t", &a); let b = BBox::new_in(3u8, &a); let y = a.alloc(2u32);
    *x += *y; touch(&s); touch(&v); touch(&t); touch(&b);"""),
    ("idle_arena_to_thread_and_back", """
    let mut a = Bump::new();
    { let x = a.alloc(1u32); touch(&x); }
    a.reset();
    let a = std::thread::spawn(move || { let y = a.alloc(2u8); touch(&y); a }).join().unwrap();
    touch(a.alloc(3u8));"""),
    ("reset_between_phases", """
    let mut a = Bump::new();
    for round in 0..3 { { let v = Vec::from_iter_in(0..round, &a); touch(&v); } a.reset(); }
    for c in a.iter_allocated_chunks() { touch(&c); }
    touch(a.alloc(1u8));"""),
    ("value_moved_out_outlives_arena", """
    let out;
    { let a = Bump::new(); let b = BBox::new_in(std::string::String::from("v"), &a); out = BBox::into_inner(b); }
    touch(&out);"""),
]
# misuse outside the little language: must not compile
NEGATIVE = [
    ("returned_ref_outlives_arena", """
    fn f<'x>() -> &'x mut u32 { let a = Bump::new(); a.alloc(1u32) }
    touch(&f());"""),
    ("vec_outlives_arena", """
    let v; { let a = Bump::new(); v = Vec::<u8>::new_in(&a); } touch(&v);"""),
    ("string_outlives_arena", """
    let v; { let a = Bump::new(); v = BString::new_in(&a); } touch(&v);"""),
    ("box_outlives_arena", """
    let v; { let a = Bump::new(); v = BBox::new_in(1u8, &a); } touch(&v);"""),
    ("boxed_array_into_slice_outlives_arena", """
    let s: BBox<[u32]>; { let a = Bump::new(); s = BBox::new_in([1u32; 4], &a).into(); } touch(&s);"""),
    ("boxed_array_into_static_slice", """
    let a = Bump::new(); let s: BBox<'static, [u32]> = BBox::new_in([1u32; 4], &a).into(); touch(&s);"""),
    ("boxed_slice_try_into_array_outlives_arena", """
    let s: BBox<[u32; 2]>; { let a = Bump::new(); let b: BBox<[u32]> = BBox::new_in([1u32; 2], &a).into(); s = BBox::try_from(b).ok().unwrap(); } touch(&s);"""),
    ("boxed_conversions_outlive_arena", """
    let s1; let s3;
    { let a = Bump::new(); let v = bumpalo::vec![in &a; 1u8, 2]; s1 = v.into_boxed_slice(); }
    { let a = Bump::new(); s3 = BBox::<[u8]>::from_iter_in([1u8, 2], &a); }
    touch(&s1); touch(&s3);"""),
    ("into_bump_slice_outlives_arena", """
    let s; { let a = Bump::new(); let v = bumpalo::vec![in &a; 1u8]; s = v.into_bump_slice(); } touch(&s);"""),
    ("into_bump_str_outlives_arena", """
    let s; { let a = Bump::new(); let v = BString::from_str_in("x", &a); s = v.into_bump_str(); } touch(&s);"""),
    ("leaked_box_outlives_arena", """
    let s; { let a = Bump::new(); s = BBox::leak(BBox::new_in(1u8, &a)); } touch(&s);"""),
    ("chunk_slice_survives_reset", """
    let mut a = Bump::new(); a.alloc(1u8);
    let c = a.iter_allocated_chunks().next(); a.reset(); touch(&c);"""),
    ("chunk_slice_during_alloc", """
    let mut a = Bump::new(); a.alloc(1u8);
    let c = a.iter_allocated_chunks().next(); a.alloc(2u8); touch(&c);"""),
    ("vec_survives_reset", """
    let mut a = Bump::new(); let mut v = Vec::new_in(&a); v.push(1u8); a.reset(); v.push(2u8);"""),
    ("string_survives_reset", """
    let mut a = Bump::new(); let mut v = BString::new_in(&a); a.reset(); v.push('x');"""),
    ("drain_survives_reset", """
    let mut a = Bump::new(); let mut v = bumpalo::vec![in &a; 1u8, 2]; let d = v.drain(..); a.reset(); touch(&d);"""),
    ("arena_shared_by_scoped_threads", """
    let a = Bump::new(); let r = &a;
    std::thread::scope(|s| { s.spawn(move || { touch(r.alloc(1u8)); }); });"""),
    ("vec_sent_to_thread", """
    let a = Bump::new(); let v = Vec::<u8>::new_in(&a);
    std::thread::scope(|s| { s.spawn(move || { touch(&v); }); });"""),
    # objects that allocate from (or otherwise touch) the arena when used or dropped must not reach
    # another thread while the owner can still use the arena
    ("splice_dropped_on_another_thread", """
    let a = Bump::new(); let mut v = bumpalo::vec![in &a; 1u8, 2, 3];
    let sp = v.splice(0..1, std::vec![4u8, 5, 6]);
    std::thread::scope(|s| { s.spawn(move || drop(sp)); touch(a.alloc(1u8)); });"""),
    ("drain_filter_on_another_thread", """
    let a = Bump::new(); let mut v = bumpalo::vec![in &a; 1u8, 2, 3];
    let d = v.drain_filter(|x| *x > 1);
    std::thread::scope(|s| { s.spawn(move || drop(d)); touch(a.alloc(1u8)); });"""),
    ("vec_mut_ref_on_another_thread", """
    let a = Bump::new(); let mut v = bumpalo::vec![in &a; 1u8, 2, 3]; let r = &mut v;
    std::thread::scope(|s| { s.spawn(move || r.push(4)); touch(a.alloc(1u8)); });"""),
    ("string_mut_ref_on_another_thread", """
    let a = Bump::new(); let mut v = BString::from_str_in("x", &a); let r = &mut v;
    std::thread::scope(|s| { s.spawn(move || r.push('y')); touch(a.alloc(1u8)); });"""),
    ("vec_shared_ref_cloned_on_another_thread", """
    let a = Bump::new(); let v = bumpalo::vec![in &a; 1u8, 2, 3]; let r = &v;
    std::thread::scope(|s| { s.spawn(move || { let c = r.clone(); touch(&c); }); touch(a.alloc(1u8)); });"""),
    # a view into a collection (Drain, Splice, DrainFilter, slices, iterators, str views) borrows the
    # collection for as long as it lives: using, moving or dropping the collection meanwhile is rejected
    ("vec_pushed_while_drain_alive", """
    let a = Bump::new(); let mut v = bumpalo::vec![in &a; 1u8, 2, 3]; let d = v.drain(..); v.push(4); touch(&d);"""),
    ("vec_dropped_while_drain_alive", """
    let a = Bump::new(); let mut v = bumpalo::vec![in &a; 1u8, 2, 3]; let d = v.drain(1..); drop(v); touch(&d);"""),
    ("vec_read_while_drain_alive", """
    let a = Bump::new(); let mut v = bumpalo::vec![in &a; 1u8, 2, 3]; let d = v.drain(..2); touch(&v.len()); touch(&d);"""),
    ("vec_pushed_while_drain_filter_alive", """
    let a = Bump::new(); let mut v = bumpalo::vec![in &a; 1u8, 2, 3]; let d = v.drain_filter(|x| *x > 1); v.push(4); touch(&d);"""),
    ("vec_pushed_while_splice_alive", """
    let a = Bump::new(); let mut v = bumpalo::vec![in &a; 1u8, 2, 3]; let d = v.splice(0..1, std::vec![7u8]); v.push(4); touch(&d);"""),
    ("vec_pushed_while_slice_alive", """
    let a = Bump::new(); let mut v = bumpalo::vec![in &a; 1u8, 2, 3]; let s = v.as_slice(); v.push(4); touch(&s);"""),
    ("vec_pushed_while_mut_slice_alive", """
    let a = Bump::new(); let mut v = bumpalo::vec![in &a; 1u8, 2, 3]; let s = v.as_mut_slice(); v.push(4); touch(&s);"""),
    ("vec_pushed_while_iter_alive", """
    let a = Bump::new(); let mut v = bumpalo::vec![in &a; 1u8, 2, 3]; let it = v.iter(); v.push(4); touch(&it);"""),
    ("vec_cleared_while_iter_mut_alive", """
    let a = Bump::new(); let mut v = bumpalo::vec![in &a; 1u8, 2, 3]; let it = v.iter_mut(); v.clear(); touch(&it);"""),
    ("vec_moved_while_element_borrowed", """
    let a = Bump::new(); let mut v = bumpalo::vec![in &a; 1u8, 2, 3]; let e = &mut v[0]; let w = v; touch(&e); touch(&w);"""),
    ("string_pushed_while_drain_alive", """
    let a = Bump::new(); let mut v = BString::from_str_in("abc", &a); let d = v.drain(..1); v.push('x'); touch(&d);"""),
    ("string_dropped_while_drain_alive", """
    let a = Bump::new(); let mut v = BString::from_str_in("abc", &a); let d = v.drain(..); drop(v); touch(&d);"""),
    ("string_pushed_while_str_alive", """
    let a = Bump::new(); let mut v = BString::from_str_in("abc", &a); let s = v.as_str(); v.push('x'); touch(&s);"""),
    ("string_pushed_while_chars_alive", """
    let a = Bump::new(); let mut v = BString::from_str_in("abc", &a); let s = v.chars(); v.push('x'); touch(&s);"""),
    ("string_cleared_while_mut_str_alive", """
    let a = Bump::new(); let mut v = BString::from_str_in("abc", &a); let s = v.as_mut_str(); v.clear(); touch(&s);"""),
    ("box_dropped_while_deref_alive", """
    let a = Bump::new(); let b = BBox::new_in(5u8, &a); let r = &*b; drop(b); touch(&r);"""),
    ("box_moved_while_mut_deref_alive", """
    let a = Bump::new(); let mut b = BBox::new_in(5u8, &a); let r = &mut *b; let c = b; touch(&r); touch(&c);"""),
    # the by-value and draining iterators hand out &[T] through &self (as_slice): they may only be
    # shared between threads when T may, and only be sent when T may
    ("into_iter_of_cells_shared_between_threads", """
    let a = Bump::new(); let v = bumpalo::vec![in &a; std::cell::Cell::new(1u64), std::cell::Cell::new(2u64)];
    let it = v.into_iter(); let r = &it;
    std::thread::scope(|s| { s.spawn(move || { touch(&r.as_slice()[0]); }); });"""),
    ("drain_of_cells_shared_between_threads", """
    let a = Bump::new(); let mut v = bumpalo::vec![in &a; std::cell::Cell::new(1u64), std::cell::Cell::new(2u64)];
    let d = v.drain(..); let r = &d;
    std::thread::scope(|s| { s.spawn(move || { touch(&r); }); });"""),
    ("into_iter_of_rc_sent_to_thread", """
    let a = Bump::new(); let v = bumpalo::vec![in &a; std::rc::Rc::new(1u64)];
    let it = v.into_iter();
    std::thread::scope(|s| { s.spawn(move || { touch(&it); }); });"""),
    ("vec_of_cells_shared_between_threads", """
    let a = Bump::new(); let v = bumpalo::vec![in &a; std::cell::Cell::new(1u64)]; let r = &v;
    std::thread::scope(|s| { s.spawn(move || { touch(&r[0]); }); });"""),
    ("box_of_cell_shared_between_threads", """
    let a = Bump::new(); let b = BBox::new_in(std::cell::Cell::new(1u64), &a); let r = &b;
    std::thread::scope(|s| { s.spawn(move || { touch(&**r); }); });"""),
    ("arena_moved_while_borrowed", """
    let a = Bump::new(); let x = a.alloc(1u8); let b = a; touch(&x); touch(&b);"""),
    ("arena_moved_into_box_while_borrowed", """
    let a = Bump::new(); let v = Vec::<u8>::new_in(&a); let b = std::boxed::Box::new(a); touch(&v); touch(&b);"""),
]


DEEP_KINDS = ("ref", "vec", "vecd")


def enumerate_programs(maxlen, deep=False):
    out = []
    for kind in KINDS:
        alpha = alphabet(kind)
        top = maxlen + 1 if (deep and kind in DEEP_KINDS) else maxlen
        if kind not in BASE_KINDS:
            top = min(top, 3)          # the other ways of obtaining a value: every program up to 3 statements
        for n in range(1, top + 1):
            for prog in itertools.product(alpha, repeat=n):
                if well_scoped(prog) and interesting(prog):
                    out.append((kind, list(prog)))
    return out


# ---------------------------------------------------------------- rustc
def crate_artifacts():
    """(path of libbumpalo rlib built from /repo by the harness build, deps dir)"""
    env = dict(os.environ)
    env.update({"RUSTFLAGS": B.RUSTFLAGS, "CARGO_TARGET_DIR": B.CARGO_TARGET, "CARGO_NET_OFFLINE": "true"})
    p = subprocess.run(["cargo", "build", "--offline", "--bins", "--message-format=json"], cwd=B.HARNESS, env=env,
                       stdout=subprocess.PIPE, stderr=subprocess.PIPE, text=True, timeout=1200)
    rlib = None
    for line in p.stdout.split("\n"):
        if not line.startswith("{"):
            continue
        try:
            m = json.loads(line)
        except ValueError:
            continue
        if m.get("reason") == "compiler-artifact" and m.get("target", {}).get("name") == "bumpalo":
            for f in m.get("filenames", []):
                if f.endswith(".rlib"):
                    rlib = f
    if not rlib:
        raise RuntimeError("bumpalo rlib not found in cargo output: " + p.stderr[-500:])
    return rlib, os.path.dirname(rlib)


def compile_file(src_path, rlib, deps, outdir):
    """-> (returncode, list of (line_number, message) for every error)"""
    p = subprocess.run(["rustc", "--edition", "2021", "--crate-type", "lib", "--emit=metadata", "--error-format=json",
                        "--cfg", "bumpalo_verif", "-A", "warnings", "--extern", "bumpalo=" + rlib, "-L", "dependency=" + deps,
                        "--out-dir", outdir, src_path],
                       stdout=subprocess.PIPE, stderr=subprocess.PIPE, text=True, timeout=900)
    errs = []
    for line in p.stderr.split("\n"):
        if not line.startswith("{"):
            continue
        try:
            m = json.loads(line)
        except ValueError:
            continue
        if m.get("level") != "error":
            continue
        spans = m.get("spans") or []
        prim = [s for s in spans if s.get("is_primary")] or spans
        ln = prim[0]["line_start"] if prim else 0
        code = (m.get("code") or {}).get("code", "")
        errs.append((ln, "%s %s" % (code, m.get("message", ""))))
    return p.returncode, errs


def judge(funcs, rlib, deps, workdir, tag):
    """funcs: list of (name, source).  Returns {name: (ok, [error messages])}.
    Functions with errors are removed and the rest recompiled until the file is clean,
    because rustc does not borrow-check a crate that has type errors."""
    verdict = {}
    todo = list(funcs)
    rounds = 0
    while todo:
        rounds += 1
        path = os.path.join(workdir, "probe_%s_%d.rs" % (tag, rounds))
        ranges = []
        with open(path, "w") as f:
            f.write(PRELUDE)
            ln = PRELUDE.count("\n") + 1
            for name, src in todo:
                n = src.count("\n") + 1
                ranges.append((ln, ln + n - 1, name))
                f.write(src + "\n")
                ln += n
        rc, errs = compile_file(path, rlib, deps, workdir)
        bad = {}
        for eln, msg in errs:
            for lo, hi, name in ranges:
                if lo <= eln <= hi:
                    bad.setdefault(name, []).append(msg)
                    break
            else:
                if msg.strip() and not msg.startswith(" aborting"):
                    bad.setdefault("?", []).append("%d: %s" % (eln, msg))
        if "?" in bad and len(bad) == 1:
            raise RuntimeError("rustc error outside every probe function: %s" % bad["?"][:3])
        bad.pop("?", None)
        if rc == 0 or not bad:
            if rc != 0:
                raise RuntimeError("rustc failed without a located error")
            for name, _src in todo:
                verdict[name] = (True, [])
            break
        for name, msgs in bad.items():
            verdict[name] = (False, msgs)
        todo = [(n, s) for n, s in todo if n not in bad]
        if rounds > 8:
            raise RuntimeError("probe did not converge")
    return verdict


def build_cases(maxlen, deep=False):
    cases = []       # (name, line kind, label, source, model tokens or None)
    for i, (kind, prog) in enumerate(enumerate_programs(maxlen, deep)):
        name = "p%d" % i
        src, model = render(kind, prog, name)
        cases.append((name, "P", kind, src, model, prog))
    for qn, body in TRAIT_QUERIES:
        cases.append(("q_" + qn, "Q", qn, "fn q_%s() { %s }" % (qn, body), None, None))
    for on, body in ORDINARY:
        cases.append(("o_" + on, "O", on, "fn o_%s() {%s\n}" % (on, body), None, None))
    for nn, body in NEGATIVE:
        cases.append(("n_" + nn, "N", nn, "fn n_%s() {%s\n}" % (nn, body), None, None))
    return cases


def run_trace(maxlen, outfile, workdir, nproc=None, deep=False):
    nproc = nproc or B.NPROC
    os.makedirs(workdir, exist_ok=True)
    rlib, deps = crate_artifacts()
    cases = build_cases(maxlen, deep)
    chunk = 120
    groups = [cases[i:i + chunk] for i in range(0, len(cases), chunk)]
    results = {}

    def work(gi):
        g = groups[gi]
        return judge([(c[0], c[3]) for c in g], rlib, deps, workdir, "g%d" % gi)
    with ThreadPoolExecutor(max_workers=nproc) as ex:
        for v in ex.map(work, range(len(groups))):
            results.update(v)
    with open(outfile, "w") as f:
        for idx, (name, lk, label, src, model, prog) in enumerate(cases):
            ok, msgs = results[name]
            f.write("H id=%d seed=0 mode=debug probe=%s\n" % (idx, name))
            for l in src.split("\n"):
                f.write("| %s\n" % l)
            for m in msgs[:3]:
                f.write("! %s\n" % m.replace("\n", " ")[:300])
            if lk == "P":
                f.write("P %s %s | %s | %s\n" % (label, "ok" if ok else "err", " ".join(model), " ".join(prog)))
            else:
                f.write("%s %s %s\n" % (lk, label, "ok" if ok else "err"))
            f.write("E\n")
    for p in os.listdir(workdir):
        if p.endswith(".rmeta") or p.endswith(".rs"):
            os.unlink(os.path.join(workdir, p))
    return len(cases)


def main():
    if len(sys.argv) >= 4 and sys.argv[1] == "trace":
        n = run_trace(int(sys.argv[2]), sys.argv[3], os.path.join(B.BUILD, "probe_work"))
        print("programs: %d" % n)
        return 0
    if len(sys.argv) >= 3 and sys.argv[1] == "one":
        kind, prog = sys.argv[2], sys.argv[3:]
        rlib, deps = crate_artifacts()
        wd = os.path.join(B.BUILD, "probe_work_one")
        os.makedirs(wd, exist_ok=True)
        src, model = render(kind, prog, "p0")
        v = judge([("p0", src)], rlib, deps, wd, "one")
        print(PRELUDE + src)
        print("// rustc: %s" % ("accepted" if v["p0"][0] else "rejected: " + "; ".join(v["p0"][1][:3])))
        trace = "H id=0 seed=0 mode=debug probe=p0\nP %s %s | %s | %s\nE\n" % (kind, "ok" if v["p0"][0] else "err", " ".join(model), " ".join(prog))
        r = subprocess.run([os.path.join(B.OCAML_BUILD, "borrow_check")], input=trace, stdout=subprocess.PIPE, text=True)
        print("// model program: %s" % " ".join(model))
        print("// " + r.stdout.strip().replace("\n", "\n// "))
        return 0
    print(__doc__)
    return 2


if __name__ == "__main__":
    sys.exit(main())
