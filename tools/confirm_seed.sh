#!/bin/bash
# usage: confirm_seed.sh <worktree> <demo build+run command, run inside the worktree>
# confirms: (1) existing tests pass with the patch, (2) demo fails with the patch, (3) demo passes without it
set -u
wt="$1"; shift
democmd="$*"
cd "$wt" || exit 2
export CARGO_TARGET_DIR="$wt/target" CARGO_NET_OFFLINE=true
echo "--- existing tests WITH patch"
cargo test --workspace --no-fail-fast --offline 2>&1 | grep -E "^test result|FAILED" | tr '\n' ';'; echo
echo "--- demo WITH patch"
bash -c "$democmd" > "$wt/out/confirm_with.txt" 2>&1; echo "exit=$?"; tail -3 "$wt/out/confirm_with.txt"
git apply -R out/patch.diff || { echo "cannot reverse patch"; exit 2; }
echo "--- demo WITHOUT patch"
bash -c "$democmd" > "$wt/out/confirm_without.txt" 2>&1; echo "exit=$?"; tail -3 "$wt/out/confirm_without.txt"
git apply out/patch.diff
