#!/usr/bin/env python3
"""Writes MANIFEST.json from the table below (kept in one place so it stays valid)."""
import json
import os

VERIF = os.path.dirname(os.path.dirname(os.path.abspath(__file__)))

ARENA_TEXT = ("proved in Coq for every state satisfying the arena invariant, every history of the arena model and every behaviour of the "
              "global allocator / sizing policy; the model is tied to /repo on every run by differential execution (extracted model vs. the real "
              "crate, debug and release builds, padded and unpadded binaries, 5 MIN_ALIGNs, fault plans, address adversary) and the extracted spec "
              "predicates of ArenaSpec.v are evaluated on the implementation's own observations. ")

CLAIMED = {
    "C01": {
        "technique": "Coq proof (safety invariant preserved by every operation, induction over histories) + model/implementation correspondence",
        "text": "C01_any_state / C01_every_step / C01_reachable / C01_alloc_in_bounds_disjoint / C01_rewind_safe / C01_zst / C01_source_fast_path: for every history that meets the caller obligations and every behaviour of the global allocator, every block handed out is non-null, inside the data part of a held chunk and disjoint from every live block and every pending reservation; no operation is excluded (the rewind of a failed initialiser is proved safe in ArenaTw.v); the fast path parsed from the source text is proved equal to the model's. " + ARENA_TEXT,
        "design_ref": "DESIGN.md §6 C01",
    },
    "C04": {
        "technique": "Coq proof (alignment part of the safety invariant; generated obligation on the crate's constants) + model/implementation correspondence",
        "text": "C04_aligned / C04_finger_aligned / C04_actual_cfg_ok / C04_ctor_refuses: every pointer handed out is aligned to the request and to MIN_ALIGN; the constants exported by the built crate are re-checked on every run (ConstsActualOk.v); constructors refuse exactly the unsupported MIN_ALIGN values (checked against the real constructors for 16 values of MIN_ALIGN). " + ARENA_TEXT,
        "design_ref": "DESIGN.md §6 C04",
    },
    "C02": {
        "technique": "Coq proof (the copies of grow/shrink stay inside the block handed out, copy_nonoverlapping only on disjoint ranges, prefix preserved; frame from C01 disjointness) + byte-level driver checks",
        "text": "C02_shrink_copies / C02_grow_copies / C02_frame / C02_alloc_copies_nothing / C02_dealloc_copies_nothing over a byte-memory model; the driver writes PRNG patterns into every block, re-reads every live block after every fourth operation and at the end, and logs closure call orders of the fill flavours. " + ARENA_TEXT + "Partial: value initialisation by the typed flavours is glue outside the model (driver-checked only). C02_source_frames (how lib.rs places values — one write of the initialiser's result, a copy of exactly src.len() elements, clones and fill initialisers in index order with one call per index — pinned as text and re-checked against /repo on every run). C02_source_fill_loop / C02_source_try_fill_loop_is_the_same / C02_fill_calls_in_index_order (the for loops of alloc_slice_fill_with and try_alloc_slice_fill_with, translated from lib.rs on every run: the closure is asked 0..len-1 in order, once each, each result stored at dst+i before the next call; FillWalkOk.v).",
        "design_ref": "DESIGN.md §6 C02",
    },
    "C03": {
        "technique": "Coq proof (structural case analysis of every operation + chunk disjointness invariant) + allocator-ledger correspondence",
        "text": "C03_frees / C03_no_early_free / C03_held_disjoint_from_static: only reset and drop give blocks back, exactly the ones they should, each recorded with the layout it was requested with; held blocks are pairwise disjoint and disjoint from the static. Whole histories: C03_ledger (multiset conservation: held at start + obtained = freed + still held) / C03_all_returned_after_drop / C03_only_obtained_blocks_are_freed. " + ARENA_TEXT + "The tracking allocator's ledger (apply_frees, extracted) is checked on every run, under fault plans. C03_source_frames (the statements of lib.rs that give memory back — the chunk-list walk, Drop, the sentinel test by address, set_ptr sparing the sentinel, reset's walk — pinned as text and re-checked on every run). C03_source_chunk_list_walk / C03_walk_is_what_drop_and_reset_report (the loop of dealloc_chunk_list, translated from lib.rs into a statement language on every run, calls dealloc exactly once per chunk of a list of any length, newest first, with the footer's data pointer and layout, and stops at the sentinel: proved by induction over the list; these calls are what the model's drop and reset report as freed).",
        "design_ref": "DESIGN.md §6 C03",
    },
    "C06": {
        "technique": "Coq proof (state after reset; induction over request lists for full-capacity reuse) + correspondence",
        "text": "C06_reset_state / C06_chunkless_noop / C06_full_capacity_reusable / C06_sp_reset_ok. " + ARENA_TEXT,
        "design_ref": "DESIGN.md §6 C06",
    },
    "C07": {
        "technique": "Coq proof (induction over the candidate loop of the transliterated sizing policy) + request-by-request correspondence of the policy with the crate",
        "text": "C07_never_exceeds / C07_held_stays_under_limit / C07_fits_in_chunk_succeeds / C07_none_is_transparent are proved of the transliterated policy of alloc_layout_slow; the policy is compared with the crate request by request (sizes, alignments, order, outcome) on every run, and sp_limit_ok is evaluated on every chunk the implementation obtains under a limit. Whole histories: C07_history_invariant / C07_never_exceeded_over_histories (for every history of the crate's policy, whatever the allocator answers, allocated_bytes <= limit at every reachable state as long as the limit is never set below what is held); the same statement is evaluated on the implementation's allocated_bytes() after every operation. " + ARENA_TEXT,
        "design_ref": "DESIGN.md §6 C07",
    },
    "C09": {
        "technique": "Coq proof (termination of the candidate loop by a halving measure, absence of the overflow panics, error-is-no-op) + correspondence under fault plans with a hang guard",
        "text": "C09_try_total / C09_loop_terminates / C09_err_is_noop. " + ARENA_TEXT + "Every fallible call is run under catch_unwind and fault plans (fail k-th, fail above a size, fail all); a call that does not return is detected by the hang guard / timeout. Partial: the infallible-iff-fallible clause is by construction of the model (one operation, two result mappings) and checked only by correspondence. C06_source_frames / C06_source_reset_accounting (reset's statements pinned as text; the value it assigns to allocated_bytes parsed from lib.rs and proved equal to the model's). C09_err_is_noop_every_operation / C09_err_keeps_memory / C09_err_then_fitting_request_succeeds (ArenaErr.v: for allocation, grow, grow_zeroed, shrink, realloc and the capacity constructor an Err leaves the state exactly as it was — chunks, fingers, limit, memory held — and a request that fits the current chunk is still served in place, whatever the global allocator would answer).",
        "design_ref": "DESIGN.md §6 C09",
    },
    "C10": {
        "technique": "Coq proof (iteration shape and containment from the safety invariant; exact growth of the slices for uniform requests) + correspondence + exactness predicate on uniform histories",
        "text": "C10_iter_shape / C10_live_contained / C10_slices_disjoint; byte-exact clause: C10_uniform_alloc_exact / C10_uniform_reset / C10_uniform_history_exact / C10_exact_predicate (one alignment between MIN_ALIGN and 16, sizes multiples of it: every allocation grows the slices by exactly its size on every path and for every allocator answer). " + ARENA_TEXT + "Every fifth history of the driver is uniform and is checked with sp_iter_exact (slice bytes = bytes allocated since the last reset). C10_uniform_history_exact lifts this to every history of uniform allocations and resets from a fresh arena. Partial: failed initialisers inside uniform histories are decided by the driver and C11's rewind theorem. Source tie: C10_source_chunk_parts (the slice ChunkFooter::as_raw_parts reports, parsed from lib.rs on every run: finger and footer address minus finger) / C10_model_lists_source_parts / C10_source_frames (both iterators' next, their constructors: start at the current footer, stop at the sentinel, follow prev). C10_source_raw_iteration (ChunkRawIter::next, call after call, assembled from the source's own end test, as_raw_parts and step to the previous footer: over a chunk list of any length the items are q_iter_chunks, newest first, ending at the sentinel).",
        "design_ref": "DESIGN.md §6 C10",
    },
    "C11": {
        "technique": "Coq proof (rewind restores the exact pre-call finger / the fresh chunk's full capacity: same request, same address, no allocator request) + probe in the driver",
        "text": "C11_no_run_without_space / C11_rewind_restores / C11_ok_keeps_slot; the driver follows every failed initialiser that allocated nothing by a probe request of the same layout (must be served without a global-allocator request), checks the error value byte for byte, and covers initialisers that allocate and keep / release / nest. " + ARENA_TEXT + "C11_rewind_keeps_everything_valid proves that whatever the initialiser allocated and kept stays valid across the rewind. Source tie: C11_source_entry / C11_source_exit (what alloc_try_with and try_alloc_try_with save on entry, and on an Err the two tests and the two fingers stored, parsed from lib.rs on every run and proved equal to the model's for every MIN_ALIGN) / C11_model_assembled_from_source_parts / C11_source_frames (slot reserved through (try_)alloc_with before the match; the error value read out once; try_fill releases with dealloc). C11_source_try_fill_loop / C11_try_fill_error_releases_block_and_stops / C11_try_fill_all_ok_fills_in_order (the for loop of alloc_slice_try_fill_with translated from lib.rs on every run: the first Err at index k leaves k stores, one dealloc of the whole block and an immediate return; FillWalkOk.v). Not a theorem: exactly-once delivery of the error value (driver check).",
        "design_ref": "DESIGN.md §6 C11",
    },
    "C12": {
        "technique": "Coq proof (corollaries of the safety invariant and of the byte-memory lemmas for the Allocator entry points) + Allocator-trait driver",
        "text": "C12_block_fits / C12_grow_keeps_prefix / C12_shrink_keeps_prefix / C12_grow_zeroed_tail / C12_err_keeps_old / C12_deallocate_any_order / C12_source_dealloc / C12_source_shrink / C12_source_grow / C12_model_assembled_from_source_parts (every branch condition, finger computation and copy length of Bump::dealloc, shrink and grow is extracted from lib.rs on every run and equals the piece of the model it stands for); every deallocate/grow/grow_zeroed/shrink in the arena histories goes through allocator_api2's Allocator on &Bump<M>, with differing old/new alignments, zero sizes, lucky alignments, several live blocks. " + ARENA_TEXT + "C12_source_realloc_dispatch / C12_realloc_assembled_from_source_parts (the crate-private Alloc::realloc RawVec uses: zero-size shortcut, new layout with the old alignment, shrink or grow, parsed from lib.rs on every run; the model's realloc is assembled from those values). Partial: standard collections parameterised by the arena are not exercised.",
        "design_ref": "DESIGN.md §6 C12",
    },
    "C13": {
        "engine": "vec",
        "technique": "Coq proof (refinement of a bitwise buffer model of Vec/RawVec to list semantics) + differential execution against std::vec::Vec and against the extracted model",
        "text": "C13_push/pop/insert/remove/swap_remove/truncate/cap_ge_len/reserve_post/drain_filter_partition/extend_copy/extend_iter/extend_hint_irrelevant/split_off/drain/resize_grow/resize_shrink/splice/splice_hints_irrelevant/dedup_by/into_iter/clone are proved; C13_source_insert / C13_source_index_checks / C13_source_remove / C13_source_split_off / C13_source_frames / C13_source_drain_drop (Drain::drop's tail move and new length) / C13_source_push_pop_append / C13_source_drain_bounds / C13_source_drain_checks tie the index checks, memmove arguments, new lengths and range resolution of the source text to the model; for all arguments (out-of-range included) of the Vec model; every generated program (26 operation kinds, boundary indices, all range forms, scripted callbacks, neighbours and canaries in the same arena) is run on bumpalo's Vec, on std's Vec (the oracle the property names) and through the extracted model, debug and release. Every history also runs a zero-sized-element section against std, and the scripted iterators lie about their size_hint. Partial: conversions and zero-sized element types are decided by the differential only. C13_into_slice (into_bump_slice(_mut) / into_boxed_slice hand out exactly the contents and drop nothing; stepped by the checker) / C13_source_drain_filter_drop / C13_source_splice (the gap Drain::fill writes into; what Drain::move_tail reserves and moves); pinned: Splice::drop's sequence of steps, fill's loop, IntoIter's construction, next, next_back and destructor, DrainFilter::next and its destructor, retain, drain_filter's constructor, dedup_by and its partition loop, the three into_* conversions. C13_source_dedup_loop / C13_source_dedup_loop_is_the_model (the while loop of partition_dedup_by, translated from vec.rs into a statement language on every run, with the caller's closure answered by a script: for every slice length and every script, panics included, it asks, swaps and counts exactly as the model's dedup_loop).",
        "design_ref": "DESIGN.md §6 C13",
    },
    "C14": {
        "engine": "string",
        "technique": "Coq proof (well-formed UTF-8 closed under concatenation and splitting at char boundaries; lossy chunk iterator invariant; generated obligation on the width table) + differential execution against std::string::String and the extracted model",
        "text": "C14_split_at_boundary / C14_concat / C14_truncate / C14_insert_str / C14_split_off / C14_remove / C14_replace_range / C14_from_utf8 / C14_lossy_chunk / C14_lossy_valid / C14_lossy_identity / C14_encode_wellformed / C14_decode_encode / C14_push / C14_insert / C14_insert_panics_off_boundary / C14_retain / C14_retain_all_is_identity / C14_pop / C14_from_utf16_valid / C14_from_utf16_roundtrip / C14_source_decoder (the loop body of the lossy decoder, parsed from lossy.rs on every run, decides like the model on every byte string) / C14_from_utf16_exact (the model of from_utf16_in accepts exactly well-formed UTF-16 and yields the UTF-8 of the same scalar values) / C14_lossy_is_maximal_subpart_repair (for every byte string the decoder's output equals an implementation-independent specification: each maximal subpart of an ill-formed sequence becomes one U+FFFD; the extracted specification is also compared with std's output on every swept input). Every generated program (18 operation kinds at every byte index, all range forms, 1-4 byte characters, panicking retain predicates) runs on bumpalo's String and std's String with a UTF-8 validity check after every operation; the decoders are compared with std on all byte strings up to length 2 (and through the model), a sweep of length 3, structured ill-formed input, and all single UTF-16 units plus structured pairs. The lead-byte width table is read back from the built crate on every run. UTF-16 texts (boundary units alone, in pairs and triples, random surrogate-heavy texts) go to the extracted model, the implementation and std. C14_encode_decode / C14_extend / C14_extend_by_text / C14_push_str. Source tie of the byte moves: C14_source_remove / C14_source_insert_bytes / C14_source_pop_truncate / C14_source_drain_bounds / C14_source_frames (the arguments String::remove, insert_bytes, pop and truncate pass to ptr::copy and set_len, and the boundary assertions in front of them, parsed from string.rs on every run) and C14_remove_assembled_from_source / C14_insert_assembled_from_source / C14_truncate_assembled_from_source / C14_remove_by_memmove / C14_insert_by_memmove (those moves done to a buffer give the model's result, for every text, index and spare capacity). Partial: the items a drain yields, format!/write_fmt and trait forwarding are decided by the differential only. C14_retain_loop_is_model (the buffer-level loop of String::retain computes s_retain for every script of non-panicking answers). C14_drain_yields (what a String Drain yields from either end, conservation over the range; stepped by the checker) / C14_pop_assembled_from_source.",
        "design_ref": "DESIGN.md §6 C14",
    },
    "C15": {
        "engine": "vec",
        "technique": "Coq proof (drop logs of the Vec model; permutation-based conservation for drain_filter) + drop-ledger differential against std",
        "text": "C15_truncate_drops / C15_drain_filter_conserves / C15_remove_moves_out / C15_drop_vec; elements with observable destructors and per-operation drop logs are compared with std's and with the model's, plus an exact final-drop check. Partial: Box and conversions are covered by the drivers only.",
        "design_ref": "DESIGN.md §6 C15",
    },
    "C16": {
        "engine": "vec",
        "technique": "Coq proof (loop invariant of DrainFilter::next + permutation conservation under arbitrary panic positions; truncate with panicking destructors) + drop-ledger driver enumerating panic points",
        "text": "C16_drain_filter_no_double_drop / C16_drain_filter_nodup / C16_truncate_panicking_drop hold for every answer script (a panic at any predicate invocation, any number of items taken by the caller). The driver panics predicates, Clone, Drop and iterators at random invocation indices and checks: no identity twice, nothing dropped reachable, exact final drop. Partial: dedup_by/resize/extend/String::retain/Box are decided on the implementation only. C16_string_retain_panic_safe (StringRetain.v: the loop of String::retain at buffer level with its length guard; for every valid text and every script of keep/delete/panic answers the string after unwinding holds exactly the characters kept so far, valid UTF-8) with C16_source_string_retain / C16_source_string_retain_frames (the guard's new length, the move test and the memmove arguments parsed from string.rs on every run; the surrounding statements pinned); the checker steps every retain with a panicking predicate through the extracted retain_run. C16_resize_clone_panic / C16_resize_clone_panic_no_double_drop (VecPanic.v: resize / extend_with when Clone panics at any call: old contents plus the clones made so far, the value dropped exactly once and unreachable); the checker steps every resize with a panicking Clone through the extracted resize_clone_panic. C16_extend_panic (extend / extend_from_slice when the iterator or Clone panics after j items: exactly those were pushed), also stepped by the checker. C16_source_truncate_loop / C16_source_truncate_loop_is_the_model (the for loop of Vec::truncate, translated from vec.rs on every run with destructors answered by a script: for every count and script it lowers the length, steps back and drops exactly as the model's truncate_loop, a panic included). C16_source_extend_with / C16_extend_with_clone_panic / C16_extend_with_trace_is_the_model (the whole body of Vec::extend_with translated on every run: store, pointer step, then the length; a panicking clone leaves exactly the clones written, the model's write_all; ExtendWalkOk.v). C16_source_drain_filter_next / C16_source_drain_filter_next_is_the_model (the while loop of DrainFilter::next translated on every run equals VecModel.df_next for every state and script; DrainFilterWalkOk.v). C16_fill_closure_panic (a panicking initialiser closure in the arena's slice fills leaves exactly the stores made so far).",
        "design_ref": "DESIGN.md §6 C16",
    },
    "C19": {
        "engine": "vec",
        "technique": "Coq proof (RawVec capacity arithmetic with explicit usize operations) + boundary grid against std and the model",
        "text": "C19_reserve_covers / C19_reserve_refuses / C19_with_capacity / C19_slices_sum_refused / C19_source_amortized / C19_source_cap / C19_source_reserve_shortcut / C19_source_new_cap (RawVec::cap, the inlined reserve shortcut and the capacity asked for, parsed from raw_vec.rs on every run, equal the model); a grid of 576 (entry point, element size, count, starting length) cases on both sides of usize::MAX, usize::MAX/size, isize::MAX/size is run against std (where std does not abort) and the model, plus boundary scenarios (slices of zero-sized elements summing past usize::MAX, String reserve/with_capacity). Arena-side size checks are covered by C09's no-panic theorem and layout_ok in the arena model. The arena engine counts too: a request of 2^47 bytes or more is never granted and never makes a fallible method panic, for every MIN_ALIGN.",
        "design_ref": "DESIGN.md §6 C19",
    },
    "C17": {
        "engine": "box",
        "technique": "Coq proof (ownership bookkeeping of a Box model: drop once, no arena release, conversions preserve value and order, downcast iff tag) + differential execution against std::boxed::Box",
        "text": "C17_drop_once_no_release / C17_into_inner_moves / C17_leak_never_drops / C17_new_one_alloc / C17_array_slice_roundtrip / C17_downcast_iff_tag / C17_life; generated scenarios (new_in, pin_in, into_inner, into_raw/from_raw, leak, downcast matching and not, Vec/boxed slice/array conversions, from_iter_in, zero-sized values, comparisons/hash/format/iterator forwarding) are run on bumpalo's Box and std's Box with a drop ledger, the arena's getters and the global-allocator log. Partial: the model is deliberately thin; trait forwarding is differential-only. C17_source_frames (the ten statements of boxed.rs the model's operations stand for — Drop, new_in, into_raw, from_raw, leak, into_inner, both array/slice conversions, both downcasts — pinned as text and re-checked against /repo on every run).",
        "design_ref": "DESIGN.md §6 C17",
    },
    "C05": {
        "engine": "borrow",
        "technique": "Coq proof (soundness of the borrow discipline the public signatures impose, over a client language with a run-time misuse semantics) + signature facts regenerated from /repo/src + compile-probe correspondence against rustc",
        "text": "C05_accepted_programs_never_misuse / C05_misuse_is_rejected (every program of the client language, any length), the misuse families in every context (C05_use_after_reset, C05_iterator_survives_reset, C05_outlives_or_moved_arena, C05_iterator_outlives_arena, C05_alloc_during_iteration, C05_no_sharing_between_threads, C05_collections_not_sent, C05_thread_bounds), the ordinary patterns for every n (C05_many_allocations_alive, C05_idle_arena_moves_to_thread) and C05_each_fact_needed. actual_facts is re-read from the source text on every run (tools/sigfacts.py -> SigFactsActual.v, obligation facts_ok actual_facts in SigFactsOk.v). The tie between `accepts actual_facts` and the compiler is the probe: every well-scoped program up to 3 (quick) / 4-5 (thorough) statements over 59 ways of obtaining an arena-backed value (every allocation helper, constructor, conversion and view of Bump/Vec/String/Box, with and without destructors; programs longer than 3 statements for the 10 basic kinds only) is rendered to Rust and type/borrow-checked by rustc against the crate built from /repo; rustc's verdict is compared with the extracted `accepts`, and any compiled program whose `drun` is false is a failing input. Partial: the language has one arena and no functions/structs; richer shapes (returning from functions, into_bump_slice, leak, drain, Box<Bump>) are fixed negative/ordinary probes, not theorems. C05_source_auto_trait_impls (the crate's eight unsafe impl Send/Sync lines, with their bounds, and the absence of any other, pinned as text and re-read from /repo on every run).",
        "design_ref": "DESIGN.md §6 C05",
    },
    "C18": {
        "technique": "Coq proof (capacity lemmas by induction over request lists; doubling of the first candidate of the sizing policy) + correspondence of request sizes",
        "text": "C18_capacity_honoured / C18_capacity_exact / C18_with_capacity_size / C18_growth_doubles / C18_source_chunk_size / C18_source_chunk_capacity / C18_source_slow_path / C18_source_frames / C18_actual_consts_small / C18_vec_reserve_doubles / C18_vec_reserved_capacity / C18_vec_reallocations_logarithmic. " + ARENA_TEXT + "Spec predicate sp_growth_ok on every chunk obtained at the first attempt; the vec engine adds growth probes (reallocations of a growing Vec/String are at most log2(n)+2 for element sizes 1..4096; reserved capacity accepts n elements without moving). Whole histories: C18_policy_first_candidate_or_nothing / C18_history_doubling_chain / C18_arena_growth_logarithmic (over every history of the crate's policy with a granting allocator and no limit, default*2^(chunks-1) <= newest chunk and everything held <= 2*newest) / C18_new_chunk_bounded; the executable form sp_chain_ok is evaluated on the blocks really held after every operation of every generous history. Partial: the constant factor between held memory and the bytes requested is not summed into one theorem. C18_source_constructor / C18_constructor_assembled_from_source_parts (try_with_min_align_and_capacity: the two assertions, the zero test, the layout and the absence of a given chunk size parsed from lib.rs on every run; the model's with_capacity is assembled from them).",
        "design_ref": "DESIGN.md §6 C18",
    },
    "C20": {
        "technique": "Coq proof (frame/locality/projection over interleavings of several arenas; write footprint inside own chunks) + hook-observed finger stores compared with the model",
        "text": "C20_frame / C20_local / C20_projection / C20_footprint_owned / C20_chunkless_writes_nothing. " + ARENA_TEXT + "The implementation's finger stores are reported by the --cfg bumpalo_verif hook and checked by sp_stores_owned on every operation. The vec engine contributes a cross-arena section (collections of two arenas that meet through append / extend / push_str: every buffer stays inside its own arena's chunks and growth is charged to that arena only). That disjoint write footprints imply data-race freedom rests on the Rust memory model (trusted).",
        "design_ref": "DESIGN.md §6 C20",
    },
    "C08": {
        "technique": "Coq proof (invariant by induction over operation histories) + model/implementation correspondence",
        "text": "Theorems C08_accounting / C08_zero_when_nothing_held / C08_changes_only_on_acquire_release / C08_source_accounting are proved in Coq for every history of the arena model and every behaviour of the global allocator; the model is tied to /repo on every run by differential execution (extracted model vs. the real crate, debug and release, 5 MIN_ALIGNs) and the extracted spec predicate sp_accounting is evaluated on the implementation's own getters against the tracking allocator's ledger. C08_source_metadata_frame (allocated_bytes_including_metadata counts the raw chunk iterator's items times the footer size).",
        "design_ref": "DESIGN.md §6 C08",
    },
}

NOT_YET = {}

LEVEL_NOTE = ("Trusted: Coq 8.16.1 kernel + vm_compute; no axioms (Print Assumptions re-read every run); the hand-written "
              "model (tied to the code by the correspondence run, not verified against the Rust text); ExtrOcamlBasic extraction "
              "and OCaml/Rust/Python glue; GlobalAlloc contract of the system allocator.")


def main():
    props = [json.loads(l) for l in open(os.path.join(VERIF, "properties.jsonl"))]
    checks = []
    na = []
    for p in props:
        pid = p["id"]
        if pid in CLAIMED:
            c = CLAIMED[pid]
            checks.append({
                "property_id": pid,
                "quick_cmd": "./bin/check %s --tier quick" % pid,
                "thorough_cmd": "./bin/check %s --tier thorough" % pid,
                "evidence_file": "evidence/%s.json" % pid,
                "replay_cmd_template": "./bin/check %s --replay {path}" % pid,
                "engine": c.get("engine", "arena"),
                "level_claimed": {"category": "proof", "text": c["text"], "design_ref": c["design_ref"]},
                "level_note": c.get("level_note", LEVEL_NOTE),
                "technique": c["technique"],
            })
        else:
            na.append({"property_id": pid, "reason": NOT_YET.get(pid, "check not built yet (work in progress; see DESIGN.md §8 build order) — not a claim that proof cannot apply")})
    m = {
        "version": 1,
        "setup_cmd": "./bin/setup",
        "hooks": {
            "guard": "bumpalo_verif",
            "enable": "RUSTFLAGS=\"--cfg bumpalo_verif\" (set by tools/bvlib.py for the harness builds)",
            "baseline_off_cmd": "cd /repo && cargo test --workspace --no-fail-fast --offline",
            "source_commits": ["78e78dd", "75664ef"],
            "add_only": True,
        },
        "engines": [
            {"name": "borrow", "path": "coq/Borrow*.v + coq/SigFacts*.v + tools/sigfacts.py + tools/borrow_probe.py + ocaml/borrow_check.ml",
             "serves_properties": ["C05"],
             "kind_free_text": "client-language model of borrowing with a soundness theorem; facts parsed from the signatures; rustc compile probe of every small program compared with the extracted acceptance function"},
            {"name": "box", "path": "coq/BoxModel.v + harness/src/bin/box_driver.rs + ocaml/box_check.ml",
             "serves_properties": ["C17"],
             "kind_free_text": "ownership model of Box with theorems; differential execution against std::boxed::Box with drop ledger and arena observations"},
            {"name": "string", "path": "coq/Utf8*.v + coq/LossyTable*.v + harness/src/bin/string_driver.rs + ocaml/string_check.ml",
             "serves_properties": ["C14"],
             "kind_free_text": "Coq theory of well-formed UTF-8, char boundaries and the lossy decoder; differential execution against std::string::String, core::str::from_utf8, from_utf8_lossy, from_utf16"},
            {"name": "vec", "path": "coq/Vec*.v + harness/src/bin/vec_driver.rs + ocaml/vec_check.ml",
             "serves_properties": ["C13", "C15", "C16", "C17", "C18", "C19"],
             "kind_free_text": "Coq model of Vec/RawVec with refinement theorems; differential execution against std::vec::Vec and the extracted model; drop ledger; zero-sized element section; C15/C16 also consume the string and box engines' reports"},
            {"name": "arena", "path": "coq/Arena*.v + harness/src/bin/arena_driver.rs + ocaml/arena_check.ml",
             "serves_properties": ["C01", "C02", "C03", "C04", "C06", "C07", "C08", "C09", "C10", "C11", "C12", "C18", "C20"],
             "kind_free_text": "Coq model of Bump with theorems; differential execution of the extracted model against the real crate; extracted spec predicates evaluated on the implementation's observations"},
        ],
        "checks": checks,
        "not_applicable": na,
        "notes": "See DESIGN.md. known_findings.json lists repaired (fixed:) and open findings.",
    }
    with open(os.path.join(VERIF, "MANIFEST.json"), "w") as f:
        json.dump(m, f, indent=1)


if __name__ == "__main__":
    main()
