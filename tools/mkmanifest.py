#!/usr/bin/env python3
"""Writes MANIFEST.json from the table below (kept in one place so it stays valid)."""
import json
import os

VERIF = os.path.dirname(os.path.dirname(os.path.abspath(__file__)))

ARENA_TEXT = ("proved in Coq for every state satisfying the arena invariant, every history of the arena model and every behaviour of the "
              "global allocator / sizing policy; the model is tied to /repo on every run by differential execution (extracted model vs. the real "
              "crate, debug and release builds, padded and unpadded binaries, 5 MIN_ALIGNs, fault plans, address adversary) and the extracted spec "
              "predicates of ArenaSpec.v are evaluated on the implementation's own observations. ")

CLAIMED = {
    "C01": {
        "technique": "Coq proof (safety invariant preserved by every operation, induction over histories) + model/implementation correspondence",
        "text": "C01_any_state / C01_reachable / C01_zst: every block handed out is non-null, inside the data part of a held chunk and disjoint from every live or reserved block; " + ARENA_TEXT + "Partial: the finger rewind of a failed *_try_with initialiser is excluded from the theorem (no_rewind) and covered by correspondence + sp_block_ok on the implementation only.",
        "design_ref": "DESIGN.md §6 C01",
    },
    "C04": {
        "technique": "Coq proof (alignment part of the safety invariant; generated obligation on the crate's constants) + model/implementation correspondence",
        "text": "C04_aligned / C04_finger_aligned / C04_actual_cfg_ok / C04_ctor_refuses: every pointer handed out is aligned to the request and to MIN_ALIGN; the constants exported by the built crate are re-checked on every run (ConstsActualOk.v); constructors refuse exactly the unsupported MIN_ALIGN values (checked against the real constructors for 16 values of MIN_ALIGN). " + ARENA_TEXT,
        "design_ref": "DESIGN.md §6 C04",
    },
    "C08": {
        "technique": "Coq proof (invariant by induction over operation histories) + model/implementation correspondence",
        "text": "Theorems C08_accounting / C08_zero_when_nothing_held / C08_changes_only_on_acquire_release are proved in Coq for every history of the arena model and every behaviour of the global allocator; the model is tied to /repo on every run by differential execution (extracted model vs. the real crate, debug and release, 5 MIN_ALIGNs) and the extracted spec predicate sp_accounting is evaluated on the implementation's own getters against the tracking allocator's ledger.",
        "design_ref": "DESIGN.md §6 C08",
    },
}

NOT_YET = {}

LEVEL_NOTE = ("Trusted: Coq 8.16.1 kernel + vm_compute; no axioms (Print Assumptions re-read every run); the hand-written "
              "model (tied to the code by the correspondence run, not verified against the Rust text); ExtrOcamlBasic extraction "
              "and OCaml/Rust/Python glue; GlobalAlloc contract of the system allocator.")


def main():
    props = [json.loads(l) for l in open(os.path.join(VERIF, "properties.jsonl"))]
    checks = []
    na = []
    for p in props:
        pid = p["id"]
        if pid in CLAIMED:
            c = CLAIMED[pid]
            checks.append({
                "property_id": pid,
                "quick_cmd": "./bin/check %s --tier quick" % pid,
                "thorough_cmd": "./bin/check %s --tier thorough" % pid,
                "evidence_file": "evidence/%s.json" % pid,
                "replay_cmd_template": "./bin/check %s --replay {path}" % pid,
                "engine": c.get("engine", "arena"),
                "level_claimed": {"category": "proof", "text": c["text"], "design_ref": c["design_ref"]},
                "level_note": c.get("level_note", LEVEL_NOTE),
                "technique": c["technique"],
            })
        else:
            na.append({"property_id": pid, "reason": NOT_YET.get(pid, "check not built yet (work in progress; see DESIGN.md §8 build order) — not a claim that proof cannot apply")})
    m = {
        "version": 1,
        "setup_cmd": "./bin/setup",
        "hooks": {
            "guard": "bumpalo_verif",
            "enable": "RUSTFLAGS=\"--cfg bumpalo_verif\" (set by tools/bvlib.py for the harness builds)",
            "baseline_off_cmd": "cd /repo && cargo test --workspace --no-fail-fast --offline",
            "source_commits": ["78e78dd", "75664ef"],
            "add_only": True,
        },
        "engines": [
            {"name": "arena", "path": "coq/Arena*.v + harness/src/bin/arena_driver.rs + ocaml/arena_check.ml",
             "serves_properties": ["C01", "C02", "C03", "C04", "C06", "C07", "C08", "C09", "C10", "C11", "C12", "C18", "C20"],
             "kind_free_text": "Coq model of Bump with theorems; differential execution of the extracted model against the real crate; extracted spec predicates evaluated on the implementation's observations"},
        ],
        "checks": checks,
        "not_applicable": na,
        "notes": "See DESIGN.md. known_findings.json lists repaired (fixed:) and open findings.",
    }
    with open(os.path.join(VERIF, "MANIFEST.json"), "w") as f:
        json.dump(m, f, indent=1)


if __name__ == "__main__":
    main()
